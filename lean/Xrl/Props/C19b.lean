import Xrl.Props.C19
/-!
# C19 (second file) — the jump-factor family, the Kissel aggregates, line energies

Same conventions as Props/C19.lean.  The jump-factor family is proved in `JRelI` (JCore/JRel.lean): everything `JRel` compares
except the **text** of the `IllegalArgumentException` — Java's `Jump_from_L1/L2/L3` call the throwing `EdgeEnergy(Z, shell)` where C
calls `EdgeEnergy(Z, shell, NULL)` and reports "The excitation energy too low to excite the shell" itself (witness W6).
-/
set_option linter.unusedSimpArgs false
set_option linter.unusedVariables false
set_option linter.unusedSectionVars false
namespace Xrl
namespace C19

/-- bring the value-or-zero fact of an accessor call into the context (names hygienic; `jeq_simp` rewrites with them) -/
macro "jeq_catch" t:term : tactic => `(tactic| obtain ⟨v, hc, hj⟩ := $t)

/-- the throwing accessor against the C call with `NULL`: a value on both sides, or C returns 0 and Java throws (the C accessor never stops) -/
theorem acc_cases_EdgeEnergy (T : Tables ℝ) (Z m : Int) (hZ : inI32 Z) (hm : inI32 m) :
    (∃ v, Gen.EdgeEnergy T Z m Slot.null = .ok (v, Slot.null) ∧ JGen.EdgeEnergy (JTables.ofC T) Z m = .ok v) ∨
    (∃ e : Err, Gen.EdgeEnergy T Z m Slot.null = .ok (0, Slot.null) ∧ JGen.EdgeEnergy (JTables.ofC T) Z m = .error (.iae e.msg)) := by
  obtain ⟨r, hr⟩ := c_total_EdgeEnergy T Z m hZ hm
  rcases (java_eq_c_EdgeEnergy T Z m hZ hm Slot.null rfl).cases with h | ⟨e, hc, hj⟩ | ⟨a, b, hc, _⟩ | ⟨a, hc⟩
  · exact Or.inl h
  · exact Or.inr ⟨e, hc, hj⟩
  · rw [hc] at hr; cases hr
  · rw [hc] at hr; cases hr

section jumpsL
variable (T : Tables ℝ) (Z : Int) (hZ : inI32 Z) (E : ℝ) (s : Slot) (hs : s.isFull = false)
include hZ hs

theorem jump_L1_rel :
    JRelI (do let f ← JGen.Jump_from_L1 (JTables.ofC T) Z E
              if f = 0 then throw (JStop.iae "Jump factor unavailable for element and shell") else pure f)
      (Gen.Jump_from_L1 T Z E s) s := by
  jeq_start JGen.Jump_from_L1 Gen.Jump_from_L1
  jeq_catch (catchT_EdgeEnergy T Z 0 hZ (by decide))
  jeq_catch (catchT_JumpFactor T Z 0 hZ (by decide))
  jeq_catch (catchT_JumpFactor T Z 1 hZ (by decide))
  jeq_catch (catchT_FluorYield T Z 1 hZ (by decide))
  rcases acc_cases_EdgeEnergy T Z 1 hZ (by decide) with ⟨v1, hc1, hj1⟩ | ⟨e1, hc1, hj1⟩ <;>
  jeqi_auto

theorem jump_L2_rel
    (hgap : ∀ m, JGen.EdgeEnergy (JTables.ofC T) Z 2 = .error (.iae m) → JGen.EdgeEnergy_catch (JTables.ofC T) Z 1 = .ok 0) :
    JRelI (do let f ← JGen.Jump_from_L2 (JTables.ofC T) Z E
              if f = 0 then throw (JStop.iae "Jump factor unavailable for element and shell") else pure f)
      (Gen.Jump_from_L2 T Z E s) s := by
  jeq_start JGen.Jump_from_L2 Gen.Jump_from_L2
  obtain ⟨eK, hcK, hjK⟩ := catchT_EdgeEnergy T Z 0 hZ (by decide)
  obtain ⟨eL1, hcL1, hjL1⟩ := catchT_EdgeEnergy T Z 1 hZ (by decide)
  obtain ⟨jK, hcjK, hjjK⟩ := catchT_JumpFactor T Z 0 hZ (by decide)
  obtain ⟨j1, hcj1, hjj1⟩ := catchT_JumpFactor T Z 1 hZ (by decide)
  obtain ⟨j2, hcj2, hjj2⟩ := catchT_JumpFactor T Z 2 hZ (by decide)
  obtain ⟨ck, hcck, hjck⟩ := catchT_CosKronTransProb T Z 1 hZ (by decide)
  obtain ⟨y, hcy, hjy⟩ := catchT_FluorYield T Z 2 hZ (by decide)
  rcases acc_cases_EdgeEnergy T Z 2 hZ (by decide) with ⟨v1, hc1, hj1⟩ | ⟨e1, hc1, hj1⟩
  · simp only [hcK, hjK, hcL1, hjL1, hc1, hj1, bind_ok, jbind_ok]
    by_cases hK : eK < E ∧ (0.0 : ℝ) < eK
    · simp only [hK, and_self, ↓reduceIte, hcjK, hjjK, bind_ok, jbind_ok]
      by_cases h0 : jK = 0
      · jeqi_auto
      · by_cases hL1 : eL1 < E ∧ (0.0 : ℝ) < eL1
        · simp only [hL1, and_self, ↓reduceIte]
          jeqi_auto
        · simp only [hL1, ↓reduceIte]
          jeqi_auto
    · simp only [hK, ↓reduceIte]
      by_cases hL1 : eL1 < E ∧ (0.0 : ℝ) < eL1
      · simp only [hL1, and_self, ↓reduceIte]
        jeqi_auto
      · simp only [hL1, ↓reduceIte]
        jeqi_auto
  · have h0 : eL1 = 0 := by
      have := hgap _ hj1; rw [hjL1] at this; cases this; rfl
    subst h0
    simp only [hcK, hjK, hcL1, hjL1, hc1, hj1, bind_ok, jbind_ok, jbind_error]
    by_cases hK : eK < E ∧ (0.0 : ℝ) < eK
    · simp only [hK, and_self, ↓reduceIte, hcjK, hjjK, bind_ok, jbind_ok]
      jeqi_auto
    · simp only [hK, ↓reduceIte]
      jeqi_auto
set_option maxHeartbeats 2000000 in
theorem jump_L3_rel
    (hgap1 : ∀ m, JGen.EdgeEnergy (JTables.ofC T) Z 3 = .error (.iae m) → JGen.EdgeEnergy_catch (JTables.ofC T) Z 1 = .ok 0)
    (hgap2 : ∀ m, JGen.EdgeEnergy (JTables.ofC T) Z 3 = .error (.iae m) → JGen.EdgeEnergy_catch (JTables.ofC T) Z 2 = .ok 0) :
    JRelI (do let f ← JGen.Jump_from_L3 (JTables.ofC T) Z E
              if f = 0 then throw (JStop.iae "Jump factor unavailable for element and shell") else pure f)
      (Gen.Jump_from_L3 T Z E s) s := by
  jeq_start JGen.Jump_from_L3 Gen.Jump_from_L3
  obtain ⟨eK, hcK, hjK⟩ := catchT_EdgeEnergy T Z 0 hZ (by decide)
  obtain ⟨eL1, hcL1, hjL1⟩ := catchT_EdgeEnergy T Z 1 hZ (by decide)
  obtain ⟨eL2, hcL2, hjL2⟩ := catchT_EdgeEnergy T Z 2 hZ (by decide)
  obtain ⟨jK, hcjK, hjjK⟩ := catchT_JumpFactor T Z 0 hZ (by decide)
  obtain ⟨j1, hcj1, hjj1⟩ := catchT_JumpFactor T Z 1 hZ (by decide)
  obtain ⟨j2, hcj2, hjj2⟩ := catchT_JumpFactor T Z 2 hZ (by decide)
  obtain ⟨j3, hcj3, hjj3⟩ := catchT_JumpFactor T Z 3 hZ (by decide)
  obtain ⟨c23, hcc23, hjc23⟩ := catchT_CosKronTransProb T Z 4 hZ (by decide)
  obtain ⟨c13, hcc13, hjc13⟩ := catchT_CosKronTransProb T Z 2 hZ (by decide)
  obtain ⟨cp13, hccp13, hjcp13⟩ := catchT_CosKronTransProb T Z 3 hZ (by decide)
  obtain ⟨c12, hcc12, hjc12⟩ := catchT_CosKronTransProb T Z 1 hZ (by decide)
  obtain ⟨y, hcy, hjy⟩ := catchT_FluorYield T Z 3 hZ (by decide)
  rcases acc_cases_EdgeEnergy T Z 3 hZ (by decide) with ⟨v1, hc1, hj1⟩ | ⟨e1, hc1, hj1⟩
  · rw [hcK, hjK, hcL1, hjL1, hcL2, hjL2, hc1, hj1]
    rw [jbind_ok, jbind_ok, jbind_ok, jbind_ok, bind_ok, bind_ok, bind_ok, bind_ok]
    by_cases hK : eK < E ∧ (0.0 : ℝ) < eK
    · simp only [hK, and_self, ↓reduceIte]
      rw [hcjK, hjjK, jbind_ok, bind_ok]
      by_cases h0 : jK = 0
      · jeqi_auto
      · by_cases hL1 : eL1 < E ∧ (0.0 : ℝ) < eL1
        · simp only [hL1, and_self, ↓reduceIte]
          jeqi_auto
        · simp only [hL1, ↓reduceIte]
          by_cases hL2 : eL2 < E ∧ (0.0 : ℝ) < eL2
          · simp only [hL2, and_self, ↓reduceIte]
            jeqi_auto
          · simp only [hL2, ↓reduceIte]
            jeqi_auto
    · simp only [hK, ↓reduceIte]
      by_cases hL1 : eL1 < E ∧ (0.0 : ℝ) < eL1
      · simp only [hL1, and_self, ↓reduceIte]
        jeqi_auto
      · simp only [hL1, ↓reduceIte]
        by_cases hL2 : eL2 < E ∧ (0.0 : ℝ) < eL2
        · simp only [hL2, and_self, ↓reduceIte]
          jeqi_auto
        · simp only [hL2, ↓reduceIte]
          jeqi_auto
  · have h01 : eL1 = 0 := by
      have := hgap1 _ hj1; rw [hjL1] at this; cases this; rfl
    have h02 : eL2 = 0 := by
      have := hgap2 _ hj1; rw [hjL2] at this; cases this; rfl
    subst h01 h02
    rw [hcK, hjK, hcL1, hjL1, hcL2, hjL2, hc1, hj1]
    rw [jbind_ok, jbind_ok, jbind_ok, jbind_error, bind_ok, bind_ok, bind_ok, bind_ok]
    by_cases hK : eK < E ∧ (0.0 : ℝ) < eK
    · simp only [hK, and_self, ↓reduceIte, hcjK, hjjK, bind_ok, jbind_ok]
      jeqi_auto
    · simp only [hK, ↓reduceIte]
      jeqi_auto

/-- `CS_FluorShell` (K, L1, L2, L3): same value, `IllegalArgumentException` ⇔ C error (text not compared, W6);
`hgap…`: no gap in the chain of L edges (W7) -/
theorem java_eqi_c_CS_FluorShell (m : Int) (hm : inI32 m) (hN : inI32 (T.NE_Photo Z.toNat))
    (hgap21 : ∀ x, JGen.EdgeEnergy (JTables.ofC T) Z 2 = .error (.iae x) → JGen.EdgeEnergy_catch (JTables.ofC T) Z 1 = .ok 0)
    (hgap31 : ∀ x, JGen.EdgeEnergy (JTables.ofC T) Z 3 = .error (.iae x) → JGen.EdgeEnergy_catch (JTables.ofC T) Z 1 = .ok 0)
    (hgap32 : ∀ x, JGen.EdgeEnergy (JTables.ofC T) Z 3 = .error (.iae x) → JGen.EdgeEnergy_catch (JTables.ofC T) Z 2 = .ok 0) :
    JRelI (JGen.CS_FluorShell (JTables.ofC T) Z m E) (Gen.CS_FluorShell T Z m E s) s := by
  jeq_start JGen.CS_FluorShell Gen.CS_FluorShell
  by_cases hz : Z < 1 ∨ Z > 120
  · jeqi_auto
  by_cases hE : E ≤ 0
  · jeqi_auto
  by_cases h0 : m = 0
  · subst h0
    jeq_simp
    have hJ := (jump_K_rel T Z hZ E s hs).toI
    simp only [jthrow_eq_error, jpure_eq_ok] at hJ
    rw [guard_bind]
    rcases hJ.cases with ⟨v, hc, hj⟩ | ⟨e, x, hc, hj⟩ | ⟨a, b, hc, hj⟩ | ⟨a, hc⟩
    · have hne := guard_ne hj
      rw [hc, hj]
      jeq_simp
      jeqi_use_pos (java_eq_c_CS_Photo T Z hZ E s hs hN).toI, (java_pos_CS_Photo T Z hZ E)
      jeqi_auto
    · rw [hc, hj]; jeqi_auto
    · rw [hc, hj]; jeqi_auto
    · rw [hc]; jeqi_auto
  by_cases h1 : m = 1
  · subst h1
    jeq_simp
    have hJ := jump_L1_rel T Z hZ E s hs
    simp only [jthrow_eq_error, jpure_eq_ok] at hJ
    rw [guard_bind]
    rcases hJ.cases with ⟨v, hc, hj⟩ | ⟨e, x, hc, hj⟩ | ⟨a, b, hc, hj⟩ | ⟨a, hc⟩
    · have hne := guard_ne hj
      rw [hc, hj]
      jeq_simp
      jeqi_use_pos (java_eq_c_CS_Photo T Z hZ E s hs hN).toI, (java_pos_CS_Photo T Z hZ E)
      jeqi_auto
    · rw [hc, hj]; jeqi_auto
    · rw [hc, hj]; jeqi_auto
    · rw [hc]; jeqi_auto
  by_cases h2 : m = 2
  · subst h2
    jeq_simp
    have hJ := jump_L2_rel T Z hZ E s hs hgap21
    simp only [jthrow_eq_error, jpure_eq_ok] at hJ
    rw [guard_bind]
    rcases hJ.cases with ⟨v, hc, hj⟩ | ⟨e, x, hc, hj⟩ | ⟨a, b, hc, hj⟩ | ⟨a, hc⟩
    · have hne := guard_ne hj
      rw [hc, hj]
      jeq_simp
      jeqi_use_pos (java_eq_c_CS_Photo T Z hZ E s hs hN).toI, (java_pos_CS_Photo T Z hZ E)
      jeqi_auto
    · rw [hc, hj]; jeqi_auto
    · rw [hc, hj]; jeqi_auto
    · rw [hc]; jeqi_auto
  by_cases h3 : m = 3
  · subst h3
    jeq_simp
    have hJ := jump_L3_rel T Z hZ E s hs hgap31 hgap32
    simp only [jthrow_eq_error, jpure_eq_ok] at hJ
    rw [guard_bind]
    rcases hJ.cases with ⟨v, hc, hj⟩ | ⟨e, x, hc, hj⟩ | ⟨a, b, hc, hj⟩ | ⟨a, hc⟩
    · have hne := guard_ne hj
      rw [hc, hj]
      jeq_simp
      jeqi_use_pos (java_eq_c_CS_Photo T Z hZ E s hs hN).toI, (java_pos_CS_Photo T Z hZ E)
      jeqi_auto
    · rw [hc, hj]; jeqi_auto
    · rw [hc, hj]; jeqi_auto
    · rw [hc]; jeqi_auto
  jeqi_auto
end jumpsL

/-- no gap in the chain of L edges of element `Z` (W7): when the L2 (L3) edge is missing, the L1 (L1 and L2) edges are missing too -/
structure LGaps (T : Tables ℝ) (Z : Int) : Prop where
  g21 : ∀ x, JGen.EdgeEnergy (JTables.ofC T) Z 2 = .error (.iae x) → JGen.EdgeEnergy_catch (JTables.ofC T) Z 1 = .ok 0
  g31 : ∀ x, JGen.EdgeEnergy (JTables.ofC T) Z 3 = .error (.iae x) → JGen.EdgeEnergy_catch (JTables.ofC T) Z 1 = .ok 0
  g32 : ∀ x, JGen.EdgeEnergy (JTables.ofC T) Z 3 = .error (.iae x) → JGen.EdgeEnergy_catch (JTables.ofC T) Z 2 = .ok 0

section fluorline
variable (T : Tables ℝ) (Z : Int) (hZ : inI32 Z) (m : Int) (hm : inI32 m) (E : ℝ) (s : Slot) (hs : s.isFull = false)
include hZ

theorem java_nz_RadRate (hm : inI32 m) : JNz (JGen.RadRate (JTables.ofC T) Z m) := by
  unfold JGen.RadRate FUEL
  jeq_startJ JGen.RadRate_fuel
  by_cases hz : Z < 1 ∨ Z > 120
  · jnz_auto
  by_cases h1 : m = 1
  · subst h1
    jeq_simp
    unfold JGen.RadRate_fuel
    simp only [jloopM_3]
    jeq_normJ
    jnz_auto
    all_goals (apply JNz.of_ne; intro h; rename_i h1; apply h1; linarith)
  · simp only [jloopM_3]
    jnz_auto
end fluorline

section fluorline2
variable (T : Tables ℝ) (Z : Int) (hZ : inI32 Z) (m : Int) (hm : inI32 m) (E : ℝ) (s : Slot) (hs : s.isFull = false)
include hZ

theorem catch_Jump_from_L1 : JCatchRel (JGen.Jump_from_L1_catch (JTables.ofC T) Z E) (Gen.Jump_from_L1 T Z E Slot.null) := by
  unfold JGen.Jump_from_L1_catch
  have h := jump_L1_rel T Z hZ E Slot.null rfl
  simp only [jthrow_eq_error, jpure_eq_ok] at h
  exact JCatchRel.of_guard h
theorem catch_Jump_from_L2 (hg : LGaps T Z) : JCatchRel (JGen.Jump_from_L2_catch (JTables.ofC T) Z E) (Gen.Jump_from_L2 T Z E Slot.null) := by
  unfold JGen.Jump_from_L2_catch
  have h := jump_L2_rel T Z hZ E Slot.null rfl hg.g21
  simp only [jthrow_eq_error, jpure_eq_ok] at h
  exact JCatchRel.of_guard h
theorem catch_Jump_from_L3 (hg : LGaps T Z) : JCatchRel (JGen.Jump_from_L3_catch (JTables.ofC T) Z E) (Gen.Jump_from_L3 T Z E Slot.null) := by
  unfold JGen.Jump_from_L3_catch
  have h := jump_L3_rel T Z hZ E Slot.null rfl hg.g31 hg.g32
  simp only [jthrow_eq_error, jpure_eq_ok] at h
  exact JCatchRel.of_guard h

include hm hs
theorem java_eqi_c_CS_FluorLine (hN : inI32 (T.NE_Photo Z.toNat)) (hg : LGaps T Z) :
    JRelI (JGen.CS_FluorLine (JTables.ofC T) Z m E) (Gen.CS_FluorLine T Z m E s) s := by
  have hsh := fun k hk => java_eqi_c_CS_FluorShell T Z hZ E s hs k hk hN hg.g21 hg.g31 hg.g32
  jeq_start JGen.CS_FluorLine Gen.CS_FluorLine
  by_cases hK : m ≥ -29 ∧ m ≤ 1
  · simp only [hK, and_self, ↓reduceIte]
    jeqi_use_nz (java_eq_c_RadRate T Z m hZ hm s hs).toI, (java_nz_RadRate T Z hZ m hm)
    jeq_simp
    jeqi_use (hsh 0 (by decide))
    jeqi_auto
  simp only [hK, ↓reduceIte]
  by_cases hL : (m ≤ -30 ∧ m ≥ -113) ∨ m = 2
  · simp only [hL, ↓reduceIte]
    jeqi_use_nz (java_eq_c_RadRate T Z m hZ hm s hs).toI, (java_nz_RadRate T Z hZ m hm)
    jeq_simp
    by_cases h1 : m ≥ -58 ∧ m ≤ -30
    · simp only [h1, and_self, ↓reduceIte]
      jeqi_use (hsh 1 (by decide))
      jeqi_auto
    simp only [h1, ↓reduceIte]
    by_cases h2 : m ≥ -85 ∧ m ≤ -59
    · simp only [h2, and_self, ↓reduceIte]
      jeqi_use (hsh 2 (by decide))
      jeqi_auto
    simp only [h2, ↓reduceIte]
    have h3 : m ≤ -86 ∨ m = 2 := by omega
    simp only [h3, ↓reduceIte]
    jeqi_use (hsh 3 (by decide))
    jeqi_auto
  simp only [hL, ↓reduceIte]
  by_cases h3 : m = 3
  · subst h3
    simp only [↓reduceIte]
    jeq_catch (catchT_RadRate T Z (-63) hZ (by decide))
    jeq_catch (catchT_RadRate T Z (-62) hZ (by decide))
    jeq_catch (catchT_RadRate T Z (-95) hZ (by decide))
    jeq_catch (catchT_RadRate T Z (-101) hZ (by decide))
    jeq_catch (catchT_RadRate T Z (-103) hZ (by decide))
    jeq_catch (catchT_RadRate T Z (-102) hZ (by decide))
    jeq_catch (catchT_RadRate T Z (-91) hZ (by decide))
    jeq_catch (catchT_RadRate T Z (-98) hZ (by decide))
    jeq_catch (catchT_RadRate T Z (-96) hZ (by decide))
    jeq_catch (catchT_RadRate T Z (-97) hZ (by decide))
    jeq_catch (catchT_RadRate T Z (-94) hZ (by decide))
    jeq_catch (catchT_RadRate T Z (-34) hZ (by decide))
    jeq_catch (catchT_RadRate T Z (-33) hZ (by decide))
    jeq_catch (catchT_RadRate T Z (-36) hZ (by decide))
    jeq_catch (catchT_RadRate T Z (-35) hZ (by decide))
    jeqi_use_catch (catch_Jump_from_L2 T Z hZ E hg)
    jeqi_use_catch (catch_Jump_from_L3 T Z hZ E hg)
    jeqi_use_catch (catch_Jump_from_L1 T Z hZ E)
    jeq_simp
    split_ifs
    · jeqi_auto
    · jeqi_use_pos (java_eq_c_CS_Photo T Z hZ E s hs hN).toI, (java_pos_CS_Photo T Z hZ E)
      jeqi_auto
  · jeqi_auto

omit hm hs in
theorem java_oor_RadRate (hz : Z < 1 ∨ Z > 120) : JGen.RadRate (JTables.ofC T) Z m = .error (.iae "Z out of range") := by
  unfold JGen.RadRate FUEL JGen.RadRate_fuel
  jeq_normJ
  simp only [hz, ↓reduceIte, jthrow_eq_error]
omit hm hs in
theorem java_oor_CS_Photo (hz : Z < 1 ∨ Z > 120) : JGen.CS_Photo (JTables.ofC T) Z E = .error (.iae "Z out of range") := by
  unfold JGen.CS_Photo JGen.CS_Factory
  jeq_normJ
  simp only [hz, ↓reduceIte, jpure_eq_ok, jbind_ok, jthrow_eq_error, jbind_error]
omit hs in
/-- a value of the Java `CS_FluorLine` means `Z` is an element -/
theorem java_rng_CS_FluorLine {v : ℝ} (h : JGen.CS_FluorLine (JTables.ofC T) Z m E = .ok v) : ¬(Z < 1 ∨ Z > 120) := by
  intro hz
  unfold JGen.CS_FluorLine at h
  simp only [java_oor_RadRate T Z hZ m hz, java_oor_CS_Photo T Z hZ E hz, jbind_error, jthrow_eq_error] at h
  split_ifs at h <;> first | cases h | skip
  revert h
  suffices hnv : JNoVal (β := ℝ) _ from hnv v
  jnoval_struct

omit hs in
theorem java_rng_CS_FluorShell {v : ℝ} (h : JGen.CS_FluorShell (JTables.ofC T) Z m E = .ok v) : ¬(Z < 1 ∨ Z > 120) := by
  intro hz
  unfold JGen.CS_FluorShell at h
  jeq_normJ
  simp only [hz, ↓reduceIte, jthrow_eq_error] at h
  cases h

theorem java_eqi_c_CSb_FluorLine (hN : inI32 (T.NE_Photo Z.toNat)) (hg : LGaps T Z)
    (haw : ∀ v, JGen.CS_FluorLine (JTables.ofC T) Z m E = .ok v → 0 < T.AtomicWeight_arr Z.toNat) :
    JRelI (JGen.CSb_FluorLine (JTables.ofC T) Z m E) (Gen.CSb_FluorLine T Z m E s) s := by
  jeq_start JGen.CSb_FluorLine Gen.CSb_FluorLine Gen.AtomicWeight
  rcases (java_eqi_c_CS_FluorLine T Z hZ m hm E s hs hN hg).cases with ⟨v, hc, hj⟩ | ⟨e, x, hc, hj⟩ | ⟨a, b, hc, hj⟩ | ⟨a, hc⟩
  · have h0 := haw _ hj
    have hr := java_rng_CS_FluorLine T Z hZ m hm E hj
    jeqi_auto
  · jeqi_auto
  · jeqi_auto
  · jeqi_auto

theorem java_eqi_c_CSb_FluorShell (hN : inI32 (T.NE_Photo Z.toNat)) (hg : LGaps T Z)
    (haw : ∀ v, JGen.CS_FluorShell (JTables.ofC T) Z m E = .ok v → 0 < T.AtomicWeight_arr Z.toNat) :
    JRelI (JGen.CSb_FluorShell (JTables.ofC T) Z m E) (Gen.CSb_FluorShell T Z m E s) s := by
  jeq_start JGen.CSb_FluorShell Gen.CSb_FluorShell Gen.AtomicWeight
  rcases (java_eqi_c_CS_FluorShell T Z hZ E s hs m hm hN hg.g21 hg.g31 hg.g32).cases with ⟨v, hc, hj⟩ | ⟨e, x, hc, hj⟩ | ⟨a, b, hc, hj⟩ | ⟨a, hc⟩
  · have h0 := haw _ hj
    have hr := java_rng_CS_FluorShell T Z hZ m hm E hj
    jeqi_auto
  · jeqi_auto
  · jeqi_auto
  · jeqi_auto
end fluorline2

theorem jrd_dynC (name : String) (NS Npz : Nat → Int) (U : Nat → Vec ℝ) (E : Nat → Nat → Vec ℝ) (i : Int) (h0 : 0 ≤ i) (h1 : i < 121) :
    jrd name (some (jdynC NS Npz U E)) i = .ok (if NS i.toNat ≤ 0 then none else
      some ⟨NS i.toNat, fun j => if 0 < Npz i.toNat ∧ (0.0 : ℝ) < (U i.toNat).get j then some ⟨Npz i.toNat, (E i.toNat j).get⟩ else none⟩) := by
  unfold jdynC; exact jrd_vec name _ _ i h0 h1

theorem ite_some_eq_jvec {β : Type} (n : Int) (v : Vec β) :
    (if 0 < n then some (⟨n, v.get⟩ : Vec β) else none) = jvec n v := by
  unfold jvec; split_ifs <;> first | rfl | omega

section cpp
variable (T : Tables ℝ) (Z m : Int) (hZ : inI32 Z) (hm : inI32 m) (pz : ℝ) (s : Slot) (hs : s.isFull = false)
include hZ hm hs

/-- `ComptonProfile_Partial`.  `hU`: occupation numbers are not negative (Java keeps a profile only for `UOCCUP > 0`, the C test is `== 0`) -/
theorem java_eq_c_ComptonProfile_Partial (hN : inI32 (T.Npz_ComptonProfiles Z.toNat))
    (hlenU : 0 < T.NShells_ComptonProfiles Z.toNat → (T.UOCCUP_ComptonProfiles Z.toNat).len = T.NShells_ComptonProfiles Z.toNat)
    (hU : 0 ≤ m → m < T.NShells_ComptonProfiles Z.toNat → 0 ≤ (T.UOCCUP_ComptonProfiles Z.toNat).get m.toNat) :
    JRel (JGen.ComptonProfile_Partial (JTables.ofC T) Z m pz) (Gen.ComptonProfile_Partial T Z m pz s) s := by
  jeq_start JGen.ComptonProfile_Partial Gen.ComptonProfile_Partial
  by_cases hz : Z < 1 ∨ Z > 120
  · jeq_auto
  simp (disch := omega) only [jrd_dynC]
  jeq_simp
  by_cases hns : T.NShells_ComptonProfiles Z.toNat < 1
  · simp only [jrd_jvec, rdv_def]
    jeq_auto
  have hlenU := hlenU (by omega)
  simp only [jrd_jvec, rdv_def, hlenU]
  by_cases hsh : m ≥ T.NShells_ComptonProfiles Z.toNat ∨ m < 0
  · jeq_auto
  have hns' : ¬ T.NShells_ComptonProfiles Z.toNat ≤ 0 := by omega
  have hin : 0 ≤ m ∧ m < T.NShells_ComptonProfiles Z.toNat := by omega
  simp only [hns, hsh, hns', hin, and_self, ↓reduceIte, jbind_ok, bind_ok, jpure_eq_ok, pure_eq_ok, decide_eq_true_eq, deq_real, zero_lit, jrd_some]
  by_cases hu0 : (T.UOCCUP_ComptonProfiles Z.toNat).get m.toNat = 0
  · jeq_auto
  have hupos : (0 : ℝ) < (T.UOCCUP_ComptonProfiles Z.toNat).get m.toNat := lt_of_le_of_ne (hU hin.1 hin.2) (Ne.symm hu0)
  simp only [hu0, hupos, ↓reduceIte, and_true]
  simp only [ite_some_eq_jvec]
  by_cases h29 : m < 29
  · simp (disch := omega) only [rd2_ok, bind_ok]
    rcases (jsplint_rel_vec (JTables.ofC T) (T.pz_ComptonProfiles Z.toNat) (T.Partial_ComptonProfiles Z.toNat m.toNat)
      (T.Partial_ComptonProfiles2 Z.toNat m.toNat) (T.Npz_ComptonProfiles Z.toNat) hN (Real.log (pz + 1.0)) s hs).cases
      with ⟨y, hc, hj⟩ | ⟨e, hc, hj⟩ | ⟨a, b, hc, hj⟩ | ⟨a, hc⟩ <;> jeq_auto
  · have : ¬ ((0 : Int) ≤ Z ∧ Z < (121 : Nat) ∧ 0 ≤ m ∧ m < (29 : Nat)) := by omega
    simp only [rd2, this, ↓reduceIte, bind_error, throw_eq_error]
    jeq_auto
end cpp

section phototot
variable (T : Tables ℝ) (Z : Int) (hZ : inI32 Z) (E : ℝ) (s : Slot) (hs : s.isFull = false)
include hZ

/-- the Kissel sub-shell tables of element `Z` are well formed (`KVecOk` for each of the 31 sub-shells).  Until /repo da7215f this also had
to ask for empty Q shells (W1: Java read the next element's edge row for shells 28..30); both languages now reject those shells. -/
structure KAllOk (T : Tables ℝ) (Z : Int) : Prop where
  vec : ∀ k : Int, 0 ≤ k → k < 31 → KVecOk T Z k

include hs
theorem java_eq_c_CSb_Photo_Total (hk : KAllOk T Z) :
    JRel (JGen.CSb_Photo_Total (JTables.ofC T) Z E) (Gen.CSb_Photo_Total T Z E s) s := by
  jeq_start JGen.CSb_Photo_Total Gen.CSb_Photo_Total
  by_cases hz : Z < 1 ∨ Z > 120
  · jeq_auto
  by_cases hE : E ≤ 0
  · jeq_auto
  jeq_simp
  by_cases hne : T.NE_Photo_Total_Kissel Z.toNat < 0
  · jeq_auto
  simp only [hne, ↓reduceIte]
  apply JRel.loop_then (fun r : ℝ => 0 ≤ r) (le_refl _)
  · intro i rv h0 h1 hrv
    have hi32 : inI32 i := by unfold inI32 INT_MIN INT_MAX; omega
    simp (disch := omega) only [wrapI_eq, jrd_flat2, rd2_ok, jbind_ok, bind_ok, jpure_eq_ok, pure_eq_ok, jbind_ret, bind_ret]
    by_cases hc : (10e-7 : ℝ) < T.Electron_Config_Kissel Z.toNat i.toNat
    · simp only [hc, ↓reduceIte]
      have hv := hk.vec i h0 h1
      have hpos := java_pos_CSb_Photo_Partial T Z i (by unfold inI32 INT_MIN INT_MAX; omega) hi32 E
      have hcp : (0:ℝ) < T.Electron_Config_Kissel Z.toNat i.toNat := lt_trans (by norm_num) hc
      have hinv : ∀ st', jtry (JGen.CSb_Photo_Partial (JTables.ofC T) Z i E >>= fun r_5 => Except.ok (rv + r_5 * T.Electron_Config_Kissel Z.toNat i.toNat)) (Except.ok rv) = Except.ok st' → 0 ≤ st' := by
        intro st' h
        rcases hj : JGen.CSb_Photo_Partial (JTables.ofC T) Z i E with e | v
        · rw [hj] at h
          cases e <;> simp only [jbind_error, jtry_iae, jtry_nf, jtry] at h <;> cases h
          exact hrv
        · rw [hj] at h
          simp only [jbind_ok, jtry_ok] at h
          cases h
          have hvp := hpos v hj
          positivity
      refine ⟨?_, hinv⟩
      rcases (java_eq_c_CSb_Photo_Partial T Z i (by unfold inI32 INT_MIN INT_MAX; omega) hi32 E Slot.null rfl hv.1 hv.2.1 hv.2.2).cases
        with ⟨v, hcc, hj⟩ | ⟨e, hcc, hj⟩ | ⟨a, b, hcc, hj⟩ | ⟨a, hcc⟩
      · simp only [hcc, hj, jbind_ok, bind_ok, jtry_ok]; exact StepRel.ok
      · simp only [hcc, hj, jbind_error, bind_ok, jtry_iae, withErr_null]; exact StepRel.ok_eq (by norm_num)
      · simp only [hcc, hj, jbind_error, bind_error, jtry_nf]; exact StepRel.nf
      · simp only [hcc, bind_error]; exact StepRel.ub
    · simp only [hc, ↓reduceIte]
      exact ⟨StepRel.ok, fun st' h => by cases h; exact hrv⟩
  · intro st hst
    jeq_auto

omit hs in
theorem java_pos_CSb_Photo_Total : JPos (JGen.CSb_Photo_Total (JTables.ofC T) Z E) := by
  unfold JGen.CSb_Photo_Total
  dsimp only
  repeat' (first
    | with_reducible exact JPos.error | with_reducible exact JPos.throw
    | (with_reducible apply JPos.bind; intro _)
    | (split_ifs)
    | ((with_reducible apply JPos.of_pos) <;> linarith)
    | (simp only [jpure_eq_ok]))
omit hs in
theorem java_rng_CSb_Photo_Total {v : ℝ} (h : JGen.CSb_Photo_Total (JTables.ofC T) Z E = .ok v) : ¬(Z < 1 ∨ Z > 120) := by
  intro hz
  unfold JGen.CSb_Photo_Total at h
  jeq_normJ
  simp only [hz, ↓reduceIte, jpure_eq_ok, jbind_ok, jthrow_eq_error] at h
  cases h

theorem java_eq_c_CS_Photo_Total (hk : KAllOk T Z) :
    JRel (JGen.CS_Photo_Total (JTables.ofC T) Z E) (Gen.CS_Photo_Total T Z E s) s := by
  jeq_start JGen.CS_Photo_Total Gen.CS_Photo_Total
  rcases (java_eq_c_CSb_Photo_Total T Z hZ E s hs hk).cases with ⟨v, hc, hj⟩ | ⟨e, hc, hj⟩ | ⟨a, b, hc, hj⟩ | ⟨a, hc⟩
  · have hne := (java_pos_CSb_Photo_Total T Z hZ E).ne hj
    have hr := java_rng_CSb_Photo_Total T Z hZ E hj
    jeq_auto
  · jeq_auto
  · jeq_auto
  · jeq_auto
end phototot

/-- three turns of a loop whose body may `return` -/
theorem loopCtlM_3 {ρ σ : Type} (init : σ) (body : Int → σ → M (Ctl ρ σ)) :
    loopCtlM 0 3 init body = (do
      let c0 ← body 0 init
      match c0 with
      | Ctl.ret r => pure (Sum.inl r)
      | Ctl.brk s => pure (Sum.inr s)
      | Ctl.next s1 => do
        let c1 ← body 1 s1
        match c1 with
        | Ctl.ret r => pure (Sum.inl r)
        | Ctl.brk s => pure (Sum.inr s)
        | Ctl.next s2 => do
          let c2 ← body 2 s2
          match c2 with
          | Ctl.ret r => pure (Sum.inl r)
          | Ctl.brk s => pure (Sum.inr s)
          | Ctl.next s3 => pure (Sum.inr s3)) := by
  show loopCtlGo 0 body (List.range 3) init = _
  simp only [List.range_succ, List.range_zero, List.nil_append, List.cons_append, loopCtlGo]
  rfl

section totk
variable (T : Tables ℝ) (Z : Int) (hZ : inI32 Z) (E : ℝ) (s : Slot) (hs : s.isFull = false)
include hZ

theorem java_nz_CS_Photo_Total : JNz (JGen.CS_Photo_Total (JTables.ofC T) Z E) := by
  intro v h
  unfold JGen.CS_Photo_Total at h
  rcases hj : JGen.CSb_Photo_Total (JTables.ofC T) Z E with e | r
  · rw [hj] at h; cases h
  · have hr := java_pos_CSb_Photo_Total T Z hZ E r hj
    have hz := java_rng_CSb_Photo_Total T Z hZ E hj
    rw [hj] at h
    jeq_normJ
    simp (disch := omega) only [jbind_ok, jpure_eq_ok, jrd_vec, jdiv_real] at h
    by_cases haw : T.AtomicWeight_arr Z.toNat = 0
    · simp only [haw, ↓reduceIte] at h; cases h
    · simp only [haw, ↓reduceIte] at h
      cases h
      exact div_ne_zero (mul_ne_zero hr.ne' (by norm_num)) haw

include hs
theorem java_eq_c_CS_Total_Kissel (hk : KAllOk T Z) (hN2 : inI32 (T.NE_Rayl Z.toNat)) (hN3 : inI32 (T.NE_Compt Z.toNat)) :
    JRel (JGen.CS_Total_Kissel (JTables.ofC T) Z E) (Gen.CS_Total_Kissel T Z E s) s := by
  jeq_start JGen.CS_Total_Kissel Gen.CS_Total_Kissel
  simp only [loopCtlM_3]
  jeq_simp
  rcases (java_eq_c_CS_Photo_Total T Z hZ E s hs hk).cases with ⟨v, hc, hj⟩ | ⟨e, hc, hj⟩ | ⟨a, b, hc, hj⟩ | ⟨a, hc⟩
  · have hne := java_nz_CS_Photo_Total T Z hZ E v hj
    jeq_simp
    jeq_use_pos (java_eq_c_CS_Rayl T Z hZ E s hs hN2), (java_pos_CS_Rayl T Z hZ E)
    jeq_use_pos (java_eq_c_CS_Compt T Z hZ E s hs hN3), (java_pos_CS_Compt T Z hZ E)
    jeq_auto
  · jeq_auto
  · jeq_auto
  · jeq_auto

omit hs in
theorem java_rng_CS_Total_Kissel {v : ℝ} (h : JGen.CS_Total_Kissel (JTables.ofC T) Z E = .ok v) : ¬(Z < 1 ∨ Z > 120) := by
  intro hz
  unfold JGen.CS_Total_Kissel at h
  jeq_normJ
  simp only [hz, ↓reduceIte, jpure_eq_ok, jbind_ok, jthrow_eq_error] at h
  cases h

theorem java_eq_c_CSb_Total_Kissel (hk : KAllOk T Z) (hN2 : inI32 (T.NE_Rayl Z.toNat)) (hN3 : inI32 (T.NE_Compt Z.toNat)) :
    JRel (JGen.CSb_Total_Kissel (JTables.ofC T) Z E) (Gen.CSb_Total_Kissel T Z E s) s := by
  jeq_start JGen.CSb_Total_Kissel Gen.CSb_Total_Kissel
  rcases (java_eq_c_CS_Total_Kissel T Z hZ E s hs hk hN2 hN3).cases with ⟨v, hc, hj⟩ | ⟨e, hc, hj⟩ | ⟨a, b, hc, hj⟩ | ⟨a, hc⟩
  · have hr := java_rng_CS_Total_Kissel T Z hZ E hj
    jeq_auto
  · jeq_auto
  · jeq_auto
  · jeq_auto
end totk

section jtame
variable (T : Tables ℝ) (Z : Int) (hZ : inI32 Z) (E PK PL1 PL2 PL3 PM1 PM2 PM3 PM4 : ℝ)
include hZ

theorem jtame_FluorYield_catch (m : Int) (hm : inI32 m) : JTame (JGen.FluorYield_catch (JTables.ofC T) Z m) := by
  obtain ⟨v, _, hj⟩ := catchT_FluorYield T Z m hZ hm; exact JTame.of_eq_ok hj
theorem jtame_RadRate_catch (m : Int) (hm : inI32 m) : JTame (JGen.RadRate_catch (JTables.ofC T) Z m) := by
  obtain ⟨v, _, hj⟩ := catchT_RadRate T Z m hZ hm; exact JTame.of_eq_ok hj
theorem jtame_CosKronTransProb_catch (m : Int) (hm : inI32 m) : JTame (JGen.CosKronTransProb_catch (JTables.ofC T) Z m) := by
  obtain ⟨v, _, hj⟩ := catchT_CosKronTransProb T Z m hZ hm; exact JTame.of_eq_ok hj

/-- value or `IllegalArgumentException`, by the shape of a cascade helper (after its table reads have been evaluated) -/
macro "jtame_struct" : tactic =>
  `(tactic| repeat' (first
      | with_reducible exact JTame.ok | with_reducible exact JTame.pure | assumption
      | (refine jtame_FluorYield_catch _ _ ?_ _ ?_ <;> first | assumption | decide | (unfold inI32 INT_MIN INT_MAX; omega))
      | (refine jtame_RadRate_catch _ _ ?_ _ ?_ <;> first | assumption | decide | (unfold inI32 INT_MIN INT_MAX; omega))
      | (refine jtame_CosKronTransProb_catch _ _ ?_ _ ?_ <;> first | assumption | decide | (unfold inI32 INT_MIN INT_MAX; omega))
      | (with_reducible apply JTame.bind <;> [skip; intro _])
      | with_reducible apply JTame.ite))

theorem jtame_PL1_pure_kissel (hz : ¬(Z < 1 ∨ Z > 120)) (hf : JTame (JGen.CS_Photo_Partial (JTables.ofC T) Z 1 E)) :
    JTame (JGen.PL1_pure_kissel (JTables.ofC T) Z E) := by
  unfold JGen.PL1_pure_kissel
  jeq_normJ
  try simp (disch := omega) only [wrapI_eq, jrd_flat3, jpure_eq_ok, jbind_ok]
  jtame_struct

theorem jtame_PL1_rad_cascade_kissel (hz : ¬(Z < 1 ∨ Z > 120)) (hf : JTame (JGen.CS_Photo_Partial (JTables.ofC T) Z 1 E)) :
    JTame (JGen.PL1_rad_cascade_kissel (JTables.ofC T) Z E PK) := by
  unfold JGen.PL1_rad_cascade_kissel
  jeq_normJ
  try simp (disch := omega) only [wrapI_eq, jrd_flat3, jpure_eq_ok, jbind_ok]
  jtame_struct

theorem jtame_PL1_auger_cascade_kissel (hz : ¬(Z < 1 ∨ Z > 120)) (hf : JTame (JGen.CS_Photo_Partial (JTables.ofC T) Z 1 E)) :
    JTame (JGen.PL1_auger_cascade_kissel (JTables.ofC T) Z E PK) := by
  unfold JGen.PL1_auger_cascade_kissel JGen.get_kissel_offset
  jeq_normJ
  try simp (disch := omega) only [wrapI_eq, jrd_flat3, jpure_eq_ok, jbind_ok]
  jtame_struct

theorem jtame_PL1_full_cascade_kissel (hz : ¬(Z < 1 ∨ Z > 120)) (hf : JTame (JGen.CS_Photo_Partial (JTables.ofC T) Z 1 E)) :
    JTame (JGen.PL1_full_cascade_kissel (JTables.ofC T) Z E PK) := by
  unfold JGen.PL1_full_cascade_kissel JGen.get_kissel_offset
  jeq_normJ
  try simp (disch := omega) only [wrapI_eq, jrd_flat3, jpure_eq_ok, jbind_ok]
  jtame_struct

theorem jtame_PL2_pure_kissel (hz : ¬(Z < 1 ∨ Z > 120)) (hf : JTame (JGen.CS_Photo_Partial (JTables.ofC T) Z 2 E)) :
    JTame (JGen.PL2_pure_kissel (JTables.ofC T) Z E PL1) := by
  unfold JGen.PL2_pure_kissel
  jeq_normJ
  try simp (disch := omega) only [wrapI_eq, jrd_flat3, jpure_eq_ok, jbind_ok]
  jtame_struct

theorem jtame_PL2_rad_cascade_kissel (hz : ¬(Z < 1 ∨ Z > 120)) (hf : JTame (JGen.CS_Photo_Partial (JTables.ofC T) Z 2 E)) :
    JTame (JGen.PL2_rad_cascade_kissel (JTables.ofC T) Z E PK PL1) := by
  unfold JGen.PL2_rad_cascade_kissel
  jeq_normJ
  try simp (disch := omega) only [wrapI_eq, jrd_flat3, jpure_eq_ok, jbind_ok]
  jtame_struct

theorem jtame_PL2_auger_cascade_kissel (hz : ¬(Z < 1 ∨ Z > 120)) (hf : JTame (JGen.CS_Photo_Partial (JTables.ofC T) Z 2 E)) :
    JTame (JGen.PL2_auger_cascade_kissel (JTables.ofC T) Z E PK PL1) := by
  unfold JGen.PL2_auger_cascade_kissel JGen.get_kissel_offset
  jeq_normJ
  try simp (disch := omega) only [wrapI_eq, jrd_flat3, jpure_eq_ok, jbind_ok]
  jtame_struct

theorem jtame_PL2_full_cascade_kissel (hz : ¬(Z < 1 ∨ Z > 120)) (hf : JTame (JGen.CS_Photo_Partial (JTables.ofC T) Z 2 E)) :
    JTame (JGen.PL2_full_cascade_kissel (JTables.ofC T) Z E PK PL1) := by
  unfold JGen.PL2_full_cascade_kissel JGen.get_kissel_offset
  jeq_normJ
  try simp (disch := omega) only [wrapI_eq, jrd_flat3, jpure_eq_ok, jbind_ok]
  jtame_struct

theorem jtame_PL3_pure_kissel (hz : ¬(Z < 1 ∨ Z > 120)) (hf : JTame (JGen.CS_Photo_Partial (JTables.ofC T) Z 3 E)) :
    JTame (JGen.PL3_pure_kissel (JTables.ofC T) Z E PL1 PL2) := by
  unfold JGen.PL3_pure_kissel
  jeq_normJ
  try simp (disch := omega) only [wrapI_eq, jrd_flat3, jpure_eq_ok, jbind_ok]
  jtame_struct

theorem jtame_PL3_rad_cascade_kissel (hz : ¬(Z < 1 ∨ Z > 120)) (hf : JTame (JGen.CS_Photo_Partial (JTables.ofC T) Z 3 E)) :
    JTame (JGen.PL3_rad_cascade_kissel (JTables.ofC T) Z E PK PL1 PL2) := by
  unfold JGen.PL3_rad_cascade_kissel
  jeq_normJ
  try simp (disch := omega) only [wrapI_eq, jrd_flat3, jpure_eq_ok, jbind_ok]
  jtame_struct

theorem jtame_PL3_auger_cascade_kissel (hz : ¬(Z < 1 ∨ Z > 120)) (hf : JTame (JGen.CS_Photo_Partial (JTables.ofC T) Z 3 E)) :
    JTame (JGen.PL3_auger_cascade_kissel (JTables.ofC T) Z E PK PL1 PL2) := by
  unfold JGen.PL3_auger_cascade_kissel JGen.get_kissel_offset
  jeq_normJ
  try simp (disch := omega) only [wrapI_eq, jrd_flat3, jpure_eq_ok, jbind_ok]
  jtame_struct

theorem jtame_PL3_full_cascade_kissel (hz : ¬(Z < 1 ∨ Z > 120)) (hf : JTame (JGen.CS_Photo_Partial (JTables.ofC T) Z 3 E)) :
    JTame (JGen.PL3_full_cascade_kissel (JTables.ofC T) Z E PK PL1 PL2) := by
  unfold JGen.PL3_full_cascade_kissel JGen.get_kissel_offset
  jeq_normJ
  try simp (disch := omega) only [wrapI_eq, jrd_flat3, jpure_eq_ok, jbind_ok]
  jtame_struct

theorem jtame_PM1_pure_kissel (hz : ¬(Z < 1 ∨ Z > 120)) (hf : JTame (JGen.CS_Photo_Partial (JTables.ofC T) Z 4 E)) :
    JTame (JGen.PM1_pure_kissel (JTables.ofC T) Z E) := by
  unfold JGen.PM1_pure_kissel
  jeq_normJ
  try simp (disch := omega) only [wrapI_eq, jrd_flat3, jpure_eq_ok, jbind_ok]
  jtame_struct

theorem jtame_PM1_rad_cascade_kissel (hz : ¬(Z < 1 ∨ Z > 120)) (hf : JTame (JGen.CS_Photo_Partial (JTables.ofC T) Z 4 E)) :
    JTame (JGen.PM1_rad_cascade_kissel (JTables.ofC T) Z E PK PL1 PL2 PL3) := by
  unfold JGen.PM1_rad_cascade_kissel
  jeq_normJ
  try simp (disch := omega) only [wrapI_eq, jrd_flat3, jpure_eq_ok, jbind_ok]
  jtame_struct

theorem jtame_PM1_auger_cascade_kissel (hz : ¬(Z < 1 ∨ Z > 120)) (hf : JTame (JGen.CS_Photo_Partial (JTables.ofC T) Z 4 E)) :
    JTame (JGen.PM1_auger_cascade_kissel (JTables.ofC T) Z E PK PL1 PL2 PL3) := by
  unfold JGen.PM1_auger_cascade_kissel JGen.get_kissel_offset
  jeq_normJ
  try simp (disch := omega) only [wrapI_eq, jrd_flat3, jpure_eq_ok, jbind_ok]
  jtame_struct

theorem jtame_PM1_full_cascade_kissel (hz : ¬(Z < 1 ∨ Z > 120)) (hf : JTame (JGen.CS_Photo_Partial (JTables.ofC T) Z 4 E)) :
    JTame (JGen.PM1_full_cascade_kissel (JTables.ofC T) Z E PK PL1 PL2 PL3) := by
  unfold JGen.PM1_full_cascade_kissel JGen.get_kissel_offset
  jeq_normJ
  try simp (disch := omega) only [wrapI_eq, jrd_flat3, jpure_eq_ok, jbind_ok]
  jtame_struct

theorem jtame_PM2_pure_kissel (hz : ¬(Z < 1 ∨ Z > 120)) (hf : JTame (JGen.CS_Photo_Partial (JTables.ofC T) Z 5 E)) :
    JTame (JGen.PM2_pure_kissel (JTables.ofC T) Z E PM1) := by
  unfold JGen.PM2_pure_kissel
  jeq_normJ
  try simp (disch := omega) only [wrapI_eq, jrd_flat3, jpure_eq_ok, jbind_ok]
  jtame_struct

theorem jtame_PM2_rad_cascade_kissel (hz : ¬(Z < 1 ∨ Z > 120)) (hf : JTame (JGen.CS_Photo_Partial (JTables.ofC T) Z 5 E)) :
    JTame (JGen.PM2_rad_cascade_kissel (JTables.ofC T) Z E PK PL1 PL2 PL3 PM1) := by
  unfold JGen.PM2_rad_cascade_kissel
  jeq_normJ
  try simp (disch := omega) only [wrapI_eq, jrd_flat3, jpure_eq_ok, jbind_ok]
  jtame_struct

theorem jtame_PM2_auger_cascade_kissel (hz : ¬(Z < 1 ∨ Z > 120)) (hf : JTame (JGen.CS_Photo_Partial (JTables.ofC T) Z 5 E)) :
    JTame (JGen.PM2_auger_cascade_kissel (JTables.ofC T) Z E PK PL1 PL2 PL3 PM1) := by
  unfold JGen.PM2_auger_cascade_kissel JGen.get_kissel_offset
  jeq_normJ
  try simp (disch := omega) only [wrapI_eq, jrd_flat3, jpure_eq_ok, jbind_ok]
  jtame_struct

theorem jtame_PM2_full_cascade_kissel (hz : ¬(Z < 1 ∨ Z > 120)) (hf : JTame (JGen.CS_Photo_Partial (JTables.ofC T) Z 5 E)) :
    JTame (JGen.PM2_full_cascade_kissel (JTables.ofC T) Z E PK PL1 PL2 PL3 PM1) := by
  unfold JGen.PM2_full_cascade_kissel JGen.get_kissel_offset
  jeq_normJ
  try simp (disch := omega) only [wrapI_eq, jrd_flat3, jpure_eq_ok, jbind_ok]
  jtame_struct

theorem jtame_PM3_pure_kissel (hz : ¬(Z < 1 ∨ Z > 120)) (hf : JTame (JGen.CS_Photo_Partial (JTables.ofC T) Z 6 E)) :
    JTame (JGen.PM3_pure_kissel (JTables.ofC T) Z E PM1 PM2) := by
  unfold JGen.PM3_pure_kissel
  jeq_normJ
  try simp (disch := omega) only [wrapI_eq, jrd_flat3, jpure_eq_ok, jbind_ok]
  jtame_struct

theorem jtame_PM3_rad_cascade_kissel (hz : ¬(Z < 1 ∨ Z > 120)) (hf : JTame (JGen.CS_Photo_Partial (JTables.ofC T) Z 6 E)) :
    JTame (JGen.PM3_rad_cascade_kissel (JTables.ofC T) Z E PK PL1 PL2 PL3 PM1 PM2) := by
  unfold JGen.PM3_rad_cascade_kissel
  jeq_normJ
  try simp (disch := omega) only [wrapI_eq, jrd_flat3, jpure_eq_ok, jbind_ok]
  jtame_struct

theorem jtame_PM3_auger_cascade_kissel (hz : ¬(Z < 1 ∨ Z > 120)) (hf : JTame (JGen.CS_Photo_Partial (JTables.ofC T) Z 6 E)) :
    JTame (JGen.PM3_auger_cascade_kissel (JTables.ofC T) Z E PK PL1 PL2 PL3 PM1 PM2) := by
  unfold JGen.PM3_auger_cascade_kissel JGen.get_kissel_offset
  jeq_normJ
  try simp (disch := omega) only [wrapI_eq, jrd_flat3, jpure_eq_ok, jbind_ok]
  jtame_struct

theorem jtame_PM3_full_cascade_kissel (hz : ¬(Z < 1 ∨ Z > 120)) (hf : JTame (JGen.CS_Photo_Partial (JTables.ofC T) Z 6 E)) :
    JTame (JGen.PM3_full_cascade_kissel (JTables.ofC T) Z E PK PL1 PL2 PL3 PM1 PM2) := by
  unfold JGen.PM3_full_cascade_kissel JGen.get_kissel_offset
  jeq_normJ
  try simp (disch := omega) only [wrapI_eq, jrd_flat3, jpure_eq_ok, jbind_ok]
  jtame_struct

theorem jtame_PM4_pure_kissel (hz : ¬(Z < 1 ∨ Z > 120)) (hf : JTame (JGen.CS_Photo_Partial (JTables.ofC T) Z 7 E)) :
    JTame (JGen.PM4_pure_kissel (JTables.ofC T) Z E PM1 PM2 PM3) := by
  unfold JGen.PM4_pure_kissel
  jeq_normJ
  try simp (disch := omega) only [wrapI_eq, jrd_flat3, jpure_eq_ok, jbind_ok]
  jtame_struct

theorem jtame_PM4_rad_cascade_kissel (hz : ¬(Z < 1 ∨ Z > 120)) (hf : JTame (JGen.CS_Photo_Partial (JTables.ofC T) Z 7 E)) :
    JTame (JGen.PM4_rad_cascade_kissel (JTables.ofC T) Z E PK PL1 PL2 PL3 PM1 PM2 PM3) := by
  unfold JGen.PM4_rad_cascade_kissel
  jeq_normJ
  try simp (disch := omega) only [wrapI_eq, jrd_flat3, jpure_eq_ok, jbind_ok]
  jtame_struct

theorem jtame_PM4_auger_cascade_kissel (hz : ¬(Z < 1 ∨ Z > 120)) (hf : JTame (JGen.CS_Photo_Partial (JTables.ofC T) Z 7 E)) :
    JTame (JGen.PM4_auger_cascade_kissel (JTables.ofC T) Z E PK PL1 PL2 PL3 PM1 PM2 PM3) := by
  unfold JGen.PM4_auger_cascade_kissel JGen.get_kissel_offset
  jeq_normJ
  try simp (disch := omega) only [wrapI_eq, jrd_flat3, jpure_eq_ok, jbind_ok]
  jtame_struct

theorem jtame_PM4_full_cascade_kissel (hz : ¬(Z < 1 ∨ Z > 120)) (hf : JTame (JGen.CS_Photo_Partial (JTables.ofC T) Z 7 E)) :
    JTame (JGen.PM4_full_cascade_kissel (JTables.ofC T) Z E PK PL1 PL2 PL3 PM1 PM2 PM3) := by
  unfold JGen.PM4_full_cascade_kissel JGen.get_kissel_offset
  jeq_normJ
  try simp (disch := omega) only [wrapI_eq, jrd_flat3, jpure_eq_ok, jbind_ok]
  jtame_struct

theorem jtame_PM5_pure_kissel (hz : ¬(Z < 1 ∨ Z > 120)) (hf : JTame (JGen.CS_Photo_Partial (JTables.ofC T) Z 8 E)) :
    JTame (JGen.PM5_pure_kissel (JTables.ofC T) Z E PM1 PM2 PM3 PM4) := by
  unfold JGen.PM5_pure_kissel
  jeq_normJ
  try simp (disch := omega) only [wrapI_eq, jrd_flat3, jpure_eq_ok, jbind_ok]
  jtame_struct

theorem jtame_PM5_rad_cascade_kissel (hz : ¬(Z < 1 ∨ Z > 120)) (hf : JTame (JGen.CS_Photo_Partial (JTables.ofC T) Z 8 E)) :
    JTame (JGen.PM5_rad_cascade_kissel (JTables.ofC T) Z E PK PL1 PL2 PL3 PM1 PM2 PM3 PM4) := by
  unfold JGen.PM5_rad_cascade_kissel
  jeq_normJ
  try simp (disch := omega) only [wrapI_eq, jrd_flat3, jpure_eq_ok, jbind_ok]
  jtame_struct

theorem jtame_PM5_auger_cascade_kissel (hz : ¬(Z < 1 ∨ Z > 120)) (hf : JTame (JGen.CS_Photo_Partial (JTables.ofC T) Z 8 E)) :
    JTame (JGen.PM5_auger_cascade_kissel (JTables.ofC T) Z E PK PL1 PL2 PL3 PM1 PM2 PM3 PM4) := by
  unfold JGen.PM5_auger_cascade_kissel JGen.get_kissel_offset
  jeq_normJ
  try simp (disch := omega) only [wrapI_eq, jrd_flat3, jpure_eq_ok, jbind_ok]
  jtame_struct

theorem jtame_PM5_full_cascade_kissel (hz : ¬(Z < 1 ∨ Z > 120)) (hf : JTame (JGen.CS_Photo_Partial (JTables.ofC T) Z 8 E)) :
    JTame (JGen.PM5_full_cascade_kissel (JTables.ofC T) Z E PK PL1 PL2 PL3 PM1 PM2 PM3 PM4) := by
  unfold JGen.PM5_full_cascade_kissel JGen.get_kissel_offset
  jeq_normJ
  try simp (disch := omega) only [wrapI_eq, jrd_flat3, jpure_eq_ok, jbind_ok]
  jtame_struct

end jtame

section kshell
variable (T : Tables ℝ) (Z : Int) (hZ : inI32 Z) (m : Int) (hm : inI32 m) (E : ℝ) (s : Slot) (hs : s.isFull = false)
include hZ hm hs

theorem java_eq_c_CS_FluorShell_Kissel_no_Cascade (hk : KAllOk T Z)
    (ht : ∀ k : Int, 0 ≤ k → k < 9 → JTame (JGen.CS_Photo_Partial (JTables.ofC T) Z k E)) :
    JRel (JGen.CS_FluorShell_Kissel_no_Cascade (JTables.ofC T) Z m E) (Gen.CS_FluorShell_Kissel_no_Cascade T Z m E s) s := by
  jeq_start JGen.CS_FluorShell_Kissel_no_Cascade Gen.CS_FluorShell_Kissel_no_Cascade
  by_cases hz : Z < 1 ∨ Z > 120
  · jeq_auto
  by_cases hE : E ≤ 0
  · jeq_auto
  simp only [hz, hE, ↓reduceIte, zero_lit]
  by_cases h0 : m = 0
  · subst h0
    simp only [↓reduceIte, Int.reduceEq]
    jeq_use_pos (java_eq_c_FluorYield T Z 0 hZ (by decide) s hs), (java_pos_FluorYield T Z hZ 0 (by decide))
    jeq_simp
    jeq_use (java_eq_c_CS_Photo_Partial T Z 0 hZ (by decide) E s hs (hk.vec 0 (by decide) (by decide)).1 (hk.vec 0 (by decide) (by decide)).2.1 (hk.vec 0 (by decide) (by decide)).2.2)
    jeq_auto
  by_cases h1 : m = 1
  · subst h1
    simp only [↓reduceIte, Int.reduceEq]
    simp only [jpure_eq_ok, pure_eq_ok, jbind_ret, zero_lit, deq_real]
    jeq_use_pos (java_eq_c_FluorYield T Z 1 hZ (by decide) s hs), (java_pos_FluorYield T Z hZ 1 (by decide))
    jeq_simp
    jeq_use (java_eq_c_PL1_pure_kissel T Z hZ E  s hs (hk.vec 1 (by decide) (by decide)))
    jeq_auto
  by_cases h2 : m = 2
  · subst h2
    simp only [↓reduceIte, Int.reduceEq]
    have t0 := jtame_PL1_pure_kissel T Z hZ E  hz (ht 1 (by decide) (by decide))
    have c0 := JCatchRel.of_rel (java_eq_c_PL1_pure_kissel T Z hZ E  Slot.null rfl (hk.vec 1 (by decide) (by decide)))
    obtain ⟨p0, hp0⟩ := t0.jtry_val (d := (0.0 : ℝ))
    simp only [jpure_eq_ok, zero_lit] at hp0 c0
    simp only [jpure_eq_ok, pure_eq_ok, jbind_ret, zero_lit, deq_real]
    rcases c0.cases with ⟨v0, hc0, hj0⟩ | ⟨a, b, hc0, hj0⟩ | ⟨a, hc0⟩
    · have e0 : p0 = v0 := by rw [hp0] at hj0; cases hj0; rfl
      subst e0; clear hp0
      simp only [hj0, jbind_ok]
      jeq_use_pos (java_eq_c_FluorYield T Z 2 hZ (by decide) s hs), (java_pos_FluorYield T Z hZ 2 (by decide))
      jeq_simp
      jeq_use (java_eq_c_PL2_pure_kissel T Z hZ E p0 s hs (hk.vec 2 (by decide) (by decide)))
      jeq_auto
    · rw [hp0] at hj0; cases hj0
    · simp only [hp0, jbind_ok]
      jeq_use_pos (java_eq_c_FluorYield T Z 2 hZ (by decide) s hs), (java_pos_FluorYield T Z hZ 2 (by decide))
      jeq_auto
  by_cases h3 : m = 3
  · subst h3
    simp only [↓reduceIte, Int.reduceEq]
    have t0 := jtame_PL1_pure_kissel T Z hZ E  hz (ht 1 (by decide) (by decide))
    have c0 := JCatchRel.of_rel (java_eq_c_PL1_pure_kissel T Z hZ E  Slot.null rfl (hk.vec 1 (by decide) (by decide)))
    obtain ⟨p0, hp0⟩ := t0.jtry_val (d := (0.0 : ℝ))
    simp only [jpure_eq_ok, zero_lit] at hp0 c0
    have t1 := jtame_PL2_pure_kissel T Z hZ E p0 hz (ht 2 (by decide) (by decide))
    have c1 := JCatchRel.of_rel (java_eq_c_PL2_pure_kissel T Z hZ E p0 Slot.null rfl (hk.vec 2 (by decide) (by decide)))
    obtain ⟨p1, hp1⟩ := t1.jtry_val (d := (0.0 : ℝ))
    simp only [jpure_eq_ok, zero_lit] at hp1 c1
    simp only [jpure_eq_ok, pure_eq_ok, jbind_ret, zero_lit, deq_real]
    rcases c0.cases with ⟨v0, hc0, hj0⟩ | ⟨a, b, hc0, hj0⟩ | ⟨a, hc0⟩
    · have e0 : p0 = v0 := by rw [hp0] at hj0; cases hj0; rfl
      subst e0; clear hp0
      simp only [hj0, jbind_ok]
      rcases c1.cases with ⟨v1, hc1, hj1⟩ | ⟨a, b, hc1, hj1⟩ | ⟨a, hc1⟩
      · have e1 : p1 = v1 := by rw [hp1] at hj1; cases hj1; rfl
        subst e1; clear hp1
        simp only [hj1, jbind_ok]
        jeq_use_pos (java_eq_c_FluorYield T Z 3 hZ (by decide) s hs), (java_pos_FluorYield T Z hZ 3 (by decide))
        jeq_simp
        jeq_use (java_eq_c_PL3_pure_kissel T Z hZ E p0 p1 s hs (hk.vec 3 (by decide) (by decide)))
        jeq_auto
      · rw [hp1] at hj1; cases hj1
      · simp only [hp1, jbind_ok]
        jeq_use_pos (java_eq_c_FluorYield T Z 3 hZ (by decide) s hs), (java_pos_FluorYield T Z hZ 3 (by decide))
        jeq_auto
    · rw [hp0] at hj0; cases hj0
    · simp only [hp0, hp1, jbind_ok]
      jeq_use_pos (java_eq_c_FluorYield T Z 3 hZ (by decide) s hs), (java_pos_FluorYield T Z hZ 3 (by decide))
      jeq_auto
  by_cases h4 : m = 4
  · subst h4
    simp only [↓reduceIte, Int.reduceEq]
    simp only [jpure_eq_ok, pure_eq_ok, jbind_ret, zero_lit, deq_real]
    jeq_use_pos (java_eq_c_FluorYield T Z 4 hZ (by decide) s hs), (java_pos_FluorYield T Z hZ 4 (by decide))
    jeq_simp
    jeq_use (java_eq_c_PM1_pure_kissel T Z hZ E  s hs (hk.vec 4 (by decide) (by decide)))
    jeq_auto
  by_cases h5 : m = 5
  · subst h5
    simp only [↓reduceIte, Int.reduceEq]
    have t0 := jtame_PM1_pure_kissel T Z hZ E  hz (ht 4 (by decide) (by decide))
    have c0 := JCatchRel.of_rel (java_eq_c_PM1_pure_kissel T Z hZ E  Slot.null rfl (hk.vec 4 (by decide) (by decide)))
    obtain ⟨p0, hp0⟩ := t0.jtry_val (d := (0.0 : ℝ))
    simp only [jpure_eq_ok, zero_lit] at hp0 c0
    simp only [jpure_eq_ok, pure_eq_ok, jbind_ret, zero_lit, deq_real]
    rcases c0.cases with ⟨v0, hc0, hj0⟩ | ⟨a, b, hc0, hj0⟩ | ⟨a, hc0⟩
    · have e0 : p0 = v0 := by rw [hp0] at hj0; cases hj0; rfl
      subst e0; clear hp0
      simp only [hj0, jbind_ok]
      jeq_use_pos (java_eq_c_FluorYield T Z 5 hZ (by decide) s hs), (java_pos_FluorYield T Z hZ 5 (by decide))
      jeq_simp
      jeq_use (java_eq_c_PM2_pure_kissel T Z hZ E p0 s hs (hk.vec 5 (by decide) (by decide)))
      jeq_auto
    · rw [hp0] at hj0; cases hj0
    · simp only [hp0, jbind_ok]
      jeq_use_pos (java_eq_c_FluorYield T Z 5 hZ (by decide) s hs), (java_pos_FluorYield T Z hZ 5 (by decide))
      jeq_auto
  by_cases h6 : m = 6
  · subst h6
    simp only [↓reduceIte, Int.reduceEq]
    have t0 := jtame_PM1_pure_kissel T Z hZ E  hz (ht 4 (by decide) (by decide))
    have c0 := JCatchRel.of_rel (java_eq_c_PM1_pure_kissel T Z hZ E  Slot.null rfl (hk.vec 4 (by decide) (by decide)))
    obtain ⟨p0, hp0⟩ := t0.jtry_val (d := (0.0 : ℝ))
    simp only [jpure_eq_ok, zero_lit] at hp0 c0
    have t1 := jtame_PM2_pure_kissel T Z hZ E p0 hz (ht 5 (by decide) (by decide))
    have c1 := JCatchRel.of_rel (java_eq_c_PM2_pure_kissel T Z hZ E p0 Slot.null rfl (hk.vec 5 (by decide) (by decide)))
    obtain ⟨p1, hp1⟩ := t1.jtry_val (d := (0.0 : ℝ))
    simp only [jpure_eq_ok, zero_lit] at hp1 c1
    simp only [jpure_eq_ok, pure_eq_ok, jbind_ret, zero_lit, deq_real]
    rcases c0.cases with ⟨v0, hc0, hj0⟩ | ⟨a, b, hc0, hj0⟩ | ⟨a, hc0⟩
    · have e0 : p0 = v0 := by rw [hp0] at hj0; cases hj0; rfl
      subst e0; clear hp0
      simp only [hj0, jbind_ok]
      rcases c1.cases with ⟨v1, hc1, hj1⟩ | ⟨a, b, hc1, hj1⟩ | ⟨a, hc1⟩
      · have e1 : p1 = v1 := by rw [hp1] at hj1; cases hj1; rfl
        subst e1; clear hp1
        simp only [hj1, jbind_ok]
        jeq_use_pos (java_eq_c_FluorYield T Z 6 hZ (by decide) s hs), (java_pos_FluorYield T Z hZ 6 (by decide))
        jeq_simp
        jeq_use (java_eq_c_PM3_pure_kissel T Z hZ E p0 p1 s hs (hk.vec 6 (by decide) (by decide)))
        jeq_auto
      · rw [hp1] at hj1; cases hj1
      · simp only [hp1, jbind_ok]
        jeq_use_pos (java_eq_c_FluorYield T Z 6 hZ (by decide) s hs), (java_pos_FluorYield T Z hZ 6 (by decide))
        jeq_auto
    · rw [hp0] at hj0; cases hj0
    · simp only [hp0, hp1, jbind_ok]
      jeq_use_pos (java_eq_c_FluorYield T Z 6 hZ (by decide) s hs), (java_pos_FluorYield T Z hZ 6 (by decide))
      jeq_auto
  by_cases h7 : m = 7
  · subst h7
    simp only [↓reduceIte, Int.reduceEq]
    have t0 := jtame_PM1_pure_kissel T Z hZ E  hz (ht 4 (by decide) (by decide))
    have c0 := JCatchRel.of_rel (java_eq_c_PM1_pure_kissel T Z hZ E  Slot.null rfl (hk.vec 4 (by decide) (by decide)))
    obtain ⟨p0, hp0⟩ := t0.jtry_val (d := (0.0 : ℝ))
    simp only [jpure_eq_ok, zero_lit] at hp0 c0
    have t1 := jtame_PM2_pure_kissel T Z hZ E p0 hz (ht 5 (by decide) (by decide))
    have c1 := JCatchRel.of_rel (java_eq_c_PM2_pure_kissel T Z hZ E p0 Slot.null rfl (hk.vec 5 (by decide) (by decide)))
    obtain ⟨p1, hp1⟩ := t1.jtry_val (d := (0.0 : ℝ))
    simp only [jpure_eq_ok, zero_lit] at hp1 c1
    have t2 := jtame_PM3_pure_kissel T Z hZ E p0 p1 hz (ht 6 (by decide) (by decide))
    have c2 := JCatchRel.of_rel (java_eq_c_PM3_pure_kissel T Z hZ E p0 p1 Slot.null rfl (hk.vec 6 (by decide) (by decide)))
    obtain ⟨p2, hp2⟩ := t2.jtry_val (d := (0.0 : ℝ))
    simp only [jpure_eq_ok, zero_lit] at hp2 c2
    simp only [jpure_eq_ok, pure_eq_ok, jbind_ret, zero_lit, deq_real]
    rcases c0.cases with ⟨v0, hc0, hj0⟩ | ⟨a, b, hc0, hj0⟩ | ⟨a, hc0⟩
    · have e0 : p0 = v0 := by rw [hp0] at hj0; cases hj0; rfl
      subst e0; clear hp0
      simp only [hj0, jbind_ok]
      rcases c1.cases with ⟨v1, hc1, hj1⟩ | ⟨a, b, hc1, hj1⟩ | ⟨a, hc1⟩
      · have e1 : p1 = v1 := by rw [hp1] at hj1; cases hj1; rfl
        subst e1; clear hp1
        simp only [hj1, jbind_ok]
        rcases c2.cases with ⟨v2, hc2, hj2⟩ | ⟨a, b, hc2, hj2⟩ | ⟨a, hc2⟩
        · have e2 : p2 = v2 := by rw [hp2] at hj2; cases hj2; rfl
          subst e2; clear hp2
          simp only [hj2, jbind_ok]
          jeq_use_pos (java_eq_c_FluorYield T Z 7 hZ (by decide) s hs), (java_pos_FluorYield T Z hZ 7 (by decide))
          jeq_simp
          jeq_use (java_eq_c_PM4_pure_kissel T Z hZ E p0 p1 p2 s hs (hk.vec 7 (by decide) (by decide)))
          jeq_auto
        · rw [hp2] at hj2; cases hj2
        · simp only [hp2, jbind_ok]
          jeq_use_pos (java_eq_c_FluorYield T Z 7 hZ (by decide) s hs), (java_pos_FluorYield T Z hZ 7 (by decide))
          jeq_auto
      · rw [hp1] at hj1; cases hj1
      · simp only [hp1, hp2, jbind_ok]
        jeq_use_pos (java_eq_c_FluorYield T Z 7 hZ (by decide) s hs), (java_pos_FluorYield T Z hZ 7 (by decide))
        jeq_auto
    · rw [hp0] at hj0; cases hj0
    · simp only [hp0, hp1, hp2, jbind_ok]
      jeq_use_pos (java_eq_c_FluorYield T Z 7 hZ (by decide) s hs), (java_pos_FluorYield T Z hZ 7 (by decide))
      jeq_auto
  by_cases h8 : m = 8
  · subst h8
    simp only [↓reduceIte, Int.reduceEq]
    have t0 := jtame_PM1_pure_kissel T Z hZ E  hz (ht 4 (by decide) (by decide))
    have c0 := JCatchRel.of_rel (java_eq_c_PM1_pure_kissel T Z hZ E  Slot.null rfl (hk.vec 4 (by decide) (by decide)))
    obtain ⟨p0, hp0⟩ := t0.jtry_val (d := (0.0 : ℝ))
    simp only [jpure_eq_ok, zero_lit] at hp0 c0
    have t1 := jtame_PM2_pure_kissel T Z hZ E p0 hz (ht 5 (by decide) (by decide))
    have c1 := JCatchRel.of_rel (java_eq_c_PM2_pure_kissel T Z hZ E p0 Slot.null rfl (hk.vec 5 (by decide) (by decide)))
    obtain ⟨p1, hp1⟩ := t1.jtry_val (d := (0.0 : ℝ))
    simp only [jpure_eq_ok, zero_lit] at hp1 c1
    have t2 := jtame_PM3_pure_kissel T Z hZ E p0 p1 hz (ht 6 (by decide) (by decide))
    have c2 := JCatchRel.of_rel (java_eq_c_PM3_pure_kissel T Z hZ E p0 p1 Slot.null rfl (hk.vec 6 (by decide) (by decide)))
    obtain ⟨p2, hp2⟩ := t2.jtry_val (d := (0.0 : ℝ))
    simp only [jpure_eq_ok, zero_lit] at hp2 c2
    have t3 := jtame_PM4_pure_kissel T Z hZ E p0 p1 p2 hz (ht 7 (by decide) (by decide))
    have c3 := JCatchRel.of_rel (java_eq_c_PM4_pure_kissel T Z hZ E p0 p1 p2 Slot.null rfl (hk.vec 7 (by decide) (by decide)))
    obtain ⟨p3, hp3⟩ := t3.jtry_val (d := (0.0 : ℝ))
    simp only [jpure_eq_ok, zero_lit] at hp3 c3
    simp only [jpure_eq_ok, pure_eq_ok, jbind_ret, zero_lit, deq_real]
    rcases c0.cases with ⟨v0, hc0, hj0⟩ | ⟨a, b, hc0, hj0⟩ | ⟨a, hc0⟩
    · have e0 : p0 = v0 := by rw [hp0] at hj0; cases hj0; rfl
      subst e0; clear hp0
      simp only [hj0, jbind_ok]
      rcases c1.cases with ⟨v1, hc1, hj1⟩ | ⟨a, b, hc1, hj1⟩ | ⟨a, hc1⟩
      · have e1 : p1 = v1 := by rw [hp1] at hj1; cases hj1; rfl
        subst e1; clear hp1
        simp only [hj1, jbind_ok]
        rcases c2.cases with ⟨v2, hc2, hj2⟩ | ⟨a, b, hc2, hj2⟩ | ⟨a, hc2⟩
        · have e2 : p2 = v2 := by rw [hp2] at hj2; cases hj2; rfl
          subst e2; clear hp2
          simp only [hj2, jbind_ok]
          rcases c3.cases with ⟨v3, hc3, hj3⟩ | ⟨a, b, hc3, hj3⟩ | ⟨a, hc3⟩
          · have e3 : p3 = v3 := by rw [hp3] at hj3; cases hj3; rfl
            subst e3; clear hp3
            simp only [hj3, jbind_ok]
            jeq_use_pos (java_eq_c_FluorYield T Z 8 hZ (by decide) s hs), (java_pos_FluorYield T Z hZ 8 (by decide))
            jeq_simp
            jeq_use (java_eq_c_PM5_pure_kissel T Z hZ E p0 p1 p2 p3 s hs (hk.vec 8 (by decide) (by decide)))
            jeq_auto
          · rw [hp3] at hj3; cases hj3
          · simp only [hp3, jbind_ok]
            jeq_use_pos (java_eq_c_FluorYield T Z 8 hZ (by decide) s hs), (java_pos_FluorYield T Z hZ 8 (by decide))
            jeq_auto
        · rw [hp2] at hj2; cases hj2
        · simp only [hp2, hp3, jbind_ok]
          jeq_use_pos (java_eq_c_FluorYield T Z 8 hZ (by decide) s hs), (java_pos_FluorYield T Z hZ 8 (by decide))
          jeq_auto
      · rw [hp1] at hj1; cases hj1
      · simp only [hp1, hp2, hp3, jbind_ok]
        jeq_use_pos (java_eq_c_FluorYield T Z 8 hZ (by decide) s hs), (java_pos_FluorYield T Z hZ 8 (by decide))
        jeq_auto
    · rw [hp0] at hj0; cases hj0
    · simp only [hp0, hp1, hp2, hp3, jbind_ok]
      jeq_use_pos (java_eq_c_FluorYield T Z 8 hZ (by decide) s hs), (java_pos_FluorYield T Z hZ 8 (by decide))
      jeq_auto
  jeq_auto
end kshell

end C19
end Xrl
