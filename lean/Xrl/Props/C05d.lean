import Xrl.Props.C05c
import Xrl.Spec.PhotoStrict
/-!
# C05 — the Kissel photo total and "When a part is undefined the aggregate fails … instead of returning a partial sum"

`C05.photo_total_eq` proves `CSb_Photo_Total` against `Spec.CSb_Photo_Total`, whose sum (`photoSum`) counts 0 for every failing
partial — as kissel_pe.c:63-67 does (`CSb_Photo_Partial(Z, shell, E, NULL)` inside the loop; a failure is the number 0).
`Spec.CSb_Photo_Total_strict` (Spec/PhotoStrict.lean) is the text: an ionisable sub-shell whose partial cross section is undefined at
`E` makes the aggregate fail.

* `photo_total_full`        : the generated `CSb_Photo_Total` meets the strict specification — for all tables of the shape the C02
                              theorems need;
* `photo_total_full_fails`  : it does not: `witKL` (K and L1 occupied; the L1 table ends at e⁻¹ keV, `E` = 1 keV) — the library
                              returns the K contribution alone, `2e³` barn, silently dropping the ionisable L1 sub-shell;
* `photo_total_strict_iff`  : exact characterisation: the generated function meets the strict specification **iff** no ionisable
                              sub-shell has an undefined partial at `E`, or the result is an error anyway;
* `photo_total_strict`      : hence it meets it whenever every ionisable sub-shell's partial is defined at `E`.
-/
namespace Xrl
namespace C05
open Spec KN

set_option linter.unusedSimpArgs false
set_option linter.unusedVariables false

variable (T : Tables ℝ) (Z : Int) (E : ℝ) (error : Slot)

/-- **the full statement**: the Kissel photo total fails when a part is undefined -/
def photo_total_full : Prop :=
  ∀ (T : Tables ℝ) (Z : Int) (E : ℝ) (error : Slot), error.isFull = false →
    (∀ s : Nat, s < 28 → kisselShapeB T Z (s : Int) = true) →
    Meets (Gen.CSb_Photo_Total T Z E error) error (Spec.CSb_Photo_Total_strict T Z E)

theorem photoUndefined_nil_iff :
    photoUndefined T Z E = [] ↔
      ∀ s : Nat, s < 31 → ionisable T Z s E = true → ∃ b, Spec.CSb_Photo_Partial T Z (s : Int) E = .value b := by
  unfold photoUndefined
  rw [List.filter_eq_nil_iff]
  have e31 : Hdr.SHELLNUM_K.toNat = 31 := rfl
  rw [e31]
  constructor
  · intro h s hs hi
    have := h s (List.mem_range.2 hs)
    rw [hi] at this
    cases hx : Spec.CSb_Photo_Partial T Z (s : Int) E with
    | value b => exact ⟨b, rfl⟩
    | fails => rw [hx] at this; simp [isValue] at this
    | any => exact absurd hx (CSb_Photo_Partial_ne_any T Z _ E)
  · intro h s hs
    have hs' := List.mem_range.1 hs
    by_cases hi : ionisable T Z s E = true
    · obtain ⟨b, hb⟩ := h s hs' hi
      simp [hb, isValue]
    · simp [hi]

theorem strict_of_nil (h : photoUndefined T Z E = []) : Spec.CSb_Photo_Total_strict T Z E = Spec.CSb_Photo_Total T Z E := by
  unfold Spec.CSb_Photo_Total_strict
  rw [h]; rfl

theorem strict_of_ne_nil (h : photoUndefined T Z E ≠ []) : Spec.CSb_Photo_Total_strict T Z E = .fails := by
  unfold Spec.CSb_Photo_Total_strict
  rw [if_neg]
  rw [List.isEmpty_iff]
  exact h

/-- a call that returned a non-zero number did not fail -/
theorem not_fails_of_value {v : ℝ} (hv : v ≠ 0) : ¬ Fails (Except.ok (v, error) : M (ℝ × Slot)) error := by
  rintro ⟨e, _, _, h⟩
  injection h with h
  have := (Prod.mk.inj h).1
  rw [this] at hv
  norm_num at hv

section
variable (he : error.isFull = false)
include he

/-- **exact characterisation**: the generated `CSb_Photo_Total` meets the strict specification iff no ionisable sub-shell has an
undefined partial cross section at `E`, or the sum is an error anyway (nothing contributes, bad `Z`, `E ≤ 0`, no Kissel data) -/
theorem photo_total_strict_iff (hs : ∀ s : Nat, s < 28 → kisselShapeB T Z (s : Int) = true) :
    Meets (Gen.CSb_Photo_Total T Z E error) error (Spec.CSb_Photo_Total_strict T Z E) ↔
      (photoUndefined T Z E = [] ∨ Spec.CSb_Photo_Total T Z E = .fails) := by
  have m := photo_total_eq T Z E error he hs
  constructor
  · intro h
    by_cases hu : photoUndefined T Z E = []
    · exact Or.inl hu
    · right
      rw [strict_of_ne_nil T Z E hu] at h
      cases hx : Spec.CSb_Photo_Total T Z E with
      | value v =>
        rw [hx] at m
        have hr : Gen.CSb_Photo_Total T Z E error = Except.ok (v, error) := m
        rw [hr] at h
        exact absurd h (not_fails_of_value error (CSb_Photo_Total_pos T Z E hx))
      | fails => rfl
      | any => exact absurd hx (CSb_Photo_Total_ne_any T Z E)
  · rintro (hu | hf)
    · rw [strict_of_nil T Z E hu]; exact m
    · have : Spec.CSb_Photo_Total_strict T Z E = .fails := by
        unfold Spec.CSb_Photo_Total_strict
        split_ifs
        · exact hf
        · rfl
      rw [this]; rw [hf] at m; exact m

/-- **the generated `CSb_Photo_Total` meets the strict specification whenever every ionisable sub-shell's partial cross section is
defined at `E`** (the hypothesis excludes exactly the inputs on which a part is dropped) -/
theorem photo_total_strict (hs : ∀ s : Nat, s < 28 → kisselShapeB T Z (s : Int) = true)
    (hu : ∀ s : Nat, s < 31 → ionisable T Z s E = true → ∃ b, Spec.CSb_Photo_Partial T Z (s : Int) E = .value b) :
    Meets (Gen.CSb_Photo_Total T Z E error) error (Spec.CSb_Photo_Total_strict T Z E) :=
  (photo_total_strict_iff T Z E error he hs).2 (Or.inl ((photoUndefined_nil_iff T Z E).2 hu))

/-- where a part IS undefined and the other parts give a non-zero sum, the library returns that partial sum -/
theorem photo_total_partial_sum (hs : ∀ s : Nat, s < 28 → kisselShapeB T Z (s : Int) = true)
    (hu : photoUndefined T Z E ≠ []) {v : ℝ} (hv : Spec.CSb_Photo_Total T Z E = .value v) :
    Gen.CSb_Photo_Total T Z E error = Except.ok (v, error) ∧ v ≠ 0 ∧ Spec.CSb_Photo_Total_strict T Z E = .fails := by
  have m := photo_total_eq T Z E error he hs
  rw [hv] at m
  exact ⟨m, CSb_Photo_Total_pos T Z E hv, strict_of_ne_nil T Z E hu⟩

end

/-! ## the witness: K and L1 occupied, the L1 table ends below `E` -/
section witness
open C02

/-- abscissae `ln E = -2, -1`: a table that ends at e⁻¹ ≈ 0.37 keV -/
noncomputable def knotsM : Vec ℝ := ⟨2, fun k => (k : ℝ) - 2⟩

/-- `witK 2` with a second occupied sub-shell: L1 (2 electrons, edge at 1/8 keV) whose Kissel table covers 0.135 … 0.37 keV only;
the K table (edge 0.5 keV) covers 1 … e keV -/
noncomputable def witKL : Tables ℝ :=
  { witK 2 with
    Electron_Config_Kissel := fun _ s => if s = 0 ∨ s = 1 then 2 else 0
    EdgeEnergy_arr := fun _ s => if s = 1 then 1 / 8 else 1 / 2
    E_Photo_Partial_Kissel := fun _ s => if s = 1 then knotsM else C02.knots01 }

theorem witM_vec : vecOkB knotsM ys35 zeros2 2 = true := by
  simp [vecOkB, knotsM, ys35, zeros2, knot]

theorem witKL_shape (shell : Int) : kisselShapeB witKL 1 shell = true := by
  unfold kisselShapeB kisselOkB
  rw [Bool.or_eq_true]
  right
  by_cases h : shell.toNat = 1
  · show (vecOkB (if shell.toNat = 1 then knotsM else C02.knots01) ys35 zeros2 2 &&
      (decide ((2 : Int) ≤ 2) && decide (knot (if shell.toNat = 1 then knotsM else C02.knots01) 1 <
        knot (if shell.toNat = 1 then knotsM else C02.knots01) 2))) = true
    rw [if_pos h, witM_vec]
    simp [knot, knotsM]
  · show (vecOkB (if shell.toNat = 1 then knotsM else C02.knots01) ys35 zeros2 2 &&
      (decide ((2 : Int) ≤ 2) && decide (knot (if shell.toNat = 1 then knotsM else C02.knots01) 1 <
        knot (if shell.toNat = 1 then knotsM else C02.knots01) 2))) = true
    rw [if_neg h, wit_vec]
    simp [knot, C02.knots01]

theorem witKL_guard0 : kisselGuard witKL 1 0 1 = true := by
  rw [kisselGuard_iff]
  refine ⟨by omega, by omega, by norm_num, ?_, ?_, ?_⟩
  · show ¬ (2 : ℝ) < 1.0e-6; norm_num
  · show (0.0 : ℝ) < 1 / 2; norm_num
  · show ¬ (1 : ℝ) < 1 / 2; norm_num

theorem witKL_guard1 : kisselGuard witKL 1 1 1 = true := by
  rw [kisselGuard_iff]
  refine ⟨by omega, by omega, by norm_num, ?_, ?_, ?_⟩
  · show ¬ (2 : ℝ) < 1.0e-6; norm_num
  · show (0.0 : ℝ) < 1 / 8; norm_num
  · show ¬ (1 : ℝ) < 1 / 8; norm_num

/-- the K part at 1 keV: e³ barn per electron -/
theorem witKL_partial0 : Spec.CSb_Photo_Partial witKL 1 0 1 = .value (Real.exp 3) := by
  rw [kissel_at_knot witKL 1 0 1 witKL_guard0 (witKL_shape 0) 1 (le_refl _)
    (by show 1 < (2 : Int).toNat; decide)
    (by show Real.log 1 = knot C02.knots01 1; simp [knot, C02.knots01])
    (by show knot C02.knots01 1 < knot C02.knots01 (1 + 1); simp [knot, C02.knots01])]
  have e : knot (witKL.Photo_Partial_Kissel (1 : Int).toNat (0 : Int).toNat) 1 = 3 := by
    show knot ys35 1 = 3; simp [knot, ys35]
  rw [e]

/-- **the L1 part at 1 keV is undefined**: L1 is occupied and its edge (1/8 keV) is below 1 keV, but its table ends at e⁻¹ keV -/
theorem witKL_partial1 : Spec.CSb_Photo_Partial witKL 1 1 1 = .fails := by
  apply kissel_no_extrapolation_above
  · show (1.0e-7 : ℝ) < Real.log 1 - knot knotsM (2 : Int).toNat
    have : knot knotsM (2 : Int).toNat = -1 := by
      show knot knotsM 2 = -1; simp [knot, knotsM]; norm_num
    rw [this, Real.log_one]; norm_num
  · show ¬ Real.log 1 < knot knotsM 1
    have : knot knotsM 1 = -2 := by simp [knot, knotsM]
    rw [this, Real.log_one]; norm_num

theorem witKL_ionisable1 : ionisable witKL 1 1 1 = true := by
  unfold ionisable
  rw [Bool.and_eq_true]
  refine ⟨decide_eq_true ?_, witKL_guard1⟩
  show (1.0e-6 : ℝ) < 2; norm_num

/-- L1 is an undefined part of the sum at 1 keV -/
theorem witKL_undefined : photoUndefined witKL 1 1 ≠ [] := by
  intro h
  have hm : (1 : Nat) ∈ photoUndefined witKL 1 1 := by
    unfold photoUndefined
    rw [List.mem_filter]
    refine ⟨List.mem_range.2 (by show 1 < Hdr.SHELLNUM_K.toNat; decide), ?_⟩
    rw [witKL_ionisable1]
    show (true && !isValue (Spec.CSb_Photo_Partial witKL 1 ((1 : Nat) : Int) 1)) = true
    rw [show ((1 : Nat) : Int) = 1 from rfl, witKL_partial1]
    rfl
  rw [h] at hm
  exact absurd hm (List.not_mem_nil)

theorem witKL_photoSum : photoSum witKL 1 1 = 0.0 + Real.exp 3 * 2 + 0.0 * 2 := by
  unfold photoSum
  rw [show Hdr.SHELLNUM_K.toNat = 29 + 1 + 1 from rfl, List.range_succ_eq_map, List.foldl_cons, List.range_succ_eq_map,
    List.map_cons, List.foldl_cons, foldl_id_of]
  · have h0 : (1.0e-6 : ℝ) < witKL.Electron_Config_Kissel (1 : Int).toNat 0 := by
      show (1.0e-6 : ℝ) < 2; norm_num
    have h1 : (1.0e-6 : ℝ) < witKL.Electron_Config_Kissel (1 : Int).toNat (0 + 1) := by
      show (1.0e-6 : ℝ) < 2; norm_num
    rw [if_pos h0, if_pos h1]
    show 0.0 + valOr0 (Spec.CSb_Photo_Partial witKL 1 0 1) * 2 + valOr0 (Spec.CSb_Photo_Partial witKL 1 1 1) * 2 = _
    rw [witKL_partial0, witKL_partial1]; rfl
  · intro k hk s
    obtain ⟨j, hj, rfl⟩ := List.mem_map.1 hk
    obtain ⟨i, _, rfl⟩ := List.mem_map.1 hj
    have h0 : ¬ (1.0e-6 : ℝ) < witKL.Electron_Config_Kissel (1 : Int).toNat (i + 1 + 1) := by
      show ¬ (1.0e-6 : ℝ) < (if i + 1 + 1 = 0 ∨ i + 1 + 1 = 1 then 2 else 0)
      rw [if_neg (by omega)]; norm_num
    rw [if_neg h0]

theorem witKL_sum_ne : (0.0 : ℝ) + Real.exp 3 * 2 + 0.0 * 2 ≠ 0 := by
  have := Real.exp_pos 3
  norm_num

/-- the sum that counts 0 for the undefined part: the K contribution alone -/
theorem witKL_total : Spec.CSb_Photo_Total witKL 1 1 = .value (0.0 + Real.exp 3 * 2 + 0.0 * 2) := by
  unfold Spec.CSb_Photo_Total
  rw [witKL_photoSum, if_pos]
  refine ⟨(zOk_iff 1).2 (by omega), by show (0 : Int) ≤ 1; omega, by norm_num, ?_⟩
  rw [deq_real]; intro h; exact witKL_sum_ne (h.trans lit0)

/-- **on the witness the library returns the partial sum `2e³` barn** (the K shell alone) **with no error**, while the text
gives an error: the L1 part is undefined at 1 keV -/
theorem witKL_result :
    Gen.CSb_Photo_Total witKL 1 1 Slot.empty = Except.ok (0.0 + Real.exp 3 * 2 + 0.0 * 2, Slot.empty) ∧
    Spec.CSb_Photo_Total_strict witKL 1 1 = .fails :=
  let h := photo_total_partial_sum witKL 1 1 Slot.empty rfl (fun s _ => witKL_shape s) witKL_undefined witKL_total
  ⟨h.1, h.2.2⟩

/-- **the full statement is false** -/
theorem photo_total_full_fails : ¬ photo_total_full := fun h => by
  have m := h witKL 1 1 Slot.empty rfl (fun s _ => witKL_shape s)
  rcases (photo_total_strict_iff witKL 1 1 Slot.empty rfl (fun s _ => witKL_shape s)).1 m with hu | hf
  · exact witKL_undefined hu
  · rw [witKL_total] at hf; cases hf

/-- the hypothesis of `photo_total_strict` on a concrete table (`witK 2`: only the K shell is occupied, defined at 1 keV): no part is
undefined, the strict specification has the value `2e³` barn and the generated function returns it -/
example : photoUndefined (witK 2) 1 1 = [] ∧
    Meets (Gen.CSb_Photo_Total (witK 2) 1 1 Slot.empty) Slot.empty (.value (0.0 + Real.exp 3 * 2)) := by
  have hu : ∀ s : Nat, s < 31 → ionisable (witK 2) 1 s 1 = true → ∃ b, Spec.CSb_Photo_Partial (witK 2) 1 (s : Int) 1 = .value b := by
    intro s _ hi
    by_cases h0 : s = 0
    · subst h0; exact ⟨_, wit_partial 2⟩
    · exfalso
      unfold ionisable at hi
      rw [Bool.and_eq_true] at hi
      have := of_decide_eq_true hi.1
      have e : (witK 2).Electron_Config_Kissel (1 : Int).toNat s = 0 := by
        show (if s = 0 then (2 : ℝ) else 0) = 0
        rw [if_neg h0]
      rw [e] at this
      norm_num at this
  refine ⟨(photoUndefined_nil_iff (witK 2) 1 1).2 hu, ?_⟩
  have := photo_total_strict (witK 2) 1 1 Slot.empty rfl (fun s _ => witK_shape 2 s) hu
  rwa [strict_of_nil _ _ _ ((photoUndefined_nil_iff (witK 2) 1 1).2 hu), wit_CSb_Photo_Total] at this

end witness

end C05
end Xrl
