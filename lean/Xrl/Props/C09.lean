import Xrl.Lemmas.JumpRatio
import Xrl.Gen.F_cs_line
import Xrl.Gen.F_cs_barns
/-!
# C09 — jump-ratio XRF cross sections = photo cross section × jump share × yield × rate

Every theorem is about the definitions generated from src/cs_line.c and src/cs_barns.c of the working tree
(`Gen.Jump_from_K/L1/L2/L3`, `Gen.CS_FluorShell`, `Gen.CS_FluorLine`, `Gen.CSb_FluorShell`, `Gen.CSb_FluorLine`), for every
table content `T`, every `int` argument, every real energy and every non-full error slot.  The expectations are in
Spec/JumpRatio.lean.  Hypotheses: the shape of the photo table (`vecOkB`, as in C02) and the edge-order invariant
`edgeOrderB` (L2/L3), both executable and evaluated on the shipped tables by the driver.
-/
namespace Xrl
namespace C09
open Spec

set_option linter.unusedSimpArgs false
set_option linter.unusedVariables false

variable (T : Tables ℝ) (Z : Int) (E : ℝ) (error : Slot) (he : error.isFull = false)

section jumps
include he

/-- K: `(J_K − 1)/J_K · ω_K` above the K edge; error below it, without K-edge data, or without jump ratio / yield -/
theorem jump_from_K_spec : Meets (Gen.Jump_from_K T Z E error) error (shellFactor T Z Hdr.K_SHELL E) := by
  have cE := edge_call T Z 0 error he
  have cJ := jump_call T Z 0 error he
  have cW := fyield_call T Z 0 error he
  simp only [Hdr.K_SHELL]
  rw [shellFactor_K]
  unfold Gen.Jump_from_K
  simp only [ddiv, deq_real, lit0, lit1]
  rcases cE with ⟨epos, rE⟩ | ⟨e0, e, h1, h2, rE⟩
  · simp only [rE, bind_ok, setErr_notFull he]
    by_cases hK : edge T Z 0 < E ∧ 0 < edge T Z 0
    · simp only [hK, and_self, if_true]
      rcases cJ with ⟨jpos, rJ⟩ | ⟨j0, e, h1, h2, rJ⟩
      · simp only [rJ, bind_ok]
        rcases cW with ⟨wpos, rW⟩ | ⟨w0, e, h1, h2, rW⟩
        · simp only [rW, bind_ok, nonzero, deq_real, lit0, setErr_notFull he]
          by_cases h0 : jump T Z 0 - 1 = 0
          · simp [jpos, wpos, jpos.ne', wpos.ne', h0, Meets]
            xrl_finish
          · simp [jpos, wpos, jpos.ne', wpos.ne', h0, Meets, Returns]
        · simp only [rW, bind_ok]
          simp [jpos, jpos.ne', w0, Meets]
          exact fails_of_eq h1 h2 rfl
      · simp only [rJ, bind_ok]
        simp [j0, Meets]
        exact fails_of_eq h1 h2 rfl
    · simp only [hK, if_false]
      simp [epos.ne', Meets]
      xrl_finish
  · rw [e0]
    simp only [rE, bind_ok]
    simp [Meets]
    exact fails_of_eq h1 h2 rfl

/-- L1: `(J_L1 − 1)/J_L1 · [1/J_K above the K edge] · ω_L1` above the L1 edge -/
theorem jump_from_L1_spec : Meets (Gen.Jump_from_L1 T Z E error) error (shellFactor T Z Hdr.L1_SHELL E) := by
  simp only [Hdr.L1_SHELL]
  rw [shellFactor_L1 T Z E]
  exact jump_from_L1_flat T Z E error he

/-- L2: `(τ_L2 + f12 τ_L1) ω_L2` above the L2 edge -/
theorem jump_from_L2_spec (hO : edgeOrderB T Z = true) :
    Meets (Gen.Jump_from_L2 T Z E error) error (shellFactor T Z Hdr.L2_SHELL E) := by
  obtain ⟨⟨o12, _, _⟩, y2, _⟩ := (edgeOrder_iff T Z).mp hO
  simp only [Hdr.L2_SHELL]
  rw [shellFactor_L2 T Z E o12 y2]
  exact jump_from_L2_flat T Z E error he

/-- L3: `(τ_L3 + f23 τ_L2 + (f13 + f′13 + f12 f23) τ_L1) ω_L3` above the L3 edge -/
theorem jump_from_L3_spec (hO : edgeOrderB T Z = true) :
    Meets (Gen.Jump_from_L3 T Z E error) error (shellFactor T Z Hdr.L3_SHELL E) := by
  obtain ⟨⟨o12, o23, o13⟩, _, y3⟩ := (edgeOrder_iff T Z).mp hO
  simp only [Hdr.L3_SHELL]
  rw [shellFactor_L3 T Z E o12 o23 o13 y3]
  exact jump_from_L3_flat T Z E error he

end jumps

section shells
include he

/-- the dispatch through the `jumpers` table -/
theorem jumpers_spec (shell : Int) (hs : 0 ≤ shell ∧ shell ≤ 3) (hO : edgeOrderB T Z = true) :
    Meets (if shell = 0 then Gen.Jump_from_K T Z E error else if shell = 1 then Gen.Jump_from_L1 T Z E error
      else if shell = 2 then Gen.Jump_from_L2 T Z E error else if shell = 3 then Gen.Jump_from_L3 T Z E error
      else throw (Abort.ub "fnptr jumpers")) error (shellFactor T Z shell E) := by
  have : shell = 0 ∨ shell = 1 ∨ shell = 2 ∨ shell = 3 := by omega
  rcases this with rfl | rfl | rfl | rfl
  · simpa [Hdr.K_SHELL, Hdr.L1_SHELL, Hdr.L2_SHELL, Hdr.L3_SHELL] using jump_from_K_spec T Z E error he
  · simpa [Hdr.K_SHELL, Hdr.L1_SHELL, Hdr.L2_SHELL, Hdr.L3_SHELL] using jump_from_L1_spec T Z E error he
  · simpa [Hdr.K_SHELL, Hdr.L1_SHELL, Hdr.L2_SHELL, Hdr.L3_SHELL] using jump_from_L2_spec T Z E error he hO
  · simpa [Hdr.K_SHELL, Hdr.L1_SHELL, Hdr.L2_SHELL, Hdr.L3_SHELL] using jump_from_L3_spec T Z E error he hO

/-- **shell cross section** `= CS_Photo · V_s · ω_s` for K, L1, L2, L3; error for invalid `Z`, `E ≤ 0`, a shell outside
K..L3, below the sub-shell edge, when a required jump ratio, yield or Coster–Kronig probability is unavailable or when
`CS_Photo` fails, or when the share is exactly zero (jump ratio 1: the product would be the error sentinel 0.0) -/
theorem fluorshell_jump_spec (shell : Int)
    (hP : vecOkB (T.E_Photo_arr Z.toNat) (T.CS_Photo_arr Z.toNat) (T.CS_Photo_arr2 Z.toNat) (T.NE_Photo Z.toNat) = true)
    (hO : edgeOrderB T Z = true) :
    Meets (Gen.CS_FluorShell T Z shell E error) error (Spec.CS_FluorShell T Z shell E) := by
  unfold Gen.CS_FluorShell Spec.CS_FluorShell
  simp only [zOk, mOk, Hdr.ZMAX, Hdr.K_SHELL, Hdr.L3_SHELL, decide_eq_true_eq, lit0, deq_real, setErr_notFull he]
  by_cases hZ : Z < 1 ∨ Z > 120
  · have : ¬ (1 ≤ Z ∧ Z ≤ 120) := by omega
    simp only [hZ, this, if_true, false_and, if_false, Meets]
    xrl_finish
  · have hZ' : 1 ≤ Z ∧ Z ≤ 120 := by omega
    simp only [hZ, hZ', if_false, true_and]
    by_cases hE : E ≤ 0
    · have : ¬ 0 < E := not_lt.mpr hE
      simp only [hE, this, if_true, false_and, if_false, Meets]
      xrl_finish
    · have hE' : 0 < E := not_le.mp hE
      simp only [hE, hE', if_false, true_and]
      by_cases hs : shell < 0 ∨ shell > 3
      · have : ¬ (0 ≤ shell ∧ shell ≤ 3) := by omega
        simp only [hs, this, if_true, if_false, Meets]
        xrl_finish
      · have hs' : 0 ≤ shell ∧ shell ≤ 3 := by omega
        simp only [hs, hs', if_false, if_true]
        have mJ := jumpers_spec T Z E error he shell hs' hO
        have mP := C02.site_spec_CS_Photo T Z E
        rcases Meets.cases mJ with ⟨f, hf, rf⟩ | ⟨hf, e, h1, h2, rf⟩ | hany
        · have fne : f ≠ 0 := shellFactor_value_ne_zero T Z shell E hf
          simp only [rf, hf, bind_ok, fne, if_false]
          rcases Meets.cases (mP error he hP) with ⟨c, hc, rc⟩ | ⟨hc, e, h1, h2, rc⟩ | hany
          · have cpos := (interp_exp_pos (by unfold Spec.CS_Photo at hc; exact hc)).ne'
            simp [rc, hc, cpos, Meets, Returns]
          · simp [rc, hc, Meets]
            exact fails_of_eq h1 h2 rfl
          · exact absurd hany (by unfold Spec.CS_Photo; exact interp_ne_any)
        · simp only [rf, hf, bind_ok]
          simp [Meets]
          exact fails_of_eq h1 h2 rfl
        · exact absurd hany (shellFactor_ne_any T Z shell E)

end shells

section lines
include he

/-- single lines and the K-alpha, K-beta, L-alpha groups: shell value of the line's shell × `RadRate` -/
theorem fluorline_single (line : Int) (hl : line ≠ 3)
    (hP : vecOkB (T.E_Photo_arr Z.toNat) (T.CS_Photo_arr Z.toNat) (T.CS_Photo_arr2 Z.toNat) (T.NE_Photo Z.toNat) = true)
    (hO : edgeOrderB T Z = true) :
    Meets (Gen.CS_FluorLine T Z line E error) error (Spec.CS_FluorLine T Z line E) := by
  unfold Gen.CS_FluorLine Spec.CS_FluorLine
  simp only [Hdr.LB_LINE, hl, if_false]
  by_cases hK : line ≥ -29 ∧ line ≤ 1
  · have hs := lineShell_K line hK
    have hS := fluorshell_jump_spec T Z E error he 0 hP hO
    simp only [hK, hs, if_true, and_self]
    c09_line hS, (fun v hv => fluorShell_value_ne_zero T Z E 0 hv), (fluorShell_ne_any T Z E 0)
  · simp only [hK, if_false]
    by_cases hL : (line ≤ -30 ∧ line ≥ -113) ∨ line = 2
    · simp only [hL, if_true]
      by_cases r1 : line ≥ -58 ∧ line ≤ -30
      · have hs := lineShell_L1 line r1
        have hS := fluorshell_jump_spec T Z E error he 1 hP hO
        simp only [r1, hs, if_true, and_self]
        c09_line hS, (fun v hv => fluorShell_value_ne_zero T Z E 1 hv), (fluorShell_ne_any T Z E 1)
      · by_cases r2 : line ≥ -85 ∧ line ≤ -59
        · have hs := lineShell_L2 line r2
          have hS := fluorshell_jump_spec T Z E error he 2 hP hO
          simp only [r1, r2, hs, if_true, if_false, and_self]
          c09_line hS, (fun v hv => fluorShell_value_ne_zero T Z E 2 hv), (fluorShell_ne_any T Z E 2)
        · have r3 : line ≤ -86 ∨ line = 2 := by omega
          have hs := lineShell_L3 line (by omega)
          have hS := fluorshell_jump_spec T Z E error he 3 hP hO
          simp only [r1, r2, r3, hs, if_true, if_false, and_self]
          c09_line hS, (fun v hv => fluorShell_value_ne_zero T Z E 3 hv), (fluorShell_ne_any T Z E 3)
    · have hs := lineShell_none line (by omega)
      simp only [hL, hl, hs, if_false, setErr_notFull he, Meets]
      xrl_finish


/-- L-beta: photo cross section × Σ over the 15 members `Spec.lbMembers` of (share of the member's shell) × (member rate);
"excitation energy too low" when that sum is exactly 0 -/
theorem fluorline_LB
    (hP : vecOkB (T.E_Photo_arr Z.toNat) (T.CS_Photo_arr Z.toNat) (T.CS_Photo_arr2 Z.toNat) (T.NE_Photo Z.toNat) = true)
    (hO : edgeOrderB T Z = true) :
    Meets (Gen.CS_FluorLine T Z 3 E error) error (Spec.CS_FluorLine T Z 3 E) := by
  have j1 := C10.meets_null (jump_from_L1_spec T Z E Slot.null rfl) (shellFactor_ne_any T Z _ E)
  have j2 := C10.meets_null (jump_from_L2_spec T Z E Slot.null rfl hO) (shellFactor_ne_any T Z _ E)
  have j3 := C10.meets_null (jump_from_L3_spec T Z E Slot.null rfl hO) (shellFactor_ne_any T Z _ E)
  simp only [Hdr.L1_SHELL, Hdr.L2_SHELL, Hdr.L3_SHELL] at j1 j2 j3
  have mP := C02.site_spec_CS_Photo T Z E error he hP
  unfold Gen.CS_FluorLine Spec.CS_FluorLine
  simp only [Hdr.LB_LINE, if_true, lb_sum_eq]
  have n1 : ¬ ((3 : Int) ≥ -29 ∧ (3 : Int) ≤ 1) := by omega
  have n2 : ¬ (((3 : Int) ≤ -30 ∧ (3 : Int) ≥ -113) ∨ (3 : Int) = 2) := by omega
  simp only [n1, n2, if_false, if_true, j1, j2, j3, rad_null, bind_ok, deq_real, lit0, setErr_notFull he]
  generalize valOr0 (shellFactor T Z 2 E) * _ + valOr0 (shellFactor T Z 3 E) * _ + valOr0 (shellFactor T Z 1 E) * _ = S
  by_cases hS : S = 0
  · simp only [hS, if_true, Meets]
    xrl_finish
  · simp only [hS, if_false]
    rcases Meets.cases mP with ⟨c, hc, rc⟩ | ⟨hc, e, h1, h2, rc⟩ | hany
    · have cpos := (interp_exp_pos (by unfold Spec.CS_Photo at hc; exact hc)).ne'
      simp [rc, hc, cpos, Meets, Returns]
    · simp only [rc, hc, bind_ok]
      simp [Meets]
      exact fails_of_eq h1 h2 rfl
    · exact absurd hany (by unfold Spec.CS_Photo; exact interp_ne_any)


/-- **line cross section for every macro value**: K, L1, L2, L3 lines and the K-alpha/K-beta/L-alpha groups are the shell
value × `RadRate` (group rates as in C10), L-beta is the member sum, any other value is rejected -/
theorem fluorline_jump_spec (line : Int)
    (hP : vecOkB (T.E_Photo_arr Z.toNat) (T.CS_Photo_arr Z.toNat) (T.CS_Photo_arr2 Z.toNat) (T.NE_Photo Z.toNat) = true)
    (hO : edgeOrderB T Z = true) :
    Meets (Gen.CS_FluorLine T Z line E error) error (Spec.CS_FluorLine T Z line E) := by
  by_cases hl : line = 3
  · subst hl; exact fluorline_LB T Z E error he hP hO
  · exact fluorline_single T Z E error he line hl hP hO

end lines

/-! ## the line → shell ranges of the code, the names, and the `Factor = 1.0` fall-through -/

/-- inside the second branch of `CS_FluorLine` (`L3Q1 ≤ line ≤ L1L2` or `LA`) one of the three shell ranges applies: the
ranges `L1P5..L1L2`, `L2Q1..L2L3`, `..L3M1` are contiguous, so the initial `Factor = 1.0` is never used -/
theorem fluorline_default_unreachable (line : Int)
    (h : (line ≤ Hdr.L1L2_LINE ∧ line ≥ Hdr.L3Q1_LINE) ∨ line = Hdr.LA_LINE) :
    (line ≥ Hdr.L1P5_LINE ∧ line ≤ Hdr.L1L2_LINE) ∨ (line ≥ Hdr.L2Q1_LINE ∧ line ≤ Hdr.L2L3_LINE) ∨
      (line ≤ Hdr.L3M1_LINE ∨ line = Hdr.LA_LINE) := by
  simp only [Hdr.L1L2_LINE, Hdr.L3Q1_LINE, Hdr.LA_LINE, Hdr.L1P5_LINE, Hdr.L2Q1_LINE, Hdr.L2L3_LINE, Hdr.L3M1_LINE] at *
  omega

set_option maxRecDepth 100000 in
/-- the range formulation of `Spec.lineShell` is the map the macro NAMES give (kernel evaluation over `Hdr.macros_LINE`) -/
theorem line_shell_by_name : lineShellNamesAgree = true := by decide +kernel

/-- L-beta members of the jump-ratio code vs. the names (`LB1 … LB17` aliases): four extra lines -/
theorem lb_members_vs_names :
    lbMembers.filter (fun m => !Hdr.group_LB.contains m) = [Hdr.L3O4_LINE, Hdr.L3O5_LINE, Hdr.L3N6_LINE, Hdr.L3N7_LINE] ∧
    Hdr.group_LB.all (fun m => lbMembers.contains m) = true := by decide

/-- … and vs. `LB_LINE_MACROS` of kissel_pe.c (13 lines): the jump-ratio code adds `L3O4` and `L3O5`, the members of the
doublet slot `L3O45 = LB5` that is itself in both lists -/
theorem lb_members_vs_kissel :
    lbMembers.filter (fun m => !lbMembersKissel.contains m) = [Hdr.L3O4_LINE, Hdr.L3O5_LINE] ∧
    lbMembersKissel.all (fun m => lbMembers.contains m) = true ∧ lbMembers.length = 15 ∧ lbMembersKissel.length = 13 ∧
    Hdr.doublets.contains (Hdr.L3O45_LINE, Hdr.L3O4_LINE, Hdr.L3O5_LINE) = true := by decide

/-! ## per-atom twins (cs_barns.c): value × atomic weight / Avogadro's constant -/

section twins
include he

theorem barn_twin_CSb_FluorShell (shell : Int)
    (hP : vecOkB (T.E_Photo_arr Z.toNat) (T.CS_Photo_arr Z.toNat) (T.CS_Photo_arr2 Z.toNat) (T.NE_Photo Z.toNat) = true)
    (hO : edgeOrderB T Z = true) :
    Meets (Gen.CSb_FluorShell T Z shell E error) error (Spec.CSb_FluorShell T Z shell E) := by
  unfold Gen.CSb_FluorShell Spec.CSb_FluorShell
  exact C05.barn_twin T Z error he (Gen.CS_FluorShell T Z shell E) _ (fluorshell_jump_spec T Z E error he shell hP hO)
    (fun v hv => fluorShell_value_ne_zero T Z E shell hv) (fluorShell_ne_any T Z E shell)

theorem barn_twin_CSb_FluorLine (line : Int)
    (hP : vecOkB (T.E_Photo_arr Z.toNat) (T.CS_Photo_arr Z.toNat) (T.CS_Photo_arr2 Z.toNat) (T.NE_Photo Z.toNat) = true)
    (hO : edgeOrderB T Z = true) :
    Meets (Gen.CSb_FluorLine T Z line E error) error (Spec.CSb_FluorLine T Z line E) := by
  unfold Gen.CSb_FluorLine Spec.CSb_FluorLine
  exact C05.barn_twin T Z error he (Gen.CS_FluorLine T Z line E) _ (fluorline_jump_spec T Z E error he line hP hO)
    (fun v hv => fluorLine_value_ne_zero T Z E line hv) (fluorLine_ne_any T Z E line)

end twins

/-! ## the hypotheses are satisfiable -/

/-- a table with K…L3 edges at 1 keV, jump ratios 2, yields and rates 1, and no photo-absorption data -/
noncomputable def witT : Tables ℝ :=
  { (default : Tables ℝ) with
    EdgeEnergy_arr := fun _ _ => 1, JumpFactor_arr := fun _ _ => 2, FluorYield_arr := fun _ _ => 1,
    RadRate_arr := fun _ _ => 1, NE_Photo := fun _ => -1 }

theorem wit_edge (s : Int) (hs : 0 ≤ s ∧ s ≤ 3) : edge witT 1 s = 1 := by
  have : s ≤ 27 := by omega
  simp [edge, Spec.EdgeEnergy, lookup2, zOk, mOk, witT, valOr0, Hdr.ZMAX, Hdr.K_SHELL, Hdr.SHELLNUM, this, hs.1, lit0]
theorem wit_fyield (s : Int) (hs : 0 ≤ s ∧ s ≤ 3) : fyield witT 1 s = 1 := by
  have : s ≤ 27 := by omega
  simp [fyield, Spec.FluorYield, lookup2, zOk, mOk, witT, valOr0, Hdr.ZMAX, Hdr.K_SHELL, Hdr.SHELLNUM, this, hs.1, lit0]

theorem wit_order : edgeOrderB witT 1 = true := by
  rw [edgeOrder_iff]
  simp [wit_edge, wit_fyield]

theorem wit_shape : vecOkB (witT.E_Photo_arr (1 : Int).toNat) (witT.CS_Photo_arr (1 : Int).toNat)
    (witT.CS_Photo_arr2 (1 : Int).toNat) (witT.NE_Photo (1 : Int).toNat) = true := by
  simp [vecOkB, witT]

example : ∃ (T : Tables ℝ) (Z : Int) (error : Slot), error.isFull = false ∧
    vecOkB (T.E_Photo_arr Z.toNat) (T.CS_Photo_arr Z.toNat) (T.CS_Photo_arr2 Z.toNat) (T.NE_Photo Z.toNat) = true ∧
    edgeOrderB T Z = true :=
  ⟨witT, 1, Slot.empty, rfl, wit_shape, wit_order⟩

end C09
end Xrl
