import Xrl.Props.C02b
import Xrl.Spec.Text0129
import Xrl.Lemmas.Text0129
import Mathlib.Analysis.Calculus.Deriv.Basic
import Mathlib.Analysis.Calculus.Deriv.Add
import Mathlib.Analysis.Calculus.Deriv.Mul
import Mathlib.Analysis.Calculus.Deriv.Pow
/-!
# C02 (continued) — the cubic pinned by its defining properties; the value at every knot, site by site; knots at argument 0

1. **The cubic.**  `Spec.spline` and the hand model of `splint` share the formula `splintCubic` (src/splint.c:79-82).  Here it is
   characterised independently of its transcription: it passes through both bracketing knots (`cubic_at_lo`, `cubic_at_hi` —
   hence the piecewise interpolant is continuous at the knots: `cubic_continuous_at_knot`), its second derivative is the linear
   interpolation of the two tabulated second derivatives (`cubic_second_deriv`; at the knots `y2lo`, `y2hi`), and it is the
   ONLY cubic polynomial with these four properties (`cubic_unique`).
2. **"equals the tabulated value at every knot"**, for the ten sites other than the Kissel one (`C02.kissel_at_knot`): at the
   argument whose transform is the `k`-th abscissa the generated function returns the inverse transform of the `k`-th ordinate
   (`knot_CS_Photo` … `knot_ComptonProfile_Partial`), for every knot that is not the earlier of two coincident ones
   (`Determinate`: there the table itself gives two values — an absorption edge).
3. **Knots at argument 0.**  `FF_Rayl(Z, 0) = Z` by definition and `SF_Compt(Z, 0)` is an error: the scattering function is 0 at
   q = 0 and 0.0 is the library's error sentinel, so the number returned (0) is the tabulated one but the call reports an error.
   This is the specified behaviour (`Spec.SF_Compt` demands `0 < q`; statement of C03: "never 0 without an error"), recorded as
   `sf_compt_zero_knot`; both are consistent with the tables under the executed data conditions `ffZeroKnotOkB`, `sfZeroKnotOkB`.
-/
namespace Xrl
namespace C02
open Spec

set_option linter.unusedSimpArgs false
set_option linter.unusedVariables false

/-! ## 1. the cubic -/
section cubic
variable (xlo xhi ylo yhi y2lo y2hi : ℝ)

/-- the cubic passes through the lower knot … -/
theorem cubic_at_lo (h : xlo ≠ xhi) : splintCubic xlo xhi ylo yhi y2lo y2hi xlo = ylo := by
  have hh : xhi - xlo ≠ 0 := sub_ne_zero.mpr (Ne.symm h)
  rw [splintCubic_eq]
  rw [div_self hh, sub_self, zero_div]
  ring

/-- … and through the upper knot -/
theorem cubic_at_hi (h : xlo ≠ xhi) : splintCubic xlo xhi ylo yhi y2lo y2hi xhi = yhi := by
  have hh : xhi - xlo ≠ 0 := sub_ne_zero.mpr (Ne.symm h)
  rw [splintCubic_eq]
  rw [div_self hh, sub_self, zero_div]
  ring

/-- **continuity at a knot**: the cubic of the interval `[x₀, x₁]` and the cubic of `[x₁, x₂]` take the same value `y₁` at the
knot they share, whatever the second derivatives -/
theorem cubic_continuous_at_knot (x0 x1 x2 y0 y1 y2 d0 d1 d2 : ℝ) (h01 : x0 ≠ x1) (h12 : x1 ≠ x2) :
    splintCubic x0 x1 y0 y1 d0 d1 x1 = splintCubic x1 x2 y1 y2 d1 d2 x1 := by
  rw [cubic_at_hi x0 x1 y0 y1 d0 d1 h01, cubic_at_lo x1 x2 y1 y2 d1 d2 h12]

/-- **the second derivative of the cubic is the linear interpolation of the tabulated second derivatives** -/
theorem cubic_second_deriv (h : xlo ≠ xhi) (x : ℝ) :
    deriv (deriv (splintCubic xlo xhi ylo yhi y2lo y2hi)) x =
      (xhi - x) / (xhi - xlo) * y2lo + (x - xlo) / (xhi - xlo) * y2hi := by
  have e : deriv (splintCubic xlo xhi ylo yhi y2lo y2hi) = cubicD1 xlo xhi ylo yhi y2lo y2hi := by
    funext t; exact (cubic_hasDerivAt xlo xhi ylo yhi y2lo y2hi h t).deriv
  rw [e]
  exact (cubicD1_hasDerivAt xlo xhi ylo yhi y2lo y2hi h x).deriv

/-- … so it is `y2lo` at the lower knot and `y2hi` at the upper knot: the "second derivatives" of the data files are what
their name says -/
theorem cubic_second_deriv_at_knots (h : xlo ≠ xhi) :
    deriv (deriv (splintCubic xlo xhi ylo yhi y2lo y2hi)) xlo = y2lo ∧
    deriv (deriv (splintCubic xlo xhi ylo yhi y2lo y2hi)) xhi = y2hi := by
  have hh : xhi - xlo ≠ 0 := sub_ne_zero.mpr (Ne.symm h)
  constructor
  · rw [cubic_second_deriv _ _ _ _ _ _ h, div_self hh, sub_self, zero_div]; ring
  · rw [cubic_second_deriv _ _ _ _ _ _ h, div_self hh, sub_self, zero_div]; ring

/-- **uniqueness**: a cubic polynomial `c₀ + c₁x + c₂x² + c₃x³` that takes the tabulated values at the two knots and whose
second derivative `2c₂ + 6c₃x` takes the tabulated second derivatives there IS `splintCubic` -/
theorem cubic_unique (h : xlo ≠ xhi) (c0 c1 c2 c3 : ℝ)
    (hlo : c0 + c1 * xlo + c2 * xlo ^ 2 + c3 * xlo ^ 3 = ylo) (hhi : c0 + c1 * xhi + c2 * xhi ^ 2 + c3 * xhi ^ 3 = yhi)
    (h2lo : 2 * c2 + 6 * c3 * xlo = y2lo) (h2hi : 2 * c2 + 6 * c3 * xhi = y2hi) (x : ℝ) :
    c0 + c1 * x + c2 * x ^ 2 + c3 * x ^ 3 = splintCubic xlo xhi ylo yhi y2lo y2hi x := by
  have hh : xhi - xlo ≠ 0 := sub_ne_zero.mpr (Ne.symm h)
  rw [splintCubic_eq, ← hlo, ← hhi, ← h2lo, ← h2hi]
  obtain ⟨d, rfl⟩ : ∃ d, xhi = xlo + d := ⟨xhi - xlo, by ring⟩
  have hd : xlo + d - xlo = d := by ring
  rw [hd] at hh
  simp only [hd]
  norm_num
  field_simp
  ring

/-- the hypotheses of `cubic_unique` are satisfiable: on `[0, 1]` with ordinates 1, 2 and second derivatives 0, 6 the
polynomial `1 + x³` is the interpolant -/
example (x : ℝ) : 1 + 0 * x + 0 * x ^ 2 + 1 * x ^ 3 = splintCubic 0 1 1 2 0 6 x :=
  cubic_unique 0 1 1 2 0 6 (by norm_num) 1 0 0 1 (by norm_num) (by norm_num) (by norm_num) (by norm_num) x

end cubic

/-! ## 2. the value at every knot -/

/-- knot `k` (1-based) of `n` carries ONE tabulated value: it is not the earlier of two coincident abscissae -/
def Determinate (xa : Vec ℝ) (n k : Nat) : Prop :=
  1 ≤ k ∧ ((k < n ∧ knot xa k < knot xa (k + 1)) ∨ (k = n ∧ 2 ≤ n ∧ knot xa (n - 1) < knot xa n))

theorem spline_at_determinate (xa ya y2a : Vec ℝ) (n k : Nat) (hs : SortedKnots xa n) (hd : Determinate xa n k) :
    spline xa ya y2a n (knot xa k) = some (knot ya k) := by
  obtain ⟨hk, ⟨hkn, hst⟩ | ⟨rfl, hn, hst⟩⟩ := hd
  · exact spline_at_knot xa ya y2a n hs k hk hkn hst
  · exact spline_at_last_knot xa ya y2a k hs hn hst

/-- the generic step: guards pass, the table has the executed shape, the transformed argument is a determinate knot -/
theorem interp_at_knot {guard : Bool} (hg : guard = true) (xa ya y2 : Vec ℝ) (n : Int) (inv : ℝ → ℝ) (tx : ℝ)
    (hv : vecOkB xa ya y2 n = true) (k : Nat) (hd : Determinate xa n.toNat k) (htx : tx = knot xa k) :
    interp guard xa ya y2 n tx inv = .value (inv (knot ya k)) := by
  have hsort : SortedKnots xa n.toNat := by
    rcases vecOkB_spec _ _ _ _ hv with hneg | ⟨_, _, _, _, hs⟩
    · have : n.toNat = 0 := by omega
      intro i j hi hij hj; omega
    · exact hs
  unfold interp
  rw [if_pos hg, htx, spline_at_determinate xa ya y2 n.toNat k hsort hd]

theorem determinate_pos {xa : Vec ℝ} {n : Int} {k : Nat} (hd : Determinate xa n.toNat k) : 0 < n := by
  obtain ⟨hk, ⟨hkn, _⟩ | ⟨rfl, hn, _⟩⟩ := hd <;> omega

variable (T : Tables ℝ) (Z : Int) (error : Slot) (he : error.isFull = false)
include he

/-- `CS_Photo(Z, exp(x_k)/1000) = exp(y_k)` -/
theorem knot_CS_Photo (hZ : zOk Z = true)
    (hs : vecOkB (T.E_Photo_arr Z.toNat) (T.CS_Photo_arr Z.toNat) (T.CS_Photo_arr2 Z.toNat) (T.NE_Photo Z.toNat) = true)
    (k : Nat) (hd : Determinate (T.E_Photo_arr Z.toNat) (T.NE_Photo Z.toNat).toNat k) :
    Meets (Gen.CS_Photo T Z (Real.exp (knot (T.E_Photo_arr Z.toNat) k) / 1000) error) error
      (.value (Real.exp (knot (T.CS_Photo_arr Z.toNat) k))) := by
  have m := site_spec_CS_Photo T Z (Real.exp (knot (T.E_Photo_arr Z.toNat) k) / 1000) error he hs
  have hn := determinate_pos hd
  have hE : (0.0 : ℝ) < Real.exp (knot (T.E_Photo_arr Z.toNat) k) / 1000 := by
    have := Real.exp_pos (knot (T.E_Photo_arr Z.toNat) k); norm_num; positivity
  have e : Spec.CS_Photo T Z (Real.exp (knot (T.E_Photo_arr Z.toNat) k) / 1000) =
      .value (Real.exp (knot (T.CS_Photo_arr Z.toNat) k)) := by
    unfold Spec.CS_Photo
    exact interp_at_knot (by simp [hZ, hE]; omega) _ _ _ _ _ _ hs k hd (log_exp_div_mul _)
  rw [e] at m; exact m

theorem knot_CS_Rayl (hZ : zOk Z = true)
    (hs : vecOkB (T.E_Rayl_arr Z.toNat) (T.CS_Rayl_arr Z.toNat) (T.CS_Rayl_arr2 Z.toNat) (T.NE_Rayl Z.toNat) = true)
    (k : Nat) (hd : Determinate (T.E_Rayl_arr Z.toNat) (T.NE_Rayl Z.toNat).toNat k) :
    Meets (Gen.CS_Rayl T Z (Real.exp (knot (T.E_Rayl_arr Z.toNat) k) / 1000) error) error
      (.value (Real.exp (knot (T.CS_Rayl_arr Z.toNat) k))) := by
  have m := site_spec_CS_Rayl T Z (Real.exp (knot (T.E_Rayl_arr Z.toNat) k) / 1000) error he hs
  have hn := determinate_pos hd
  have hE : (0.0 : ℝ) < Real.exp (knot (T.E_Rayl_arr Z.toNat) k) / 1000 := by
    have := Real.exp_pos (knot (T.E_Rayl_arr Z.toNat) k); norm_num; positivity
  have e : Spec.CS_Rayl T Z (Real.exp (knot (T.E_Rayl_arr Z.toNat) k) / 1000) =
      .value (Real.exp (knot (T.CS_Rayl_arr Z.toNat) k)) := by
    unfold Spec.CS_Rayl
    exact interp_at_knot (by simp [hZ, hE]; omega) _ _ _ _ _ _ hs k hd (log_exp_div_mul _)
  rw [e] at m; exact m

theorem knot_CS_Compt (hZ : zOk Z = true)
    (hs : vecOkB (T.E_Compt_arr Z.toNat) (T.CS_Compt_arr Z.toNat) (T.CS_Compt_arr2 Z.toNat) (T.NE_Compt Z.toNat) = true)
    (k : Nat) (hd : Determinate (T.E_Compt_arr Z.toNat) (T.NE_Compt Z.toNat).toNat k) :
    Meets (Gen.CS_Compt T Z (Real.exp (knot (T.E_Compt_arr Z.toNat) k) / 1000) error) error
      (.value (Real.exp (knot (T.CS_Compt_arr Z.toNat) k))) := by
  have m := site_spec_CS_Compt T Z (Real.exp (knot (T.E_Compt_arr Z.toNat) k) / 1000) error he hs
  have hn := determinate_pos hd
  have hE : (0.0 : ℝ) < Real.exp (knot (T.E_Compt_arr Z.toNat) k) / 1000 := by
    have := Real.exp_pos (knot (T.E_Compt_arr Z.toNat) k); norm_num; positivity
  have e : Spec.CS_Compt T Z (Real.exp (knot (T.E_Compt_arr Z.toNat) k) / 1000) =
      .value (Real.exp (knot (T.CS_Compt_arr Z.toNat) k)) := by
    unfold Spec.CS_Compt
    exact interp_at_knot (by simp [hZ, hE]; omega) _ _ _ _ _ _ hs k hd (log_exp_div_mul _)
  rw [e] at m; exact m

/-- `CS_Energy(Z, exp(x_k)) = exp(y_k)` (Z = 1..92) -/
theorem knot_CS_Energy (hZ : 1 ≤ Z ∧ Z ≤ 92)
    (hs : vecOkB (T.E_Energy_arr Z.toNat) (T.CS_Energy_arr Z.toNat) (T.CS_Energy_arr2 Z.toNat) (T.NE_Energy Z.toNat) = true)
    (k : Nat) (hd : Determinate (T.E_Energy_arr Z.toNat) (T.NE_Energy Z.toNat).toNat k) :
    Meets (Gen.CS_Energy T Z (Real.exp (knot (T.E_Energy_arr Z.toNat) k)) error) error
      (.value (Real.exp (knot (T.CS_Energy_arr Z.toNat) k))) := by
  have m := site_spec_CS_Energy T Z (Real.exp (knot (T.E_Energy_arr Z.toNat) k)) error he hs
  have hn := determinate_pos hd
  have hE : (0.0 : ℝ) < Real.exp (knot (T.E_Energy_arr Z.toNat) k) := by
    have := Real.exp_pos (knot (T.E_Energy_arr Z.toNat) k); norm_num; positivity
  have e : Spec.CS_Energy T Z (Real.exp (knot (T.E_Energy_arr Z.toNat) k)) =
      .value (Real.exp (knot (T.CS_Energy_arr Z.toNat) k)) := by
    unfold Spec.CS_Energy
    exact interp_at_knot (by simp [hZ, hE]; omega) _ _ _ _ _ _ hs k hd (Real.log_exp _)
  rw [e] at m; exact m

/-- `Fi(Z, x_k) = y_k` for a knot at a positive energy -/
theorem knot_Fi (hZ : zOk Z = true)
    (hs : vecOkB (T.E_Fi_arr Z.toNat) (T.Fi_arr Z.toNat) (T.Fi_arr2 Z.toNat) (T.NE_Fi Z.toNat) = true)
    (k : Nat) (hd : Determinate (T.E_Fi_arr Z.toNat) (T.NE_Fi Z.toNat).toNat k) (hpos : 0 < knot (T.E_Fi_arr Z.toNat) k) :
    Meets (Gen.Fi T Z (knot (T.E_Fi_arr Z.toNat) k) error) error (.value (knot (T.Fi_arr Z.toNat) k)) := by
  have m := site_spec_Fi T Z (knot (T.E_Fi_arr Z.toNat) k) error he hs
  have hn := determinate_pos hd
  have hE : (0.0 : ℝ) < knot (T.E_Fi_arr Z.toNat) k := by norm_num; exact hpos
  have e : Spec.Fi T Z (knot (T.E_Fi_arr Z.toNat) k) = .value (knot (T.Fi_arr Z.toNat) k) := by
    unfold Spec.Fi
    exact interp_at_knot (by simp [hZ, hE]; omega) _ _ _ _ _ _ hs k hd rfl
  rw [e] at m; exact m

theorem knot_Fii (hZ : zOk Z = true)
    (hs : vecOkB (T.E_Fii_arr Z.toNat) (T.Fii_arr Z.toNat) (T.Fii_arr2 Z.toNat) (T.NE_Fii Z.toNat) = true)
    (k : Nat) (hd : Determinate (T.E_Fii_arr Z.toNat) (T.NE_Fii Z.toNat).toNat k) (hpos : 0 < knot (T.E_Fii_arr Z.toNat) k) :
    Meets (Gen.Fii T Z (knot (T.E_Fii_arr Z.toNat) k) error) error (.value (knot (T.Fii_arr Z.toNat) k)) := by
  have m := site_spec_Fii T Z (knot (T.E_Fii_arr Z.toNat) k) error he hs
  have hn := determinate_pos hd
  have hE : (0.0 : ℝ) < knot (T.E_Fii_arr Z.toNat) k := by norm_num; exact hpos
  have e : Spec.Fii T Z (knot (T.E_Fii_arr Z.toNat) k) = .value (knot (T.Fii_arr Z.toNat) k) := by
    unfold Spec.Fii
    exact interp_at_knot (by simp [hZ, hE]; omega) _ _ _ _ _ _ hs k hd rfl
  rw [e] at m; exact m

/-- `FF_Rayl(Z, q_k) = FF_k` for a knot at positive momentum transfer -/
theorem knot_FF_Rayl (hZ : zOk Z = true)
    (hs : vecOkB (T.q_Rayl_arr Z.toNat) (T.FF_Rayl_arr Z.toNat) (T.FF_Rayl_arr2 Z.toNat) (T.Nq_Rayl Z.toNat) = true)
    (k : Nat) (hd : Determinate (T.q_Rayl_arr Z.toNat) (T.Nq_Rayl Z.toNat).toNat k) (hpos : 0 < knot (T.q_Rayl_arr Z.toNat) k) :
    Meets (Gen.FF_Rayl T Z (knot (T.q_Rayl_arr Z.toNat) k) error) error (.value (knot (T.FF_Rayl_arr Z.toNat) k)) := by
  have m := site_spec_FF_Rayl T Z (knot (T.q_Rayl_arr Z.toNat) k) error he hs
  have hn := determinate_pos hd
  have hE : (0.0 : ℝ) < knot (T.q_Rayl_arr Z.toNat) k := by norm_num; exact hpos
  have hne : ¬ knot (T.q_Rayl_arr Z.toNat) k = 0 := hpos.ne'
  have e : Spec.FF_Rayl T Z (knot (T.q_Rayl_arr Z.toNat) k) = .value (knot (T.FF_Rayl_arr Z.toNat) k) := by
    unfold Spec.FF_Rayl
    rw [if_neg (by simp [C09.lit0, hne])]
    exact interp_at_knot (by simp [hZ, hE]; omega) _ _ _ _ _ _ hs k hd rfl
  rw [e] at m; exact m

/-- `SF_Compt(Z, q_k) = SF_k` for a knot at positive momentum transfer -/
theorem knot_SF_Compt (hZ : zOk Z = true)
    (hs : vecOkB (T.q_Compt_arr Z.toNat) (T.SF_Compt_arr Z.toNat) (T.SF_Compt_arr2 Z.toNat) (T.Nq_Compt Z.toNat) = true)
    (k : Nat) (hd : Determinate (T.q_Compt_arr Z.toNat) (T.Nq_Compt Z.toNat).toNat k) (hpos : 0 < knot (T.q_Compt_arr Z.toNat) k) :
    Meets (Gen.SF_Compt T Z (knot (T.q_Compt_arr Z.toNat) k) error) error (.value (knot (T.SF_Compt_arr Z.toNat) k)) := by
  have m := site_spec_SF_Compt T Z (knot (T.q_Compt_arr Z.toNat) k) error he hs
  have hn := determinate_pos hd
  have hE : (0.0 : ℝ) < knot (T.q_Compt_arr Z.toNat) k := by norm_num; exact hpos
  have e : Spec.SF_Compt T Z (knot (T.q_Compt_arr Z.toNat) k) = .value (knot (T.SF_Compt_arr Z.toNat) k) := by
    unfold Spec.SF_Compt
    exact interp_at_knot (by simp [hZ, hE]; omega) _ _ _ _ _ _ hs k hd rfl
  rw [e] at m; exact m

/-- `ComptonProfile(Z, exp(x_k) − 1) = exp(y_k)` (knots are `ln(pz + 1)`, so `x_k ≥ 0`) -/
theorem knot_ComptonProfile (hZ : zOk Z = true) (hN : 0 ≤ T.NShells_ComptonProfiles Z.toNat)
    (hs : vecOkB (T.pz_ComptonProfiles Z.toNat) (T.Total_ComptonProfiles Z.toNat) (T.Total_ComptonProfiles2 Z.toNat)
      (T.Npz_ComptonProfiles Z.toNat) = true)
    (k : Nat) (hd : Determinate (T.pz_ComptonProfiles Z.toNat) (T.Npz_ComptonProfiles Z.toNat).toNat k)
    (hpos : 0 ≤ knot (T.pz_ComptonProfiles Z.toNat) k) :
    Meets (Gen.ComptonProfile T Z (Real.exp (knot (T.pz_ComptonProfiles Z.toNat) k) - 1) error) error
      (.value (Real.exp (knot (T.Total_ComptonProfiles Z.toNat) k))) := by
  have hn := determinate_pos hd
  have m := site_spec_ComptonProfile T Z (Real.exp (knot (T.pz_ComptonProfiles Z.toNat) k) - 1) error he hs (fun _ => by omega)
  have hE : (0.0 : ℝ) ≤ Real.exp (knot (T.pz_ComptonProfiles Z.toNat) k) - 1 := by
    have := Real.one_le_exp hpos; norm_num; linarith
  have e : Spec.ComptonProfile T Z (Real.exp (knot (T.pz_ComptonProfiles Z.toNat) k) - 1) =
      .value (Real.exp (knot (T.Total_ComptonProfiles Z.toNat) k)) := by
    unfold Spec.ComptonProfile
    exact interp_at_knot (by simp [hZ, hE, hN]) _ _ _ _ _ _ hs k hd (log_exp_sub_add _)
  rw [e] at m; exact m

/-- `ComptonProfile_Partial(Z, shell, exp(x_k) − 1) = exp(y_k)` on the sub-shell's own column -/
theorem knot_ComptonProfile_Partial (shell : Int) (hg : hasProfile T Z shell = true)
    (hs : profileColOkB T Z shell = true) (hp : profileOkB T Z = true)
    (k : Nat) (hd : Determinate (T.pz_ComptonProfiles Z.toNat) (T.Npz_ComptonProfiles Z.toNat).toNat k)
    (hpos : 0 ≤ knot (T.pz_ComptonProfiles Z.toNat) k) :
    Meets (Gen.ComptonProfile_Partial T Z shell (Real.exp (knot (T.pz_ComptonProfiles Z.toNat) k) - 1) error) error
      (.value (Real.exp (knot (T.Partial_ComptonProfiles Z.toNat shell.toNat) k))) := by
  have m := site_spec_ComptonProfile_Partial T Z shell (Real.exp (knot (T.pz_ComptonProfiles Z.toNat) k) - 1) error he hs hp
  have hv : vecOkB (T.pz_ComptonProfiles Z.toNat) (T.Partial_ComptonProfiles Z.toNat shell.toNat)
      (T.Partial_ComptonProfiles2 Z.toNat shell.toNat) (T.Npz_ComptonProfiles Z.toNat) = true := by
    unfold profileColOkB at hs
    simpa only [hg, Bool.not_true, Bool.false_or] using hs
  have hE : (0.0 : ℝ) ≤ Real.exp (knot (T.pz_ComptonProfiles Z.toNat) k) - 1 := by
    have := Real.one_le_exp hpos; norm_num; linarith
  have e : Spec.ComptonProfile_Partial T Z shell (Real.exp (knot (T.pz_ComptonProfiles Z.toNat) k) - 1) =
      .value (Real.exp (knot (T.Partial_ComptonProfiles Z.toNat shell.toNat) k)) := by
    unfold Spec.ComptonProfile_Partial
    exact interp_at_knot (by simp [hg, hE]) _ _ _ _ _ _ hv k hd (log_exp_sub_add _)
  rw [e] at m; exact m

/-! ## 3. knots at argument 0 -/

/-- **`SF_Compt(Z, 0)` is an error** for every table — also when q = 0 is a tabulated knot (hydrogen in the shipped SF.dat: row
`0 0 0`).  The returned number is the sentinel 0.0; by `sfZeroKnotOkB` (executed) that IS the tabulated ordinate, so the
clause "equals the tabulated value at every knot" holds for the number while the call reports an error: a successful
return of 0.0 would be "0 without an error" (C03).  Specified behaviour, not a deviation. -/
theorem sf_compt_zero_knot
    (hs : vecOkB (T.q_Compt_arr Z.toNat) (T.SF_Compt_arr Z.toNat) (T.SF_Compt_arr2 Z.toNat) (T.Nq_Compt Z.toNat) = true) :
    Fails (Gen.SF_Compt T Z 0 error) error := by
  have m := site_spec_SF_Compt T Z 0 error he hs
  have e : Spec.SF_Compt T Z 0 = .fails := by
    unfold Spec.SF_Compt interp
    simp [C09.lit0]
  rw [e] at m; exact m

omit he in
/-- … and the sentinel is the tabulated value there, under the executed data condition -/
theorem sf_zero_knot_value (z : Nat) (h : sfZeroKnotOkB T z = true) (hn : 0 < T.Nq_Compt z)
    (h0 : knot (T.q_Compt_arr z) 1 = 0) : knot (T.SF_Compt_arr z) 1 = 0 := by
  unfold sfZeroKnotOkB at h
  simp only [Bool.or_eq_true, Bool.not_eq_true', Bool.and_eq_false_iff, decide_eq_false_iff_not, decide_eq_true_eq,
    deq_real, C09.lit0] at h
  rcases h with (h | h) | h
  · exact absurd hn h
  · exact absurd h0 h
  · exact h

/-- **`FF_Rayl(Z, 0) = Z`** for every element with a form-factor table, whatever the table holds … -/
theorem ff_rayl_zero (hZ : zOk Z = true) (hn : 0 < T.Nq_Rayl Z.toNat)
    (hs : vecOkB (T.q_Rayl_arr Z.toNat) (T.FF_Rayl_arr Z.toNat) (T.FF_Rayl_arr2 Z.toNat) (T.Nq_Rayl Z.toNat) = true) :
    Meets (Gen.FF_Rayl T Z 0 error) error (.value ((Z : ℤ) : ℝ)) := by
  have m := site_spec_FF_Rayl T Z 0 error he hs
  have e : Spec.FF_Rayl T Z 0 = .value ((Z : ℤ) : ℝ) := by
    unfold Spec.FF_Rayl
    rw [if_pos ⟨hZ, hn, by simp [C09.lit0]⟩]
    rfl
  rw [e] at m; exact m

omit he in
/-- … which is the tabulated value when q = 0 is a knot, under the executed data condition `ffZeroKnotOkB` -/
theorem ff_zero_knot_value (z : Nat) (h : ffZeroKnotOkB T z = true) (hn : 0 < T.Nq_Rayl z)
    (h0 : knot (T.q_Rayl_arr z) 1 = 0) : knot (T.FF_Rayl_arr z) 1 = ((z : ℤ) : ℝ) := by
  unfold ffZeroKnotOkB at h
  simp only [Bool.or_eq_true, Bool.not_eq_true', Bool.and_eq_false_iff, decide_eq_false_iff_not, decide_eq_true_eq,
    deq_real, C09.lit0] at h
  rcases h with (h | h) | h
  · exact absurd hn h
  · exact absurd h0 h
  · exact h

/-! ## non-vacuity: the instance of Props/C02b (`witK`: one element, knots `ln(pz+1) = 0, 1`, ordinates 3, 5) -/

omit he in
example : Determinate knots01 2 1 ∧ Determinate knots01 2 2 := by
  unfold Determinate knot knots01
  constructor <;> norm_num

end C02
end Xrl
