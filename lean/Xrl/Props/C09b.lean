import Xrl.Props.C09
import Xrl.Props.C02c
import Xrl.Spec.Text0129
/-!
# C09 (continued) — L-beta members counted once; the cross sections as "photo × factor" without any assumption on the photo table;
a witness on which the theorems yield a value

1. **L-beta.**  `Spec.lbMembers` (15 lines, the list of cs_line.c) names the doublet slot `L3O45` and its members `L3O4`, `L3O5`.
   `lb_once_sum` / `fluorline_LB_once`: for every table on which no element has a rate for the slot AND for one of its members
   (`lbDoubleCountB T Z = false`, executed on the real tables on every run: `spec.lbDoubleCount` must be empty) the 15-line sum is
   the sum over `lbMembersOnce`, which names every member transition exactly once.  `lb_kissel_sum`: when the members carry no
   rate at all (the shipped radrate.dat: `spec.lbMemberRates` is empty) it is also the sum over the 13 lines of kissel_pe.c.
   `lb_double_count_differs`: where the condition is violated and the L3 share does not vanish the two sums differ — the hypothesis is
   needed; `witV_double_count`: a table on which it is violated.
2. **Photo × factor** (`fluorshell_factorises`, `fluorline_LB_factorises`, `fluorline_factorises`): the generated functions return
   *whatever `CS_Photo` returns* times the specified factor (`Spec.shellFactorOf`, `Spec.lineFactor`), and fail when the factor
   fails, for EVERY photo table — no `vecOkB`.  This is what the hybrid oracle of the search uses for Z = 96, whose photo table has
   two knots out of order (known finding C02/shape:Photo:96): library `CS_Photo(96, E)` × `spec.shellFactorOf` / `spec.lineFactor`.
3. **Non-vacuity with a value** (`witV`): an instance of `fluorshell_jump_spec` and `fluorline_jump_spec` whose expectation is
   a number (`witT` of Props/C09.lean has no photo table, so every instance there is an error).
-/
namespace Xrl
namespace C09
open Spec

set_option linter.unusedSimpArgs false
set_option linter.unusedVariables false

variable (T : Tables ℝ) (Z : Int) (E : ℝ) (error : Slot)

/-! ## 1. L-beta: every member transition once -/

/-- the member sum over `lbMembersOnce`, grouped by shell like `lb_sum_eq` -/
theorem lb_once_sum (h : lbDoubleCountB T Z = false) :
    (lbMembersOnce T Z).foldl (fun acc m => acc + memberShare T Z E m) (0.0 : ℝ) =
      lbMembers.foldl (fun acc m => acc + memberShare T Z E m) (0.0 : ℝ) := by
  have l1 : ∀ m : Int, m ≥ -58 ∧ m ≤ -30 → lineShell m = some 1 := lineShell_L1
  have l2 : ∀ m : Int, m ≥ -85 ∧ m ≤ -59 → lineShell m = some 2 := lineShell_L2
  have l3 : ∀ m : Int, (m ≥ -113 ∧ m ≤ -86) ∨ m = 2 → lineShell m = some 3 := lineShell_L3
  rw [lb_sum_eq]
  unfold lbDoubleCountB at h
  simp only [Hdr.L3O45_LINE, Hdr.L3O4_LINE, Hdr.L3O5_LINE] at h
  by_cases hs : avail (Spec.RadRate T Z (-102)) = true
  · simp only [hs, Bool.true_and, Bool.or_eq_false_iff] at h
    have z1 := valOr0_of_not_avail h.1
    have z2 := valOr0_of_not_avail h.2
    simp only [lbMembersOnce, Hdr.L3O45_LINE, hs, if_true, List.cons_append, List.nil_append, List.foldl, memberShare, Hdr.L2M4_LINE,
      Hdr.L2M3_LINE, Hdr.L3N5_LINE, Hdr.L3O4_LINE, Hdr.L3O5_LINE, Hdr.L3N1_LINE, Hdr.L3O1_LINE, Hdr.L3N6_LINE,
      Hdr.L3N7_LINE, Hdr.L3N4_LINE, Hdr.L1M3_LINE, Hdr.L1M2_LINE, Hdr.L1M5_LINE, Hdr.L1M4_LINE, lit0]
    rw [l2 (-63) (by omega), l2 (-62) (by omega), l3 (-95) (by omega), l3 (-102) (by omega), l3 (-91) (by omega),
      l3 (-98) (by omega), l3 (-96) (by omega), l3 (-97) (by omega), l3 (-94) (by omega), l1 (-34) (by omega),
      l1 (-33) (by omega), l1 (-36) (by omega), l1 (-35) (by omega), z1, z2]
    ring
  · have hs' : avail (Spec.RadRate T Z (-102)) = false := by simpa using hs
    have z0 := valOr0_of_not_avail hs'
    simp only [lbMembersOnce, Hdr.L3O45_LINE, hs', Bool.false_eq_true, if_false, List.cons_append, List.nil_append, List.foldl,
      memberShare, Hdr.L2M4_LINE, Hdr.L2M3_LINE, Hdr.L3N5_LINE, Hdr.L3O4_LINE, Hdr.L3O5_LINE, Hdr.L3N1_LINE, Hdr.L3O1_LINE,
      Hdr.L3N6_LINE, Hdr.L3N7_LINE, Hdr.L3N4_LINE, Hdr.L1M3_LINE, Hdr.L1M2_LINE, Hdr.L1M5_LINE, Hdr.L1M4_LINE, lit0]
    rw [l2 (-63) (by omega), l2 (-62) (by omega), l3 (-95) (by omega), l3 (-101) (by omega), l3 (-103) (by omega),
      l3 (-91) (by omega), l3 (-98) (by omega), l3 (-96) (by omega), l3 (-97) (by omega), l3 (-94) (by omega),
      l1 (-34) (by omega), l1 (-33) (by omega), l1 (-36) (by omega), l1 (-35) (by omega), z0]
    ring

/-- when neither member of the doublet has a rate, the 15-line sum is also the sum over the 13 lines of `LB_LINE_MACROS`
(kissel_pe.c): the three member lists of the code base give the same number -/
theorem lb_kissel_sum (h4 : avail (Spec.RadRate T Z Hdr.L3O4_LINE) = false) (h5 : avail (Spec.RadRate T Z Hdr.L3O5_LINE) = false) :
    lbMembersKissel.foldl (fun acc m => acc + memberShare T Z E m) (0.0 : ℝ) =
      lbMembers.foldl (fun acc m => acc + memberShare T Z E m) (0.0 : ℝ) := by
  have l1 : ∀ m : Int, m ≥ -58 ∧ m ≤ -30 → lineShell m = some 1 := lineShell_L1
  have l2 : ∀ m : Int, m ≥ -85 ∧ m ≤ -59 → lineShell m = some 2 := lineShell_L2
  have l3 : ∀ m : Int, (m ≥ -113 ∧ m ≤ -86) ∨ m = 2 → lineShell m = some 3 := lineShell_L3
  rw [lb_sum_eq]
  simp only [Hdr.L3O4_LINE, Hdr.L3O5_LINE] at h4 h5
  have z1 := valOr0_of_not_avail h4
  have z2 := valOr0_of_not_avail h5
  simp only [lbMembersKissel, Hdr.group_LB, Hdr.L3N6_LINE, Hdr.L3N7_LINE, List.cons_append, List.nil_append, List.foldl,
    memberShare, lit0]
  rw [l2 (-63) (by omega), l2 (-62) (by omega), l3 (-95) (by omega), l3 (-102) (by omega), l3 (-91) (by omega),
    l3 (-98) (by omega), l3 (-96) (by omega), l3 (-97) (by omega), l3 (-94) (by omega), l1 (-34) (by omega),
    l1 (-33) (by omega), l1 (-36) (by omega), l1 (-35) (by omega), z1, z2]
  ring

/-- a single line whose rate is available has a positive rate -/
theorem avail_radRate_pos {m : Int} (hm : m ≠ 0 ∧ m ≠ 1 ∧ m ≠ 2 ∧ m ≠ 3) (h : avail (Spec.RadRate T Z m) = true) :
    0 < valOr0 (Spec.RadRate T Z m) := by
  rw [C10.radRate_plain T Z m hm] at h ⊢
  unfold singleRate at h ⊢
  split_ifs at h ⊢ with hc
  · simpa [valOr0, lit0] using hc.2.2
  · simp [avail] at h

/-- **the data condition is needed**: where an element has a rate for the doublet slot and for one of its members, and the L3
share does not vanish, the 15-line sum of the code differs from the sum that names every member transition once -/
theorem lb_double_count_differs (h : lbDoubleCountB T Z = true) (h3 : valOr0 (shellFactor T Z 3 E) ≠ 0) :
    (lbMembersOnce T Z).foldl (fun acc m => acc + memberShare T Z E m) (0.0 : ℝ) ≠
      lbMembers.foldl (fun acc m => acc + memberShare T Z E m) (0.0 : ℝ) := by
  have l1 : ∀ m : Int, m ≥ -58 ∧ m ≤ -30 → lineShell m = some 1 := lineShell_L1
  have l2 : ∀ m : Int, m ≥ -85 ∧ m ≤ -59 → lineShell m = some 2 := lineShell_L2
  have l3 : ∀ m : Int, (m ≥ -113 ∧ m ≤ -86) ∨ m = 2 → lineShell m = some 3 := lineShell_L3
  rw [lb_sum_eq]
  unfold lbDoubleCountB at h
  simp only [Hdr.L3O45_LINE, Hdr.L3O4_LINE, Hdr.L3O5_LINE, Bool.and_eq_true, Bool.or_eq_true] at h
  obtain ⟨hs, hm⟩ := h
  have n4 := C10.singleRate_nonneg T Z (-101)
  have n5 := C10.singleRate_nonneg T Z (-103)
  rw [← C10.radRate_plain T Z (-101) (by omega)] at n4
  rw [← C10.radRate_plain T Z (-103) (by omega)] at n5
  have hpos : 0 < valOr0 (Spec.RadRate T Z (-101)) + valOr0 (Spec.RadRate T Z (-103)) := by
    rcases hm with hm | hm
    · have := avail_radRate_pos T Z (m := -101) (by omega) hm; linarith
    · have := avail_radRate_pos T Z (m := -103) (by omega) hm; linarith
  simp only [lbMembersOnce, Hdr.L3O45_LINE, hs, if_true, List.cons_append, List.nil_append, List.foldl, memberShare, Hdr.L2M4_LINE,
    Hdr.L2M3_LINE, Hdr.L3N5_LINE, Hdr.L3O4_LINE, Hdr.L3O5_LINE, Hdr.L3N1_LINE, Hdr.L3O1_LINE, Hdr.L3N6_LINE,
    Hdr.L3N7_LINE, Hdr.L3N4_LINE, Hdr.L1M3_LINE, Hdr.L1M2_LINE, Hdr.L1M5_LINE, Hdr.L1M4_LINE, lit0]
  rw [l2 (-63) (by omega), l2 (-62) (by omega), l3 (-95) (by omega), l3 (-102) (by omega), l3 (-91) (by omega),
    l3 (-98) (by omega), l3 (-96) (by omega), l3 (-97) (by omega), l3 (-94) (by omega), l1 (-34) (by omega),
    l1 (-33) (by omega), l1 (-36) (by omega), l1 (-35) (by omega)]
  intro heq
  have hz : valOr0 (shellFactor T Z 3 E) * (valOr0 (Spec.RadRate T Z (-101)) + valOr0 (Spec.RadRate T Z (-103))) = 0 := by
    linarith
  exact (mul_ne_zero h3 hpos.ne') hz

/-- **L-beta = photo cross section × Σ over its member lines, every member once** — under the executed data condition that no
element has a rate for the doublet slot `L3O45` and for one of its members at the same time -/
theorem fluorline_LB_once (he : error.isFull = false)
    (hP : vecOkB (T.E_Photo_arr Z.toNat) (T.CS_Photo_arr Z.toNat) (T.CS_Photo_arr2 Z.toNat) (T.NE_Photo Z.toNat) = true)
    (hO : edgeOrderB T Z = true) (hD : lbDoubleCountB T Z = false) :
    Meets (Gen.CS_FluorLine T Z 3 E error) error (Spec.CS_FluorLine_LBonce T Z E) := by
  have m := fluorline_LB T Z E error he hP hO
  have e : Spec.CS_FluorLine T Z 3 E = Spec.CS_FluorLine_LBonce T Z E := by
    unfold Spec.CS_FluorLine Spec.CS_FluorLine_LBonce
    simp only [Hdr.LB_LINE, if_true, lb_once_sum T Z E hD]
    rfl
  rw [e] at m; exact m

/-! ## 2. photo × factor, for every photo table -/

section factor
variable (he : error.isFull = false)
include he

/-- **`CS_FluorShell` = (whatever `CS_Photo` returns) × `shellFactorOf`**, and an error when the factor fails (invalid `Z`, `E ≤ 0`,
shell outside K..L3, below the edge, missing jump ratio / yield / Coster–Kronig probability, zero share) — for every table: the
photo table is not inspected, `CS_Photo` is only called -/
theorem fluorshell_factorises (shell : Int) (hO : edgeOrderB T Z = true) :
    match Spec.shellFactorOf T Z shell E with
    | .value f => Gen.CS_FluorShell T Z shell E error =
        (Gen.CS_Photo T Z E error >>= fun r => pure ((if r.1 = 0 then 0 else r.1 * f), r.2))
    | _ => Fails (Gen.CS_FluorShell T Z shell E error) error := by
  unfold Spec.shellFactorOf
  unfold Gen.CS_FluorShell
  simp only [zOk, mOk, Hdr.ZMAX, Hdr.K_SHELL, Hdr.L3_SHELL, decide_eq_true_eq, lit0, deq_real, setErr_notFull he]
  by_cases hZ : Z < 1 ∨ Z > 120
  · have : ¬ (1 ≤ Z ∧ Z ≤ 120) := by omega
    simp only [hZ, this, if_true, false_and, if_false]
    xrl_finish
  · have hZ' : 1 ≤ Z ∧ Z ≤ 120 := by omega
    simp only [hZ, hZ', if_false, true_and]
    by_cases hE : E ≤ 0
    · have : ¬ 0 < E := not_lt.mpr hE
      simp only [hE, this, if_true, false_and, if_false]
      xrl_finish
    · have hE' : 0 < E := not_le.mp hE
      simp only [hE, hE', if_false, true_and]
      by_cases hs : shell < 0 ∨ shell > 3
      · have : ¬ (0 ≤ shell ∧ shell ≤ 3) := by omega
        simp only [hs, this, if_true, if_false]
        xrl_finish
      · have hs' : 0 ≤ shell ∧ shell ≤ 3 := by omega
        simp only [hs, hs', if_false, if_true]
        have mJ := jumpers_spec T Z E error he shell hs' hO
        rcases Meets.cases mJ with ⟨f, hf, rf⟩ | ⟨hf, e, h1, h2, rf⟩ | hany
        · have fne : f ≠ 0 := shellFactor_value_ne_zero T Z shell E hf
          simp only [rf, hf, bind_ok, fne, if_false, and_self, decide_true, if_true]
          rcases hq : Gen.CS_Photo T Z E error with a | q
          · rfl
          · simp only [bind_ok, pure_eq_ok]
            split_ifs <;> rfl
        · simp only [rf, hf, bind_ok, and_self, decide_true, if_true]
          simp
          exact fails_of_eq h1 h2 rfl
        · exact absurd hany (shellFactor_ne_any T Z shell E)

/-- **L-beta = (whatever `CS_Photo` returns) × the member sum**, "excitation energy too low" when the sum is 0 — for every
photo table -/
theorem fluorline_LB_factorises (hO : edgeOrderB T Z = true) :
    match Spec.lineFactor T Z 3 E with
    | .value g => Gen.CS_FluorLine T Z 3 E error =
        (Gen.CS_Photo T Z E error >>= fun r => pure ((if r.1 = 0 then 0 else g * r.1), r.2))
    | _ => Fails (Gen.CS_FluorLine T Z 3 E error) error := by
  have j1 := C10.meets_null (jump_from_L1_spec T Z E Slot.null rfl) (shellFactor_ne_any T Z _ E)
  have j2 := C10.meets_null (jump_from_L2_spec T Z E Slot.null rfl hO) (shellFactor_ne_any T Z _ E)
  have j3 := C10.meets_null (jump_from_L3_spec T Z E Slot.null rfl hO) (shellFactor_ne_any T Z _ E)
  simp only [Hdr.L1_SHELL, Hdr.L2_SHELL, Hdr.L3_SHELL] at j1 j2 j3
  unfold Gen.CS_FluorLine Spec.lineFactor
  simp only [Hdr.LB_LINE, if_true, lb_sum_eq]
  have n1 : ¬ ((3 : Int) ≥ -29 ∧ (3 : Int) ≤ 1) := by omega
  have n2 : ¬ (((3 : Int) ≤ -30 ∧ (3 : Int) ≥ -113) ∨ (3 : Int) = 2) := by omega
  simp only [n1, n2, if_false, if_true, j1, j2, j3, rad_null, bind_ok, deq_real, lit0, setErr_notFull he]
  generalize valOr0 (shellFactor T Z 2 E) * _ + valOr0 (shellFactor T Z 3 E) * _ + valOr0 (shellFactor T Z 1 E) * _ = S
  by_cases hS : S = 0
  · simp only [hS, if_true]
    xrl_finish
  · simp only [hS, if_false]
    rcases hq : Gen.CS_Photo T Z E error with a | q
    · rfl
    · simp only [bind_ok, pure_eq_ok]
      split_ifs <;> rfl

/-- the tail shared by the single-line branches of `CS_FluorLine`: the rate, then the shell value, then their product -/
noncomputable def lineTail (s line : Int) : M (ℝ × Slot) := do
  let r_1 ← Gen.RadRate T Z line error
  if r_1.1 = 0 then pure (0, r_1.2)
  else do
    let r_2 ← Gen.CS_FluorShell T Z s E r_1.2
    if r_2.1 = 0 then pure (0, r_2.2) else pure (r_1.1 * r_2.1, r_2.2)

theorem lineTail_factorises (s line : Int) (hs : 0 ≤ s ∧ s ≤ 3) (hl : line ≠ 3) (hls : lineShell line = some s)
    (hO : edgeOrderB T Z = true) :
    match Spec.lineFactor T Z line E with
    | .value g => lineTail T Z E error s line =
        (Gen.CS_Photo T Z E error >>= fun r => pure ((if r.1 = 0 then 0 else g * r.1), r.2))
    | _ => Fails (lineTail T Z E error s line) error := by
  have mR := C10.rad_rate_spec T Z error he line
  have mS := fluorshell_factorises T Z E error he s hO
  unfold Spec.lineFactor
  simp only [Hdr.LB_LINE, hl, if_false, hls]
  unfold lineTail
  rcases Meets.cases mR with ⟨rr, hr, rR⟩ | ⟨hr, e, h1, h2, rR⟩ | hany
  · have rne := radRate_value_ne_zero T Z line hr
    simp only [rR, hr, bind_ok, rne, if_false]
    unfold Spec.shellFactorOf at mS
    have hm : mOk Hdr.K_SHELL Hdr.L3_SHELL s = true := by
      simp [mOk, Hdr.K_SHELL, Hdr.L3_SHELL, hs.1, hs.2]
    by_cases hg : zOk Z = true ∧ (0.0 : ℝ) < E
    · rw [if_pos ⟨hg.1, hg.2, hm⟩] at mS
      rw [if_pos hg]
      cases hf : shellFactor T Z s E with
      | value f =>
        rw [hf] at mS
        simp only at mS ⊢
        rw [mS]
        rcases hq : Gen.CS_Photo T Z E error with a | q
        · rfl
        · simp only [bind_ok, pure_eq_ok]
          have fne : f ≠ 0 := shellFactor_value_ne_zero T Z s E hf
          by_cases hq0 : q.1 = 0
          · simp [hq0]
          · have : q.1 * f ≠ 0 := mul_ne_zero hq0 fne
            simp only [hq0, if_false, this]
            congr 2
            ring
      | fails =>
        rw [hf] at mS
        simp only at mS ⊢
        obtain ⟨e, h1, h2, hr2⟩ := mS
        rw [hr2]
        simp only [bind_ok]
        norm_num
        exact ⟨e, h1, h2, by norm_num⟩
      | any => exact absurd hf (shellFactor_ne_any T Z s E)
    · have hg' : ¬ (zOk Z = true ∧ (0.0 : ℝ) < E ∧ mOk Hdr.K_SHELL Hdr.L3_SHELL s = true) := fun h => hg ⟨h.1, h.2.1⟩
      rw [if_neg hg'] at mS
      rw [if_neg hg]
      simp only at mS ⊢
      obtain ⟨e, h1, h2, hr2⟩ := mS
      rw [hr2]
      simp only [bind_ok]
      norm_num
      exact ⟨e, h1, h2, by norm_num⟩
  · simp only [rR, hr, bind_ok]
    have : Fails (Except.ok ((0 : ℝ), error.withErr e) : M (ℝ × Slot)) error := fails_of_eq h1 h2 rfl
    split_ifs <;> simpa using this
  · exact absurd hany (radRate_ne_any T Z line)

/-- **a single line (or the K-alpha, K-beta, L-alpha group) = (whatever `CS_Photo` returns) × rate × share of the line's
shell**, an error when that factor fails or the macro designates no K/L line — for every photo table -/
theorem fluorline_factorises (line : Int) (hl : line ≠ 3) (hO : edgeOrderB T Z = true) :
    match Spec.lineFactor T Z line E with
    | .value g => Gen.CS_FluorLine T Z line E error =
        (Gen.CS_Photo T Z E error >>= fun r => pure ((if r.1 = 0 then 0 else g * r.1), r.2))
    | _ => Fails (Gen.CS_FluorLine T Z line E error) error := by
  by_cases hK : line ≥ -29 ∧ line ≤ 1
  · have hs := lineShell_K line hK
    have key := lineTail_factorises T Z E error he 0 line (by omega) hl hs hO
    have e : Gen.CS_FluorLine T Z line E error = lineTail T Z E error 0 line := by
      unfold Gen.CS_FluorLine lineTail
      rw [if_pos hK]
      simp only [deq_real, lit0]
    rw [e]; exact key
  · by_cases hL : (line ≤ -30 ∧ line ≥ -113) ∨ line = 2
    · by_cases r1 : line ≥ -58 ∧ line ≤ -30
      · have hs := lineShell_L1 line r1
        have key := lineTail_factorises T Z E error he 1 line (by omega) hl hs hO
        have e : Gen.CS_FluorLine T Z line E error = lineTail T Z E error 1 line := by
          unfold Gen.CS_FluorLine lineTail
          rw [if_neg hK, if_pos hL]
          simp only [r1, and_self, if_true, if_false, deq_real, lit0]
          rcases Gen.RadRate T Z line error with a | r
          · rfl
          · simp only [bind_ok]
            split_ifs
            · rfl
            · rcases Gen.CS_FluorShell T Z 1 E r.2 with a | q <;> rfl
        rw [e]; exact key
      · by_cases r2 : line ≥ -85 ∧ line ≤ -59
        · have hs := lineShell_L2 line r2
          have key := lineTail_factorises T Z E error he 2 line (by omega) hl hs hO
          have e : Gen.CS_FluorLine T Z line E error = lineTail T Z E error 2 line := by
            unfold Gen.CS_FluorLine lineTail
            rw [if_neg hK, if_pos hL]
            simp only [r1, r2, and_self, if_true, if_false, deq_real, lit0]
            rcases Gen.RadRate T Z line error with a | r
            · rfl
            · simp only [bind_ok]
              split_ifs
              · rfl
              · rcases Gen.CS_FluorShell T Z 2 E r.2 with a | q <;> rfl
          rw [e]; exact key
        · have r3 : line ≤ -86 ∨ line = 2 := by omega
          have hs := lineShell_L3 line (by omega)
          have key := lineTail_factorises T Z E error he 3 line (by omega) hl hs hO
          have e : Gen.CS_FluorLine T Z line E error = lineTail T Z E error 3 line := by
            unfold Gen.CS_FluorLine lineTail
            rw [if_neg hK, if_pos hL]
            simp only [r1, r2, r3, and_self, if_true, if_false, deq_real, lit0]
            rcases Gen.RadRate T Z line error with a | r
            · rfl
            · simp only [bind_ok]
              split_ifs
              · rfl
              · rcases Gen.CS_FluorShell T Z 3 E r.2 with a | q <;> rfl
          rw [e]; exact key
    · have hs := lineShell_none line (by omega)
      unfold Spec.lineFactor
      simp only [Hdr.LB_LINE, hl, if_false, hs]
      unfold Gen.CS_FluorLine
      rw [if_neg hK, if_neg hL, if_neg hl]
      simp only [setErr_notFull he]
      xrl_finish

end factor

/-! ## 3. a witness on which the theorems yield a VALUE -/

/-- one shape for every element: K…L3 edges at 1/2 keV, jump ratios 2, yields and rates 1, Coster–Kronig probabilities 1/4, and a
photo table with knots `ln(1000·E)` at `E = 1, e` keV, ordinates `ln σ = 3, 5` -/
noncomputable def witV : Tables ℝ :=
  { (default : Tables ℝ) with
    EdgeEnergy_arr := fun _ _ => 1 / 2, JumpFactor_arr := fun _ _ => 2, FluorYield_arr := fun _ _ => 1,
    RadRate_arr := fun _ _ => 1, CosKron_arr := fun _ _ => 1 / 4,
    NE_Photo := fun _ => 2, E_Photo_arr := fun _ => C02.knotsL, CS_Photo_arr := fun _ => C02.ys35,
    CS_Photo_arr2 := fun _ => C02.zeros2 }

theorem witV_shape : vecOkB (witV.E_Photo_arr (1 : Int).toNat) (witV.CS_Photo_arr (1 : Int).toNat)
    (witV.CS_Photo_arr2 (1 : Int).toNat) (witV.NE_Photo (1 : Int).toNat) = true := by
  simp [vecOkB, witV, C02.knotsL, C02.ys35, C02.zeros2, knot]

theorem witV_edge (s : Int) (hs : 0 ≤ s ∧ s ≤ 3) : edge witV 1 s = 1 / 2 := by
  have : s ≤ 27 := by omega
  simp [edge, Spec.EdgeEnergy, lookup2, zOk, mOk, witV, valOr0, Hdr.ZMAX, Hdr.K_SHELL, Hdr.SHELLNUM, this, hs.1, lit0]
theorem witV_fyield (s : Int) (hs : 0 ≤ s ∧ s ≤ 3) : fyield witV 1 s = 1 := by
  have : s ≤ 27 := by omega
  simp [fyield, Spec.FluorYield, lookup2, zOk, mOk, witV, valOr0, Hdr.ZMAX, Hdr.K_SHELL, Hdr.SHELLNUM, this, hs.1, lit0]
theorem witV_jump (s : Int) (hs : 0 ≤ s ∧ s ≤ 3) : jump witV 1 s = 2 := by
  have : s ≤ 27 := by omega
  simp [jump, Spec.JumpFactor, lookup2, zOk, mOk, witV, valOr0, Hdr.ZMAX, Hdr.K_SHELL, Hdr.SHELLNUM, this, hs.1, lit0]

theorem witV_order : edgeOrderB witV 1 = true := by
  rw [edgeOrder_iff]
  simp [witV_edge, witV_fyield]

/-- the photo cross section of the witness at its first knot (1 keV): `e³` -/
theorem witV_photo : Spec.CS_Photo witV 1 1 = .value (Real.exp 3) := by
  unfold Spec.CS_Photo
  have hd : C02.Determinate (witV.E_Photo_arr (1 : Int).toNat) (witV.NE_Photo (1 : Int).toNat).toNat 1 := by
    refine ⟨le_refl _, Or.inl ⟨by simp [witV], ?_⟩⟩
    simp [witV, C02.knotsL, knot]
  have := C02.interp_at_knot (guard := zOk 1 && decide (0 ≤ witV.NE_Photo (1 : Int).toNat) && decide ((0.0 : ℝ) < 1))
    (by simp [zOk, Hdr.ZMAX, witV, lit0]) _ _ _ _ XNum.exp (XNum.log ((1 : ℝ) * (1000.0 : ℝ))) witV_shape 1 hd
    (by simp [witV, C02.knotsL, knot]; norm_num; rfl)
  rw [this]
  simp [witV, C02.ys35, knot]
  rfl

/-- the K share of the witness at 1 keV: `(2 − 1)/2 · 1 = 1/2` -/
theorem witV_factor_K : shellFactor witV 1 0 1 = .value (1 / 2) := by
  rw [shellFactor_K]
  simp [witV_edge, witV_jump, witV_fyield, nonzero, lit0]
  norm_num

/-- **an instance of `fluorshell_jump_spec` that yields a value**: `CS_FluorShell(1, K, 1 keV) = e³ · 1/2` on `witV` -/
theorem witV_fluorshell_value :
    Returns (Gen.CS_FluorShell witV 1 0 1 Slot.empty) (Real.exp 3 * (1 / 2)) Slot.empty := by
  have m := fluorshell_jump_spec witV 1 1 Slot.empty rfl 0 witV_shape witV_order
  have e : Spec.CS_FluorShell witV 1 0 1 = .value (Real.exp 3 * (1 / 2)) := by
    unfold Spec.CS_FluorShell
    simp only [Hdr.K_SHELL] at *
    rw [witV_factor_K, witV_photo]
    simp [zOk, mOk, Hdr.ZMAX, Hdr.K_SHELL, Hdr.L3_SHELL, lit0]
  rw [e] at m; exact m

/-- … and of `fluorline_jump_spec`: the K–L3 line (rate 1) has the same value -/
theorem witV_fluorline_value :
    Returns (Gen.CS_FluorLine witV 1 (-3) 1 Slot.empty) (1 * (Real.exp 3 * (1 / 2))) Slot.empty := by
  have m := fluorline_jump_spec witV 1 1 Slot.empty rfl (-3) witV_shape witV_order
  have hr : Spec.RadRate witV 1 (-3) = .value 1 := by
    simp [Spec.RadRate, singleRate, isLineMacro, rCell, witV, zOk, Hdr.ZMAX, Hdr.KA_LINE, Hdr.KB_LINE, Hdr.LA_LINE, Hdr.LB_LINE,
      Hdr.LINENUM, lit0]
  have hsf : Spec.CS_FluorShell witV 1 0 1 = .value (Real.exp 3 * (1 / 2)) := by
    unfold Spec.CS_FluorShell
    simp only [Hdr.K_SHELL] at *
    rw [witV_factor_K, witV_photo]
    simp [zOk, mOk, Hdr.ZMAX, Hdr.K_SHELL, Hdr.L3_SHELL, lit0]
  have e : Spec.CS_FluorLine witV 1 (-3) 1 = .value (1 * (Real.exp 3 * (1 / 2))) := by
    unfold Spec.CS_FluorLine
    rw [if_neg (by simp [Hdr.LB_LINE]), lineShell_K (-3) (by omega)]
    simp only [hr, hsf, timesRate]
  rw [e] at m; exact m

/-- the factorisation theorem on the same witness: its hypothesis `shellFactorOf = value` is satisfiable -/
example : Spec.shellFactorOf witV 1 0 1 = .value (1 / 2) := by
  unfold Spec.shellFactorOf
  rw [if_pos (by simp [zOk, mOk, Hdr.ZMAX, Hdr.K_SHELL, Hdr.L3_SHELL, lit0])]
  exact witV_factor_K

/-! ## the data condition of §1 is needed, and satisfiable -/

/-- rates 1 for every line: the doublet slot and its members all carry a rate -/
theorem witV_double_count : lbDoubleCountB witV 1 = true := by
  have hr : ∀ m : Int, m ≠ 0 → m ≠ 1 → m ≠ 2 → m ≠ 3 → -383 ≤ m → m ≤ -1 → Spec.RadRate witV 1 m = .value 1 := by
    intro m h0 h1 h2 h3 hlo hhi
    simp [Spec.RadRate, singleRate, isLineMacro, rCell, witV, zOk, Hdr.ZMAX, Hdr.KA_LINE, Hdr.KB_LINE, Hdr.LA_LINE, Hdr.LB_LINE,
      Hdr.LINENUM, lit0, h0, h1, h2, h3, hlo, hhi]
  unfold lbDoubleCountB
  simp only [Hdr.L3O45_LINE, Hdr.L3O4_LINE, Hdr.L3O5_LINE]
  rw [hr (-102) (by omega) (by omega) (by omega) (by omega) (by omega) (by omega),
    hr (-101) (by omega) (by omega) (by omega) (by omega) (by omega) (by omega)]
  simp [avail]

/-- the witness of Props/C09.lean with all rates 1 violates it too; a table without rates for the members satisfies it -/
example : lbDoubleCountB (default : Tables ℝ) 1 = false := by
  unfold lbDoubleCountB
  have : Spec.RadRate (default : Tables ℝ) 1 Hdr.L3O45_LINE = .fails := by
    simp [Spec.RadRate, singleRate, isLineMacro, rCell, zOk, Hdr.ZMAX, Hdr.KA_LINE, Hdr.KB_LINE, Hdr.LA_LINE, Hdr.LB_LINE,
      Hdr.LINENUM, Hdr.L3O45_LINE, lit0]
    exact le_of_eq rfl
  simp [this, avail]

end C09
end Xrl
