import Xrl.Lemmas.Cascade
import Xrl.Props.C08
import Xrl.Gen.F_kissel_pe
/-!
# C08 — part 2a: the 32 vacancyProd-production functions `P<shell>_{pure,rad_cascade,auger_cascade,full_cascade}_kissel`

(src/xrf_cross_sections_aux.c; the K shell has no such function — its vacancyProd production is its own partial
photo-ionisation, `vacancy_K`.)  For every table content, element, energy, inner-shell values `P` and slot: the
generated function meets `Spec.vacancyProd`, given that the shell's own `CS_Photo_Partial` call meets the expectation
`own` (never `.any`, never the value 0 — `CS_Photo_Partial` reports 0 as an error) and, for the variants that read
the precomputed constants, that `Z` indexes the table when `own` is a value.
-/
namespace Xrl
namespace C08
open Spec

set_option linter.unusedSimpArgs false
set_option linter.unusedVariables false
set_option maxRecDepth 16384

theorem cosKron_null (T : Tables ℝ) (Z tr : Int) :
    Gen.CosKronTransProb T Z tr Slot.null = Except.ok (ckProb T Z tr, Slot.null) :=
  C10.meets_null (C01.lookup_spec_CosKronTransProb T Z tr Slot.null rfl) (by unfold Spec.CosKronTransProb; exact lookup2_ne_any)

/-- the specification side, evaluated at a concrete sub-shell -/
macro "c08_vac_spec" : tactic =>
  `(tactic| (
    simp only [vacancyProd, List.foldl, transfer, cellFull, cellAuger, zero_lit, ite_acc2, ite_acc, Meets, Returns,
      lowerSame_0, lowerSame_1, lowerSame_2, lowerSame_3, lowerSame_4, lowerSame_5, lowerSame_6, lowerSame_7, lowerSame_8,
      inner_0, inner_1, inner_2, inner_3, inner_4, inner_5, inner_6, inner_7, inner_8,
      ckList_2_1, ckList_3_1, ckList_3_2, ckList_5_4, ckList_6_4, ckList_7_4, ckList_8_4, ckList_6_5, ckList_7_5, ckList_8_5,
      ckList_7_6, ckList_8_6, ckList_8_7,
      radLine_1_0, radLine_2_0, radLine_3_0, radLine_4_0, radLine_4_1, radLine_4_2, radLine_4_3,
      radLine_5_0, radLine_5_1, radLine_5_2, radLine_5_3, radLine_6_0, radLine_6_1, radLine_6_2, radLine_6_3,
      radLine_7_0, radLine_7_1, radLine_7_2, radLine_7_3, radLine_8_0, radLine_8_1, radLine_8_2, radLine_8_3]))

set_option hygiene false in
/-- variants without table reads (none, radiative) -/
macro "c08_vac" f:ident : tactic =>
  `(tactic| (
    unfold $f
    rcases Meets.cases hown with ⟨o, ho, ro⟩ | ⟨ho, e, h1, h2, ro⟩ | hany
    · have hne := hnz o ho
      subst ho
      simp only [ro, bind_ok, pure_eq_ok, deq_real, zero_lit, hne, if_false, cosKron_null, fluorYield_null, radRate_null,
        ite_ok_acc]
      c08_vac_spec
      try (refine congrArg (fun x => (Except.ok (x, error) : M (ℝ × Slot))) ?_; ring)
    · subst ho
      simp only [ro, bind_ok, pure_eq_ok, deq_real, zero_lit, if_true, vacancyProd, Meets]
      exact fails_of_eq h1 h2 rfl
    · exact absurd hany hna))

set_option hygiene false in
/-- variants reading the precomputed constants (non-radiative, full) -/
macro "c08_vac_tab" f:ident : tactic =>
  `(tactic| (
    unfold $f
    rcases Meets.cases hown with ⟨o, ho, ro⟩ | ⟨ho, e, h1, h2, ro⟩ | hany
    · have hb : 0 ≤ Z ∧ Z < 121 := by have := hZ o ho; omega
      have hne := hnz o ho
      subst ho
      simp (disch := decide) only [ro, bind_ok, pure_eq_ok, deq_real, zero_lit, hne, if_false, cosKron_null,
        rd3_cell _ _ hb, ite_ok_acc]
      c08_vac_spec
      try (refine congrArg (fun x => (Except.ok (x, error) : M (ℝ × Slot))) ?_; ring)
    · subst ho
      simp only [ro, bind_ok, pure_eq_ok, deq_real, zero_lit, if_true, vacancyProd, Meets]
      exact fails_of_eq h1 h2 rfl
    · exact absurd hany hna))

variable (T : Tables ℝ) (Z : Int) (E : ℝ) (P : Int → ℝ) (error : Slot) (own : Expect ℝ)

/-- the K shell is fed by nothing: its vacancyProd production is its own photo-ionisation, in every variant -/
theorem vacancy_K (v : Variant) : vacancyProd T Z 0 v P own = own := by
  cases own <;> cases v <;> simp [vacancyProd, lowerSame_0, inner_0]

theorem vacancy_spec_L1_none
    (hown : Meets (Gen.CS_Photo_Partial T Z 1 E error) error own) (hna : own ≠ .any) :
    Meets (Gen.PL1_pure_kissel T Z E error) error (vacancyProd T Z 1 .none P own) := by
  unfold Gen.PL1_pure_kissel
  rcases Meets.cases hown with ⟨o, ho, ro⟩ | ⟨ho, e, h1, h2, ro⟩ | hany
  · subst ho
    simp only [ro, bind_ok, pure_eq_ok]
    c08_vac_spec
  · subst ho
    simp only [ro, bind_ok, pure_eq_ok, vacancyProd, Meets]
    exact fails_of_eq h1 h2 rfl
  · exact absurd hany hna

theorem vacancy_spec_L1_rad
    (hown : Meets (Gen.CS_Photo_Partial T Z 1 E error) error own) (hna : own ≠ .any) (hnz : ∀ o, own = .value o → o ≠ 0) :
    Meets (Gen.PL1_rad_cascade_kissel T Z E (P 0) error) error (vacancyProd T Z 1 .rad P own) := by
  c08_vac Gen.PL1_rad_cascade_kissel

theorem vacancy_spec_L1_auger
    (hown : Meets (Gen.CS_Photo_Partial T Z 1 E error) error own) (hna : own ≠ .any) (hnz : ∀ o, own = .value o → o ≠ 0) (hZ : ∀ o, own = .value o → 0 ≤ Z ∧ Z ≤ 120) :
    Meets (Gen.PL1_auger_cascade_kissel T Z E (P 0) error) error (vacancyProd T Z 1 .auger P own) := by
  c08_vac_tab Gen.PL1_auger_cascade_kissel

theorem vacancy_spec_L1_full
    (hown : Meets (Gen.CS_Photo_Partial T Z 1 E error) error own) (hna : own ≠ .any) (hnz : ∀ o, own = .value o → o ≠ 0) (hZ : ∀ o, own = .value o → 0 ≤ Z ∧ Z ≤ 120) :
    Meets (Gen.PL1_full_cascade_kissel T Z E (P 0) error) error (vacancyProd T Z 1 .full P own) := by
  c08_vac_tab Gen.PL1_full_cascade_kissel

theorem vacancy_spec_L2_none
    (hown : Meets (Gen.CS_Photo_Partial T Z 2 E error) error own) (hna : own ≠ .any) (hnz : ∀ o, own = .value o → o ≠ 0) :
    Meets (Gen.PL2_pure_kissel T Z E (P 1) error) error (vacancyProd T Z 2 .none P own) := by
  c08_vac Gen.PL2_pure_kissel

theorem vacancy_spec_L2_rad
    (hown : Meets (Gen.CS_Photo_Partial T Z 2 E error) error own) (hna : own ≠ .any) (hnz : ∀ o, own = .value o → o ≠ 0) :
    Meets (Gen.PL2_rad_cascade_kissel T Z E (P 0) (P 1) error) error (vacancyProd T Z 2 .rad P own) := by
  c08_vac Gen.PL2_rad_cascade_kissel

theorem vacancy_spec_L2_auger
    (hown : Meets (Gen.CS_Photo_Partial T Z 2 E error) error own) (hna : own ≠ .any) (hnz : ∀ o, own = .value o → o ≠ 0) (hZ : ∀ o, own = .value o → 0 ≤ Z ∧ Z ≤ 120) :
    Meets (Gen.PL2_auger_cascade_kissel T Z E (P 0) (P 1) error) error (vacancyProd T Z 2 .auger P own) := by
  c08_vac_tab Gen.PL2_auger_cascade_kissel

theorem vacancy_spec_L2_full
    (hown : Meets (Gen.CS_Photo_Partial T Z 2 E error) error own) (hna : own ≠ .any) (hnz : ∀ o, own = .value o → o ≠ 0) (hZ : ∀ o, own = .value o → 0 ≤ Z ∧ Z ≤ 120) :
    Meets (Gen.PL2_full_cascade_kissel T Z E (P 0) (P 1) error) error (vacancyProd T Z 2 .full P own) := by
  c08_vac_tab Gen.PL2_full_cascade_kissel

theorem vacancy_spec_L3_none
    (hown : Meets (Gen.CS_Photo_Partial T Z 3 E error) error own) (hna : own ≠ .any) (hnz : ∀ o, own = .value o → o ≠ 0) :
    Meets (Gen.PL3_pure_kissel T Z E (P 1) (P 2) error) error (vacancyProd T Z 3 .none P own) := by
  c08_vac Gen.PL3_pure_kissel

theorem vacancy_spec_L3_rad
    (hown : Meets (Gen.CS_Photo_Partial T Z 3 E error) error own) (hna : own ≠ .any) (hnz : ∀ o, own = .value o → o ≠ 0) :
    Meets (Gen.PL3_rad_cascade_kissel T Z E (P 0) (P 1) (P 2) error) error (vacancyProd T Z 3 .rad P own) := by
  c08_vac Gen.PL3_rad_cascade_kissel

theorem vacancy_spec_L3_auger
    (hown : Meets (Gen.CS_Photo_Partial T Z 3 E error) error own) (hna : own ≠ .any) (hnz : ∀ o, own = .value o → o ≠ 0) (hZ : ∀ o, own = .value o → 0 ≤ Z ∧ Z ≤ 120) :
    Meets (Gen.PL3_auger_cascade_kissel T Z E (P 0) (P 1) (P 2) error) error (vacancyProd T Z 3 .auger P own) := by
  c08_vac_tab Gen.PL3_auger_cascade_kissel

theorem vacancy_spec_L3_full
    (hown : Meets (Gen.CS_Photo_Partial T Z 3 E error) error own) (hna : own ≠ .any) (hnz : ∀ o, own = .value o → o ≠ 0) (hZ : ∀ o, own = .value o → 0 ≤ Z ∧ Z ≤ 120) :
    Meets (Gen.PL3_full_cascade_kissel T Z E (P 0) (P 1) (P 2) error) error (vacancyProd T Z 3 .full P own) := by
  c08_vac_tab Gen.PL3_full_cascade_kissel

theorem vacancy_spec_M1_none
    (hown : Meets (Gen.CS_Photo_Partial T Z 4 E error) error own) (hna : own ≠ .any) :
    Meets (Gen.PM1_pure_kissel T Z E error) error (vacancyProd T Z 4 .none P own) := by
  unfold Gen.PM1_pure_kissel
  rcases Meets.cases hown with ⟨o, ho, ro⟩ | ⟨ho, e, h1, h2, ro⟩ | hany
  · subst ho
    simp only [ro, bind_ok, pure_eq_ok]
    c08_vac_spec
  · subst ho
    simp only [ro, bind_ok, pure_eq_ok, vacancyProd, Meets]
    exact fails_of_eq h1 h2 rfl
  · exact absurd hany hna

theorem vacancy_spec_M1_rad
    (hown : Meets (Gen.CS_Photo_Partial T Z 4 E error) error own) (hna : own ≠ .any) (hnz : ∀ o, own = .value o → o ≠ 0) :
    Meets (Gen.PM1_rad_cascade_kissel T Z E (P 0) (P 1) (P 2) (P 3) error) error (vacancyProd T Z 4 .rad P own) := by
  c08_vac Gen.PM1_rad_cascade_kissel

theorem vacancy_spec_M1_auger
    (hown : Meets (Gen.CS_Photo_Partial T Z 4 E error) error own) (hna : own ≠ .any) (hnz : ∀ o, own = .value o → o ≠ 0) (hZ : ∀ o, own = .value o → 0 ≤ Z ∧ Z ≤ 120) :
    Meets (Gen.PM1_auger_cascade_kissel T Z E (P 0) (P 1) (P 2) (P 3) error) error (vacancyProd T Z 4 .auger P own) := by
  c08_vac_tab Gen.PM1_auger_cascade_kissel

theorem vacancy_spec_M1_full
    (hown : Meets (Gen.CS_Photo_Partial T Z 4 E error) error own) (hna : own ≠ .any) (hnz : ∀ o, own = .value o → o ≠ 0) (hZ : ∀ o, own = .value o → 0 ≤ Z ∧ Z ≤ 120) :
    Meets (Gen.PM1_full_cascade_kissel T Z E (P 0) (P 1) (P 2) (P 3) error) error (vacancyProd T Z 4 .full P own) := by
  c08_vac_tab Gen.PM1_full_cascade_kissel

theorem vacancy_spec_M2_none
    (hown : Meets (Gen.CS_Photo_Partial T Z 5 E error) error own) (hna : own ≠ .any) (hnz : ∀ o, own = .value o → o ≠ 0) :
    Meets (Gen.PM2_pure_kissel T Z E (P 4) error) error (vacancyProd T Z 5 .none P own) := by
  c08_vac Gen.PM2_pure_kissel

theorem vacancy_spec_M2_rad
    (hown : Meets (Gen.CS_Photo_Partial T Z 5 E error) error own) (hna : own ≠ .any) (hnz : ∀ o, own = .value o → o ≠ 0) :
    Meets (Gen.PM2_rad_cascade_kissel T Z E (P 0) (P 1) (P 2) (P 3) (P 4) error) error (vacancyProd T Z 5 .rad P own) := by
  c08_vac Gen.PM2_rad_cascade_kissel

theorem vacancy_spec_M2_auger
    (hown : Meets (Gen.CS_Photo_Partial T Z 5 E error) error own) (hna : own ≠ .any) (hnz : ∀ o, own = .value o → o ≠ 0) (hZ : ∀ o, own = .value o → 0 ≤ Z ∧ Z ≤ 120) :
    Meets (Gen.PM2_auger_cascade_kissel T Z E (P 0) (P 1) (P 2) (P 3) (P 4) error) error (vacancyProd T Z 5 .auger P own) := by
  c08_vac_tab Gen.PM2_auger_cascade_kissel

theorem vacancy_spec_M2_full
    (hown : Meets (Gen.CS_Photo_Partial T Z 5 E error) error own) (hna : own ≠ .any) (hnz : ∀ o, own = .value o → o ≠ 0) (hZ : ∀ o, own = .value o → 0 ≤ Z ∧ Z ≤ 120) :
    Meets (Gen.PM2_full_cascade_kissel T Z E (P 0) (P 1) (P 2) (P 3) (P 4) error) error (vacancyProd T Z 5 .full P own) := by
  c08_vac_tab Gen.PM2_full_cascade_kissel

theorem vacancy_spec_M3_none
    (hown : Meets (Gen.CS_Photo_Partial T Z 6 E error) error own) (hna : own ≠ .any) (hnz : ∀ o, own = .value o → o ≠ 0) :
    Meets (Gen.PM3_pure_kissel T Z E (P 4) (P 5) error) error (vacancyProd T Z 6 .none P own) := by
  c08_vac Gen.PM3_pure_kissel

theorem vacancy_spec_M3_rad
    (hown : Meets (Gen.CS_Photo_Partial T Z 6 E error) error own) (hna : own ≠ .any) (hnz : ∀ o, own = .value o → o ≠ 0) :
    Meets (Gen.PM3_rad_cascade_kissel T Z E (P 0) (P 1) (P 2) (P 3) (P 4) (P 5) error) error (vacancyProd T Z 6 .rad P own) := by
  c08_vac Gen.PM3_rad_cascade_kissel

theorem vacancy_spec_M3_auger
    (hown : Meets (Gen.CS_Photo_Partial T Z 6 E error) error own) (hna : own ≠ .any) (hnz : ∀ o, own = .value o → o ≠ 0) (hZ : ∀ o, own = .value o → 0 ≤ Z ∧ Z ≤ 120) :
    Meets (Gen.PM3_auger_cascade_kissel T Z E (P 0) (P 1) (P 2) (P 3) (P 4) (P 5) error) error (vacancyProd T Z 6 .auger P own) := by
  c08_vac_tab Gen.PM3_auger_cascade_kissel

theorem vacancy_spec_M3_full
    (hown : Meets (Gen.CS_Photo_Partial T Z 6 E error) error own) (hna : own ≠ .any) (hnz : ∀ o, own = .value o → o ≠ 0) (hZ : ∀ o, own = .value o → 0 ≤ Z ∧ Z ≤ 120) :
    Meets (Gen.PM3_full_cascade_kissel T Z E (P 0) (P 1) (P 2) (P 3) (P 4) (P 5) error) error (vacancyProd T Z 6 .full P own) := by
  c08_vac_tab Gen.PM3_full_cascade_kissel

theorem vacancy_spec_M4_none
    (hown : Meets (Gen.CS_Photo_Partial T Z 7 E error) error own) (hna : own ≠ .any) (hnz : ∀ o, own = .value o → o ≠ 0) :
    Meets (Gen.PM4_pure_kissel T Z E (P 4) (P 5) (P 6) error) error (vacancyProd T Z 7 .none P own) := by
  c08_vac Gen.PM4_pure_kissel

theorem vacancy_spec_M4_rad
    (hown : Meets (Gen.CS_Photo_Partial T Z 7 E error) error own) (hna : own ≠ .any) (hnz : ∀ o, own = .value o → o ≠ 0) :
    Meets (Gen.PM4_rad_cascade_kissel T Z E (P 0) (P 1) (P 2) (P 3) (P 4) (P 5) (P 6) error) error (vacancyProd T Z 7 .rad P own) := by
  c08_vac Gen.PM4_rad_cascade_kissel

theorem vacancy_spec_M4_auger
    (hown : Meets (Gen.CS_Photo_Partial T Z 7 E error) error own) (hna : own ≠ .any) (hnz : ∀ o, own = .value o → o ≠ 0) (hZ : ∀ o, own = .value o → 0 ≤ Z ∧ Z ≤ 120) :
    Meets (Gen.PM4_auger_cascade_kissel T Z E (P 0) (P 1) (P 2) (P 3) (P 4) (P 5) (P 6) error) error (vacancyProd T Z 7 .auger P own) := by
  c08_vac_tab Gen.PM4_auger_cascade_kissel

theorem vacancy_spec_M4_full
    (hown : Meets (Gen.CS_Photo_Partial T Z 7 E error) error own) (hna : own ≠ .any) (hnz : ∀ o, own = .value o → o ≠ 0) (hZ : ∀ o, own = .value o → 0 ≤ Z ∧ Z ≤ 120) :
    Meets (Gen.PM4_full_cascade_kissel T Z E (P 0) (P 1) (P 2) (P 3) (P 4) (P 5) (P 6) error) error (vacancyProd T Z 7 .full P own) := by
  c08_vac_tab Gen.PM4_full_cascade_kissel

theorem vacancy_spec_M5_none
    (hown : Meets (Gen.CS_Photo_Partial T Z 8 E error) error own) (hna : own ≠ .any) (hnz : ∀ o, own = .value o → o ≠ 0) :
    Meets (Gen.PM5_pure_kissel T Z E (P 4) (P 5) (P 6) (P 7) error) error (vacancyProd T Z 8 .none P own) := by
  c08_vac Gen.PM5_pure_kissel

theorem vacancy_spec_M5_rad
    (hown : Meets (Gen.CS_Photo_Partial T Z 8 E error) error own) (hna : own ≠ .any) (hnz : ∀ o, own = .value o → o ≠ 0) :
    Meets (Gen.PM5_rad_cascade_kissel T Z E (P 0) (P 1) (P 2) (P 3) (P 4) (P 5) (P 6) (P 7) error) error (vacancyProd T Z 8 .rad P own) := by
  c08_vac Gen.PM5_rad_cascade_kissel

theorem vacancy_spec_M5_auger
    (hown : Meets (Gen.CS_Photo_Partial T Z 8 E error) error own) (hna : own ≠ .any) (hnz : ∀ o, own = .value o → o ≠ 0) (hZ : ∀ o, own = .value o → 0 ≤ Z ∧ Z ≤ 120) :
    Meets (Gen.PM5_auger_cascade_kissel T Z E (P 0) (P 1) (P 2) (P 3) (P 4) (P 5) (P 6) (P 7) error) error (vacancyProd T Z 8 .auger P own) := by
  c08_vac_tab Gen.PM5_auger_cascade_kissel

theorem vacancy_spec_M5_full
    (hown : Meets (Gen.CS_Photo_Partial T Z 8 E error) error own) (hna : own ≠ .any) (hnz : ∀ o, own = .value o → o ≠ 0) (hZ : ∀ o, own = .value o → 0 ≤ Z ∧ Z ≤ 120) :
    Meets (Gen.PM5_full_cascade_kissel T Z E (P 0) (P 1) (P 2) (P 3) (P 4) (P 5) (P 6) (P 7) error) error (vacancyProd T Z 8 .full P own) := by
  c08_vac_tab Gen.PM5_full_cascade_kissel

end C08
end Xrl
