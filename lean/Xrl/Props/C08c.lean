import Xrl.Props.C08b
/-!
# C08 — part 2b: shell fluorescence cross sections `CS_FluorShell_Kissel{_no_Cascade,_Radiative_Cascade,_Nonradiative_Cascade,_Cascade,}`

`fluorshell_spec_<variant>`: the generated function meets `Spec.fluorShell`: fluorescence yield × vacancyProd production
of the shell, with the inner-shell values computed bottom-up (K, L1, L2, L3, M1, …; the inner calls are made
without an error slot, an unexcitable inner shell counts 0); error for Z outside 1..ZMAX, E ≤ 0, a shell outside
K..M5, a shell without fluorescence yield and a shell whose own partial photo-ionisation fails (below the edge, …).

The own partial photo-ionisation enters through `OwnOK`: for every sub-shell `t`, `CS_Photo_Partial(Z, t, E)` meets
the expectation `own t` (for every non-full slot), which is never `.any` and never the value 0.
-/
namespace Xrl
namespace C08
open Spec

set_option linter.unusedSimpArgs false
set_option linter.unusedVariables false
set_option maxRecDepth 16384

/-- what the shell and line theorems assume about the partial photo-ionisation cross sections -/
structure OwnOK (T : Tables ℝ) (Z : Int) (E : ℝ) (own : Int → Expect ℝ) : Prop where
  meets : ∀ (t : Int) (error : Slot), error.isFull = false →
    Meets (Gen.CS_Photo_Partial T Z t E error) error (own t)
  ne_any : ∀ t, own t ≠ .any
  ne_zero : ∀ t o, own t = .value o → o ≠ 0

theorem vacancy_ne_any {T : Tables ℝ} {Z t : Int} {v : Variant} {P : Int → ℝ} {own : Expect ℝ} (h : own ≠ .any) :
    vacancyProd T Z t v P own ≠ .any := by
  cases own <;> cases v <;> simp_all [vacancyProd]

theorem null_of_meets {r : M (ℝ × Slot)} {x : Expect ℝ} {p : ℝ} (h : Meets r Slot.null x) (hx : x ≠ .any)
    (hp : p = valOr0 x) : r = Except.ok (p, Slot.null) := by
  rw [hp]; exact C10.meets_null h hx

/-- tail of every branch: the last vacancyProd call through the caller's slot, times the yield -/
theorem shell_tail (error : Slot) {r : M (ℝ × Slot)} {x : Expect ℝ} (y : ℝ) (h : Meets r error x) :
    Meets (do let rN ← r; if deq rN.1 (0.0 : ℝ) then pure ((0.0 : ℝ), rN.2) else pure (rN.1 * y, rN.2)) error
      (scaleBy y x) := by
  rcases Meets.cases h with ⟨p, rfl, hr⟩ | ⟨rfl, e, h1, h2, hr⟩ | rfl
  · simp only [hr, bind_ok, pure_eq_ok, deq_real, zero_lit, Meets, Returns, scaleBy]
    by_cases hp : p = 0
    · simp [hp]
    · simp [hp]
  · simp only [hr, bind_ok, pure_eq_ok, deq_real, zero_lit, if_true, Meets, scaleBy]
    exact fails_of_eq h1 h2 rfl
  · trivial

/-- head of every branch: the fluorescence yield through the caller's slot -/
theorem shell_head (T : Tables ℝ) (Z : Int) (error : Slot) (he : error.isFull = false) (k : Int)
    (body : ℝ × Slot → M (ℝ × Slot)) (sp : ℝ → Expect ℝ)
    (hbody : ∀ y, Meets (body (y, error)) error (sp y)) :
    Meets (do let r ← Gen.FluorYield T Z k error
              if deq r.1 (0.0 : ℝ) then pure ((0.0 : ℝ), r.2) else body r) error
      (withYield (Spec.FluorYield T Z k) sp) := by
  have mY := C01.lookup_spec_FluorYield T Z k error he
  rcases Meets.cases mY with ⟨y, hy, ry⟩ | ⟨hy, e, h1, h2, ry⟩ | hany
  · have ypos : y ≠ 0 := by
      unfold Spec.FluorYield lookup2 at hy
      split_ifs at hy with hc
      injection hy with hy
      rw [← hy]; have := hc.2.2; norm_num at this; exact this.ne'
    simp only [hy, ry, bind_ok, pure_eq_ok, deq_real, zero_lit, ypos, if_false, withYield]
    exact hbody y
  · simp only [hy, ry, bind_ok, pure_eq_ok, deq_real, zero_lit, if_true, Meets, withYield]
    exact fails_of_eq h1 h2 rfl
  · exact absurd hany (by unfold Spec.FluorYield; exact lookup2_ne_any)

variable (T : Tables ℝ) (Z : Int) (E : ℝ) (P : Int → ℝ) (error : Slot) (own : Int → Expect ℝ)

/-! ## the inner calls (no error slot) return the inner-shell values -/

theorem null_K (ho : OwnOK T Z E own) (v : Variant) (h : P 0 = valOr0 (vacancyProd T Z 0 v P (own 0))) :
    Gen.CS_Photo_Partial T Z 0 E Slot.null = Except.ok (P 0, Slot.null) :=
  null_of_meets (ho.meets 0 Slot.null rfl) (ho.ne_any 0) (by rw [h, vacancy_K])

theorem null_L1_none (ho : OwnOK T Z E own) (h : P 1 = valOr0 (vacancyProd T Z 1 .none P (own 1))) :
    Gen.PL1_pure_kissel T Z E Slot.null = Except.ok (P 1, Slot.null) :=
  null_of_meets (vacancy_spec_L1_none T Z E P Slot.null (own 1) (ho.meets 1 Slot.null rfl) (ho.ne_any 1))
    (vacancy_ne_any (ho.ne_any 1)) h

theorem null_L2_none (ho : OwnOK T Z E own) (h : P 2 = valOr0 (vacancyProd T Z 2 .none P (own 2))) :
    Gen.PL2_pure_kissel T Z E (P 1) Slot.null = Except.ok (P 2, Slot.null) :=
  null_of_meets (vacancy_spec_L2_none T Z E P Slot.null (own 2) (ho.meets 2 Slot.null rfl) (ho.ne_any 2) (ho.ne_zero 2))
    (vacancy_ne_any (ho.ne_any 2)) h

theorem null_L3_none (ho : OwnOK T Z E own) (h : P 3 = valOr0 (vacancyProd T Z 3 .none P (own 3))) :
    Gen.PL3_pure_kissel T Z E (P 1) (P 2) Slot.null = Except.ok (P 3, Slot.null) :=
  null_of_meets (vacancy_spec_L3_none T Z E P Slot.null (own 3) (ho.meets 3 Slot.null rfl) (ho.ne_any 3) (ho.ne_zero 3))
    (vacancy_ne_any (ho.ne_any 3)) h

theorem null_M1_none (ho : OwnOK T Z E own) (h : P 4 = valOr0 (vacancyProd T Z 4 .none P (own 4))) :
    Gen.PM1_pure_kissel T Z E Slot.null = Except.ok (P 4, Slot.null) :=
  null_of_meets (vacancy_spec_M1_none T Z E P Slot.null (own 4) (ho.meets 4 Slot.null rfl) (ho.ne_any 4))
    (vacancy_ne_any (ho.ne_any 4)) h

theorem null_M2_none (ho : OwnOK T Z E own) (h : P 5 = valOr0 (vacancyProd T Z 5 .none P (own 5))) :
    Gen.PM2_pure_kissel T Z E (P 4) Slot.null = Except.ok (P 5, Slot.null) :=
  null_of_meets (vacancy_spec_M2_none T Z E P Slot.null (own 5) (ho.meets 5 Slot.null rfl) (ho.ne_any 5) (ho.ne_zero 5))
    (vacancy_ne_any (ho.ne_any 5)) h

theorem null_M3_none (ho : OwnOK T Z E own) (h : P 6 = valOr0 (vacancyProd T Z 6 .none P (own 6))) :
    Gen.PM3_pure_kissel T Z E (P 4) (P 5) Slot.null = Except.ok (P 6, Slot.null) :=
  null_of_meets (vacancy_spec_M3_none T Z E P Slot.null (own 6) (ho.meets 6 Slot.null rfl) (ho.ne_any 6) (ho.ne_zero 6))
    (vacancy_ne_any (ho.ne_any 6)) h

theorem null_M4_none (ho : OwnOK T Z E own) (h : P 7 = valOr0 (vacancyProd T Z 7 .none P (own 7))) :
    Gen.PM4_pure_kissel T Z E (P 4) (P 5) (P 6) Slot.null = Except.ok (P 7, Slot.null) :=
  null_of_meets (vacancy_spec_M4_none T Z E P Slot.null (own 7) (ho.meets 7 Slot.null rfl) (ho.ne_any 7) (ho.ne_zero 7))
    (vacancy_ne_any (ho.ne_any 7)) h

theorem null_M5_none (ho : OwnOK T Z E own) (h : P 8 = valOr0 (vacancyProd T Z 8 .none P (own 8))) :
    Gen.PM5_pure_kissel T Z E (P 4) (P 5) (P 6) (P 7) Slot.null = Except.ok (P 8, Slot.null) :=
  null_of_meets (vacancy_spec_M5_none T Z E P Slot.null (own 8) (ho.meets 8 Slot.null rfl) (ho.ne_any 8) (ho.ne_zero 8))
    (vacancy_ne_any (ho.ne_any 8)) h

theorem null_L1_rad (ho : OwnOK T Z E own) (h : P 1 = valOr0 (vacancyProd T Z 1 .rad P (own 1))) :
    Gen.PL1_rad_cascade_kissel T Z E (P 0) Slot.null = Except.ok (P 1, Slot.null) :=
  null_of_meets (vacancy_spec_L1_rad T Z E P Slot.null (own 1) (ho.meets 1 Slot.null rfl) (ho.ne_any 1) (ho.ne_zero 1))
    (vacancy_ne_any (ho.ne_any 1)) h

theorem null_L2_rad (ho : OwnOK T Z E own) (h : P 2 = valOr0 (vacancyProd T Z 2 .rad P (own 2))) :
    Gen.PL2_rad_cascade_kissel T Z E (P 0) (P 1) Slot.null = Except.ok (P 2, Slot.null) :=
  null_of_meets (vacancy_spec_L2_rad T Z E P Slot.null (own 2) (ho.meets 2 Slot.null rfl) (ho.ne_any 2) (ho.ne_zero 2))
    (vacancy_ne_any (ho.ne_any 2)) h

theorem null_L3_rad (ho : OwnOK T Z E own) (h : P 3 = valOr0 (vacancyProd T Z 3 .rad P (own 3))) :
    Gen.PL3_rad_cascade_kissel T Z E (P 0) (P 1) (P 2) Slot.null = Except.ok (P 3, Slot.null) :=
  null_of_meets (vacancy_spec_L3_rad T Z E P Slot.null (own 3) (ho.meets 3 Slot.null rfl) (ho.ne_any 3) (ho.ne_zero 3))
    (vacancy_ne_any (ho.ne_any 3)) h

theorem null_M1_rad (ho : OwnOK T Z E own) (h : P 4 = valOr0 (vacancyProd T Z 4 .rad P (own 4))) :
    Gen.PM1_rad_cascade_kissel T Z E (P 0) (P 1) (P 2) (P 3) Slot.null = Except.ok (P 4, Slot.null) :=
  null_of_meets (vacancy_spec_M1_rad T Z E P Slot.null (own 4) (ho.meets 4 Slot.null rfl) (ho.ne_any 4) (ho.ne_zero 4))
    (vacancy_ne_any (ho.ne_any 4)) h

theorem null_M2_rad (ho : OwnOK T Z E own) (h : P 5 = valOr0 (vacancyProd T Z 5 .rad P (own 5))) :
    Gen.PM2_rad_cascade_kissel T Z E (P 0) (P 1) (P 2) (P 3) (P 4) Slot.null = Except.ok (P 5, Slot.null) :=
  null_of_meets (vacancy_spec_M2_rad T Z E P Slot.null (own 5) (ho.meets 5 Slot.null rfl) (ho.ne_any 5) (ho.ne_zero 5))
    (vacancy_ne_any (ho.ne_any 5)) h

theorem null_M3_rad (ho : OwnOK T Z E own) (h : P 6 = valOr0 (vacancyProd T Z 6 .rad P (own 6))) :
    Gen.PM3_rad_cascade_kissel T Z E (P 0) (P 1) (P 2) (P 3) (P 4) (P 5) Slot.null = Except.ok (P 6, Slot.null) :=
  null_of_meets (vacancy_spec_M3_rad T Z E P Slot.null (own 6) (ho.meets 6 Slot.null rfl) (ho.ne_any 6) (ho.ne_zero 6))
    (vacancy_ne_any (ho.ne_any 6)) h

theorem null_M4_rad (ho : OwnOK T Z E own) (h : P 7 = valOr0 (vacancyProd T Z 7 .rad P (own 7))) :
    Gen.PM4_rad_cascade_kissel T Z E (P 0) (P 1) (P 2) (P 3) (P 4) (P 5) (P 6) Slot.null = Except.ok (P 7, Slot.null) :=
  null_of_meets (vacancy_spec_M4_rad T Z E P Slot.null (own 7) (ho.meets 7 Slot.null rfl) (ho.ne_any 7) (ho.ne_zero 7))
    (vacancy_ne_any (ho.ne_any 7)) h

theorem null_M5_rad (ho : OwnOK T Z E own) (h : P 8 = valOr0 (vacancyProd T Z 8 .rad P (own 8))) :
    Gen.PM5_rad_cascade_kissel T Z E (P 0) (P 1) (P 2) (P 3) (P 4) (P 5) (P 6) (P 7) Slot.null = Except.ok (P 8, Slot.null) :=
  null_of_meets (vacancy_spec_M5_rad T Z E P Slot.null (own 8) (ho.meets 8 Slot.null rfl) (ho.ne_any 8) (ho.ne_zero 8))
    (vacancy_ne_any (ho.ne_any 8)) h

theorem null_L1_auger (ho : OwnOK T Z E own) (hZ : 0 ≤ Z ∧ Z ≤ 120) (h : P 1 = valOr0 (vacancyProd T Z 1 .auger P (own 1))) :
    Gen.PL1_auger_cascade_kissel T Z E (P 0) Slot.null = Except.ok (P 1, Slot.null) :=
  null_of_meets (vacancy_spec_L1_auger T Z E P Slot.null (own 1) (ho.meets 1 Slot.null rfl) (ho.ne_any 1) (ho.ne_zero 1) (fun _ _ => hZ))
    (vacancy_ne_any (ho.ne_any 1)) h

theorem null_L2_auger (ho : OwnOK T Z E own) (hZ : 0 ≤ Z ∧ Z ≤ 120) (h : P 2 = valOr0 (vacancyProd T Z 2 .auger P (own 2))) :
    Gen.PL2_auger_cascade_kissel T Z E (P 0) (P 1) Slot.null = Except.ok (P 2, Slot.null) :=
  null_of_meets (vacancy_spec_L2_auger T Z E P Slot.null (own 2) (ho.meets 2 Slot.null rfl) (ho.ne_any 2) (ho.ne_zero 2) (fun _ _ => hZ))
    (vacancy_ne_any (ho.ne_any 2)) h

theorem null_L3_auger (ho : OwnOK T Z E own) (hZ : 0 ≤ Z ∧ Z ≤ 120) (h : P 3 = valOr0 (vacancyProd T Z 3 .auger P (own 3))) :
    Gen.PL3_auger_cascade_kissel T Z E (P 0) (P 1) (P 2) Slot.null = Except.ok (P 3, Slot.null) :=
  null_of_meets (vacancy_spec_L3_auger T Z E P Slot.null (own 3) (ho.meets 3 Slot.null rfl) (ho.ne_any 3) (ho.ne_zero 3) (fun _ _ => hZ))
    (vacancy_ne_any (ho.ne_any 3)) h

theorem null_M1_auger (ho : OwnOK T Z E own) (hZ : 0 ≤ Z ∧ Z ≤ 120) (h : P 4 = valOr0 (vacancyProd T Z 4 .auger P (own 4))) :
    Gen.PM1_auger_cascade_kissel T Z E (P 0) (P 1) (P 2) (P 3) Slot.null = Except.ok (P 4, Slot.null) :=
  null_of_meets (vacancy_spec_M1_auger T Z E P Slot.null (own 4) (ho.meets 4 Slot.null rfl) (ho.ne_any 4) (ho.ne_zero 4) (fun _ _ => hZ))
    (vacancy_ne_any (ho.ne_any 4)) h

theorem null_M2_auger (ho : OwnOK T Z E own) (hZ : 0 ≤ Z ∧ Z ≤ 120) (h : P 5 = valOr0 (vacancyProd T Z 5 .auger P (own 5))) :
    Gen.PM2_auger_cascade_kissel T Z E (P 0) (P 1) (P 2) (P 3) (P 4) Slot.null = Except.ok (P 5, Slot.null) :=
  null_of_meets (vacancy_spec_M2_auger T Z E P Slot.null (own 5) (ho.meets 5 Slot.null rfl) (ho.ne_any 5) (ho.ne_zero 5) (fun _ _ => hZ))
    (vacancy_ne_any (ho.ne_any 5)) h

theorem null_M3_auger (ho : OwnOK T Z E own) (hZ : 0 ≤ Z ∧ Z ≤ 120) (h : P 6 = valOr0 (vacancyProd T Z 6 .auger P (own 6))) :
    Gen.PM3_auger_cascade_kissel T Z E (P 0) (P 1) (P 2) (P 3) (P 4) (P 5) Slot.null = Except.ok (P 6, Slot.null) :=
  null_of_meets (vacancy_spec_M3_auger T Z E P Slot.null (own 6) (ho.meets 6 Slot.null rfl) (ho.ne_any 6) (ho.ne_zero 6) (fun _ _ => hZ))
    (vacancy_ne_any (ho.ne_any 6)) h

theorem null_M4_auger (ho : OwnOK T Z E own) (hZ : 0 ≤ Z ∧ Z ≤ 120) (h : P 7 = valOr0 (vacancyProd T Z 7 .auger P (own 7))) :
    Gen.PM4_auger_cascade_kissel T Z E (P 0) (P 1) (P 2) (P 3) (P 4) (P 5) (P 6) Slot.null = Except.ok (P 7, Slot.null) :=
  null_of_meets (vacancy_spec_M4_auger T Z E P Slot.null (own 7) (ho.meets 7 Slot.null rfl) (ho.ne_any 7) (ho.ne_zero 7) (fun _ _ => hZ))
    (vacancy_ne_any (ho.ne_any 7)) h

theorem null_M5_auger (ho : OwnOK T Z E own) (hZ : 0 ≤ Z ∧ Z ≤ 120) (h : P 8 = valOr0 (vacancyProd T Z 8 .auger P (own 8))) :
    Gen.PM5_auger_cascade_kissel T Z E (P 0) (P 1) (P 2) (P 3) (P 4) (P 5) (P 6) (P 7) Slot.null = Except.ok (P 8, Slot.null) :=
  null_of_meets (vacancy_spec_M5_auger T Z E P Slot.null (own 8) (ho.meets 8 Slot.null rfl) (ho.ne_any 8) (ho.ne_zero 8) (fun _ _ => hZ))
    (vacancy_ne_any (ho.ne_any 8)) h

theorem null_L1_full (ho : OwnOK T Z E own) (hZ : 0 ≤ Z ∧ Z ≤ 120) (h : P 1 = valOr0 (vacancyProd T Z 1 .full P (own 1))) :
    Gen.PL1_full_cascade_kissel T Z E (P 0) Slot.null = Except.ok (P 1, Slot.null) :=
  null_of_meets (vacancy_spec_L1_full T Z E P Slot.null (own 1) (ho.meets 1 Slot.null rfl) (ho.ne_any 1) (ho.ne_zero 1) (fun _ _ => hZ))
    (vacancy_ne_any (ho.ne_any 1)) h

theorem null_L2_full (ho : OwnOK T Z E own) (hZ : 0 ≤ Z ∧ Z ≤ 120) (h : P 2 = valOr0 (vacancyProd T Z 2 .full P (own 2))) :
    Gen.PL2_full_cascade_kissel T Z E (P 0) (P 1) Slot.null = Except.ok (P 2, Slot.null) :=
  null_of_meets (vacancy_spec_L2_full T Z E P Slot.null (own 2) (ho.meets 2 Slot.null rfl) (ho.ne_any 2) (ho.ne_zero 2) (fun _ _ => hZ))
    (vacancy_ne_any (ho.ne_any 2)) h

theorem null_L3_full (ho : OwnOK T Z E own) (hZ : 0 ≤ Z ∧ Z ≤ 120) (h : P 3 = valOr0 (vacancyProd T Z 3 .full P (own 3))) :
    Gen.PL3_full_cascade_kissel T Z E (P 0) (P 1) (P 2) Slot.null = Except.ok (P 3, Slot.null) :=
  null_of_meets (vacancy_spec_L3_full T Z E P Slot.null (own 3) (ho.meets 3 Slot.null rfl) (ho.ne_any 3) (ho.ne_zero 3) (fun _ _ => hZ))
    (vacancy_ne_any (ho.ne_any 3)) h

theorem null_M1_full (ho : OwnOK T Z E own) (hZ : 0 ≤ Z ∧ Z ≤ 120) (h : P 4 = valOr0 (vacancyProd T Z 4 .full P (own 4))) :
    Gen.PM1_full_cascade_kissel T Z E (P 0) (P 1) (P 2) (P 3) Slot.null = Except.ok (P 4, Slot.null) :=
  null_of_meets (vacancy_spec_M1_full T Z E P Slot.null (own 4) (ho.meets 4 Slot.null rfl) (ho.ne_any 4) (ho.ne_zero 4) (fun _ _ => hZ))
    (vacancy_ne_any (ho.ne_any 4)) h

theorem null_M2_full (ho : OwnOK T Z E own) (hZ : 0 ≤ Z ∧ Z ≤ 120) (h : P 5 = valOr0 (vacancyProd T Z 5 .full P (own 5))) :
    Gen.PM2_full_cascade_kissel T Z E (P 0) (P 1) (P 2) (P 3) (P 4) Slot.null = Except.ok (P 5, Slot.null) :=
  null_of_meets (vacancy_spec_M2_full T Z E P Slot.null (own 5) (ho.meets 5 Slot.null rfl) (ho.ne_any 5) (ho.ne_zero 5) (fun _ _ => hZ))
    (vacancy_ne_any (ho.ne_any 5)) h

theorem null_M3_full (ho : OwnOK T Z E own) (hZ : 0 ≤ Z ∧ Z ≤ 120) (h : P 6 = valOr0 (vacancyProd T Z 6 .full P (own 6))) :
    Gen.PM3_full_cascade_kissel T Z E (P 0) (P 1) (P 2) (P 3) (P 4) (P 5) Slot.null = Except.ok (P 6, Slot.null) :=
  null_of_meets (vacancy_spec_M3_full T Z E P Slot.null (own 6) (ho.meets 6 Slot.null rfl) (ho.ne_any 6) (ho.ne_zero 6) (fun _ _ => hZ))
    (vacancy_ne_any (ho.ne_any 6)) h

theorem null_M4_full (ho : OwnOK T Z E own) (hZ : 0 ≤ Z ∧ Z ≤ 120) (h : P 7 = valOr0 (vacancyProd T Z 7 .full P (own 7))) :
    Gen.PM4_full_cascade_kissel T Z E (P 0) (P 1) (P 2) (P 3) (P 4) (P 5) (P 6) Slot.null = Except.ok (P 7, Slot.null) :=
  null_of_meets (vacancy_spec_M4_full T Z E P Slot.null (own 7) (ho.meets 7 Slot.null rfl) (ho.ne_any 7) (ho.ne_zero 7) (fun _ _ => hZ))
    (vacancy_ne_any (ho.ne_any 7)) h

theorem null_M5_full (ho : OwnOK T Z E own) (hZ : 0 ≤ Z ∧ Z ≤ 120) (h : P 8 = valOr0 (vacancyProd T Z 8 .full P (own 8))) :
    Gen.PM5_full_cascade_kissel T Z E (P 0) (P 1) (P 2) (P 3) (P 4) (P 5) (P 6) (P 7) Slot.null = Except.ok (P 8, Slot.null) :=
  null_of_meets (vacancy_spec_M5_full T Z E P Slot.null (own 8) (ho.meets 8 Slot.null rfl) (ho.ne_any 8) (ho.ne_zero 8) (fun _ _ => hZ))
    (vacancy_ne_any (ho.ne_any 8)) h

/-! ## one branch per (variant, shell) -/

theorem shell_none_0 (he : error.isFull = false) (ho : OwnOK T Z E own) (hZ1 : ¬ (Z < 1 ∨ Z > 120)) (hE : ¬ E ≤ (0.0 : ℝ))
    (hP : ∀ j, 0 ≤ j → j < 0 → P j = valOr0 (vacancyProd T Z j .none P (own j))) :
    Meets (Gen.CS_FluorShell_Kissel_no_Cascade T Z 0 E error) error
      (withYield (Spec.FluorYield T Z 0) (fun y => scaleBy y (vacancyProd T Z 0 .none P (own 0)))) := by
  have hZ : 0 ≤ Z ∧ Z ≤ 120 := by omega
  unfold Gen.CS_FluorShell_Kissel_no_Cascade
  simp only [hZ1, hE, ↓reduceIte, Int.reduceEq]
  refine shell_head T Z error he 0 _ _ (fun y => ?_)
  exact shell_tail error y (by rw [vacancy_K]; exact ho.meets 0 error he)

theorem shell_none_1 (he : error.isFull = false) (ho : OwnOK T Z E own) (hZ1 : ¬ (Z < 1 ∨ Z > 120)) (hE : ¬ E ≤ (0.0 : ℝ))
    (hP : ∀ j, 0 ≤ j → j < 1 → P j = valOr0 (vacancyProd T Z j .none P (own j))) :
    Meets (Gen.CS_FluorShell_Kissel_no_Cascade T Z 1 E error) error
      (withYield (Spec.FluorYield T Z 1) (fun y => scaleBy y (vacancyProd T Z 1 .none P (own 1)))) := by
  have hZ : 0 ≤ Z ∧ Z ≤ 120 := by omega
  unfold Gen.CS_FluorShell_Kissel_no_Cascade
  simp only [hZ1, hE, ↓reduceIte, Int.reduceEq]
  refine shell_head T Z error he 1 _ _ (fun y => ?_)
  exact shell_tail error y (vacancy_spec_L1_none T Z E P error (own 1) (ho.meets 1 error he) (ho.ne_any 1))

theorem shell_none_2 (he : error.isFull = false) (ho : OwnOK T Z E own) (hZ1 : ¬ (Z < 1 ∨ Z > 120)) (hE : ¬ E ≤ (0.0 : ℝ))
    (hP : ∀ j, 0 ≤ j → j < 2 → P j = valOr0 (vacancyProd T Z j .none P (own j))) :
    Meets (Gen.CS_FluorShell_Kissel_no_Cascade T Z 2 E error) error
      (withYield (Spec.FluorYield T Z 2) (fun y => scaleBy y (vacancyProd T Z 2 .none P (own 2)))) := by
  have hZ : 0 ≤ Z ∧ Z ≤ 120 := by omega
  unfold Gen.CS_FluorShell_Kissel_no_Cascade
  simp only [hZ1, hE, ↓reduceIte, Int.reduceEq]
  refine shell_head T Z error he 2 _ _ (fun y => ?_)
  simp only [null_L1_none T Z E P own ho (hP 1 (by norm_num) (by norm_num)), bind_ok]
  exact shell_tail error y (vacancy_spec_L2_none T Z E P error (own 2) (ho.meets 2 error he) (ho.ne_any 2) (ho.ne_zero 2))

theorem shell_none_3 (he : error.isFull = false) (ho : OwnOK T Z E own) (hZ1 : ¬ (Z < 1 ∨ Z > 120)) (hE : ¬ E ≤ (0.0 : ℝ))
    (hP : ∀ j, 0 ≤ j → j < 3 → P j = valOr0 (vacancyProd T Z j .none P (own j))) :
    Meets (Gen.CS_FluorShell_Kissel_no_Cascade T Z 3 E error) error
      (withYield (Spec.FluorYield T Z 3) (fun y => scaleBy y (vacancyProd T Z 3 .none P (own 3)))) := by
  have hZ : 0 ≤ Z ∧ Z ≤ 120 := by omega
  unfold Gen.CS_FluorShell_Kissel_no_Cascade
  simp only [hZ1, hE, ↓reduceIte, Int.reduceEq]
  refine shell_head T Z error he 3 _ _ (fun y => ?_)
  simp only [null_L1_none T Z E P own ho (hP 1 (by norm_num) (by norm_num)), null_L2_none T Z E P own ho (hP 2 (by norm_num) (by norm_num)), bind_ok]
  exact shell_tail error y (vacancy_spec_L3_none T Z E P error (own 3) (ho.meets 3 error he) (ho.ne_any 3) (ho.ne_zero 3))

theorem shell_none_4 (he : error.isFull = false) (ho : OwnOK T Z E own) (hZ1 : ¬ (Z < 1 ∨ Z > 120)) (hE : ¬ E ≤ (0.0 : ℝ))
    (hP : ∀ j, 0 ≤ j → j < 4 → P j = valOr0 (vacancyProd T Z j .none P (own j))) :
    Meets (Gen.CS_FluorShell_Kissel_no_Cascade T Z 4 E error) error
      (withYield (Spec.FluorYield T Z 4) (fun y => scaleBy y (vacancyProd T Z 4 .none P (own 4)))) := by
  have hZ : 0 ≤ Z ∧ Z ≤ 120 := by omega
  unfold Gen.CS_FluorShell_Kissel_no_Cascade
  simp only [hZ1, hE, ↓reduceIte, Int.reduceEq]
  refine shell_head T Z error he 4 _ _ (fun y => ?_)
  exact shell_tail error y (vacancy_spec_M1_none T Z E P error (own 4) (ho.meets 4 error he) (ho.ne_any 4))

theorem shell_none_5 (he : error.isFull = false) (ho : OwnOK T Z E own) (hZ1 : ¬ (Z < 1 ∨ Z > 120)) (hE : ¬ E ≤ (0.0 : ℝ))
    (hP : ∀ j, 0 ≤ j → j < 5 → P j = valOr0 (vacancyProd T Z j .none P (own j))) :
    Meets (Gen.CS_FluorShell_Kissel_no_Cascade T Z 5 E error) error
      (withYield (Spec.FluorYield T Z 5) (fun y => scaleBy y (vacancyProd T Z 5 .none P (own 5)))) := by
  have hZ : 0 ≤ Z ∧ Z ≤ 120 := by omega
  unfold Gen.CS_FluorShell_Kissel_no_Cascade
  simp only [hZ1, hE, ↓reduceIte, Int.reduceEq]
  refine shell_head T Z error he 5 _ _ (fun y => ?_)
  simp only [null_M1_none T Z E P own ho (hP 4 (by norm_num) (by norm_num)), bind_ok]
  exact shell_tail error y (vacancy_spec_M2_none T Z E P error (own 5) (ho.meets 5 error he) (ho.ne_any 5) (ho.ne_zero 5))

theorem shell_none_6 (he : error.isFull = false) (ho : OwnOK T Z E own) (hZ1 : ¬ (Z < 1 ∨ Z > 120)) (hE : ¬ E ≤ (0.0 : ℝ))
    (hP : ∀ j, 0 ≤ j → j < 6 → P j = valOr0 (vacancyProd T Z j .none P (own j))) :
    Meets (Gen.CS_FluorShell_Kissel_no_Cascade T Z 6 E error) error
      (withYield (Spec.FluorYield T Z 6) (fun y => scaleBy y (vacancyProd T Z 6 .none P (own 6)))) := by
  have hZ : 0 ≤ Z ∧ Z ≤ 120 := by omega
  unfold Gen.CS_FluorShell_Kissel_no_Cascade
  simp only [hZ1, hE, ↓reduceIte, Int.reduceEq]
  refine shell_head T Z error he 6 _ _ (fun y => ?_)
  simp only [null_M1_none T Z E P own ho (hP 4 (by norm_num) (by norm_num)), null_M2_none T Z E P own ho (hP 5 (by norm_num) (by norm_num)), bind_ok]
  exact shell_tail error y (vacancy_spec_M3_none T Z E P error (own 6) (ho.meets 6 error he) (ho.ne_any 6) (ho.ne_zero 6))

theorem shell_none_7 (he : error.isFull = false) (ho : OwnOK T Z E own) (hZ1 : ¬ (Z < 1 ∨ Z > 120)) (hE : ¬ E ≤ (0.0 : ℝ))
    (hP : ∀ j, 0 ≤ j → j < 7 → P j = valOr0 (vacancyProd T Z j .none P (own j))) :
    Meets (Gen.CS_FluorShell_Kissel_no_Cascade T Z 7 E error) error
      (withYield (Spec.FluorYield T Z 7) (fun y => scaleBy y (vacancyProd T Z 7 .none P (own 7)))) := by
  have hZ : 0 ≤ Z ∧ Z ≤ 120 := by omega
  unfold Gen.CS_FluorShell_Kissel_no_Cascade
  simp only [hZ1, hE, ↓reduceIte, Int.reduceEq]
  refine shell_head T Z error he 7 _ _ (fun y => ?_)
  simp only [null_M1_none T Z E P own ho (hP 4 (by norm_num) (by norm_num)), null_M2_none T Z E P own ho (hP 5 (by norm_num) (by norm_num)), null_M3_none T Z E P own ho (hP 6 (by norm_num) (by norm_num)), bind_ok]
  exact shell_tail error y (vacancy_spec_M4_none T Z E P error (own 7) (ho.meets 7 error he) (ho.ne_any 7) (ho.ne_zero 7))

theorem shell_none_8 (he : error.isFull = false) (ho : OwnOK T Z E own) (hZ1 : ¬ (Z < 1 ∨ Z > 120)) (hE : ¬ E ≤ (0.0 : ℝ))
    (hP : ∀ j, 0 ≤ j → j < 8 → P j = valOr0 (vacancyProd T Z j .none P (own j))) :
    Meets (Gen.CS_FluorShell_Kissel_no_Cascade T Z 8 E error) error
      (withYield (Spec.FluorYield T Z 8) (fun y => scaleBy y (vacancyProd T Z 8 .none P (own 8)))) := by
  have hZ : 0 ≤ Z ∧ Z ≤ 120 := by omega
  unfold Gen.CS_FluorShell_Kissel_no_Cascade
  simp only [hZ1, hE, ↓reduceIte, Int.reduceEq]
  refine shell_head T Z error he 8 _ _ (fun y => ?_)
  simp only [null_M1_none T Z E P own ho (hP 4 (by norm_num) (by norm_num)), null_M2_none T Z E P own ho (hP 5 (by norm_num) (by norm_num)), null_M3_none T Z E P own ho (hP 6 (by norm_num) (by norm_num)), null_M4_none T Z E P own ho (hP 7 (by norm_num) (by norm_num)), bind_ok]
  exact shell_tail error y (vacancy_spec_M5_none T Z E P error (own 8) (ho.meets 8 error he) (ho.ne_any 8) (ho.ne_zero 8))

theorem shell_rad_0 (he : error.isFull = false) (ho : OwnOK T Z E own) (hZ1 : ¬ (Z < 1 ∨ Z > 120)) (hE : ¬ E ≤ (0.0 : ℝ))
    (hP : ∀ j, 0 ≤ j → j < 0 → P j = valOr0 (vacancyProd T Z j .rad P (own j))) :
    Meets (Gen.CS_FluorShell_Kissel_Radiative_Cascade T Z 0 E error) error
      (withYield (Spec.FluorYield T Z 0) (fun y => scaleBy y (vacancyProd T Z 0 .rad P (own 0)))) := by
  have hZ : 0 ≤ Z ∧ Z ≤ 120 := by omega
  unfold Gen.CS_FluorShell_Kissel_Radiative_Cascade
  simp only [hZ1, hE, ↓reduceIte, Int.reduceEq]
  refine shell_head T Z error he 0 _ _ (fun y => ?_)
  exact shell_tail error y (by rw [vacancy_K]; exact ho.meets 0 error he)

theorem shell_rad_1 (he : error.isFull = false) (ho : OwnOK T Z E own) (hZ1 : ¬ (Z < 1 ∨ Z > 120)) (hE : ¬ E ≤ (0.0 : ℝ))
    (hP : ∀ j, 0 ≤ j → j < 1 → P j = valOr0 (vacancyProd T Z j .rad P (own j))) :
    Meets (Gen.CS_FluorShell_Kissel_Radiative_Cascade T Z 1 E error) error
      (withYield (Spec.FluorYield T Z 1) (fun y => scaleBy y (vacancyProd T Z 1 .rad P (own 1)))) := by
  have hZ : 0 ≤ Z ∧ Z ≤ 120 := by omega
  unfold Gen.CS_FluorShell_Kissel_Radiative_Cascade
  simp only [hZ1, hE, ↓reduceIte, Int.reduceEq]
  refine shell_head T Z error he 1 _ _ (fun y => ?_)
  simp only [null_K T Z E P own ho .rad (hP 0 (by norm_num) (by norm_num)), bind_ok]
  exact shell_tail error y (vacancy_spec_L1_rad T Z E P error (own 1) (ho.meets 1 error he) (ho.ne_any 1) (ho.ne_zero 1))

theorem shell_rad_2 (he : error.isFull = false) (ho : OwnOK T Z E own) (hZ1 : ¬ (Z < 1 ∨ Z > 120)) (hE : ¬ E ≤ (0.0 : ℝ))
    (hP : ∀ j, 0 ≤ j → j < 2 → P j = valOr0 (vacancyProd T Z j .rad P (own j))) :
    Meets (Gen.CS_FluorShell_Kissel_Radiative_Cascade T Z 2 E error) error
      (withYield (Spec.FluorYield T Z 2) (fun y => scaleBy y (vacancyProd T Z 2 .rad P (own 2)))) := by
  have hZ : 0 ≤ Z ∧ Z ≤ 120 := by omega
  unfold Gen.CS_FluorShell_Kissel_Radiative_Cascade
  simp only [hZ1, hE, ↓reduceIte, Int.reduceEq]
  refine shell_head T Z error he 2 _ _ (fun y => ?_)
  simp only [null_K T Z E P own ho .rad (hP 0 (by norm_num) (by norm_num)), null_L1_rad T Z E P own ho (hP 1 (by norm_num) (by norm_num)), bind_ok]
  exact shell_tail error y (vacancy_spec_L2_rad T Z E P error (own 2) (ho.meets 2 error he) (ho.ne_any 2) (ho.ne_zero 2))

theorem shell_rad_3 (he : error.isFull = false) (ho : OwnOK T Z E own) (hZ1 : ¬ (Z < 1 ∨ Z > 120)) (hE : ¬ E ≤ (0.0 : ℝ))
    (hP : ∀ j, 0 ≤ j → j < 3 → P j = valOr0 (vacancyProd T Z j .rad P (own j))) :
    Meets (Gen.CS_FluorShell_Kissel_Radiative_Cascade T Z 3 E error) error
      (withYield (Spec.FluorYield T Z 3) (fun y => scaleBy y (vacancyProd T Z 3 .rad P (own 3)))) := by
  have hZ : 0 ≤ Z ∧ Z ≤ 120 := by omega
  unfold Gen.CS_FluorShell_Kissel_Radiative_Cascade
  simp only [hZ1, hE, ↓reduceIte, Int.reduceEq]
  refine shell_head T Z error he 3 _ _ (fun y => ?_)
  simp only [null_K T Z E P own ho .rad (hP 0 (by norm_num) (by norm_num)), null_L1_rad T Z E P own ho (hP 1 (by norm_num) (by norm_num)), null_L2_rad T Z E P own ho (hP 2 (by norm_num) (by norm_num)), bind_ok]
  exact shell_tail error y (vacancy_spec_L3_rad T Z E P error (own 3) (ho.meets 3 error he) (ho.ne_any 3) (ho.ne_zero 3))

theorem shell_rad_4 (he : error.isFull = false) (ho : OwnOK T Z E own) (hZ1 : ¬ (Z < 1 ∨ Z > 120)) (hE : ¬ E ≤ (0.0 : ℝ))
    (hP : ∀ j, 0 ≤ j → j < 4 → P j = valOr0 (vacancyProd T Z j .rad P (own j))) :
    Meets (Gen.CS_FluorShell_Kissel_Radiative_Cascade T Z 4 E error) error
      (withYield (Spec.FluorYield T Z 4) (fun y => scaleBy y (vacancyProd T Z 4 .rad P (own 4)))) := by
  have hZ : 0 ≤ Z ∧ Z ≤ 120 := by omega
  unfold Gen.CS_FluorShell_Kissel_Radiative_Cascade
  simp only [hZ1, hE, ↓reduceIte, Int.reduceEq]
  refine shell_head T Z error he 4 _ _ (fun y => ?_)
  simp only [null_K T Z E P own ho .rad (hP 0 (by norm_num) (by norm_num)), null_L1_rad T Z E P own ho (hP 1 (by norm_num) (by norm_num)), null_L2_rad T Z E P own ho (hP 2 (by norm_num) (by norm_num)), null_L3_rad T Z E P own ho (hP 3 (by norm_num) (by norm_num)), bind_ok]
  exact shell_tail error y (vacancy_spec_M1_rad T Z E P error (own 4) (ho.meets 4 error he) (ho.ne_any 4) (ho.ne_zero 4))

theorem shell_rad_5 (he : error.isFull = false) (ho : OwnOK T Z E own) (hZ1 : ¬ (Z < 1 ∨ Z > 120)) (hE : ¬ E ≤ (0.0 : ℝ))
    (hP : ∀ j, 0 ≤ j → j < 5 → P j = valOr0 (vacancyProd T Z j .rad P (own j))) :
    Meets (Gen.CS_FluorShell_Kissel_Radiative_Cascade T Z 5 E error) error
      (withYield (Spec.FluorYield T Z 5) (fun y => scaleBy y (vacancyProd T Z 5 .rad P (own 5)))) := by
  have hZ : 0 ≤ Z ∧ Z ≤ 120 := by omega
  unfold Gen.CS_FluorShell_Kissel_Radiative_Cascade
  simp only [hZ1, hE, ↓reduceIte, Int.reduceEq]
  refine shell_head T Z error he 5 _ _ (fun y => ?_)
  simp only [null_K T Z E P own ho .rad (hP 0 (by norm_num) (by norm_num)), null_L1_rad T Z E P own ho (hP 1 (by norm_num) (by norm_num)), null_L2_rad T Z E P own ho (hP 2 (by norm_num) (by norm_num)), null_L3_rad T Z E P own ho (hP 3 (by norm_num) (by norm_num)), null_M1_rad T Z E P own ho (hP 4 (by norm_num) (by norm_num)), bind_ok]
  exact shell_tail error y (vacancy_spec_M2_rad T Z E P error (own 5) (ho.meets 5 error he) (ho.ne_any 5) (ho.ne_zero 5))

theorem shell_rad_6 (he : error.isFull = false) (ho : OwnOK T Z E own) (hZ1 : ¬ (Z < 1 ∨ Z > 120)) (hE : ¬ E ≤ (0.0 : ℝ))
    (hP : ∀ j, 0 ≤ j → j < 6 → P j = valOr0 (vacancyProd T Z j .rad P (own j))) :
    Meets (Gen.CS_FluorShell_Kissel_Radiative_Cascade T Z 6 E error) error
      (withYield (Spec.FluorYield T Z 6) (fun y => scaleBy y (vacancyProd T Z 6 .rad P (own 6)))) := by
  have hZ : 0 ≤ Z ∧ Z ≤ 120 := by omega
  unfold Gen.CS_FluorShell_Kissel_Radiative_Cascade
  simp only [hZ1, hE, ↓reduceIte, Int.reduceEq]
  refine shell_head T Z error he 6 _ _ (fun y => ?_)
  simp only [null_K T Z E P own ho .rad (hP 0 (by norm_num) (by norm_num)), null_L1_rad T Z E P own ho (hP 1 (by norm_num) (by norm_num)), null_L2_rad T Z E P own ho (hP 2 (by norm_num) (by norm_num)), null_L3_rad T Z E P own ho (hP 3 (by norm_num) (by norm_num)), null_M1_rad T Z E P own ho (hP 4 (by norm_num) (by norm_num)), null_M2_rad T Z E P own ho (hP 5 (by norm_num) (by norm_num)), bind_ok]
  exact shell_tail error y (vacancy_spec_M3_rad T Z E P error (own 6) (ho.meets 6 error he) (ho.ne_any 6) (ho.ne_zero 6))

theorem shell_rad_7 (he : error.isFull = false) (ho : OwnOK T Z E own) (hZ1 : ¬ (Z < 1 ∨ Z > 120)) (hE : ¬ E ≤ (0.0 : ℝ))
    (hP : ∀ j, 0 ≤ j → j < 7 → P j = valOr0 (vacancyProd T Z j .rad P (own j))) :
    Meets (Gen.CS_FluorShell_Kissel_Radiative_Cascade T Z 7 E error) error
      (withYield (Spec.FluorYield T Z 7) (fun y => scaleBy y (vacancyProd T Z 7 .rad P (own 7)))) := by
  have hZ : 0 ≤ Z ∧ Z ≤ 120 := by omega
  unfold Gen.CS_FluorShell_Kissel_Radiative_Cascade
  simp only [hZ1, hE, ↓reduceIte, Int.reduceEq]
  refine shell_head T Z error he 7 _ _ (fun y => ?_)
  simp only [null_K T Z E P own ho .rad (hP 0 (by norm_num) (by norm_num)), null_L1_rad T Z E P own ho (hP 1 (by norm_num) (by norm_num)), null_L2_rad T Z E P own ho (hP 2 (by norm_num) (by norm_num)), null_L3_rad T Z E P own ho (hP 3 (by norm_num) (by norm_num)), null_M1_rad T Z E P own ho (hP 4 (by norm_num) (by norm_num)), null_M2_rad T Z E P own ho (hP 5 (by norm_num) (by norm_num)), null_M3_rad T Z E P own ho (hP 6 (by norm_num) (by norm_num)), bind_ok]
  exact shell_tail error y (vacancy_spec_M4_rad T Z E P error (own 7) (ho.meets 7 error he) (ho.ne_any 7) (ho.ne_zero 7))

theorem shell_rad_8 (he : error.isFull = false) (ho : OwnOK T Z E own) (hZ1 : ¬ (Z < 1 ∨ Z > 120)) (hE : ¬ E ≤ (0.0 : ℝ))
    (hP : ∀ j, 0 ≤ j → j < 8 → P j = valOr0 (vacancyProd T Z j .rad P (own j))) :
    Meets (Gen.CS_FluorShell_Kissel_Radiative_Cascade T Z 8 E error) error
      (withYield (Spec.FluorYield T Z 8) (fun y => scaleBy y (vacancyProd T Z 8 .rad P (own 8)))) := by
  have hZ : 0 ≤ Z ∧ Z ≤ 120 := by omega
  unfold Gen.CS_FluorShell_Kissel_Radiative_Cascade
  simp only [hZ1, hE, ↓reduceIte, Int.reduceEq]
  refine shell_head T Z error he 8 _ _ (fun y => ?_)
  simp only [null_K T Z E P own ho .rad (hP 0 (by norm_num) (by norm_num)), null_L1_rad T Z E P own ho (hP 1 (by norm_num) (by norm_num)), null_L2_rad T Z E P own ho (hP 2 (by norm_num) (by norm_num)), null_L3_rad T Z E P own ho (hP 3 (by norm_num) (by norm_num)), null_M1_rad T Z E P own ho (hP 4 (by norm_num) (by norm_num)), null_M2_rad T Z E P own ho (hP 5 (by norm_num) (by norm_num)), null_M3_rad T Z E P own ho (hP 6 (by norm_num) (by norm_num)), null_M4_rad T Z E P own ho (hP 7 (by norm_num) (by norm_num)), bind_ok]
  exact shell_tail error y (vacancy_spec_M5_rad T Z E P error (own 8) (ho.meets 8 error he) (ho.ne_any 8) (ho.ne_zero 8))

theorem shell_auger_0 (he : error.isFull = false) (ho : OwnOK T Z E own) (hZ1 : ¬ (Z < 1 ∨ Z > 120)) (hE : ¬ E ≤ (0.0 : ℝ))
    (hP : ∀ j, 0 ≤ j → j < 0 → P j = valOr0 (vacancyProd T Z j .auger P (own j))) :
    Meets (Gen.CS_FluorShell_Kissel_Nonradiative_Cascade T Z 0 E error) error
      (withYield (Spec.FluorYield T Z 0) (fun y => scaleBy y (vacancyProd T Z 0 .auger P (own 0)))) := by
  have hZ : 0 ≤ Z ∧ Z ≤ 120 := by omega
  unfold Gen.CS_FluorShell_Kissel_Nonradiative_Cascade
  simp only [hZ1, hE, ↓reduceIte, Int.reduceEq]
  refine shell_head T Z error he 0 _ _ (fun y => ?_)
  exact shell_tail error y (by rw [vacancy_K]; exact ho.meets 0 error he)

theorem shell_auger_1 (he : error.isFull = false) (ho : OwnOK T Z E own) (hZ1 : ¬ (Z < 1 ∨ Z > 120)) (hE : ¬ E ≤ (0.0 : ℝ))
    (hP : ∀ j, 0 ≤ j → j < 1 → P j = valOr0 (vacancyProd T Z j .auger P (own j))) :
    Meets (Gen.CS_FluorShell_Kissel_Nonradiative_Cascade T Z 1 E error) error
      (withYield (Spec.FluorYield T Z 1) (fun y => scaleBy y (vacancyProd T Z 1 .auger P (own 1)))) := by
  have hZ : 0 ≤ Z ∧ Z ≤ 120 := by omega
  unfold Gen.CS_FluorShell_Kissel_Nonradiative_Cascade
  simp only [hZ1, hE, ↓reduceIte, Int.reduceEq]
  refine shell_head T Z error he 1 _ _ (fun y => ?_)
  simp only [null_K T Z E P own ho .auger (hP 0 (by norm_num) (by norm_num)), bind_ok]
  exact shell_tail error y (vacancy_spec_L1_auger T Z E P error (own 1) (ho.meets 1 error he) (ho.ne_any 1) (ho.ne_zero 1) (fun _ _ => hZ))

theorem shell_auger_2 (he : error.isFull = false) (ho : OwnOK T Z E own) (hZ1 : ¬ (Z < 1 ∨ Z > 120)) (hE : ¬ E ≤ (0.0 : ℝ))
    (hP : ∀ j, 0 ≤ j → j < 2 → P j = valOr0 (vacancyProd T Z j .auger P (own j))) :
    Meets (Gen.CS_FluorShell_Kissel_Nonradiative_Cascade T Z 2 E error) error
      (withYield (Spec.FluorYield T Z 2) (fun y => scaleBy y (vacancyProd T Z 2 .auger P (own 2)))) := by
  have hZ : 0 ≤ Z ∧ Z ≤ 120 := by omega
  unfold Gen.CS_FluorShell_Kissel_Nonradiative_Cascade
  simp only [hZ1, hE, ↓reduceIte, Int.reduceEq]
  refine shell_head T Z error he 2 _ _ (fun y => ?_)
  simp only [null_K T Z E P own ho .auger (hP 0 (by norm_num) (by norm_num)), null_L1_auger T Z E P own ho hZ (hP 1 (by norm_num) (by norm_num)), bind_ok]
  exact shell_tail error y (vacancy_spec_L2_auger T Z E P error (own 2) (ho.meets 2 error he) (ho.ne_any 2) (ho.ne_zero 2) (fun _ _ => hZ))

theorem shell_auger_3 (he : error.isFull = false) (ho : OwnOK T Z E own) (hZ1 : ¬ (Z < 1 ∨ Z > 120)) (hE : ¬ E ≤ (0.0 : ℝ))
    (hP : ∀ j, 0 ≤ j → j < 3 → P j = valOr0 (vacancyProd T Z j .auger P (own j))) :
    Meets (Gen.CS_FluorShell_Kissel_Nonradiative_Cascade T Z 3 E error) error
      (withYield (Spec.FluorYield T Z 3) (fun y => scaleBy y (vacancyProd T Z 3 .auger P (own 3)))) := by
  have hZ : 0 ≤ Z ∧ Z ≤ 120 := by omega
  unfold Gen.CS_FluorShell_Kissel_Nonradiative_Cascade
  simp only [hZ1, hE, ↓reduceIte, Int.reduceEq]
  refine shell_head T Z error he 3 _ _ (fun y => ?_)
  simp only [null_K T Z E P own ho .auger (hP 0 (by norm_num) (by norm_num)), null_L1_auger T Z E P own ho hZ (hP 1 (by norm_num) (by norm_num)), null_L2_auger T Z E P own ho hZ (hP 2 (by norm_num) (by norm_num)), bind_ok]
  exact shell_tail error y (vacancy_spec_L3_auger T Z E P error (own 3) (ho.meets 3 error he) (ho.ne_any 3) (ho.ne_zero 3) (fun _ _ => hZ))

theorem shell_auger_4 (he : error.isFull = false) (ho : OwnOK T Z E own) (hZ1 : ¬ (Z < 1 ∨ Z > 120)) (hE : ¬ E ≤ (0.0 : ℝ))
    (hP : ∀ j, 0 ≤ j → j < 4 → P j = valOr0 (vacancyProd T Z j .auger P (own j))) :
    Meets (Gen.CS_FluorShell_Kissel_Nonradiative_Cascade T Z 4 E error) error
      (withYield (Spec.FluorYield T Z 4) (fun y => scaleBy y (vacancyProd T Z 4 .auger P (own 4)))) := by
  have hZ : 0 ≤ Z ∧ Z ≤ 120 := by omega
  unfold Gen.CS_FluorShell_Kissel_Nonradiative_Cascade
  simp only [hZ1, hE, ↓reduceIte, Int.reduceEq]
  refine shell_head T Z error he 4 _ _ (fun y => ?_)
  simp only [null_K T Z E P own ho .auger (hP 0 (by norm_num) (by norm_num)), null_L1_auger T Z E P own ho hZ (hP 1 (by norm_num) (by norm_num)), null_L2_auger T Z E P own ho hZ (hP 2 (by norm_num) (by norm_num)), null_L3_auger T Z E P own ho hZ (hP 3 (by norm_num) (by norm_num)), bind_ok]
  exact shell_tail error y (vacancy_spec_M1_auger T Z E P error (own 4) (ho.meets 4 error he) (ho.ne_any 4) (ho.ne_zero 4) (fun _ _ => hZ))

theorem shell_auger_5 (he : error.isFull = false) (ho : OwnOK T Z E own) (hZ1 : ¬ (Z < 1 ∨ Z > 120)) (hE : ¬ E ≤ (0.0 : ℝ))
    (hP : ∀ j, 0 ≤ j → j < 5 → P j = valOr0 (vacancyProd T Z j .auger P (own j))) :
    Meets (Gen.CS_FluorShell_Kissel_Nonradiative_Cascade T Z 5 E error) error
      (withYield (Spec.FluorYield T Z 5) (fun y => scaleBy y (vacancyProd T Z 5 .auger P (own 5)))) := by
  have hZ : 0 ≤ Z ∧ Z ≤ 120 := by omega
  unfold Gen.CS_FluorShell_Kissel_Nonradiative_Cascade
  simp only [hZ1, hE, ↓reduceIte, Int.reduceEq]
  refine shell_head T Z error he 5 _ _ (fun y => ?_)
  simp only [null_K T Z E P own ho .auger (hP 0 (by norm_num) (by norm_num)), null_L1_auger T Z E P own ho hZ (hP 1 (by norm_num) (by norm_num)), null_L2_auger T Z E P own ho hZ (hP 2 (by norm_num) (by norm_num)), null_L3_auger T Z E P own ho hZ (hP 3 (by norm_num) (by norm_num)), null_M1_auger T Z E P own ho hZ (hP 4 (by norm_num) (by norm_num)), bind_ok]
  exact shell_tail error y (vacancy_spec_M2_auger T Z E P error (own 5) (ho.meets 5 error he) (ho.ne_any 5) (ho.ne_zero 5) (fun _ _ => hZ))

theorem shell_auger_6 (he : error.isFull = false) (ho : OwnOK T Z E own) (hZ1 : ¬ (Z < 1 ∨ Z > 120)) (hE : ¬ E ≤ (0.0 : ℝ))
    (hP : ∀ j, 0 ≤ j → j < 6 → P j = valOr0 (vacancyProd T Z j .auger P (own j))) :
    Meets (Gen.CS_FluorShell_Kissel_Nonradiative_Cascade T Z 6 E error) error
      (withYield (Spec.FluorYield T Z 6) (fun y => scaleBy y (vacancyProd T Z 6 .auger P (own 6)))) := by
  have hZ : 0 ≤ Z ∧ Z ≤ 120 := by omega
  unfold Gen.CS_FluorShell_Kissel_Nonradiative_Cascade
  simp only [hZ1, hE, ↓reduceIte, Int.reduceEq]
  refine shell_head T Z error he 6 _ _ (fun y => ?_)
  simp only [null_K T Z E P own ho .auger (hP 0 (by norm_num) (by norm_num)), null_L1_auger T Z E P own ho hZ (hP 1 (by norm_num) (by norm_num)), null_L2_auger T Z E P own ho hZ (hP 2 (by norm_num) (by norm_num)), null_L3_auger T Z E P own ho hZ (hP 3 (by norm_num) (by norm_num)), null_M1_auger T Z E P own ho hZ (hP 4 (by norm_num) (by norm_num)), null_M2_auger T Z E P own ho hZ (hP 5 (by norm_num) (by norm_num)), bind_ok]
  exact shell_tail error y (vacancy_spec_M3_auger T Z E P error (own 6) (ho.meets 6 error he) (ho.ne_any 6) (ho.ne_zero 6) (fun _ _ => hZ))

theorem shell_auger_7 (he : error.isFull = false) (ho : OwnOK T Z E own) (hZ1 : ¬ (Z < 1 ∨ Z > 120)) (hE : ¬ E ≤ (0.0 : ℝ))
    (hP : ∀ j, 0 ≤ j → j < 7 → P j = valOr0 (vacancyProd T Z j .auger P (own j))) :
    Meets (Gen.CS_FluorShell_Kissel_Nonradiative_Cascade T Z 7 E error) error
      (withYield (Spec.FluorYield T Z 7) (fun y => scaleBy y (vacancyProd T Z 7 .auger P (own 7)))) := by
  have hZ : 0 ≤ Z ∧ Z ≤ 120 := by omega
  unfold Gen.CS_FluorShell_Kissel_Nonradiative_Cascade
  simp only [hZ1, hE, ↓reduceIte, Int.reduceEq]
  refine shell_head T Z error he 7 _ _ (fun y => ?_)
  simp only [null_K T Z E P own ho .auger (hP 0 (by norm_num) (by norm_num)), null_L1_auger T Z E P own ho hZ (hP 1 (by norm_num) (by norm_num)), null_L2_auger T Z E P own ho hZ (hP 2 (by norm_num) (by norm_num)), null_L3_auger T Z E P own ho hZ (hP 3 (by norm_num) (by norm_num)), null_M1_auger T Z E P own ho hZ (hP 4 (by norm_num) (by norm_num)), null_M2_auger T Z E P own ho hZ (hP 5 (by norm_num) (by norm_num)), null_M3_auger T Z E P own ho hZ (hP 6 (by norm_num) (by norm_num)), bind_ok]
  exact shell_tail error y (vacancy_spec_M4_auger T Z E P error (own 7) (ho.meets 7 error he) (ho.ne_any 7) (ho.ne_zero 7) (fun _ _ => hZ))

theorem shell_auger_8 (he : error.isFull = false) (ho : OwnOK T Z E own) (hZ1 : ¬ (Z < 1 ∨ Z > 120)) (hE : ¬ E ≤ (0.0 : ℝ))
    (hP : ∀ j, 0 ≤ j → j < 8 → P j = valOr0 (vacancyProd T Z j .auger P (own j))) :
    Meets (Gen.CS_FluorShell_Kissel_Nonradiative_Cascade T Z 8 E error) error
      (withYield (Spec.FluorYield T Z 8) (fun y => scaleBy y (vacancyProd T Z 8 .auger P (own 8)))) := by
  have hZ : 0 ≤ Z ∧ Z ≤ 120 := by omega
  unfold Gen.CS_FluorShell_Kissel_Nonradiative_Cascade
  simp only [hZ1, hE, ↓reduceIte, Int.reduceEq]
  refine shell_head T Z error he 8 _ _ (fun y => ?_)
  simp only [null_K T Z E P own ho .auger (hP 0 (by norm_num) (by norm_num)), null_L1_auger T Z E P own ho hZ (hP 1 (by norm_num) (by norm_num)), null_L2_auger T Z E P own ho hZ (hP 2 (by norm_num) (by norm_num)), null_L3_auger T Z E P own ho hZ (hP 3 (by norm_num) (by norm_num)), null_M1_auger T Z E P own ho hZ (hP 4 (by norm_num) (by norm_num)), null_M2_auger T Z E P own ho hZ (hP 5 (by norm_num) (by norm_num)), null_M3_auger T Z E P own ho hZ (hP 6 (by norm_num) (by norm_num)), null_M4_auger T Z E P own ho hZ (hP 7 (by norm_num) (by norm_num)), bind_ok]
  exact shell_tail error y (vacancy_spec_M5_auger T Z E P error (own 8) (ho.meets 8 error he) (ho.ne_any 8) (ho.ne_zero 8) (fun _ _ => hZ))

theorem shell_full_0 (he : error.isFull = false) (ho : OwnOK T Z E own) (hZ1 : ¬ (Z < 1 ∨ Z > 120)) (hE : ¬ E ≤ (0.0 : ℝ))
    (hP : ∀ j, 0 ≤ j → j < 0 → P j = valOr0 (vacancyProd T Z j .full P (own j))) :
    Meets (Gen.CS_FluorShell_Kissel_Cascade T Z 0 E error) error
      (withYield (Spec.FluorYield T Z 0) (fun y => scaleBy y (vacancyProd T Z 0 .full P (own 0)))) := by
  have hZ : 0 ≤ Z ∧ Z ≤ 120 := by omega
  unfold Gen.CS_FluorShell_Kissel_Cascade
  simp only [hZ1, hE, ↓reduceIte, Int.reduceEq]
  refine shell_head T Z error he 0 _ _ (fun y => ?_)
  exact shell_tail error y (by rw [vacancy_K]; exact ho.meets 0 error he)

theorem shell_full_1 (he : error.isFull = false) (ho : OwnOK T Z E own) (hZ1 : ¬ (Z < 1 ∨ Z > 120)) (hE : ¬ E ≤ (0.0 : ℝ))
    (hP : ∀ j, 0 ≤ j → j < 1 → P j = valOr0 (vacancyProd T Z j .full P (own j))) :
    Meets (Gen.CS_FluorShell_Kissel_Cascade T Z 1 E error) error
      (withYield (Spec.FluorYield T Z 1) (fun y => scaleBy y (vacancyProd T Z 1 .full P (own 1)))) := by
  have hZ : 0 ≤ Z ∧ Z ≤ 120 := by omega
  unfold Gen.CS_FluorShell_Kissel_Cascade
  simp only [hZ1, hE, ↓reduceIte, Int.reduceEq]
  refine shell_head T Z error he 1 _ _ (fun y => ?_)
  simp only [null_K T Z E P own ho .full (hP 0 (by norm_num) (by norm_num)), bind_ok]
  exact shell_tail error y (vacancy_spec_L1_full T Z E P error (own 1) (ho.meets 1 error he) (ho.ne_any 1) (ho.ne_zero 1) (fun _ _ => hZ))

theorem shell_full_2 (he : error.isFull = false) (ho : OwnOK T Z E own) (hZ1 : ¬ (Z < 1 ∨ Z > 120)) (hE : ¬ E ≤ (0.0 : ℝ))
    (hP : ∀ j, 0 ≤ j → j < 2 → P j = valOr0 (vacancyProd T Z j .full P (own j))) :
    Meets (Gen.CS_FluorShell_Kissel_Cascade T Z 2 E error) error
      (withYield (Spec.FluorYield T Z 2) (fun y => scaleBy y (vacancyProd T Z 2 .full P (own 2)))) := by
  have hZ : 0 ≤ Z ∧ Z ≤ 120 := by omega
  unfold Gen.CS_FluorShell_Kissel_Cascade
  simp only [hZ1, hE, ↓reduceIte, Int.reduceEq]
  refine shell_head T Z error he 2 _ _ (fun y => ?_)
  simp only [null_K T Z E P own ho .full (hP 0 (by norm_num) (by norm_num)), null_L1_full T Z E P own ho hZ (hP 1 (by norm_num) (by norm_num)), bind_ok]
  exact shell_tail error y (vacancy_spec_L2_full T Z E P error (own 2) (ho.meets 2 error he) (ho.ne_any 2) (ho.ne_zero 2) (fun _ _ => hZ))

theorem shell_full_3 (he : error.isFull = false) (ho : OwnOK T Z E own) (hZ1 : ¬ (Z < 1 ∨ Z > 120)) (hE : ¬ E ≤ (0.0 : ℝ))
    (hP : ∀ j, 0 ≤ j → j < 3 → P j = valOr0 (vacancyProd T Z j .full P (own j))) :
    Meets (Gen.CS_FluorShell_Kissel_Cascade T Z 3 E error) error
      (withYield (Spec.FluorYield T Z 3) (fun y => scaleBy y (vacancyProd T Z 3 .full P (own 3)))) := by
  have hZ : 0 ≤ Z ∧ Z ≤ 120 := by omega
  unfold Gen.CS_FluorShell_Kissel_Cascade
  simp only [hZ1, hE, ↓reduceIte, Int.reduceEq]
  refine shell_head T Z error he 3 _ _ (fun y => ?_)
  simp only [null_K T Z E P own ho .full (hP 0 (by norm_num) (by norm_num)), null_L1_full T Z E P own ho hZ (hP 1 (by norm_num) (by norm_num)), null_L2_full T Z E P own ho hZ (hP 2 (by norm_num) (by norm_num)), bind_ok]
  exact shell_tail error y (vacancy_spec_L3_full T Z E P error (own 3) (ho.meets 3 error he) (ho.ne_any 3) (ho.ne_zero 3) (fun _ _ => hZ))

theorem shell_full_4 (he : error.isFull = false) (ho : OwnOK T Z E own) (hZ1 : ¬ (Z < 1 ∨ Z > 120)) (hE : ¬ E ≤ (0.0 : ℝ))
    (hP : ∀ j, 0 ≤ j → j < 4 → P j = valOr0 (vacancyProd T Z j .full P (own j))) :
    Meets (Gen.CS_FluorShell_Kissel_Cascade T Z 4 E error) error
      (withYield (Spec.FluorYield T Z 4) (fun y => scaleBy y (vacancyProd T Z 4 .full P (own 4)))) := by
  have hZ : 0 ≤ Z ∧ Z ≤ 120 := by omega
  unfold Gen.CS_FluorShell_Kissel_Cascade
  simp only [hZ1, hE, ↓reduceIte, Int.reduceEq]
  refine shell_head T Z error he 4 _ _ (fun y => ?_)
  simp only [null_K T Z E P own ho .full (hP 0 (by norm_num) (by norm_num)), null_L1_full T Z E P own ho hZ (hP 1 (by norm_num) (by norm_num)), null_L2_full T Z E P own ho hZ (hP 2 (by norm_num) (by norm_num)), null_L3_full T Z E P own ho hZ (hP 3 (by norm_num) (by norm_num)), bind_ok]
  exact shell_tail error y (vacancy_spec_M1_full T Z E P error (own 4) (ho.meets 4 error he) (ho.ne_any 4) (ho.ne_zero 4) (fun _ _ => hZ))

theorem shell_full_5 (he : error.isFull = false) (ho : OwnOK T Z E own) (hZ1 : ¬ (Z < 1 ∨ Z > 120)) (hE : ¬ E ≤ (0.0 : ℝ))
    (hP : ∀ j, 0 ≤ j → j < 5 → P j = valOr0 (vacancyProd T Z j .full P (own j))) :
    Meets (Gen.CS_FluorShell_Kissel_Cascade T Z 5 E error) error
      (withYield (Spec.FluorYield T Z 5) (fun y => scaleBy y (vacancyProd T Z 5 .full P (own 5)))) := by
  have hZ : 0 ≤ Z ∧ Z ≤ 120 := by omega
  unfold Gen.CS_FluorShell_Kissel_Cascade
  simp only [hZ1, hE, ↓reduceIte, Int.reduceEq]
  refine shell_head T Z error he 5 _ _ (fun y => ?_)
  simp only [null_K T Z E P own ho .full (hP 0 (by norm_num) (by norm_num)), null_L1_full T Z E P own ho hZ (hP 1 (by norm_num) (by norm_num)), null_L2_full T Z E P own ho hZ (hP 2 (by norm_num) (by norm_num)), null_L3_full T Z E P own ho hZ (hP 3 (by norm_num) (by norm_num)), null_M1_full T Z E P own ho hZ (hP 4 (by norm_num) (by norm_num)), bind_ok]
  exact shell_tail error y (vacancy_spec_M2_full T Z E P error (own 5) (ho.meets 5 error he) (ho.ne_any 5) (ho.ne_zero 5) (fun _ _ => hZ))

theorem shell_full_6 (he : error.isFull = false) (ho : OwnOK T Z E own) (hZ1 : ¬ (Z < 1 ∨ Z > 120)) (hE : ¬ E ≤ (0.0 : ℝ))
    (hP : ∀ j, 0 ≤ j → j < 6 → P j = valOr0 (vacancyProd T Z j .full P (own j))) :
    Meets (Gen.CS_FluorShell_Kissel_Cascade T Z 6 E error) error
      (withYield (Spec.FluorYield T Z 6) (fun y => scaleBy y (vacancyProd T Z 6 .full P (own 6)))) := by
  have hZ : 0 ≤ Z ∧ Z ≤ 120 := by omega
  unfold Gen.CS_FluorShell_Kissel_Cascade
  simp only [hZ1, hE, ↓reduceIte, Int.reduceEq]
  refine shell_head T Z error he 6 _ _ (fun y => ?_)
  simp only [null_K T Z E P own ho .full (hP 0 (by norm_num) (by norm_num)), null_L1_full T Z E P own ho hZ (hP 1 (by norm_num) (by norm_num)), null_L2_full T Z E P own ho hZ (hP 2 (by norm_num) (by norm_num)), null_L3_full T Z E P own ho hZ (hP 3 (by norm_num) (by norm_num)), null_M1_full T Z E P own ho hZ (hP 4 (by norm_num) (by norm_num)), null_M2_full T Z E P own ho hZ (hP 5 (by norm_num) (by norm_num)), bind_ok]
  exact shell_tail error y (vacancy_spec_M3_full T Z E P error (own 6) (ho.meets 6 error he) (ho.ne_any 6) (ho.ne_zero 6) (fun _ _ => hZ))

theorem shell_full_7 (he : error.isFull = false) (ho : OwnOK T Z E own) (hZ1 : ¬ (Z < 1 ∨ Z > 120)) (hE : ¬ E ≤ (0.0 : ℝ))
    (hP : ∀ j, 0 ≤ j → j < 7 → P j = valOr0 (vacancyProd T Z j .full P (own j))) :
    Meets (Gen.CS_FluorShell_Kissel_Cascade T Z 7 E error) error
      (withYield (Spec.FluorYield T Z 7) (fun y => scaleBy y (vacancyProd T Z 7 .full P (own 7)))) := by
  have hZ : 0 ≤ Z ∧ Z ≤ 120 := by omega
  unfold Gen.CS_FluorShell_Kissel_Cascade
  simp only [hZ1, hE, ↓reduceIte, Int.reduceEq]
  refine shell_head T Z error he 7 _ _ (fun y => ?_)
  simp only [null_K T Z E P own ho .full (hP 0 (by norm_num) (by norm_num)), null_L1_full T Z E P own ho hZ (hP 1 (by norm_num) (by norm_num)), null_L2_full T Z E P own ho hZ (hP 2 (by norm_num) (by norm_num)), null_L3_full T Z E P own ho hZ (hP 3 (by norm_num) (by norm_num)), null_M1_full T Z E P own ho hZ (hP 4 (by norm_num) (by norm_num)), null_M2_full T Z E P own ho hZ (hP 5 (by norm_num) (by norm_num)), null_M3_full T Z E P own ho hZ (hP 6 (by norm_num) (by norm_num)), bind_ok]
  exact shell_tail error y (vacancy_spec_M4_full T Z E P error (own 7) (ho.meets 7 error he) (ho.ne_any 7) (ho.ne_zero 7) (fun _ _ => hZ))

theorem shell_full_8 (he : error.isFull = false) (ho : OwnOK T Z E own) (hZ1 : ¬ (Z < 1 ∨ Z > 120)) (hE : ¬ E ≤ (0.0 : ℝ))
    (hP : ∀ j, 0 ≤ j → j < 8 → P j = valOr0 (vacancyProd T Z j .full P (own j))) :
    Meets (Gen.CS_FluorShell_Kissel_Cascade T Z 8 E error) error
      (withYield (Spec.FluorYield T Z 8) (fun y => scaleBy y (vacancyProd T Z 8 .full P (own 8)))) := by
  have hZ : 0 ≤ Z ∧ Z ≤ 120 := by omega
  unfold Gen.CS_FluorShell_Kissel_Cascade
  simp only [hZ1, hE, ↓reduceIte, Int.reduceEq]
  refine shell_head T Z error he 8 _ _ (fun y => ?_)
  simp only [null_K T Z E P own ho .full (hP 0 (by norm_num) (by norm_num)), null_L1_full T Z E P own ho hZ (hP 1 (by norm_num) (by norm_num)), null_L2_full T Z E P own ho hZ (hP 2 (by norm_num) (by norm_num)), null_L3_full T Z E P own ho hZ (hP 3 (by norm_num) (by norm_num)), null_M1_full T Z E P own ho hZ (hP 4 (by norm_num) (by norm_num)), null_M2_full T Z E P own ho hZ (hP 5 (by norm_num) (by norm_num)), null_M3_full T Z E P own ho hZ (hP 6 (by norm_num) (by norm_num)), null_M4_full T Z E P own ho hZ (hP 7 (by norm_num) (by norm_num)), bind_ok]
  exact shell_tail error y (vacancy_spec_M5_full T Z E P error (own 8) (ho.meets 8 error he) (ho.ne_any 8) (ho.ne_zero 8) (fun _ _ => hZ))

/-! ## the five entry points -/

theorem fluorshell_spec_none (shell : Int) (he : error.isFull = false) (ho : OwnOK T Z E own) :
    Meets (Gen.CS_FluorShell_Kissel_no_Cascade T Z shell E error) error (fluorShell T Z shell E .none own) := by
  unfold fluorShell zOk mOk
  simp only [Hdr.ZMAX, Hdr.K_SHELL, Hdr.M5_SHELL]
  by_cases hZ1 : Z < 1 ∨ Z > 120
  · have : ¬ (1 ≤ Z ∧ Z ≤ 120) := by omega
    unfold Gen.CS_FluorShell_Kissel_no_Cascade
    simp only [hZ1, this, ↓reduceIte, decide_false, decide_true, setErr_notFull he, bind_ok, pure_eq_ok, Meets]
    exact fails_mk' (by decide) (by decide)
  · have hZ2 : 1 ≤ Z ∧ Z ≤ 120 := by omega
    by_cases hE : E ≤ (0.0 : ℝ)
    · unfold Gen.CS_FluorShell_Kissel_no_Cascade
      simp only [hZ1, hZ2, hE, and_self, ↓reduceIte, decide_false, decide_true, setErr_notFull he, bind_ok, pure_eq_ok, Meets]
      exact fails_mk' (by decide) (by decide)
    · by_cases hs : 0 ≤ shell ∧ shell ≤ 8
      · simp only [hZ2, hE, hs, and_self, ↓reduceIte, decide_true, Bool.true_eq_false, Bool.false_eq_true]
        have : shell = 0 ∨ shell = 1 ∨ shell = 2 ∨ shell = 3 ∨ shell = 4 ∨ shell = 5 ∨ shell = 6 ∨ shell = 7 ∨ shell = 8 := by omega
        rcases this with h | h | h | h | h | h | h | h | h <;> subst h <;> simp only [Int.reduceToNat]
        · exact shell_none_0 T Z E _ error own he ho hZ1 hE (fun j h0 hj => innerP_fix T Z .none own 0 j h0 (by exact_mod_cast hj))
        · exact shell_none_1 T Z E _ error own he ho hZ1 hE (fun j h0 hj => innerP_fix T Z .none own 1 j h0 (by exact_mod_cast hj))
        · exact shell_none_2 T Z E _ error own he ho hZ1 hE (fun j h0 hj => innerP_fix T Z .none own 2 j h0 (by exact_mod_cast hj))
        · exact shell_none_3 T Z E _ error own he ho hZ1 hE (fun j h0 hj => innerP_fix T Z .none own 3 j h0 (by exact_mod_cast hj))
        · exact shell_none_4 T Z E _ error own he ho hZ1 hE (fun j h0 hj => innerP_fix T Z .none own 4 j h0 (by exact_mod_cast hj))
        · exact shell_none_5 T Z E _ error own he ho hZ1 hE (fun j h0 hj => innerP_fix T Z .none own 5 j h0 (by exact_mod_cast hj))
        · exact shell_none_6 T Z E _ error own he ho hZ1 hE (fun j h0 hj => innerP_fix T Z .none own 6 j h0 (by exact_mod_cast hj))
        · exact shell_none_7 T Z E _ error own he ho hZ1 hE (fun j h0 hj => innerP_fix T Z .none own 7 j h0 (by exact_mod_cast hj))
        · exact shell_none_8 T Z E _ error own he ho hZ1 hE (fun j h0 hj => innerP_fix T Z .none own 8 j h0 (by exact_mod_cast hj))
      · have h0 : shell ≠ 0 := by omega
        have h1 : shell ≠ 1 := by omega
        have h2 : shell ≠ 2 := by omega
        have h3 : shell ≠ 3 := by omega
        have h4 : shell ≠ 4 := by omega
        have h5 : shell ≠ 5 := by omega
        have h6 : shell ≠ 6 := by omega
        have h7 : shell ≠ 7 := by omega
        have h8 : shell ≠ 8 := by omega
        unfold Gen.CS_FluorShell_Kissel_no_Cascade
        simp only [hZ1, hZ2, hE, hs, h0, h1, h2, h3, h4, h5, h6, h7, h8, and_self, ↓reduceIte, decide_false, decide_true,
          Bool.true_eq_false, Bool.false_eq_true, setErr_notFull he, bind_ok, pure_eq_ok, Meets]
        exact fails_mk' (by decide) (by decide)

theorem fluorshell_spec_rad (shell : Int) (he : error.isFull = false) (ho : OwnOK T Z E own) :
    Meets (Gen.CS_FluorShell_Kissel_Radiative_Cascade T Z shell E error) error (fluorShell T Z shell E .rad own) := by
  unfold fluorShell zOk mOk
  simp only [Hdr.ZMAX, Hdr.K_SHELL, Hdr.M5_SHELL]
  by_cases hZ1 : Z < 1 ∨ Z > 120
  · have : ¬ (1 ≤ Z ∧ Z ≤ 120) := by omega
    unfold Gen.CS_FluorShell_Kissel_Radiative_Cascade
    simp only [hZ1, this, ↓reduceIte, decide_false, decide_true, setErr_notFull he, bind_ok, pure_eq_ok, Meets]
    exact fails_mk' (by decide) (by decide)
  · have hZ2 : 1 ≤ Z ∧ Z ≤ 120 := by omega
    by_cases hE : E ≤ (0.0 : ℝ)
    · unfold Gen.CS_FluorShell_Kissel_Radiative_Cascade
      simp only [hZ1, hZ2, hE, and_self, ↓reduceIte, decide_false, decide_true, setErr_notFull he, bind_ok, pure_eq_ok, Meets]
      exact fails_mk' (by decide) (by decide)
    · by_cases hs : 0 ≤ shell ∧ shell ≤ 8
      · simp only [hZ2, hE, hs, and_self, ↓reduceIte, decide_true, Bool.true_eq_false, Bool.false_eq_true]
        have : shell = 0 ∨ shell = 1 ∨ shell = 2 ∨ shell = 3 ∨ shell = 4 ∨ shell = 5 ∨ shell = 6 ∨ shell = 7 ∨ shell = 8 := by omega
        rcases this with h | h | h | h | h | h | h | h | h <;> subst h <;> simp only [Int.reduceToNat]
        · exact shell_rad_0 T Z E _ error own he ho hZ1 hE (fun j h0 hj => innerP_fix T Z .rad own 0 j h0 (by exact_mod_cast hj))
        · exact shell_rad_1 T Z E _ error own he ho hZ1 hE (fun j h0 hj => innerP_fix T Z .rad own 1 j h0 (by exact_mod_cast hj))
        · exact shell_rad_2 T Z E _ error own he ho hZ1 hE (fun j h0 hj => innerP_fix T Z .rad own 2 j h0 (by exact_mod_cast hj))
        · exact shell_rad_3 T Z E _ error own he ho hZ1 hE (fun j h0 hj => innerP_fix T Z .rad own 3 j h0 (by exact_mod_cast hj))
        · exact shell_rad_4 T Z E _ error own he ho hZ1 hE (fun j h0 hj => innerP_fix T Z .rad own 4 j h0 (by exact_mod_cast hj))
        · exact shell_rad_5 T Z E _ error own he ho hZ1 hE (fun j h0 hj => innerP_fix T Z .rad own 5 j h0 (by exact_mod_cast hj))
        · exact shell_rad_6 T Z E _ error own he ho hZ1 hE (fun j h0 hj => innerP_fix T Z .rad own 6 j h0 (by exact_mod_cast hj))
        · exact shell_rad_7 T Z E _ error own he ho hZ1 hE (fun j h0 hj => innerP_fix T Z .rad own 7 j h0 (by exact_mod_cast hj))
        · exact shell_rad_8 T Z E _ error own he ho hZ1 hE (fun j h0 hj => innerP_fix T Z .rad own 8 j h0 (by exact_mod_cast hj))
      · have h0 : shell ≠ 0 := by omega
        have h1 : shell ≠ 1 := by omega
        have h2 : shell ≠ 2 := by omega
        have h3 : shell ≠ 3 := by omega
        have h4 : shell ≠ 4 := by omega
        have h5 : shell ≠ 5 := by omega
        have h6 : shell ≠ 6 := by omega
        have h7 : shell ≠ 7 := by omega
        have h8 : shell ≠ 8 := by omega
        unfold Gen.CS_FluorShell_Kissel_Radiative_Cascade
        simp only [hZ1, hZ2, hE, hs, h0, h1, h2, h3, h4, h5, h6, h7, h8, and_self, ↓reduceIte, decide_false, decide_true,
          Bool.true_eq_false, Bool.false_eq_true, setErr_notFull he, bind_ok, pure_eq_ok, Meets]
        exact fails_mk' (by decide) (by decide)

theorem fluorshell_spec_auger (shell : Int) (he : error.isFull = false) (ho : OwnOK T Z E own) :
    Meets (Gen.CS_FluorShell_Kissel_Nonradiative_Cascade T Z shell E error) error (fluorShell T Z shell E .auger own) := by
  unfold fluorShell zOk mOk
  simp only [Hdr.ZMAX, Hdr.K_SHELL, Hdr.M5_SHELL]
  by_cases hZ1 : Z < 1 ∨ Z > 120
  · have : ¬ (1 ≤ Z ∧ Z ≤ 120) := by omega
    unfold Gen.CS_FluorShell_Kissel_Nonradiative_Cascade
    simp only [hZ1, this, ↓reduceIte, decide_false, decide_true, setErr_notFull he, bind_ok, pure_eq_ok, Meets]
    exact fails_mk' (by decide) (by decide)
  · have hZ2 : 1 ≤ Z ∧ Z ≤ 120 := by omega
    by_cases hE : E ≤ (0.0 : ℝ)
    · unfold Gen.CS_FluorShell_Kissel_Nonradiative_Cascade
      simp only [hZ1, hZ2, hE, and_self, ↓reduceIte, decide_false, decide_true, setErr_notFull he, bind_ok, pure_eq_ok, Meets]
      exact fails_mk' (by decide) (by decide)
    · by_cases hs : 0 ≤ shell ∧ shell ≤ 8
      · simp only [hZ2, hE, hs, and_self, ↓reduceIte, decide_true, Bool.true_eq_false, Bool.false_eq_true]
        have : shell = 0 ∨ shell = 1 ∨ shell = 2 ∨ shell = 3 ∨ shell = 4 ∨ shell = 5 ∨ shell = 6 ∨ shell = 7 ∨ shell = 8 := by omega
        rcases this with h | h | h | h | h | h | h | h | h <;> subst h <;> simp only [Int.reduceToNat]
        · exact shell_auger_0 T Z E _ error own he ho hZ1 hE (fun j h0 hj => innerP_fix T Z .auger own 0 j h0 (by exact_mod_cast hj))
        · exact shell_auger_1 T Z E _ error own he ho hZ1 hE (fun j h0 hj => innerP_fix T Z .auger own 1 j h0 (by exact_mod_cast hj))
        · exact shell_auger_2 T Z E _ error own he ho hZ1 hE (fun j h0 hj => innerP_fix T Z .auger own 2 j h0 (by exact_mod_cast hj))
        · exact shell_auger_3 T Z E _ error own he ho hZ1 hE (fun j h0 hj => innerP_fix T Z .auger own 3 j h0 (by exact_mod_cast hj))
        · exact shell_auger_4 T Z E _ error own he ho hZ1 hE (fun j h0 hj => innerP_fix T Z .auger own 4 j h0 (by exact_mod_cast hj))
        · exact shell_auger_5 T Z E _ error own he ho hZ1 hE (fun j h0 hj => innerP_fix T Z .auger own 5 j h0 (by exact_mod_cast hj))
        · exact shell_auger_6 T Z E _ error own he ho hZ1 hE (fun j h0 hj => innerP_fix T Z .auger own 6 j h0 (by exact_mod_cast hj))
        · exact shell_auger_7 T Z E _ error own he ho hZ1 hE (fun j h0 hj => innerP_fix T Z .auger own 7 j h0 (by exact_mod_cast hj))
        · exact shell_auger_8 T Z E _ error own he ho hZ1 hE (fun j h0 hj => innerP_fix T Z .auger own 8 j h0 (by exact_mod_cast hj))
      · have h0 : shell ≠ 0 := by omega
        have h1 : shell ≠ 1 := by omega
        have h2 : shell ≠ 2 := by omega
        have h3 : shell ≠ 3 := by omega
        have h4 : shell ≠ 4 := by omega
        have h5 : shell ≠ 5 := by omega
        have h6 : shell ≠ 6 := by omega
        have h7 : shell ≠ 7 := by omega
        have h8 : shell ≠ 8 := by omega
        unfold Gen.CS_FluorShell_Kissel_Nonradiative_Cascade
        simp only [hZ1, hZ2, hE, hs, h0, h1, h2, h3, h4, h5, h6, h7, h8, and_self, ↓reduceIte, decide_false, decide_true,
          Bool.true_eq_false, Bool.false_eq_true, setErr_notFull he, bind_ok, pure_eq_ok, Meets]
        exact fails_mk' (by decide) (by decide)

theorem fluorshell_spec_full (shell : Int) (he : error.isFull = false) (ho : OwnOK T Z E own) :
    Meets (Gen.CS_FluorShell_Kissel_Cascade T Z shell E error) error (fluorShell T Z shell E .full own) := by
  unfold fluorShell zOk mOk
  simp only [Hdr.ZMAX, Hdr.K_SHELL, Hdr.M5_SHELL]
  by_cases hZ1 : Z < 1 ∨ Z > 120
  · have : ¬ (1 ≤ Z ∧ Z ≤ 120) := by omega
    unfold Gen.CS_FluorShell_Kissel_Cascade
    simp only [hZ1, this, ↓reduceIte, decide_false, decide_true, setErr_notFull he, bind_ok, pure_eq_ok, Meets]
    exact fails_mk' (by decide) (by decide)
  · have hZ2 : 1 ≤ Z ∧ Z ≤ 120 := by omega
    by_cases hE : E ≤ (0.0 : ℝ)
    · unfold Gen.CS_FluorShell_Kissel_Cascade
      simp only [hZ1, hZ2, hE, and_self, ↓reduceIte, decide_false, decide_true, setErr_notFull he, bind_ok, pure_eq_ok, Meets]
      exact fails_mk' (by decide) (by decide)
    · by_cases hs : 0 ≤ shell ∧ shell ≤ 8
      · simp only [hZ2, hE, hs, and_self, ↓reduceIte, decide_true, Bool.true_eq_false, Bool.false_eq_true]
        have : shell = 0 ∨ shell = 1 ∨ shell = 2 ∨ shell = 3 ∨ shell = 4 ∨ shell = 5 ∨ shell = 6 ∨ shell = 7 ∨ shell = 8 := by omega
        rcases this with h | h | h | h | h | h | h | h | h <;> subst h <;> simp only [Int.reduceToNat]
        · exact shell_full_0 T Z E _ error own he ho hZ1 hE (fun j h0 hj => innerP_fix T Z .full own 0 j h0 (by exact_mod_cast hj))
        · exact shell_full_1 T Z E _ error own he ho hZ1 hE (fun j h0 hj => innerP_fix T Z .full own 1 j h0 (by exact_mod_cast hj))
        · exact shell_full_2 T Z E _ error own he ho hZ1 hE (fun j h0 hj => innerP_fix T Z .full own 2 j h0 (by exact_mod_cast hj))
        · exact shell_full_3 T Z E _ error own he ho hZ1 hE (fun j h0 hj => innerP_fix T Z .full own 3 j h0 (by exact_mod_cast hj))
        · exact shell_full_4 T Z E _ error own he ho hZ1 hE (fun j h0 hj => innerP_fix T Z .full own 4 j h0 (by exact_mod_cast hj))
        · exact shell_full_5 T Z E _ error own he ho hZ1 hE (fun j h0 hj => innerP_fix T Z .full own 5 j h0 (by exact_mod_cast hj))
        · exact shell_full_6 T Z E _ error own he ho hZ1 hE (fun j h0 hj => innerP_fix T Z .full own 6 j h0 (by exact_mod_cast hj))
        · exact shell_full_7 T Z E _ error own he ho hZ1 hE (fun j h0 hj => innerP_fix T Z .full own 7 j h0 (by exact_mod_cast hj))
        · exact shell_full_8 T Z E _ error own he ho hZ1 hE (fun j h0 hj => innerP_fix T Z .full own 8 j h0 (by exact_mod_cast hj))
      · have h0 : shell ≠ 0 := by omega
        have h1 : shell ≠ 1 := by omega
        have h2 : shell ≠ 2 := by omega
        have h3 : shell ≠ 3 := by omega
        have h4 : shell ≠ 4 := by omega
        have h5 : shell ≠ 5 := by omega
        have h6 : shell ≠ 6 := by omega
        have h7 : shell ≠ 7 := by omega
        have h8 : shell ≠ 8 := by omega
        unfold Gen.CS_FluorShell_Kissel_Cascade
        simp only [hZ1, hZ2, hE, hs, h0, h1, h2, h3, h4, h5, h6, h7, h8, and_self, ↓reduceIte, decide_false, decide_true,
          Bool.true_eq_false, Bool.false_eq_true, setErr_notFull he, bind_ok, pure_eq_ok, Meets]
        exact fails_mk' (by decide) (by decide)

/-- the un-suffixed shell function is the full-cascade one -/
theorem unsuffixed_is_full_shell (shell : Int) :
    Gen.CS_FluorShell_Kissel T Z shell E error = Gen.CS_FluorShell_Kissel_Cascade T Z shell E error := by
  unfold Gen.CS_FluorShell_Kissel
  cases Gen.CS_FluorShell_Kissel_Cascade T Z shell E error <;> rfl

theorem fluorshell_spec (shell : Int) (he : error.isFull = false) (ho : OwnOK T Z E own) :
    Meets (Gen.CS_FluorShell_Kissel T Z shell E error) error (fluorShell T Z shell E .full own) := by
  rw [unsuffixed_is_full_shell]; exact fluorshell_spec_full T Z E error own shell he ho

end C08
end Xrl
