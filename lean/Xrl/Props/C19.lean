import Xrl.JGen.Methods
namespace Xrl
namespace C19
end C19
end Xrl
