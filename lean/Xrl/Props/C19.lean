import Xrl.JCore.JSplint
import Xrl.JGen.Methods
import Xrl.Gen.Fns
/-!
# C19 — the Java methods are observationally equivalent to the C functions (numeric core)
-/
set_option linter.unusedSimpArgs false
set_option linter.unusedVariables false
set_option linter.unusedSectionVars false
namespace Xrl
namespace C19

/-- instantiate the Java tables by the C tables (`JTables.ofC`, field by field), the header constants, the `int` ranges -/
macro "jeq_normJ" : tactic =>
  `(tactic| simp only [ofC_ZMAX, ofC_SHELLNUM, ofC_SHELLNUM_K, ofC_SHELLNUM_A, ofC_TRANSNUM, ofC_LINENUM, ofC_AUGERNUM, ofC_RE2, ofC_MEC2, ofC_AVOGNUM, ofC_KEV2ANGST, ofC_R_E, ofC_AtomicWeight_arr, ofC_ElementDensity_arr, ofC_EdgeEnergy_arr, ofC_AtomicLevelWidth_arr, ofC_LineEnergy_arr, ofC_FluorYield_arr, ofC_JumpFactor_arr, ofC_CosKron_arr, ofC_RadRate_arr, ofC_xrf_cross_sections_constants_full, ofC_xrf_cross_sections_constants_auger_only, ofC_NE_Photo_arr, ofC_E_Photo_arr, ofC_CS_Photo_arr, ofC_CS_Photo_arr2, ofC_NE_Rayl_arr, ofC_E_Rayl_arr, ofC_CS_Rayl_arr, ofC_CS_Rayl_arr2, ofC_NE_Compt_arr, ofC_E_Compt_arr, ofC_CS_Compt_arr, ofC_CS_Compt_arr2, ofC_NE_Energy_arr, ofC_E_Energy_arr, ofC_CS_Energy_arr, ofC_CS_Energy_arr2, ofC_Nq_Rayl_arr, ofC_q_Rayl_arr, ofC_FF_Rayl_arr, ofC_FF_Rayl_arr2, ofC_Nq_Compt_arr, ofC_q_Compt_arr, ofC_SF_Compt_arr, ofC_SF_Compt_arr2, ofC_NE_Fi_arr, ofC_E_Fi_arr, ofC_Fi_arr, ofC_Fi_arr2, ofC_NE_Fii_arr, ofC_E_Fii_arr, ofC_Fii_arr, ofC_Fii_arr2, ofC_NE_Photo_Total_Kissel_arr, ofC_Electron_Config_Kissel_arr, ofC_NE_Photo_Partial_Kissel_arr, ofC_E_Photo_Partial_Kissel_arr, ofC_Photo_Partial_Kissel_arr, ofC_Photo_Partial_Kissel_arr2, ofC_NShells_ComptonProfiles_arr, ofC_Npz_ComptonProfiles_arr, ofC_UOCCUP_ComptonProfiles_arr, ofC_pz_ComptonProfiles_arr, ofC_Total_ComptonProfiles_arr, ofC_Total_ComptonProfiles_arr2, ofC_Partial_ComptonProfiles_arr, ofC_Partial_ComptonProfiles_arr2, ofC_Auger_Yields_arr, ofC_Auger_Rates_arr, Hdr.ZMAX, Hdr.SHELLNUM, Hdr.SHELLNUM_K, Hdr.SHELLNUM_A, Hdr.TRANSNUM, Hdr.LINENUM, Hdr.AUGERNUM,
      Hdr.RE2, Hdr.MEC2, Hdr.AVOGNUM, Hdr.KEV2ANGST, Hdr.R_E, inI32, INT_MIN, INT_MAX] at *)
macro "jeq_norm" : tactic =>
  `(tactic| simp only [ofC_ZMAX, ofC_SHELLNUM, ofC_SHELLNUM_K, ofC_SHELLNUM_A, ofC_TRANSNUM, ofC_LINENUM, ofC_AUGERNUM, ofC_RE2, ofC_MEC2, ofC_AVOGNUM, ofC_KEV2ANGST, ofC_R_E, ofC_AtomicWeight_arr, ofC_ElementDensity_arr, ofC_EdgeEnergy_arr, ofC_AtomicLevelWidth_arr, ofC_LineEnergy_arr, ofC_FluorYield_arr, ofC_JumpFactor_arr, ofC_CosKron_arr, ofC_RadRate_arr, ofC_xrf_cross_sections_constants_full, ofC_xrf_cross_sections_constants_auger_only, ofC_NE_Photo_arr, ofC_E_Photo_arr, ofC_CS_Photo_arr, ofC_CS_Photo_arr2, ofC_NE_Rayl_arr, ofC_E_Rayl_arr, ofC_CS_Rayl_arr, ofC_CS_Rayl_arr2, ofC_NE_Compt_arr, ofC_E_Compt_arr, ofC_CS_Compt_arr, ofC_CS_Compt_arr2, ofC_NE_Energy_arr, ofC_E_Energy_arr, ofC_CS_Energy_arr, ofC_CS_Energy_arr2, ofC_Nq_Rayl_arr, ofC_q_Rayl_arr, ofC_FF_Rayl_arr, ofC_FF_Rayl_arr2, ofC_Nq_Compt_arr, ofC_q_Compt_arr, ofC_SF_Compt_arr, ofC_SF_Compt_arr2, ofC_NE_Fi_arr, ofC_E_Fi_arr, ofC_Fi_arr, ofC_Fi_arr2, ofC_NE_Fii_arr, ofC_E_Fii_arr, ofC_Fii_arr, ofC_Fii_arr2, ofC_NE_Photo_Total_Kissel_arr, ofC_Electron_Config_Kissel_arr, ofC_NE_Photo_Partial_Kissel_arr, ofC_E_Photo_Partial_Kissel_arr, ofC_Photo_Partial_Kissel_arr, ofC_Photo_Partial_Kissel_arr2, ofC_NShells_ComptonProfiles_arr, ofC_Npz_ComptonProfiles_arr, ofC_UOCCUP_ComptonProfiles_arr, ofC_pz_ComptonProfiles_arr, ofC_Total_ComptonProfiles_arr, ofC_Total_ComptonProfiles_arr2, ofC_Partial_ComptonProfiles_arr, ofC_Partial_ComptonProfiles_arr2, ofC_Auger_Yields_arr, ofC_Auger_Rates_arr, Hdr.ZMAX, Hdr.SHELLNUM, Hdr.SHELLNUM_K, Hdr.SHELLNUM_A, Hdr.TRANSNUM, Hdr.LINENUM, Hdr.AUGERNUM,
      Hdr.RE2, Hdr.MEC2, Hdr.AVOGNUM, Hdr.KEV2ANGST, Hdr.R_E, setErr_notFull (by assumption), inI32, INT_MIN, INT_MAX] at *)

/-- unfold the generated definitions named, then `jeq_norm` -/
macro "jeq_start" ids:(ppSpace colGt ident)+ : tactic => `(tactic| (unfold $ids*; jeq_norm))
/-- the same for a statement about the Java side alone -/
macro "jeq_startJ" ids:(ppSpace colGt ident)+ : tactic => `(tactic| (unfold $ids*; jeq_normJ))

section accessors
variable (T : Tables ℝ) (Z m : Int) (hZ : inI32 Z) (hm : inI32 m) (s : Slot) (hs : s.isFull = false)
include hZ hs

theorem java_eq_c_AtomicWeight : JRel (JGen.AtomicWeight (JTables.ofC T) Z) (Gen.AtomicWeight T Z s) s := by
  jeq_start JGen.AtomicWeight Gen.AtomicWeight; jeq_auto

theorem java_eq_c_ElementDensity : JRel (JGen.ElementDensity (JTables.ofC T) Z) (Gen.ElementDensity T Z s) s := by
  jeq_start JGen.ElementDensity Gen.ElementDensity; jeq_auto

include hm

theorem java_eq_c_EdgeEnergy : JRel (JGen.EdgeEnergy (JTables.ofC T) Z m) (Gen.EdgeEnergy T Z m s) s := by
  jeq_start JGen.EdgeEnergy Gen.EdgeEnergy; jeq_auto

theorem java_eq_c_AtomicLevelWidth : JRel (JGen.AtomicLevelWidth (JTables.ofC T) Z m) (Gen.AtomicLevelWidth T Z m s) s := by
  jeq_start JGen.AtomicLevelWidth Gen.AtomicLevelWidth; jeq_auto

theorem java_eq_c_FluorYield : JRel (JGen.FluorYield (JTables.ofC T) Z m) (Gen.FluorYield T Z m s) s := by
  jeq_start JGen.FluorYield Gen.FluorYield; jeq_auto

theorem java_eq_c_JumpFactor : JRel (JGen.JumpFactor (JTables.ofC T) Z m) (Gen.JumpFactor T Z m s) s := by
  jeq_start JGen.JumpFactor Gen.JumpFactor; jeq_auto

theorem java_eq_c_CosKronTransProb : JRel (JGen.CosKronTransProb (JTables.ofC T) Z m) (Gen.CosKronTransProb T Z m s) s := by
  jeq_start JGen.CosKronTransProb Gen.CosKronTransProb; jeq_auto

theorem java_eq_c_ElectronConfig : JRel (JGen.ElectronConfig (JTables.ofC T) Z m) (Gen.ElectronConfig T Z m s) s := by
  jeq_start JGen.ElectronConfig Gen.ElectronConfig; jeq_auto

theorem java_eq_c_AugerRate : JRel (JGen.AugerRate (JTables.ofC T) Z m) (Gen.AugerRate T Z m s) s := by
  jeq_start JGen.AugerRate Gen.AugerRate; jeq_auto

theorem java_eq_c_AugerYield : JRel (JGen.AugerYield (JTables.ofC T) Z m) (Gen.AugerYield T Z m s) s := by
  jeq_start JGen.AugerYield Gen.AugerYield; jeq_auto

end accessors

section radrate
variable (T : Tables ℝ) (Z m : Int) (hZ : inI32 Z) (hm : inI32 m) (s : Slot) (hs : s.isFull = false)
include hZ hs

theorem java_eq_c_RadRate_KA (fuel : Nat) :
    JRel (JGen.RadRate_fuel (fuel + 1) (JTables.ofC T) Z 0) (Gen.RadRate_fuel (fuel + 1) T Z 0 s) s := by
  jeq_start JGen.RadRate_fuel Gen.RadRate_fuel
  simp only [loopM_3, jloopM_3]
  jeq_auto

include hm
theorem java_eq_c_RadRate : JRel (JGen.RadRate (JTables.ofC T) Z m) (Gen.RadRate T Z m s) s := by
  unfold JGen.RadRate Gen.RadRate FUEL
  jeq_start JGen.RadRate_fuel Gen.RadRate_fuel
  by_cases hz : Z < 1 ∨ Z > 120
  · jeq_auto
  by_cases h1 : m = 1
  · subst h1
    jeq_simp
    unfold JGen.RadRate_fuel Gen.RadRate_fuel
    simp only [loopM_3, jloopM_3]
    jeq_norm
    jeq_auto
  · simp only [loopM_3, jloopM_3]
    jeq_auto

end radrate

section closed_form
variable (T : Tables ℝ) (E theta phi : ℝ) (s : Slot) (hs : s.isFull = false)
include hs

theorem java_eq_c_DCS_Thoms : JRel (JGen.DCS_Thoms (JTables.ofC T) theta) (Gen.DCS_Thoms T theta s) s := by
  jeq_start JGen.DCS_Thoms Gen.DCS_Thoms; jeq_auto

theorem java_eq_c_DCS_KN : JRel (JGen.DCS_KN (JTables.ofC T) E theta) (Gen.DCS_KN T E theta s) s := by
  jeq_start JGen.DCS_KN Gen.DCS_KN; jeq_auto

theorem java_eq_c_MomentTransf : JRel (JGen.MomentTransf (JTables.ofC T) E theta) (Gen.MomentTransf T E theta s) s := by
  jeq_start JGen.MomentTransf Gen.MomentTransf; jeq_auto

theorem java_eq_c_CS_KN : JRel (JGen.CS_KN (JTables.ofC T) E) (Gen.CS_KN T E s) s := by
  jeq_start JGen.CS_KN Gen.CS_KN; jeq_auto

theorem java_eq_c_ComptonEnergy : JRel (JGen.ComptonEnergy (JTables.ofC T) E theta) (Gen.ComptonEnergy T E theta s) s := by
  jeq_start JGen.ComptonEnergy Gen.ComptonEnergy; jeq_auto

theorem java_eq_c_DCSP_KN : JRel (JGen.DCSP_KN (JTables.ofC T) E theta phi) (Gen.DCSP_KN T E theta phi s) s := by
  jeq_start JGen.DCSP_KN Gen.DCSP_KN; jeq_auto

theorem java_eq_c_DCSP_Thoms : JRel (JGen.DCSP_Thoms (JTables.ofC T) theta phi) (Gen.DCSP_Thoms T theta phi s) s := by
  jeq_start JGen.DCSP_Thoms Gen.DCSP_Thoms; jeq_auto

end closed_form

section spline
variable (T : Tables ℝ) (Z : Int) (hZ : inI32 Z) (E : ℝ) (s : Slot) (hs : s.isFull = false)
include hZ hs

theorem java_eq_c_CS_Photo (hN : inI32 (T.NE_Photo Z.toNat)) : JRel (JGen.CS_Photo (JTables.ofC T) Z E) (Gen.CS_Photo T Z E s) s := by
  rcases (jsplint_rel_vec (JTables.ofC T) (T.E_Photo_arr Z.toNat) (T.CS_Photo_arr Z.toNat) (T.CS_Photo_arr2 Z.toNat) (T.NE_Photo Z.toNat) hN
    (Real.log (E * 1000.0)) s hs).cases with ⟨y, hc, hj⟩ | ⟨e, hc, hj⟩ | ⟨a, b, hc, hj⟩ | ⟨a, hc⟩ <;>
  (jeq_start JGen.CS_Photo Gen.CS_Photo JGen.CS_Factory; jeq_auto)

theorem java_eq_c_CS_Rayl (hN : inI32 (T.NE_Rayl Z.toNat)) : JRel (JGen.CS_Rayl (JTables.ofC T) Z E) (Gen.CS_Rayl T Z E s) s := by
  rcases (jsplint_rel_vec (JTables.ofC T) (T.E_Rayl_arr Z.toNat) (T.CS_Rayl_arr Z.toNat) (T.CS_Rayl_arr2 Z.toNat) (T.NE_Rayl Z.toNat) hN
    (Real.log (E * 1000.0)) s hs).cases with ⟨y, hc, hj⟩ | ⟨e, hc, hj⟩ | ⟨a, b, hc, hj⟩ | ⟨a, hc⟩ <;>
  (jeq_start JGen.CS_Rayl Gen.CS_Rayl JGen.CS_Factory; jeq_auto)

theorem java_eq_c_CS_Compt (hN : inI32 (T.NE_Compt Z.toNat)) : JRel (JGen.CS_Compt (JTables.ofC T) Z E) (Gen.CS_Compt T Z E s) s := by
  rcases (jsplint_rel_vec (JTables.ofC T) (T.E_Compt_arr Z.toNat) (T.CS_Compt_arr Z.toNat) (T.CS_Compt_arr2 Z.toNat) (T.NE_Compt Z.toNat) hN
    (Real.log (E * 1000.0)) s hs).cases with ⟨y, hc, hj⟩ | ⟨e, hc, hj⟩ | ⟨a, b, hc, hj⟩ | ⟨a, hc⟩ <;>
  (jeq_start JGen.CS_Compt Gen.CS_Compt JGen.CS_Factory; jeq_auto)

theorem java_eq_c_FF_Rayl (hN : inI32 (T.Nq_Rayl Z.toNat)) : JRel (JGen.FF_Rayl (JTables.ofC T) Z E) (Gen.FF_Rayl T Z E s) s := by
  rcases (jsplint_rel_vec (JTables.ofC T) (T.q_Rayl_arr Z.toNat) (T.FF_Rayl_arr Z.toNat) (T.FF_Rayl_arr2 Z.toNat) (T.Nq_Rayl Z.toNat) hN
    (E) s hs).cases with ⟨y, hc, hj⟩ | ⟨e, hc, hj⟩ | ⟨a, b, hc, hj⟩ | ⟨a, hc⟩ <;>
  (jeq_start JGen.FF_Rayl Gen.FF_Rayl; jeq_auto)

theorem java_eq_c_SF_Compt (hN : inI32 (T.Nq_Compt Z.toNat)) : JRel (JGen.SF_Compt (JTables.ofC T) Z E) (Gen.SF_Compt T Z E s) s := by
  rcases (jsplint_rel_vec (JTables.ofC T) (T.q_Compt_arr Z.toNat) (T.SF_Compt_arr Z.toNat) (T.SF_Compt_arr2 Z.toNat) (T.Nq_Compt Z.toNat) hN
    (E) s hs).cases with ⟨y, hc, hj⟩ | ⟨e, hc, hj⟩ | ⟨a, b, hc, hj⟩ | ⟨a, hc⟩ <;>
  (jeq_start JGen.SF_Compt Gen.SF_Compt; jeq_auto)

theorem java_eq_c_Fii (hN : inI32 (T.NE_Fii Z.toNat)) : JRel (JGen.Fii (JTables.ofC T) Z E) (Gen.Fii T Z E s) s := by
  rcases (jsplint_rel_vec (JTables.ofC T) (T.E_Fii_arr Z.toNat) (T.Fii_arr Z.toNat) (T.Fii_arr2 Z.toNat) (T.NE_Fii Z.toNat) hN
    (E) s hs).cases with ⟨y, hc, hj⟩ | ⟨e, hc, hj⟩ | ⟨a, b, hc, hj⟩ | ⟨a, hc⟩ <;>
  (jeq_start JGen.Fii Gen.Fii; jeq_auto)

theorem java_eq_c_ComptonProfile (hN : inI32 (T.Npz_ComptonProfiles Z.toNat)) : JRel (JGen.ComptonProfile (JTables.ofC T) Z E) (Gen.ComptonProfile T Z E s) s := by
  rcases (jsplint_rel_vec (JTables.ofC T) (T.pz_ComptonProfiles Z.toNat) (T.Total_ComptonProfiles Z.toNat) (T.Total_ComptonProfiles2 Z.toNat) (T.Npz_ComptonProfiles Z.toNat) hN
    (Real.log (E + 1.0)) s hs).cases with ⟨y, hc, hj⟩ | ⟨e, hc, hj⟩ | ⟨a, b, hc, hj⟩ | ⟨a, hc⟩ <;>
  (jeq_start JGen.ComptonProfile Gen.ComptonProfile; jeq_auto)

end spline

section composite
variable (T : Tables ℝ) (Z : Int) (hZ : inI32 Z) (E : ℝ) (s : Slot) (hs : s.isFull = false)
include hZ

theorem java_pos_CS_Photo : JPos (JGen.CS_Photo (JTables.ofC T) Z E) := by
  jeq_startJ JGen.CS_Photo JGen.CS_Factory
  rcases hj : JGen.splint (JTables.ofC T) (jvec (T.NE_Photo Z.toNat) (T.E_Photo_arr Z.toNat)) (jvec (T.NE_Photo Z.toNat) (T.CS_Photo_arr Z.toNat))
    (jvec (T.NE_Photo Z.toNat) (T.CS_Photo_arr2 Z.toNat)) (T.NE_Photo Z.toNat) (Real.log (E * 1000.0)) with e | y <;> jpos_auto

theorem java_pos_CS_Rayl : JPos (JGen.CS_Rayl (JTables.ofC T) Z E) := by
  jeq_startJ JGen.CS_Rayl JGen.CS_Factory
  rcases hj : JGen.splint (JTables.ofC T) (jvec (T.NE_Rayl Z.toNat) (T.E_Rayl_arr Z.toNat)) (jvec (T.NE_Rayl Z.toNat) (T.CS_Rayl_arr Z.toNat))
    (jvec (T.NE_Rayl Z.toNat) (T.CS_Rayl_arr2 Z.toNat)) (T.NE_Rayl Z.toNat) (Real.log (E * 1000.0)) with e | y <;> jpos_auto

theorem java_pos_CS_Compt : JPos (JGen.CS_Compt (JTables.ofC T) Z E) := by
  jeq_startJ JGen.CS_Compt JGen.CS_Factory
  rcases hj : JGen.splint (JTables.ofC T) (jvec (T.NE_Compt Z.toNat) (T.E_Compt_arr Z.toNat)) (jvec (T.NE_Compt Z.toNat) (T.CS_Compt_arr Z.toNat))
    (jvec (T.NE_Compt Z.toNat) (T.CS_Compt_arr2 Z.toNat)) (T.NE_Compt Z.toNat) (Real.log (E * 1000.0)) with e | y <;> jpos_auto

include hs
theorem java_eq_c_CS_Total (hN1 : inI32 (T.NE_Photo Z.toNat)) (hN2 : inI32 (T.NE_Rayl Z.toNat)) (hN3 : inI32 (T.NE_Compt Z.toNat)) :
    JRel (JGen.CS_Total (JTables.ofC T) Z E) (Gen.CS_Total T Z E s) s := by
  jeq_start JGen.CS_Total Gen.CS_Total
  jeq_use_pos (java_eq_c_CS_Photo T Z hZ E s hs hN1), (java_pos_CS_Photo T Z hZ E)
  jeq_use_pos (java_eq_c_CS_Rayl T Z hZ E s hs hN2), (java_pos_CS_Rayl T Z hZ E)
  jeq_use_pos (java_eq_c_CS_Compt T Z hZ E s hs hN3), (java_pos_CS_Compt T Z hZ E)
  jeq_auto
end composite

section diff
variable (T : Tables ℝ) (Z : Int) (hZ : inI32 Z) (E theta phi : ℝ) (s : Slot) (hs : s.isFull = false)
include hZ hs

theorem java_eq_c_DCS_Rayl (hN : inI32 (T.Nq_Rayl Z.toNat))
    (haw : ∀ v, JGen.FF_Rayl (JTables.ofC T) Z (E / 12.3984193 * XNum.sin (theta / 2.0)) = .ok v → 0 ≤ T.AtomicWeight_arr Z.toNat) :
    JRel (JGen.DCS_Rayl (JTables.ofC T) Z E theta) (Gen.DCS_Rayl T Z E theta s) s := by
  jeq_start JGen.DCS_Rayl Gen.DCS_Rayl JGen.MomentTransf Gen.MomentTransf JGen.DCS_Thoms Gen.DCS_Thoms Gen.AtomicWeight
  by_cases hz : Z < 1 ∨ Z > 120
  · jeq_auto
  by_cases hE : E ≤ 0
  · jeq_auto
  jeq_simp
  jeq_use (java_eq_c_FF_Rayl T Z hZ (E / 12.3984193 * XNum.sin (theta / 2.0)) Slot.empty rfl hN)
  have h0 := haw _ (by assumption)
  jeq_auto

theorem java_eq_c_DCS_Compt (hN : inI32 (T.Nq_Compt Z.toNat))
    (haw : ∀ v, JGen.SF_Compt (JTables.ofC T) Z (E / 12.3984193 * XNum.sin (theta / 2.0)) = .ok v → 0 ≤ T.AtomicWeight_arr Z.toNat) :
    JRel (JGen.DCS_Compt (JTables.ofC T) Z E theta) (Gen.DCS_Compt T Z E theta s) s := by
  jeq_start JGen.DCS_Compt Gen.DCS_Compt JGen.MomentTransf Gen.MomentTransf JGen.DCS_KN Gen.DCS_KN Gen.AtomicWeight
  by_cases hz : Z < 1 ∨ Z > 120
  · jeq_auto
  by_cases hE : E ≤ 0
  · jeq_auto
  jeq_simp
  jeq_use (java_eq_c_SF_Compt T Z hZ (E / 12.3984193 * XNum.sin (theta / 2.0)) Slot.empty rfl hN)
  have h0 := haw _ (by assumption)
  jeq_auto

theorem java_eq_c_DCSP_Rayl (hN : inI32 (T.Nq_Rayl Z.toNat))
    (haw : ∀ v, JGen.FF_Rayl (JTables.ofC T) Z (E / 12.3984193 * XNum.sin (theta / 2.0)) = .ok v → 0 < T.AtomicWeight_arr Z.toNat) :
    JRel (JGen.DCSP_Rayl (JTables.ofC T) Z E theta phi) (Gen.DCSP_Rayl T Z E theta phi s) s := by
  jeq_start JGen.DCSP_Rayl Gen.DCSP_Rayl JGen.MomentTransf Gen.MomentTransf JGen.DCSP_Thoms Gen.DCSP_Thoms JGen.AtomicWeight Gen.AtomicWeight
  by_cases hz : Z < 1 ∨ Z > 120
  · jeq_auto
  by_cases hE : E ≤ 0
  · jeq_auto
  jeq_simp
  jeq_use (java_eq_c_FF_Rayl T Z hZ (E / 12.3984193 * XNum.sin (theta / 2.0)) Slot.empty rfl hN)
  have h0 := haw _ (by assumption)
  jeq_auto

theorem java_eq_c_DCSP_Compt (hN : inI32 (T.Nq_Compt Z.toNat))
    (haw : ∀ v, JGen.SF_Compt (JTables.ofC T) Z (E / 12.3984193 * XNum.sin (theta / 2.0)) = .ok v → 0 < T.AtomicWeight_arr Z.toNat) :
    JRel (JGen.DCSP_Compt (JTables.ofC T) Z E theta phi) (Gen.DCSP_Compt T Z E theta phi s) s := by
  jeq_start JGen.DCSP_Compt Gen.DCSP_Compt JGen.MomentTransf Gen.MomentTransf JGen.DCSP_KN Gen.DCSP_KN JGen.AtomicWeight Gen.AtomicWeight
  by_cases hz : Z < 1 ∨ Z > 120
  · jeq_auto
  by_cases hE : E ≤ 0
  · jeq_auto
  jeq_simp
  jeq_use (java_eq_c_SF_Compt T Z hZ (E / 12.3984193 * XNum.sin (theta / 2.0)) Slot.empty rfl hN)
  have h0 := haw _ (by assumption)
  jeq_auto
end diff

section barns
variable (T : Tables ℝ) (Z : Int) (hZ : inI32 Z) (E theta phi : ℝ) (s : Slot) (hs : s.isFull = false)
include hZ hs

theorem java_eq_c_CSb_Photo (hN : inI32 (T.NE_Photo Z.toNat))
    (haw : ∀ v, JGen.CS_Photo (JTables.ofC T) Z E = .ok v → 0 < T.AtomicWeight_arr Z.toNat) :
    JRel (JGen.CSb_Photo (JTables.ofC T) Z E) (Gen.CSb_Photo T Z E s) s := by
  by_cases hz : Z < 1 ∨ Z > 120
  · jeq_start JGen.CSb_Photo Gen.CSb_Photo JGen.CS_Photo Gen.CS_Photo JGen.CS_Factory; jeq_auto
  · jeq_start JGen.CSb_Photo Gen.CSb_Photo Gen.AtomicWeight
    jeq_use (java_eq_c_CS_Photo T Z hZ E s hs hN)
    have h0 := haw _ (by assumption)
    jeq_auto

theorem java_eq_c_CSb_Rayl (hN : inI32 (T.NE_Rayl Z.toNat))
    (haw : ∀ v, JGen.CS_Rayl (JTables.ofC T) Z E = .ok v → 0 < T.AtomicWeight_arr Z.toNat) :
    JRel (JGen.CSb_Rayl (JTables.ofC T) Z E) (Gen.CSb_Rayl T Z E s) s := by
  by_cases hz : Z < 1 ∨ Z > 120
  · jeq_start JGen.CSb_Rayl Gen.CSb_Rayl JGen.CS_Rayl Gen.CS_Rayl JGen.CS_Factory; jeq_auto
  · jeq_start JGen.CSb_Rayl Gen.CSb_Rayl Gen.AtomicWeight
    jeq_use (java_eq_c_CS_Rayl T Z hZ E s hs hN)
    have h0 := haw _ (by assumption)
    jeq_auto

theorem java_eq_c_CSb_Compt (hN : inI32 (T.NE_Compt Z.toNat))
    (haw : ∀ v, JGen.CS_Compt (JTables.ofC T) Z E = .ok v → 0 < T.AtomicWeight_arr Z.toNat) :
    JRel (JGen.CSb_Compt (JTables.ofC T) Z E) (Gen.CSb_Compt T Z E s) s := by
  by_cases hz : Z < 1 ∨ Z > 120
  · jeq_start JGen.CSb_Compt Gen.CSb_Compt JGen.CS_Compt Gen.CS_Compt JGen.CS_Factory; jeq_auto
  · jeq_start JGen.CSb_Compt Gen.CSb_Compt Gen.AtomicWeight
    jeq_use (java_eq_c_CS_Compt T Z hZ E s hs hN)
    have h0 := haw _ (by assumption)
    jeq_auto

theorem java_eq_c_CSb_Total (hN1 : inI32 (T.NE_Photo Z.toNat)) (hN2 : inI32 (T.NE_Rayl Z.toNat)) (hN3 : inI32 (T.NE_Compt Z.toNat))
    (haw : ∀ v, JGen.CS_Total (JTables.ofC T) Z E = .ok v → 0 < T.AtomicWeight_arr Z.toNat) :
    JRel (JGen.CSb_Total (JTables.ofC T) Z E) (Gen.CSb_Total T Z E s) s := by
  by_cases hz : Z < 1 ∨ Z > 120
  · jeq_start JGen.CSb_Total Gen.CSb_Total JGen.CS_Total Gen.CS_Total; jeq_auto
  · jeq_start JGen.CSb_Total Gen.CSb_Total Gen.AtomicWeight
    jeq_use (java_eq_c_CS_Total T Z hZ E s hs hN1 hN2 hN3)
    have h0 := haw _ (by assumption)
    jeq_auto

theorem java_eq_c_DCSb_Rayl (hN : inI32 (T.Nq_Rayl Z.toNat)) (haw0 : ∀ v, JGen.FF_Rayl (JTables.ofC T) Z (E / 12.3984193 * XNum.sin (theta / 2.0)) = .ok v → 0 ≤ T.AtomicWeight_arr Z.toNat)
    (haw : ∀ v, JGen.DCS_Rayl (JTables.ofC T) Z E theta = .ok v → 0 < T.AtomicWeight_arr Z.toNat) :
    JRel (JGen.DCSb_Rayl (JTables.ofC T) Z E theta) (Gen.DCSb_Rayl T Z E theta s) s := by
  by_cases hz : Z < 1 ∨ Z > 120
  · jeq_start JGen.DCSb_Rayl Gen.DCSb_Rayl JGen.DCS_Rayl Gen.DCS_Rayl; jeq_auto
  · jeq_start JGen.DCSb_Rayl Gen.DCSb_Rayl Gen.AtomicWeight
    jeq_use (java_eq_c_DCS_Rayl T Z hZ E theta s hs hN haw0)
    have h0 := haw _ (by assumption)
    jeq_auto

theorem java_eq_c_DCSb_Compt (hN : inI32 (T.Nq_Compt Z.toNat)) (haw0 : ∀ v, JGen.SF_Compt (JTables.ofC T) Z (E / 12.3984193 * XNum.sin (theta / 2.0)) = .ok v → 0 ≤ T.AtomicWeight_arr Z.toNat)
    (haw : ∀ v, JGen.DCS_Compt (JTables.ofC T) Z E theta = .ok v → 0 < T.AtomicWeight_arr Z.toNat) :
    JRel (JGen.DCSb_Compt (JTables.ofC T) Z E theta) (Gen.DCSb_Compt T Z E theta s) s := by
  by_cases hz : Z < 1 ∨ Z > 120
  · jeq_start JGen.DCSb_Compt Gen.DCSb_Compt JGen.DCS_Compt Gen.DCS_Compt; jeq_auto
  · jeq_start JGen.DCSb_Compt Gen.DCSb_Compt Gen.AtomicWeight
    jeq_use (java_eq_c_DCS_Compt T Z hZ E theta s hs hN haw0)
    have h0 := haw _ (by assumption)
    jeq_auto

theorem java_eq_c_DCSPb_Rayl (hN : inI32 (T.Nq_Rayl Z.toNat)) (haw0 : ∀ v, JGen.FF_Rayl (JTables.ofC T) Z (E / 12.3984193 * XNum.sin (theta / 2.0)) = .ok v → 0 < T.AtomicWeight_arr Z.toNat)
    (haw : ∀ v, JGen.DCSP_Rayl (JTables.ofC T) Z E theta phi = .ok v → 0 < T.AtomicWeight_arr Z.toNat) :
    JRel (JGen.DCSPb_Rayl (JTables.ofC T) Z E theta phi) (Gen.DCSPb_Rayl T Z E theta phi s) s := by
  by_cases hz : Z < 1 ∨ Z > 120
  · jeq_start JGen.DCSPb_Rayl Gen.DCSPb_Rayl JGen.DCSP_Rayl Gen.DCSP_Rayl; jeq_auto
  · jeq_start JGen.DCSPb_Rayl Gen.DCSPb_Rayl Gen.AtomicWeight
    jeq_use (java_eq_c_DCSP_Rayl T Z hZ E theta phi s hs hN haw0)
    have h0 := haw _ (by assumption)
    jeq_auto

theorem java_eq_c_DCSPb_Compt (hN : inI32 (T.Nq_Compt Z.toNat)) (haw0 : ∀ v, JGen.SF_Compt (JTables.ofC T) Z (E / 12.3984193 * XNum.sin (theta / 2.0)) = .ok v → 0 < T.AtomicWeight_arr Z.toNat)
    (haw : ∀ v, JGen.DCSP_Compt (JTables.ofC T) Z E theta phi = .ok v → 0 < T.AtomicWeight_arr Z.toNat) :
    JRel (JGen.DCSPb_Compt (JTables.ofC T) Z E theta phi) (Gen.DCSPb_Compt T Z E theta phi s) s := by
  by_cases hz : Z < 1 ∨ Z > 120
  · jeq_start JGen.DCSPb_Compt Gen.DCSPb_Compt JGen.DCSP_Compt Gen.DCSP_Compt; jeq_auto
  · jeq_start JGen.DCSPb_Compt Gen.DCSPb_Compt Gen.AtomicWeight
    jeq_use (java_eq_c_DCSP_Compt T Z hZ E theta phi s hs hN haw0)
    have h0 := haw _ (by assumption)
    jeq_auto

end barns

section kissel
variable (T : Tables ℝ) (Z m : Int) (hZ : inI32 Z) (hm : inI32 m) (E : ℝ) (s : Slot) (hs : s.isFull = false)
include hZ hm hs

theorem java_eq_c_CSb_Photo_Partial (hN : inI32 (T.NE_Photo_Partial_Kissel Z.toNat m.toNat))
    (hlenE : (T.E_Photo_Partial_Kissel Z.toNat m.toNat).len = T.NE_Photo_Partial_Kissel Z.toNat m.toNat)
    (hlenP : (T.Photo_Partial_Kissel Z.toNat m.toNat).len = T.NE_Photo_Partial_Kissel Z.toNat m.toNat)
    (hq : m < 28 ∨ T.Electron_Config_Kissel Z.toNat m.toNat < 1.0e-6) :
    JRel (JGen.CSb_Photo_Partial (JTables.ofC T) Z m E) (Gen.CSb_Photo_Partial T Z m E s) s := by
  jeq_start JGen.CSb_Photo_Partial Gen.CSb_Photo_Partial
  by_cases hz : Z < 1 ∨ Z > 120
  · jeq_auto
  by_cases hsh : m < 0 ∨ m ≥ 31
  · jeq_auto
  by_cases hE : E ≤ 0
  · jeq_auto
  simp (disch := omega) only [jrd_dynK]
  jeq_simp
  by_cases hcfg : T.Electron_Config_Kissel Z.toNat m.toNat < 10e-7
  · jeq_auto
  have hm28 : m < 28 := by
    rcases hq with h | h
    · exact h
    · exact absurd h hcfg
  have hm28' : ¬ (m ≥ 28) := by omega
  jeq_simp
  by_cases hedge : T.EdgeEnergy_arr Z.toNat m.toNat ≤ 0
  · jeq_auto
  jeq_simp
  by_cases hlow : E < T.EdgeEnergy_arr Z.toNat m.toNat
  · jeq_auto
  jeq_simp
  simp only [jrd_jvec, rdv_def, hlenE, hlenP]
  by_cases hn0 : T.NE_Photo_Partial_Kissel Z.toNat m.toNat ≤ 0
  · have h2 : ¬ ((0 : Int) ≤ 0 ∧ 0 < T.NE_Photo_Partial_Kissel Z.toNat m.toNat) := by omega
    simp only [hn0, h2, ↓reduceIte, bind_error, jbind_error]
    exact JRel.ub
  have h2 : ((0 : Int) ≤ 0 ∧ 0 < T.NE_Photo_Partial_Kissel Z.toNat m.toNat) := by omega
  simp only [hn0, h2, ↓reduceIte, bind_ok, jbind_ok, Int.toNat_zero, and_self, true_and, le_refl]
  by_cases hlog : Real.log E < (T.E_Photo_Partial_Kissel Z.toNat m.toNat).get 0
  · simp only [hlog, ↓reduceIte]
    by_cases h1 : (0 : Int) ≤ 1 ∧ 1 < T.NE_Photo_Partial_Kissel Z.toNat m.toNat
    · simp only [h1, and_self, ↓reduceIte, bind_ok, jbind_ok]
      jeq_auto
    · simp only [h1, ↓reduceIte, bind_ok, jbind_ok, bind_error, jbind_error]
      exact JRel.ub
  · simp only [hlog, ↓reduceIte]
    rcases (jsplint_rel_vec (JTables.ofC T) (T.E_Photo_Partial_Kissel Z.toNat m.toNat) (T.Photo_Partial_Kissel Z.toNat m.toNat)
      (T.Photo_Partial_Kissel2 Z.toNat m.toNat) (T.NE_Photo_Partial_Kissel Z.toNat m.toNat) hN
      (Real.log E) s hs).cases with ⟨y, hc, hj⟩ | ⟨e, hc, hj⟩ | ⟨a, b, hc, hj⟩ | ⟨a, hc⟩ <;> jeq_auto

omit hs in
theorem java_pos_CSb_Photo_Partial : JPos (JGen.CSb_Photo_Partial (JTables.ofC T) Z m E) := by
  unfold JGen.CSb_Photo_Partial
  dsimp only
  jpos_struct

theorem java_eq_c_CS_Photo_Partial (hN : inI32 (T.NE_Photo_Partial_Kissel Z.toNat m.toNat))
    (hlenE : (T.E_Photo_Partial_Kissel Z.toNat m.toNat).len = T.NE_Photo_Partial_Kissel Z.toNat m.toNat)
    (hlenP : (T.Photo_Partial_Kissel Z.toNat m.toNat).len = T.NE_Photo_Partial_Kissel Z.toNat m.toNat)
    (hq : m < 28 ∨ T.Electron_Config_Kissel Z.toNat m.toNat < 1.0e-6) :
    JRel (JGen.CS_Photo_Partial (JTables.ofC T) Z m E) (Gen.CS_Photo_Partial T Z m E s) s := by
  by_cases hz : Z < 1 ∨ Z > 120
  · jeq_start JGen.CS_Photo_Partial Gen.CS_Photo_Partial JGen.CSb_Photo_Partial Gen.CSb_Photo_Partial; jeq_auto
  by_cases hsh : m < 0 ∨ m ≥ 31
  · jeq_start JGen.CS_Photo_Partial Gen.CS_Photo_Partial JGen.CSb_Photo_Partial Gen.CSb_Photo_Partial; jeq_auto
  jeq_start JGen.CS_Photo_Partial Gen.CS_Photo_Partial
  jeq_use_pos (java_eq_c_CSb_Photo_Partial T Z m hZ hm E s hs hN hlenE hlenP hq), (java_pos_CSb_Photo_Partial T Z m hZ hm E)
  jeq_auto
end kissel

section fi
variable (T : Tables ℝ) (Z : Int) (hZ : inI32 Z) (E : ℝ) (s : Slot) (hs : s.isFull = false)
include hZ hs

/-- `Fi`: Java hands `NE_Fii_arr[Z]` (not `NE_Fi_arr[Z]`) to `splint` as the length of the `E_Fi`/`Fi` vectors (Xraylib.java:3263);
the C code uses `NE_Fi[Z]` (src/fi.c).  Equivalent exactly where the two counts agree. -/
theorem java_eq_c_Fi_partial (hN : inI32 (T.NE_Fi Z.toNat)) (hEq : T.NE_Fii Z.toNat = T.NE_Fi Z.toNat) :
    JRel (JGen.Fi (JTables.ofC T) Z E) (Gen.Fi T Z E s) s := by
  rcases (jsplint_rel_vec (JTables.ofC T) (T.E_Fi_arr Z.toNat) (T.Fi_arr Z.toNat) (T.Fi_arr2 Z.toNat) (T.NE_Fi Z.toNat) hN
    E s hs).cases with ⟨y, hc, hj⟩ | ⟨e, hc, hj⟩ | ⟨a, b, hc, hj⟩ | ⟨a, hc⟩ <;>
  (jeq_start JGen.Fi Gen.Fi; jeq_auto)
end fi

/-- the full statement (no hypothesis on the two counts) -/
def java_eq_c_Fi_full : Prop :=
  ∀ (T : Tables ℝ) (Z : Int), inI32 Z → ∀ (E : ℝ) (s : Slot), s.isFull = false → inI32 (T.NE_Fi Z.toNat) →
    JRel (JGen.Fi (JTables.ofC T) Z E) (Gen.Fi T Z E s) s

instance : Inhabited (Vec ℝ) := ⟨⟨0, fun _ => 0⟩⟩
/-- tables that are empty everywhere -/
noncomputable def T0 : Tables ℝ := by constructor <;> exact default
/-- witness: two knots (0, 1) ↦ 1 for `Fi`, but `NE_Fii = 1` -/
noncomputable def Tfi : Tables ℝ :=
  { T0 with NE_Fi := fun _ => 2, NE_Fii := fun _ => 1, E_Fi_arr := fun _ => ⟨2, fun k => (k : ℝ)⟩, Fi_arr := fun _ => ⟨2, fun _ => 1⟩,
            Fi_arr2 := fun _ => ⟨2, fun _ => 0⟩ }

theorem java_eq_c_Fi_full_fails : ¬ java_eq_c_Fi_full := by
  intro h
  have h1 := h Tfi 1 (by decide) 0.5 Slot.empty rfl (by decide)
  have hc : Gen.Fi Tfi 1 0.5 Slot.empty = Except.ok (1, Slot.empty) := by
    unfold Gen.Fi
    simp [Tfi, rd1, splint, rdv, bisect, splintAt, splintCubic, deq_real]
    norm_num
  have hj : JGen.Fi (JTables.ofC Tfi) 1 0.5 = Except.error (JStop.iae "Spline extrapolation is not allowed") := by
    unfold JGen.Fi JGen.splint
    simp [Tfi, JTables.ofC, Hdr.ZMAX, jdyn, jvec, jrd, wrapI]
    norm_num
  rw [hc, hj] at h1
  rcases h1 with ⟨_, h2⟩ | ⟨e, h2, _⟩
  · cases h2
  · norm_num at h2

section biggs
variable (T : Tables ℝ) (Z m : Int) (hZ : inI32 Z) (hm : inI32 m) (s : Slot) (hs : s.isFull = false)
include hZ hm hs
/-- `ElectronConfig_Biggs`: Java lacks the `shell < 0` test of C (src/comptonprofiles.c) and runs into an
`ArrayIndexOutOfBoundsException` instead of the `IllegalArgumentException`: equivalent in the weak reading only -/
theorem java_eqw_c_ElectronConfig_Biggs :
    JRelW (JGen.ElectronConfig_Biggs (JTables.ofC T) Z m) (Gen.ElectronConfig_Biggs T Z m s) s := by
  jeq_start JGen.ElectronConfig_Biggs Gen.ElectronConfig_Biggs
  by_cases hz : Z < 1 ∨ Z > 120
  · jeqw_auto
  jeq_simp
  simp only [jrd_jvec, rdv_def]
  jeqw_auto
end biggs


section catches
variable (T : Tables ℝ) (Z m : Int) (hZ : inI32 Z) (hm : inI32 m)
include hZ hm

theorem catch_EdgeEnergy : JCatchRel (JGen.EdgeEnergy_catch (JTables.ofC T) Z m) (Gen.EdgeEnergy T Z m Slot.null) := by
  unfold JGen.EdgeEnergy_catch; exact JCatchRel.of_rel (java_eq_c_EdgeEnergy T Z m hZ hm Slot.null rfl)
theorem catch_FluorYield : JCatchRel (JGen.FluorYield_catch (JTables.ofC T) Z m) (Gen.FluorYield T Z m Slot.null) := by
  unfold JGen.FluorYield_catch; exact JCatchRel.of_rel (java_eq_c_FluorYield T Z m hZ hm Slot.null rfl)
theorem catch_JumpFactor : JCatchRel (JGen.JumpFactor_catch (JTables.ofC T) Z m) (Gen.JumpFactor T Z m Slot.null) := by
  unfold JGen.JumpFactor_catch; exact JCatchRel.of_rel (java_eq_c_JumpFactor T Z m hZ hm Slot.null rfl)
theorem catch_CosKronTransProb : JCatchRel (JGen.CosKronTransProb_catch (JTables.ofC T) Z m) (Gen.CosKronTransProb T Z m Slot.null) := by
  unfold JGen.CosKronTransProb_catch; exact JCatchRel.of_rel (java_eq_c_CosKronTransProb T Z m hZ hm Slot.null rfl)
theorem catch_RadRate : JCatchRel (JGen.RadRate_catch (JTables.ofC T) Z m) (Gen.RadRate T Z m Slot.null) := by
  unfold JGen.RadRate_catch; exact JCatchRel.of_rel (java_eq_c_RadRate T Z m hZ hm Slot.null rfl)
end catches

section jumps
variable (T : Tables ℝ) (Z : Int) (hZ : inI32 Z) (E : ℝ) (s : Slot) (hs : s.isFull = false)
include hZ

theorem java_pos_JumpFactor (m : Int) (hm : inI32 m) : JPos (JGen.JumpFactor (JTables.ofC T) Z m) := by
  jeq_startJ JGen.JumpFactor; jpos_auto
theorem java_pos_FluorYield (m : Int) (hm : inI32 m) : JPos (JGen.FluorYield (JTables.ofC T) Z m) := by
  jeq_startJ JGen.FluorYield; jpos_auto
theorem java_pos_EdgeEnergy (m : Int) (hm : inI32 m) : JPos (JGen.EdgeEnergy (JTables.ofC T) Z m) := by
  jeq_startJ JGen.EdgeEnergy; jpos_auto

include hs
/-- the K-shell absorption share: C reports a vanishing share itself (src/cs_line.c), Java leaves that to `CS_FluorShell` -/
theorem jump_K_rel :
    JRel (do let f ← JGen.Jump_from_K (JTables.ofC T) Z E
             if f = 0 then throw (JStop.iae "Jump factor unavailable for element and shell") else pure f)
      (Gen.Jump_from_K T Z E s) s := by
  jeq_start JGen.Jump_from_K Gen.Jump_from_K
  jeq_use_pos (java_eq_c_EdgeEnergy T Z 0 hZ (by decide) s hs), (java_pos_EdgeEnergy T Z hZ 0 (by decide))
  jeq_simp
  split_ifs
  · jeq_use_pos (java_eq_c_JumpFactor T Z 0 hZ (by decide) s hs), (java_pos_JumpFactor T Z hZ 0 (by decide))
    jeq_simp
    jeq_use_pos (java_eq_c_FluorYield T Z 0 hZ (by decide) s hs), (java_pos_FluorYield T Z hZ 0 (by decide))
    jeq_auto
  · jeq_auto
end jumps


end C19
end Xrl
