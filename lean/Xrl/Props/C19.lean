import Xrl.JCore.JSplint
import Xrl.JGen.Methods
import Xrl.Gen.Fns
/-!
# C19 — the Java methods are observationally equivalent to the C functions (numeric core)

Every `java_eq_c_f` is about the two definitions *generated on every run*: `JGen.f` from java/Xraylib.java (tools/j2lean.py) and
`Gen.f` from src/*.c (tools/c2lean.py), for every table content `T` (the Java tables are `JTables.ofC T`: what XRayInit reads from the
xraylib.dat that java/pr_data_java.c writes from `T`), every `int` argument (hypotheses `inI32`), every real argument and every error slot
that is `NULL` or empty.  The relation `JRel` is defined in JCore/JRel.lean: same value / C error ⇔ `IllegalArgumentException` with the same
text / both models stop at a non-finite operation / no claim where the C model has undefined behaviour.

Hypotheses that appear:
* `inI32 (T.N… Z)` — the counts of the tables are C `int`s (they are `int` arrays in C and `int[]` in Java);
* `KVecOk T Z k` — the Kissel vectors of an OCCUPIED sub-shell `k` have the length their count says (Java checks subscripts against the
  count, C against the allocated length; an empty sub-shell has the count 0 and a one-element dummy, and is never read);
* `haw : … = .ok v → 0 < T.AtomicWeight_arr Z` — Java reads `AtomicWeight_arr[Z]` raw where C calls `AtomicWeight` (fails on `≤ 0`): the two
  differ exactly when a cross section exists for an element without atomic weight — excluded, reported as a latent difference;
* `hEq`, `h92` — the excluding hypotheses of the witnesses W2, W5 of notes/C19M_REPORT.md (W1, shells 28..30 of `CSb_Photo_Partial`, is repaired in /repo da7215f: no hypothesis left).
Full statements that are false are kept as `def …_full : Prop` with the negation proved on a concrete table.
-/
set_option linter.unusedSimpArgs false
set_option linter.unusedVariables false
set_option linter.unusedSectionVars false
namespace Xrl
namespace C19

/-- instantiate the Java tables by the C tables (`JTables.ofC`, field by field), the header constants, the `int` ranges -/
macro "jeq_normJ" : tactic =>
  `(tactic| simp only [ofC_ZMAX, ofC_SHELLNUM, ofC_SHELLNUM_K, ofC_SHELLNUM_A, ofC_TRANSNUM, ofC_LINENUM, ofC_AUGERNUM, ofC_RE2, ofC_MEC2, ofC_AVOGNUM, ofC_KEV2ANGST, ofC_R_E, ofC_AtomicWeight_arr, ofC_ElementDensity_arr, ofC_EdgeEnergy_arr, ofC_AtomicLevelWidth_arr, ofC_LineEnergy_arr, ofC_FluorYield_arr, ofC_JumpFactor_arr, ofC_CosKron_arr, ofC_RadRate_arr, ofC_xrf_cross_sections_constants_full, ofC_xrf_cross_sections_constants_auger_only, ofC_NE_Photo_arr, ofC_E_Photo_arr, ofC_CS_Photo_arr, ofC_CS_Photo_arr2, ofC_NE_Rayl_arr, ofC_E_Rayl_arr, ofC_CS_Rayl_arr, ofC_CS_Rayl_arr2, ofC_NE_Compt_arr, ofC_E_Compt_arr, ofC_CS_Compt_arr, ofC_CS_Compt_arr2, ofC_NE_Energy_arr, ofC_E_Energy_arr, ofC_CS_Energy_arr, ofC_CS_Energy_arr2, ofC_Nq_Rayl_arr, ofC_q_Rayl_arr, ofC_FF_Rayl_arr, ofC_FF_Rayl_arr2, ofC_Nq_Compt_arr, ofC_q_Compt_arr, ofC_SF_Compt_arr, ofC_SF_Compt_arr2, ofC_NE_Fi_arr, ofC_E_Fi_arr, ofC_Fi_arr, ofC_Fi_arr2, ofC_NE_Fii_arr, ofC_E_Fii_arr, ofC_Fii_arr, ofC_Fii_arr2, ofC_NE_Photo_Total_Kissel_arr, ofC_Electron_Config_Kissel_arr, ofC_NE_Photo_Partial_Kissel_arr, ofC_E_Photo_Partial_Kissel_arr, ofC_Photo_Partial_Kissel_arr, ofC_Photo_Partial_Kissel_arr2, ofC_NShells_ComptonProfiles_arr, ofC_Npz_ComptonProfiles_arr, ofC_UOCCUP_ComptonProfiles_arr, ofC_pz_ComptonProfiles_arr, ofC_Total_ComptonProfiles_arr, ofC_Total_ComptonProfiles_arr2, ofC_Partial_ComptonProfiles_arr, ofC_Partial_ComptonProfiles_arr2, ofC_Auger_Yields_arr, ofC_Auger_Rates_arr, Hdr.ZMAX, Hdr.SHELLNUM, Hdr.SHELLNUM_K, Hdr.SHELLNUM_A, Hdr.TRANSNUM, Hdr.LINENUM, Hdr.AUGERNUM,
      Hdr.RE2, Hdr.MEC2, Hdr.AVOGNUM, Hdr.KEV2ANGST, Hdr.R_E, inI32, INT_MIN, INT_MAX] at *)
macro "jeq_norm" : tactic =>
  `(tactic| simp only [ofC_ZMAX, ofC_SHELLNUM, ofC_SHELLNUM_K, ofC_SHELLNUM_A, ofC_TRANSNUM, ofC_LINENUM, ofC_AUGERNUM, ofC_RE2, ofC_MEC2, ofC_AVOGNUM, ofC_KEV2ANGST, ofC_R_E, ofC_AtomicWeight_arr, ofC_ElementDensity_arr, ofC_EdgeEnergy_arr, ofC_AtomicLevelWidth_arr, ofC_LineEnergy_arr, ofC_FluorYield_arr, ofC_JumpFactor_arr, ofC_CosKron_arr, ofC_RadRate_arr, ofC_xrf_cross_sections_constants_full, ofC_xrf_cross_sections_constants_auger_only, ofC_NE_Photo_arr, ofC_E_Photo_arr, ofC_CS_Photo_arr, ofC_CS_Photo_arr2, ofC_NE_Rayl_arr, ofC_E_Rayl_arr, ofC_CS_Rayl_arr, ofC_CS_Rayl_arr2, ofC_NE_Compt_arr, ofC_E_Compt_arr, ofC_CS_Compt_arr, ofC_CS_Compt_arr2, ofC_NE_Energy_arr, ofC_E_Energy_arr, ofC_CS_Energy_arr, ofC_CS_Energy_arr2, ofC_Nq_Rayl_arr, ofC_q_Rayl_arr, ofC_FF_Rayl_arr, ofC_FF_Rayl_arr2, ofC_Nq_Compt_arr, ofC_q_Compt_arr, ofC_SF_Compt_arr, ofC_SF_Compt_arr2, ofC_NE_Fi_arr, ofC_E_Fi_arr, ofC_Fi_arr, ofC_Fi_arr2, ofC_NE_Fii_arr, ofC_E_Fii_arr, ofC_Fii_arr, ofC_Fii_arr2, ofC_NE_Photo_Total_Kissel_arr, ofC_Electron_Config_Kissel_arr, ofC_NE_Photo_Partial_Kissel_arr, ofC_E_Photo_Partial_Kissel_arr, ofC_Photo_Partial_Kissel_arr, ofC_Photo_Partial_Kissel_arr2, ofC_NShells_ComptonProfiles_arr, ofC_Npz_ComptonProfiles_arr, ofC_UOCCUP_ComptonProfiles_arr, ofC_pz_ComptonProfiles_arr, ofC_Total_ComptonProfiles_arr, ofC_Total_ComptonProfiles_arr2, ofC_Partial_ComptonProfiles_arr, ofC_Partial_ComptonProfiles_arr2, ofC_Auger_Yields_arr, ofC_Auger_Rates_arr, Hdr.ZMAX, Hdr.SHELLNUM, Hdr.SHELLNUM_K, Hdr.SHELLNUM_A, Hdr.TRANSNUM, Hdr.LINENUM, Hdr.AUGERNUM,
      Hdr.RE2, Hdr.MEC2, Hdr.AVOGNUM, Hdr.KEV2ANGST, Hdr.R_E, setErr_notFull (by assumption), inI32, INT_MIN, INT_MAX] at *)

/-- unfold the generated definitions named, then `jeq_norm` -/
macro "jeq_start" ids:(ppSpace colGt ident)+ : tactic => `(tactic| (unfold $ids*; jeq_norm))
/-- the same for a statement about the Java side alone -/
macro "jeq_startJ" ids:(ppSpace colGt ident)+ : tactic => `(tactic| (unfold $ids*; jeq_normJ))

section accessors
variable (T : Tables ℝ) (Z m : Int) (hZ : inI32 Z) (hm : inI32 m) (s : Slot) (hs : s.isFull = false)
include hZ hs

theorem java_eq_c_AtomicWeight : JRel (JGen.AtomicWeight (JTables.ofC T) Z) (Gen.AtomicWeight T Z s) s := by
  jeq_start JGen.AtomicWeight Gen.AtomicWeight; jeq_auto

theorem java_eq_c_ElementDensity : JRel (JGen.ElementDensity (JTables.ofC T) Z) (Gen.ElementDensity T Z s) s := by
  jeq_start JGen.ElementDensity Gen.ElementDensity; jeq_auto

include hm

theorem java_eq_c_EdgeEnergy : JRel (JGen.EdgeEnergy (JTables.ofC T) Z m) (Gen.EdgeEnergy T Z m s) s := by
  jeq_start JGen.EdgeEnergy Gen.EdgeEnergy; jeq_auto

theorem java_eq_c_AtomicLevelWidth : JRel (JGen.AtomicLevelWidth (JTables.ofC T) Z m) (Gen.AtomicLevelWidth T Z m s) s := by
  jeq_start JGen.AtomicLevelWidth Gen.AtomicLevelWidth; jeq_auto

theorem java_eq_c_FluorYield : JRel (JGen.FluorYield (JTables.ofC T) Z m) (Gen.FluorYield T Z m s) s := by
  jeq_start JGen.FluorYield Gen.FluorYield; jeq_auto

theorem java_eq_c_JumpFactor : JRel (JGen.JumpFactor (JTables.ofC T) Z m) (Gen.JumpFactor T Z m s) s := by
  jeq_start JGen.JumpFactor Gen.JumpFactor; jeq_auto

theorem java_eq_c_CosKronTransProb : JRel (JGen.CosKronTransProb (JTables.ofC T) Z m) (Gen.CosKronTransProb T Z m s) s := by
  jeq_start JGen.CosKronTransProb Gen.CosKronTransProb; jeq_auto

theorem java_eq_c_ElectronConfig : JRel (JGen.ElectronConfig (JTables.ofC T) Z m) (Gen.ElectronConfig T Z m s) s := by
  jeq_start JGen.ElectronConfig Gen.ElectronConfig; jeq_auto

theorem java_eq_c_AugerRate : JRel (JGen.AugerRate (JTables.ofC T) Z m) (Gen.AugerRate T Z m s) s := by
  jeq_start JGen.AugerRate Gen.AugerRate; jeq_auto

theorem java_eq_c_AugerYield : JRel (JGen.AugerYield (JTables.ofC T) Z m) (Gen.AugerYield T Z m s) s := by
  jeq_start JGen.AugerYield Gen.AugerYield; jeq_auto

end accessors

section radrate
variable (T : Tables ℝ) (Z m : Int) (hZ : inI32 Z) (hm : inI32 m) (s : Slot) (hs : s.isFull = false)
include hZ hs

theorem java_eq_c_RadRate_KA (fuel : Nat) :
    JRel (JGen.RadRate_fuel (fuel + 1) (JTables.ofC T) Z 0) (Gen.RadRate_fuel (fuel + 1) T Z 0 s) s := by
  jeq_start JGen.RadRate_fuel Gen.RadRate_fuel
  simp only [loopM_3, jloopM_3]
  jeq_auto

include hm
theorem java_eq_c_RadRate : JRel (JGen.RadRate (JTables.ofC T) Z m) (Gen.RadRate T Z m s) s := by
  unfold JGen.RadRate Gen.RadRate FUEL
  jeq_start JGen.RadRate_fuel Gen.RadRate_fuel
  by_cases hz : Z < 1 ∨ Z > 120
  · jeq_auto
  by_cases h1 : m = 1
  · subst h1
    jeq_simp
    unfold JGen.RadRate_fuel Gen.RadRate_fuel
    simp only [loopM_3, jloopM_3]
    jeq_norm
    jeq_auto
  · simp only [loopM_3, jloopM_3]
    jeq_auto

end radrate

section closed_form
variable (T : Tables ℝ) (E theta phi : ℝ) (s : Slot) (hs : s.isFull = false)
include hs

theorem java_eq_c_DCS_Thoms : JRel (JGen.DCS_Thoms (JTables.ofC T) theta) (Gen.DCS_Thoms T theta s) s := by
  jeq_start JGen.DCS_Thoms Gen.DCS_Thoms; jeq_auto

theorem java_eq_c_DCS_KN : JRel (JGen.DCS_KN (JTables.ofC T) E theta) (Gen.DCS_KN T E theta s) s := by
  jeq_start JGen.DCS_KN Gen.DCS_KN; jeq_auto

theorem java_eq_c_MomentTransf : JRel (JGen.MomentTransf (JTables.ofC T) E theta) (Gen.MomentTransf T E theta s) s := by
  jeq_start JGen.MomentTransf Gen.MomentTransf; jeq_auto

theorem java_eq_c_CS_KN : JRel (JGen.CS_KN (JTables.ofC T) E) (Gen.CS_KN T E s) s := by
  jeq_start JGen.CS_KN Gen.CS_KN; jeq_auto

theorem java_eq_c_ComptonEnergy : JRel (JGen.ComptonEnergy (JTables.ofC T) E theta) (Gen.ComptonEnergy T E theta s) s := by
  jeq_start JGen.ComptonEnergy Gen.ComptonEnergy; jeq_auto

theorem java_eq_c_DCSP_KN : JRel (JGen.DCSP_KN (JTables.ofC T) E theta phi) (Gen.DCSP_KN T E theta phi s) s := by
  jeq_start JGen.DCSP_KN Gen.DCSP_KN; jeq_auto

theorem java_eq_c_DCSP_Thoms : JRel (JGen.DCSP_Thoms (JTables.ofC T) theta phi) (Gen.DCSP_Thoms T theta phi s) s := by
  jeq_start JGen.DCSP_Thoms Gen.DCSP_Thoms; jeq_auto

end closed_form

section spline
variable (T : Tables ℝ) (Z : Int) (hZ : inI32 Z) (E : ℝ) (s : Slot) (hs : s.isFull = false)
include hZ hs

theorem java_eq_c_CS_Photo (hN : inI32 (T.NE_Photo Z.toNat)) : JRel (JGen.CS_Photo (JTables.ofC T) Z E) (Gen.CS_Photo T Z E s) s := by
  rcases (jsplint_rel_vec (JTables.ofC T) (T.E_Photo_arr Z.toNat) (T.CS_Photo_arr Z.toNat) (T.CS_Photo_arr2 Z.toNat) (T.NE_Photo Z.toNat) hN
    (Real.log (E * 1000.0)) s hs).cases with ⟨y, hc, hj⟩ | ⟨e, hc, hj⟩ | ⟨a, b, hc, hj⟩ | ⟨a, hc⟩ <;>
  (jeq_start JGen.CS_Photo Gen.CS_Photo JGen.CS_Factory; jeq_auto)

theorem java_eq_c_CS_Rayl (hN : inI32 (T.NE_Rayl Z.toNat)) : JRel (JGen.CS_Rayl (JTables.ofC T) Z E) (Gen.CS_Rayl T Z E s) s := by
  rcases (jsplint_rel_vec (JTables.ofC T) (T.E_Rayl_arr Z.toNat) (T.CS_Rayl_arr Z.toNat) (T.CS_Rayl_arr2 Z.toNat) (T.NE_Rayl Z.toNat) hN
    (Real.log (E * 1000.0)) s hs).cases with ⟨y, hc, hj⟩ | ⟨e, hc, hj⟩ | ⟨a, b, hc, hj⟩ | ⟨a, hc⟩ <;>
  (jeq_start JGen.CS_Rayl Gen.CS_Rayl JGen.CS_Factory; jeq_auto)

theorem java_eq_c_CS_Compt (hN : inI32 (T.NE_Compt Z.toNat)) : JRel (JGen.CS_Compt (JTables.ofC T) Z E) (Gen.CS_Compt T Z E s) s := by
  rcases (jsplint_rel_vec (JTables.ofC T) (T.E_Compt_arr Z.toNat) (T.CS_Compt_arr Z.toNat) (T.CS_Compt_arr2 Z.toNat) (T.NE_Compt Z.toNat) hN
    (Real.log (E * 1000.0)) s hs).cases with ⟨y, hc, hj⟩ | ⟨e, hc, hj⟩ | ⟨a, b, hc, hj⟩ | ⟨a, hc⟩ <;>
  (jeq_start JGen.CS_Compt Gen.CS_Compt JGen.CS_Factory; jeq_auto)

theorem java_eq_c_FF_Rayl (hN : inI32 (T.Nq_Rayl Z.toNat)) : JRel (JGen.FF_Rayl (JTables.ofC T) Z E) (Gen.FF_Rayl T Z E s) s := by
  rcases (jsplint_rel_vec (JTables.ofC T) (T.q_Rayl_arr Z.toNat) (T.FF_Rayl_arr Z.toNat) (T.FF_Rayl_arr2 Z.toNat) (T.Nq_Rayl Z.toNat) hN
    (E) s hs).cases with ⟨y, hc, hj⟩ | ⟨e, hc, hj⟩ | ⟨a, b, hc, hj⟩ | ⟨a, hc⟩ <;>
  (jeq_start JGen.FF_Rayl Gen.FF_Rayl; jeq_auto)

theorem java_eq_c_SF_Compt (hN : inI32 (T.Nq_Compt Z.toNat)) : JRel (JGen.SF_Compt (JTables.ofC T) Z E) (Gen.SF_Compt T Z E s) s := by
  rcases (jsplint_rel_vec (JTables.ofC T) (T.q_Compt_arr Z.toNat) (T.SF_Compt_arr Z.toNat) (T.SF_Compt_arr2 Z.toNat) (T.Nq_Compt Z.toNat) hN
    (E) s hs).cases with ⟨y, hc, hj⟩ | ⟨e, hc, hj⟩ | ⟨a, b, hc, hj⟩ | ⟨a, hc⟩ <;>
  (jeq_start JGen.SF_Compt Gen.SF_Compt; jeq_auto)

theorem java_eq_c_Fii (hN : inI32 (T.NE_Fii Z.toNat)) : JRel (JGen.Fii (JTables.ofC T) Z E) (Gen.Fii T Z E s) s := by
  rcases (jsplint_rel_vec (JTables.ofC T) (T.E_Fii_arr Z.toNat) (T.Fii_arr Z.toNat) (T.Fii_arr2 Z.toNat) (T.NE_Fii Z.toNat) hN
    (E) s hs).cases with ⟨y, hc, hj⟩ | ⟨e, hc, hj⟩ | ⟨a, b, hc, hj⟩ | ⟨a, hc⟩ <;>
  (jeq_start JGen.Fii Gen.Fii; jeq_auto)

theorem java_eq_c_ComptonProfile (hN : inI32 (T.Npz_ComptonProfiles Z.toNat)) : JRel (JGen.ComptonProfile (JTables.ofC T) Z E) (Gen.ComptonProfile T Z E s) s := by
  rcases (jsplint_rel_vec (JTables.ofC T) (T.pz_ComptonProfiles Z.toNat) (T.Total_ComptonProfiles Z.toNat) (T.Total_ComptonProfiles2 Z.toNat) (T.Npz_ComptonProfiles Z.toNat) hN
    (Real.log (E + 1.0)) s hs).cases with ⟨y, hc, hj⟩ | ⟨e, hc, hj⟩ | ⟨a, b, hc, hj⟩ | ⟨a, hc⟩ <;>
  (jeq_start JGen.ComptonProfile Gen.ComptonProfile; jeq_auto)

end spline

section composite
variable (T : Tables ℝ) (Z : Int) (hZ : inI32 Z) (E : ℝ) (s : Slot) (hs : s.isFull = false)
include hZ

theorem java_pos_CS_Photo : JPos (JGen.CS_Photo (JTables.ofC T) Z E) := by
  jeq_startJ JGen.CS_Photo JGen.CS_Factory
  rcases hj : JGen.splint (JTables.ofC T) (jvec (T.NE_Photo Z.toNat) (T.E_Photo_arr Z.toNat)) (jvec (T.NE_Photo Z.toNat) (T.CS_Photo_arr Z.toNat))
    (jvec (T.NE_Photo Z.toNat) (T.CS_Photo_arr2 Z.toNat)) (T.NE_Photo Z.toNat) (Real.log (E * 1000.0)) with e | y <;> jpos_auto

theorem java_pos_CS_Rayl : JPos (JGen.CS_Rayl (JTables.ofC T) Z E) := by
  jeq_startJ JGen.CS_Rayl JGen.CS_Factory
  rcases hj : JGen.splint (JTables.ofC T) (jvec (T.NE_Rayl Z.toNat) (T.E_Rayl_arr Z.toNat)) (jvec (T.NE_Rayl Z.toNat) (T.CS_Rayl_arr Z.toNat))
    (jvec (T.NE_Rayl Z.toNat) (T.CS_Rayl_arr2 Z.toNat)) (T.NE_Rayl Z.toNat) (Real.log (E * 1000.0)) with e | y <;> jpos_auto

theorem java_pos_CS_Compt : JPos (JGen.CS_Compt (JTables.ofC T) Z E) := by
  jeq_startJ JGen.CS_Compt JGen.CS_Factory
  rcases hj : JGen.splint (JTables.ofC T) (jvec (T.NE_Compt Z.toNat) (T.E_Compt_arr Z.toNat)) (jvec (T.NE_Compt Z.toNat) (T.CS_Compt_arr Z.toNat))
    (jvec (T.NE_Compt Z.toNat) (T.CS_Compt_arr2 Z.toNat)) (T.NE_Compt Z.toNat) (Real.log (E * 1000.0)) with e | y <;> jpos_auto

include hs
theorem java_eq_c_CS_Total (hN1 : inI32 (T.NE_Photo Z.toNat)) (hN2 : inI32 (T.NE_Rayl Z.toNat)) (hN3 : inI32 (T.NE_Compt Z.toNat)) :
    JRel (JGen.CS_Total (JTables.ofC T) Z E) (Gen.CS_Total T Z E s) s := by
  jeq_start JGen.CS_Total Gen.CS_Total
  jeq_use_pos (java_eq_c_CS_Photo T Z hZ E s hs hN1), (java_pos_CS_Photo T Z hZ E)
  jeq_use_pos (java_eq_c_CS_Rayl T Z hZ E s hs hN2), (java_pos_CS_Rayl T Z hZ E)
  jeq_use_pos (java_eq_c_CS_Compt T Z hZ E s hs hN3), (java_pos_CS_Compt T Z hZ E)
  jeq_auto
end composite

section diff
variable (T : Tables ℝ) (Z : Int) (hZ : inI32 Z) (E theta phi : ℝ) (s : Slot) (hs : s.isFull = false)
include hZ hs

theorem java_eq_c_DCS_Rayl (hN : inI32 (T.Nq_Rayl Z.toNat))
    (haw : ∀ v, JGen.FF_Rayl (JTables.ofC T) Z (E / 12.3984193 * XNum.sin (theta / 2.0)) = .ok v → 0 ≤ T.AtomicWeight_arr Z.toNat) :
    JRel (JGen.DCS_Rayl (JTables.ofC T) Z E theta) (Gen.DCS_Rayl T Z E theta s) s := by
  jeq_start JGen.DCS_Rayl Gen.DCS_Rayl JGen.MomentTransf Gen.MomentTransf JGen.DCS_Thoms Gen.DCS_Thoms Gen.AtomicWeight
  by_cases hz : Z < 1 ∨ Z > 120
  · jeq_auto
  by_cases hE : E ≤ 0
  · jeq_auto
  jeq_simp
  jeq_use (java_eq_c_FF_Rayl T Z hZ (E / 12.3984193 * XNum.sin (theta / 2.0)) Slot.empty rfl hN)
  have h0 := haw _ (by assumption)
  jeq_auto

theorem java_eq_c_DCS_Compt (hN : inI32 (T.Nq_Compt Z.toNat))
    (haw : ∀ v, JGen.SF_Compt (JTables.ofC T) Z (E / 12.3984193 * XNum.sin (theta / 2.0)) = .ok v → 0 ≤ T.AtomicWeight_arr Z.toNat) :
    JRel (JGen.DCS_Compt (JTables.ofC T) Z E theta) (Gen.DCS_Compt T Z E theta s) s := by
  jeq_start JGen.DCS_Compt Gen.DCS_Compt JGen.MomentTransf Gen.MomentTransf JGen.DCS_KN Gen.DCS_KN Gen.AtomicWeight
  by_cases hz : Z < 1 ∨ Z > 120
  · jeq_auto
  by_cases hE : E ≤ 0
  · jeq_auto
  jeq_simp
  jeq_use (java_eq_c_SF_Compt T Z hZ (E / 12.3984193 * XNum.sin (theta / 2.0)) Slot.empty rfl hN)
  have h0 := haw _ (by assumption)
  jeq_auto

theorem java_eq_c_DCSP_Rayl (hN : inI32 (T.Nq_Rayl Z.toNat))
    (haw : ∀ v, JGen.FF_Rayl (JTables.ofC T) Z (E / 12.3984193 * XNum.sin (theta / 2.0)) = .ok v → 0 < T.AtomicWeight_arr Z.toNat) :
    JRel (JGen.DCSP_Rayl (JTables.ofC T) Z E theta phi) (Gen.DCSP_Rayl T Z E theta phi s) s := by
  jeq_start JGen.DCSP_Rayl Gen.DCSP_Rayl JGen.MomentTransf Gen.MomentTransf JGen.DCSP_Thoms Gen.DCSP_Thoms JGen.AtomicWeight Gen.AtomicWeight
  by_cases hz : Z < 1 ∨ Z > 120
  · jeq_auto
  by_cases hE : E ≤ 0
  · jeq_auto
  jeq_simp
  jeq_use (java_eq_c_FF_Rayl T Z hZ (E / 12.3984193 * XNum.sin (theta / 2.0)) Slot.empty rfl hN)
  have h0 := haw _ (by assumption)
  jeq_auto

theorem java_eq_c_DCSP_Compt (hN : inI32 (T.Nq_Compt Z.toNat))
    (haw : ∀ v, JGen.SF_Compt (JTables.ofC T) Z (E / 12.3984193 * XNum.sin (theta / 2.0)) = .ok v → 0 < T.AtomicWeight_arr Z.toNat) :
    JRel (JGen.DCSP_Compt (JTables.ofC T) Z E theta phi) (Gen.DCSP_Compt T Z E theta phi s) s := by
  jeq_start JGen.DCSP_Compt Gen.DCSP_Compt JGen.MomentTransf Gen.MomentTransf JGen.DCSP_KN Gen.DCSP_KN JGen.AtomicWeight Gen.AtomicWeight
  by_cases hz : Z < 1 ∨ Z > 120
  · jeq_auto
  by_cases hE : E ≤ 0
  · jeq_auto
  jeq_simp
  jeq_use (java_eq_c_SF_Compt T Z hZ (E / 12.3984193 * XNum.sin (theta / 2.0)) Slot.empty rfl hN)
  have h0 := haw _ (by assumption)
  jeq_auto
end diff

section barns
variable (T : Tables ℝ) (Z : Int) (hZ : inI32 Z) (E theta phi : ℝ) (s : Slot) (hs : s.isFull = false)
include hZ hs

theorem java_eq_c_CSb_Photo (hN : inI32 (T.NE_Photo Z.toNat))
    (haw : ∀ v, JGen.CS_Photo (JTables.ofC T) Z E = .ok v → 0 < T.AtomicWeight_arr Z.toNat) :
    JRel (JGen.CSb_Photo (JTables.ofC T) Z E) (Gen.CSb_Photo T Z E s) s := by
  by_cases hz : Z < 1 ∨ Z > 120
  · jeq_start JGen.CSb_Photo Gen.CSb_Photo JGen.CS_Photo Gen.CS_Photo JGen.CS_Factory; jeq_auto
  · jeq_start JGen.CSb_Photo Gen.CSb_Photo Gen.AtomicWeight
    jeq_use (java_eq_c_CS_Photo T Z hZ E s hs hN)
    have h0 := haw _ (by assumption)
    jeq_auto

theorem java_eq_c_CSb_Rayl (hN : inI32 (T.NE_Rayl Z.toNat))
    (haw : ∀ v, JGen.CS_Rayl (JTables.ofC T) Z E = .ok v → 0 < T.AtomicWeight_arr Z.toNat) :
    JRel (JGen.CSb_Rayl (JTables.ofC T) Z E) (Gen.CSb_Rayl T Z E s) s := by
  by_cases hz : Z < 1 ∨ Z > 120
  · jeq_start JGen.CSb_Rayl Gen.CSb_Rayl JGen.CS_Rayl Gen.CS_Rayl JGen.CS_Factory; jeq_auto
  · jeq_start JGen.CSb_Rayl Gen.CSb_Rayl Gen.AtomicWeight
    jeq_use (java_eq_c_CS_Rayl T Z hZ E s hs hN)
    have h0 := haw _ (by assumption)
    jeq_auto

theorem java_eq_c_CSb_Compt (hN : inI32 (T.NE_Compt Z.toNat))
    (haw : ∀ v, JGen.CS_Compt (JTables.ofC T) Z E = .ok v → 0 < T.AtomicWeight_arr Z.toNat) :
    JRel (JGen.CSb_Compt (JTables.ofC T) Z E) (Gen.CSb_Compt T Z E s) s := by
  by_cases hz : Z < 1 ∨ Z > 120
  · jeq_start JGen.CSb_Compt Gen.CSb_Compt JGen.CS_Compt Gen.CS_Compt JGen.CS_Factory; jeq_auto
  · jeq_start JGen.CSb_Compt Gen.CSb_Compt Gen.AtomicWeight
    jeq_use (java_eq_c_CS_Compt T Z hZ E s hs hN)
    have h0 := haw _ (by assumption)
    jeq_auto

theorem java_eq_c_CSb_Total (hN1 : inI32 (T.NE_Photo Z.toNat)) (hN2 : inI32 (T.NE_Rayl Z.toNat)) (hN3 : inI32 (T.NE_Compt Z.toNat))
    (haw : ∀ v, JGen.CS_Total (JTables.ofC T) Z E = .ok v → 0 < T.AtomicWeight_arr Z.toNat) :
    JRel (JGen.CSb_Total (JTables.ofC T) Z E) (Gen.CSb_Total T Z E s) s := by
  by_cases hz : Z < 1 ∨ Z > 120
  · jeq_start JGen.CSb_Total Gen.CSb_Total JGen.CS_Total Gen.CS_Total; jeq_auto
  · jeq_start JGen.CSb_Total Gen.CSb_Total Gen.AtomicWeight
    jeq_use (java_eq_c_CS_Total T Z hZ E s hs hN1 hN2 hN3)
    have h0 := haw _ (by assumption)
    jeq_auto

theorem java_eq_c_DCSb_Rayl (hN : inI32 (T.Nq_Rayl Z.toNat)) (haw0 : ∀ v, JGen.FF_Rayl (JTables.ofC T) Z (E / 12.3984193 * XNum.sin (theta / 2.0)) = .ok v → 0 ≤ T.AtomicWeight_arr Z.toNat)
    (haw : ∀ v, JGen.DCS_Rayl (JTables.ofC T) Z E theta = .ok v → 0 < T.AtomicWeight_arr Z.toNat) :
    JRel (JGen.DCSb_Rayl (JTables.ofC T) Z E theta) (Gen.DCSb_Rayl T Z E theta s) s := by
  by_cases hz : Z < 1 ∨ Z > 120
  · jeq_start JGen.DCSb_Rayl Gen.DCSb_Rayl JGen.DCS_Rayl Gen.DCS_Rayl; jeq_auto
  · jeq_start JGen.DCSb_Rayl Gen.DCSb_Rayl Gen.AtomicWeight
    jeq_use (java_eq_c_DCS_Rayl T Z hZ E theta s hs hN haw0)
    have h0 := haw _ (by assumption)
    jeq_auto

theorem java_eq_c_DCSb_Compt (hN : inI32 (T.Nq_Compt Z.toNat)) (haw0 : ∀ v, JGen.SF_Compt (JTables.ofC T) Z (E / 12.3984193 * XNum.sin (theta / 2.0)) = .ok v → 0 ≤ T.AtomicWeight_arr Z.toNat)
    (haw : ∀ v, JGen.DCS_Compt (JTables.ofC T) Z E theta = .ok v → 0 < T.AtomicWeight_arr Z.toNat) :
    JRel (JGen.DCSb_Compt (JTables.ofC T) Z E theta) (Gen.DCSb_Compt T Z E theta s) s := by
  by_cases hz : Z < 1 ∨ Z > 120
  · jeq_start JGen.DCSb_Compt Gen.DCSb_Compt JGen.DCS_Compt Gen.DCS_Compt; jeq_auto
  · jeq_start JGen.DCSb_Compt Gen.DCSb_Compt Gen.AtomicWeight
    jeq_use (java_eq_c_DCS_Compt T Z hZ E theta s hs hN haw0)
    have h0 := haw _ (by assumption)
    jeq_auto

theorem java_eq_c_DCSPb_Rayl (hN : inI32 (T.Nq_Rayl Z.toNat)) (haw0 : ∀ v, JGen.FF_Rayl (JTables.ofC T) Z (E / 12.3984193 * XNum.sin (theta / 2.0)) = .ok v → 0 < T.AtomicWeight_arr Z.toNat)
    (haw : ∀ v, JGen.DCSP_Rayl (JTables.ofC T) Z E theta phi = .ok v → 0 < T.AtomicWeight_arr Z.toNat) :
    JRel (JGen.DCSPb_Rayl (JTables.ofC T) Z E theta phi) (Gen.DCSPb_Rayl T Z E theta phi s) s := by
  by_cases hz : Z < 1 ∨ Z > 120
  · jeq_start JGen.DCSPb_Rayl Gen.DCSPb_Rayl JGen.DCSP_Rayl Gen.DCSP_Rayl; jeq_auto
  · jeq_start JGen.DCSPb_Rayl Gen.DCSPb_Rayl Gen.AtomicWeight
    jeq_use (java_eq_c_DCSP_Rayl T Z hZ E theta phi s hs hN haw0)
    have h0 := haw _ (by assumption)
    jeq_auto

theorem java_eq_c_DCSPb_Compt (hN : inI32 (T.Nq_Compt Z.toNat)) (haw0 : ∀ v, JGen.SF_Compt (JTables.ofC T) Z (E / 12.3984193 * XNum.sin (theta / 2.0)) = .ok v → 0 < T.AtomicWeight_arr Z.toNat)
    (haw : ∀ v, JGen.DCSP_Compt (JTables.ofC T) Z E theta phi = .ok v → 0 < T.AtomicWeight_arr Z.toNat) :
    JRel (JGen.DCSPb_Compt (JTables.ofC T) Z E theta phi) (Gen.DCSPb_Compt T Z E theta phi s) s := by
  by_cases hz : Z < 1 ∨ Z > 120
  · jeq_start JGen.DCSPb_Compt Gen.DCSPb_Compt JGen.DCSP_Compt Gen.DCSP_Compt; jeq_auto
  · jeq_start JGen.DCSPb_Compt Gen.DCSPb_Compt Gen.AtomicWeight
    jeq_use (java_eq_c_DCSP_Compt T Z hZ E theta phi s hs hN haw0)
    have h0 := haw _ (by assumption)
    jeq_auto

end barns

section kissel
variable (T : Tables ℝ) (Z m : Int) (hZ : inI32 Z) (hm : inI32 m) (E : ℝ) (s : Slot) (hs : s.isFull = false)
include hZ hm hs

theorem java_eq_c_CSb_Photo_Partial (hN : inI32 (T.NE_Photo_Partial_Kissel Z.toNat m.toNat))
    (hlenE : ¬ T.Electron_Config_Kissel Z.toNat m.toNat < 1.0e-6 → (T.E_Photo_Partial_Kissel Z.toNat m.toNat).len = T.NE_Photo_Partial_Kissel Z.toNat m.toNat)
    (hlenP : ¬ T.Electron_Config_Kissel Z.toNat m.toNat < 1.0e-6 → (T.Photo_Partial_Kissel Z.toNat m.toNat).len = T.NE_Photo_Partial_Kissel Z.toNat m.toNat) :
    JRel (JGen.CSb_Photo_Partial (JTables.ofC T) Z m E) (Gen.CSb_Photo_Partial T Z m E s) s := by
  jeq_start JGen.CSb_Photo_Partial Gen.CSb_Photo_Partial
  by_cases hz : Z < 1 ∨ Z > 120
  · jeq_auto
  by_cases hsh : m < 0 ∨ m ≥ 31
  · jeq_auto
  by_cases hE : E ≤ 0
  · jeq_auto
  simp (disch := omega) only [jrd_dynK]
  by_cases hm28' : m ≥ 28
  · jeq_auto
  have hm28 : m < 28 := by omega
  jeq_simp
  by_cases hcfg : T.Electron_Config_Kissel Z.toNat m.toNat < 10e-7
  · jeq_auto
  have hlenE := hlenE hcfg
  have hlenP := hlenP hcfg
  jeq_simp
  by_cases hedge : T.EdgeEnergy_arr Z.toNat m.toNat ≤ 0
  · jeq_auto
  jeq_simp
  by_cases hlow : E < T.EdgeEnergy_arr Z.toNat m.toNat
  · jeq_auto
  jeq_simp
  simp only [jrd_jvec, rdv_def, hlenE, hlenP]
  by_cases hn0 : T.NE_Photo_Partial_Kissel Z.toNat m.toNat ≤ 0
  · have h2 : ¬ ((0 : Int) ≤ 0 ∧ 0 < T.NE_Photo_Partial_Kissel Z.toNat m.toNat) := by omega
    simp only [hn0, h2, ↓reduceIte, bind_error, jbind_error]
    exact JRel.ub
  have h2 : ((0 : Int) ≤ 0 ∧ 0 < T.NE_Photo_Partial_Kissel Z.toNat m.toNat) := by omega
  simp only [hn0, h2, ↓reduceIte, bind_ok, jbind_ok, Int.toNat_zero, and_self, true_and, le_refl]
  by_cases hlog : Real.log E < (T.E_Photo_Partial_Kissel Z.toNat m.toNat).get 0
  · simp only [hlog, ↓reduceIte]
    by_cases h1 : (0 : Int) ≤ 1 ∧ 1 < T.NE_Photo_Partial_Kissel Z.toNat m.toNat
    · simp only [h1, and_self, ↓reduceIte, bind_ok, jbind_ok]
      jeq_auto
    · simp only [h1, ↓reduceIte, bind_ok, jbind_ok, bind_error, jbind_error]
      exact JRel.ub
  · simp only [hlog, ↓reduceIte]
    rcases (jsplint_rel_vec (JTables.ofC T) (T.E_Photo_Partial_Kissel Z.toNat m.toNat) (T.Photo_Partial_Kissel Z.toNat m.toNat)
      (T.Photo_Partial_Kissel2 Z.toNat m.toNat) (T.NE_Photo_Partial_Kissel Z.toNat m.toNat) hN
      (Real.log E) s hs).cases with ⟨y, hc, hj⟩ | ⟨e, hc, hj⟩ | ⟨a, b, hc, hj⟩ | ⟨a, hc⟩ <;> jeq_auto

omit hs in
theorem java_pos_CSb_Photo_Partial : JPos (JGen.CSb_Photo_Partial (JTables.ofC T) Z m E) := by
  unfold JGen.CSb_Photo_Partial
  dsimp only
  jpos_struct

theorem java_eq_c_CS_Photo_Partial (hN : inI32 (T.NE_Photo_Partial_Kissel Z.toNat m.toNat))
    (hlenE : ¬ T.Electron_Config_Kissel Z.toNat m.toNat < 1.0e-6 → (T.E_Photo_Partial_Kissel Z.toNat m.toNat).len = T.NE_Photo_Partial_Kissel Z.toNat m.toNat)
    (hlenP : ¬ T.Electron_Config_Kissel Z.toNat m.toNat < 1.0e-6 → (T.Photo_Partial_Kissel Z.toNat m.toNat).len = T.NE_Photo_Partial_Kissel Z.toNat m.toNat) :
    JRel (JGen.CS_Photo_Partial (JTables.ofC T) Z m E) (Gen.CS_Photo_Partial T Z m E s) s := by
  by_cases hz : Z < 1 ∨ Z > 120
  · jeq_start JGen.CS_Photo_Partial Gen.CS_Photo_Partial JGen.CSb_Photo_Partial Gen.CSb_Photo_Partial; jeq_auto
  by_cases hsh : m < 0 ∨ m ≥ 31
  · jeq_start JGen.CS_Photo_Partial Gen.CS_Photo_Partial JGen.CSb_Photo_Partial Gen.CSb_Photo_Partial; jeq_auto
  jeq_start JGen.CS_Photo_Partial Gen.CS_Photo_Partial
  jeq_use_pos (java_eq_c_CSb_Photo_Partial T Z m hZ hm E s hs hN hlenE hlenP), (java_pos_CSb_Photo_Partial T Z m hZ hm E)
  jeq_auto
end kissel

section fi
variable (T : Tables ℝ) (Z : Int) (hZ : inI32 Z) (E : ℝ) (s : Slot) (hs : s.isFull = false)
include hZ hs

/-- `Fi`: Java hands `NE_Fii_arr[Z]` (not `NE_Fi_arr[Z]`) to `splint` as the length of the `E_Fi`/`Fi` vectors (Xraylib.java:3263);
the C code uses `NE_Fi[Z]` (src/fi.c).  Equivalent exactly where the two counts agree. -/
theorem java_eq_c_Fi_partial (hN : inI32 (T.NE_Fi Z.toNat)) (hEq : T.NE_Fii Z.toNat = T.NE_Fi Z.toNat) :
    JRel (JGen.Fi (JTables.ofC T) Z E) (Gen.Fi T Z E s) s := by
  rcases (jsplint_rel_vec (JTables.ofC T) (T.E_Fi_arr Z.toNat) (T.Fi_arr Z.toNat) (T.Fi_arr2 Z.toNat) (T.NE_Fi Z.toNat) hN
    E s hs).cases with ⟨y, hc, hj⟩ | ⟨e, hc, hj⟩ | ⟨a, b, hc, hj⟩ | ⟨a, hc⟩ <;>
  (jeq_start JGen.Fi Gen.Fi; jeq_auto)
end fi

/-- the full statement (no hypothesis on the two counts) -/
def java_eq_c_Fi_full : Prop :=
  ∀ (T : Tables ℝ) (Z : Int), inI32 Z → ∀ (E : ℝ) (s : Slot), s.isFull = false → inI32 (T.NE_Fi Z.toNat) →
    JRel (JGen.Fi (JTables.ofC T) Z E) (Gen.Fi T Z E s) s

instance : Inhabited (Vec ℝ) := ⟨⟨0, fun _ => 0⟩⟩
/-- tables that are empty everywhere -/
noncomputable def T0 : Tables ℝ := by constructor <;> exact default
/-- witness: two knots (0, 1) ↦ 1 for `Fi`, but `NE_Fii = 1` -/
noncomputable def Tfi : Tables ℝ :=
  { T0 with NE_Fi := fun _ => 2, NE_Fii := fun _ => 1, E_Fi_arr := fun _ => ⟨2, fun k => (k : ℝ)⟩, Fi_arr := fun _ => ⟨2, fun _ => 1⟩,
            Fi_arr2 := fun _ => ⟨2, fun _ => 0⟩ }

theorem java_eq_c_Fi_full_fails : ¬ java_eq_c_Fi_full := by
  intro h
  have h1 := h Tfi 1 (by decide) 0.5 Slot.empty rfl (by decide)
  have hc : Gen.Fi Tfi 1 0.5 Slot.empty = Except.ok (1, Slot.empty) := by
    unfold Gen.Fi
    simp [Tfi, rd1, splint, rdv, bisect, splintAt, splintCubic, deq_real]
    norm_num
  have hj : JGen.Fi (JTables.ofC Tfi) 1 0.5 = Except.error (JStop.iae "Spline extrapolation is not allowed") := by
    unfold JGen.Fi JGen.splint
    simp [Tfi, JTables.ofC, Hdr.ZMAX, jdyn, jvec, jrd, wrapI]
    norm_num
  rw [hc, hj] at h1
  rcases h1 with ⟨_, h2⟩ | ⟨e, h2, _⟩
  · cases h2
  · norm_num at h2

section biggs
variable (T : Tables ℝ) (Z m : Int) (hZ : inI32 Z) (hm : inI32 m) (s : Slot) (hs : s.isFull = false)
include hZ hm hs
/-- `ElectronConfig_Biggs`: Java lacks the `shell < 0` test of C (src/comptonprofiles.c) and runs into an
`ArrayIndexOutOfBoundsException` instead of the `IllegalArgumentException`: equivalent in the weak reading only -/
theorem java_eqw_c_ElectronConfig_Biggs :
    JRelW (JGen.ElectronConfig_Biggs (JTables.ofC T) Z m) (Gen.ElectronConfig_Biggs T Z m s) s := by
  jeq_start JGen.ElectronConfig_Biggs Gen.ElectronConfig_Biggs
  by_cases hz : Z < 1 ∨ Z > 120
  · jeqw_auto
  jeq_simp
  simp only [jrd_jvec, rdv_def]
  jeqw_auto
end biggs


section catches
variable (T : Tables ℝ) (Z m : Int) (hZ : inI32 Z) (hm : inI32 m)
include hZ hm

theorem catch_EdgeEnergy : JCatchRel (JGen.EdgeEnergy_catch (JTables.ofC T) Z m) (Gen.EdgeEnergy T Z m Slot.null) := by
  unfold JGen.EdgeEnergy_catch; exact JCatchRel.of_rel (java_eq_c_EdgeEnergy T Z m hZ hm Slot.null rfl)
theorem catch_FluorYield : JCatchRel (JGen.FluorYield_catch (JTables.ofC T) Z m) (Gen.FluorYield T Z m Slot.null) := by
  unfold JGen.FluorYield_catch; exact JCatchRel.of_rel (java_eq_c_FluorYield T Z m hZ hm Slot.null rfl)
theorem catch_JumpFactor : JCatchRel (JGen.JumpFactor_catch (JTables.ofC T) Z m) (Gen.JumpFactor T Z m Slot.null) := by
  unfold JGen.JumpFactor_catch; exact JCatchRel.of_rel (java_eq_c_JumpFactor T Z m hZ hm Slot.null rfl)
theorem catch_CosKronTransProb : JCatchRel (JGen.CosKronTransProb_catch (JTables.ofC T) Z m) (Gen.CosKronTransProb T Z m Slot.null) := by
  unfold JGen.CosKronTransProb_catch; exact JCatchRel.of_rel (java_eq_c_CosKronTransProb T Z m hZ hm Slot.null rfl)
theorem catch_RadRate : JCatchRel (JGen.RadRate_catch (JTables.ofC T) Z m) (Gen.RadRate T Z m Slot.null) := by
  unfold JGen.RadRate_catch; exact JCatchRel.of_rel (java_eq_c_RadRate T Z m hZ hm Slot.null rfl)
end catches

section jumps
variable (T : Tables ℝ) (Z : Int) (hZ : inI32 Z) (E : ℝ) (s : Slot) (hs : s.isFull = false)
include hZ

theorem java_pos_JumpFactor (m : Int) (hm : inI32 m) : JPos (JGen.JumpFactor (JTables.ofC T) Z m) := by
  jeq_startJ JGen.JumpFactor; jpos_auto
theorem java_pos_FluorYield (m : Int) (hm : inI32 m) : JPos (JGen.FluorYield (JTables.ofC T) Z m) := by
  jeq_startJ JGen.FluorYield; jpos_auto
theorem java_pos_EdgeEnergy (m : Int) (hm : inI32 m) : JPos (JGen.EdgeEnergy (JTables.ofC T) Z m) := by
  jeq_startJ JGen.EdgeEnergy; jpos_auto

include hs
/-- the K-shell absorption share: C reports a vanishing share itself (src/cs_line.c), Java leaves that to `CS_FluorShell` -/
theorem jump_K_rel :
    JRel (do let f ← JGen.Jump_from_K (JTables.ofC T) Z E
             if f = 0 then throw (JStop.iae "Jump factor unavailable for element and shell") else pure f)
      (Gen.Jump_from_K T Z E s) s := by
  jeq_start JGen.Jump_from_K Gen.Jump_from_K
  jeq_use_pos (java_eq_c_EdgeEnergy T Z 0 hZ (by decide) s hs), (java_pos_EdgeEnergy T Z hZ 0 (by decide))
  jeq_simp
  split_ifs
  · jeq_use_pos (java_eq_c_JumpFactor T Z 0 hZ (by decide) s hs), (java_pos_JumpFactor T Z hZ 0 (by decide))
    jeq_simp
    jeq_use_pos (java_eq_c_FluorYield T Z 0 hZ (by decide) s hs), (java_pos_FluorYield T Z hZ 0 (by decide))
    jeq_auto
  · jeq_auto
end jumps


section kissel2
variable (T : Tables ℝ) (Z m : Int) (hZ : inI32 Z) (hm : inI32 m) (E : ℝ)
include hZ hm


/-- what a value of the Java `CSb_Photo_Partial` tells about its arguments -/
theorem java_ok_CSb_Photo_Partial {v : ℝ} (h : JGen.CSb_Photo_Partial (JTables.ofC T) Z m E = .ok v) :
    ¬(Z < 1 ∨ Z > 120) ∧ ¬(m < 0 ∨ m ≥ 31) ∧ ¬ (T.Electron_Config_Kissel Z.toNat m.toNat < 1.0e-6) ∧ m < 28 := by
  unfold JGen.CSb_Photo_Partial at h
  jeq_normJ
  by_cases hz : Z < 1 ∨ Z > 120
  · simp only [hz, ↓reduceIte, jthrow_eq_error] at h; cases h
  by_cases hsh : m < 0 ∨ m ≥ 31
  · simp only [hz, hsh, ↓reduceIte, jthrow_eq_error] at h; cases h
  by_cases hE : E ≤ 0.0
  · simp only [hz, hsh, hE, ↓reduceIte, jthrow_eq_error] at h; cases h
  simp only [hz, hsh, hE, ↓reduceIte] at h
  by_cases h28 : m ≥ 28
  · rw [@if_pos (m ≥ 28) ((JTables.ofC T).SHELLNUM.decLe m) h28, jpure_eq_ok, jbind_ok, if_pos rfl, jpure_eq_ok, jbind_ok, if_pos rfl] at h; cases h
  refine ⟨hz, hsh, ?_, by omega⟩
  intro hc
  rw [@if_neg (m ≥ 28) ((JTables.ofC T).SHELLNUM.decLe m) h28] at h
  have e1 : wrapI (wrapI (Z * 31) + m) = Z * 31 + m := by rw [wrapI_eq (x := Z * 31) (by omega) (by omega), wrapI_eq (by omega) (by omega)]
  rw [e1, jrd_flat2 _ _ _ _ _ _ _ (by omega) (by omega) (by omega) (by omega) (by omega)] at h
  rw [jbind_ok] at h
  simp only [hc, ↓reduceIte] at h
  rw [jpure_eq_ok, jbind_ok] at h
  simp only [↓reduceIte, jthrow_eq_error] at h
  cases h

/-- a value of the Java `CS_Photo_Partial` is never 0 (the test the C cascade helpers make) -/
theorem java_nz_CS_Photo_Partial {v : ℝ} (h : JGen.CS_Photo_Partial (JTables.ofC T) Z m E = .ok v) : v ≠ 0 := by
  unfold JGen.CS_Photo_Partial at h
  rcases hj : JGen.CSb_Photo_Partial (JTables.ofC T) Z m E with e | r
  · rw [hj] at h; cases h
  · obtain ⟨hz, hsh, hc, _⟩ := java_ok_CSb_Photo_Partial T Z m hZ hm E hj
    have hr := java_pos_CSb_Photo_Partial T Z m hZ hm E r hj
    rw [hj] at h
    jeq_normJ
    simp (disch := omega) only [jbind_ok, jpure_eq_ok, wrapI_eq, jrd_flat2, jrd_vec, jdiv_real] at h
    by_cases haw : T.AtomicWeight_arr Z.toNat = 0
    · simp only [haw, ↓reduceIte] at h; cases h
    · simp only [haw, ↓reduceIte] at h
      cases h
      have hc0 : T.Electron_Config_Kissel Z.toNat m.toNat ≠ 0 := by
        intro h0; rw [h0] at hc; norm_num at hc
      exact div_ne_zero (mul_ne_zero (mul_ne_zero hr.ne' hc0) (by norm_num)) haw

theorem java_rng_CS_Photo_Partial {v : ℝ} (h : JGen.CS_Photo_Partial (JTables.ofC T) Z m E = .ok v) : ¬(Z < 1 ∨ Z > 120) := by
  unfold JGen.CS_Photo_Partial at h
  rcases hj : JGen.CSb_Photo_Partial (JTables.ofC T) Z m E with e | r
  · rw [hj] at h; cases h
  · exact (java_ok_CSb_Photo_Partial T Z m hZ hm E hj).1
end kissel2

/-- the C accessor returns (never stops): leaves of the case analysis -/
macro "ctotal_auto" : tactic =>
  `(tactic| (
    (try jeq_simp)
    repeat' (first
      | exact ⟨_, rfl⟩
      | omega
      | (simp only [wrapI] at *; omega)
      | (split_ifs <;> (try jeq_simp)))))

section totals
variable (T : Tables ℝ) (Z m : Int) (hZ : inI32 Z) (hm : inI32 m)
include hZ hm

theorem c_total_FluorYield : ∃ r, Gen.FluorYield T Z m Slot.null = .ok r := by
  unfold Gen.FluorYield; jeq_normJ; ctotal_auto
theorem c_total_CosKronTransProb : ∃ r, Gen.CosKronTransProb T Z m Slot.null = .ok r := by
  unfold Gen.CosKronTransProb; jeq_normJ; ctotal_auto
theorem c_total_EdgeEnergy : ∃ r, Gen.EdgeEnergy T Z m Slot.null = .ok r := by
  unfold Gen.EdgeEnergy; jeq_normJ; ctotal_auto
theorem c_total_JumpFactor : ∃ r, Gen.JumpFactor T Z m Slot.null = .ok r := by
  unfold Gen.JumpFactor; jeq_normJ; ctotal_auto
theorem c_total_RadRate : ∃ r, Gen.RadRate T Z m Slot.null = .ok r := by
  unfold Gen.RadRate FUEL Gen.RadRate_fuel; jeq_normJ
  by_cases hz : Z < 1 ∨ Z > 120
  · ctotal_auto
  by_cases h1 : m = 1
  · subst h1
    jeq_simp
    unfold Gen.RadRate_fuel
    simp only [loopM_3]
    ctotal_auto
  · simp only [loopM_3]
    ctotal_auto

theorem catchT_FluorYield : ∃ v, Gen.FluorYield T Z m Slot.null = .ok (v, Slot.null) ∧ JGen.FluorYield_catch (JTables.ofC T) Z m = .ok v := by
  obtain ⟨r, hr⟩ := c_total_FluorYield T Z m hZ hm
  rcases (catch_FluorYield T Z m hZ hm).cases with h | ⟨a, b, hc, _⟩ | ⟨a, hc⟩
  · exact h
  · rw [hc] at hr; cases hr
  · rw [hc] at hr; cases hr
theorem catchT_CosKronTransProb : ∃ v, Gen.CosKronTransProb T Z m Slot.null = .ok (v, Slot.null) ∧ JGen.CosKronTransProb_catch (JTables.ofC T) Z m = .ok v := by
  obtain ⟨r, hr⟩ := c_total_CosKronTransProb T Z m hZ hm
  rcases (catch_CosKronTransProb T Z m hZ hm).cases with h | ⟨a, b, hc, _⟩ | ⟨a, hc⟩
  · exact h
  · rw [hc] at hr; cases hr
  · rw [hc] at hr; cases hr
theorem catchT_EdgeEnergy : ∃ v, Gen.EdgeEnergy T Z m Slot.null = .ok (v, Slot.null) ∧ JGen.EdgeEnergy_catch (JTables.ofC T) Z m = .ok v := by
  obtain ⟨r, hr⟩ := c_total_EdgeEnergy T Z m hZ hm
  rcases (catch_EdgeEnergy T Z m hZ hm).cases with h | ⟨a, b, hc, _⟩ | ⟨a, hc⟩
  · exact h
  · rw [hc] at hr; cases hr
  · rw [hc] at hr; cases hr
theorem catchT_JumpFactor : ∃ v, Gen.JumpFactor T Z m Slot.null = .ok (v, Slot.null) ∧ JGen.JumpFactor_catch (JTables.ofC T) Z m = .ok v := by
  obtain ⟨r, hr⟩ := c_total_JumpFactor T Z m hZ hm
  rcases (catch_JumpFactor T Z m hZ hm).cases with h | ⟨a, b, hc, _⟩ | ⟨a, hc⟩
  · exact h
  · rw [hc] at hr; cases hr
  · rw [hc] at hr; cases hr
theorem catchT_RadRate : ∃ v, Gen.RadRate T Z m Slot.null = .ok (v, Slot.null) ∧ JGen.RadRate_catch (JTables.ofC T) Z m = .ok v := by
  obtain ⟨r, hr⟩ := c_total_RadRate T Z m hZ hm
  rcases (catch_RadRate T Z m hZ hm).cases with h | ⟨a, b, hc, _⟩ | ⟨a, hc⟩
  · exact h
  · rw [hc] at hr; cases hr
  · rw [hc] at hr; cases hr
end totals

/-- bring the value-or-zero fact of an accessor call into the context -/
macro "jeq_have_catch" t:term : tactic => `(tactic| obtain ⟨v, hc, hj⟩ := $t)

/-- well-formedness of the Kissel vectors of sub-shell `k` of element `Z`: the count is an `int` and, where the sub-shell is occupied
(the only case in which the vectors are read), equals the lengths of the two vectors (an empty sub-shell has count 0 and one-element dummies) -/
def KVecOk (T : Tables ℝ) (Z k : Int) : Prop :=
  inI32 (T.NE_Photo_Partial_Kissel Z.toNat k.toNat) ∧
  (¬ T.Electron_Config_Kissel Z.toNat k.toNat < 1.0e-6 → (T.E_Photo_Partial_Kissel Z.toNat k.toNat).len = T.NE_Photo_Partial_Kissel Z.toNat k.toNat) ∧
  (¬ T.Electron_Config_Kissel Z.toNat k.toNat < 1.0e-6 → (T.Photo_Partial_Kissel Z.toNat k.toNat).len = T.NE_Photo_Partial_Kissel Z.toNat k.toNat)

section phelpers
variable (T : Tables ℝ) (Z : Int) (hZ : inI32 Z) (E PK PL1 PL2 PL3 PM1 PM2 PM3 PM4 : ℝ) (s : Slot) (hs : s.isFull = false)
include hZ hs

/-- use the theorem of `CS_Photo_Partial` for sub-shell `k` (< 28) inside a cascade helper -/
macro "jeq_use_partial" k:num "," hk:ident : tactic =>
  `(tactic| (rcases (JRel.cases (java_eq_c_CS_Photo_Partial T Z $k hZ (by decide) E s hs ($hk).1 ($hk).2.1 ($hk).2.2))
      with ⟨v, hc, hj⟩ | ⟨e, hc, hj⟩ | ⟨a, b, hc, hj⟩ | ⟨a, hc⟩ <;>
      [(have hne := java_nz_CS_Photo_Partial T Z $k hZ (by decide) E hj; have hrng := java_rng_CS_Photo_Partial T Z $k hZ (by decide) E hj); (jeq_auto; done); (jeq_auto; done); (jeq_auto; done)]))

theorem java_eq_c_PL1_pure_kissel (h1 : KVecOk T Z 1) :
    JRel (JGen.PL1_pure_kissel (JTables.ofC T) Z E) (Gen.PL1_pure_kissel T Z E s) s := by
  jeq_start JGen.PL1_pure_kissel Gen.PL1_pure_kissel
  jeq_use_partial 1, h1
  jeq_auto

theorem java_eq_c_PL2_pure_kissel (h2 : KVecOk T Z 2) :
    JRel (JGen.PL2_pure_kissel (JTables.ofC T) Z E PL1) (Gen.PL2_pure_kissel T Z E PL1 s) s := by
  jeq_start JGen.PL2_pure_kissel Gen.PL2_pure_kissel
  jeq_use_partial 2, h2
  jeq_have_catch (catchT_CosKronTransProb T Z 1 hZ (by decide))
  jeq_auto

theorem java_eq_c_PL1_rad_cascade_kissel (h1 : KVecOk T Z 1) :
    JRel (JGen.PL1_rad_cascade_kissel (JTables.ofC T) Z E PK) (Gen.PL1_rad_cascade_kissel T Z E PK s) s := by
  jeq_start JGen.PL1_rad_cascade_kissel Gen.PL1_rad_cascade_kissel
  jeq_use_partial 1, h1
  jeq_have_catch (catchT_FluorYield T Z 0 hZ (by decide))
  jeq_have_catch (catchT_RadRate T Z (-1) hZ (by decide))
  jeq_auto

theorem java_eq_c_PL1_full_cascade_kissel (h1 : KVecOk T Z 1) :
    JRel (JGen.PL1_full_cascade_kissel (JTables.ofC T) Z E PK) (Gen.PL1_full_cascade_kissel T Z E PK s) s := by
  jeq_start JGen.PL1_full_cascade_kissel Gen.PL1_full_cascade_kissel JGen.get_kissel_offset
  jeq_use_partial 1, h1
  jeq_pure
  jeq_auto
theorem java_eq_c_PL1_auger_cascade_kissel (hk : KVecOk T Z 1) :
    JRel (JGen.PL1_auger_cascade_kissel (JTables.ofC T) Z E PK) (Gen.PL1_auger_cascade_kissel T Z E PK s) s := by
  jeq_start JGen.PL1_auger_cascade_kissel Gen.PL1_auger_cascade_kissel JGen.get_kissel_offset
  jeq_use_partial 1, hk
  jeq_pure
  jeq_auto

theorem java_eq_c_PL2_rad_cascade_kissel (hk : KVecOk T Z 2) :
    JRel (JGen.PL2_rad_cascade_kissel (JTables.ofC T) Z E PK PL1) (Gen.PL2_rad_cascade_kissel T Z E PK PL1 s) s := by
  jeq_start JGen.PL2_rad_cascade_kissel Gen.PL2_rad_cascade_kissel
  jeq_use_partial 2, hk
  jeq_have_catch (catchT_FluorYield T Z 0 hZ (by decide))
  jeq_have_catch (catchT_RadRate T Z (-2) hZ (by decide))
  jeq_have_catch (catchT_CosKronTransProb T Z 1 hZ (by decide))
  jeq_pure
  jeq_auto

theorem java_eq_c_PL2_auger_cascade_kissel (hk : KVecOk T Z 2) :
    JRel (JGen.PL2_auger_cascade_kissel (JTables.ofC T) Z E PK PL1) (Gen.PL2_auger_cascade_kissel T Z E PK PL1 s) s := by
  jeq_start JGen.PL2_auger_cascade_kissel Gen.PL2_auger_cascade_kissel JGen.get_kissel_offset
  jeq_use_partial 2, hk
  jeq_have_catch (catchT_CosKronTransProb T Z 1 hZ (by decide))
  jeq_pure
  jeq_auto

theorem java_eq_c_PL2_full_cascade_kissel (hk : KVecOk T Z 2) :
    JRel (JGen.PL2_full_cascade_kissel (JTables.ofC T) Z E PK PL1) (Gen.PL2_full_cascade_kissel T Z E PK PL1 s) s := by
  jeq_start JGen.PL2_full_cascade_kissel Gen.PL2_full_cascade_kissel JGen.get_kissel_offset
  jeq_use_partial 2, hk
  jeq_have_catch (catchT_CosKronTransProb T Z 1 hZ (by decide))
  jeq_pure
  jeq_auto

theorem java_eq_c_PL3_pure_kissel (hk : KVecOk T Z 3) :
    JRel (JGen.PL3_pure_kissel (JTables.ofC T) Z E PL1 PL2) (Gen.PL3_pure_kissel T Z E PL1 PL2 s) s := by
  jeq_start JGen.PL3_pure_kissel Gen.PL3_pure_kissel
  jeq_use_partial 3, hk
  jeq_have_catch (catchT_CosKronTransProb T Z 2 hZ (by decide))
  jeq_have_catch (catchT_CosKronTransProb T Z 3 hZ (by decide))
  jeq_have_catch (catchT_CosKronTransProb T Z 4 hZ (by decide))
  jeq_pure
  jeq_auto

theorem java_eq_c_PL3_rad_cascade_kissel (hk : KVecOk T Z 3) :
    JRel (JGen.PL3_rad_cascade_kissel (JTables.ofC T) Z E PK PL1 PL2) (Gen.PL3_rad_cascade_kissel T Z E PK PL1 PL2 s) s := by
  jeq_start JGen.PL3_rad_cascade_kissel Gen.PL3_rad_cascade_kissel
  jeq_use_partial 3, hk
  jeq_have_catch (catchT_FluorYield T Z 0 hZ (by decide))
  jeq_have_catch (catchT_RadRate T Z (-3) hZ (by decide))
  jeq_have_catch (catchT_CosKronTransProb T Z 2 hZ (by decide))
  jeq_have_catch (catchT_CosKronTransProb T Z 3 hZ (by decide))
  jeq_have_catch (catchT_CosKronTransProb T Z 4 hZ (by decide))
  jeq_pure
  jeq_auto

theorem java_eq_c_PL3_auger_cascade_kissel (hk : KVecOk T Z 3) :
    JRel (JGen.PL3_auger_cascade_kissel (JTables.ofC T) Z E PK PL1 PL2) (Gen.PL3_auger_cascade_kissel T Z E PK PL1 PL2 s) s := by
  jeq_start JGen.PL3_auger_cascade_kissel Gen.PL3_auger_cascade_kissel JGen.get_kissel_offset
  jeq_use_partial 3, hk
  jeq_have_catch (catchT_CosKronTransProb T Z 2 hZ (by decide))
  jeq_have_catch (catchT_CosKronTransProb T Z 3 hZ (by decide))
  jeq_have_catch (catchT_CosKronTransProb T Z 4 hZ (by decide))
  jeq_pure
  jeq_auto

theorem java_eq_c_PL3_full_cascade_kissel (hk : KVecOk T Z 3) :
    JRel (JGen.PL3_full_cascade_kissel (JTables.ofC T) Z E PK PL1 PL2) (Gen.PL3_full_cascade_kissel T Z E PK PL1 PL2 s) s := by
  jeq_start JGen.PL3_full_cascade_kissel Gen.PL3_full_cascade_kissel JGen.get_kissel_offset
  jeq_use_partial 3, hk
  jeq_have_catch (catchT_CosKronTransProb T Z 2 hZ (by decide))
  jeq_have_catch (catchT_CosKronTransProb T Z 3 hZ (by decide))
  jeq_have_catch (catchT_CosKronTransProb T Z 4 hZ (by decide))
  jeq_pure
  jeq_auto

theorem java_eq_c_PM1_pure_kissel (hk : KVecOk T Z 4) :
    JRel (JGen.PM1_pure_kissel (JTables.ofC T) Z E) (Gen.PM1_pure_kissel T Z E s) s := by
  jeq_start JGen.PM1_pure_kissel Gen.PM1_pure_kissel
  jeq_use_partial 4, hk
  jeq_pure
  jeq_auto

theorem java_eq_c_PM1_rad_cascade_kissel (hk : KVecOk T Z 4) :
    JRel (JGen.PM1_rad_cascade_kissel (JTables.ofC T) Z E PK PL1 PL2 PL3) (Gen.PM1_rad_cascade_kissel T Z E PK PL1 PL2 PL3 s) s := by
  jeq_start JGen.PM1_rad_cascade_kissel Gen.PM1_rad_cascade_kissel
  jeq_use_partial 4, hk
  jeq_have_catch (catchT_FluorYield T Z 0 hZ (by decide))
  jeq_have_catch (catchT_RadRate T Z (-4) hZ (by decide))
  jeq_have_catch (catchT_FluorYield T Z 1 hZ (by decide))
  jeq_have_catch (catchT_RadRate T Z (-32) hZ (by decide))
  jeq_have_catch (catchT_FluorYield T Z 2 hZ (by decide))
  jeq_have_catch (catchT_RadRate T Z (-60) hZ (by decide))
  jeq_have_catch (catchT_FluorYield T Z 3 hZ (by decide))
  jeq_have_catch (catchT_RadRate T Z (-86) hZ (by decide))
  jeq_pure
  jeq_auto

theorem java_eq_c_PM1_auger_cascade_kissel (hk : KVecOk T Z 4) :
    JRel (JGen.PM1_auger_cascade_kissel (JTables.ofC T) Z E PK PL1 PL2 PL3) (Gen.PM1_auger_cascade_kissel T Z E PK PL1 PL2 PL3 s) s := by
  jeq_start JGen.PM1_auger_cascade_kissel Gen.PM1_auger_cascade_kissel JGen.get_kissel_offset
  jeq_use_partial 4, hk
  jeq_pure
  jeq_auto

theorem java_eq_c_PM1_full_cascade_kissel (hk : KVecOk T Z 4) :
    JRel (JGen.PM1_full_cascade_kissel (JTables.ofC T) Z E PK PL1 PL2 PL3) (Gen.PM1_full_cascade_kissel T Z E PK PL1 PL2 PL3 s) s := by
  jeq_start JGen.PM1_full_cascade_kissel Gen.PM1_full_cascade_kissel JGen.get_kissel_offset
  jeq_use_partial 4, hk
  jeq_pure
  jeq_auto

theorem java_eq_c_PM2_pure_kissel (hk : KVecOk T Z 5) :
    JRel (JGen.PM2_pure_kissel (JTables.ofC T) Z E PM1) (Gen.PM2_pure_kissel T Z E PM1 s) s := by
  jeq_start JGen.PM2_pure_kissel Gen.PM2_pure_kissel
  jeq_use_partial 5, hk
  jeq_have_catch (catchT_CosKronTransProb T Z 5 hZ (by decide))
  jeq_pure
  jeq_auto

theorem java_eq_c_PM2_rad_cascade_kissel (hk : KVecOk T Z 5) :
    JRel (JGen.PM2_rad_cascade_kissel (JTables.ofC T) Z E PK PL1 PL2 PL3 PM1) (Gen.PM2_rad_cascade_kissel T Z E PK PL1 PL2 PL3 PM1 s) s := by
  jeq_start JGen.PM2_rad_cascade_kissel Gen.PM2_rad_cascade_kissel
  jeq_use_partial 5, hk
  jeq_have_catch (catchT_FluorYield T Z 0 hZ (by decide))
  jeq_have_catch (catchT_RadRate T Z (-5) hZ (by decide))
  jeq_have_catch (catchT_FluorYield T Z 1 hZ (by decide))
  jeq_have_catch (catchT_RadRate T Z (-33) hZ (by decide))
  jeq_have_catch (catchT_FluorYield T Z 2 hZ (by decide))
  jeq_have_catch (catchT_RadRate T Z (-61) hZ (by decide))
  jeq_have_catch (catchT_FluorYield T Z 3 hZ (by decide))
  jeq_have_catch (catchT_RadRate T Z (-87) hZ (by decide))
  jeq_have_catch (catchT_CosKronTransProb T Z 5 hZ (by decide))
  jeq_pure
  jeq_auto

theorem java_eq_c_PM2_auger_cascade_kissel (hk : KVecOk T Z 5) :
    JRel (JGen.PM2_auger_cascade_kissel (JTables.ofC T) Z E PK PL1 PL2 PL3 PM1) (Gen.PM2_auger_cascade_kissel T Z E PK PL1 PL2 PL3 PM1 s) s := by
  jeq_start JGen.PM2_auger_cascade_kissel Gen.PM2_auger_cascade_kissel JGen.get_kissel_offset
  jeq_use_partial 5, hk
  jeq_have_catch (catchT_CosKronTransProb T Z 5 hZ (by decide))
  jeq_pure
  jeq_auto

theorem java_eq_c_PM2_full_cascade_kissel (hk : KVecOk T Z 5) :
    JRel (JGen.PM2_full_cascade_kissel (JTables.ofC T) Z E PK PL1 PL2 PL3 PM1) (Gen.PM2_full_cascade_kissel T Z E PK PL1 PL2 PL3 PM1 s) s := by
  jeq_start JGen.PM2_full_cascade_kissel Gen.PM2_full_cascade_kissel JGen.get_kissel_offset
  jeq_use_partial 5, hk
  jeq_have_catch (catchT_CosKronTransProb T Z 5 hZ (by decide))
  jeq_pure
  jeq_auto

theorem java_eq_c_PM3_pure_kissel (hk : KVecOk T Z 6) :
    JRel (JGen.PM3_pure_kissel (JTables.ofC T) Z E PM1 PM2) (Gen.PM3_pure_kissel T Z E PM1 PM2 s) s := by
  jeq_start JGen.PM3_pure_kissel Gen.PM3_pure_kissel
  jeq_use_partial 6, hk
  jeq_have_catch (catchT_CosKronTransProb T Z 6 hZ (by decide))
  jeq_have_catch (catchT_CosKronTransProb T Z 9 hZ (by decide))
  jeq_pure
  jeq_auto

theorem java_eq_c_PM3_rad_cascade_kissel (hk : KVecOk T Z 6) :
    JRel (JGen.PM3_rad_cascade_kissel (JTables.ofC T) Z E PK PL1 PL2 PL3 PM1 PM2) (Gen.PM3_rad_cascade_kissel T Z E PK PL1 PL2 PL3 PM1 PM2 s) s := by
  jeq_start JGen.PM3_rad_cascade_kissel Gen.PM3_rad_cascade_kissel
  jeq_use_partial 6, hk
  jeq_have_catch (catchT_FluorYield T Z 0 hZ (by decide))
  jeq_have_catch (catchT_RadRate T Z (-6) hZ (by decide))
  jeq_have_catch (catchT_FluorYield T Z 1 hZ (by decide))
  jeq_have_catch (catchT_RadRate T Z (-34) hZ (by decide))
  jeq_have_catch (catchT_FluorYield T Z 2 hZ (by decide))
  jeq_have_catch (catchT_RadRate T Z (-62) hZ (by decide))
  jeq_have_catch (catchT_FluorYield T Z 3 hZ (by decide))
  jeq_have_catch (catchT_RadRate T Z (-88) hZ (by decide))
  jeq_have_catch (catchT_CosKronTransProb T Z 6 hZ (by decide))
  jeq_have_catch (catchT_CosKronTransProb T Z 9 hZ (by decide))
  jeq_pure
  jeq_auto

theorem java_eq_c_PM3_auger_cascade_kissel (hk : KVecOk T Z 6) :
    JRel (JGen.PM3_auger_cascade_kissel (JTables.ofC T) Z E PK PL1 PL2 PL3 PM1 PM2) (Gen.PM3_auger_cascade_kissel T Z E PK PL1 PL2 PL3 PM1 PM2 s) s := by
  jeq_start JGen.PM3_auger_cascade_kissel Gen.PM3_auger_cascade_kissel JGen.get_kissel_offset
  jeq_use_partial 6, hk
  jeq_have_catch (catchT_CosKronTransProb T Z 6 hZ (by decide))
  jeq_have_catch (catchT_CosKronTransProb T Z 9 hZ (by decide))
  jeq_pure
  jeq_auto

theorem java_eq_c_PM3_full_cascade_kissel (hk : KVecOk T Z 6) :
    JRel (JGen.PM3_full_cascade_kissel (JTables.ofC T) Z E PK PL1 PL2 PL3 PM1 PM2) (Gen.PM3_full_cascade_kissel T Z E PK PL1 PL2 PL3 PM1 PM2 s) s := by
  jeq_start JGen.PM3_full_cascade_kissel Gen.PM3_full_cascade_kissel JGen.get_kissel_offset
  jeq_use_partial 6, hk
  jeq_have_catch (catchT_CosKronTransProb T Z 6 hZ (by decide))
  jeq_have_catch (catchT_CosKronTransProb T Z 9 hZ (by decide))
  jeq_pure
  jeq_auto

theorem java_eq_c_PM4_pure_kissel (hk : KVecOk T Z 7) :
    JRel (JGen.PM4_pure_kissel (JTables.ofC T) Z E PM1 PM2 PM3) (Gen.PM4_pure_kissel T Z E PM1 PM2 PM3 s) s := by
  jeq_start JGen.PM4_pure_kissel Gen.PM4_pure_kissel
  jeq_use_partial 7, hk
  jeq_have_catch (catchT_CosKronTransProb T Z 7 hZ (by decide))
  jeq_have_catch (catchT_CosKronTransProb T Z 10 hZ (by decide))
  jeq_have_catch (catchT_CosKronTransProb T Z 12 hZ (by decide))
  jeq_pure
  jeq_auto

theorem java_eq_c_PM4_rad_cascade_kissel (hk : KVecOk T Z 7) :
    JRel (JGen.PM4_rad_cascade_kissel (JTables.ofC T) Z E PK PL1 PL2 PL3 PM1 PM2 PM3) (Gen.PM4_rad_cascade_kissel T Z E PK PL1 PL2 PL3 PM1 PM2 PM3 s) s := by
  jeq_start JGen.PM4_rad_cascade_kissel Gen.PM4_rad_cascade_kissel
  jeq_use_partial 7, hk
  jeq_have_catch (catchT_FluorYield T Z 0 hZ (by decide))
  jeq_have_catch (catchT_RadRate T Z (-7) hZ (by decide))
  jeq_have_catch (catchT_FluorYield T Z 1 hZ (by decide))
  jeq_have_catch (catchT_RadRate T Z (-35) hZ (by decide))
  jeq_have_catch (catchT_FluorYield T Z 2 hZ (by decide))
  jeq_have_catch (catchT_RadRate T Z (-63) hZ (by decide))
  jeq_have_catch (catchT_FluorYield T Z 3 hZ (by decide))
  jeq_have_catch (catchT_RadRate T Z (-89) hZ (by decide))
  jeq_have_catch (catchT_CosKronTransProb T Z 7 hZ (by decide))
  jeq_have_catch (catchT_CosKronTransProb T Z 10 hZ (by decide))
  jeq_have_catch (catchT_CosKronTransProb T Z 12 hZ (by decide))
  jeq_pure
  jeq_auto

theorem java_eq_c_PM4_auger_cascade_kissel (hk : KVecOk T Z 7) :
    JRel (JGen.PM4_auger_cascade_kissel (JTables.ofC T) Z E PK PL1 PL2 PL3 PM1 PM2 PM3) (Gen.PM4_auger_cascade_kissel T Z E PK PL1 PL2 PL3 PM1 PM2 PM3 s) s := by
  jeq_start JGen.PM4_auger_cascade_kissel Gen.PM4_auger_cascade_kissel JGen.get_kissel_offset
  jeq_use_partial 7, hk
  jeq_have_catch (catchT_CosKronTransProb T Z 7 hZ (by decide))
  jeq_have_catch (catchT_CosKronTransProb T Z 10 hZ (by decide))
  jeq_have_catch (catchT_CosKronTransProb T Z 12 hZ (by decide))
  jeq_pure
  jeq_auto

theorem java_eq_c_PM4_full_cascade_kissel (hk : KVecOk T Z 7) :
    JRel (JGen.PM4_full_cascade_kissel (JTables.ofC T) Z E PK PL1 PL2 PL3 PM1 PM2 PM3) (Gen.PM4_full_cascade_kissel T Z E PK PL1 PL2 PL3 PM1 PM2 PM3 s) s := by
  jeq_start JGen.PM4_full_cascade_kissel Gen.PM4_full_cascade_kissel JGen.get_kissel_offset
  jeq_use_partial 7, hk
  jeq_have_catch (catchT_CosKronTransProb T Z 7 hZ (by decide))
  jeq_have_catch (catchT_CosKronTransProb T Z 10 hZ (by decide))
  jeq_have_catch (catchT_CosKronTransProb T Z 12 hZ (by decide))
  jeq_pure
  jeq_auto

theorem java_eq_c_PM5_pure_kissel (hk : KVecOk T Z 8) :
    JRel (JGen.PM5_pure_kissel (JTables.ofC T) Z E PM1 PM2 PM3 PM4) (Gen.PM5_pure_kissel T Z E PM1 PM2 PM3 PM4 s) s := by
  jeq_start JGen.PM5_pure_kissel Gen.PM5_pure_kissel
  jeq_use_partial 8, hk
  jeq_have_catch (catchT_CosKronTransProb T Z 8 hZ (by decide))
  jeq_have_catch (catchT_CosKronTransProb T Z 11 hZ (by decide))
  jeq_have_catch (catchT_CosKronTransProb T Z 13 hZ (by decide))
  jeq_have_catch (catchT_CosKronTransProb T Z 14 hZ (by decide))
  jeq_pure
  jeq_auto

theorem java_eq_c_PM5_rad_cascade_kissel (hk : KVecOk T Z 8) :
    JRel (JGen.PM5_rad_cascade_kissel (JTables.ofC T) Z E PK PL1 PL2 PL3 PM1 PM2 PM3 PM4) (Gen.PM5_rad_cascade_kissel T Z E PK PL1 PL2 PL3 PM1 PM2 PM3 PM4 s) s := by
  jeq_start JGen.PM5_rad_cascade_kissel Gen.PM5_rad_cascade_kissel
  jeq_use_partial 8, hk
  jeq_have_catch (catchT_FluorYield T Z 0 hZ (by decide))
  jeq_have_catch (catchT_RadRate T Z (-8) hZ (by decide))
  jeq_have_catch (catchT_FluorYield T Z 1 hZ (by decide))
  jeq_have_catch (catchT_RadRate T Z (-36) hZ (by decide))
  jeq_have_catch (catchT_FluorYield T Z 2 hZ (by decide))
  jeq_have_catch (catchT_RadRate T Z (-64) hZ (by decide))
  jeq_have_catch (catchT_FluorYield T Z 3 hZ (by decide))
  jeq_have_catch (catchT_RadRate T Z (-90) hZ (by decide))
  jeq_have_catch (catchT_CosKronTransProb T Z 8 hZ (by decide))
  jeq_have_catch (catchT_CosKronTransProb T Z 11 hZ (by decide))
  jeq_have_catch (catchT_CosKronTransProb T Z 13 hZ (by decide))
  jeq_have_catch (catchT_CosKronTransProb T Z 14 hZ (by decide))
  jeq_pure
  jeq_auto

theorem java_eq_c_PM5_auger_cascade_kissel (hk : KVecOk T Z 8) :
    JRel (JGen.PM5_auger_cascade_kissel (JTables.ofC T) Z E PK PL1 PL2 PL3 PM1 PM2 PM3 PM4) (Gen.PM5_auger_cascade_kissel T Z E PK PL1 PL2 PL3 PM1 PM2 PM3 PM4 s) s := by
  jeq_start JGen.PM5_auger_cascade_kissel Gen.PM5_auger_cascade_kissel JGen.get_kissel_offset
  jeq_use_partial 8, hk
  jeq_have_catch (catchT_CosKronTransProb T Z 8 hZ (by decide))
  jeq_have_catch (catchT_CosKronTransProb T Z 11 hZ (by decide))
  jeq_have_catch (catchT_CosKronTransProb T Z 13 hZ (by decide))
  jeq_have_catch (catchT_CosKronTransProb T Z 14 hZ (by decide))
  jeq_pure
  jeq_auto

theorem java_eq_c_PM5_full_cascade_kissel (hk : KVecOk T Z 8) :
    JRel (JGen.PM5_full_cascade_kissel (JTables.ofC T) Z E PK PL1 PL2 PL3 PM1 PM2 PM3 PM4) (Gen.PM5_full_cascade_kissel T Z E PK PL1 PL2 PL3 PM1 PM2 PM3 PM4 s) s := by
  jeq_start JGen.PM5_full_cascade_kissel Gen.PM5_full_cascade_kissel JGen.get_kissel_offset
  jeq_use_partial 8, hk
  jeq_have_catch (catchT_CosKronTransProb T Z 8 hZ (by decide))
  jeq_have_catch (catchT_CosKronTransProb T Z 11 hZ (by decide))
  jeq_have_catch (catchT_CosKronTransProb T Z 13 hZ (by decide))
  jeq_have_catch (catchT_CosKronTransProb T Z 14 hZ (by decide))
  jeq_pure
  jeq_auto

end phelpers


theorem e1000 (E : ℝ) : E / 1000.0 * 1000.0 = E := by norm_num
theorem e1000_le (E : ℝ) : (E / 1000.0 ≤ 0) ↔ (E ≤ 0) := by
  have h0 : (0 : ℝ) < 1000.0 := by norm_num
  constructor
  · intro h; by_contra hh; push_neg at hh; have := div_pos hh h0; linarith
  · intro h; exact div_nonpos_of_nonpos_of_nonneg h h0.le

section energy
variable (T : Tables ℝ) (Z : Int) (hZ : inI32 Z) (E : ℝ) (s : Slot) (hs : s.isFull = false)
include hZ hs
theorem java_eq_c_CS_Energy (hN : inI32 (T.NE_Energy Z.toNat)) (h92 : Z > 92 → Z ≤ 120 → T.NE_Energy Z.toNat < 0) :
    JRel (JGen.CS_Energy (JTables.ofC T) Z E) (Gen.CS_Energy T Z E s) s := by
  rcases (jsplint_rel_vec (JTables.ofC T) (T.E_Energy_arr Z.toNat) (T.CS_Energy_arr Z.toNat) (T.CS_Energy_arr2 Z.toNat) (T.NE_Energy Z.toNat) hN
    (Real.log E) s hs).cases with ⟨y, hc, hj⟩ | ⟨e, hc, hj⟩ | ⟨a, b, hc, hj⟩ | ⟨a, hc⟩ <;>
  (jeq_start JGen.CS_Energy Gen.CS_Energy JGen.CS_Factory
   simp only [e1000, e1000_le, zero_lit]
   jeq_auto)
end energy

/-! ## non-vacuity: the hypotheses of the theorems hold on a concrete table, on which both sides return a value -/

/-- two knots (0, 1) ↦ 1 for the Rayleigh form factor, two-knot Kissel vectors, atomic weight 12 -/
noncomputable def Tnv : Tables ℝ :=
  { T0 with Nq_Rayl := fun _ => 2, q_Rayl_arr := fun _ => ⟨2, fun k => (k : ℝ)⟩, FF_Rayl_arr := fun _ => ⟨2, fun _ => 1⟩,
            FF_Rayl_arr2 := fun _ => ⟨2, fun _ => 0⟩, AtomicWeight_arr := fun _ => 12,
            NE_Photo_Partial_Kissel := fun _ _ => 2, E_Photo_Partial_Kissel := fun _ _ => ⟨2, fun k => (k : ℝ)⟩,
            Photo_Partial_Kissel := fun _ _ => ⟨2, fun _ => 1⟩ }

example : inI32 (Tnv.Nq_Rayl (1 : Int).toNat) := by decide
example : KVecOk Tnv 26 1 := ⟨by decide, fun _ => rfl, fun _ => rfl⟩
example (q : ℝ) : ∀ v, JGen.FF_Rayl (JTables.ofC Tnv) 26 q = .ok v → 0 ≤ Tnv.AtomicWeight_arr (26 : Int).toNat := by
  intro _ _; show (0 : ℝ) ≤ 12; norm_num
/-- the C side returns a value on this table (so `java_eq_c_FF_Rayl` says: Java returns the same value) -/
example : Gen.FF_Rayl Tnv 1 0.5 Slot.empty = Except.ok (1, Slot.empty) := by
  unfold Gen.FF_Rayl
  simp [Tnv, rd1, splint, rdv, bisect, splintAt, splintCubic, deq_real]
  norm_num
example : JGen.FF_Rayl (JTables.ofC Tnv) 1 0.5 = Except.ok 1 := by
  have h := java_eq_c_FF_Rayl Tnv 1 (by decide) 0.5 Slot.empty rfl (by decide)
  have hc : Gen.FF_Rayl Tnv 1 0.5 Slot.empty = Except.ok (1, Slot.empty) := by
    unfold Gen.FF_Rayl
    simp [Tnv, rd1, splint, rdv, bisect, splintAt, splintCubic, deq_real]
    norm_num
  rw [hc] at h
  rcases h with ⟨_, h⟩ | ⟨e, h, _⟩
  · exact h
  · norm_num at h


end C19
end Xrl
