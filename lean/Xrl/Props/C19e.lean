import Xrl.Props.C19d
/-!
# C19 (fifth file) — `LineEnergy`

Plain lines (direct lookup, `KO_LINE`/`KP_LINE` remapped), the K-alpha / K-beta means (loops of 3 and 26 turns with `continue`, related by
`JRel.loop_then`, no unrolling), `LA_LINE` and the seven doublet macros through `LineEnergyComposed` (recursion with fuel on both sides; the
Java side spends one unit more per level because of `LineEnergy_catch`).  `LB_LINE` is not covered here: see W10 in notes/C19M_REPORT.md.
-/
set_option linter.unusedSimpArgs false
set_option linter.unusedVariables false
set_option linter.unusedSectionVars false
namespace Xrl
namespace C19
section lineenergy
variable (T : Tables ℝ) (Z : Int) (hZ : inI32 Z) (m : Int) (hm : inI32 m) (s : Slot) (hs : s.isFull = false)
include hZ hm hs

/-- the lines that are looked up directly (incl. `KO_LINE`, `KP_LINE`, remapped to their first member) -/
def PlainLine (m : Int) : Prop :=
  m ≠ 0 ∧ m ≠ 1 ∧ m ≠ 2 ∧ m ≠ 3 ∧ m ≠ -43 ∧ m ≠ -49 ∧ m ≠ -55 ∧ m ≠ -81 ∧ m ≠ -102 ∧ m ≠ -108 ∧ m ≠ -111

theorem line_energy_plain (f : Nat) (hp : PlainLine m) :
    JRel (JGen.LineEnergy_fuel (f + 1) (JTables.ofC T) Z m) (Gen.LineEnergy_fuel (f + 1) T Z m s) s := by
  obtain ⟨p0, p1, p2, p3, p4, p5, p6, p7, p8, p9, p10⟩ := hp
  unfold JGen.LineEnergy_fuel Gen.LineEnergy_fuel
  jeq_norm
  by_cases hz : Z < 1 ∨ Z > 120
  · jeq_auto
  simp only [hz, p0, p1, p2, p3, p4, p5, p6, p7, p8, p9, p10, or_self, ↓reduceIte]
  by_cases h16 : m = -16
  · subst h16; jeq_auto
  by_cases h24 : m = -24
  · subst h24; jeq_auto
  simp only [h16, h24, ↓reduceIte, jpure_eq_ok, pure_eq_ok, jbind_ok, bind_ok]
  jeq_auto

omit hm in
theorem line_energy_KA (f : Nat) :
    JRel (JGen.LineEnergy_fuel (f + 1) (JTables.ofC T) Z 0) (Gen.LineEnergy_fuel (f + 1) T Z 0 s) s := by
  unfold JGen.LineEnergy_fuel Gen.LineEnergy_fuel
  jeq_norm
  by_cases hz : Z < 1 ∨ Z > 120
  · jeq_auto
  simp only [hz, ↓reduceIte, Int.reduceEq, true_or, or_true]
  apply JRel.loop_then (fun _ => True) trivial
  · intro i st h0 h1 _
    refine ⟨?_, fun _ _ => trivial⟩
    simp (disch := omega) only [wrapI_eq, jrd_flat2, rd2_ok, jbind_ok, bind_ok, jpure_eq_ok, pure_eq_ok]
    split_ifs <;> exact StepRel.ok
  · intro st _
    jeq_auto

omit hm in
theorem line_energy_KB (f : Nat) :
    JRel (JGen.LineEnergy_fuel (f + 1) (JTables.ofC T) Z 1) (Gen.LineEnergy_fuel (f + 1) T Z 1 s) s := by
  unfold JGen.LineEnergy_fuel Gen.LineEnergy_fuel
  jeq_norm
  by_cases hz : Z < 1 ∨ Z > 120
  · jeq_auto
  simp only [hz, ↓reduceIte, Int.reduceEq, true_or, or_true]
  apply JRel.loop_then (fun _ => True) trivial
  · intro i st h0 h1 _
    refine ⟨?_, fun _ _ => trivial⟩
    simp (disch := omega) only [wrapI_eq, jrd_flat2, rd2_ok, jbind_ok, bind_ok, jpure_eq_ok, pure_eq_ok]
    split_ifs <;> (try simp (disch := omega) only [wrapI_eq, jrd_flat2, rd2_ok, jbind_ok, bind_ok, jpure_eq_ok, pure_eq_ok]) <;>
      (try split_ifs) <;> exact StepRel.ok
  · intro st _
    jeq_auto

omit hs in
/-- the C lookup of a plain line returns (never stops), whatever the fuel -/
theorem c_total_LineEnergy_plain (f : Nat) (hp : PlainLine m) : ∃ r, Gen.LineEnergy_fuel (f + 1) T Z m Slot.null = .ok r := by
  obtain ⟨p0, p1, p2, p3, p4, p5, p6, p7, p8, p9, p10⟩ := hp
  unfold Gen.LineEnergy_fuel
  jeq_normJ
  by_cases hz : Z < 1 ∨ Z > 120
  · ctotal_auto
  simp only [hz, p0, p1, p2, p3, p4, p5, p6, p7, p8, p9, p10, or_self, ↓reduceIte]
  by_cases h16 : m = -16
  · subst h16; ctotal_auto
  by_cases h24 : m = -24
  · subst h24; ctotal_auto
  simp only [h16, h24, ↓reduceIte, pure_eq_ok, bind_ok]
  ctotal_auto

omit hs in
/-- for a plain line the fuel does not matter (the recursion is not entered) -/
theorem j_plain_fuel (a b : Nat) (hp : PlainLine m) :
    JGen.LineEnergy_fuel (a + 1) (JTables.ofC T) Z m = JGen.LineEnergy_fuel (b + 1) (JTables.ofC T) Z m := by
  obtain ⟨p0, p1, p2, p3, p4, p5, p6, p7, p8, p9, p10⟩ := hp
  unfold JGen.LineEnergy_fuel
  simp only [p0, p1, p2, p3, p4, p5, p6, p7, p8, p9, p10, or_self, ↓reduceIte]
omit hs in
theorem c_plain_fuel (a b : Nat) (sl : Slot) (hp : PlainLine m) :
    Gen.LineEnergy_fuel (a + 1) T Z m sl = Gen.LineEnergy_fuel (b + 1) T Z m sl := by
  obtain ⟨p0, p1, p2, p3, p4, p5, p6, p7, p8, p9, p10⟩ := hp
  unfold Gen.LineEnergy_fuel
  simp only [p0, p1, p2, p3, p4, p5, p6, p7, p8, p9, p10, or_self, ↓reduceIte]

omit hs in
/-- `LineEnergy_catch(Z, l)` against `LineEnergy(Z, l, NULL)` for a plain line: the same number (0 when there is none) -/
theorem catchT_LineEnergy_plain (a b : Nat) (hp : PlainLine m) :
    ∃ v, Gen.LineEnergy_fuel (a + 1) T Z m Slot.null = .ok (v, Slot.null) ∧ JGen.LineEnergy_catch_fuel (b + 2) (JTables.ofC T) Z m = .ok v := by
  obtain ⟨r, hr⟩ := c_total_LineEnergy_plain T Z hZ m hm a hp
  have h := line_energy_plain T Z hZ m hm Slot.null rfl a hp
  have c := JCatchRel.of_rel h
  rw [j_plain_fuel T Z hZ m hm a b hp] at c
  unfold JGen.LineEnergy_catch_fuel
  rcases c.cases with h1 | ⟨x, y, hc, _⟩ | ⟨x, hc⟩
  · exact h1
  · rw [hc] at hr; cases hr
  · rw [hc] at hr; cases hr

omit hm in
/-- `LineEnergyComposed` of two plain lines (LA and the seven doublet macros), with the fuel its caller hands over -/
theorem line_energy_composed (l1 l2 : Int) (h1 : inI32 l1) (h2 : inI32 l2) (p1 : PlainLine l1) (p2 : PlainLine l2) (f : Nat) :
    JRel (JGen.LineEnergyComposed_fuel (f + 3) (JTables.ofC T) Z l1 l2) (Gen.LineEnergyComposed_fuel (f + 3) T Z l1 l2 s) s := by
  unfold JGen.LineEnergyComposed_fuel Gen.LineEnergyComposed_fuel
  obtain ⟨v1, hc1, hj1⟩ := catchT_LineEnergy_plain T Z hZ l1 h1 (f + 1) f p1
  obtain ⟨v2, hc2, hj2⟩ := catchT_LineEnergy_plain T Z hZ l2 h2 (f + 1) f p2
  obtain ⟨r1, hr1, hjr1⟩ := catchT_RadRate T Z l1 hZ h1
  obtain ⟨r2, hr2, hjr2⟩ := catchT_RadRate T Z l2 hZ h2
  jeq_norm
  jeq_simp
  by_cases c1 : v1 ≤ 0 <;> by_cases c2 : v2 ≤ 0 <;> jeq_auto

/-- `LineEnergy` for every line macro except `LB_LINE` (see W10 for the L-beta group) -/
theorem java_eq_c_LineEnergy_fuel (f : Nat) (h3 : m ≠ 3) :
    JRel (JGen.LineEnergy_fuel (f + 4) (JTables.ofC T) Z m) (Gen.LineEnergy_fuel (f + 4) T Z m s) s := by
  by_cases c0 : m = 0
  · subst c0; exact line_energy_KA T Z hZ s hs (f + 3)
  by_cases c1 : m = 1
  · subst c1; exact line_energy_KB T Z hZ s hs (f + 3)
  by_cases c2 : m = 2
  · subst c2
    unfold JGen.LineEnergy_fuel Gen.LineEnergy_fuel
    jeq_norm
    by_cases hz : Z < 1 ∨ Z > 120
    · jeq_auto
    simp only [hz, ↓reduceIte, Int.reduceEq, or_self, or_false, false_or]
    rcases (line_energy_composed T Z hZ s hs (-89) (-90) (by decide) (by decide) (by unfold PlainLine; decide) (by unfold PlainLine; decide) f).cases with ⟨v, hc, hj⟩ | ⟨e, hc, hj⟩ | ⟨a, b, hc, hj⟩ | ⟨a, hc⟩ <;>
    jeq_auto
  by_cases cn43 : m = -43
  · subst cn43
    unfold JGen.LineEnergy_fuel Gen.LineEnergy_fuel
    jeq_norm
    by_cases hz : Z < 1 ∨ Z > 120
    · jeq_auto
    simp only [hz, ↓reduceIte, Int.reduceEq, or_self, or_false, false_or]
    rcases (line_energy_composed T Z hZ s hs (-42) (-44) (by decide) (by decide) (by unfold PlainLine; decide) (by unfold PlainLine; decide) f).cases with ⟨v, hc, hj⟩ | ⟨e, hc, hj⟩ | ⟨a, b, hc, hj⟩ | ⟨a, hc⟩ <;>
    jeq_auto
  by_cases cn49 : m = -49
  · subst cn49
    unfold JGen.LineEnergy_fuel Gen.LineEnergy_fuel
    jeq_norm
    by_cases hz : Z < 1 ∨ Z > 120
    · jeq_auto
    simp only [hz, ↓reduceIte, Int.reduceEq, or_self, or_false, false_or]
    rcases (line_energy_composed T Z hZ s hs (-48) (-50) (by decide) (by decide) (by unfold PlainLine; decide) (by unfold PlainLine; decide) f).cases with ⟨v, hc, hj⟩ | ⟨e, hc, hj⟩ | ⟨a, b, hc, hj⟩ | ⟨a, hc⟩ <;>
    jeq_auto
  by_cases cn55 : m = -55
  · subst cn55
    unfold JGen.LineEnergy_fuel Gen.LineEnergy_fuel
    jeq_norm
    by_cases hz : Z < 1 ∨ Z > 120
    · jeq_auto
    simp only [hz, ↓reduceIte, Int.reduceEq, or_self, or_false, false_or]
    rcases (line_energy_composed T Z hZ s hs (-54) (-56) (by decide) (by decide) (by unfold PlainLine; decide) (by unfold PlainLine; decide) f).cases with ⟨v, hc, hj⟩ | ⟨e, hc, hj⟩ | ⟨a, b, hc, hj⟩ | ⟨a, hc⟩ <;>
    jeq_auto
  by_cases cn81 : m = -81
  · subst cn81
    unfold JGen.LineEnergy_fuel Gen.LineEnergy_fuel
    jeq_norm
    by_cases hz : Z < 1 ∨ Z > 120
    · jeq_auto
    simp only [hz, ↓reduceIte, Int.reduceEq, or_self, or_false, false_or]
    rcases (line_energy_composed T Z hZ s hs (-80) (-82) (by decide) (by decide) (by unfold PlainLine; decide) (by unfold PlainLine; decide) f).cases with ⟨v, hc, hj⟩ | ⟨e, hc, hj⟩ | ⟨a, b, hc, hj⟩ | ⟨a, hc⟩ <;>
    jeq_auto
  by_cases cn102 : m = -102
  · subst cn102
    unfold JGen.LineEnergy_fuel Gen.LineEnergy_fuel
    jeq_norm
    by_cases hz : Z < 1 ∨ Z > 120
    · jeq_auto
    simp only [hz, ↓reduceIte, Int.reduceEq, or_self, or_false, false_or]
    rcases (line_energy_composed T Z hZ s hs (-101) (-103) (by decide) (by decide) (by unfold PlainLine; decide) (by unfold PlainLine; decide) f).cases with ⟨v, hc, hj⟩ | ⟨e, hc, hj⟩ | ⟨a, b, hc, hj⟩ | ⟨a, hc⟩ <;>
    jeq_auto
  by_cases cn108 : m = -108
  · subst cn108
    unfold JGen.LineEnergy_fuel Gen.LineEnergy_fuel
    jeq_norm
    by_cases hz : Z < 1 ∨ Z > 120
    · jeq_auto
    simp only [hz, ↓reduceIte, Int.reduceEq, or_self, or_false, false_or]
    rcases (line_energy_composed T Z hZ s hs (-107) (-109) (by decide) (by decide) (by unfold PlainLine; decide) (by unfold PlainLine; decide) f).cases with ⟨v, hc, hj⟩ | ⟨e, hc, hj⟩ | ⟨a, b, hc, hj⟩ | ⟨a, hc⟩ <;>
    jeq_auto
  by_cases cn111 : m = -111
  · subst cn111
    unfold JGen.LineEnergy_fuel Gen.LineEnergy_fuel
    jeq_norm
    by_cases hz : Z < 1 ∨ Z > 120
    · jeq_auto
    simp only [hz, ↓reduceIte, Int.reduceEq, or_self, or_false, false_or]
    rcases (line_energy_composed T Z hZ s hs (-110) (-112) (by decide) (by decide) (by unfold PlainLine; decide) (by unfold PlainLine; decide) f).cases with ⟨v, hc, hj⟩ | ⟨e, hc, hj⟩ | ⟨a, b, hc, hj⟩ | ⟨a, hc⟩ <;>
    jeq_auto
  exact line_energy_plain T Z hZ m hm s hs (f + 3) ⟨c0, c1, c2, h3, cn43, cn49, cn55, cn81, cn102, cn108, cn111⟩

theorem java_eq_c_LineEnergy (h3 : m ≠ 3) :
    JRel (JGen.LineEnergy (JTables.ofC T) Z m) (Gen.LineEnergy T Z m s) s := by
  unfold JGen.LineEnergy Gen.LineEnergy FUEL
  exact java_eq_c_LineEnergy_fuel T Z hZ m hm s hs 2 h3
end lineenergy
end C19
end Xrl
