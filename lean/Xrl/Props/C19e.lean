import Xrl.Props.C19d
/-!
# C19 (fifth file) — `LineEnergy`

Plain lines (direct lookup, `KO_LINE`/`KP_LINE` remapped), the K-alpha / K-beta means (loops of 3 and 26 turns with `continue`, related by
`JRel.loop_then`, no unrolling), `LA_LINE` and the seven doublet macros through `LineEnergyComposed` (recursion with fuel on both sides; the
Java side spends one unit more per level because of `LineEnergy_catch`), and `LB_LINE`: the 13-member loop with `continue` on a missing
member energy and the plain-mean fallback, related turn by turn (`JRel.loop_then`); its members are 12 plain lines and the composed
`L3O45_LINE`, which is why the Java side needs 6 units of fuel (`FUEL`) there.  `LB_LINE` goes through `CS_FluorLine_catch`, hence the
two data hypotheses of `java_eqi_c_CS_FluorLine` (`inI32 NE_Photo`, `LGaps`), asked for only when `m = 3`.
-/
set_option linter.unusedSimpArgs false
set_option linter.unusedVariables false
set_option linter.unusedSectionVars false
namespace Xrl
namespace C19
/-- the lines that are looked up directly (incl. `KO_LINE`, `KP_LINE`, remapped to their first member) -/
def PlainLine (m : Int) : Prop :=
  m ≠ 0 ∧ m ≠ 1 ∧ m ≠ 2 ∧ m ≠ 3 ∧ m ≠ -43 ∧ m ≠ -49 ∧ m ≠ -55 ∧ m ≠ -81 ∧ m ≠ -102 ∧ m ≠ -108 ∧ m ≠ -111

/-- the Java list of (line, shell) pairs is the C pair of arrays, index by index -/
theorem lb_pairs_eq : JStatic.lb_pairs = (List.range 13).map (fun k => (Static.lb_pairs_line k, Static.lb_pairs_shell k)) := by
  decide

theorem jforEach_lb_pairs {σ : Type} (init : σ) (body : Int × Int → σ → JM σ) :
    jforEachM JStatic.lb_pairs init body =
      jloopM 0 13 init (fun i st => body (Static.lb_pairs_line i.toNat, Static.lb_pairs_shell i.toNat) st) := by
  unfold jforEachM jloopM
  rw [lb_pairs_eq, List.foldlM_map]
  simp only [Int.sub_zero, Int.reduceToNat, Int.zero_add, Int.toNat_natCast]

theorem lb_member_facts (i : Int) (h0 : 0 ≤ i) (h1 : i < 13) :
    inI32 (Static.lb_pairs_line i.toNat) ∧ inI32 (Static.lb_pairs_shell i.toNat) ∧
      (PlainLine (Static.lb_pairs_line i.toNat) ∨ Static.lb_pairs_line i.toNat = -102) := by
  have key : ∀ n : Nat, n < 13 → inI32 (Static.lb_pairs_line n) ∧ inI32 (Static.lb_pairs_shell n) ∧
      (PlainLine (Static.lb_pairs_line n) ∨ Static.lb_pairs_line n = -102) := by
    unfold PlainLine; decide
  exact key i.toNat (by omega)

section lineenergy
variable (T : Tables ℝ) (Z : Int) (hZ : inI32 Z) (m : Int) (hm : inI32 m) (s : Slot) (hs : s.isFull = false)
include hZ hm hs

theorem line_energy_plain (f : Nat) (hp : PlainLine m) :
    JRel (JGen.LineEnergy_fuel (f + 1) (JTables.ofC T) Z m) (Gen.LineEnergy_fuel (f + 1) T Z m s) s := by
  obtain ⟨p0, p1, p2, p3, p4, p5, p6, p7, p8, p9, p10⟩ := hp
  unfold JGen.LineEnergy_fuel Gen.LineEnergy_fuel
  jeq_norm
  by_cases hz : Z < 1 ∨ Z > 120
  · jeq_auto
  simp only [hz, p0, p1, p2, p3, p4, p5, p6, p7, p8, p9, p10, or_self, ↓reduceIte]
  by_cases h16 : m = -16
  · subst h16; jeq_auto
  by_cases h24 : m = -24
  · subst h24; jeq_auto
  simp only [h16, h24, ↓reduceIte, jpure_eq_ok, pure_eq_ok, jbind_ok, bind_ok]
  jeq_auto

omit hm in
theorem line_energy_KA (f : Nat) :
    JRel (JGen.LineEnergy_fuel (f + 1) (JTables.ofC T) Z 0) (Gen.LineEnergy_fuel (f + 1) T Z 0 s) s := by
  unfold JGen.LineEnergy_fuel Gen.LineEnergy_fuel
  jeq_norm
  by_cases hz : Z < 1 ∨ Z > 120
  · jeq_auto
  simp only [hz, ↓reduceIte, Int.reduceEq, true_or, or_true]
  apply JRel.loop_then (fun _ => True) trivial
  · intro i st h0 h1 _
    refine ⟨?_, fun _ _ => trivial⟩
    simp (disch := omega) only [wrapI_eq, jrd_flat2, rd2_ok, jbind_ok, bind_ok, jpure_eq_ok, pure_eq_ok]
    split_ifs <;> exact StepRel.ok
  · intro st _
    jeq_auto

omit hm in
theorem line_energy_KB (f : Nat) :
    JRel (JGen.LineEnergy_fuel (f + 1) (JTables.ofC T) Z 1) (Gen.LineEnergy_fuel (f + 1) T Z 1 s) s := by
  unfold JGen.LineEnergy_fuel Gen.LineEnergy_fuel
  jeq_norm
  by_cases hz : Z < 1 ∨ Z > 120
  · jeq_auto
  simp only [hz, ↓reduceIte, Int.reduceEq, true_or, or_true]
  apply JRel.loop_then (fun _ => True) trivial
  · intro i st h0 h1 _
    refine ⟨?_, fun _ _ => trivial⟩
    simp (disch := omega) only [wrapI_eq, jrd_flat2, rd2_ok, jbind_ok, bind_ok, jpure_eq_ok, pure_eq_ok]
    split_ifs <;> (try simp (disch := omega) only [wrapI_eq, jrd_flat2, rd2_ok, jbind_ok, bind_ok, jpure_eq_ok, pure_eq_ok]) <;>
      (try split_ifs) <;> exact StepRel.ok
  · intro st _
    jeq_auto

omit hs in
/-- the C lookup of a plain line returns (never stops), whatever the fuel -/
theorem c_total_LineEnergy_plain (f : Nat) (hp : PlainLine m) : ∃ r, Gen.LineEnergy_fuel (f + 1) T Z m Slot.null = .ok r := by
  obtain ⟨p0, p1, p2, p3, p4, p5, p6, p7, p8, p9, p10⟩ := hp
  unfold Gen.LineEnergy_fuel
  jeq_normJ
  by_cases hz : Z < 1 ∨ Z > 120
  · ctotal_auto
  simp only [hz, p0, p1, p2, p3, p4, p5, p6, p7, p8, p9, p10, or_self, ↓reduceIte]
  by_cases h16 : m = -16
  · subst h16; ctotal_auto
  by_cases h24 : m = -24
  · subst h24; ctotal_auto
  simp only [h16, h24, ↓reduceIte, pure_eq_ok, bind_ok]
  ctotal_auto

omit hs in
/-- for a plain line the fuel does not matter (the recursion is not entered) -/
theorem j_plain_fuel (a b : Nat) (hp : PlainLine m) :
    JGen.LineEnergy_fuel (a + 1) (JTables.ofC T) Z m = JGen.LineEnergy_fuel (b + 1) (JTables.ofC T) Z m := by
  obtain ⟨p0, p1, p2, p3, p4, p5, p6, p7, p8, p9, p10⟩ := hp
  unfold JGen.LineEnergy_fuel
  simp only [p0, p1, p2, p3, p4, p5, p6, p7, p8, p9, p10, or_self, ↓reduceIte]
omit hs in
theorem c_plain_fuel (a b : Nat) (sl : Slot) (hp : PlainLine m) :
    Gen.LineEnergy_fuel (a + 1) T Z m sl = Gen.LineEnergy_fuel (b + 1) T Z m sl := by
  obtain ⟨p0, p1, p2, p3, p4, p5, p6, p7, p8, p9, p10⟩ := hp
  unfold Gen.LineEnergy_fuel
  simp only [p0, p1, p2, p3, p4, p5, p6, p7, p8, p9, p10, or_self, ↓reduceIte]

omit hs in
/-- `LineEnergy_catch(Z, l)` against `LineEnergy(Z, l, NULL)` for a plain line: the same number (0 when there is none) -/
theorem catchT_LineEnergy_plain (a b : Nat) (hp : PlainLine m) :
    ∃ v, Gen.LineEnergy_fuel (a + 1) T Z m Slot.null = .ok (v, Slot.null) ∧ JGen.LineEnergy_catch_fuel (b + 2) (JTables.ofC T) Z m = .ok v := by
  obtain ⟨r, hr⟩ := c_total_LineEnergy_plain T Z hZ m hm a hp
  have h := line_energy_plain T Z hZ m hm Slot.null rfl a hp
  have c := JCatchRel.of_rel h
  rw [j_plain_fuel T Z hZ m hm a b hp] at c
  unfold JGen.LineEnergy_catch_fuel
  rcases c.cases with h1 | ⟨x, y, hc, _⟩ | ⟨x, hc⟩
  · exact h1
  · rw [hc] at hr; cases hr
  · rw [hc] at hr; cases hr

omit hm in
/-- `LineEnergyComposed` of two plain lines, with independent fuels on the two sides (enough on each for the two member lookups) -/
theorem line_energy_composed_ab (l1 l2 : Int) (h1 : inI32 l1) (h2 : inI32 l2) (p1 : PlainLine l1) (p2 : PlainLine l2) (a b : Nat) :
    JRel (JGen.LineEnergyComposed_fuel (b + 3) (JTables.ofC T) Z l1 l2) (Gen.LineEnergyComposed_fuel (a + 2) T Z l1 l2 s) s := by
  unfold JGen.LineEnergyComposed_fuel Gen.LineEnergyComposed_fuel
  obtain ⟨v1, hc1, hj1⟩ := catchT_LineEnergy_plain T Z hZ l1 h1 a b p1
  obtain ⟨v2, hc2, hj2⟩ := catchT_LineEnergy_plain T Z hZ l2 h2 a b p2
  obtain ⟨r1, hr1, hjr1⟩ := catchT_RadRate T Z l1 hZ h1
  obtain ⟨r2, hr2, hjr2⟩ := catchT_RadRate T Z l2 hZ h2
  jeq_norm
  jeq_simp
  by_cases c1 : v1 ≤ 0 <;> by_cases c2 : v2 ≤ 0 <;> jeq_auto

omit hm in
/-- `LineEnergyComposed` of two plain lines (LA and the seven doublet macros), with the fuel its caller hands over -/
theorem line_energy_composed (l1 l2 : Int) (h1 : inI32 l1) (h2 : inI32 l2) (p1 : PlainLine l1) (p2 : PlainLine l2) (f : Nat) :
    JRel (JGen.LineEnergyComposed_fuel (f + 3) (JTables.ofC T) Z l1 l2) (Gen.LineEnergyComposed_fuel (f + 3) T Z l1 l2 s) s :=
  line_energy_composed_ab T Z hZ s hs l1 l2 h1 h2 p1 p2 (f + 1) f

/-- `LineEnergy` for every line macro except `LB_LINE` -/
theorem line_energy_nonLB (f : Nat) (h3 : m ≠ 3) :
    JRel (JGen.LineEnergy_fuel (f + 4) (JTables.ofC T) Z m) (Gen.LineEnergy_fuel (f + 4) T Z m s) s := by
  by_cases c0 : m = 0
  · subst c0; exact line_energy_KA T Z hZ s hs (f + 3)
  by_cases c1 : m = 1
  · subst c1; exact line_energy_KB T Z hZ s hs (f + 3)
  by_cases c2 : m = 2
  · subst c2
    unfold JGen.LineEnergy_fuel Gen.LineEnergy_fuel
    jeq_norm
    by_cases hz : Z < 1 ∨ Z > 120
    · jeq_auto
    simp only [hz, ↓reduceIte, Int.reduceEq, or_self, or_false, false_or]
    rcases (line_energy_composed T Z hZ s hs (-89) (-90) (by decide) (by decide) (by unfold PlainLine; decide) (by unfold PlainLine; decide) f).cases with ⟨v, hc, hj⟩ | ⟨e, hc, hj⟩ | ⟨a, b, hc, hj⟩ | ⟨a, hc⟩ <;>
    jeq_auto
  by_cases cn43 : m = -43
  · subst cn43
    unfold JGen.LineEnergy_fuel Gen.LineEnergy_fuel
    jeq_norm
    by_cases hz : Z < 1 ∨ Z > 120
    · jeq_auto
    simp only [hz, ↓reduceIte, Int.reduceEq, or_self, or_false, false_or]
    rcases (line_energy_composed T Z hZ s hs (-42) (-44) (by decide) (by decide) (by unfold PlainLine; decide) (by unfold PlainLine; decide) f).cases with ⟨v, hc, hj⟩ | ⟨e, hc, hj⟩ | ⟨a, b, hc, hj⟩ | ⟨a, hc⟩ <;>
    jeq_auto
  by_cases cn49 : m = -49
  · subst cn49
    unfold JGen.LineEnergy_fuel Gen.LineEnergy_fuel
    jeq_norm
    by_cases hz : Z < 1 ∨ Z > 120
    · jeq_auto
    simp only [hz, ↓reduceIte, Int.reduceEq, or_self, or_false, false_or]
    rcases (line_energy_composed T Z hZ s hs (-48) (-50) (by decide) (by decide) (by unfold PlainLine; decide) (by unfold PlainLine; decide) f).cases with ⟨v, hc, hj⟩ | ⟨e, hc, hj⟩ | ⟨a, b, hc, hj⟩ | ⟨a, hc⟩ <;>
    jeq_auto
  by_cases cn55 : m = -55
  · subst cn55
    unfold JGen.LineEnergy_fuel Gen.LineEnergy_fuel
    jeq_norm
    by_cases hz : Z < 1 ∨ Z > 120
    · jeq_auto
    simp only [hz, ↓reduceIte, Int.reduceEq, or_self, or_false, false_or]
    rcases (line_energy_composed T Z hZ s hs (-54) (-56) (by decide) (by decide) (by unfold PlainLine; decide) (by unfold PlainLine; decide) f).cases with ⟨v, hc, hj⟩ | ⟨e, hc, hj⟩ | ⟨a, b, hc, hj⟩ | ⟨a, hc⟩ <;>
    jeq_auto
  by_cases cn81 : m = -81
  · subst cn81
    unfold JGen.LineEnergy_fuel Gen.LineEnergy_fuel
    jeq_norm
    by_cases hz : Z < 1 ∨ Z > 120
    · jeq_auto
    simp only [hz, ↓reduceIte, Int.reduceEq, or_self, or_false, false_or]
    rcases (line_energy_composed T Z hZ s hs (-80) (-82) (by decide) (by decide) (by unfold PlainLine; decide) (by unfold PlainLine; decide) f).cases with ⟨v, hc, hj⟩ | ⟨e, hc, hj⟩ | ⟨a, b, hc, hj⟩ | ⟨a, hc⟩ <;>
    jeq_auto
  by_cases cn102 : m = -102
  · subst cn102
    unfold JGen.LineEnergy_fuel Gen.LineEnergy_fuel
    jeq_norm
    by_cases hz : Z < 1 ∨ Z > 120
    · jeq_auto
    simp only [hz, ↓reduceIte, Int.reduceEq, or_self, or_false, false_or]
    rcases (line_energy_composed T Z hZ s hs (-101) (-103) (by decide) (by decide) (by unfold PlainLine; decide) (by unfold PlainLine; decide) f).cases with ⟨v, hc, hj⟩ | ⟨e, hc, hj⟩ | ⟨a, b, hc, hj⟩ | ⟨a, hc⟩ <;>
    jeq_auto
  by_cases cn108 : m = -108
  · subst cn108
    unfold JGen.LineEnergy_fuel Gen.LineEnergy_fuel
    jeq_norm
    by_cases hz : Z < 1 ∨ Z > 120
    · jeq_auto
    simp only [hz, ↓reduceIte, Int.reduceEq, or_self, or_false, false_or]
    rcases (line_energy_composed T Z hZ s hs (-107) (-109) (by decide) (by decide) (by unfold PlainLine; decide) (by unfold PlainLine; decide) f).cases with ⟨v, hc, hj⟩ | ⟨e, hc, hj⟩ | ⟨a, b, hc, hj⟩ | ⟨a, hc⟩ <;>
    jeq_auto
  by_cases cn111 : m = -111
  · subst cn111
    unfold JGen.LineEnergy_fuel Gen.LineEnergy_fuel
    jeq_norm
    by_cases hz : Z < 1 ∨ Z > 120
    · jeq_auto
    simp only [hz, ↓reduceIte, Int.reduceEq, or_self, or_false, false_or]
    rcases (line_energy_composed T Z hZ s hs (-110) (-112) (by decide) (by decide) (by unfold PlainLine; decide) (by unfold PlainLine; decide) f).cases with ⟨v, hc, hj⟩ | ⟨e, hc, hj⟩ | ⟨a, b, hc, hj⟩ | ⟨a, hc⟩ <;>
    jeq_auto
  exact line_energy_plain T Z hZ m hm s hs (f + 3) ⟨c0, c1, c2, h3, cn43, cn49, cn55, cn81, cn102, cn108, cn111⟩

omit hm in
/-- the composed member `L3O45_LINE` of the L-beta group with the fuels its caller hands over on each side -/
theorem line_energy_L3O45 (f : Nat) :
    JRel (JGen.LineEnergy_fuel (f + 4) (JTables.ofC T) Z (-102)) (Gen.LineEnergy_fuel (f + 5) T Z (-102) s) s := by
  unfold JGen.LineEnergy_fuel Gen.LineEnergy_fuel
  jeq_norm
  by_cases hz : Z < 1 ∨ Z > 120
  · jeq_auto
  simp only [hz, ↓reduceIte, Int.reduceEq, or_self, or_false, false_or]
  rcases (line_energy_composed_ab T Z hZ s hs (-101) (-103) (by decide) (by decide) (by unfold PlainLine; decide) (by unfold PlainLine; decide) (f + 2) f).cases with ⟨v, hc, hj⟩ | ⟨e, hc, hj⟩ | ⟨a, b, hc, hj⟩ | ⟨a, hc⟩ <;>
  jeq_auto

omit hm hs in
theorem catch_LineEnergy_L3O45 (f : Nat) :
    JCatchRel (JGen.LineEnergy_catch_fuel (f + 5) (JTables.ofC T) Z (-102)) (Gen.LineEnergy_fuel (f + 5) T Z (-102) Slot.null) := by
  unfold JGen.LineEnergy_catch_fuel
  exact JCatchRel.of_rel (line_energy_L3O45 T Z hZ Slot.null rfl f)

omit hm hs in
/-- a member of the L-beta group as the loop sees it: `LineEnergy_catch(Z, l)` against `LineEnergy(Z, l, NULL)` -/
theorem catch_LineEnergy_LBmember (f : Nat) (l : Int) (hl : inI32 l) (hp : PlainLine l ∨ l = -102) :
    JCatchRel (JGen.LineEnergy_catch_fuel (f + 5) (JTables.ofC T) Z l) (Gen.LineEnergy_fuel (f + 5) T Z l Slot.null) := by
  rcases hp with hp | rfl
  · obtain ⟨v, hc, hj⟩ := catchT_LineEnergy_plain T Z hZ l hl (f + 4) (f + 3) hp
    rw [hc, hj]; exact ⟨rfl, rfl⟩
  · exact catch_LineEnergy_L3O45 T Z hZ f

omit hm in
/-- `LB_LINE`: both loops skip a member without energy, weigh the others with `CS_FluorLine` just above the edge, and fall back to the plain mean -/
theorem line_energy_LB (f : Nat) (hN : inI32 (T.NE_Photo Z.toNat)) (hg : LGaps T Z) :
    JRel (JGen.LineEnergy_fuel (f + 6) (JTables.ofC T) Z 3) (Gen.LineEnergy_fuel (f + 6) T Z 3 s) s := by
  unfold JGen.LineEnergy_fuel Gen.LineEnergy_fuel
  jeq_norm
  by_cases hz : Z < 1 ∨ Z > 120
  · jeq_auto
  simp only [hz, ↓reduceIte, Int.reduceEq, or_self, or_false, false_or]
  rw [jforEach_lb_pairs]
  apply JRel.loop_then (fun _ => True) trivial
  · intro i st h0 h1 _
    refine ⟨?_, fun _ _ => trivial⟩
    obtain ⟨hl, hsh, hp⟩ := lb_member_facts i h0 h1
    simp (disch := omega) only [rd1_ok, jbind_ok, bind_ok, jpure_eq_ok, pure_eq_ok]
    generalize Static.lb_pairs_line i.toNat = l at hl hp ⊢
    generalize Static.lb_pairs_shell i.toNat = sh at hsh ⊢
    rcases (catch_LineEnergy_LBmember T Z hZ f l hl hp).cases with ⟨v, hc, hj⟩ | ⟨a, b, hc, hj⟩ | ⟨a, hc⟩
    rotate_left
    · rw [hc, hj]; exact StepRel.nf
    · rw [hc]; exact StepRel.ub
    rw [hc, hj]
    simp only [jbind_ok, bind_ok]
    by_cases hv : v ≤ 0
    · simp only [hv, ↓reduceIte, zero_lit]; exact StepRel.ok
    obtain ⟨e, hce, hje⟩ := catchT_EdgeEnergy T Z sh hZ hsh
    simp only [hv, ↓reduceIte, zero_lit, hce, hje, jbind_ok, bind_ok]
    have hfl : JCatchRel (JGen.CS_FluorLine_catch (JTables.ofC T) Z l (e + 0.1)) (Gen.CS_FluorLine T Z l (e + 0.1) Slot.null) := by
      unfold JGen.CS_FluorLine_catch
      exact JCatchRel.of_relI (java_eqi_c_CS_FluorLine T Z hZ l hl (e + 0.1) Slot.null rfl hN hg)
    rcases hfl.cases with ⟨w, hc2, hj2⟩ | ⟨a, b, hc2, hj2⟩ | ⟨a, hc2⟩
    · rw [hc2, hj2]; exact StepRel.ok
    · rw [hc2, hj2]; exact StepRel.nf
    · rw [hc2]; exact StepRel.ub
  · intro st _
    jeq_auto

/-- `LineEnergy` for every line and every line macro.  `hN`/`hg` (the hypotheses of `java_eqi_c_CS_FluorLine`) are needed for `LB_LINE` only. -/
theorem java_eq_c_LineEnergy_fuel (f : Nat) (hN : m = 3 → inI32 (T.NE_Photo Z.toNat)) (hg : m = 3 → LGaps T Z) :
    JRel (JGen.LineEnergy_fuel (f + 6) (JTables.ofC T) Z m) (Gen.LineEnergy_fuel (f + 6) T Z m s) s := by
  by_cases h3 : m = 3
  · subst h3; exact line_energy_LB T Z hZ s hs f (hN rfl) (hg rfl)
  · exact line_energy_nonLB T Z hZ m hm s hs (f + 2) h3

theorem java_eq_c_LineEnergy (hN : m = 3 → inI32 (T.NE_Photo Z.toNat)) (hg : m = 3 → LGaps T Z) :
    JRel (JGen.LineEnergy (JTables.ofC T) Z m) (Gen.LineEnergy T Z m s) s := by
  unfold JGen.LineEnergy Gen.LineEnergy FUEL
  exact java_eq_c_LineEnergy_fuel T Z hZ m hm s hs 0 hN hg
end lineenergy

/-! ## the hypotheses of C19b–C19e can be met (on the empty tables `T0`, element 26) -/
theorem T0_edge_catch (k : Int) (h0 : 0 ≤ k) (h1 : k < 28) : JGen.EdgeEnergy_catch (JTables.ofC T0) 26 k = .ok 0 := by
  jeq_startJ JGen.EdgeEnergy_catch JGen.EdgeEnergy
  have hk : ¬ (k < 0 ∨ k ≥ 28) := by omega
  jeq_simp
  have e : T0.EdgeEnergy_arr = fun _ _ => (0 : ℝ) := rfl
  simp [e, jtry]
theorem LGaps_T0 : LGaps T0 26 := by
  constructor <;> intro x _ <;> exact T0_edge_catch _ (by decide) (by decide)
theorem KAllOk_T0 : KAllOk T0 26 := by
  constructor
  intro k _ _; exact ⟨by show inI32 0; decide, fun _ => rfl, fun _ => rfl⟩
theorem JTame_T0 (k : Int) (h0 : 0 ≤ k) (h1 : k < 9) (E : ℝ) : JTame (JGen.CS_Photo_Partial (JTables.ofC T0) 26 k E) := by
  right
  jeq_startJ JGen.CS_Photo_Partial JGen.CSb_Photo_Partial
  have hk : ¬ (k < 0 ∨ k ≥ 31) := by omega
  have h28 : ¬ k ≥ 28 := by omega
  by_cases hE : E ≤ 0
  · jeq_simp; exact ⟨_, rfl⟩
  jeq_simp
  have e : T0.Electron_Config_Kissel = fun _ _ => (0 : ℝ) := rfl
  have p : (0:ℝ) < 10e-7 := by norm_num
  simp only [e, p, h28, decide_true, ↓reduceIte, jbind_ok, jbind_error]
  exact ⟨_, rfl⟩
example : inI32 (T0.NE_Photo (26 : Int).toNat) := by decide
/-- the L-beta statement with all its hypotheses discharged -/
example : JRel (JGen.LineEnergy (JTables.ofC T0) 26 3) (Gen.LineEnergy T0 26 3 Slot.empty) Slot.empty :=
  java_eq_c_LineEnergy T0 26 (by decide) 3 (by decide) Slot.empty rfl (fun _ => by decide) (fun _ => LGaps_T0)
/-- and a Kissel statement with `KAllOk` and `JTame` discharged -/
example (E : ℝ) : JRel (JGen.CS_FluorShell_Kissel_no_Cascade (JTables.ofC T0) 26 0 E) (Gen.CS_FluorShell_Kissel_no_Cascade T0 26 0 E Slot.empty) Slot.empty :=
  java_eq_c_CS_FluorShell_Kissel_no_Cascade T0 26 (by decide) 0 (by decide) E Slot.empty rfl KAllOk_T0 (fun k h0 h1 => JTame_T0 k h0 h1 E)
end C19
end Xrl
