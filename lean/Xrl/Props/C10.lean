import Xrl.Lemmas.Meets
import Xrl.Lemmas.Loops
import Xrl.Spec.Groups
import Xrl.Gen.F_fluor_lines
import Xrl.Gen.F_radrate
/-!
# C10 — grouped line energies and rates are the stated averages of their member lines
(and the single-line branches of `LineEnergy` / `RadRate`, which complete C01)
-/
namespace Xrl
namespace C10
open Spec

set_option linter.unusedSimpArgs false
set_option linter.unusedVariables false

variable (T : Tables ℝ) (Z : Int) (error : Slot) (he : error.isFull = false)
include he

/-- `RadRate` for every macro value: K-alpha = Σ members, K-beta = 1 − K-alpha, L-alpha = Σ of two, L-beta
rejected, every other macro is the lookup of its own column -/
theorem rad_rate_spec (line : Int) :
    Meets (Gen.RadRate T Z line error) error (Spec.RadRate T Z line) := by
  unfold Gen.RadRate FUEL
  rw [show (6:Nat) = 4 + 1 + 1 from rfl, Gen.RadRate_fuel]
  unfold Spec.RadRate zOk singleRate isLineMacro
  simp only [Hdr.ZMAX, Hdr.KA_LINE, Hdr.KB_LINE, Hdr.LA_LINE, Hdr.LB_LINE, Hdr.group_KA, Hdr.L3M5_LINE, Hdr.L3M4_LINE,
    Hdr.LINENUM, sumRates, rCell, lineSlot, List.foldl, loopM_unroll, rd2, chkI, inI32, INT_MIN, INT_MAX, setErr_notFull he]
  by_cases hZ : Z < 1 ∨ 120 < Z
  · have : ¬ (1 ≤ Z ∧ Z ≤ 120) := by omega
    simp [hZ, this]
    xrl_finish
  · have hZ' : 1 ≤ Z ∧ Z ≤ 120 := by omega
    have hb : 0 ≤ Z ∧ Z < 121 := by omega
    by_cases h0 : line = 0
    · subst h0
      simp [hZ, hZ', hb, List.range, List.range.loop, List.foldlM]
      norm_num
      split_ifs <;> simp [Meets, Returns] <;> xrl_finish
    · by_cases h1 : line = 1
      · subst h1
        rw [Gen.RadRate_fuel]
        simp [hZ, hZ', hb, List.range, List.range.loop, List.foldlM, loopM_unroll, rd2, setErr_notFull he]
        norm_num
        split_ifs <;> simp_all [Meets, Returns] <;> xrl_finish
      · by_cases h2 : line = 2
        · subst h2
          simp [hZ, hZ', hb]
          norm_num
          split_ifs <;> simp [Meets, Returns] <;> xrl_finish
        · by_cases h3 : line = 3
          · subst h3
            simp [hZ, hZ', hb, Meets]
            xrl_finish
          · have e : (-line).toNat - 1 = (-line - 1).toNat := by omega
            simp [hZ, hZ', hb, h0, h1, h2, h3, zOk, Hdr.ZMAX]
            norm_num
            rw [e]
            xrl_finish


/-- a macro that is neither a Siegbahn group nor an IUPAC doublet -/
def Plain (line : Int) : Prop :=
  line ≠ 0 ∧ line ≠ 1 ∧ line ≠ 2 ∧ line ≠ 3 ∧ line ≠ -43 ∧ line ≠ -49 ∧ line ≠ -55 ∧ line ≠ -81 ∧ line ≠ -102 ∧
  line ≠ -108 ∧ line ≠ -111

/-- single-line branch of `LineEnergy` (any fuel ≥ 1): the lookup of the macro's own column, `KO`/`KP` standing
for their first member -/
theorem line_energy_single (f : Nat) (line : Int) (hp : Plain line) :
    Meets (Gen.LineEnergy_fuel (f + 1) T Z line error) error (singleEnergy T Z line) := by
  obtain ⟨p0, p1, p2, p3, p4, p5, p6, p7, p8, p9, p10⟩ := hp
  rw [Gen.LineEnergy_fuel]
  unfold singleEnergy zOk isLineMacro firstMember
  simp only [Hdr.ZMAX, Hdr.KO_LINE, Hdr.KP_LINE, Hdr.KO1_LINE, Hdr.KP1_LINE, Hdr.LINENUM, eCell, lineSlot, rd2, chkI, inI32,
    INT_MIN, INT_MAX, setErr_notFull he]
  by_cases hZ : Z < 1 ∨ 120 < Z
  · have : ¬ (1 ≤ Z ∧ Z ≤ 120) := by omega
    simp [hZ, this]
    xrl_finish
  · have hZ' : 1 ≤ Z ∧ Z ≤ 120 := by omega
    have hb : 0 ≤ Z ∧ Z < 121 := by omega
    by_cases hko : line = -16
    · subst hko
      simp [hZ, hZ', hb]
      norm_num
      xrl_finish
    · by_cases hkp : line = -24
      · subst hkp
        simp [hZ, hZ', hb]
        norm_num
        xrl_finish
      · have e : (-line).toNat - 1 = (-line - 1).toNat := by omega
        simp [hZ, hZ', hb, p0, p1, p2, p3, p4, p5, p6, p7, p8, p9, p10, hko, hkp]
        norm_num
        rw [e]
        xrl_finish


omit he in
/-- called without an error slot, a function that meets its expectation returns the value, or 0 -/
theorem meets_null {r : M (ℝ × Slot)} {x : Expect ℝ} (h : Meets r Slot.null x) (hx : x ≠ .any) :
    r = Except.ok (valOr0 x, Slot.null) := by
  rcases Meets.cases h with ⟨v, rfl, hr⟩ | ⟨rfl, e, _, _, hr⟩ | ha
  · simpa [valOr0] using hr
  · simp [valOr0, hr, Slot.withErr]; norm_num
  · exact absurd ha hx

omit he in
theorem singleEnergy_ne_any (line : Int) : singleEnergy T Z line ≠ .any := by
  unfold singleEnergy; split_ifs <;> simp

omit he in
theorem singleRate_ne_any (line : Int) : singleRate T Z line ≠ .any := by
  unfold singleRate; split_ifs <;> simp

omit he in
theorem radRate_plain (line : Int) (h : line ≠ 0 ∧ line ≠ 1 ∧ line ≠ 2 ∧ line ≠ 3) :
    Spec.RadRate T Z line = singleRate T Z line := by
  obtain ⟨h0, h1, h2, h3⟩ := h
  unfold Spec.RadRate singleRate
  simp only [Hdr.KA_LINE, Hdr.KB_LINE, Hdr.LA_LINE, Hdr.LB_LINE, h0, h1, h2, h3, if_false]
  by_cases hz : zOk Z = true <;> simp [hz]

omit he in
theorem valOr0_nonneg_of {x : Expect ℝ} (h : ∀ v, x = .value v → 0 < v) : 0 ≤ valOr0 x := by
  cases x with
  | value v => exact (h v rfl).le
  | fails => simp [valOr0]; norm_num
  | any => simp [valOr0]; norm_num

omit he in
theorem singleEnergy_nonneg (line : Int) : 0 ≤ valOr0 (singleEnergy T Z line) := by
  apply valOr0_nonneg_of
  intro v hv
  unfold singleEnergy at hv
  split_ifs at hv with h
  injection hv with hv; rw [← hv]; have := h.2.2; norm_num at this; exact this

omit he in
theorem singleRate_nonneg (line : Int) : 0 ≤ valOr0 (singleRate T Z line) := by
  apply valOr0_nonneg_of
  intro v hv
  unfold singleRate at hv
  split_ifs at hv with h
  injection hv with hv; rw [← hv]; have := h.2.2; norm_num at this; exact this

/-- two-member groups (L-alpha, the IUPAC doublets): rate-weighted mean over the members that have an energy, plain mean of
the available energies when no rates exist, error when neither member has an energy -/
theorem composed_spec (f : Nat) (l1 l2 : Int) (h1 : Plain l1) (h2 : Plain l2) :
    Meets (Gen.LineEnergyComposed_fuel (f + 2) T Z l1 l2 error) error (composed T Z l1 l2) := by
  rw [Gen.LineEnergyComposed_fuel]
  have hn : Slot.null.isFull = false := rfl
  have e1 := meets_null (line_energy_single T Z Slot.null hn f l1 h1) (singleEnergy_ne_any T Z l1)
  have e2 := meets_null (line_energy_single T Z Slot.null hn f l2 h2) (singleEnergy_ne_any T Z l2)
  have r1 := meets_null (rad_rate_spec T Z Slot.null hn l1) (by rw [radRate_plain T Z l1 ⟨h1.1, h1.2.1, h1.2.2.1, h1.2.2.2.1⟩]; exact singleRate_ne_any T Z l1)
  have r2 := meets_null (rad_rate_spec T Z Slot.null hn l2) (by rw [radRate_plain T Z l2 ⟨h2.1, h2.2.1, h2.2.2.1, h2.2.2.2.1⟩]; exact singleRate_ne_any T Z l2)
  rw [radRate_plain T Z l1 ⟨h1.1, h1.2.1, h1.2.2.1, h1.2.2.2.1⟩] at r1
  rw [radRate_plain T Z l2 ⟨h2.1, h2.2.1, h2.2.2.1, h2.2.2.2.1⟩] at r2
  simp only [e1, e2, r1, r2, bind_ok, pure_eq_ok, composed, wmean, List.foldl, ddiv, setErr_notFull he]
  beta_reduce
  have a1 := singleEnergy_nonneg T Z l1
  have a2 := singleEnergy_nonneg T Z l2
  have b1 := singleRate_nonneg T Z l1
  have b2 := singleRate_nonneg T Z l2
  generalize valOr0 (singleEnergy T Z l1) = x1 at *
  generalize valOr0 (singleEnergy T Z l2) = x2 at *
  generalize valOr0 (singleRate T Z l1) = y1 at *
  generalize valOr0 (singleRate T Z l2) = y2 at *
  norm_num
  by_cases p1 : x1 ≤ 0
  · have z1 : x1 = 0 := le_antisymm p1 a1
    subst z1
    by_cases p2 : x2 ≤ 0
    · have z2 : x2 = 0 := le_antisymm p2 a2
      subst z2
      simp [Meets]
      xrl_finish
    · have q2 : 0 < x2 := not_le.mp p2
      rcases b2.lt_or_eq with hy | hy
      · have : 0 < x2 * y2 := mul_pos q2 hy
        simp [p2, q2, hy, hy.ne', this, Meets, Returns]
      · subst hy
        simp [p2, q2, Meets, Returns]
  · have q1 : 0 < x1 := not_le.mp p1
    by_cases p2 : x2 ≤ 0
    · have z2 : x2 = 0 := le_antisymm p2 a2
      subst z2
      rcases b1.lt_or_eq with hy | hy
      · have : 0 < x1 * y1 := mul_pos q1 hy
        simp [p1, q1, hy, hy.ne', this, Meets, Returns]
      · subst hy
        simp [p1, q1, Meets, Returns]
    · have q2 : 0 < x2 := not_le.mp p2
      have hs : 0 < x1 + x2 := by linarith
      rcases (add_nonneg b1 b2).lt_or_eq with hy | hy
      · have hrv : 0 < x1 * y1 + x2 * y2 := by
          rcases b1.lt_or_eq with g | g
          · have := mul_pos q1 g; have := mul_nonneg q2.le b2; linarith
          · have g2 : 0 < y2 := by linarith
            have := mul_pos q2 g2; have := mul_nonneg q1.le b1; linarith
        simp [p1, p2, q1, q2, hy, hy.ne', hrv, Meets, Returns]
      · have hy1 : y1 = 0 := by linarith
        have hy2 : y2 = 0 := by linarith
        subst hy1; subst hy2
        simp [p1, p2, q1, q2, hs, Meets, Returns]


omit he in
theorem group_KA_eq : Hdr.group_KA = (List.range 3).map (fun k => -((0 + k : Nat) : Int) - 1) := by decide
omit he in
theorem group_KB_eq : Hdr.group_KB = (List.range 26).map (fun k => -((3 + k : Nat) : Int) - 1) := by decide

omit he in
theorem lineSlot_macro (j : Nat) : lineSlot (-((j : Nat) : Int) - 1) = j := by
  unfold lineSlot; omega

/-- one iteration of the K-alpha / K-beta accumulation loop of fluor_lines.c: a member without an energy is skipped; otherwise
`tmp += lE·rr`, `tmp1 += rr`, `tmp3 += lE`, `tmp4 += 1` -/
noncomputable def wmeanStep (e r : Nat → ℝ) (st : ℝ × ℝ × ℝ × ℝ × ℝ × ℝ) (k : Nat) : M (ℝ × ℝ × ℝ × ℝ × ℝ × ℝ) :=
  if e k ≤ 0 then Except.ok (e k, r k, st.2.2)
  else Except.ok (e k, r k, st.2.2.1 + e k * r k, st.2.2.2.1 + r k, st.2.2.2.2.1 + e k, st.2.2.2.2.2 + 1)

omit he in
/-- the accumulation loop as four folds -/
theorem wmean_loop6 (e r : Nat → ℝ) (ks : List Nat) (l0 r0 t t1 t3 t4 : ℝ) :
    ∃ a b, ks.foldlM (wmeanStep e r) (l0, r0, t, t1, t3, t4)
      = Except.ok (a, b, ks.foldl (fun acc k => if e k ≤ 0 then acc else acc + e k * r k) t,
          ks.foldl (fun acc k => if e k ≤ 0 then acc else acc + r k) t1,
          ks.foldl (fun acc k => if e k ≤ 0 then acc else acc + e k) t3,
          ks.foldl (fun acc k => if e k ≤ 0 then acc else acc + 1) t4) := by
  induction ks generalizing l0 r0 t t1 t3 t4 with
  | nil => exact ⟨l0, r0, rfl⟩
  | cons k ks ih =>
    simp only [List.foldlM_cons, List.foldl_cons, wmeanStep]
    by_cases h : e k ≤ 0
    · simp only [h, if_true, bind_ok]
      exact ih _ _ _ _ _ _
    · simp only [h, if_false, bind_ok]
      exact ih _ _ _ _ _ _

omit he in
/-- what the code does with the four sums: weighted mean, else plain mean, else the error — `wmean` -/
theorem wmean_finish (den num sum cnt : ℝ) :
    Meets (if 0 < den then (if den = 0 then Except.error (Abort.nf "div0") else Except.ok (num / den)) >>= fun q => Except.ok (q, error)
           else if 0 < cnt then (if cnt = 0 then Except.error (Abort.nf "div0") else Except.ok (sum / cnt)) >>= fun q => Except.ok (q, error)
           else Except.ok ((0 : ℝ), error.withErr ⟨1, "Invalid line for this atomic number"⟩) : M (ℝ × Slot)) error
      (if 0 < den then .value (num / den) else if 0 < cnt then .value (sum / cnt) else .fails) := by
  by_cases hd : 0 < den
  · simp [hd, hd.ne', Meets, Returns]
  · by_cases hc : 0 < cnt
    · simp [hd, hc, hc.ne', Meets, Returns]
    · simp only [hd, hc, if_false, Meets]
      exact fails_mk (by decide) (by decide)

/-- K-alpha energy: rate-weighted mean over the K→L lines that have an energy, their plain mean when no rates exist -/
theorem ka_energy_spec (f : Nat) (hZ' : 1 ≤ Z ∧ Z ≤ 120) :
    Meets (Gen.LineEnergy_fuel (f + 1) T Z 0 error) error (wmean Hdr.group_KA (eCell T Z) (rCell T Z)) := by
  have hZ : ¬ (Z < 1 ∨ 120 < Z) := by omega
  have hb : 0 ≤ Z ∧ Z < 121 := by omega
  rw [Gen.LineEnergy_fuel]
  simp only [loopM_unroll, setErr_notFull he, ddiv]
  norm_num [hZ]
  rw [foldlM_congr_mem (g := wmeanStep (fun k => T.LineEnergy_arr Z.toNat k) (fun k => T.RadRate_arr Z.toNat k))]
  · obtain ⟨a, b, hw⟩ := wmean_loop6 (fun k => T.LineEnergy_arr Z.toNat k) (fun k => T.RadRate_arr Z.toNat k) (List.range (Int.toNat 3)) 0 0 0 0 0 0
    rw [hw]
    unfold wmean
    rw [group_KA_eq]
    rw [foldl_macros (G := fun acc k => if T.LineEnergy_arr Z.toNat k ≤ 0 then acc else acc + T.RadRate_arr Z.toNat k),
      foldl_macros (G := fun acc k => if T.LineEnergy_arr Z.toNat k ≤ 0 then acc else acc + T.LineEnergy_arr Z.toNat k * T.RadRate_arr Z.toNat k),
      foldl_macros (G := fun acc k => if T.LineEnergy_arr Z.toNat k ≤ 0 then acc else acc + T.LineEnergy_arr Z.toNat k),
      foldl_macros (G := fun acc k => if T.LineEnergy_arr Z.toNat k ≤ 0 then acc else acc + 1)]
    · simp only [bind_ok, show Int.toNat 3 = 3 from rfl]
      norm_num
      exact wmean_finish error _ _ _ _
    all_goals
      intro acc k hk
      simp only [eCell, rCell, lineSlot_macro, Nat.zero_add]
      norm_num
  · intro k hk s
    have : k < 3 := by simpa using hk
    have hk' : (k:Int) < 383 := by omega
    simp [rd2, hb, hk', wmeanStep]


/-- K-beta energy: rate-weighted mean over the K→M…P lines that have an energy (their plain mean when no rates exist); the
rate-only group slots `KO`, `KP` carry the energy of their first member `KO1`, `KP1` -/
theorem kb_energy_spec (f : Nat) (hZ' : 1 ≤ Z ∧ Z ≤ 120) :
    Meets (Gen.LineEnergy_fuel (f + 1) T Z 1 error) error (wmean Hdr.group_KB (kEnergy T Z) (rCell T Z)) := by
  have hZ : ¬ (Z < 1 ∨ 120 < Z) := by omega
  have hb : 0 ≤ Z ∧ Z < 121 := by omega
  rw [Gen.LineEnergy_fuel]
  simp only [loopM_unroll, setErr_notFull he, ddiv]
  norm_num [hZ]
  let e : Nat → ℝ := fun k => if k = 12 then T.LineEnergy_arr Z.toNat 16 else if k = 20 then T.LineEnergy_arr Z.toNat 24
    else T.LineEnergy_arr Z.toNat (3 + k)
  let r : Nat → ℝ := fun k => T.RadRate_arr Z.toNat (3 + k)
  rw [foldlM_congr_mem (g := wmeanStep e r)]
  · obtain ⟨a, b, hw⟩ := wmean_loop6 e r (List.range (Int.toNat 26)) 0 0 0 0 0 0
    rw [hw]
    unfold wmean
    rw [group_KB_eq]
    rw [foldl_macros (G := fun acc k => if e k ≤ 0 then acc else acc + r k),
      foldl_macros (G := fun acc k => if e k ≤ 0 then acc else acc + e k * r k),
      foldl_macros (G := fun acc k => if e k ≤ 0 then acc else acc + e k),
      foldl_macros (G := fun acc k => if e k ≤ 0 then acc else acc + 1)]
    · simp only [bind_ok, show Int.toNat 26 = 26 from rfl]
      norm_num
      exact wmean_finish error _ _ _ _
    all_goals
      intro acc k hk
      simp only [kEnergy, eCell, rCell, lineSlot_macro, Hdr.KO_LINE, Hdr.KP_LINE, Hdr.KO1_LINE, Hdr.KP1_LINE, e, r]
      have e1 : (-((3 + k : Nat) : Int) - 1 = -16) ↔ k = 12 := by omega
      have e2 : (-((3 + k : Nat) : Int) - 1 = -24) ↔ k = 20 := by omega
      have s1 : lineSlot (-17) = 16 := by decide
      have s2 : lineSlot (-25) = 24 := by decide
      simp only [e1, e2, s1, s2]
      norm_num
  · intro k hk s
    have : k < 26 := by simpa using hk
    have hk' : (3:Int) + (k:Int) < 383 := by omega
    have t1 : ((3:Int) + (k:Int)).toNat = 3 + k := by omega
    have c1 : ((3:Int) + (k:Int) = 15) ↔ k = 12 := by omega
    have c2 : ((3:Int) + (k:Int) = 23) ↔ k = 20 := by omega
    simp [rd2, hb, hk', t1, c1, c2, e, r, wmeanStep]
    have h0 : (0:Int) ≤ 3 + (k:Int) := by omega
    simp only [h0, if_true, bind_ok]
    by_cases k12 : k = 12
    · simp [k12]
    · by_cases k20 : k = 20
      · simp [k20]
      · simp [k12, k20]


omit he in
theorem plain_dec (l : Int) (h : l ∈ ([-42, -44, -48, -50, -54, -56, -80, -82, -101, -103, -107, -109, -110, -112, -89, -90] : List Int)) :
    Plain l := by
  simp only [List.mem_cons, List.not_mem_nil, or_false] at h
  unfold Plain
  omega

set_option hygiene false in
/-- a doublet branch: the generated code calls `LineEnergyComposed` with the two members the NAME of the macro gives -/
macro "c10_doublet" l1:term:max l2:term:max : tactic =>
  `(tactic| (
      have hc := composed_spec T Z error he 3 $l1 $l2 (plain_dec _ (by decide)) (plain_dec _ (by decide))
      rw [show (6:Nat) = 5 + 1 from rfl, Gen.LineEnergy_fuel]
      simp [hZ, findDoublet, Hdr.doublets, List.find?]
      rcases Meets.cases hc with ⟨v, hx, hr⟩ | ⟨hx, e, h1, h2, hr⟩ | ha
      · simp [hx, hr, Meets, Returns]
      · simp [hx, hr, Meets]; xrl_finish
      · simp [ha, Meets]))

/-- **`LineEnergy` for every macro value**: single lines, `KO`/`KP`, K-alpha, K-beta, L-alpha and the seven
IUPAC doublets follow `Spec.LineEnergy` (member lists derived from the macro names); no claim for L-beta here -/
theorem line_energy_spec (line : Int) :
    Meets (Gen.LineEnergy T Z line error) error (Spec.LineEnergy T Z line) := by
  unfold Gen.LineEnergy FUEL Spec.LineEnergy
  by_cases hz : zOk Z = true
  · have hZ' : 1 ≤ Z ∧ Z ≤ 120 := by
      have := hz; simp only [zOk, Hdr.ZMAX] at this; exact of_decide_eq_true this
    have hZ : ¬ (Z < 1 ∨ 120 < Z) := by omega
    simp only [hz, Bool.true_eq_false, if_false, Hdr.KA_LINE, Hdr.KB_LINE, Hdr.LA_LINE, Hdr.LB_LINE]
    by_cases h0 : line = 0
    · subst h0; simpa using ka_energy_spec T Z error he 5 hZ'
    by_cases h1 : line = 1
    · subst h1; simpa using kb_energy_spec T Z error he 5 hZ'
    by_cases h3 : line = 3
    · subst h3; simp [Meets]
    by_cases h2 : line = 2
    · subst h2
      have := composed_spec T Z error he 3 (-89) (-90) (plain_dec _ (by decide)) (plain_dec _ (by decide))
      rw [show (6:Nat) = 5 + 1 from rfl, Gen.LineEnergy_fuel]
      simp [hZ, Hdr.group_LA]
      rcases Meets.cases this with ⟨v, hx, hr⟩ | ⟨hx, e, h1, h2, hr⟩ | ha
      · simp [hx, hr, Meets, Returns]
      · simp [hx, hr, Meets]; xrl_finish
      · simp [ha, Meets]
    simp only [h0, h1, h2, h3, if_false]
    by_cases d1 : line = -43
    · subst d1; c10_doublet (-42) (-44)
    by_cases d2 : line = -49
    · subst d2; c10_doublet (-48) (-50)
    by_cases d3 : line = -55
    · subst d3; c10_doublet (-54) (-56)
    by_cases d4 : line = -81
    · subst d4; c10_doublet (-80) (-82)
    by_cases d5 : line = -102
    · subst d5; c10_doublet (-101) (-103)
    by_cases d6 : line = -108
    · subst d6; c10_doublet (-107) (-109)
    by_cases d7 : line = -111
    · subst d7; c10_doublet (-110) (-112)
    have hp : Plain line := ⟨h0, h1, h2, h3, d1, d2, d3, d4, d5, d6, d7⟩
    have hf : findDoublet line = none := by
      have e1 : ¬ (-43 = line) := fun h => d1 h.symm
      have e2 : ¬ (-49 = line) := fun h => d2 h.symm
      have e3 : ¬ (-55 = line) := fun h => d3 h.symm
      have e4 : ¬ (-81 = line) := fun h => d4 h.symm
      have e5 : ¬ (-102 = line) := fun h => d5 h.symm
      have e6 : ¬ (-108 = line) := fun h => d6 h.symm
      have e7 : ¬ (-111 = line) := fun h => d7 h.symm
      simp [findDoublet, Hdr.doublets, List.find?, e1, e2, e3, e4, e5, e6, e7]
    rw [hf]
    exact line_energy_single T Z error he 5 line hp
  · have hz' : zOk Z = false := by simpa using hz
    have hZ : Z < 1 ∨ 120 < Z := by
      have := hz'; simp only [zOk, Hdr.ZMAX] at this; have := of_decide_eq_false this; omega
    rw [show (6:Nat) = 5 + 1 from rfl, Gen.LineEnergy_fuel]
    simp [hz', hZ, setErr_notFull he, Meets]
    xrl_finish


/-! ## "hence lies between the smallest and largest member energy" -/

omit he in
theorem wmean_fold_bounds (ms : List Int) (e r : Int → ℝ) (L U : ℝ) (hr : ∀ m ∈ ms, 0 ≤ r m)
    (hL : ∀ m ∈ ms, 0 < e m → L ≤ e m) (hU : ∀ m ∈ ms, 0 < e m → e m ≤ U) (n0 d0 : ℝ)
    (h0 : L * d0 ≤ n0 ∧ n0 ≤ U * d0) :
    L * ms.foldl (fun acc m => if e m ≤ 0 then acc else acc + r m) d0 ≤
        ms.foldl (fun acc m => if e m ≤ 0 then acc else acc + e m * r m) n0 ∧
      ms.foldl (fun acc m => if e m ≤ 0 then acc else acc + e m * r m) n0 ≤
        U * ms.foldl (fun acc m => if e m ≤ 0 then acc else acc + r m) d0 := by
  induction ms generalizing n0 d0 with
  | nil => simpa using h0
  | cons m ms ih =>
    simp only [List.foldl_cons]
    apply ih (fun x hx => hr x (List.mem_cons_of_mem _ hx)) (fun x hx => hL x (List.mem_cons_of_mem _ hx))
      (fun x hx => hU x (List.mem_cons_of_mem _ hx))
    by_cases hm : e m ≤ 0
    · simpa [hm] using h0
    · simp only [hm, if_false]
      have hpos : 0 < e m := not_le.mp hm
      have h1 := hL m (List.mem_cons_self ..) hpos
      have h2 := hU m (List.mem_cons_self ..) hpos
      have h3 := hr m (List.mem_cons_self ..)
      constructor <;> nlinarith [h0.1, h0.2]

omit he in
theorem plain_fold_bounds (ms : List Int) (e : Int → ℝ) (L U : ℝ)
    (hL : ∀ m ∈ ms, 0 < e m → L ≤ e m) (hU : ∀ m ∈ ms, 0 < e m → e m ≤ U) (s0 c0 : ℝ)
    (h0 : L * c0 ≤ s0 ∧ s0 ≤ U * c0) :
    L * ms.foldl (fun acc m => if e m ≤ 0 then acc else acc + 1) c0 ≤
        ms.foldl (fun acc m => if e m ≤ 0 then acc else acc + e m) s0 ∧
      ms.foldl (fun acc m => if e m ≤ 0 then acc else acc + e m) s0 ≤
        U * ms.foldl (fun acc m => if e m ≤ 0 then acc else acc + 1) c0 := by
  induction ms generalizing s0 c0 with
  | nil => simpa using h0
  | cons m ms ih =>
    simp only [List.foldl_cons]
    apply ih (fun x hx => hL x (List.mem_cons_of_mem _ hx)) (fun x hx => hU x (List.mem_cons_of_mem _ hx))
    by_cases hm : e m ≤ 0
    · simpa [hm] using h0
    · simp only [hm, if_false]
      have hpos : 0 < e m := not_le.mp hm
      have h1 := hL m (List.mem_cons_self ..) hpos
      have h2 := hU m (List.mem_cons_self ..) hpos
      constructor <;> nlinarith [h0.1, h0.2]

omit he in
/-- **a group mean lies between the smallest and the largest energy of the members that have one**: the rate-weighted mean for
non-negative rates (part of the data invariant, `Spec.ratesNonnegAt`), and the plain mean of the fallback -/
theorem group_energy_between (ms : List Int) (e r : Int → ℝ) (v L U : ℝ) (hr : ∀ m ∈ ms, 0 ≤ r m)
    (hL : ∀ m ∈ ms, 0 < e m → L ≤ e m) (hU : ∀ m ∈ ms, 0 < e m → e m ≤ U)
    (hv : wmean ms e r = .value v) : L ≤ v ∧ v ≤ U := by
  unfold wmean at hv
  simp only [] at hv
  split_ifs at hv with hd hc
  · injection hv with hv
    have hb := wmean_fold_bounds ms e r L U hr hL hU 0 0 (by norm_num)
    norm_num at hd hv hb
    rw [← hv]
    constructor
    · rw [le_div_iff₀ hd]; exact hb.1
    · rw [div_le_iff₀ hd]; exact hb.2
  · injection hv with hv
    have hb := plain_fold_bounds ms e L U hL hU 0 0 (by norm_num)
    norm_num at hc hv hb
    rw [← hv]
    constructor
    · rw [le_div_iff₀ hc]; exact hb.1
    · rw [div_le_iff₀ hc]; exact hb.2

omit he in
theorem foldl_skip_all (ms : List Int) (e : Int → ℝ) (g : ℝ → Int → ℝ) (hskip : ∀ m ∈ ms, e m ≤ 0) (a : ℝ) :
    ms.foldl (fun acc m => if e m ≤ (0.0 : ℝ) then acc else g acc m) a = a := by
  induction ms generalizing a with
  | nil => rfl
  | cons m ms ih =>
    have h0 : e m ≤ (0.0 : ℝ) := by have := hskip m (List.mem_cons_self ..); norm_num; exact this
    simp only [List.foldl_cons, h0, if_true]
    exact ih (fun x hx => hskip x (List.mem_cons_of_mem _ hx)) a

omit he in
/-- a group that has a mean has a member with an energy -/
theorem group_has_member (ms : List Int) (e r : Int → ℝ) (v : ℝ) (hv : wmean ms e r = .value v) : ∃ m ∈ ms, 0 < e m := by
  by_contra hne
  have hskip : ∀ m ∈ ms, e m ≤ 0 := fun m hm => not_lt.1 (fun h => hne ⟨m, hm, h⟩)
  unfold wmean at hv
  simp only [foldl_skip_all ms e (fun acc m => acc + r m) hskip, foldl_skip_all ms e (fun acc m => acc + (1.0 : ℝ)) hskip,
    lt_irrefl, if_false] at hv
  cases hv

example : wmean [(-1 : Int), -2] (fun m => if m = -1 then (2:ℝ) else 4) (fun _ => (1:ℝ)) = .value 3 := by
  norm_num [wmean, List.foldl]

/-- no rates: the plain mean of the members that have an energy (the middle one has none) -/
example : wmean [(-1 : Int), -2, -3] (fun m => if m = -1 then (2:ℝ) else if m = -2 then 0 else 4) (fun _ => (0:ℝ)) = .value 3 := by
  norm_num [wmean, List.foldl]

end C10
end Xrl
