import Xrl.Props.C19b
/-!
# C19 (third file) — `CS(b)_FluorShell_Kissel*`: the devirtualised cascade bodies against the C functions

The proof text of the per-shell lemmas is uniform (it was produced by a script from the table "which helper calls precede the
fluorescence yield in shell k"); every lemma is about the generated definitions, as in Props/C19.lean.
Hypotheses: `KAllOk T Z` (Kissel vectors well formed, Q shells empty — W1) and `ht`: the Java `CS_Photo_Partial` of the nine
sub-shells K…M5 ends with a value or an `IllegalArgumentException` (`JTame`): the calls in front of `FluorYield` sit in `try { } catch
(IllegalArgumentException e)`, so a stop of the model at a non-finite operation there (atomic weight 0, two equal Kissel knots) or an
out-of-bounds table (C: undefined behaviour) would make what follows unknowable — C evaluates `FluorYield` FIRST, Java LAST (W9).
-/
set_option linter.unusedSimpArgs false
set_option linter.unusedVariables false
set_option linter.unusedSectionVars false
namespace Xrl
namespace C19
section kshell2
variable (T : Tables ℝ) (Z : Int) (hZ : inI32 Z) (E : ℝ) (s : Slot) (hs : s.isFull = false)
include hZ hs

theorem java_eq_c_CS_FLUORSHELL_KISSEL_FULL__execute_sh0 (hk : KAllOk T Z)
    (ht : ∀ k : Int, 0 ≤ k → k < 9 → JTame (JGen.CS_Photo_Partial (JTables.ofC T) Z k E)) :
    JRel (JGen.CS_FLUORSHELL_KISSEL_FULL__execute (JTables.ofC T) Z 0 E) (Gen.CS_FluorShell_Kissel_Cascade T Z 0 E s) s := by
  jeq_start JGen.CS_FLUORSHELL_KISSEL_FULL__execute Gen.CS_FluorShell_Kissel_Cascade
  by_cases hz : Z < 1 ∨ Z > 120
  · jeq_auto
  by_cases hE : E ≤ 0
  · jeq_auto
  simp only [hz, hE, ↓reduceIte, zero_lit, Int.reduceEq]
  jeq_use_pos (java_eq_c_FluorYield T Z 0 hZ (by decide) s hs), (java_pos_FluorYield T Z hZ 0 (by decide))
  jeq_simp
  jeq_use (java_eq_c_CS_Photo_Partial T Z 0 hZ (by decide) E s hs (hk.vec 0 (by decide) (by decide)).1 (hk.vec 0 (by decide) (by decide)).2.1 (hk.vec 0 (by decide) (by decide)).2.2)
  jeq_auto

theorem java_eq_c_CS_FLUORSHELL_KISSEL_FULL__execute_sh1 (hk : KAllOk T Z)
    (ht : ∀ k : Int, 0 ≤ k → k < 9 → JTame (JGen.CS_Photo_Partial (JTables.ofC T) Z k E)) :
    JRel (JGen.CS_FLUORSHELL_KISSEL_FULL__execute (JTables.ofC T) Z 1 E) (Gen.CS_FluorShell_Kissel_Cascade T Z 1 E s) s := by
  jeq_start JGen.CS_FLUORSHELL_KISSEL_FULL__execute Gen.CS_FluorShell_Kissel_Cascade JGen.CS_Photo_Partial_catch JGen.CS_FLUORSHELL_KISSEL_FULL__PL1_cascade_kissel_catch JGen.CS_FLUORSHELL_KISSEL_FULL__PL2_cascade_kissel_catch JGen.CS_FLUORSHELL_KISSEL_FULL__PL3_cascade_kissel_catch JGen.CS_FLUORSHELL_KISSEL_FULL__PM1_cascade_kissel_catch JGen.CS_FLUORSHELL_KISSEL_FULL__PM2_cascade_kissel_catch JGen.CS_FLUORSHELL_KISSEL_FULL__PM3_cascade_kissel_catch JGen.CS_FLUORSHELL_KISSEL_FULL__PM4_cascade_kissel_catch JGen.CS_FLUORSHELL_KISSEL_FULL__PL1_cascade_kissel JGen.CS_FLUORSHELL_KISSEL_FULL__PL2_cascade_kissel JGen.CS_FLUORSHELL_KISSEL_FULL__PL3_cascade_kissel JGen.CS_FLUORSHELL_KISSEL_FULL__PM1_cascade_kissel JGen.CS_FLUORSHELL_KISSEL_FULL__PM2_cascade_kissel JGen.CS_FLUORSHELL_KISSEL_FULL__PM3_cascade_kissel JGen.CS_FLUORSHELL_KISSEL_FULL__PM4_cascade_kissel JGen.CS_FLUORSHELL_KISSEL_FULL__PM5_cascade_kissel
  by_cases hz : Z < 1 ∨ Z > 120
  · jeq_auto
  by_cases hE : E ≤ 0
  · jeq_auto
  simp only [hz, hE, ↓reduceIte, zero_lit]
  simp only [↓reduceIte, Int.reduceEq]
  have t0 := ht 0 (by decide) (by decide)
  have c0 := JCatchRel.of_rel (java_eq_c_CS_Photo_Partial T Z 0 hZ (by decide) E Slot.null rfl (hk.vec 0 (by decide) (by decide)).1 (hk.vec 0 (by decide) (by decide)).2.1 (hk.vec 0 (by decide) (by decide)).2.2)
  obtain ⟨p0, hp0⟩ := t0.jtry_val (d := (0.0 : ℝ))
  simp only [jpure_eq_ok, zero_lit] at hp0 c0
  simp only [jpure_eq_ok, pure_eq_ok, jbind_ret, zero_lit, deq_real]
  rcases c0.cases with ⟨v0, hc0, hj0⟩ | ⟨a, b, hc0, hj0⟩ | ⟨a, hc0⟩
  · have e0 : p0 = v0 := by rw [hp0] at hj0; cases hj0; rfl
    subst e0; clear hp0
    simp only [hj0, jbind_ok]
    jeq_use_pos (java_eq_c_FluorYield T Z 1 hZ (by decide) s hs), (java_pos_FluorYield T Z hZ 1 (by decide))
    jeq_simp
    jeq_use (java_eq_c_PL1_full_cascade_kissel T Z hZ E p0 s hs (hk.vec 1 (by decide) (by decide)))
    jeq_auto
  · rw [hp0] at hj0; cases hj0
  · simp only [hp0, jbind_ok]
    jeq_use_pos (java_eq_c_FluorYield T Z 1 hZ (by decide) s hs), (java_pos_FluorYield T Z hZ 1 (by decide))
    jeq_auto

theorem java_eq_c_CS_FLUORSHELL_KISSEL_FULL__execute_sh2 (hk : KAllOk T Z)
    (ht : ∀ k : Int, 0 ≤ k → k < 9 → JTame (JGen.CS_Photo_Partial (JTables.ofC T) Z k E)) :
    JRel (JGen.CS_FLUORSHELL_KISSEL_FULL__execute (JTables.ofC T) Z 2 E) (Gen.CS_FluorShell_Kissel_Cascade T Z 2 E s) s := by
  jeq_start JGen.CS_FLUORSHELL_KISSEL_FULL__execute Gen.CS_FluorShell_Kissel_Cascade JGen.CS_Photo_Partial_catch JGen.CS_FLUORSHELL_KISSEL_FULL__PL1_cascade_kissel_catch JGen.CS_FLUORSHELL_KISSEL_FULL__PL2_cascade_kissel_catch JGen.CS_FLUORSHELL_KISSEL_FULL__PL3_cascade_kissel_catch JGen.CS_FLUORSHELL_KISSEL_FULL__PM1_cascade_kissel_catch JGen.CS_FLUORSHELL_KISSEL_FULL__PM2_cascade_kissel_catch JGen.CS_FLUORSHELL_KISSEL_FULL__PM3_cascade_kissel_catch JGen.CS_FLUORSHELL_KISSEL_FULL__PM4_cascade_kissel_catch JGen.CS_FLUORSHELL_KISSEL_FULL__PL1_cascade_kissel JGen.CS_FLUORSHELL_KISSEL_FULL__PL2_cascade_kissel JGen.CS_FLUORSHELL_KISSEL_FULL__PL3_cascade_kissel JGen.CS_FLUORSHELL_KISSEL_FULL__PM1_cascade_kissel JGen.CS_FLUORSHELL_KISSEL_FULL__PM2_cascade_kissel JGen.CS_FLUORSHELL_KISSEL_FULL__PM3_cascade_kissel JGen.CS_FLUORSHELL_KISSEL_FULL__PM4_cascade_kissel JGen.CS_FLUORSHELL_KISSEL_FULL__PM5_cascade_kissel
  by_cases hz : Z < 1 ∨ Z > 120
  · jeq_auto
  by_cases hE : E ≤ 0
  · jeq_auto
  simp only [hz, hE, ↓reduceIte, zero_lit]
  simp only [↓reduceIte, Int.reduceEq]
  have t0 := ht 0 (by decide) (by decide)
  have c0 := JCatchRel.of_rel (java_eq_c_CS_Photo_Partial T Z 0 hZ (by decide) E Slot.null rfl (hk.vec 0 (by decide) (by decide)).1 (hk.vec 0 (by decide) (by decide)).2.1 (hk.vec 0 (by decide) (by decide)).2.2)
  obtain ⟨p0, hp0⟩ := t0.jtry_val (d := (0.0 : ℝ))
  simp only [jpure_eq_ok, zero_lit] at hp0 c0
  have t1 := jtame_PL1_full_cascade_kissel T Z hZ E p0 hz (ht 1 (by decide) (by decide))
  have c1 := JCatchRel.of_rel (java_eq_c_PL1_full_cascade_kissel T Z hZ E p0 Slot.null rfl (hk.vec 1 (by decide) (by decide)))
  obtain ⟨p1, hp1⟩ := t1.jtry_val (d := (0.0 : ℝ))
  simp only [jpure_eq_ok, zero_lit] at hp1 c1
  simp only [jpure_eq_ok, pure_eq_ok, jbind_ret, zero_lit, deq_real]
  rcases c0.cases with ⟨v0, hc0, hj0⟩ | ⟨a, b, hc0, hj0⟩ | ⟨a, hc0⟩
  · have e0 : p0 = v0 := by rw [hp0] at hj0; cases hj0; rfl
    subst e0; clear hp0
    simp only [hj0, jbind_ok]
    rcases c1.cases with ⟨v1, hc1, hj1⟩ | ⟨a, b, hc1, hj1⟩ | ⟨a, hc1⟩
    · have e1 : p1 = v1 := by rw [hp1] at hj1; cases hj1; rfl
      subst e1; clear hp1
      simp only [hj1, jbind_ok]
      jeq_use_pos (java_eq_c_FluorYield T Z 2 hZ (by decide) s hs), (java_pos_FluorYield T Z hZ 2 (by decide))
      jeq_simp
      jeq_use (java_eq_c_PL2_full_cascade_kissel T Z hZ E p0 p1 s hs (hk.vec 2 (by decide) (by decide)))
      jeq_auto
    · rw [hp1] at hj1; cases hj1
    · simp only [hp1, jbind_ok]
      jeq_use_pos (java_eq_c_FluorYield T Z 2 hZ (by decide) s hs), (java_pos_FluorYield T Z hZ 2 (by decide))
      jeq_auto
  · rw [hp0] at hj0; cases hj0
  · simp only [hp0, hp1, jbind_ok]
    jeq_use_pos (java_eq_c_FluorYield T Z 2 hZ (by decide) s hs), (java_pos_FluorYield T Z hZ 2 (by decide))
    jeq_auto

theorem java_eq_c_CS_FLUORSHELL_KISSEL_FULL__execute_sh3 (hk : KAllOk T Z)
    (ht : ∀ k : Int, 0 ≤ k → k < 9 → JTame (JGen.CS_Photo_Partial (JTables.ofC T) Z k E)) :
    JRel (JGen.CS_FLUORSHELL_KISSEL_FULL__execute (JTables.ofC T) Z 3 E) (Gen.CS_FluorShell_Kissel_Cascade T Z 3 E s) s := by
  jeq_start JGen.CS_FLUORSHELL_KISSEL_FULL__execute Gen.CS_FluorShell_Kissel_Cascade JGen.CS_Photo_Partial_catch JGen.CS_FLUORSHELL_KISSEL_FULL__PL1_cascade_kissel_catch JGen.CS_FLUORSHELL_KISSEL_FULL__PL2_cascade_kissel_catch JGen.CS_FLUORSHELL_KISSEL_FULL__PL3_cascade_kissel_catch JGen.CS_FLUORSHELL_KISSEL_FULL__PM1_cascade_kissel_catch JGen.CS_FLUORSHELL_KISSEL_FULL__PM2_cascade_kissel_catch JGen.CS_FLUORSHELL_KISSEL_FULL__PM3_cascade_kissel_catch JGen.CS_FLUORSHELL_KISSEL_FULL__PM4_cascade_kissel_catch JGen.CS_FLUORSHELL_KISSEL_FULL__PL1_cascade_kissel JGen.CS_FLUORSHELL_KISSEL_FULL__PL2_cascade_kissel JGen.CS_FLUORSHELL_KISSEL_FULL__PL3_cascade_kissel JGen.CS_FLUORSHELL_KISSEL_FULL__PM1_cascade_kissel JGen.CS_FLUORSHELL_KISSEL_FULL__PM2_cascade_kissel JGen.CS_FLUORSHELL_KISSEL_FULL__PM3_cascade_kissel JGen.CS_FLUORSHELL_KISSEL_FULL__PM4_cascade_kissel JGen.CS_FLUORSHELL_KISSEL_FULL__PM5_cascade_kissel
  by_cases hz : Z < 1 ∨ Z > 120
  · jeq_auto
  by_cases hE : E ≤ 0
  · jeq_auto
  simp only [hz, hE, ↓reduceIte, zero_lit]
  simp only [↓reduceIte, Int.reduceEq]
  have t0 := ht 0 (by decide) (by decide)
  have c0 := JCatchRel.of_rel (java_eq_c_CS_Photo_Partial T Z 0 hZ (by decide) E Slot.null rfl (hk.vec 0 (by decide) (by decide)).1 (hk.vec 0 (by decide) (by decide)).2.1 (hk.vec 0 (by decide) (by decide)).2.2)
  obtain ⟨p0, hp0⟩ := t0.jtry_val (d := (0.0 : ℝ))
  simp only [jpure_eq_ok, zero_lit] at hp0 c0
  have t1 := jtame_PL1_full_cascade_kissel T Z hZ E p0 hz (ht 1 (by decide) (by decide))
  have c1 := JCatchRel.of_rel (java_eq_c_PL1_full_cascade_kissel T Z hZ E p0 Slot.null rfl (hk.vec 1 (by decide) (by decide)))
  obtain ⟨p1, hp1⟩ := t1.jtry_val (d := (0.0 : ℝ))
  simp only [jpure_eq_ok, zero_lit] at hp1 c1
  have t2 := jtame_PL2_full_cascade_kissel T Z hZ E p0 p1 hz (ht 2 (by decide) (by decide))
  have c2 := JCatchRel.of_rel (java_eq_c_PL2_full_cascade_kissel T Z hZ E p0 p1 Slot.null rfl (hk.vec 2 (by decide) (by decide)))
  obtain ⟨p2, hp2⟩ := t2.jtry_val (d := (0.0 : ℝ))
  simp only [jpure_eq_ok, zero_lit] at hp2 c2
  simp only [jpure_eq_ok, pure_eq_ok, jbind_ret, zero_lit, deq_real]
  rcases c0.cases with ⟨v0, hc0, hj0⟩ | ⟨a, b, hc0, hj0⟩ | ⟨a, hc0⟩
  · have e0 : p0 = v0 := by rw [hp0] at hj0; cases hj0; rfl
    subst e0; clear hp0
    simp only [hj0, jbind_ok]
    rcases c1.cases with ⟨v1, hc1, hj1⟩ | ⟨a, b, hc1, hj1⟩ | ⟨a, hc1⟩
    · have e1 : p1 = v1 := by rw [hp1] at hj1; cases hj1; rfl
      subst e1; clear hp1
      simp only [hj1, jbind_ok]
      rcases c2.cases with ⟨v2, hc2, hj2⟩ | ⟨a, b, hc2, hj2⟩ | ⟨a, hc2⟩
      · have e2 : p2 = v2 := by rw [hp2] at hj2; cases hj2; rfl
        subst e2; clear hp2
        simp only [hj2, jbind_ok]
        jeq_use_pos (java_eq_c_FluorYield T Z 3 hZ (by decide) s hs), (java_pos_FluorYield T Z hZ 3 (by decide))
        jeq_simp
        jeq_use (java_eq_c_PL3_full_cascade_kissel T Z hZ E p0 p1 p2 s hs (hk.vec 3 (by decide) (by decide)))
        jeq_auto
      · rw [hp2] at hj2; cases hj2
      · simp only [hp2, jbind_ok]
        jeq_use_pos (java_eq_c_FluorYield T Z 3 hZ (by decide) s hs), (java_pos_FluorYield T Z hZ 3 (by decide))
        jeq_auto
    · rw [hp1] at hj1; cases hj1
    · simp only [hp1, hp2, jbind_ok]
      jeq_use_pos (java_eq_c_FluorYield T Z 3 hZ (by decide) s hs), (java_pos_FluorYield T Z hZ 3 (by decide))
      jeq_auto
  · rw [hp0] at hj0; cases hj0
  · simp only [hp0, hp1, hp2, jbind_ok]
    jeq_use_pos (java_eq_c_FluorYield T Z 3 hZ (by decide) s hs), (java_pos_FluorYield T Z hZ 3 (by decide))
    jeq_auto

theorem java_eq_c_CS_FLUORSHELL_KISSEL_FULL__execute_sh4 (hk : KAllOk T Z)
    (ht : ∀ k : Int, 0 ≤ k → k < 9 → JTame (JGen.CS_Photo_Partial (JTables.ofC T) Z k E)) :
    JRel (JGen.CS_FLUORSHELL_KISSEL_FULL__execute (JTables.ofC T) Z 4 E) (Gen.CS_FluorShell_Kissel_Cascade T Z 4 E s) s := by
  jeq_start JGen.CS_FLUORSHELL_KISSEL_FULL__execute Gen.CS_FluorShell_Kissel_Cascade JGen.CS_Photo_Partial_catch JGen.CS_FLUORSHELL_KISSEL_FULL__PL1_cascade_kissel_catch JGen.CS_FLUORSHELL_KISSEL_FULL__PL2_cascade_kissel_catch JGen.CS_FLUORSHELL_KISSEL_FULL__PL3_cascade_kissel_catch JGen.CS_FLUORSHELL_KISSEL_FULL__PM1_cascade_kissel_catch JGen.CS_FLUORSHELL_KISSEL_FULL__PM2_cascade_kissel_catch JGen.CS_FLUORSHELL_KISSEL_FULL__PM3_cascade_kissel_catch JGen.CS_FLUORSHELL_KISSEL_FULL__PM4_cascade_kissel_catch JGen.CS_FLUORSHELL_KISSEL_FULL__PL1_cascade_kissel JGen.CS_FLUORSHELL_KISSEL_FULL__PL2_cascade_kissel JGen.CS_FLUORSHELL_KISSEL_FULL__PL3_cascade_kissel JGen.CS_FLUORSHELL_KISSEL_FULL__PM1_cascade_kissel JGen.CS_FLUORSHELL_KISSEL_FULL__PM2_cascade_kissel JGen.CS_FLUORSHELL_KISSEL_FULL__PM3_cascade_kissel JGen.CS_FLUORSHELL_KISSEL_FULL__PM4_cascade_kissel JGen.CS_FLUORSHELL_KISSEL_FULL__PM5_cascade_kissel
  by_cases hz : Z < 1 ∨ Z > 120
  · jeq_auto
  by_cases hE : E ≤ 0
  · jeq_auto
  simp only [hz, hE, ↓reduceIte, zero_lit]
  simp only [↓reduceIte, Int.reduceEq]
  have t0 := ht 0 (by decide) (by decide)
  have c0 := JCatchRel.of_rel (java_eq_c_CS_Photo_Partial T Z 0 hZ (by decide) E Slot.null rfl (hk.vec 0 (by decide) (by decide)).1 (hk.vec 0 (by decide) (by decide)).2.1 (hk.vec 0 (by decide) (by decide)).2.2)
  obtain ⟨p0, hp0⟩ := t0.jtry_val (d := (0.0 : ℝ))
  simp only [jpure_eq_ok, zero_lit] at hp0 c0
  have t1 := jtame_PL1_full_cascade_kissel T Z hZ E p0 hz (ht 1 (by decide) (by decide))
  have c1 := JCatchRel.of_rel (java_eq_c_PL1_full_cascade_kissel T Z hZ E p0 Slot.null rfl (hk.vec 1 (by decide) (by decide)))
  obtain ⟨p1, hp1⟩ := t1.jtry_val (d := (0.0 : ℝ))
  simp only [jpure_eq_ok, zero_lit] at hp1 c1
  have t2 := jtame_PL2_full_cascade_kissel T Z hZ E p0 p1 hz (ht 2 (by decide) (by decide))
  have c2 := JCatchRel.of_rel (java_eq_c_PL2_full_cascade_kissel T Z hZ E p0 p1 Slot.null rfl (hk.vec 2 (by decide) (by decide)))
  obtain ⟨p2, hp2⟩ := t2.jtry_val (d := (0.0 : ℝ))
  simp only [jpure_eq_ok, zero_lit] at hp2 c2
  have t3 := jtame_PL3_full_cascade_kissel T Z hZ E p0 p1 p2 hz (ht 3 (by decide) (by decide))
  have c3 := JCatchRel.of_rel (java_eq_c_PL3_full_cascade_kissel T Z hZ E p0 p1 p2 Slot.null rfl (hk.vec 3 (by decide) (by decide)))
  obtain ⟨p3, hp3⟩ := t3.jtry_val (d := (0.0 : ℝ))
  simp only [jpure_eq_ok, zero_lit] at hp3 c3
  simp only [jpure_eq_ok, pure_eq_ok, jbind_ret, zero_lit, deq_real]
  rcases c0.cases with ⟨v0, hc0, hj0⟩ | ⟨a, b, hc0, hj0⟩ | ⟨a, hc0⟩
  · have e0 : p0 = v0 := by rw [hp0] at hj0; cases hj0; rfl
    subst e0; clear hp0
    simp only [hj0, jbind_ok]
    rcases c1.cases with ⟨v1, hc1, hj1⟩ | ⟨a, b, hc1, hj1⟩ | ⟨a, hc1⟩
    · have e1 : p1 = v1 := by rw [hp1] at hj1; cases hj1; rfl
      subst e1; clear hp1
      simp only [hj1, jbind_ok]
      rcases c2.cases with ⟨v2, hc2, hj2⟩ | ⟨a, b, hc2, hj2⟩ | ⟨a, hc2⟩
      · have e2 : p2 = v2 := by rw [hp2] at hj2; cases hj2; rfl
        subst e2; clear hp2
        simp only [hj2, jbind_ok]
        rcases c3.cases with ⟨v3, hc3, hj3⟩ | ⟨a, b, hc3, hj3⟩ | ⟨a, hc3⟩
        · have e3 : p3 = v3 := by rw [hp3] at hj3; cases hj3; rfl
          subst e3; clear hp3
          simp only [hj3, jbind_ok]
          jeq_use_pos (java_eq_c_FluorYield T Z 4 hZ (by decide) s hs), (java_pos_FluorYield T Z hZ 4 (by decide))
          jeq_simp
          jeq_use (java_eq_c_PM1_full_cascade_kissel T Z hZ E p0 p1 p2 p3 s hs (hk.vec 4 (by decide) (by decide)))
          jeq_auto
        · rw [hp3] at hj3; cases hj3
        · simp only [hp3, jbind_ok]
          jeq_use_pos (java_eq_c_FluorYield T Z 4 hZ (by decide) s hs), (java_pos_FluorYield T Z hZ 4 (by decide))
          jeq_auto
      · rw [hp2] at hj2; cases hj2
      · simp only [hp2, hp3, jbind_ok]
        jeq_use_pos (java_eq_c_FluorYield T Z 4 hZ (by decide) s hs), (java_pos_FluorYield T Z hZ 4 (by decide))
        jeq_auto
    · rw [hp1] at hj1; cases hj1
    · simp only [hp1, hp2, hp3, jbind_ok]
      jeq_use_pos (java_eq_c_FluorYield T Z 4 hZ (by decide) s hs), (java_pos_FluorYield T Z hZ 4 (by decide))
      jeq_auto
  · rw [hp0] at hj0; cases hj0
  · simp only [hp0, hp1, hp2, hp3, jbind_ok]
    jeq_use_pos (java_eq_c_FluorYield T Z 4 hZ (by decide) s hs), (java_pos_FluorYield T Z hZ 4 (by decide))
    jeq_auto

theorem java_eq_c_CS_FLUORSHELL_KISSEL_FULL__execute_sh5 (hk : KAllOk T Z)
    (ht : ∀ k : Int, 0 ≤ k → k < 9 → JTame (JGen.CS_Photo_Partial (JTables.ofC T) Z k E)) :
    JRel (JGen.CS_FLUORSHELL_KISSEL_FULL__execute (JTables.ofC T) Z 5 E) (Gen.CS_FluorShell_Kissel_Cascade T Z 5 E s) s := by
  jeq_start JGen.CS_FLUORSHELL_KISSEL_FULL__execute Gen.CS_FluorShell_Kissel_Cascade JGen.CS_Photo_Partial_catch JGen.CS_FLUORSHELL_KISSEL_FULL__PL1_cascade_kissel_catch JGen.CS_FLUORSHELL_KISSEL_FULL__PL2_cascade_kissel_catch JGen.CS_FLUORSHELL_KISSEL_FULL__PL3_cascade_kissel_catch JGen.CS_FLUORSHELL_KISSEL_FULL__PM1_cascade_kissel_catch JGen.CS_FLUORSHELL_KISSEL_FULL__PM2_cascade_kissel_catch JGen.CS_FLUORSHELL_KISSEL_FULL__PM3_cascade_kissel_catch JGen.CS_FLUORSHELL_KISSEL_FULL__PM4_cascade_kissel_catch JGen.CS_FLUORSHELL_KISSEL_FULL__PL1_cascade_kissel JGen.CS_FLUORSHELL_KISSEL_FULL__PL2_cascade_kissel JGen.CS_FLUORSHELL_KISSEL_FULL__PL3_cascade_kissel JGen.CS_FLUORSHELL_KISSEL_FULL__PM1_cascade_kissel JGen.CS_FLUORSHELL_KISSEL_FULL__PM2_cascade_kissel JGen.CS_FLUORSHELL_KISSEL_FULL__PM3_cascade_kissel JGen.CS_FLUORSHELL_KISSEL_FULL__PM4_cascade_kissel JGen.CS_FLUORSHELL_KISSEL_FULL__PM5_cascade_kissel
  by_cases hz : Z < 1 ∨ Z > 120
  · jeq_auto
  by_cases hE : E ≤ 0
  · jeq_auto
  simp only [hz, hE, ↓reduceIte, zero_lit]
  simp only [↓reduceIte, Int.reduceEq]
  have t0 := ht 0 (by decide) (by decide)
  have c0 := JCatchRel.of_rel (java_eq_c_CS_Photo_Partial T Z 0 hZ (by decide) E Slot.null rfl (hk.vec 0 (by decide) (by decide)).1 (hk.vec 0 (by decide) (by decide)).2.1 (hk.vec 0 (by decide) (by decide)).2.2)
  obtain ⟨p0, hp0⟩ := t0.jtry_val (d := (0.0 : ℝ))
  simp only [jpure_eq_ok, zero_lit] at hp0 c0
  have t1 := jtame_PL1_full_cascade_kissel T Z hZ E p0 hz (ht 1 (by decide) (by decide))
  have c1 := JCatchRel.of_rel (java_eq_c_PL1_full_cascade_kissel T Z hZ E p0 Slot.null rfl (hk.vec 1 (by decide) (by decide)))
  obtain ⟨p1, hp1⟩ := t1.jtry_val (d := (0.0 : ℝ))
  simp only [jpure_eq_ok, zero_lit] at hp1 c1
  have t2 := jtame_PL2_full_cascade_kissel T Z hZ E p0 p1 hz (ht 2 (by decide) (by decide))
  have c2 := JCatchRel.of_rel (java_eq_c_PL2_full_cascade_kissel T Z hZ E p0 p1 Slot.null rfl (hk.vec 2 (by decide) (by decide)))
  obtain ⟨p2, hp2⟩ := t2.jtry_val (d := (0.0 : ℝ))
  simp only [jpure_eq_ok, zero_lit] at hp2 c2
  have t3 := jtame_PL3_full_cascade_kissel T Z hZ E p0 p1 p2 hz (ht 3 (by decide) (by decide))
  have c3 := JCatchRel.of_rel (java_eq_c_PL3_full_cascade_kissel T Z hZ E p0 p1 p2 Slot.null rfl (hk.vec 3 (by decide) (by decide)))
  obtain ⟨p3, hp3⟩ := t3.jtry_val (d := (0.0 : ℝ))
  simp only [jpure_eq_ok, zero_lit] at hp3 c3
  have t4 := jtame_PM1_full_cascade_kissel T Z hZ E p0 p1 p2 p3 hz (ht 4 (by decide) (by decide))
  have c4 := JCatchRel.of_rel (java_eq_c_PM1_full_cascade_kissel T Z hZ E p0 p1 p2 p3 Slot.null rfl (hk.vec 4 (by decide) (by decide)))
  obtain ⟨p4, hp4⟩ := t4.jtry_val (d := (0.0 : ℝ))
  simp only [jpure_eq_ok, zero_lit] at hp4 c4
  simp only [jpure_eq_ok, pure_eq_ok, jbind_ret, zero_lit, deq_real]
  rcases c0.cases with ⟨v0, hc0, hj0⟩ | ⟨a, b, hc0, hj0⟩ | ⟨a, hc0⟩
  · have e0 : p0 = v0 := by rw [hp0] at hj0; cases hj0; rfl
    subst e0; clear hp0
    simp only [hj0, jbind_ok]
    rcases c1.cases with ⟨v1, hc1, hj1⟩ | ⟨a, b, hc1, hj1⟩ | ⟨a, hc1⟩
    · have e1 : p1 = v1 := by rw [hp1] at hj1; cases hj1; rfl
      subst e1; clear hp1
      simp only [hj1, jbind_ok]
      rcases c2.cases with ⟨v2, hc2, hj2⟩ | ⟨a, b, hc2, hj2⟩ | ⟨a, hc2⟩
      · have e2 : p2 = v2 := by rw [hp2] at hj2; cases hj2; rfl
        subst e2; clear hp2
        simp only [hj2, jbind_ok]
        rcases c3.cases with ⟨v3, hc3, hj3⟩ | ⟨a, b, hc3, hj3⟩ | ⟨a, hc3⟩
        · have e3 : p3 = v3 := by rw [hp3] at hj3; cases hj3; rfl
          subst e3; clear hp3
          simp only [hj3, jbind_ok]
          rcases c4.cases with ⟨v4, hc4, hj4⟩ | ⟨a, b, hc4, hj4⟩ | ⟨a, hc4⟩
          · have e4 : p4 = v4 := by rw [hp4] at hj4; cases hj4; rfl
            subst e4; clear hp4
            simp only [hj4, jbind_ok]
            jeq_use_pos (java_eq_c_FluorYield T Z 5 hZ (by decide) s hs), (java_pos_FluorYield T Z hZ 5 (by decide))
            jeq_simp
            jeq_use (java_eq_c_PM2_full_cascade_kissel T Z hZ E p0 p1 p2 p3 p4 s hs (hk.vec 5 (by decide) (by decide)))
            jeq_auto
          · rw [hp4] at hj4; cases hj4
          · simp only [hp4, jbind_ok]
            jeq_use_pos (java_eq_c_FluorYield T Z 5 hZ (by decide) s hs), (java_pos_FluorYield T Z hZ 5 (by decide))
            jeq_auto
        · rw [hp3] at hj3; cases hj3
        · simp only [hp3, hp4, jbind_ok]
          jeq_use_pos (java_eq_c_FluorYield T Z 5 hZ (by decide) s hs), (java_pos_FluorYield T Z hZ 5 (by decide))
          jeq_auto
      · rw [hp2] at hj2; cases hj2
      · simp only [hp2, hp3, hp4, jbind_ok]
        jeq_use_pos (java_eq_c_FluorYield T Z 5 hZ (by decide) s hs), (java_pos_FluorYield T Z hZ 5 (by decide))
        jeq_auto
    · rw [hp1] at hj1; cases hj1
    · simp only [hp1, hp2, hp3, hp4, jbind_ok]
      jeq_use_pos (java_eq_c_FluorYield T Z 5 hZ (by decide) s hs), (java_pos_FluorYield T Z hZ 5 (by decide))
      jeq_auto
  · rw [hp0] at hj0; cases hj0
  · simp only [hp0, hp1, hp2, hp3, hp4, jbind_ok]
    jeq_use_pos (java_eq_c_FluorYield T Z 5 hZ (by decide) s hs), (java_pos_FluorYield T Z hZ 5 (by decide))
    jeq_auto

theorem java_eq_c_CS_FLUORSHELL_KISSEL_FULL__execute_sh6 (hk : KAllOk T Z)
    (ht : ∀ k : Int, 0 ≤ k → k < 9 → JTame (JGen.CS_Photo_Partial (JTables.ofC T) Z k E)) :
    JRel (JGen.CS_FLUORSHELL_KISSEL_FULL__execute (JTables.ofC T) Z 6 E) (Gen.CS_FluorShell_Kissel_Cascade T Z 6 E s) s := by
  jeq_start JGen.CS_FLUORSHELL_KISSEL_FULL__execute Gen.CS_FluorShell_Kissel_Cascade JGen.CS_Photo_Partial_catch JGen.CS_FLUORSHELL_KISSEL_FULL__PL1_cascade_kissel_catch JGen.CS_FLUORSHELL_KISSEL_FULL__PL2_cascade_kissel_catch JGen.CS_FLUORSHELL_KISSEL_FULL__PL3_cascade_kissel_catch JGen.CS_FLUORSHELL_KISSEL_FULL__PM1_cascade_kissel_catch JGen.CS_FLUORSHELL_KISSEL_FULL__PM2_cascade_kissel_catch JGen.CS_FLUORSHELL_KISSEL_FULL__PM3_cascade_kissel_catch JGen.CS_FLUORSHELL_KISSEL_FULL__PM4_cascade_kissel_catch JGen.CS_FLUORSHELL_KISSEL_FULL__PL1_cascade_kissel JGen.CS_FLUORSHELL_KISSEL_FULL__PL2_cascade_kissel JGen.CS_FLUORSHELL_KISSEL_FULL__PL3_cascade_kissel JGen.CS_FLUORSHELL_KISSEL_FULL__PM1_cascade_kissel JGen.CS_FLUORSHELL_KISSEL_FULL__PM2_cascade_kissel JGen.CS_FLUORSHELL_KISSEL_FULL__PM3_cascade_kissel JGen.CS_FLUORSHELL_KISSEL_FULL__PM4_cascade_kissel JGen.CS_FLUORSHELL_KISSEL_FULL__PM5_cascade_kissel
  by_cases hz : Z < 1 ∨ Z > 120
  · jeq_auto
  by_cases hE : E ≤ 0
  · jeq_auto
  simp only [hz, hE, ↓reduceIte, zero_lit]
  simp only [↓reduceIte, Int.reduceEq]
  have t0 := ht 0 (by decide) (by decide)
  have c0 := JCatchRel.of_rel (java_eq_c_CS_Photo_Partial T Z 0 hZ (by decide) E Slot.null rfl (hk.vec 0 (by decide) (by decide)).1 (hk.vec 0 (by decide) (by decide)).2.1 (hk.vec 0 (by decide) (by decide)).2.2)
  obtain ⟨p0, hp0⟩ := t0.jtry_val (d := (0.0 : ℝ))
  simp only [jpure_eq_ok, zero_lit] at hp0 c0
  have t1 := jtame_PL1_full_cascade_kissel T Z hZ E p0 hz (ht 1 (by decide) (by decide))
  have c1 := JCatchRel.of_rel (java_eq_c_PL1_full_cascade_kissel T Z hZ E p0 Slot.null rfl (hk.vec 1 (by decide) (by decide)))
  obtain ⟨p1, hp1⟩ := t1.jtry_val (d := (0.0 : ℝ))
  simp only [jpure_eq_ok, zero_lit] at hp1 c1
  have t2 := jtame_PL2_full_cascade_kissel T Z hZ E p0 p1 hz (ht 2 (by decide) (by decide))
  have c2 := JCatchRel.of_rel (java_eq_c_PL2_full_cascade_kissel T Z hZ E p0 p1 Slot.null rfl (hk.vec 2 (by decide) (by decide)))
  obtain ⟨p2, hp2⟩ := t2.jtry_val (d := (0.0 : ℝ))
  simp only [jpure_eq_ok, zero_lit] at hp2 c2
  have t3 := jtame_PL3_full_cascade_kissel T Z hZ E p0 p1 p2 hz (ht 3 (by decide) (by decide))
  have c3 := JCatchRel.of_rel (java_eq_c_PL3_full_cascade_kissel T Z hZ E p0 p1 p2 Slot.null rfl (hk.vec 3 (by decide) (by decide)))
  obtain ⟨p3, hp3⟩ := t3.jtry_val (d := (0.0 : ℝ))
  simp only [jpure_eq_ok, zero_lit] at hp3 c3
  have t4 := jtame_PM1_full_cascade_kissel T Z hZ E p0 p1 p2 p3 hz (ht 4 (by decide) (by decide))
  have c4 := JCatchRel.of_rel (java_eq_c_PM1_full_cascade_kissel T Z hZ E p0 p1 p2 p3 Slot.null rfl (hk.vec 4 (by decide) (by decide)))
  obtain ⟨p4, hp4⟩ := t4.jtry_val (d := (0.0 : ℝ))
  simp only [jpure_eq_ok, zero_lit] at hp4 c4
  have t5 := jtame_PM2_full_cascade_kissel T Z hZ E p0 p1 p2 p3 p4 hz (ht 5 (by decide) (by decide))
  have c5 := JCatchRel.of_rel (java_eq_c_PM2_full_cascade_kissel T Z hZ E p0 p1 p2 p3 p4 Slot.null rfl (hk.vec 5 (by decide) (by decide)))
  obtain ⟨p5, hp5⟩ := t5.jtry_val (d := (0.0 : ℝ))
  simp only [jpure_eq_ok, zero_lit] at hp5 c5
  simp only [jpure_eq_ok, pure_eq_ok, jbind_ret, zero_lit, deq_real]
  rcases c0.cases with ⟨v0, hc0, hj0⟩ | ⟨a, b, hc0, hj0⟩ | ⟨a, hc0⟩
  · have e0 : p0 = v0 := by rw [hp0] at hj0; cases hj0; rfl
    subst e0; clear hp0
    simp only [hj0, jbind_ok]
    rcases c1.cases with ⟨v1, hc1, hj1⟩ | ⟨a, b, hc1, hj1⟩ | ⟨a, hc1⟩
    · have e1 : p1 = v1 := by rw [hp1] at hj1; cases hj1; rfl
      subst e1; clear hp1
      simp only [hj1, jbind_ok]
      rcases c2.cases with ⟨v2, hc2, hj2⟩ | ⟨a, b, hc2, hj2⟩ | ⟨a, hc2⟩
      · have e2 : p2 = v2 := by rw [hp2] at hj2; cases hj2; rfl
        subst e2; clear hp2
        simp only [hj2, jbind_ok]
        rcases c3.cases with ⟨v3, hc3, hj3⟩ | ⟨a, b, hc3, hj3⟩ | ⟨a, hc3⟩
        · have e3 : p3 = v3 := by rw [hp3] at hj3; cases hj3; rfl
          subst e3; clear hp3
          simp only [hj3, jbind_ok]
          rcases c4.cases with ⟨v4, hc4, hj4⟩ | ⟨a, b, hc4, hj4⟩ | ⟨a, hc4⟩
          · have e4 : p4 = v4 := by rw [hp4] at hj4; cases hj4; rfl
            subst e4; clear hp4
            simp only [hj4, jbind_ok]
            rcases c5.cases with ⟨v5, hc5, hj5⟩ | ⟨a, b, hc5, hj5⟩ | ⟨a, hc5⟩
            · have e5 : p5 = v5 := by rw [hp5] at hj5; cases hj5; rfl
              subst e5; clear hp5
              simp only [hj5, jbind_ok]
              jeq_use_pos (java_eq_c_FluorYield T Z 6 hZ (by decide) s hs), (java_pos_FluorYield T Z hZ 6 (by decide))
              jeq_simp
              jeq_use (java_eq_c_PM3_full_cascade_kissel T Z hZ E p0 p1 p2 p3 p4 p5 s hs (hk.vec 6 (by decide) (by decide)))
              jeq_auto
            · rw [hp5] at hj5; cases hj5
            · simp only [hp5, jbind_ok]
              jeq_use_pos (java_eq_c_FluorYield T Z 6 hZ (by decide) s hs), (java_pos_FluorYield T Z hZ 6 (by decide))
              jeq_auto
          · rw [hp4] at hj4; cases hj4
          · simp only [hp4, hp5, jbind_ok]
            jeq_use_pos (java_eq_c_FluorYield T Z 6 hZ (by decide) s hs), (java_pos_FluorYield T Z hZ 6 (by decide))
            jeq_auto
        · rw [hp3] at hj3; cases hj3
        · simp only [hp3, hp4, hp5, jbind_ok]
          jeq_use_pos (java_eq_c_FluorYield T Z 6 hZ (by decide) s hs), (java_pos_FluorYield T Z hZ 6 (by decide))
          jeq_auto
      · rw [hp2] at hj2; cases hj2
      · simp only [hp2, hp3, hp4, hp5, jbind_ok]
        jeq_use_pos (java_eq_c_FluorYield T Z 6 hZ (by decide) s hs), (java_pos_FluorYield T Z hZ 6 (by decide))
        jeq_auto
    · rw [hp1] at hj1; cases hj1
    · simp only [hp1, hp2, hp3, hp4, hp5, jbind_ok]
      jeq_use_pos (java_eq_c_FluorYield T Z 6 hZ (by decide) s hs), (java_pos_FluorYield T Z hZ 6 (by decide))
      jeq_auto
  · rw [hp0] at hj0; cases hj0
  · simp only [hp0, hp1, hp2, hp3, hp4, hp5, jbind_ok]
    jeq_use_pos (java_eq_c_FluorYield T Z 6 hZ (by decide) s hs), (java_pos_FluorYield T Z hZ 6 (by decide))
    jeq_auto

theorem java_eq_c_CS_FLUORSHELL_KISSEL_FULL__execute_sh7 (hk : KAllOk T Z)
    (ht : ∀ k : Int, 0 ≤ k → k < 9 → JTame (JGen.CS_Photo_Partial (JTables.ofC T) Z k E)) :
    JRel (JGen.CS_FLUORSHELL_KISSEL_FULL__execute (JTables.ofC T) Z 7 E) (Gen.CS_FluorShell_Kissel_Cascade T Z 7 E s) s := by
  jeq_start JGen.CS_FLUORSHELL_KISSEL_FULL__execute Gen.CS_FluorShell_Kissel_Cascade JGen.CS_Photo_Partial_catch JGen.CS_FLUORSHELL_KISSEL_FULL__PL1_cascade_kissel_catch JGen.CS_FLUORSHELL_KISSEL_FULL__PL2_cascade_kissel_catch JGen.CS_FLUORSHELL_KISSEL_FULL__PL3_cascade_kissel_catch JGen.CS_FLUORSHELL_KISSEL_FULL__PM1_cascade_kissel_catch JGen.CS_FLUORSHELL_KISSEL_FULL__PM2_cascade_kissel_catch JGen.CS_FLUORSHELL_KISSEL_FULL__PM3_cascade_kissel_catch JGen.CS_FLUORSHELL_KISSEL_FULL__PM4_cascade_kissel_catch JGen.CS_FLUORSHELL_KISSEL_FULL__PL1_cascade_kissel JGen.CS_FLUORSHELL_KISSEL_FULL__PL2_cascade_kissel JGen.CS_FLUORSHELL_KISSEL_FULL__PL3_cascade_kissel JGen.CS_FLUORSHELL_KISSEL_FULL__PM1_cascade_kissel JGen.CS_FLUORSHELL_KISSEL_FULL__PM2_cascade_kissel JGen.CS_FLUORSHELL_KISSEL_FULL__PM3_cascade_kissel JGen.CS_FLUORSHELL_KISSEL_FULL__PM4_cascade_kissel JGen.CS_FLUORSHELL_KISSEL_FULL__PM5_cascade_kissel
  by_cases hz : Z < 1 ∨ Z > 120
  · jeq_auto
  by_cases hE : E ≤ 0
  · jeq_auto
  simp only [hz, hE, ↓reduceIte, zero_lit]
  simp only [↓reduceIte, Int.reduceEq]
  have t0 := ht 0 (by decide) (by decide)
  have c0 := JCatchRel.of_rel (java_eq_c_CS_Photo_Partial T Z 0 hZ (by decide) E Slot.null rfl (hk.vec 0 (by decide) (by decide)).1 (hk.vec 0 (by decide) (by decide)).2.1 (hk.vec 0 (by decide) (by decide)).2.2)
  obtain ⟨p0, hp0⟩ := t0.jtry_val (d := (0.0 : ℝ))
  simp only [jpure_eq_ok, zero_lit] at hp0 c0
  have t1 := jtame_PL1_full_cascade_kissel T Z hZ E p0 hz (ht 1 (by decide) (by decide))
  have c1 := JCatchRel.of_rel (java_eq_c_PL1_full_cascade_kissel T Z hZ E p0 Slot.null rfl (hk.vec 1 (by decide) (by decide)))
  obtain ⟨p1, hp1⟩ := t1.jtry_val (d := (0.0 : ℝ))
  simp only [jpure_eq_ok, zero_lit] at hp1 c1
  have t2 := jtame_PL2_full_cascade_kissel T Z hZ E p0 p1 hz (ht 2 (by decide) (by decide))
  have c2 := JCatchRel.of_rel (java_eq_c_PL2_full_cascade_kissel T Z hZ E p0 p1 Slot.null rfl (hk.vec 2 (by decide) (by decide)))
  obtain ⟨p2, hp2⟩ := t2.jtry_val (d := (0.0 : ℝ))
  simp only [jpure_eq_ok, zero_lit] at hp2 c2
  have t3 := jtame_PL3_full_cascade_kissel T Z hZ E p0 p1 p2 hz (ht 3 (by decide) (by decide))
  have c3 := JCatchRel.of_rel (java_eq_c_PL3_full_cascade_kissel T Z hZ E p0 p1 p2 Slot.null rfl (hk.vec 3 (by decide) (by decide)))
  obtain ⟨p3, hp3⟩ := t3.jtry_val (d := (0.0 : ℝ))
  simp only [jpure_eq_ok, zero_lit] at hp3 c3
  have t4 := jtame_PM1_full_cascade_kissel T Z hZ E p0 p1 p2 p3 hz (ht 4 (by decide) (by decide))
  have c4 := JCatchRel.of_rel (java_eq_c_PM1_full_cascade_kissel T Z hZ E p0 p1 p2 p3 Slot.null rfl (hk.vec 4 (by decide) (by decide)))
  obtain ⟨p4, hp4⟩ := t4.jtry_val (d := (0.0 : ℝ))
  simp only [jpure_eq_ok, zero_lit] at hp4 c4
  have t5 := jtame_PM2_full_cascade_kissel T Z hZ E p0 p1 p2 p3 p4 hz (ht 5 (by decide) (by decide))
  have c5 := JCatchRel.of_rel (java_eq_c_PM2_full_cascade_kissel T Z hZ E p0 p1 p2 p3 p4 Slot.null rfl (hk.vec 5 (by decide) (by decide)))
  obtain ⟨p5, hp5⟩ := t5.jtry_val (d := (0.0 : ℝ))
  simp only [jpure_eq_ok, zero_lit] at hp5 c5
  have t6 := jtame_PM3_full_cascade_kissel T Z hZ E p0 p1 p2 p3 p4 p5 hz (ht 6 (by decide) (by decide))
  have c6 := JCatchRel.of_rel (java_eq_c_PM3_full_cascade_kissel T Z hZ E p0 p1 p2 p3 p4 p5 Slot.null rfl (hk.vec 6 (by decide) (by decide)))
  obtain ⟨p6, hp6⟩ := t6.jtry_val (d := (0.0 : ℝ))
  simp only [jpure_eq_ok, zero_lit] at hp6 c6
  simp only [jpure_eq_ok, pure_eq_ok, jbind_ret, zero_lit, deq_real]
  rcases c0.cases with ⟨v0, hc0, hj0⟩ | ⟨a, b, hc0, hj0⟩ | ⟨a, hc0⟩
  · have e0 : p0 = v0 := by rw [hp0] at hj0; cases hj0; rfl
    subst e0; clear hp0
    simp only [hj0, jbind_ok]
    rcases c1.cases with ⟨v1, hc1, hj1⟩ | ⟨a, b, hc1, hj1⟩ | ⟨a, hc1⟩
    · have e1 : p1 = v1 := by rw [hp1] at hj1; cases hj1; rfl
      subst e1; clear hp1
      simp only [hj1, jbind_ok]
      rcases c2.cases with ⟨v2, hc2, hj2⟩ | ⟨a, b, hc2, hj2⟩ | ⟨a, hc2⟩
      · have e2 : p2 = v2 := by rw [hp2] at hj2; cases hj2; rfl
        subst e2; clear hp2
        simp only [hj2, jbind_ok]
        rcases c3.cases with ⟨v3, hc3, hj3⟩ | ⟨a, b, hc3, hj3⟩ | ⟨a, hc3⟩
        · have e3 : p3 = v3 := by rw [hp3] at hj3; cases hj3; rfl
          subst e3; clear hp3
          simp only [hj3, jbind_ok]
          rcases c4.cases with ⟨v4, hc4, hj4⟩ | ⟨a, b, hc4, hj4⟩ | ⟨a, hc4⟩
          · have e4 : p4 = v4 := by rw [hp4] at hj4; cases hj4; rfl
            subst e4; clear hp4
            simp only [hj4, jbind_ok]
            rcases c5.cases with ⟨v5, hc5, hj5⟩ | ⟨a, b, hc5, hj5⟩ | ⟨a, hc5⟩
            · have e5 : p5 = v5 := by rw [hp5] at hj5; cases hj5; rfl
              subst e5; clear hp5
              simp only [hj5, jbind_ok]
              rcases c6.cases with ⟨v6, hc6, hj6⟩ | ⟨a, b, hc6, hj6⟩ | ⟨a, hc6⟩
              · have e6 : p6 = v6 := by rw [hp6] at hj6; cases hj6; rfl
                subst e6; clear hp6
                simp only [hj6, jbind_ok]
                jeq_use_pos (java_eq_c_FluorYield T Z 7 hZ (by decide) s hs), (java_pos_FluorYield T Z hZ 7 (by decide))
                jeq_simp
                jeq_use (java_eq_c_PM4_full_cascade_kissel T Z hZ E p0 p1 p2 p3 p4 p5 p6 s hs (hk.vec 7 (by decide) (by decide)))
                jeq_auto
              · rw [hp6] at hj6; cases hj6
              · simp only [hp6, jbind_ok]
                jeq_use_pos (java_eq_c_FluorYield T Z 7 hZ (by decide) s hs), (java_pos_FluorYield T Z hZ 7 (by decide))
                jeq_auto
            · rw [hp5] at hj5; cases hj5
            · simp only [hp5, hp6, jbind_ok]
              jeq_use_pos (java_eq_c_FluorYield T Z 7 hZ (by decide) s hs), (java_pos_FluorYield T Z hZ 7 (by decide))
              jeq_auto
          · rw [hp4] at hj4; cases hj4
          · simp only [hp4, hp5, hp6, jbind_ok]
            jeq_use_pos (java_eq_c_FluorYield T Z 7 hZ (by decide) s hs), (java_pos_FluorYield T Z hZ 7 (by decide))
            jeq_auto
        · rw [hp3] at hj3; cases hj3
        · simp only [hp3, hp4, hp5, hp6, jbind_ok]
          jeq_use_pos (java_eq_c_FluorYield T Z 7 hZ (by decide) s hs), (java_pos_FluorYield T Z hZ 7 (by decide))
          jeq_auto
      · rw [hp2] at hj2; cases hj2
      · simp only [hp2, hp3, hp4, hp5, hp6, jbind_ok]
        jeq_use_pos (java_eq_c_FluorYield T Z 7 hZ (by decide) s hs), (java_pos_FluorYield T Z hZ 7 (by decide))
        jeq_auto
    · rw [hp1] at hj1; cases hj1
    · simp only [hp1, hp2, hp3, hp4, hp5, hp6, jbind_ok]
      jeq_use_pos (java_eq_c_FluorYield T Z 7 hZ (by decide) s hs), (java_pos_FluorYield T Z hZ 7 (by decide))
      jeq_auto
  · rw [hp0] at hj0; cases hj0
  · simp only [hp0, hp1, hp2, hp3, hp4, hp5, hp6, jbind_ok]
    jeq_use_pos (java_eq_c_FluorYield T Z 7 hZ (by decide) s hs), (java_pos_FluorYield T Z hZ 7 (by decide))
    jeq_auto

theorem java_eq_c_CS_FLUORSHELL_KISSEL_FULL__execute_sh8 (hk : KAllOk T Z)
    (ht : ∀ k : Int, 0 ≤ k → k < 9 → JTame (JGen.CS_Photo_Partial (JTables.ofC T) Z k E)) :
    JRel (JGen.CS_FLUORSHELL_KISSEL_FULL__execute (JTables.ofC T) Z 8 E) (Gen.CS_FluorShell_Kissel_Cascade T Z 8 E s) s := by
  jeq_start JGen.CS_FLUORSHELL_KISSEL_FULL__execute Gen.CS_FluorShell_Kissel_Cascade JGen.CS_Photo_Partial_catch JGen.CS_FLUORSHELL_KISSEL_FULL__PL1_cascade_kissel_catch JGen.CS_FLUORSHELL_KISSEL_FULL__PL2_cascade_kissel_catch JGen.CS_FLUORSHELL_KISSEL_FULL__PL3_cascade_kissel_catch JGen.CS_FLUORSHELL_KISSEL_FULL__PM1_cascade_kissel_catch JGen.CS_FLUORSHELL_KISSEL_FULL__PM2_cascade_kissel_catch JGen.CS_FLUORSHELL_KISSEL_FULL__PM3_cascade_kissel_catch JGen.CS_FLUORSHELL_KISSEL_FULL__PM4_cascade_kissel_catch JGen.CS_FLUORSHELL_KISSEL_FULL__PL1_cascade_kissel JGen.CS_FLUORSHELL_KISSEL_FULL__PL2_cascade_kissel JGen.CS_FLUORSHELL_KISSEL_FULL__PL3_cascade_kissel JGen.CS_FLUORSHELL_KISSEL_FULL__PM1_cascade_kissel JGen.CS_FLUORSHELL_KISSEL_FULL__PM2_cascade_kissel JGen.CS_FLUORSHELL_KISSEL_FULL__PM3_cascade_kissel JGen.CS_FLUORSHELL_KISSEL_FULL__PM4_cascade_kissel JGen.CS_FLUORSHELL_KISSEL_FULL__PM5_cascade_kissel
  by_cases hz : Z < 1 ∨ Z > 120
  · jeq_auto
  by_cases hE : E ≤ 0
  · jeq_auto
  simp only [hz, hE, ↓reduceIte, zero_lit]
  simp only [↓reduceIte, Int.reduceEq]
  have t0 := ht 0 (by decide) (by decide)
  have c0 := JCatchRel.of_rel (java_eq_c_CS_Photo_Partial T Z 0 hZ (by decide) E Slot.null rfl (hk.vec 0 (by decide) (by decide)).1 (hk.vec 0 (by decide) (by decide)).2.1 (hk.vec 0 (by decide) (by decide)).2.2)
  obtain ⟨p0, hp0⟩ := t0.jtry_val (d := (0.0 : ℝ))
  simp only [jpure_eq_ok, zero_lit] at hp0 c0
  have t1 := jtame_PL1_full_cascade_kissel T Z hZ E p0 hz (ht 1 (by decide) (by decide))
  have c1 := JCatchRel.of_rel (java_eq_c_PL1_full_cascade_kissel T Z hZ E p0 Slot.null rfl (hk.vec 1 (by decide) (by decide)))
  obtain ⟨p1, hp1⟩ := t1.jtry_val (d := (0.0 : ℝ))
  simp only [jpure_eq_ok, zero_lit] at hp1 c1
  have t2 := jtame_PL2_full_cascade_kissel T Z hZ E p0 p1 hz (ht 2 (by decide) (by decide))
  have c2 := JCatchRel.of_rel (java_eq_c_PL2_full_cascade_kissel T Z hZ E p0 p1 Slot.null rfl (hk.vec 2 (by decide) (by decide)))
  obtain ⟨p2, hp2⟩ := t2.jtry_val (d := (0.0 : ℝ))
  simp only [jpure_eq_ok, zero_lit] at hp2 c2
  have t3 := jtame_PL3_full_cascade_kissel T Z hZ E p0 p1 p2 hz (ht 3 (by decide) (by decide))
  have c3 := JCatchRel.of_rel (java_eq_c_PL3_full_cascade_kissel T Z hZ E p0 p1 p2 Slot.null rfl (hk.vec 3 (by decide) (by decide)))
  obtain ⟨p3, hp3⟩ := t3.jtry_val (d := (0.0 : ℝ))
  simp only [jpure_eq_ok, zero_lit] at hp3 c3
  have t4 := jtame_PM1_full_cascade_kissel T Z hZ E p0 p1 p2 p3 hz (ht 4 (by decide) (by decide))
  have c4 := JCatchRel.of_rel (java_eq_c_PM1_full_cascade_kissel T Z hZ E p0 p1 p2 p3 Slot.null rfl (hk.vec 4 (by decide) (by decide)))
  obtain ⟨p4, hp4⟩ := t4.jtry_val (d := (0.0 : ℝ))
  simp only [jpure_eq_ok, zero_lit] at hp4 c4
  have t5 := jtame_PM2_full_cascade_kissel T Z hZ E p0 p1 p2 p3 p4 hz (ht 5 (by decide) (by decide))
  have c5 := JCatchRel.of_rel (java_eq_c_PM2_full_cascade_kissel T Z hZ E p0 p1 p2 p3 p4 Slot.null rfl (hk.vec 5 (by decide) (by decide)))
  obtain ⟨p5, hp5⟩ := t5.jtry_val (d := (0.0 : ℝ))
  simp only [jpure_eq_ok, zero_lit] at hp5 c5
  have t6 := jtame_PM3_full_cascade_kissel T Z hZ E p0 p1 p2 p3 p4 p5 hz (ht 6 (by decide) (by decide))
  have c6 := JCatchRel.of_rel (java_eq_c_PM3_full_cascade_kissel T Z hZ E p0 p1 p2 p3 p4 p5 Slot.null rfl (hk.vec 6 (by decide) (by decide)))
  obtain ⟨p6, hp6⟩ := t6.jtry_val (d := (0.0 : ℝ))
  simp only [jpure_eq_ok, zero_lit] at hp6 c6
  have t7 := jtame_PM4_full_cascade_kissel T Z hZ E p0 p1 p2 p3 p4 p5 p6 hz (ht 7 (by decide) (by decide))
  have c7 := JCatchRel.of_rel (java_eq_c_PM4_full_cascade_kissel T Z hZ E p0 p1 p2 p3 p4 p5 p6 Slot.null rfl (hk.vec 7 (by decide) (by decide)))
  obtain ⟨p7, hp7⟩ := t7.jtry_val (d := (0.0 : ℝ))
  simp only [jpure_eq_ok, zero_lit] at hp7 c7
  simp only [jpure_eq_ok, pure_eq_ok, jbind_ret, zero_lit, deq_real]
  rcases c0.cases with ⟨v0, hc0, hj0⟩ | ⟨a, b, hc0, hj0⟩ | ⟨a, hc0⟩
  · have e0 : p0 = v0 := by rw [hp0] at hj0; cases hj0; rfl
    subst e0; clear hp0
    simp only [hj0, jbind_ok]
    rcases c1.cases with ⟨v1, hc1, hj1⟩ | ⟨a, b, hc1, hj1⟩ | ⟨a, hc1⟩
    · have e1 : p1 = v1 := by rw [hp1] at hj1; cases hj1; rfl
      subst e1; clear hp1
      simp only [hj1, jbind_ok]
      rcases c2.cases with ⟨v2, hc2, hj2⟩ | ⟨a, b, hc2, hj2⟩ | ⟨a, hc2⟩
      · have e2 : p2 = v2 := by rw [hp2] at hj2; cases hj2; rfl
        subst e2; clear hp2
        simp only [hj2, jbind_ok]
        rcases c3.cases with ⟨v3, hc3, hj3⟩ | ⟨a, b, hc3, hj3⟩ | ⟨a, hc3⟩
        · have e3 : p3 = v3 := by rw [hp3] at hj3; cases hj3; rfl
          subst e3; clear hp3
          simp only [hj3, jbind_ok]
          rcases c4.cases with ⟨v4, hc4, hj4⟩ | ⟨a, b, hc4, hj4⟩ | ⟨a, hc4⟩
          · have e4 : p4 = v4 := by rw [hp4] at hj4; cases hj4; rfl
            subst e4; clear hp4
            simp only [hj4, jbind_ok]
            rcases c5.cases with ⟨v5, hc5, hj5⟩ | ⟨a, b, hc5, hj5⟩ | ⟨a, hc5⟩
            · have e5 : p5 = v5 := by rw [hp5] at hj5; cases hj5; rfl
              subst e5; clear hp5
              simp only [hj5, jbind_ok]
              rcases c6.cases with ⟨v6, hc6, hj6⟩ | ⟨a, b, hc6, hj6⟩ | ⟨a, hc6⟩
              · have e6 : p6 = v6 := by rw [hp6] at hj6; cases hj6; rfl
                subst e6; clear hp6
                simp only [hj6, jbind_ok]
                rcases c7.cases with ⟨v7, hc7, hj7⟩ | ⟨a, b, hc7, hj7⟩ | ⟨a, hc7⟩
                · have e7 : p7 = v7 := by rw [hp7] at hj7; cases hj7; rfl
                  subst e7; clear hp7
                  simp only [hj7, jbind_ok]
                  jeq_use_pos (java_eq_c_FluorYield T Z 8 hZ (by decide) s hs), (java_pos_FluorYield T Z hZ 8 (by decide))
                  jeq_simp
                  jeq_use (java_eq_c_PM5_full_cascade_kissel T Z hZ E p0 p1 p2 p3 p4 p5 p6 p7 s hs (hk.vec 8 (by decide) (by decide)))
                  jeq_auto
                · rw [hp7] at hj7; cases hj7
                · simp only [hp7, jbind_ok]
                  jeq_use_pos (java_eq_c_FluorYield T Z 8 hZ (by decide) s hs), (java_pos_FluorYield T Z hZ 8 (by decide))
                  jeq_auto
              · rw [hp6] at hj6; cases hj6
              · simp only [hp6, hp7, jbind_ok]
                jeq_use_pos (java_eq_c_FluorYield T Z 8 hZ (by decide) s hs), (java_pos_FluorYield T Z hZ 8 (by decide))
                jeq_auto
            · rw [hp5] at hj5; cases hj5
            · simp only [hp5, hp6, hp7, jbind_ok]
              jeq_use_pos (java_eq_c_FluorYield T Z 8 hZ (by decide) s hs), (java_pos_FluorYield T Z hZ 8 (by decide))
              jeq_auto
          · rw [hp4] at hj4; cases hj4
          · simp only [hp4, hp5, hp6, hp7, jbind_ok]
            jeq_use_pos (java_eq_c_FluorYield T Z 8 hZ (by decide) s hs), (java_pos_FluorYield T Z hZ 8 (by decide))
            jeq_auto
        · rw [hp3] at hj3; cases hj3
        · simp only [hp3, hp4, hp5, hp6, hp7, jbind_ok]
          jeq_use_pos (java_eq_c_FluorYield T Z 8 hZ (by decide) s hs), (java_pos_FluorYield T Z hZ 8 (by decide))
          jeq_auto
      · rw [hp2] at hj2; cases hj2
      · simp only [hp2, hp3, hp4, hp5, hp6, hp7, jbind_ok]
        jeq_use_pos (java_eq_c_FluorYield T Z 8 hZ (by decide) s hs), (java_pos_FluorYield T Z hZ 8 (by decide))
        jeq_auto
    · rw [hp1] at hj1; cases hj1
    · simp only [hp1, hp2, hp3, hp4, hp5, hp6, hp7, jbind_ok]
      jeq_use_pos (java_eq_c_FluorYield T Z 8 hZ (by decide) s hs), (java_pos_FluorYield T Z hZ 8 (by decide))
      jeq_auto
  · rw [hp0] at hj0; cases hj0
  · simp only [hp0, hp1, hp2, hp3, hp4, hp5, hp6, hp7, jbind_ok]
    jeq_use_pos (java_eq_c_FluorYield T Z 8 hZ (by decide) s hs), (java_pos_FluorYield T Z hZ 8 (by decide))
    jeq_auto

theorem java_eq_c_CS_FLUORSHELL_KISSEL_FULL__execute (m : Int) (hm : inI32 m) (hk : KAllOk T Z)
    (ht : ∀ k : Int, 0 ≤ k → k < 9 → JTame (JGen.CS_Photo_Partial (JTables.ofC T) Z k E)) :
    JRel (JGen.CS_FLUORSHELL_KISSEL_FULL__execute (JTables.ofC T) Z m E) (Gen.CS_FluorShell_Kissel_Cascade T Z m E s) s := by
  by_cases h0 : m = 0
  · subst h0; exact java_eq_c_CS_FLUORSHELL_KISSEL_FULL__execute_sh0 T Z hZ E s hs hk ht
  by_cases h1 : m = 1
  · subst h1; exact java_eq_c_CS_FLUORSHELL_KISSEL_FULL__execute_sh1 T Z hZ E s hs hk ht
  by_cases h2 : m = 2
  · subst h2; exact java_eq_c_CS_FLUORSHELL_KISSEL_FULL__execute_sh2 T Z hZ E s hs hk ht
  by_cases h3 : m = 3
  · subst h3; exact java_eq_c_CS_FLUORSHELL_KISSEL_FULL__execute_sh3 T Z hZ E s hs hk ht
  by_cases h4 : m = 4
  · subst h4; exact java_eq_c_CS_FLUORSHELL_KISSEL_FULL__execute_sh4 T Z hZ E s hs hk ht
  by_cases h5 : m = 5
  · subst h5; exact java_eq_c_CS_FLUORSHELL_KISSEL_FULL__execute_sh5 T Z hZ E s hs hk ht
  by_cases h6 : m = 6
  · subst h6; exact java_eq_c_CS_FLUORSHELL_KISSEL_FULL__execute_sh6 T Z hZ E s hs hk ht
  by_cases h7 : m = 7
  · subst h7; exact java_eq_c_CS_FLUORSHELL_KISSEL_FULL__execute_sh7 T Z hZ E s hs hk ht
  by_cases h8 : m = 8
  · subst h8; exact java_eq_c_CS_FLUORSHELL_KISSEL_FULL__execute_sh8 T Z hZ E s hs hk ht
  jeq_start JGen.CS_FLUORSHELL_KISSEL_FULL__execute Gen.CS_FluorShell_Kissel_Cascade
  jeq_auto

omit hs in
theorem java_rng_CS_FLUORSHELL_KISSEL_FULL__execute (m : Int) {v : ℝ} (h : JGen.CS_FLUORSHELL_KISSEL_FULL__execute (JTables.ofC T) Z m E = .ok v) : ¬(Z < 1 ∨ Z > 120) := by
  intro hz
  unfold JGen.CS_FLUORSHELL_KISSEL_FULL__execute at h
  jeq_normJ
  simp only [hz, ↓reduceIte, jthrow_eq_error] at h
  cases h

theorem java_eq_c_CS_FluorShell_Kissel_Cascade (m : Int) (hm : inI32 m) (hk : KAllOk T Z)
    (ht : ∀ k : Int, 0 ≤ k → k < 9 → JTame (JGen.CS_Photo_Partial (JTables.ofC T) Z k E)) :
    JRel (JGen.CS_FluorShell_Kissel_Cascade (JTables.ofC T) Z m E) (Gen.CS_FluorShell_Kissel_Cascade T Z m E s) s := by
  unfold JGen.CS_FluorShell_Kissel_Cascade
  try simp only [jpure_eq_ok, jbind_ret]
  exact java_eq_c_CS_FLUORSHELL_KISSEL_FULL__execute T Z hZ E s hs m hm hk ht

theorem java_eq_c_CSb_FluorShell_Kissel_Cascade (m : Int) (hm : inI32 m) (hk : KAllOk T Z)
    (ht : ∀ k : Int, 0 ≤ k → k < 9 → JTame (JGen.CS_Photo_Partial (JTables.ofC T) Z k E)) :
    JRel (JGen.CSb_FluorShell_Kissel_Cascade (JTables.ofC T) Z m E) (Gen.CSb_FluorShell_Kissel_Cascade T Z m E s) s := by
  jeq_start JGen.CSb_FluorShell_Kissel_Cascade Gen.CSb_FluorShell_Kissel_Cascade
  rcases (java_eq_c_CS_FluorShell_Kissel_Cascade T Z hZ E s hs m hm hk ht).cases with ⟨v, hc, hj⟩ | ⟨e, hc, hj⟩ | ⟨a, b, hc, hj⟩ | ⟨a, hc⟩
  · have hr : ¬(Z < 1 ∨ Z > 120) := by
      unfold JGen.CS_FluorShell_Kissel_Cascade at hj
      try simp only [jpure_eq_ok, jbind_ret] at hj
      exact java_rng_CS_FLUORSHELL_KISSEL_FULL__execute T Z hZ E m hj
    jeq_auto
  · jeq_auto
  · jeq_auto
  · jeq_auto

theorem java_eq_c_CS_FLUORSHELL_KISSEL_RADIATIVE__execute_sh0 (hk : KAllOk T Z)
    (ht : ∀ k : Int, 0 ≤ k → k < 9 → JTame (JGen.CS_Photo_Partial (JTables.ofC T) Z k E)) :
    JRel (JGen.CS_FLUORSHELL_KISSEL_RADIATIVE__execute (JTables.ofC T) Z 0 E) (Gen.CS_FluorShell_Kissel_Radiative_Cascade T Z 0 E s) s := by
  jeq_start JGen.CS_FLUORSHELL_KISSEL_RADIATIVE__execute Gen.CS_FluorShell_Kissel_Radiative_Cascade
  by_cases hz : Z < 1 ∨ Z > 120
  · jeq_auto
  by_cases hE : E ≤ 0
  · jeq_auto
  simp only [hz, hE, ↓reduceIte, zero_lit, Int.reduceEq]
  jeq_use_pos (java_eq_c_FluorYield T Z 0 hZ (by decide) s hs), (java_pos_FluorYield T Z hZ 0 (by decide))
  jeq_simp
  jeq_use (java_eq_c_CS_Photo_Partial T Z 0 hZ (by decide) E s hs (hk.vec 0 (by decide) (by decide)).1 (hk.vec 0 (by decide) (by decide)).2.1 (hk.vec 0 (by decide) (by decide)).2.2)
  jeq_auto

theorem java_eq_c_CS_FLUORSHELL_KISSEL_RADIATIVE__execute_sh1 (hk : KAllOk T Z)
    (ht : ∀ k : Int, 0 ≤ k → k < 9 → JTame (JGen.CS_Photo_Partial (JTables.ofC T) Z k E)) :
    JRel (JGen.CS_FLUORSHELL_KISSEL_RADIATIVE__execute (JTables.ofC T) Z 1 E) (Gen.CS_FluorShell_Kissel_Radiative_Cascade T Z 1 E s) s := by
  jeq_start JGen.CS_FLUORSHELL_KISSEL_RADIATIVE__execute Gen.CS_FluorShell_Kissel_Radiative_Cascade JGen.CS_Photo_Partial_catch JGen.CS_FLUORSHELL_KISSEL_RADIATIVE__PL1_cascade_kissel_catch JGen.CS_FLUORSHELL_KISSEL_RADIATIVE__PL2_cascade_kissel_catch JGen.CS_FLUORSHELL_KISSEL_RADIATIVE__PL3_cascade_kissel_catch JGen.CS_FLUORSHELL_KISSEL_RADIATIVE__PM1_cascade_kissel_catch JGen.CS_FLUORSHELL_KISSEL_RADIATIVE__PM2_cascade_kissel_catch JGen.CS_FLUORSHELL_KISSEL_RADIATIVE__PM3_cascade_kissel_catch JGen.CS_FLUORSHELL_KISSEL_RADIATIVE__PM4_cascade_kissel_catch JGen.CS_FLUORSHELL_KISSEL_RADIATIVE__PL1_cascade_kissel JGen.CS_FLUORSHELL_KISSEL_RADIATIVE__PL2_cascade_kissel JGen.CS_FLUORSHELL_KISSEL_RADIATIVE__PL3_cascade_kissel JGen.CS_FLUORSHELL_KISSEL_RADIATIVE__PM1_cascade_kissel JGen.CS_FLUORSHELL_KISSEL_RADIATIVE__PM2_cascade_kissel JGen.CS_FLUORSHELL_KISSEL_RADIATIVE__PM3_cascade_kissel JGen.CS_FLUORSHELL_KISSEL_RADIATIVE__PM4_cascade_kissel JGen.CS_FLUORSHELL_KISSEL_RADIATIVE__PM5_cascade_kissel
  by_cases hz : Z < 1 ∨ Z > 120
  · jeq_auto
  by_cases hE : E ≤ 0
  · jeq_auto
  simp only [hz, hE, ↓reduceIte, zero_lit]
  simp only [↓reduceIte, Int.reduceEq]
  have t0 := ht 0 (by decide) (by decide)
  have c0 := JCatchRel.of_rel (java_eq_c_CS_Photo_Partial T Z 0 hZ (by decide) E Slot.null rfl (hk.vec 0 (by decide) (by decide)).1 (hk.vec 0 (by decide) (by decide)).2.1 (hk.vec 0 (by decide) (by decide)).2.2)
  obtain ⟨p0, hp0⟩ := t0.jtry_val (d := (0.0 : ℝ))
  simp only [jpure_eq_ok, zero_lit] at hp0 c0
  simp only [jpure_eq_ok, pure_eq_ok, jbind_ret, zero_lit, deq_real]
  rcases c0.cases with ⟨v0, hc0, hj0⟩ | ⟨a, b, hc0, hj0⟩ | ⟨a, hc0⟩
  · have e0 : p0 = v0 := by rw [hp0] at hj0; cases hj0; rfl
    subst e0; clear hp0
    simp only [hj0, jbind_ok]
    jeq_use_pos (java_eq_c_FluorYield T Z 1 hZ (by decide) s hs), (java_pos_FluorYield T Z hZ 1 (by decide))
    jeq_simp
    jeq_use (java_eq_c_PL1_rad_cascade_kissel T Z hZ E p0 s hs (hk.vec 1 (by decide) (by decide)))
    jeq_auto
  · rw [hp0] at hj0; cases hj0
  · simp only [hp0, jbind_ok]
    jeq_use_pos (java_eq_c_FluorYield T Z 1 hZ (by decide) s hs), (java_pos_FluorYield T Z hZ 1 (by decide))
    jeq_auto

theorem java_eq_c_CS_FLUORSHELL_KISSEL_RADIATIVE__execute_sh2 (hk : KAllOk T Z)
    (ht : ∀ k : Int, 0 ≤ k → k < 9 → JTame (JGen.CS_Photo_Partial (JTables.ofC T) Z k E)) :
    JRel (JGen.CS_FLUORSHELL_KISSEL_RADIATIVE__execute (JTables.ofC T) Z 2 E) (Gen.CS_FluorShell_Kissel_Radiative_Cascade T Z 2 E s) s := by
  jeq_start JGen.CS_FLUORSHELL_KISSEL_RADIATIVE__execute Gen.CS_FluorShell_Kissel_Radiative_Cascade JGen.CS_Photo_Partial_catch JGen.CS_FLUORSHELL_KISSEL_RADIATIVE__PL1_cascade_kissel_catch JGen.CS_FLUORSHELL_KISSEL_RADIATIVE__PL2_cascade_kissel_catch JGen.CS_FLUORSHELL_KISSEL_RADIATIVE__PL3_cascade_kissel_catch JGen.CS_FLUORSHELL_KISSEL_RADIATIVE__PM1_cascade_kissel_catch JGen.CS_FLUORSHELL_KISSEL_RADIATIVE__PM2_cascade_kissel_catch JGen.CS_FLUORSHELL_KISSEL_RADIATIVE__PM3_cascade_kissel_catch JGen.CS_FLUORSHELL_KISSEL_RADIATIVE__PM4_cascade_kissel_catch JGen.CS_FLUORSHELL_KISSEL_RADIATIVE__PL1_cascade_kissel JGen.CS_FLUORSHELL_KISSEL_RADIATIVE__PL2_cascade_kissel JGen.CS_FLUORSHELL_KISSEL_RADIATIVE__PL3_cascade_kissel JGen.CS_FLUORSHELL_KISSEL_RADIATIVE__PM1_cascade_kissel JGen.CS_FLUORSHELL_KISSEL_RADIATIVE__PM2_cascade_kissel JGen.CS_FLUORSHELL_KISSEL_RADIATIVE__PM3_cascade_kissel JGen.CS_FLUORSHELL_KISSEL_RADIATIVE__PM4_cascade_kissel JGen.CS_FLUORSHELL_KISSEL_RADIATIVE__PM5_cascade_kissel
  by_cases hz : Z < 1 ∨ Z > 120
  · jeq_auto
  by_cases hE : E ≤ 0
  · jeq_auto
  simp only [hz, hE, ↓reduceIte, zero_lit]
  simp only [↓reduceIte, Int.reduceEq]
  have t0 := ht 0 (by decide) (by decide)
  have c0 := JCatchRel.of_rel (java_eq_c_CS_Photo_Partial T Z 0 hZ (by decide) E Slot.null rfl (hk.vec 0 (by decide) (by decide)).1 (hk.vec 0 (by decide) (by decide)).2.1 (hk.vec 0 (by decide) (by decide)).2.2)
  obtain ⟨p0, hp0⟩ := t0.jtry_val (d := (0.0 : ℝ))
  simp only [jpure_eq_ok, zero_lit] at hp0 c0
  have t1 := jtame_PL1_rad_cascade_kissel T Z hZ E p0 hz (ht 1 (by decide) (by decide))
  have c1 := JCatchRel.of_rel (java_eq_c_PL1_rad_cascade_kissel T Z hZ E p0 Slot.null rfl (hk.vec 1 (by decide) (by decide)))
  obtain ⟨p1, hp1⟩ := t1.jtry_val (d := (0.0 : ℝ))
  simp only [jpure_eq_ok, zero_lit] at hp1 c1
  simp only [jpure_eq_ok, pure_eq_ok, jbind_ret, zero_lit, deq_real]
  rcases c0.cases with ⟨v0, hc0, hj0⟩ | ⟨a, b, hc0, hj0⟩ | ⟨a, hc0⟩
  · have e0 : p0 = v0 := by rw [hp0] at hj0; cases hj0; rfl
    subst e0; clear hp0
    simp only [hj0, jbind_ok]
    rcases c1.cases with ⟨v1, hc1, hj1⟩ | ⟨a, b, hc1, hj1⟩ | ⟨a, hc1⟩
    · have e1 : p1 = v1 := by rw [hp1] at hj1; cases hj1; rfl
      subst e1; clear hp1
      simp only [hj1, jbind_ok]
      jeq_use_pos (java_eq_c_FluorYield T Z 2 hZ (by decide) s hs), (java_pos_FluorYield T Z hZ 2 (by decide))
      jeq_simp
      jeq_use (java_eq_c_PL2_rad_cascade_kissel T Z hZ E p0 p1 s hs (hk.vec 2 (by decide) (by decide)))
      jeq_auto
    · rw [hp1] at hj1; cases hj1
    · simp only [hp1, jbind_ok]
      jeq_use_pos (java_eq_c_FluorYield T Z 2 hZ (by decide) s hs), (java_pos_FluorYield T Z hZ 2 (by decide))
      jeq_auto
  · rw [hp0] at hj0; cases hj0
  · simp only [hp0, hp1, jbind_ok]
    jeq_use_pos (java_eq_c_FluorYield T Z 2 hZ (by decide) s hs), (java_pos_FluorYield T Z hZ 2 (by decide))
    jeq_auto

theorem java_eq_c_CS_FLUORSHELL_KISSEL_RADIATIVE__execute_sh3 (hk : KAllOk T Z)
    (ht : ∀ k : Int, 0 ≤ k → k < 9 → JTame (JGen.CS_Photo_Partial (JTables.ofC T) Z k E)) :
    JRel (JGen.CS_FLUORSHELL_KISSEL_RADIATIVE__execute (JTables.ofC T) Z 3 E) (Gen.CS_FluorShell_Kissel_Radiative_Cascade T Z 3 E s) s := by
  jeq_start JGen.CS_FLUORSHELL_KISSEL_RADIATIVE__execute Gen.CS_FluorShell_Kissel_Radiative_Cascade JGen.CS_Photo_Partial_catch JGen.CS_FLUORSHELL_KISSEL_RADIATIVE__PL1_cascade_kissel_catch JGen.CS_FLUORSHELL_KISSEL_RADIATIVE__PL2_cascade_kissel_catch JGen.CS_FLUORSHELL_KISSEL_RADIATIVE__PL3_cascade_kissel_catch JGen.CS_FLUORSHELL_KISSEL_RADIATIVE__PM1_cascade_kissel_catch JGen.CS_FLUORSHELL_KISSEL_RADIATIVE__PM2_cascade_kissel_catch JGen.CS_FLUORSHELL_KISSEL_RADIATIVE__PM3_cascade_kissel_catch JGen.CS_FLUORSHELL_KISSEL_RADIATIVE__PM4_cascade_kissel_catch JGen.CS_FLUORSHELL_KISSEL_RADIATIVE__PL1_cascade_kissel JGen.CS_FLUORSHELL_KISSEL_RADIATIVE__PL2_cascade_kissel JGen.CS_FLUORSHELL_KISSEL_RADIATIVE__PL3_cascade_kissel JGen.CS_FLUORSHELL_KISSEL_RADIATIVE__PM1_cascade_kissel JGen.CS_FLUORSHELL_KISSEL_RADIATIVE__PM2_cascade_kissel JGen.CS_FLUORSHELL_KISSEL_RADIATIVE__PM3_cascade_kissel JGen.CS_FLUORSHELL_KISSEL_RADIATIVE__PM4_cascade_kissel JGen.CS_FLUORSHELL_KISSEL_RADIATIVE__PM5_cascade_kissel
  by_cases hz : Z < 1 ∨ Z > 120
  · jeq_auto
  by_cases hE : E ≤ 0
  · jeq_auto
  simp only [hz, hE, ↓reduceIte, zero_lit]
  simp only [↓reduceIte, Int.reduceEq]
  have t0 := ht 0 (by decide) (by decide)
  have c0 := JCatchRel.of_rel (java_eq_c_CS_Photo_Partial T Z 0 hZ (by decide) E Slot.null rfl (hk.vec 0 (by decide) (by decide)).1 (hk.vec 0 (by decide) (by decide)).2.1 (hk.vec 0 (by decide) (by decide)).2.2)
  obtain ⟨p0, hp0⟩ := t0.jtry_val (d := (0.0 : ℝ))
  simp only [jpure_eq_ok, zero_lit] at hp0 c0
  have t1 := jtame_PL1_rad_cascade_kissel T Z hZ E p0 hz (ht 1 (by decide) (by decide))
  have c1 := JCatchRel.of_rel (java_eq_c_PL1_rad_cascade_kissel T Z hZ E p0 Slot.null rfl (hk.vec 1 (by decide) (by decide)))
  obtain ⟨p1, hp1⟩ := t1.jtry_val (d := (0.0 : ℝ))
  simp only [jpure_eq_ok, zero_lit] at hp1 c1
  have t2 := jtame_PL2_rad_cascade_kissel T Z hZ E p0 p1 hz (ht 2 (by decide) (by decide))
  have c2 := JCatchRel.of_rel (java_eq_c_PL2_rad_cascade_kissel T Z hZ E p0 p1 Slot.null rfl (hk.vec 2 (by decide) (by decide)))
  obtain ⟨p2, hp2⟩ := t2.jtry_val (d := (0.0 : ℝ))
  simp only [jpure_eq_ok, zero_lit] at hp2 c2
  simp only [jpure_eq_ok, pure_eq_ok, jbind_ret, zero_lit, deq_real]
  rcases c0.cases with ⟨v0, hc0, hj0⟩ | ⟨a, b, hc0, hj0⟩ | ⟨a, hc0⟩
  · have e0 : p0 = v0 := by rw [hp0] at hj0; cases hj0; rfl
    subst e0; clear hp0
    simp only [hj0, jbind_ok]
    rcases c1.cases with ⟨v1, hc1, hj1⟩ | ⟨a, b, hc1, hj1⟩ | ⟨a, hc1⟩
    · have e1 : p1 = v1 := by rw [hp1] at hj1; cases hj1; rfl
      subst e1; clear hp1
      simp only [hj1, jbind_ok]
      rcases c2.cases with ⟨v2, hc2, hj2⟩ | ⟨a, b, hc2, hj2⟩ | ⟨a, hc2⟩
      · have e2 : p2 = v2 := by rw [hp2] at hj2; cases hj2; rfl
        subst e2; clear hp2
        simp only [hj2, jbind_ok]
        jeq_use_pos (java_eq_c_FluorYield T Z 3 hZ (by decide) s hs), (java_pos_FluorYield T Z hZ 3 (by decide))
        jeq_simp
        jeq_use (java_eq_c_PL3_rad_cascade_kissel T Z hZ E p0 p1 p2 s hs (hk.vec 3 (by decide) (by decide)))
        jeq_auto
      · rw [hp2] at hj2; cases hj2
      · simp only [hp2, jbind_ok]
        jeq_use_pos (java_eq_c_FluorYield T Z 3 hZ (by decide) s hs), (java_pos_FluorYield T Z hZ 3 (by decide))
        jeq_auto
    · rw [hp1] at hj1; cases hj1
    · simp only [hp1, hp2, jbind_ok]
      jeq_use_pos (java_eq_c_FluorYield T Z 3 hZ (by decide) s hs), (java_pos_FluorYield T Z hZ 3 (by decide))
      jeq_auto
  · rw [hp0] at hj0; cases hj0
  · simp only [hp0, hp1, hp2, jbind_ok]
    jeq_use_pos (java_eq_c_FluorYield T Z 3 hZ (by decide) s hs), (java_pos_FluorYield T Z hZ 3 (by decide))
    jeq_auto

theorem java_eq_c_CS_FLUORSHELL_KISSEL_RADIATIVE__execute_sh4 (hk : KAllOk T Z)
    (ht : ∀ k : Int, 0 ≤ k → k < 9 → JTame (JGen.CS_Photo_Partial (JTables.ofC T) Z k E)) :
    JRel (JGen.CS_FLUORSHELL_KISSEL_RADIATIVE__execute (JTables.ofC T) Z 4 E) (Gen.CS_FluorShell_Kissel_Radiative_Cascade T Z 4 E s) s := by
  jeq_start JGen.CS_FLUORSHELL_KISSEL_RADIATIVE__execute Gen.CS_FluorShell_Kissel_Radiative_Cascade JGen.CS_Photo_Partial_catch JGen.CS_FLUORSHELL_KISSEL_RADIATIVE__PL1_cascade_kissel_catch JGen.CS_FLUORSHELL_KISSEL_RADIATIVE__PL2_cascade_kissel_catch JGen.CS_FLUORSHELL_KISSEL_RADIATIVE__PL3_cascade_kissel_catch JGen.CS_FLUORSHELL_KISSEL_RADIATIVE__PM1_cascade_kissel_catch JGen.CS_FLUORSHELL_KISSEL_RADIATIVE__PM2_cascade_kissel_catch JGen.CS_FLUORSHELL_KISSEL_RADIATIVE__PM3_cascade_kissel_catch JGen.CS_FLUORSHELL_KISSEL_RADIATIVE__PM4_cascade_kissel_catch JGen.CS_FLUORSHELL_KISSEL_RADIATIVE__PL1_cascade_kissel JGen.CS_FLUORSHELL_KISSEL_RADIATIVE__PL2_cascade_kissel JGen.CS_FLUORSHELL_KISSEL_RADIATIVE__PL3_cascade_kissel JGen.CS_FLUORSHELL_KISSEL_RADIATIVE__PM1_cascade_kissel JGen.CS_FLUORSHELL_KISSEL_RADIATIVE__PM2_cascade_kissel JGen.CS_FLUORSHELL_KISSEL_RADIATIVE__PM3_cascade_kissel JGen.CS_FLUORSHELL_KISSEL_RADIATIVE__PM4_cascade_kissel JGen.CS_FLUORSHELL_KISSEL_RADIATIVE__PM5_cascade_kissel
  by_cases hz : Z < 1 ∨ Z > 120
  · jeq_auto
  by_cases hE : E ≤ 0
  · jeq_auto
  simp only [hz, hE, ↓reduceIte, zero_lit]
  simp only [↓reduceIte, Int.reduceEq]
  have t0 := ht 0 (by decide) (by decide)
  have c0 := JCatchRel.of_rel (java_eq_c_CS_Photo_Partial T Z 0 hZ (by decide) E Slot.null rfl (hk.vec 0 (by decide) (by decide)).1 (hk.vec 0 (by decide) (by decide)).2.1 (hk.vec 0 (by decide) (by decide)).2.2)
  obtain ⟨p0, hp0⟩ := t0.jtry_val (d := (0.0 : ℝ))
  simp only [jpure_eq_ok, zero_lit] at hp0 c0
  have t1 := jtame_PL1_rad_cascade_kissel T Z hZ E p0 hz (ht 1 (by decide) (by decide))
  have c1 := JCatchRel.of_rel (java_eq_c_PL1_rad_cascade_kissel T Z hZ E p0 Slot.null rfl (hk.vec 1 (by decide) (by decide)))
  obtain ⟨p1, hp1⟩ := t1.jtry_val (d := (0.0 : ℝ))
  simp only [jpure_eq_ok, zero_lit] at hp1 c1
  have t2 := jtame_PL2_rad_cascade_kissel T Z hZ E p0 p1 hz (ht 2 (by decide) (by decide))
  have c2 := JCatchRel.of_rel (java_eq_c_PL2_rad_cascade_kissel T Z hZ E p0 p1 Slot.null rfl (hk.vec 2 (by decide) (by decide)))
  obtain ⟨p2, hp2⟩ := t2.jtry_val (d := (0.0 : ℝ))
  simp only [jpure_eq_ok, zero_lit] at hp2 c2
  have t3 := jtame_PL3_rad_cascade_kissel T Z hZ E p0 p1 p2 hz (ht 3 (by decide) (by decide))
  have c3 := JCatchRel.of_rel (java_eq_c_PL3_rad_cascade_kissel T Z hZ E p0 p1 p2 Slot.null rfl (hk.vec 3 (by decide) (by decide)))
  obtain ⟨p3, hp3⟩ := t3.jtry_val (d := (0.0 : ℝ))
  simp only [jpure_eq_ok, zero_lit] at hp3 c3
  simp only [jpure_eq_ok, pure_eq_ok, jbind_ret, zero_lit, deq_real]
  rcases c0.cases with ⟨v0, hc0, hj0⟩ | ⟨a, b, hc0, hj0⟩ | ⟨a, hc0⟩
  · have e0 : p0 = v0 := by rw [hp0] at hj0; cases hj0; rfl
    subst e0; clear hp0
    simp only [hj0, jbind_ok]
    rcases c1.cases with ⟨v1, hc1, hj1⟩ | ⟨a, b, hc1, hj1⟩ | ⟨a, hc1⟩
    · have e1 : p1 = v1 := by rw [hp1] at hj1; cases hj1; rfl
      subst e1; clear hp1
      simp only [hj1, jbind_ok]
      rcases c2.cases with ⟨v2, hc2, hj2⟩ | ⟨a, b, hc2, hj2⟩ | ⟨a, hc2⟩
      · have e2 : p2 = v2 := by rw [hp2] at hj2; cases hj2; rfl
        subst e2; clear hp2
        simp only [hj2, jbind_ok]
        rcases c3.cases with ⟨v3, hc3, hj3⟩ | ⟨a, b, hc3, hj3⟩ | ⟨a, hc3⟩
        · have e3 : p3 = v3 := by rw [hp3] at hj3; cases hj3; rfl
          subst e3; clear hp3
          simp only [hj3, jbind_ok]
          jeq_use_pos (java_eq_c_FluorYield T Z 4 hZ (by decide) s hs), (java_pos_FluorYield T Z hZ 4 (by decide))
          jeq_simp
          jeq_use (java_eq_c_PM1_rad_cascade_kissel T Z hZ E p0 p1 p2 p3 s hs (hk.vec 4 (by decide) (by decide)))
          jeq_auto
        · rw [hp3] at hj3; cases hj3
        · simp only [hp3, jbind_ok]
          jeq_use_pos (java_eq_c_FluorYield T Z 4 hZ (by decide) s hs), (java_pos_FluorYield T Z hZ 4 (by decide))
          jeq_auto
      · rw [hp2] at hj2; cases hj2
      · simp only [hp2, hp3, jbind_ok]
        jeq_use_pos (java_eq_c_FluorYield T Z 4 hZ (by decide) s hs), (java_pos_FluorYield T Z hZ 4 (by decide))
        jeq_auto
    · rw [hp1] at hj1; cases hj1
    · simp only [hp1, hp2, hp3, jbind_ok]
      jeq_use_pos (java_eq_c_FluorYield T Z 4 hZ (by decide) s hs), (java_pos_FluorYield T Z hZ 4 (by decide))
      jeq_auto
  · rw [hp0] at hj0; cases hj0
  · simp only [hp0, hp1, hp2, hp3, jbind_ok]
    jeq_use_pos (java_eq_c_FluorYield T Z 4 hZ (by decide) s hs), (java_pos_FluorYield T Z hZ 4 (by decide))
    jeq_auto

theorem java_eq_c_CS_FLUORSHELL_KISSEL_RADIATIVE__execute_sh5 (hk : KAllOk T Z)
    (ht : ∀ k : Int, 0 ≤ k → k < 9 → JTame (JGen.CS_Photo_Partial (JTables.ofC T) Z k E)) :
    JRel (JGen.CS_FLUORSHELL_KISSEL_RADIATIVE__execute (JTables.ofC T) Z 5 E) (Gen.CS_FluorShell_Kissel_Radiative_Cascade T Z 5 E s) s := by
  jeq_start JGen.CS_FLUORSHELL_KISSEL_RADIATIVE__execute Gen.CS_FluorShell_Kissel_Radiative_Cascade JGen.CS_Photo_Partial_catch JGen.CS_FLUORSHELL_KISSEL_RADIATIVE__PL1_cascade_kissel_catch JGen.CS_FLUORSHELL_KISSEL_RADIATIVE__PL2_cascade_kissel_catch JGen.CS_FLUORSHELL_KISSEL_RADIATIVE__PL3_cascade_kissel_catch JGen.CS_FLUORSHELL_KISSEL_RADIATIVE__PM1_cascade_kissel_catch JGen.CS_FLUORSHELL_KISSEL_RADIATIVE__PM2_cascade_kissel_catch JGen.CS_FLUORSHELL_KISSEL_RADIATIVE__PM3_cascade_kissel_catch JGen.CS_FLUORSHELL_KISSEL_RADIATIVE__PM4_cascade_kissel_catch JGen.CS_FLUORSHELL_KISSEL_RADIATIVE__PL1_cascade_kissel JGen.CS_FLUORSHELL_KISSEL_RADIATIVE__PL2_cascade_kissel JGen.CS_FLUORSHELL_KISSEL_RADIATIVE__PL3_cascade_kissel JGen.CS_FLUORSHELL_KISSEL_RADIATIVE__PM1_cascade_kissel JGen.CS_FLUORSHELL_KISSEL_RADIATIVE__PM2_cascade_kissel JGen.CS_FLUORSHELL_KISSEL_RADIATIVE__PM3_cascade_kissel JGen.CS_FLUORSHELL_KISSEL_RADIATIVE__PM4_cascade_kissel JGen.CS_FLUORSHELL_KISSEL_RADIATIVE__PM5_cascade_kissel
  by_cases hz : Z < 1 ∨ Z > 120
  · jeq_auto
  by_cases hE : E ≤ 0
  · jeq_auto
  simp only [hz, hE, ↓reduceIte, zero_lit]
  simp only [↓reduceIte, Int.reduceEq]
  have t0 := ht 0 (by decide) (by decide)
  have c0 := JCatchRel.of_rel (java_eq_c_CS_Photo_Partial T Z 0 hZ (by decide) E Slot.null rfl (hk.vec 0 (by decide) (by decide)).1 (hk.vec 0 (by decide) (by decide)).2.1 (hk.vec 0 (by decide) (by decide)).2.2)
  obtain ⟨p0, hp0⟩ := t0.jtry_val (d := (0.0 : ℝ))
  simp only [jpure_eq_ok, zero_lit] at hp0 c0
  have t1 := jtame_PL1_rad_cascade_kissel T Z hZ E p0 hz (ht 1 (by decide) (by decide))
  have c1 := JCatchRel.of_rel (java_eq_c_PL1_rad_cascade_kissel T Z hZ E p0 Slot.null rfl (hk.vec 1 (by decide) (by decide)))
  obtain ⟨p1, hp1⟩ := t1.jtry_val (d := (0.0 : ℝ))
  simp only [jpure_eq_ok, zero_lit] at hp1 c1
  have t2 := jtame_PL2_rad_cascade_kissel T Z hZ E p0 p1 hz (ht 2 (by decide) (by decide))
  have c2 := JCatchRel.of_rel (java_eq_c_PL2_rad_cascade_kissel T Z hZ E p0 p1 Slot.null rfl (hk.vec 2 (by decide) (by decide)))
  obtain ⟨p2, hp2⟩ := t2.jtry_val (d := (0.0 : ℝ))
  simp only [jpure_eq_ok, zero_lit] at hp2 c2
  have t3 := jtame_PL3_rad_cascade_kissel T Z hZ E p0 p1 p2 hz (ht 3 (by decide) (by decide))
  have c3 := JCatchRel.of_rel (java_eq_c_PL3_rad_cascade_kissel T Z hZ E p0 p1 p2 Slot.null rfl (hk.vec 3 (by decide) (by decide)))
  obtain ⟨p3, hp3⟩ := t3.jtry_val (d := (0.0 : ℝ))
  simp only [jpure_eq_ok, zero_lit] at hp3 c3
  have t4 := jtame_PM1_rad_cascade_kissel T Z hZ E p0 p1 p2 p3 hz (ht 4 (by decide) (by decide))
  have c4 := JCatchRel.of_rel (java_eq_c_PM1_rad_cascade_kissel T Z hZ E p0 p1 p2 p3 Slot.null rfl (hk.vec 4 (by decide) (by decide)))
  obtain ⟨p4, hp4⟩ := t4.jtry_val (d := (0.0 : ℝ))
  simp only [jpure_eq_ok, zero_lit] at hp4 c4
  simp only [jpure_eq_ok, pure_eq_ok, jbind_ret, zero_lit, deq_real]
  rcases c0.cases with ⟨v0, hc0, hj0⟩ | ⟨a, b, hc0, hj0⟩ | ⟨a, hc0⟩
  · have e0 : p0 = v0 := by rw [hp0] at hj0; cases hj0; rfl
    subst e0; clear hp0
    simp only [hj0, jbind_ok]
    rcases c1.cases with ⟨v1, hc1, hj1⟩ | ⟨a, b, hc1, hj1⟩ | ⟨a, hc1⟩
    · have e1 : p1 = v1 := by rw [hp1] at hj1; cases hj1; rfl
      subst e1; clear hp1
      simp only [hj1, jbind_ok]
      rcases c2.cases with ⟨v2, hc2, hj2⟩ | ⟨a, b, hc2, hj2⟩ | ⟨a, hc2⟩
      · have e2 : p2 = v2 := by rw [hp2] at hj2; cases hj2; rfl
        subst e2; clear hp2
        simp only [hj2, jbind_ok]
        rcases c3.cases with ⟨v3, hc3, hj3⟩ | ⟨a, b, hc3, hj3⟩ | ⟨a, hc3⟩
        · have e3 : p3 = v3 := by rw [hp3] at hj3; cases hj3; rfl
          subst e3; clear hp3
          simp only [hj3, jbind_ok]
          rcases c4.cases with ⟨v4, hc4, hj4⟩ | ⟨a, b, hc4, hj4⟩ | ⟨a, hc4⟩
          · have e4 : p4 = v4 := by rw [hp4] at hj4; cases hj4; rfl
            subst e4; clear hp4
            simp only [hj4, jbind_ok]
            jeq_use_pos (java_eq_c_FluorYield T Z 5 hZ (by decide) s hs), (java_pos_FluorYield T Z hZ 5 (by decide))
            jeq_simp
            jeq_use (java_eq_c_PM2_rad_cascade_kissel T Z hZ E p0 p1 p2 p3 p4 s hs (hk.vec 5 (by decide) (by decide)))
            jeq_auto
          · rw [hp4] at hj4; cases hj4
          · simp only [hp4, jbind_ok]
            jeq_use_pos (java_eq_c_FluorYield T Z 5 hZ (by decide) s hs), (java_pos_FluorYield T Z hZ 5 (by decide))
            jeq_auto
        · rw [hp3] at hj3; cases hj3
        · simp only [hp3, hp4, jbind_ok]
          jeq_use_pos (java_eq_c_FluorYield T Z 5 hZ (by decide) s hs), (java_pos_FluorYield T Z hZ 5 (by decide))
          jeq_auto
      · rw [hp2] at hj2; cases hj2
      · simp only [hp2, hp3, hp4, jbind_ok]
        jeq_use_pos (java_eq_c_FluorYield T Z 5 hZ (by decide) s hs), (java_pos_FluorYield T Z hZ 5 (by decide))
        jeq_auto
    · rw [hp1] at hj1; cases hj1
    · simp only [hp1, hp2, hp3, hp4, jbind_ok]
      jeq_use_pos (java_eq_c_FluorYield T Z 5 hZ (by decide) s hs), (java_pos_FluorYield T Z hZ 5 (by decide))
      jeq_auto
  · rw [hp0] at hj0; cases hj0
  · simp only [hp0, hp1, hp2, hp3, hp4, jbind_ok]
    jeq_use_pos (java_eq_c_FluorYield T Z 5 hZ (by decide) s hs), (java_pos_FluorYield T Z hZ 5 (by decide))
    jeq_auto

theorem java_eq_c_CS_FLUORSHELL_KISSEL_RADIATIVE__execute_sh6 (hk : KAllOk T Z)
    (ht : ∀ k : Int, 0 ≤ k → k < 9 → JTame (JGen.CS_Photo_Partial (JTables.ofC T) Z k E)) :
    JRel (JGen.CS_FLUORSHELL_KISSEL_RADIATIVE__execute (JTables.ofC T) Z 6 E) (Gen.CS_FluorShell_Kissel_Radiative_Cascade T Z 6 E s) s := by
  jeq_start JGen.CS_FLUORSHELL_KISSEL_RADIATIVE__execute Gen.CS_FluorShell_Kissel_Radiative_Cascade JGen.CS_Photo_Partial_catch JGen.CS_FLUORSHELL_KISSEL_RADIATIVE__PL1_cascade_kissel_catch JGen.CS_FLUORSHELL_KISSEL_RADIATIVE__PL2_cascade_kissel_catch JGen.CS_FLUORSHELL_KISSEL_RADIATIVE__PL3_cascade_kissel_catch JGen.CS_FLUORSHELL_KISSEL_RADIATIVE__PM1_cascade_kissel_catch JGen.CS_FLUORSHELL_KISSEL_RADIATIVE__PM2_cascade_kissel_catch JGen.CS_FLUORSHELL_KISSEL_RADIATIVE__PM3_cascade_kissel_catch JGen.CS_FLUORSHELL_KISSEL_RADIATIVE__PM4_cascade_kissel_catch JGen.CS_FLUORSHELL_KISSEL_RADIATIVE__PL1_cascade_kissel JGen.CS_FLUORSHELL_KISSEL_RADIATIVE__PL2_cascade_kissel JGen.CS_FLUORSHELL_KISSEL_RADIATIVE__PL3_cascade_kissel JGen.CS_FLUORSHELL_KISSEL_RADIATIVE__PM1_cascade_kissel JGen.CS_FLUORSHELL_KISSEL_RADIATIVE__PM2_cascade_kissel JGen.CS_FLUORSHELL_KISSEL_RADIATIVE__PM3_cascade_kissel JGen.CS_FLUORSHELL_KISSEL_RADIATIVE__PM4_cascade_kissel JGen.CS_FLUORSHELL_KISSEL_RADIATIVE__PM5_cascade_kissel
  by_cases hz : Z < 1 ∨ Z > 120
  · jeq_auto
  by_cases hE : E ≤ 0
  · jeq_auto
  simp only [hz, hE, ↓reduceIte, zero_lit]
  simp only [↓reduceIte, Int.reduceEq]
  have t0 := ht 0 (by decide) (by decide)
  have c0 := JCatchRel.of_rel (java_eq_c_CS_Photo_Partial T Z 0 hZ (by decide) E Slot.null rfl (hk.vec 0 (by decide) (by decide)).1 (hk.vec 0 (by decide) (by decide)).2.1 (hk.vec 0 (by decide) (by decide)).2.2)
  obtain ⟨p0, hp0⟩ := t0.jtry_val (d := (0.0 : ℝ))
  simp only [jpure_eq_ok, zero_lit] at hp0 c0
  have t1 := jtame_PL1_rad_cascade_kissel T Z hZ E p0 hz (ht 1 (by decide) (by decide))
  have c1 := JCatchRel.of_rel (java_eq_c_PL1_rad_cascade_kissel T Z hZ E p0 Slot.null rfl (hk.vec 1 (by decide) (by decide)))
  obtain ⟨p1, hp1⟩ := t1.jtry_val (d := (0.0 : ℝ))
  simp only [jpure_eq_ok, zero_lit] at hp1 c1
  have t2 := jtame_PL2_rad_cascade_kissel T Z hZ E p0 p1 hz (ht 2 (by decide) (by decide))
  have c2 := JCatchRel.of_rel (java_eq_c_PL2_rad_cascade_kissel T Z hZ E p0 p1 Slot.null rfl (hk.vec 2 (by decide) (by decide)))
  obtain ⟨p2, hp2⟩ := t2.jtry_val (d := (0.0 : ℝ))
  simp only [jpure_eq_ok, zero_lit] at hp2 c2
  have t3 := jtame_PL3_rad_cascade_kissel T Z hZ E p0 p1 p2 hz (ht 3 (by decide) (by decide))
  have c3 := JCatchRel.of_rel (java_eq_c_PL3_rad_cascade_kissel T Z hZ E p0 p1 p2 Slot.null rfl (hk.vec 3 (by decide) (by decide)))
  obtain ⟨p3, hp3⟩ := t3.jtry_val (d := (0.0 : ℝ))
  simp only [jpure_eq_ok, zero_lit] at hp3 c3
  have t4 := jtame_PM1_rad_cascade_kissel T Z hZ E p0 p1 p2 p3 hz (ht 4 (by decide) (by decide))
  have c4 := JCatchRel.of_rel (java_eq_c_PM1_rad_cascade_kissel T Z hZ E p0 p1 p2 p3 Slot.null rfl (hk.vec 4 (by decide) (by decide)))
  obtain ⟨p4, hp4⟩ := t4.jtry_val (d := (0.0 : ℝ))
  simp only [jpure_eq_ok, zero_lit] at hp4 c4
  have t5 := jtame_PM2_rad_cascade_kissel T Z hZ E p0 p1 p2 p3 p4 hz (ht 5 (by decide) (by decide))
  have c5 := JCatchRel.of_rel (java_eq_c_PM2_rad_cascade_kissel T Z hZ E p0 p1 p2 p3 p4 Slot.null rfl (hk.vec 5 (by decide) (by decide)))
  obtain ⟨p5, hp5⟩ := t5.jtry_val (d := (0.0 : ℝ))
  simp only [jpure_eq_ok, zero_lit] at hp5 c5
  simp only [jpure_eq_ok, pure_eq_ok, jbind_ret, zero_lit, deq_real]
  rcases c0.cases with ⟨v0, hc0, hj0⟩ | ⟨a, b, hc0, hj0⟩ | ⟨a, hc0⟩
  · have e0 : p0 = v0 := by rw [hp0] at hj0; cases hj0; rfl
    subst e0; clear hp0
    simp only [hj0, jbind_ok]
    rcases c1.cases with ⟨v1, hc1, hj1⟩ | ⟨a, b, hc1, hj1⟩ | ⟨a, hc1⟩
    · have e1 : p1 = v1 := by rw [hp1] at hj1; cases hj1; rfl
      subst e1; clear hp1
      simp only [hj1, jbind_ok]
      rcases c2.cases with ⟨v2, hc2, hj2⟩ | ⟨a, b, hc2, hj2⟩ | ⟨a, hc2⟩
      · have e2 : p2 = v2 := by rw [hp2] at hj2; cases hj2; rfl
        subst e2; clear hp2
        simp only [hj2, jbind_ok]
        rcases c3.cases with ⟨v3, hc3, hj3⟩ | ⟨a, b, hc3, hj3⟩ | ⟨a, hc3⟩
        · have e3 : p3 = v3 := by rw [hp3] at hj3; cases hj3; rfl
          subst e3; clear hp3
          simp only [hj3, jbind_ok]
          rcases c4.cases with ⟨v4, hc4, hj4⟩ | ⟨a, b, hc4, hj4⟩ | ⟨a, hc4⟩
          · have e4 : p4 = v4 := by rw [hp4] at hj4; cases hj4; rfl
            subst e4; clear hp4
            simp only [hj4, jbind_ok]
            rcases c5.cases with ⟨v5, hc5, hj5⟩ | ⟨a, b, hc5, hj5⟩ | ⟨a, hc5⟩
            · have e5 : p5 = v5 := by rw [hp5] at hj5; cases hj5; rfl
              subst e5; clear hp5
              simp only [hj5, jbind_ok]
              jeq_use_pos (java_eq_c_FluorYield T Z 6 hZ (by decide) s hs), (java_pos_FluorYield T Z hZ 6 (by decide))
              jeq_simp
              jeq_use (java_eq_c_PM3_rad_cascade_kissel T Z hZ E p0 p1 p2 p3 p4 p5 s hs (hk.vec 6 (by decide) (by decide)))
              jeq_auto
            · rw [hp5] at hj5; cases hj5
            · simp only [hp5, jbind_ok]
              jeq_use_pos (java_eq_c_FluorYield T Z 6 hZ (by decide) s hs), (java_pos_FluorYield T Z hZ 6 (by decide))
              jeq_auto
          · rw [hp4] at hj4; cases hj4
          · simp only [hp4, hp5, jbind_ok]
            jeq_use_pos (java_eq_c_FluorYield T Z 6 hZ (by decide) s hs), (java_pos_FluorYield T Z hZ 6 (by decide))
            jeq_auto
        · rw [hp3] at hj3; cases hj3
        · simp only [hp3, hp4, hp5, jbind_ok]
          jeq_use_pos (java_eq_c_FluorYield T Z 6 hZ (by decide) s hs), (java_pos_FluorYield T Z hZ 6 (by decide))
          jeq_auto
      · rw [hp2] at hj2; cases hj2
      · simp only [hp2, hp3, hp4, hp5, jbind_ok]
        jeq_use_pos (java_eq_c_FluorYield T Z 6 hZ (by decide) s hs), (java_pos_FluorYield T Z hZ 6 (by decide))
        jeq_auto
    · rw [hp1] at hj1; cases hj1
    · simp only [hp1, hp2, hp3, hp4, hp5, jbind_ok]
      jeq_use_pos (java_eq_c_FluorYield T Z 6 hZ (by decide) s hs), (java_pos_FluorYield T Z hZ 6 (by decide))
      jeq_auto
  · rw [hp0] at hj0; cases hj0
  · simp only [hp0, hp1, hp2, hp3, hp4, hp5, jbind_ok]
    jeq_use_pos (java_eq_c_FluorYield T Z 6 hZ (by decide) s hs), (java_pos_FluorYield T Z hZ 6 (by decide))
    jeq_auto

theorem java_eq_c_CS_FLUORSHELL_KISSEL_RADIATIVE__execute_sh7 (hk : KAllOk T Z)
    (ht : ∀ k : Int, 0 ≤ k → k < 9 → JTame (JGen.CS_Photo_Partial (JTables.ofC T) Z k E)) :
    JRel (JGen.CS_FLUORSHELL_KISSEL_RADIATIVE__execute (JTables.ofC T) Z 7 E) (Gen.CS_FluorShell_Kissel_Radiative_Cascade T Z 7 E s) s := by
  jeq_start JGen.CS_FLUORSHELL_KISSEL_RADIATIVE__execute Gen.CS_FluorShell_Kissel_Radiative_Cascade JGen.CS_Photo_Partial_catch JGen.CS_FLUORSHELL_KISSEL_RADIATIVE__PL1_cascade_kissel_catch JGen.CS_FLUORSHELL_KISSEL_RADIATIVE__PL2_cascade_kissel_catch JGen.CS_FLUORSHELL_KISSEL_RADIATIVE__PL3_cascade_kissel_catch JGen.CS_FLUORSHELL_KISSEL_RADIATIVE__PM1_cascade_kissel_catch JGen.CS_FLUORSHELL_KISSEL_RADIATIVE__PM2_cascade_kissel_catch JGen.CS_FLUORSHELL_KISSEL_RADIATIVE__PM3_cascade_kissel_catch JGen.CS_FLUORSHELL_KISSEL_RADIATIVE__PM4_cascade_kissel_catch JGen.CS_FLUORSHELL_KISSEL_RADIATIVE__PL1_cascade_kissel JGen.CS_FLUORSHELL_KISSEL_RADIATIVE__PL2_cascade_kissel JGen.CS_FLUORSHELL_KISSEL_RADIATIVE__PL3_cascade_kissel JGen.CS_FLUORSHELL_KISSEL_RADIATIVE__PM1_cascade_kissel JGen.CS_FLUORSHELL_KISSEL_RADIATIVE__PM2_cascade_kissel JGen.CS_FLUORSHELL_KISSEL_RADIATIVE__PM3_cascade_kissel JGen.CS_FLUORSHELL_KISSEL_RADIATIVE__PM4_cascade_kissel JGen.CS_FLUORSHELL_KISSEL_RADIATIVE__PM5_cascade_kissel
  by_cases hz : Z < 1 ∨ Z > 120
  · jeq_auto
  by_cases hE : E ≤ 0
  · jeq_auto
  simp only [hz, hE, ↓reduceIte, zero_lit]
  simp only [↓reduceIte, Int.reduceEq]
  have t0 := ht 0 (by decide) (by decide)
  have c0 := JCatchRel.of_rel (java_eq_c_CS_Photo_Partial T Z 0 hZ (by decide) E Slot.null rfl (hk.vec 0 (by decide) (by decide)).1 (hk.vec 0 (by decide) (by decide)).2.1 (hk.vec 0 (by decide) (by decide)).2.2)
  obtain ⟨p0, hp0⟩ := t0.jtry_val (d := (0.0 : ℝ))
  simp only [jpure_eq_ok, zero_lit] at hp0 c0
  have t1 := jtame_PL1_rad_cascade_kissel T Z hZ E p0 hz (ht 1 (by decide) (by decide))
  have c1 := JCatchRel.of_rel (java_eq_c_PL1_rad_cascade_kissel T Z hZ E p0 Slot.null rfl (hk.vec 1 (by decide) (by decide)))
  obtain ⟨p1, hp1⟩ := t1.jtry_val (d := (0.0 : ℝ))
  simp only [jpure_eq_ok, zero_lit] at hp1 c1
  have t2 := jtame_PL2_rad_cascade_kissel T Z hZ E p0 p1 hz (ht 2 (by decide) (by decide))
  have c2 := JCatchRel.of_rel (java_eq_c_PL2_rad_cascade_kissel T Z hZ E p0 p1 Slot.null rfl (hk.vec 2 (by decide) (by decide)))
  obtain ⟨p2, hp2⟩ := t2.jtry_val (d := (0.0 : ℝ))
  simp only [jpure_eq_ok, zero_lit] at hp2 c2
  have t3 := jtame_PL3_rad_cascade_kissel T Z hZ E p0 p1 p2 hz (ht 3 (by decide) (by decide))
  have c3 := JCatchRel.of_rel (java_eq_c_PL3_rad_cascade_kissel T Z hZ E p0 p1 p2 Slot.null rfl (hk.vec 3 (by decide) (by decide)))
  obtain ⟨p3, hp3⟩ := t3.jtry_val (d := (0.0 : ℝ))
  simp only [jpure_eq_ok, zero_lit] at hp3 c3
  have t4 := jtame_PM1_rad_cascade_kissel T Z hZ E p0 p1 p2 p3 hz (ht 4 (by decide) (by decide))
  have c4 := JCatchRel.of_rel (java_eq_c_PM1_rad_cascade_kissel T Z hZ E p0 p1 p2 p3 Slot.null rfl (hk.vec 4 (by decide) (by decide)))
  obtain ⟨p4, hp4⟩ := t4.jtry_val (d := (0.0 : ℝ))
  simp only [jpure_eq_ok, zero_lit] at hp4 c4
  have t5 := jtame_PM2_rad_cascade_kissel T Z hZ E p0 p1 p2 p3 p4 hz (ht 5 (by decide) (by decide))
  have c5 := JCatchRel.of_rel (java_eq_c_PM2_rad_cascade_kissel T Z hZ E p0 p1 p2 p3 p4 Slot.null rfl (hk.vec 5 (by decide) (by decide)))
  obtain ⟨p5, hp5⟩ := t5.jtry_val (d := (0.0 : ℝ))
  simp only [jpure_eq_ok, zero_lit] at hp5 c5
  have t6 := jtame_PM3_rad_cascade_kissel T Z hZ E p0 p1 p2 p3 p4 p5 hz (ht 6 (by decide) (by decide))
  have c6 := JCatchRel.of_rel (java_eq_c_PM3_rad_cascade_kissel T Z hZ E p0 p1 p2 p3 p4 p5 Slot.null rfl (hk.vec 6 (by decide) (by decide)))
  obtain ⟨p6, hp6⟩ := t6.jtry_val (d := (0.0 : ℝ))
  simp only [jpure_eq_ok, zero_lit] at hp6 c6
  simp only [jpure_eq_ok, pure_eq_ok, jbind_ret, zero_lit, deq_real]
  rcases c0.cases with ⟨v0, hc0, hj0⟩ | ⟨a, b, hc0, hj0⟩ | ⟨a, hc0⟩
  · have e0 : p0 = v0 := by rw [hp0] at hj0; cases hj0; rfl
    subst e0; clear hp0
    simp only [hj0, jbind_ok]
    rcases c1.cases with ⟨v1, hc1, hj1⟩ | ⟨a, b, hc1, hj1⟩ | ⟨a, hc1⟩
    · have e1 : p1 = v1 := by rw [hp1] at hj1; cases hj1; rfl
      subst e1; clear hp1
      simp only [hj1, jbind_ok]
      rcases c2.cases with ⟨v2, hc2, hj2⟩ | ⟨a, b, hc2, hj2⟩ | ⟨a, hc2⟩
      · have e2 : p2 = v2 := by rw [hp2] at hj2; cases hj2; rfl
        subst e2; clear hp2
        simp only [hj2, jbind_ok]
        rcases c3.cases with ⟨v3, hc3, hj3⟩ | ⟨a, b, hc3, hj3⟩ | ⟨a, hc3⟩
        · have e3 : p3 = v3 := by rw [hp3] at hj3; cases hj3; rfl
          subst e3; clear hp3
          simp only [hj3, jbind_ok]
          rcases c4.cases with ⟨v4, hc4, hj4⟩ | ⟨a, b, hc4, hj4⟩ | ⟨a, hc4⟩
          · have e4 : p4 = v4 := by rw [hp4] at hj4; cases hj4; rfl
            subst e4; clear hp4
            simp only [hj4, jbind_ok]
            rcases c5.cases with ⟨v5, hc5, hj5⟩ | ⟨a, b, hc5, hj5⟩ | ⟨a, hc5⟩
            · have e5 : p5 = v5 := by rw [hp5] at hj5; cases hj5; rfl
              subst e5; clear hp5
              simp only [hj5, jbind_ok]
              rcases c6.cases with ⟨v6, hc6, hj6⟩ | ⟨a, b, hc6, hj6⟩ | ⟨a, hc6⟩
              · have e6 : p6 = v6 := by rw [hp6] at hj6; cases hj6; rfl
                subst e6; clear hp6
                simp only [hj6, jbind_ok]
                jeq_use_pos (java_eq_c_FluorYield T Z 7 hZ (by decide) s hs), (java_pos_FluorYield T Z hZ 7 (by decide))
                jeq_simp
                jeq_use (java_eq_c_PM4_rad_cascade_kissel T Z hZ E p0 p1 p2 p3 p4 p5 p6 s hs (hk.vec 7 (by decide) (by decide)))
                jeq_auto
              · rw [hp6] at hj6; cases hj6
              · simp only [hp6, jbind_ok]
                jeq_use_pos (java_eq_c_FluorYield T Z 7 hZ (by decide) s hs), (java_pos_FluorYield T Z hZ 7 (by decide))
                jeq_auto
            · rw [hp5] at hj5; cases hj5
            · simp only [hp5, hp6, jbind_ok]
              jeq_use_pos (java_eq_c_FluorYield T Z 7 hZ (by decide) s hs), (java_pos_FluorYield T Z hZ 7 (by decide))
              jeq_auto
          · rw [hp4] at hj4; cases hj4
          · simp only [hp4, hp5, hp6, jbind_ok]
            jeq_use_pos (java_eq_c_FluorYield T Z 7 hZ (by decide) s hs), (java_pos_FluorYield T Z hZ 7 (by decide))
            jeq_auto
        · rw [hp3] at hj3; cases hj3
        · simp only [hp3, hp4, hp5, hp6, jbind_ok]
          jeq_use_pos (java_eq_c_FluorYield T Z 7 hZ (by decide) s hs), (java_pos_FluorYield T Z hZ 7 (by decide))
          jeq_auto
      · rw [hp2] at hj2; cases hj2
      · simp only [hp2, hp3, hp4, hp5, hp6, jbind_ok]
        jeq_use_pos (java_eq_c_FluorYield T Z 7 hZ (by decide) s hs), (java_pos_FluorYield T Z hZ 7 (by decide))
        jeq_auto
    · rw [hp1] at hj1; cases hj1
    · simp only [hp1, hp2, hp3, hp4, hp5, hp6, jbind_ok]
      jeq_use_pos (java_eq_c_FluorYield T Z 7 hZ (by decide) s hs), (java_pos_FluorYield T Z hZ 7 (by decide))
      jeq_auto
  · rw [hp0] at hj0; cases hj0
  · simp only [hp0, hp1, hp2, hp3, hp4, hp5, hp6, jbind_ok]
    jeq_use_pos (java_eq_c_FluorYield T Z 7 hZ (by decide) s hs), (java_pos_FluorYield T Z hZ 7 (by decide))
    jeq_auto

theorem java_eq_c_CS_FLUORSHELL_KISSEL_RADIATIVE__execute_sh8 (hk : KAllOk T Z)
    (ht : ∀ k : Int, 0 ≤ k → k < 9 → JTame (JGen.CS_Photo_Partial (JTables.ofC T) Z k E)) :
    JRel (JGen.CS_FLUORSHELL_KISSEL_RADIATIVE__execute (JTables.ofC T) Z 8 E) (Gen.CS_FluorShell_Kissel_Radiative_Cascade T Z 8 E s) s := by
  jeq_start JGen.CS_FLUORSHELL_KISSEL_RADIATIVE__execute Gen.CS_FluorShell_Kissel_Radiative_Cascade JGen.CS_Photo_Partial_catch JGen.CS_FLUORSHELL_KISSEL_RADIATIVE__PL1_cascade_kissel_catch JGen.CS_FLUORSHELL_KISSEL_RADIATIVE__PL2_cascade_kissel_catch JGen.CS_FLUORSHELL_KISSEL_RADIATIVE__PL3_cascade_kissel_catch JGen.CS_FLUORSHELL_KISSEL_RADIATIVE__PM1_cascade_kissel_catch JGen.CS_FLUORSHELL_KISSEL_RADIATIVE__PM2_cascade_kissel_catch JGen.CS_FLUORSHELL_KISSEL_RADIATIVE__PM3_cascade_kissel_catch JGen.CS_FLUORSHELL_KISSEL_RADIATIVE__PM4_cascade_kissel_catch JGen.CS_FLUORSHELL_KISSEL_RADIATIVE__PL1_cascade_kissel JGen.CS_FLUORSHELL_KISSEL_RADIATIVE__PL2_cascade_kissel JGen.CS_FLUORSHELL_KISSEL_RADIATIVE__PL3_cascade_kissel JGen.CS_FLUORSHELL_KISSEL_RADIATIVE__PM1_cascade_kissel JGen.CS_FLUORSHELL_KISSEL_RADIATIVE__PM2_cascade_kissel JGen.CS_FLUORSHELL_KISSEL_RADIATIVE__PM3_cascade_kissel JGen.CS_FLUORSHELL_KISSEL_RADIATIVE__PM4_cascade_kissel JGen.CS_FLUORSHELL_KISSEL_RADIATIVE__PM5_cascade_kissel
  by_cases hz : Z < 1 ∨ Z > 120
  · jeq_auto
  by_cases hE : E ≤ 0
  · jeq_auto
  simp only [hz, hE, ↓reduceIte, zero_lit]
  simp only [↓reduceIte, Int.reduceEq]
  have t0 := ht 0 (by decide) (by decide)
  have c0 := JCatchRel.of_rel (java_eq_c_CS_Photo_Partial T Z 0 hZ (by decide) E Slot.null rfl (hk.vec 0 (by decide) (by decide)).1 (hk.vec 0 (by decide) (by decide)).2.1 (hk.vec 0 (by decide) (by decide)).2.2)
  obtain ⟨p0, hp0⟩ := t0.jtry_val (d := (0.0 : ℝ))
  simp only [jpure_eq_ok, zero_lit] at hp0 c0
  have t1 := jtame_PL1_rad_cascade_kissel T Z hZ E p0 hz (ht 1 (by decide) (by decide))
  have c1 := JCatchRel.of_rel (java_eq_c_PL1_rad_cascade_kissel T Z hZ E p0 Slot.null rfl (hk.vec 1 (by decide) (by decide)))
  obtain ⟨p1, hp1⟩ := t1.jtry_val (d := (0.0 : ℝ))
  simp only [jpure_eq_ok, zero_lit] at hp1 c1
  have t2 := jtame_PL2_rad_cascade_kissel T Z hZ E p0 p1 hz (ht 2 (by decide) (by decide))
  have c2 := JCatchRel.of_rel (java_eq_c_PL2_rad_cascade_kissel T Z hZ E p0 p1 Slot.null rfl (hk.vec 2 (by decide) (by decide)))
  obtain ⟨p2, hp2⟩ := t2.jtry_val (d := (0.0 : ℝ))
  simp only [jpure_eq_ok, zero_lit] at hp2 c2
  have t3 := jtame_PL3_rad_cascade_kissel T Z hZ E p0 p1 p2 hz (ht 3 (by decide) (by decide))
  have c3 := JCatchRel.of_rel (java_eq_c_PL3_rad_cascade_kissel T Z hZ E p0 p1 p2 Slot.null rfl (hk.vec 3 (by decide) (by decide)))
  obtain ⟨p3, hp3⟩ := t3.jtry_val (d := (0.0 : ℝ))
  simp only [jpure_eq_ok, zero_lit] at hp3 c3
  have t4 := jtame_PM1_rad_cascade_kissel T Z hZ E p0 p1 p2 p3 hz (ht 4 (by decide) (by decide))
  have c4 := JCatchRel.of_rel (java_eq_c_PM1_rad_cascade_kissel T Z hZ E p0 p1 p2 p3 Slot.null rfl (hk.vec 4 (by decide) (by decide)))
  obtain ⟨p4, hp4⟩ := t4.jtry_val (d := (0.0 : ℝ))
  simp only [jpure_eq_ok, zero_lit] at hp4 c4
  have t5 := jtame_PM2_rad_cascade_kissel T Z hZ E p0 p1 p2 p3 p4 hz (ht 5 (by decide) (by decide))
  have c5 := JCatchRel.of_rel (java_eq_c_PM2_rad_cascade_kissel T Z hZ E p0 p1 p2 p3 p4 Slot.null rfl (hk.vec 5 (by decide) (by decide)))
  obtain ⟨p5, hp5⟩ := t5.jtry_val (d := (0.0 : ℝ))
  simp only [jpure_eq_ok, zero_lit] at hp5 c5
  have t6 := jtame_PM3_rad_cascade_kissel T Z hZ E p0 p1 p2 p3 p4 p5 hz (ht 6 (by decide) (by decide))
  have c6 := JCatchRel.of_rel (java_eq_c_PM3_rad_cascade_kissel T Z hZ E p0 p1 p2 p3 p4 p5 Slot.null rfl (hk.vec 6 (by decide) (by decide)))
  obtain ⟨p6, hp6⟩ := t6.jtry_val (d := (0.0 : ℝ))
  simp only [jpure_eq_ok, zero_lit] at hp6 c6
  have t7 := jtame_PM4_rad_cascade_kissel T Z hZ E p0 p1 p2 p3 p4 p5 p6 hz (ht 7 (by decide) (by decide))
  have c7 := JCatchRel.of_rel (java_eq_c_PM4_rad_cascade_kissel T Z hZ E p0 p1 p2 p3 p4 p5 p6 Slot.null rfl (hk.vec 7 (by decide) (by decide)))
  obtain ⟨p7, hp7⟩ := t7.jtry_val (d := (0.0 : ℝ))
  simp only [jpure_eq_ok, zero_lit] at hp7 c7
  simp only [jpure_eq_ok, pure_eq_ok, jbind_ret, zero_lit, deq_real]
  rcases c0.cases with ⟨v0, hc0, hj0⟩ | ⟨a, b, hc0, hj0⟩ | ⟨a, hc0⟩
  · have e0 : p0 = v0 := by rw [hp0] at hj0; cases hj0; rfl
    subst e0; clear hp0
    simp only [hj0, jbind_ok]
    rcases c1.cases with ⟨v1, hc1, hj1⟩ | ⟨a, b, hc1, hj1⟩ | ⟨a, hc1⟩
    · have e1 : p1 = v1 := by rw [hp1] at hj1; cases hj1; rfl
      subst e1; clear hp1
      simp only [hj1, jbind_ok]
      rcases c2.cases with ⟨v2, hc2, hj2⟩ | ⟨a, b, hc2, hj2⟩ | ⟨a, hc2⟩
      · have e2 : p2 = v2 := by rw [hp2] at hj2; cases hj2; rfl
        subst e2; clear hp2
        simp only [hj2, jbind_ok]
        rcases c3.cases with ⟨v3, hc3, hj3⟩ | ⟨a, b, hc3, hj3⟩ | ⟨a, hc3⟩
        · have e3 : p3 = v3 := by rw [hp3] at hj3; cases hj3; rfl
          subst e3; clear hp3
          simp only [hj3, jbind_ok]
          rcases c4.cases with ⟨v4, hc4, hj4⟩ | ⟨a, b, hc4, hj4⟩ | ⟨a, hc4⟩
          · have e4 : p4 = v4 := by rw [hp4] at hj4; cases hj4; rfl
            subst e4; clear hp4
            simp only [hj4, jbind_ok]
            rcases c5.cases with ⟨v5, hc5, hj5⟩ | ⟨a, b, hc5, hj5⟩ | ⟨a, hc5⟩
            · have e5 : p5 = v5 := by rw [hp5] at hj5; cases hj5; rfl
              subst e5; clear hp5
              simp only [hj5, jbind_ok]
              rcases c6.cases with ⟨v6, hc6, hj6⟩ | ⟨a, b, hc6, hj6⟩ | ⟨a, hc6⟩
              · have e6 : p6 = v6 := by rw [hp6] at hj6; cases hj6; rfl
                subst e6; clear hp6
                simp only [hj6, jbind_ok]
                rcases c7.cases with ⟨v7, hc7, hj7⟩ | ⟨a, b, hc7, hj7⟩ | ⟨a, hc7⟩
                · have e7 : p7 = v7 := by rw [hp7] at hj7; cases hj7; rfl
                  subst e7; clear hp7
                  simp only [hj7, jbind_ok]
                  jeq_use_pos (java_eq_c_FluorYield T Z 8 hZ (by decide) s hs), (java_pos_FluorYield T Z hZ 8 (by decide))
                  jeq_simp
                  jeq_use (java_eq_c_PM5_rad_cascade_kissel T Z hZ E p0 p1 p2 p3 p4 p5 p6 p7 s hs (hk.vec 8 (by decide) (by decide)))
                  jeq_auto
                · rw [hp7] at hj7; cases hj7
                · simp only [hp7, jbind_ok]
                  jeq_use_pos (java_eq_c_FluorYield T Z 8 hZ (by decide) s hs), (java_pos_FluorYield T Z hZ 8 (by decide))
                  jeq_auto
              · rw [hp6] at hj6; cases hj6
              · simp only [hp6, hp7, jbind_ok]
                jeq_use_pos (java_eq_c_FluorYield T Z 8 hZ (by decide) s hs), (java_pos_FluorYield T Z hZ 8 (by decide))
                jeq_auto
            · rw [hp5] at hj5; cases hj5
            · simp only [hp5, hp6, hp7, jbind_ok]
              jeq_use_pos (java_eq_c_FluorYield T Z 8 hZ (by decide) s hs), (java_pos_FluorYield T Z hZ 8 (by decide))
              jeq_auto
          · rw [hp4] at hj4; cases hj4
          · simp only [hp4, hp5, hp6, hp7, jbind_ok]
            jeq_use_pos (java_eq_c_FluorYield T Z 8 hZ (by decide) s hs), (java_pos_FluorYield T Z hZ 8 (by decide))
            jeq_auto
        · rw [hp3] at hj3; cases hj3
        · simp only [hp3, hp4, hp5, hp6, hp7, jbind_ok]
          jeq_use_pos (java_eq_c_FluorYield T Z 8 hZ (by decide) s hs), (java_pos_FluorYield T Z hZ 8 (by decide))
          jeq_auto
      · rw [hp2] at hj2; cases hj2
      · simp only [hp2, hp3, hp4, hp5, hp6, hp7, jbind_ok]
        jeq_use_pos (java_eq_c_FluorYield T Z 8 hZ (by decide) s hs), (java_pos_FluorYield T Z hZ 8 (by decide))
        jeq_auto
    · rw [hp1] at hj1; cases hj1
    · simp only [hp1, hp2, hp3, hp4, hp5, hp6, hp7, jbind_ok]
      jeq_use_pos (java_eq_c_FluorYield T Z 8 hZ (by decide) s hs), (java_pos_FluorYield T Z hZ 8 (by decide))
      jeq_auto
  · rw [hp0] at hj0; cases hj0
  · simp only [hp0, hp1, hp2, hp3, hp4, hp5, hp6, hp7, jbind_ok]
    jeq_use_pos (java_eq_c_FluorYield T Z 8 hZ (by decide) s hs), (java_pos_FluorYield T Z hZ 8 (by decide))
    jeq_auto

theorem java_eq_c_CS_FLUORSHELL_KISSEL_RADIATIVE__execute (m : Int) (hm : inI32 m) (hk : KAllOk T Z)
    (ht : ∀ k : Int, 0 ≤ k → k < 9 → JTame (JGen.CS_Photo_Partial (JTables.ofC T) Z k E)) :
    JRel (JGen.CS_FLUORSHELL_KISSEL_RADIATIVE__execute (JTables.ofC T) Z m E) (Gen.CS_FluorShell_Kissel_Radiative_Cascade T Z m E s) s := by
  by_cases h0 : m = 0
  · subst h0; exact java_eq_c_CS_FLUORSHELL_KISSEL_RADIATIVE__execute_sh0 T Z hZ E s hs hk ht
  by_cases h1 : m = 1
  · subst h1; exact java_eq_c_CS_FLUORSHELL_KISSEL_RADIATIVE__execute_sh1 T Z hZ E s hs hk ht
  by_cases h2 : m = 2
  · subst h2; exact java_eq_c_CS_FLUORSHELL_KISSEL_RADIATIVE__execute_sh2 T Z hZ E s hs hk ht
  by_cases h3 : m = 3
  · subst h3; exact java_eq_c_CS_FLUORSHELL_KISSEL_RADIATIVE__execute_sh3 T Z hZ E s hs hk ht
  by_cases h4 : m = 4
  · subst h4; exact java_eq_c_CS_FLUORSHELL_KISSEL_RADIATIVE__execute_sh4 T Z hZ E s hs hk ht
  by_cases h5 : m = 5
  · subst h5; exact java_eq_c_CS_FLUORSHELL_KISSEL_RADIATIVE__execute_sh5 T Z hZ E s hs hk ht
  by_cases h6 : m = 6
  · subst h6; exact java_eq_c_CS_FLUORSHELL_KISSEL_RADIATIVE__execute_sh6 T Z hZ E s hs hk ht
  by_cases h7 : m = 7
  · subst h7; exact java_eq_c_CS_FLUORSHELL_KISSEL_RADIATIVE__execute_sh7 T Z hZ E s hs hk ht
  by_cases h8 : m = 8
  · subst h8; exact java_eq_c_CS_FLUORSHELL_KISSEL_RADIATIVE__execute_sh8 T Z hZ E s hs hk ht
  jeq_start JGen.CS_FLUORSHELL_KISSEL_RADIATIVE__execute Gen.CS_FluorShell_Kissel_Radiative_Cascade
  jeq_auto

omit hs in
theorem java_rng_CS_FLUORSHELL_KISSEL_RADIATIVE__execute (m : Int) {v : ℝ} (h : JGen.CS_FLUORSHELL_KISSEL_RADIATIVE__execute (JTables.ofC T) Z m E = .ok v) : ¬(Z < 1 ∨ Z > 120) := by
  intro hz
  unfold JGen.CS_FLUORSHELL_KISSEL_RADIATIVE__execute at h
  jeq_normJ
  simp only [hz, ↓reduceIte, jthrow_eq_error] at h
  cases h

theorem java_eq_c_CS_FluorShell_Kissel_Radiative_Cascade (m : Int) (hm : inI32 m) (hk : KAllOk T Z)
    (ht : ∀ k : Int, 0 ≤ k → k < 9 → JTame (JGen.CS_Photo_Partial (JTables.ofC T) Z k E)) :
    JRel (JGen.CS_FluorShell_Kissel_Radiative_Cascade (JTables.ofC T) Z m E) (Gen.CS_FluorShell_Kissel_Radiative_Cascade T Z m E s) s := by
  unfold JGen.CS_FluorShell_Kissel_Radiative_Cascade
  try simp only [jpure_eq_ok, jbind_ret]
  exact java_eq_c_CS_FLUORSHELL_KISSEL_RADIATIVE__execute T Z hZ E s hs m hm hk ht

theorem java_eq_c_CSb_FluorShell_Kissel_Radiative_Cascade (m : Int) (hm : inI32 m) (hk : KAllOk T Z)
    (ht : ∀ k : Int, 0 ≤ k → k < 9 → JTame (JGen.CS_Photo_Partial (JTables.ofC T) Z k E)) :
    JRel (JGen.CSb_FluorShell_Kissel_Radiative_Cascade (JTables.ofC T) Z m E) (Gen.CSb_FluorShell_Kissel_Radiative_Cascade T Z m E s) s := by
  jeq_start JGen.CSb_FluorShell_Kissel_Radiative_Cascade Gen.CSb_FluorShell_Kissel_Radiative_Cascade
  rcases (java_eq_c_CS_FluorShell_Kissel_Radiative_Cascade T Z hZ E s hs m hm hk ht).cases with ⟨v, hc, hj⟩ | ⟨e, hc, hj⟩ | ⟨a, b, hc, hj⟩ | ⟨a, hc⟩
  · have hr : ¬(Z < 1 ∨ Z > 120) := by
      unfold JGen.CS_FluorShell_Kissel_Radiative_Cascade at hj
      try simp only [jpure_eq_ok, jbind_ret] at hj
      exact java_rng_CS_FLUORSHELL_KISSEL_RADIATIVE__execute T Z hZ E m hj
    jeq_auto
  · jeq_auto
  · jeq_auto
  · jeq_auto

theorem java_eq_c_CS_FLUORSHELL_KISSEL_NONRADIATIVE__execute_sh0 (hk : KAllOk T Z)
    (ht : ∀ k : Int, 0 ≤ k → k < 9 → JTame (JGen.CS_Photo_Partial (JTables.ofC T) Z k E)) :
    JRel (JGen.CS_FLUORSHELL_KISSEL_NONRADIATIVE__execute (JTables.ofC T) Z 0 E) (Gen.CS_FluorShell_Kissel_Nonradiative_Cascade T Z 0 E s) s := by
  jeq_start JGen.CS_FLUORSHELL_KISSEL_NONRADIATIVE__execute Gen.CS_FluorShell_Kissel_Nonradiative_Cascade
  by_cases hz : Z < 1 ∨ Z > 120
  · jeq_auto
  by_cases hE : E ≤ 0
  · jeq_auto
  simp only [hz, hE, ↓reduceIte, zero_lit, Int.reduceEq]
  jeq_use_pos (java_eq_c_FluorYield T Z 0 hZ (by decide) s hs), (java_pos_FluorYield T Z hZ 0 (by decide))
  jeq_simp
  jeq_use (java_eq_c_CS_Photo_Partial T Z 0 hZ (by decide) E s hs (hk.vec 0 (by decide) (by decide)).1 (hk.vec 0 (by decide) (by decide)).2.1 (hk.vec 0 (by decide) (by decide)).2.2)
  jeq_auto

theorem java_eq_c_CS_FLUORSHELL_KISSEL_NONRADIATIVE__execute_sh1 (hk : KAllOk T Z)
    (ht : ∀ k : Int, 0 ≤ k → k < 9 → JTame (JGen.CS_Photo_Partial (JTables.ofC T) Z k E)) :
    JRel (JGen.CS_FLUORSHELL_KISSEL_NONRADIATIVE__execute (JTables.ofC T) Z 1 E) (Gen.CS_FluorShell_Kissel_Nonradiative_Cascade T Z 1 E s) s := by
  jeq_start JGen.CS_FLUORSHELL_KISSEL_NONRADIATIVE__execute Gen.CS_FluorShell_Kissel_Nonradiative_Cascade JGen.CS_Photo_Partial_catch JGen.CS_FLUORSHELL_KISSEL_NONRADIATIVE__PL1_cascade_kissel_catch JGen.CS_FLUORSHELL_KISSEL_NONRADIATIVE__PL2_cascade_kissel_catch JGen.CS_FLUORSHELL_KISSEL_NONRADIATIVE__PL3_cascade_kissel_catch JGen.CS_FLUORSHELL_KISSEL_NONRADIATIVE__PM1_cascade_kissel_catch JGen.CS_FLUORSHELL_KISSEL_NONRADIATIVE__PM2_cascade_kissel_catch JGen.CS_FLUORSHELL_KISSEL_NONRADIATIVE__PM3_cascade_kissel_catch JGen.CS_FLUORSHELL_KISSEL_NONRADIATIVE__PM4_cascade_kissel_catch JGen.CS_FLUORSHELL_KISSEL_NONRADIATIVE__PL1_cascade_kissel JGen.CS_FLUORSHELL_KISSEL_NONRADIATIVE__PL2_cascade_kissel JGen.CS_FLUORSHELL_KISSEL_NONRADIATIVE__PL3_cascade_kissel JGen.CS_FLUORSHELL_KISSEL_NONRADIATIVE__PM1_cascade_kissel JGen.CS_FLUORSHELL_KISSEL_NONRADIATIVE__PM2_cascade_kissel JGen.CS_FLUORSHELL_KISSEL_NONRADIATIVE__PM3_cascade_kissel JGen.CS_FLUORSHELL_KISSEL_NONRADIATIVE__PM4_cascade_kissel JGen.CS_FLUORSHELL_KISSEL_NONRADIATIVE__PM5_cascade_kissel
  by_cases hz : Z < 1 ∨ Z > 120
  · jeq_auto
  by_cases hE : E ≤ 0
  · jeq_auto
  simp only [hz, hE, ↓reduceIte, zero_lit]
  simp only [↓reduceIte, Int.reduceEq]
  have t0 := ht 0 (by decide) (by decide)
  have c0 := JCatchRel.of_rel (java_eq_c_CS_Photo_Partial T Z 0 hZ (by decide) E Slot.null rfl (hk.vec 0 (by decide) (by decide)).1 (hk.vec 0 (by decide) (by decide)).2.1 (hk.vec 0 (by decide) (by decide)).2.2)
  obtain ⟨p0, hp0⟩ := t0.jtry_val (d := (0.0 : ℝ))
  simp only [jpure_eq_ok, zero_lit] at hp0 c0
  simp only [jpure_eq_ok, pure_eq_ok, jbind_ret, zero_lit, deq_real]
  rcases c0.cases with ⟨v0, hc0, hj0⟩ | ⟨a, b, hc0, hj0⟩ | ⟨a, hc0⟩
  · have e0 : p0 = v0 := by rw [hp0] at hj0; cases hj0; rfl
    subst e0; clear hp0
    simp only [hj0, jbind_ok]
    jeq_use_pos (java_eq_c_FluorYield T Z 1 hZ (by decide) s hs), (java_pos_FluorYield T Z hZ 1 (by decide))
    jeq_simp
    jeq_use (java_eq_c_PL1_auger_cascade_kissel T Z hZ E p0 s hs (hk.vec 1 (by decide) (by decide)))
    jeq_auto
  · rw [hp0] at hj0; cases hj0
  · simp only [hp0, jbind_ok]
    jeq_use_pos (java_eq_c_FluorYield T Z 1 hZ (by decide) s hs), (java_pos_FluorYield T Z hZ 1 (by decide))
    jeq_auto

theorem java_eq_c_CS_FLUORSHELL_KISSEL_NONRADIATIVE__execute_sh2 (hk : KAllOk T Z)
    (ht : ∀ k : Int, 0 ≤ k → k < 9 → JTame (JGen.CS_Photo_Partial (JTables.ofC T) Z k E)) :
    JRel (JGen.CS_FLUORSHELL_KISSEL_NONRADIATIVE__execute (JTables.ofC T) Z 2 E) (Gen.CS_FluorShell_Kissel_Nonradiative_Cascade T Z 2 E s) s := by
  jeq_start JGen.CS_FLUORSHELL_KISSEL_NONRADIATIVE__execute Gen.CS_FluorShell_Kissel_Nonradiative_Cascade JGen.CS_Photo_Partial_catch JGen.CS_FLUORSHELL_KISSEL_NONRADIATIVE__PL1_cascade_kissel_catch JGen.CS_FLUORSHELL_KISSEL_NONRADIATIVE__PL2_cascade_kissel_catch JGen.CS_FLUORSHELL_KISSEL_NONRADIATIVE__PL3_cascade_kissel_catch JGen.CS_FLUORSHELL_KISSEL_NONRADIATIVE__PM1_cascade_kissel_catch JGen.CS_FLUORSHELL_KISSEL_NONRADIATIVE__PM2_cascade_kissel_catch JGen.CS_FLUORSHELL_KISSEL_NONRADIATIVE__PM3_cascade_kissel_catch JGen.CS_FLUORSHELL_KISSEL_NONRADIATIVE__PM4_cascade_kissel_catch JGen.CS_FLUORSHELL_KISSEL_NONRADIATIVE__PL1_cascade_kissel JGen.CS_FLUORSHELL_KISSEL_NONRADIATIVE__PL2_cascade_kissel JGen.CS_FLUORSHELL_KISSEL_NONRADIATIVE__PL3_cascade_kissel JGen.CS_FLUORSHELL_KISSEL_NONRADIATIVE__PM1_cascade_kissel JGen.CS_FLUORSHELL_KISSEL_NONRADIATIVE__PM2_cascade_kissel JGen.CS_FLUORSHELL_KISSEL_NONRADIATIVE__PM3_cascade_kissel JGen.CS_FLUORSHELL_KISSEL_NONRADIATIVE__PM4_cascade_kissel JGen.CS_FLUORSHELL_KISSEL_NONRADIATIVE__PM5_cascade_kissel
  by_cases hz : Z < 1 ∨ Z > 120
  · jeq_auto
  by_cases hE : E ≤ 0
  · jeq_auto
  simp only [hz, hE, ↓reduceIte, zero_lit]
  simp only [↓reduceIte, Int.reduceEq]
  have t0 := ht 0 (by decide) (by decide)
  have c0 := JCatchRel.of_rel (java_eq_c_CS_Photo_Partial T Z 0 hZ (by decide) E Slot.null rfl (hk.vec 0 (by decide) (by decide)).1 (hk.vec 0 (by decide) (by decide)).2.1 (hk.vec 0 (by decide) (by decide)).2.2)
  obtain ⟨p0, hp0⟩ := t0.jtry_val (d := (0.0 : ℝ))
  simp only [jpure_eq_ok, zero_lit] at hp0 c0
  have t1 := jtame_PL1_auger_cascade_kissel T Z hZ E p0 hz (ht 1 (by decide) (by decide))
  have c1 := JCatchRel.of_rel (java_eq_c_PL1_auger_cascade_kissel T Z hZ E p0 Slot.null rfl (hk.vec 1 (by decide) (by decide)))
  obtain ⟨p1, hp1⟩ := t1.jtry_val (d := (0.0 : ℝ))
  simp only [jpure_eq_ok, zero_lit] at hp1 c1
  simp only [jpure_eq_ok, pure_eq_ok, jbind_ret, zero_lit, deq_real]
  rcases c0.cases with ⟨v0, hc0, hj0⟩ | ⟨a, b, hc0, hj0⟩ | ⟨a, hc0⟩
  · have e0 : p0 = v0 := by rw [hp0] at hj0; cases hj0; rfl
    subst e0; clear hp0
    simp only [hj0, jbind_ok]
    rcases c1.cases with ⟨v1, hc1, hj1⟩ | ⟨a, b, hc1, hj1⟩ | ⟨a, hc1⟩
    · have e1 : p1 = v1 := by rw [hp1] at hj1; cases hj1; rfl
      subst e1; clear hp1
      simp only [hj1, jbind_ok]
      jeq_use_pos (java_eq_c_FluorYield T Z 2 hZ (by decide) s hs), (java_pos_FluorYield T Z hZ 2 (by decide))
      jeq_simp
      jeq_use (java_eq_c_PL2_auger_cascade_kissel T Z hZ E p0 p1 s hs (hk.vec 2 (by decide) (by decide)))
      jeq_auto
    · rw [hp1] at hj1; cases hj1
    · simp only [hp1, jbind_ok]
      jeq_use_pos (java_eq_c_FluorYield T Z 2 hZ (by decide) s hs), (java_pos_FluorYield T Z hZ 2 (by decide))
      jeq_auto
  · rw [hp0] at hj0; cases hj0
  · simp only [hp0, hp1, jbind_ok]
    jeq_use_pos (java_eq_c_FluorYield T Z 2 hZ (by decide) s hs), (java_pos_FluorYield T Z hZ 2 (by decide))
    jeq_auto

theorem java_eq_c_CS_FLUORSHELL_KISSEL_NONRADIATIVE__execute_sh3 (hk : KAllOk T Z)
    (ht : ∀ k : Int, 0 ≤ k → k < 9 → JTame (JGen.CS_Photo_Partial (JTables.ofC T) Z k E)) :
    JRel (JGen.CS_FLUORSHELL_KISSEL_NONRADIATIVE__execute (JTables.ofC T) Z 3 E) (Gen.CS_FluorShell_Kissel_Nonradiative_Cascade T Z 3 E s) s := by
  jeq_start JGen.CS_FLUORSHELL_KISSEL_NONRADIATIVE__execute Gen.CS_FluorShell_Kissel_Nonradiative_Cascade JGen.CS_Photo_Partial_catch JGen.CS_FLUORSHELL_KISSEL_NONRADIATIVE__PL1_cascade_kissel_catch JGen.CS_FLUORSHELL_KISSEL_NONRADIATIVE__PL2_cascade_kissel_catch JGen.CS_FLUORSHELL_KISSEL_NONRADIATIVE__PL3_cascade_kissel_catch JGen.CS_FLUORSHELL_KISSEL_NONRADIATIVE__PM1_cascade_kissel_catch JGen.CS_FLUORSHELL_KISSEL_NONRADIATIVE__PM2_cascade_kissel_catch JGen.CS_FLUORSHELL_KISSEL_NONRADIATIVE__PM3_cascade_kissel_catch JGen.CS_FLUORSHELL_KISSEL_NONRADIATIVE__PM4_cascade_kissel_catch JGen.CS_FLUORSHELL_KISSEL_NONRADIATIVE__PL1_cascade_kissel JGen.CS_FLUORSHELL_KISSEL_NONRADIATIVE__PL2_cascade_kissel JGen.CS_FLUORSHELL_KISSEL_NONRADIATIVE__PL3_cascade_kissel JGen.CS_FLUORSHELL_KISSEL_NONRADIATIVE__PM1_cascade_kissel JGen.CS_FLUORSHELL_KISSEL_NONRADIATIVE__PM2_cascade_kissel JGen.CS_FLUORSHELL_KISSEL_NONRADIATIVE__PM3_cascade_kissel JGen.CS_FLUORSHELL_KISSEL_NONRADIATIVE__PM4_cascade_kissel JGen.CS_FLUORSHELL_KISSEL_NONRADIATIVE__PM5_cascade_kissel
  by_cases hz : Z < 1 ∨ Z > 120
  · jeq_auto
  by_cases hE : E ≤ 0
  · jeq_auto
  simp only [hz, hE, ↓reduceIte, zero_lit]
  simp only [↓reduceIte, Int.reduceEq]
  have t0 := ht 0 (by decide) (by decide)
  have c0 := JCatchRel.of_rel (java_eq_c_CS_Photo_Partial T Z 0 hZ (by decide) E Slot.null rfl (hk.vec 0 (by decide) (by decide)).1 (hk.vec 0 (by decide) (by decide)).2.1 (hk.vec 0 (by decide) (by decide)).2.2)
  obtain ⟨p0, hp0⟩ := t0.jtry_val (d := (0.0 : ℝ))
  simp only [jpure_eq_ok, zero_lit] at hp0 c0
  have t1 := jtame_PL1_auger_cascade_kissel T Z hZ E p0 hz (ht 1 (by decide) (by decide))
  have c1 := JCatchRel.of_rel (java_eq_c_PL1_auger_cascade_kissel T Z hZ E p0 Slot.null rfl (hk.vec 1 (by decide) (by decide)))
  obtain ⟨p1, hp1⟩ := t1.jtry_val (d := (0.0 : ℝ))
  simp only [jpure_eq_ok, zero_lit] at hp1 c1
  have t2 := jtame_PL2_auger_cascade_kissel T Z hZ E p0 p1 hz (ht 2 (by decide) (by decide))
  have c2 := JCatchRel.of_rel (java_eq_c_PL2_auger_cascade_kissel T Z hZ E p0 p1 Slot.null rfl (hk.vec 2 (by decide) (by decide)))
  obtain ⟨p2, hp2⟩ := t2.jtry_val (d := (0.0 : ℝ))
  simp only [jpure_eq_ok, zero_lit] at hp2 c2
  simp only [jpure_eq_ok, pure_eq_ok, jbind_ret, zero_lit, deq_real]
  rcases c0.cases with ⟨v0, hc0, hj0⟩ | ⟨a, b, hc0, hj0⟩ | ⟨a, hc0⟩
  · have e0 : p0 = v0 := by rw [hp0] at hj0; cases hj0; rfl
    subst e0; clear hp0
    simp only [hj0, jbind_ok]
    rcases c1.cases with ⟨v1, hc1, hj1⟩ | ⟨a, b, hc1, hj1⟩ | ⟨a, hc1⟩
    · have e1 : p1 = v1 := by rw [hp1] at hj1; cases hj1; rfl
      subst e1; clear hp1
      simp only [hj1, jbind_ok]
      rcases c2.cases with ⟨v2, hc2, hj2⟩ | ⟨a, b, hc2, hj2⟩ | ⟨a, hc2⟩
      · have e2 : p2 = v2 := by rw [hp2] at hj2; cases hj2; rfl
        subst e2; clear hp2
        simp only [hj2, jbind_ok]
        jeq_use_pos (java_eq_c_FluorYield T Z 3 hZ (by decide) s hs), (java_pos_FluorYield T Z hZ 3 (by decide))
        jeq_simp
        jeq_use (java_eq_c_PL3_auger_cascade_kissel T Z hZ E p0 p1 p2 s hs (hk.vec 3 (by decide) (by decide)))
        jeq_auto
      · rw [hp2] at hj2; cases hj2
      · simp only [hp2, jbind_ok]
        jeq_use_pos (java_eq_c_FluorYield T Z 3 hZ (by decide) s hs), (java_pos_FluorYield T Z hZ 3 (by decide))
        jeq_auto
    · rw [hp1] at hj1; cases hj1
    · simp only [hp1, hp2, jbind_ok]
      jeq_use_pos (java_eq_c_FluorYield T Z 3 hZ (by decide) s hs), (java_pos_FluorYield T Z hZ 3 (by decide))
      jeq_auto
  · rw [hp0] at hj0; cases hj0
  · simp only [hp0, hp1, hp2, jbind_ok]
    jeq_use_pos (java_eq_c_FluorYield T Z 3 hZ (by decide) s hs), (java_pos_FluorYield T Z hZ 3 (by decide))
    jeq_auto

theorem java_eq_c_CS_FLUORSHELL_KISSEL_NONRADIATIVE__execute_sh4 (hk : KAllOk T Z)
    (ht : ∀ k : Int, 0 ≤ k → k < 9 → JTame (JGen.CS_Photo_Partial (JTables.ofC T) Z k E)) :
    JRel (JGen.CS_FLUORSHELL_KISSEL_NONRADIATIVE__execute (JTables.ofC T) Z 4 E) (Gen.CS_FluorShell_Kissel_Nonradiative_Cascade T Z 4 E s) s := by
  jeq_start JGen.CS_FLUORSHELL_KISSEL_NONRADIATIVE__execute Gen.CS_FluorShell_Kissel_Nonradiative_Cascade JGen.CS_Photo_Partial_catch JGen.CS_FLUORSHELL_KISSEL_NONRADIATIVE__PL1_cascade_kissel_catch JGen.CS_FLUORSHELL_KISSEL_NONRADIATIVE__PL2_cascade_kissel_catch JGen.CS_FLUORSHELL_KISSEL_NONRADIATIVE__PL3_cascade_kissel_catch JGen.CS_FLUORSHELL_KISSEL_NONRADIATIVE__PM1_cascade_kissel_catch JGen.CS_FLUORSHELL_KISSEL_NONRADIATIVE__PM2_cascade_kissel_catch JGen.CS_FLUORSHELL_KISSEL_NONRADIATIVE__PM3_cascade_kissel_catch JGen.CS_FLUORSHELL_KISSEL_NONRADIATIVE__PM4_cascade_kissel_catch JGen.CS_FLUORSHELL_KISSEL_NONRADIATIVE__PL1_cascade_kissel JGen.CS_FLUORSHELL_KISSEL_NONRADIATIVE__PL2_cascade_kissel JGen.CS_FLUORSHELL_KISSEL_NONRADIATIVE__PL3_cascade_kissel JGen.CS_FLUORSHELL_KISSEL_NONRADIATIVE__PM1_cascade_kissel JGen.CS_FLUORSHELL_KISSEL_NONRADIATIVE__PM2_cascade_kissel JGen.CS_FLUORSHELL_KISSEL_NONRADIATIVE__PM3_cascade_kissel JGen.CS_FLUORSHELL_KISSEL_NONRADIATIVE__PM4_cascade_kissel JGen.CS_FLUORSHELL_KISSEL_NONRADIATIVE__PM5_cascade_kissel
  by_cases hz : Z < 1 ∨ Z > 120
  · jeq_auto
  by_cases hE : E ≤ 0
  · jeq_auto
  simp only [hz, hE, ↓reduceIte, zero_lit]
  simp only [↓reduceIte, Int.reduceEq]
  have t0 := ht 0 (by decide) (by decide)
  have c0 := JCatchRel.of_rel (java_eq_c_CS_Photo_Partial T Z 0 hZ (by decide) E Slot.null rfl (hk.vec 0 (by decide) (by decide)).1 (hk.vec 0 (by decide) (by decide)).2.1 (hk.vec 0 (by decide) (by decide)).2.2)
  obtain ⟨p0, hp0⟩ := t0.jtry_val (d := (0.0 : ℝ))
  simp only [jpure_eq_ok, zero_lit] at hp0 c0
  have t1 := jtame_PL1_auger_cascade_kissel T Z hZ E p0 hz (ht 1 (by decide) (by decide))
  have c1 := JCatchRel.of_rel (java_eq_c_PL1_auger_cascade_kissel T Z hZ E p0 Slot.null rfl (hk.vec 1 (by decide) (by decide)))
  obtain ⟨p1, hp1⟩ := t1.jtry_val (d := (0.0 : ℝ))
  simp only [jpure_eq_ok, zero_lit] at hp1 c1
  have t2 := jtame_PL2_auger_cascade_kissel T Z hZ E p0 p1 hz (ht 2 (by decide) (by decide))
  have c2 := JCatchRel.of_rel (java_eq_c_PL2_auger_cascade_kissel T Z hZ E p0 p1 Slot.null rfl (hk.vec 2 (by decide) (by decide)))
  obtain ⟨p2, hp2⟩ := t2.jtry_val (d := (0.0 : ℝ))
  simp only [jpure_eq_ok, zero_lit] at hp2 c2
  have t3 := jtame_PL3_auger_cascade_kissel T Z hZ E p0 p1 p2 hz (ht 3 (by decide) (by decide))
  have c3 := JCatchRel.of_rel (java_eq_c_PL3_auger_cascade_kissel T Z hZ E p0 p1 p2 Slot.null rfl (hk.vec 3 (by decide) (by decide)))
  obtain ⟨p3, hp3⟩ := t3.jtry_val (d := (0.0 : ℝ))
  simp only [jpure_eq_ok, zero_lit] at hp3 c3
  simp only [jpure_eq_ok, pure_eq_ok, jbind_ret, zero_lit, deq_real]
  rcases c0.cases with ⟨v0, hc0, hj0⟩ | ⟨a, b, hc0, hj0⟩ | ⟨a, hc0⟩
  · have e0 : p0 = v0 := by rw [hp0] at hj0; cases hj0; rfl
    subst e0; clear hp0
    simp only [hj0, jbind_ok]
    rcases c1.cases with ⟨v1, hc1, hj1⟩ | ⟨a, b, hc1, hj1⟩ | ⟨a, hc1⟩
    · have e1 : p1 = v1 := by rw [hp1] at hj1; cases hj1; rfl
      subst e1; clear hp1
      simp only [hj1, jbind_ok]
      rcases c2.cases with ⟨v2, hc2, hj2⟩ | ⟨a, b, hc2, hj2⟩ | ⟨a, hc2⟩
      · have e2 : p2 = v2 := by rw [hp2] at hj2; cases hj2; rfl
        subst e2; clear hp2
        simp only [hj2, jbind_ok]
        rcases c3.cases with ⟨v3, hc3, hj3⟩ | ⟨a, b, hc3, hj3⟩ | ⟨a, hc3⟩
        · have e3 : p3 = v3 := by rw [hp3] at hj3; cases hj3; rfl
          subst e3; clear hp3
          simp only [hj3, jbind_ok]
          jeq_use_pos (java_eq_c_FluorYield T Z 4 hZ (by decide) s hs), (java_pos_FluorYield T Z hZ 4 (by decide))
          jeq_simp
          jeq_use (java_eq_c_PM1_auger_cascade_kissel T Z hZ E p0 p1 p2 p3 s hs (hk.vec 4 (by decide) (by decide)))
          jeq_auto
        · rw [hp3] at hj3; cases hj3
        · simp only [hp3, jbind_ok]
          jeq_use_pos (java_eq_c_FluorYield T Z 4 hZ (by decide) s hs), (java_pos_FluorYield T Z hZ 4 (by decide))
          jeq_auto
      · rw [hp2] at hj2; cases hj2
      · simp only [hp2, hp3, jbind_ok]
        jeq_use_pos (java_eq_c_FluorYield T Z 4 hZ (by decide) s hs), (java_pos_FluorYield T Z hZ 4 (by decide))
        jeq_auto
    · rw [hp1] at hj1; cases hj1
    · simp only [hp1, hp2, hp3, jbind_ok]
      jeq_use_pos (java_eq_c_FluorYield T Z 4 hZ (by decide) s hs), (java_pos_FluorYield T Z hZ 4 (by decide))
      jeq_auto
  · rw [hp0] at hj0; cases hj0
  · simp only [hp0, hp1, hp2, hp3, jbind_ok]
    jeq_use_pos (java_eq_c_FluorYield T Z 4 hZ (by decide) s hs), (java_pos_FluorYield T Z hZ 4 (by decide))
    jeq_auto

theorem java_eq_c_CS_FLUORSHELL_KISSEL_NONRADIATIVE__execute_sh5 (hk : KAllOk T Z)
    (ht : ∀ k : Int, 0 ≤ k → k < 9 → JTame (JGen.CS_Photo_Partial (JTables.ofC T) Z k E)) :
    JRel (JGen.CS_FLUORSHELL_KISSEL_NONRADIATIVE__execute (JTables.ofC T) Z 5 E) (Gen.CS_FluorShell_Kissel_Nonradiative_Cascade T Z 5 E s) s := by
  jeq_start JGen.CS_FLUORSHELL_KISSEL_NONRADIATIVE__execute Gen.CS_FluorShell_Kissel_Nonradiative_Cascade JGen.CS_Photo_Partial_catch JGen.CS_FLUORSHELL_KISSEL_NONRADIATIVE__PL1_cascade_kissel_catch JGen.CS_FLUORSHELL_KISSEL_NONRADIATIVE__PL2_cascade_kissel_catch JGen.CS_FLUORSHELL_KISSEL_NONRADIATIVE__PL3_cascade_kissel_catch JGen.CS_FLUORSHELL_KISSEL_NONRADIATIVE__PM1_cascade_kissel_catch JGen.CS_FLUORSHELL_KISSEL_NONRADIATIVE__PM2_cascade_kissel_catch JGen.CS_FLUORSHELL_KISSEL_NONRADIATIVE__PM3_cascade_kissel_catch JGen.CS_FLUORSHELL_KISSEL_NONRADIATIVE__PM4_cascade_kissel_catch JGen.CS_FLUORSHELL_KISSEL_NONRADIATIVE__PL1_cascade_kissel JGen.CS_FLUORSHELL_KISSEL_NONRADIATIVE__PL2_cascade_kissel JGen.CS_FLUORSHELL_KISSEL_NONRADIATIVE__PL3_cascade_kissel JGen.CS_FLUORSHELL_KISSEL_NONRADIATIVE__PM1_cascade_kissel JGen.CS_FLUORSHELL_KISSEL_NONRADIATIVE__PM2_cascade_kissel JGen.CS_FLUORSHELL_KISSEL_NONRADIATIVE__PM3_cascade_kissel JGen.CS_FLUORSHELL_KISSEL_NONRADIATIVE__PM4_cascade_kissel JGen.CS_FLUORSHELL_KISSEL_NONRADIATIVE__PM5_cascade_kissel
  by_cases hz : Z < 1 ∨ Z > 120
  · jeq_auto
  by_cases hE : E ≤ 0
  · jeq_auto
  simp only [hz, hE, ↓reduceIte, zero_lit]
  simp only [↓reduceIte, Int.reduceEq]
  have t0 := ht 0 (by decide) (by decide)
  have c0 := JCatchRel.of_rel (java_eq_c_CS_Photo_Partial T Z 0 hZ (by decide) E Slot.null rfl (hk.vec 0 (by decide) (by decide)).1 (hk.vec 0 (by decide) (by decide)).2.1 (hk.vec 0 (by decide) (by decide)).2.2)
  obtain ⟨p0, hp0⟩ := t0.jtry_val (d := (0.0 : ℝ))
  simp only [jpure_eq_ok, zero_lit] at hp0 c0
  have t1 := jtame_PL1_auger_cascade_kissel T Z hZ E p0 hz (ht 1 (by decide) (by decide))
  have c1 := JCatchRel.of_rel (java_eq_c_PL1_auger_cascade_kissel T Z hZ E p0 Slot.null rfl (hk.vec 1 (by decide) (by decide)))
  obtain ⟨p1, hp1⟩ := t1.jtry_val (d := (0.0 : ℝ))
  simp only [jpure_eq_ok, zero_lit] at hp1 c1
  have t2 := jtame_PL2_auger_cascade_kissel T Z hZ E p0 p1 hz (ht 2 (by decide) (by decide))
  have c2 := JCatchRel.of_rel (java_eq_c_PL2_auger_cascade_kissel T Z hZ E p0 p1 Slot.null rfl (hk.vec 2 (by decide) (by decide)))
  obtain ⟨p2, hp2⟩ := t2.jtry_val (d := (0.0 : ℝ))
  simp only [jpure_eq_ok, zero_lit] at hp2 c2
  have t3 := jtame_PL3_auger_cascade_kissel T Z hZ E p0 p1 p2 hz (ht 3 (by decide) (by decide))
  have c3 := JCatchRel.of_rel (java_eq_c_PL3_auger_cascade_kissel T Z hZ E p0 p1 p2 Slot.null rfl (hk.vec 3 (by decide) (by decide)))
  obtain ⟨p3, hp3⟩ := t3.jtry_val (d := (0.0 : ℝ))
  simp only [jpure_eq_ok, zero_lit] at hp3 c3
  have t4 := jtame_PM1_auger_cascade_kissel T Z hZ E p0 p1 p2 p3 hz (ht 4 (by decide) (by decide))
  have c4 := JCatchRel.of_rel (java_eq_c_PM1_auger_cascade_kissel T Z hZ E p0 p1 p2 p3 Slot.null rfl (hk.vec 4 (by decide) (by decide)))
  obtain ⟨p4, hp4⟩ := t4.jtry_val (d := (0.0 : ℝ))
  simp only [jpure_eq_ok, zero_lit] at hp4 c4
  simp only [jpure_eq_ok, pure_eq_ok, jbind_ret, zero_lit, deq_real]
  rcases c0.cases with ⟨v0, hc0, hj0⟩ | ⟨a, b, hc0, hj0⟩ | ⟨a, hc0⟩
  · have e0 : p0 = v0 := by rw [hp0] at hj0; cases hj0; rfl
    subst e0; clear hp0
    simp only [hj0, jbind_ok]
    rcases c1.cases with ⟨v1, hc1, hj1⟩ | ⟨a, b, hc1, hj1⟩ | ⟨a, hc1⟩
    · have e1 : p1 = v1 := by rw [hp1] at hj1; cases hj1; rfl
      subst e1; clear hp1
      simp only [hj1, jbind_ok]
      rcases c2.cases with ⟨v2, hc2, hj2⟩ | ⟨a, b, hc2, hj2⟩ | ⟨a, hc2⟩
      · have e2 : p2 = v2 := by rw [hp2] at hj2; cases hj2; rfl
        subst e2; clear hp2
        simp only [hj2, jbind_ok]
        rcases c3.cases with ⟨v3, hc3, hj3⟩ | ⟨a, b, hc3, hj3⟩ | ⟨a, hc3⟩
        · have e3 : p3 = v3 := by rw [hp3] at hj3; cases hj3; rfl
          subst e3; clear hp3
          simp only [hj3, jbind_ok]
          rcases c4.cases with ⟨v4, hc4, hj4⟩ | ⟨a, b, hc4, hj4⟩ | ⟨a, hc4⟩
          · have e4 : p4 = v4 := by rw [hp4] at hj4; cases hj4; rfl
            subst e4; clear hp4
            simp only [hj4, jbind_ok]
            jeq_use_pos (java_eq_c_FluorYield T Z 5 hZ (by decide) s hs), (java_pos_FluorYield T Z hZ 5 (by decide))
            jeq_simp
            jeq_use (java_eq_c_PM2_auger_cascade_kissel T Z hZ E p0 p1 p2 p3 p4 s hs (hk.vec 5 (by decide) (by decide)))
            jeq_auto
          · rw [hp4] at hj4; cases hj4
          · simp only [hp4, jbind_ok]
            jeq_use_pos (java_eq_c_FluorYield T Z 5 hZ (by decide) s hs), (java_pos_FluorYield T Z hZ 5 (by decide))
            jeq_auto
        · rw [hp3] at hj3; cases hj3
        · simp only [hp3, hp4, jbind_ok]
          jeq_use_pos (java_eq_c_FluorYield T Z 5 hZ (by decide) s hs), (java_pos_FluorYield T Z hZ 5 (by decide))
          jeq_auto
      · rw [hp2] at hj2; cases hj2
      · simp only [hp2, hp3, hp4, jbind_ok]
        jeq_use_pos (java_eq_c_FluorYield T Z 5 hZ (by decide) s hs), (java_pos_FluorYield T Z hZ 5 (by decide))
        jeq_auto
    · rw [hp1] at hj1; cases hj1
    · simp only [hp1, hp2, hp3, hp4, jbind_ok]
      jeq_use_pos (java_eq_c_FluorYield T Z 5 hZ (by decide) s hs), (java_pos_FluorYield T Z hZ 5 (by decide))
      jeq_auto
  · rw [hp0] at hj0; cases hj0
  · simp only [hp0, hp1, hp2, hp3, hp4, jbind_ok]
    jeq_use_pos (java_eq_c_FluorYield T Z 5 hZ (by decide) s hs), (java_pos_FluorYield T Z hZ 5 (by decide))
    jeq_auto

theorem java_eq_c_CS_FLUORSHELL_KISSEL_NONRADIATIVE__execute_sh6 (hk : KAllOk T Z)
    (ht : ∀ k : Int, 0 ≤ k → k < 9 → JTame (JGen.CS_Photo_Partial (JTables.ofC T) Z k E)) :
    JRel (JGen.CS_FLUORSHELL_KISSEL_NONRADIATIVE__execute (JTables.ofC T) Z 6 E) (Gen.CS_FluorShell_Kissel_Nonradiative_Cascade T Z 6 E s) s := by
  jeq_start JGen.CS_FLUORSHELL_KISSEL_NONRADIATIVE__execute Gen.CS_FluorShell_Kissel_Nonradiative_Cascade JGen.CS_Photo_Partial_catch JGen.CS_FLUORSHELL_KISSEL_NONRADIATIVE__PL1_cascade_kissel_catch JGen.CS_FLUORSHELL_KISSEL_NONRADIATIVE__PL2_cascade_kissel_catch JGen.CS_FLUORSHELL_KISSEL_NONRADIATIVE__PL3_cascade_kissel_catch JGen.CS_FLUORSHELL_KISSEL_NONRADIATIVE__PM1_cascade_kissel_catch JGen.CS_FLUORSHELL_KISSEL_NONRADIATIVE__PM2_cascade_kissel_catch JGen.CS_FLUORSHELL_KISSEL_NONRADIATIVE__PM3_cascade_kissel_catch JGen.CS_FLUORSHELL_KISSEL_NONRADIATIVE__PM4_cascade_kissel_catch JGen.CS_FLUORSHELL_KISSEL_NONRADIATIVE__PL1_cascade_kissel JGen.CS_FLUORSHELL_KISSEL_NONRADIATIVE__PL2_cascade_kissel JGen.CS_FLUORSHELL_KISSEL_NONRADIATIVE__PL3_cascade_kissel JGen.CS_FLUORSHELL_KISSEL_NONRADIATIVE__PM1_cascade_kissel JGen.CS_FLUORSHELL_KISSEL_NONRADIATIVE__PM2_cascade_kissel JGen.CS_FLUORSHELL_KISSEL_NONRADIATIVE__PM3_cascade_kissel JGen.CS_FLUORSHELL_KISSEL_NONRADIATIVE__PM4_cascade_kissel JGen.CS_FLUORSHELL_KISSEL_NONRADIATIVE__PM5_cascade_kissel
  by_cases hz : Z < 1 ∨ Z > 120
  · jeq_auto
  by_cases hE : E ≤ 0
  · jeq_auto
  simp only [hz, hE, ↓reduceIte, zero_lit]
  simp only [↓reduceIte, Int.reduceEq]
  have t0 := ht 0 (by decide) (by decide)
  have c0 := JCatchRel.of_rel (java_eq_c_CS_Photo_Partial T Z 0 hZ (by decide) E Slot.null rfl (hk.vec 0 (by decide) (by decide)).1 (hk.vec 0 (by decide) (by decide)).2.1 (hk.vec 0 (by decide) (by decide)).2.2)
  obtain ⟨p0, hp0⟩ := t0.jtry_val (d := (0.0 : ℝ))
  simp only [jpure_eq_ok, zero_lit] at hp0 c0
  have t1 := jtame_PL1_auger_cascade_kissel T Z hZ E p0 hz (ht 1 (by decide) (by decide))
  have c1 := JCatchRel.of_rel (java_eq_c_PL1_auger_cascade_kissel T Z hZ E p0 Slot.null rfl (hk.vec 1 (by decide) (by decide)))
  obtain ⟨p1, hp1⟩ := t1.jtry_val (d := (0.0 : ℝ))
  simp only [jpure_eq_ok, zero_lit] at hp1 c1
  have t2 := jtame_PL2_auger_cascade_kissel T Z hZ E p0 p1 hz (ht 2 (by decide) (by decide))
  have c2 := JCatchRel.of_rel (java_eq_c_PL2_auger_cascade_kissel T Z hZ E p0 p1 Slot.null rfl (hk.vec 2 (by decide) (by decide)))
  obtain ⟨p2, hp2⟩ := t2.jtry_val (d := (0.0 : ℝ))
  simp only [jpure_eq_ok, zero_lit] at hp2 c2
  have t3 := jtame_PL3_auger_cascade_kissel T Z hZ E p0 p1 p2 hz (ht 3 (by decide) (by decide))
  have c3 := JCatchRel.of_rel (java_eq_c_PL3_auger_cascade_kissel T Z hZ E p0 p1 p2 Slot.null rfl (hk.vec 3 (by decide) (by decide)))
  obtain ⟨p3, hp3⟩ := t3.jtry_val (d := (0.0 : ℝ))
  simp only [jpure_eq_ok, zero_lit] at hp3 c3
  have t4 := jtame_PM1_auger_cascade_kissel T Z hZ E p0 p1 p2 p3 hz (ht 4 (by decide) (by decide))
  have c4 := JCatchRel.of_rel (java_eq_c_PM1_auger_cascade_kissel T Z hZ E p0 p1 p2 p3 Slot.null rfl (hk.vec 4 (by decide) (by decide)))
  obtain ⟨p4, hp4⟩ := t4.jtry_val (d := (0.0 : ℝ))
  simp only [jpure_eq_ok, zero_lit] at hp4 c4
  have t5 := jtame_PM2_auger_cascade_kissel T Z hZ E p0 p1 p2 p3 p4 hz (ht 5 (by decide) (by decide))
  have c5 := JCatchRel.of_rel (java_eq_c_PM2_auger_cascade_kissel T Z hZ E p0 p1 p2 p3 p4 Slot.null rfl (hk.vec 5 (by decide) (by decide)))
  obtain ⟨p5, hp5⟩ := t5.jtry_val (d := (0.0 : ℝ))
  simp only [jpure_eq_ok, zero_lit] at hp5 c5
  simp only [jpure_eq_ok, pure_eq_ok, jbind_ret, zero_lit, deq_real]
  rcases c0.cases with ⟨v0, hc0, hj0⟩ | ⟨a, b, hc0, hj0⟩ | ⟨a, hc0⟩
  · have e0 : p0 = v0 := by rw [hp0] at hj0; cases hj0; rfl
    subst e0; clear hp0
    simp only [hj0, jbind_ok]
    rcases c1.cases with ⟨v1, hc1, hj1⟩ | ⟨a, b, hc1, hj1⟩ | ⟨a, hc1⟩
    · have e1 : p1 = v1 := by rw [hp1] at hj1; cases hj1; rfl
      subst e1; clear hp1
      simp only [hj1, jbind_ok]
      rcases c2.cases with ⟨v2, hc2, hj2⟩ | ⟨a, b, hc2, hj2⟩ | ⟨a, hc2⟩
      · have e2 : p2 = v2 := by rw [hp2] at hj2; cases hj2; rfl
        subst e2; clear hp2
        simp only [hj2, jbind_ok]
        rcases c3.cases with ⟨v3, hc3, hj3⟩ | ⟨a, b, hc3, hj3⟩ | ⟨a, hc3⟩
        · have e3 : p3 = v3 := by rw [hp3] at hj3; cases hj3; rfl
          subst e3; clear hp3
          simp only [hj3, jbind_ok]
          rcases c4.cases with ⟨v4, hc4, hj4⟩ | ⟨a, b, hc4, hj4⟩ | ⟨a, hc4⟩
          · have e4 : p4 = v4 := by rw [hp4] at hj4; cases hj4; rfl
            subst e4; clear hp4
            simp only [hj4, jbind_ok]
            rcases c5.cases with ⟨v5, hc5, hj5⟩ | ⟨a, b, hc5, hj5⟩ | ⟨a, hc5⟩
            · have e5 : p5 = v5 := by rw [hp5] at hj5; cases hj5; rfl
              subst e5; clear hp5
              simp only [hj5, jbind_ok]
              jeq_use_pos (java_eq_c_FluorYield T Z 6 hZ (by decide) s hs), (java_pos_FluorYield T Z hZ 6 (by decide))
              jeq_simp
              jeq_use (java_eq_c_PM3_auger_cascade_kissel T Z hZ E p0 p1 p2 p3 p4 p5 s hs (hk.vec 6 (by decide) (by decide)))
              jeq_auto
            · rw [hp5] at hj5; cases hj5
            · simp only [hp5, jbind_ok]
              jeq_use_pos (java_eq_c_FluorYield T Z 6 hZ (by decide) s hs), (java_pos_FluorYield T Z hZ 6 (by decide))
              jeq_auto
          · rw [hp4] at hj4; cases hj4
          · simp only [hp4, hp5, jbind_ok]
            jeq_use_pos (java_eq_c_FluorYield T Z 6 hZ (by decide) s hs), (java_pos_FluorYield T Z hZ 6 (by decide))
            jeq_auto
        · rw [hp3] at hj3; cases hj3
        · simp only [hp3, hp4, hp5, jbind_ok]
          jeq_use_pos (java_eq_c_FluorYield T Z 6 hZ (by decide) s hs), (java_pos_FluorYield T Z hZ 6 (by decide))
          jeq_auto
      · rw [hp2] at hj2; cases hj2
      · simp only [hp2, hp3, hp4, hp5, jbind_ok]
        jeq_use_pos (java_eq_c_FluorYield T Z 6 hZ (by decide) s hs), (java_pos_FluorYield T Z hZ 6 (by decide))
        jeq_auto
    · rw [hp1] at hj1; cases hj1
    · simp only [hp1, hp2, hp3, hp4, hp5, jbind_ok]
      jeq_use_pos (java_eq_c_FluorYield T Z 6 hZ (by decide) s hs), (java_pos_FluorYield T Z hZ 6 (by decide))
      jeq_auto
  · rw [hp0] at hj0; cases hj0
  · simp only [hp0, hp1, hp2, hp3, hp4, hp5, jbind_ok]
    jeq_use_pos (java_eq_c_FluorYield T Z 6 hZ (by decide) s hs), (java_pos_FluorYield T Z hZ 6 (by decide))
    jeq_auto

theorem java_eq_c_CS_FLUORSHELL_KISSEL_NONRADIATIVE__execute_sh7 (hk : KAllOk T Z)
    (ht : ∀ k : Int, 0 ≤ k → k < 9 → JTame (JGen.CS_Photo_Partial (JTables.ofC T) Z k E)) :
    JRel (JGen.CS_FLUORSHELL_KISSEL_NONRADIATIVE__execute (JTables.ofC T) Z 7 E) (Gen.CS_FluorShell_Kissel_Nonradiative_Cascade T Z 7 E s) s := by
  jeq_start JGen.CS_FLUORSHELL_KISSEL_NONRADIATIVE__execute Gen.CS_FluorShell_Kissel_Nonradiative_Cascade JGen.CS_Photo_Partial_catch JGen.CS_FLUORSHELL_KISSEL_NONRADIATIVE__PL1_cascade_kissel_catch JGen.CS_FLUORSHELL_KISSEL_NONRADIATIVE__PL2_cascade_kissel_catch JGen.CS_FLUORSHELL_KISSEL_NONRADIATIVE__PL3_cascade_kissel_catch JGen.CS_FLUORSHELL_KISSEL_NONRADIATIVE__PM1_cascade_kissel_catch JGen.CS_FLUORSHELL_KISSEL_NONRADIATIVE__PM2_cascade_kissel_catch JGen.CS_FLUORSHELL_KISSEL_NONRADIATIVE__PM3_cascade_kissel_catch JGen.CS_FLUORSHELL_KISSEL_NONRADIATIVE__PM4_cascade_kissel_catch JGen.CS_FLUORSHELL_KISSEL_NONRADIATIVE__PL1_cascade_kissel JGen.CS_FLUORSHELL_KISSEL_NONRADIATIVE__PL2_cascade_kissel JGen.CS_FLUORSHELL_KISSEL_NONRADIATIVE__PL3_cascade_kissel JGen.CS_FLUORSHELL_KISSEL_NONRADIATIVE__PM1_cascade_kissel JGen.CS_FLUORSHELL_KISSEL_NONRADIATIVE__PM2_cascade_kissel JGen.CS_FLUORSHELL_KISSEL_NONRADIATIVE__PM3_cascade_kissel JGen.CS_FLUORSHELL_KISSEL_NONRADIATIVE__PM4_cascade_kissel JGen.CS_FLUORSHELL_KISSEL_NONRADIATIVE__PM5_cascade_kissel
  by_cases hz : Z < 1 ∨ Z > 120
  · jeq_auto
  by_cases hE : E ≤ 0
  · jeq_auto
  simp only [hz, hE, ↓reduceIte, zero_lit]
  simp only [↓reduceIte, Int.reduceEq]
  have t0 := ht 0 (by decide) (by decide)
  have c0 := JCatchRel.of_rel (java_eq_c_CS_Photo_Partial T Z 0 hZ (by decide) E Slot.null rfl (hk.vec 0 (by decide) (by decide)).1 (hk.vec 0 (by decide) (by decide)).2.1 (hk.vec 0 (by decide) (by decide)).2.2)
  obtain ⟨p0, hp0⟩ := t0.jtry_val (d := (0.0 : ℝ))
  simp only [jpure_eq_ok, zero_lit] at hp0 c0
  have t1 := jtame_PL1_auger_cascade_kissel T Z hZ E p0 hz (ht 1 (by decide) (by decide))
  have c1 := JCatchRel.of_rel (java_eq_c_PL1_auger_cascade_kissel T Z hZ E p0 Slot.null rfl (hk.vec 1 (by decide) (by decide)))
  obtain ⟨p1, hp1⟩ := t1.jtry_val (d := (0.0 : ℝ))
  simp only [jpure_eq_ok, zero_lit] at hp1 c1
  have t2 := jtame_PL2_auger_cascade_kissel T Z hZ E p0 p1 hz (ht 2 (by decide) (by decide))
  have c2 := JCatchRel.of_rel (java_eq_c_PL2_auger_cascade_kissel T Z hZ E p0 p1 Slot.null rfl (hk.vec 2 (by decide) (by decide)))
  obtain ⟨p2, hp2⟩ := t2.jtry_val (d := (0.0 : ℝ))
  simp only [jpure_eq_ok, zero_lit] at hp2 c2
  have t3 := jtame_PL3_auger_cascade_kissel T Z hZ E p0 p1 p2 hz (ht 3 (by decide) (by decide))
  have c3 := JCatchRel.of_rel (java_eq_c_PL3_auger_cascade_kissel T Z hZ E p0 p1 p2 Slot.null rfl (hk.vec 3 (by decide) (by decide)))
  obtain ⟨p3, hp3⟩ := t3.jtry_val (d := (0.0 : ℝ))
  simp only [jpure_eq_ok, zero_lit] at hp3 c3
  have t4 := jtame_PM1_auger_cascade_kissel T Z hZ E p0 p1 p2 p3 hz (ht 4 (by decide) (by decide))
  have c4 := JCatchRel.of_rel (java_eq_c_PM1_auger_cascade_kissel T Z hZ E p0 p1 p2 p3 Slot.null rfl (hk.vec 4 (by decide) (by decide)))
  obtain ⟨p4, hp4⟩ := t4.jtry_val (d := (0.0 : ℝ))
  simp only [jpure_eq_ok, zero_lit] at hp4 c4
  have t5 := jtame_PM2_auger_cascade_kissel T Z hZ E p0 p1 p2 p3 p4 hz (ht 5 (by decide) (by decide))
  have c5 := JCatchRel.of_rel (java_eq_c_PM2_auger_cascade_kissel T Z hZ E p0 p1 p2 p3 p4 Slot.null rfl (hk.vec 5 (by decide) (by decide)))
  obtain ⟨p5, hp5⟩ := t5.jtry_val (d := (0.0 : ℝ))
  simp only [jpure_eq_ok, zero_lit] at hp5 c5
  have t6 := jtame_PM3_auger_cascade_kissel T Z hZ E p0 p1 p2 p3 p4 p5 hz (ht 6 (by decide) (by decide))
  have c6 := JCatchRel.of_rel (java_eq_c_PM3_auger_cascade_kissel T Z hZ E p0 p1 p2 p3 p4 p5 Slot.null rfl (hk.vec 6 (by decide) (by decide)))
  obtain ⟨p6, hp6⟩ := t6.jtry_val (d := (0.0 : ℝ))
  simp only [jpure_eq_ok, zero_lit] at hp6 c6
  simp only [jpure_eq_ok, pure_eq_ok, jbind_ret, zero_lit, deq_real]
  rcases c0.cases with ⟨v0, hc0, hj0⟩ | ⟨a, b, hc0, hj0⟩ | ⟨a, hc0⟩
  · have e0 : p0 = v0 := by rw [hp0] at hj0; cases hj0; rfl
    subst e0; clear hp0
    simp only [hj0, jbind_ok]
    rcases c1.cases with ⟨v1, hc1, hj1⟩ | ⟨a, b, hc1, hj1⟩ | ⟨a, hc1⟩
    · have e1 : p1 = v1 := by rw [hp1] at hj1; cases hj1; rfl
      subst e1; clear hp1
      simp only [hj1, jbind_ok]
      rcases c2.cases with ⟨v2, hc2, hj2⟩ | ⟨a, b, hc2, hj2⟩ | ⟨a, hc2⟩
      · have e2 : p2 = v2 := by rw [hp2] at hj2; cases hj2; rfl
        subst e2; clear hp2
        simp only [hj2, jbind_ok]
        rcases c3.cases with ⟨v3, hc3, hj3⟩ | ⟨a, b, hc3, hj3⟩ | ⟨a, hc3⟩
        · have e3 : p3 = v3 := by rw [hp3] at hj3; cases hj3; rfl
          subst e3; clear hp3
          simp only [hj3, jbind_ok]
          rcases c4.cases with ⟨v4, hc4, hj4⟩ | ⟨a, b, hc4, hj4⟩ | ⟨a, hc4⟩
          · have e4 : p4 = v4 := by rw [hp4] at hj4; cases hj4; rfl
            subst e4; clear hp4
            simp only [hj4, jbind_ok]
            rcases c5.cases with ⟨v5, hc5, hj5⟩ | ⟨a, b, hc5, hj5⟩ | ⟨a, hc5⟩
            · have e5 : p5 = v5 := by rw [hp5] at hj5; cases hj5; rfl
              subst e5; clear hp5
              simp only [hj5, jbind_ok]
              rcases c6.cases with ⟨v6, hc6, hj6⟩ | ⟨a, b, hc6, hj6⟩ | ⟨a, hc6⟩
              · have e6 : p6 = v6 := by rw [hp6] at hj6; cases hj6; rfl
                subst e6; clear hp6
                simp only [hj6, jbind_ok]
                jeq_use_pos (java_eq_c_FluorYield T Z 7 hZ (by decide) s hs), (java_pos_FluorYield T Z hZ 7 (by decide))
                jeq_simp
                jeq_use (java_eq_c_PM4_auger_cascade_kissel T Z hZ E p0 p1 p2 p3 p4 p5 p6 s hs (hk.vec 7 (by decide) (by decide)))
                jeq_auto
              · rw [hp6] at hj6; cases hj6
              · simp only [hp6, jbind_ok]
                jeq_use_pos (java_eq_c_FluorYield T Z 7 hZ (by decide) s hs), (java_pos_FluorYield T Z hZ 7 (by decide))
                jeq_auto
            · rw [hp5] at hj5; cases hj5
            · simp only [hp5, hp6, jbind_ok]
              jeq_use_pos (java_eq_c_FluorYield T Z 7 hZ (by decide) s hs), (java_pos_FluorYield T Z hZ 7 (by decide))
              jeq_auto
          · rw [hp4] at hj4; cases hj4
          · simp only [hp4, hp5, hp6, jbind_ok]
            jeq_use_pos (java_eq_c_FluorYield T Z 7 hZ (by decide) s hs), (java_pos_FluorYield T Z hZ 7 (by decide))
            jeq_auto
        · rw [hp3] at hj3; cases hj3
        · simp only [hp3, hp4, hp5, hp6, jbind_ok]
          jeq_use_pos (java_eq_c_FluorYield T Z 7 hZ (by decide) s hs), (java_pos_FluorYield T Z hZ 7 (by decide))
          jeq_auto
      · rw [hp2] at hj2; cases hj2
      · simp only [hp2, hp3, hp4, hp5, hp6, jbind_ok]
        jeq_use_pos (java_eq_c_FluorYield T Z 7 hZ (by decide) s hs), (java_pos_FluorYield T Z hZ 7 (by decide))
        jeq_auto
    · rw [hp1] at hj1; cases hj1
    · simp only [hp1, hp2, hp3, hp4, hp5, hp6, jbind_ok]
      jeq_use_pos (java_eq_c_FluorYield T Z 7 hZ (by decide) s hs), (java_pos_FluorYield T Z hZ 7 (by decide))
      jeq_auto
  · rw [hp0] at hj0; cases hj0
  · simp only [hp0, hp1, hp2, hp3, hp4, hp5, hp6, jbind_ok]
    jeq_use_pos (java_eq_c_FluorYield T Z 7 hZ (by decide) s hs), (java_pos_FluorYield T Z hZ 7 (by decide))
    jeq_auto

theorem java_eq_c_CS_FLUORSHELL_KISSEL_NONRADIATIVE__execute_sh8 (hk : KAllOk T Z)
    (ht : ∀ k : Int, 0 ≤ k → k < 9 → JTame (JGen.CS_Photo_Partial (JTables.ofC T) Z k E)) :
    JRel (JGen.CS_FLUORSHELL_KISSEL_NONRADIATIVE__execute (JTables.ofC T) Z 8 E) (Gen.CS_FluorShell_Kissel_Nonradiative_Cascade T Z 8 E s) s := by
  jeq_start JGen.CS_FLUORSHELL_KISSEL_NONRADIATIVE__execute Gen.CS_FluorShell_Kissel_Nonradiative_Cascade JGen.CS_Photo_Partial_catch JGen.CS_FLUORSHELL_KISSEL_NONRADIATIVE__PL1_cascade_kissel_catch JGen.CS_FLUORSHELL_KISSEL_NONRADIATIVE__PL2_cascade_kissel_catch JGen.CS_FLUORSHELL_KISSEL_NONRADIATIVE__PL3_cascade_kissel_catch JGen.CS_FLUORSHELL_KISSEL_NONRADIATIVE__PM1_cascade_kissel_catch JGen.CS_FLUORSHELL_KISSEL_NONRADIATIVE__PM2_cascade_kissel_catch JGen.CS_FLUORSHELL_KISSEL_NONRADIATIVE__PM3_cascade_kissel_catch JGen.CS_FLUORSHELL_KISSEL_NONRADIATIVE__PM4_cascade_kissel_catch JGen.CS_FLUORSHELL_KISSEL_NONRADIATIVE__PL1_cascade_kissel JGen.CS_FLUORSHELL_KISSEL_NONRADIATIVE__PL2_cascade_kissel JGen.CS_FLUORSHELL_KISSEL_NONRADIATIVE__PL3_cascade_kissel JGen.CS_FLUORSHELL_KISSEL_NONRADIATIVE__PM1_cascade_kissel JGen.CS_FLUORSHELL_KISSEL_NONRADIATIVE__PM2_cascade_kissel JGen.CS_FLUORSHELL_KISSEL_NONRADIATIVE__PM3_cascade_kissel JGen.CS_FLUORSHELL_KISSEL_NONRADIATIVE__PM4_cascade_kissel JGen.CS_FLUORSHELL_KISSEL_NONRADIATIVE__PM5_cascade_kissel
  by_cases hz : Z < 1 ∨ Z > 120
  · jeq_auto
  by_cases hE : E ≤ 0
  · jeq_auto
  simp only [hz, hE, ↓reduceIte, zero_lit]
  simp only [↓reduceIte, Int.reduceEq]
  have t0 := ht 0 (by decide) (by decide)
  have c0 := JCatchRel.of_rel (java_eq_c_CS_Photo_Partial T Z 0 hZ (by decide) E Slot.null rfl (hk.vec 0 (by decide) (by decide)).1 (hk.vec 0 (by decide) (by decide)).2.1 (hk.vec 0 (by decide) (by decide)).2.2)
  obtain ⟨p0, hp0⟩ := t0.jtry_val (d := (0.0 : ℝ))
  simp only [jpure_eq_ok, zero_lit] at hp0 c0
  have t1 := jtame_PL1_auger_cascade_kissel T Z hZ E p0 hz (ht 1 (by decide) (by decide))
  have c1 := JCatchRel.of_rel (java_eq_c_PL1_auger_cascade_kissel T Z hZ E p0 Slot.null rfl (hk.vec 1 (by decide) (by decide)))
  obtain ⟨p1, hp1⟩ := t1.jtry_val (d := (0.0 : ℝ))
  simp only [jpure_eq_ok, zero_lit] at hp1 c1
  have t2 := jtame_PL2_auger_cascade_kissel T Z hZ E p0 p1 hz (ht 2 (by decide) (by decide))
  have c2 := JCatchRel.of_rel (java_eq_c_PL2_auger_cascade_kissel T Z hZ E p0 p1 Slot.null rfl (hk.vec 2 (by decide) (by decide)))
  obtain ⟨p2, hp2⟩ := t2.jtry_val (d := (0.0 : ℝ))
  simp only [jpure_eq_ok, zero_lit] at hp2 c2
  have t3 := jtame_PL3_auger_cascade_kissel T Z hZ E p0 p1 p2 hz (ht 3 (by decide) (by decide))
  have c3 := JCatchRel.of_rel (java_eq_c_PL3_auger_cascade_kissel T Z hZ E p0 p1 p2 Slot.null rfl (hk.vec 3 (by decide) (by decide)))
  obtain ⟨p3, hp3⟩ := t3.jtry_val (d := (0.0 : ℝ))
  simp only [jpure_eq_ok, zero_lit] at hp3 c3
  have t4 := jtame_PM1_auger_cascade_kissel T Z hZ E p0 p1 p2 p3 hz (ht 4 (by decide) (by decide))
  have c4 := JCatchRel.of_rel (java_eq_c_PM1_auger_cascade_kissel T Z hZ E p0 p1 p2 p3 Slot.null rfl (hk.vec 4 (by decide) (by decide)))
  obtain ⟨p4, hp4⟩ := t4.jtry_val (d := (0.0 : ℝ))
  simp only [jpure_eq_ok, zero_lit] at hp4 c4
  have t5 := jtame_PM2_auger_cascade_kissel T Z hZ E p0 p1 p2 p3 p4 hz (ht 5 (by decide) (by decide))
  have c5 := JCatchRel.of_rel (java_eq_c_PM2_auger_cascade_kissel T Z hZ E p0 p1 p2 p3 p4 Slot.null rfl (hk.vec 5 (by decide) (by decide)))
  obtain ⟨p5, hp5⟩ := t5.jtry_val (d := (0.0 : ℝ))
  simp only [jpure_eq_ok, zero_lit] at hp5 c5
  have t6 := jtame_PM3_auger_cascade_kissel T Z hZ E p0 p1 p2 p3 p4 p5 hz (ht 6 (by decide) (by decide))
  have c6 := JCatchRel.of_rel (java_eq_c_PM3_auger_cascade_kissel T Z hZ E p0 p1 p2 p3 p4 p5 Slot.null rfl (hk.vec 6 (by decide) (by decide)))
  obtain ⟨p6, hp6⟩ := t6.jtry_val (d := (0.0 : ℝ))
  simp only [jpure_eq_ok, zero_lit] at hp6 c6
  have t7 := jtame_PM4_auger_cascade_kissel T Z hZ E p0 p1 p2 p3 p4 p5 p6 hz (ht 7 (by decide) (by decide))
  have c7 := JCatchRel.of_rel (java_eq_c_PM4_auger_cascade_kissel T Z hZ E p0 p1 p2 p3 p4 p5 p6 Slot.null rfl (hk.vec 7 (by decide) (by decide)))
  obtain ⟨p7, hp7⟩ := t7.jtry_val (d := (0.0 : ℝ))
  simp only [jpure_eq_ok, zero_lit] at hp7 c7
  simp only [jpure_eq_ok, pure_eq_ok, jbind_ret, zero_lit, deq_real]
  rcases c0.cases with ⟨v0, hc0, hj0⟩ | ⟨a, b, hc0, hj0⟩ | ⟨a, hc0⟩
  · have e0 : p0 = v0 := by rw [hp0] at hj0; cases hj0; rfl
    subst e0; clear hp0
    simp only [hj0, jbind_ok]
    rcases c1.cases with ⟨v1, hc1, hj1⟩ | ⟨a, b, hc1, hj1⟩ | ⟨a, hc1⟩
    · have e1 : p1 = v1 := by rw [hp1] at hj1; cases hj1; rfl
      subst e1; clear hp1
      simp only [hj1, jbind_ok]
      rcases c2.cases with ⟨v2, hc2, hj2⟩ | ⟨a, b, hc2, hj2⟩ | ⟨a, hc2⟩
      · have e2 : p2 = v2 := by rw [hp2] at hj2; cases hj2; rfl
        subst e2; clear hp2
        simp only [hj2, jbind_ok]
        rcases c3.cases with ⟨v3, hc3, hj3⟩ | ⟨a, b, hc3, hj3⟩ | ⟨a, hc3⟩
        · have e3 : p3 = v3 := by rw [hp3] at hj3; cases hj3; rfl
          subst e3; clear hp3
          simp only [hj3, jbind_ok]
          rcases c4.cases with ⟨v4, hc4, hj4⟩ | ⟨a, b, hc4, hj4⟩ | ⟨a, hc4⟩
          · have e4 : p4 = v4 := by rw [hp4] at hj4; cases hj4; rfl
            subst e4; clear hp4
            simp only [hj4, jbind_ok]
            rcases c5.cases with ⟨v5, hc5, hj5⟩ | ⟨a, b, hc5, hj5⟩ | ⟨a, hc5⟩
            · have e5 : p5 = v5 := by rw [hp5] at hj5; cases hj5; rfl
              subst e5; clear hp5
              simp only [hj5, jbind_ok]
              rcases c6.cases with ⟨v6, hc6, hj6⟩ | ⟨a, b, hc6, hj6⟩ | ⟨a, hc6⟩
              · have e6 : p6 = v6 := by rw [hp6] at hj6; cases hj6; rfl
                subst e6; clear hp6
                simp only [hj6, jbind_ok]
                rcases c7.cases with ⟨v7, hc7, hj7⟩ | ⟨a, b, hc7, hj7⟩ | ⟨a, hc7⟩
                · have e7 : p7 = v7 := by rw [hp7] at hj7; cases hj7; rfl
                  subst e7; clear hp7
                  simp only [hj7, jbind_ok]
                  jeq_use_pos (java_eq_c_FluorYield T Z 8 hZ (by decide) s hs), (java_pos_FluorYield T Z hZ 8 (by decide))
                  jeq_simp
                  jeq_use (java_eq_c_PM5_auger_cascade_kissel T Z hZ E p0 p1 p2 p3 p4 p5 p6 p7 s hs (hk.vec 8 (by decide) (by decide)))
                  jeq_auto
                · rw [hp7] at hj7; cases hj7
                · simp only [hp7, jbind_ok]
                  jeq_use_pos (java_eq_c_FluorYield T Z 8 hZ (by decide) s hs), (java_pos_FluorYield T Z hZ 8 (by decide))
                  jeq_auto
              · rw [hp6] at hj6; cases hj6
              · simp only [hp6, hp7, jbind_ok]
                jeq_use_pos (java_eq_c_FluorYield T Z 8 hZ (by decide) s hs), (java_pos_FluorYield T Z hZ 8 (by decide))
                jeq_auto
            · rw [hp5] at hj5; cases hj5
            · simp only [hp5, hp6, hp7, jbind_ok]
              jeq_use_pos (java_eq_c_FluorYield T Z 8 hZ (by decide) s hs), (java_pos_FluorYield T Z hZ 8 (by decide))
              jeq_auto
          · rw [hp4] at hj4; cases hj4
          · simp only [hp4, hp5, hp6, hp7, jbind_ok]
            jeq_use_pos (java_eq_c_FluorYield T Z 8 hZ (by decide) s hs), (java_pos_FluorYield T Z hZ 8 (by decide))
            jeq_auto
        · rw [hp3] at hj3; cases hj3
        · simp only [hp3, hp4, hp5, hp6, hp7, jbind_ok]
          jeq_use_pos (java_eq_c_FluorYield T Z 8 hZ (by decide) s hs), (java_pos_FluorYield T Z hZ 8 (by decide))
          jeq_auto
      · rw [hp2] at hj2; cases hj2
      · simp only [hp2, hp3, hp4, hp5, hp6, hp7, jbind_ok]
        jeq_use_pos (java_eq_c_FluorYield T Z 8 hZ (by decide) s hs), (java_pos_FluorYield T Z hZ 8 (by decide))
        jeq_auto
    · rw [hp1] at hj1; cases hj1
    · simp only [hp1, hp2, hp3, hp4, hp5, hp6, hp7, jbind_ok]
      jeq_use_pos (java_eq_c_FluorYield T Z 8 hZ (by decide) s hs), (java_pos_FluorYield T Z hZ 8 (by decide))
      jeq_auto
  · rw [hp0] at hj0; cases hj0
  · simp only [hp0, hp1, hp2, hp3, hp4, hp5, hp6, hp7, jbind_ok]
    jeq_use_pos (java_eq_c_FluorYield T Z 8 hZ (by decide) s hs), (java_pos_FluorYield T Z hZ 8 (by decide))
    jeq_auto

theorem java_eq_c_CS_FLUORSHELL_KISSEL_NONRADIATIVE__execute (m : Int) (hm : inI32 m) (hk : KAllOk T Z)
    (ht : ∀ k : Int, 0 ≤ k → k < 9 → JTame (JGen.CS_Photo_Partial (JTables.ofC T) Z k E)) :
    JRel (JGen.CS_FLUORSHELL_KISSEL_NONRADIATIVE__execute (JTables.ofC T) Z m E) (Gen.CS_FluorShell_Kissel_Nonradiative_Cascade T Z m E s) s := by
  by_cases h0 : m = 0
  · subst h0; exact java_eq_c_CS_FLUORSHELL_KISSEL_NONRADIATIVE__execute_sh0 T Z hZ E s hs hk ht
  by_cases h1 : m = 1
  · subst h1; exact java_eq_c_CS_FLUORSHELL_KISSEL_NONRADIATIVE__execute_sh1 T Z hZ E s hs hk ht
  by_cases h2 : m = 2
  · subst h2; exact java_eq_c_CS_FLUORSHELL_KISSEL_NONRADIATIVE__execute_sh2 T Z hZ E s hs hk ht
  by_cases h3 : m = 3
  · subst h3; exact java_eq_c_CS_FLUORSHELL_KISSEL_NONRADIATIVE__execute_sh3 T Z hZ E s hs hk ht
  by_cases h4 : m = 4
  · subst h4; exact java_eq_c_CS_FLUORSHELL_KISSEL_NONRADIATIVE__execute_sh4 T Z hZ E s hs hk ht
  by_cases h5 : m = 5
  · subst h5; exact java_eq_c_CS_FLUORSHELL_KISSEL_NONRADIATIVE__execute_sh5 T Z hZ E s hs hk ht
  by_cases h6 : m = 6
  · subst h6; exact java_eq_c_CS_FLUORSHELL_KISSEL_NONRADIATIVE__execute_sh6 T Z hZ E s hs hk ht
  by_cases h7 : m = 7
  · subst h7; exact java_eq_c_CS_FLUORSHELL_KISSEL_NONRADIATIVE__execute_sh7 T Z hZ E s hs hk ht
  by_cases h8 : m = 8
  · subst h8; exact java_eq_c_CS_FLUORSHELL_KISSEL_NONRADIATIVE__execute_sh8 T Z hZ E s hs hk ht
  jeq_start JGen.CS_FLUORSHELL_KISSEL_NONRADIATIVE__execute Gen.CS_FluorShell_Kissel_Nonradiative_Cascade
  jeq_auto

omit hs in
theorem java_rng_CS_FLUORSHELL_KISSEL_NONRADIATIVE__execute (m : Int) {v : ℝ} (h : JGen.CS_FLUORSHELL_KISSEL_NONRADIATIVE__execute (JTables.ofC T) Z m E = .ok v) : ¬(Z < 1 ∨ Z > 120) := by
  intro hz
  unfold JGen.CS_FLUORSHELL_KISSEL_NONRADIATIVE__execute at h
  jeq_normJ
  simp only [hz, ↓reduceIte, jthrow_eq_error] at h
  cases h

theorem java_eq_c_CS_FluorShell_Kissel_Nonradiative_Cascade (m : Int) (hm : inI32 m) (hk : KAllOk T Z)
    (ht : ∀ k : Int, 0 ≤ k → k < 9 → JTame (JGen.CS_Photo_Partial (JTables.ofC T) Z k E)) :
    JRel (JGen.CS_FluorShell_Kissel_Nonradiative_Cascade (JTables.ofC T) Z m E) (Gen.CS_FluorShell_Kissel_Nonradiative_Cascade T Z m E s) s := by
  unfold JGen.CS_FluorShell_Kissel_Nonradiative_Cascade
  try simp only [jpure_eq_ok, jbind_ret]
  exact java_eq_c_CS_FLUORSHELL_KISSEL_NONRADIATIVE__execute T Z hZ E s hs m hm hk ht

theorem java_eq_c_CSb_FluorShell_Kissel_Nonradiative_Cascade (m : Int) (hm : inI32 m) (hk : KAllOk T Z)
    (ht : ∀ k : Int, 0 ≤ k → k < 9 → JTame (JGen.CS_Photo_Partial (JTables.ofC T) Z k E)) :
    JRel (JGen.CSb_FluorShell_Kissel_Nonradiative_Cascade (JTables.ofC T) Z m E) (Gen.CSb_FluorShell_Kissel_Nonradiative_Cascade T Z m E s) s := by
  jeq_start JGen.CSb_FluorShell_Kissel_Nonradiative_Cascade Gen.CSb_FluorShell_Kissel_Nonradiative_Cascade
  rcases (java_eq_c_CS_FluorShell_Kissel_Nonradiative_Cascade T Z hZ E s hs m hm hk ht).cases with ⟨v, hc, hj⟩ | ⟨e, hc, hj⟩ | ⟨a, b, hc, hj⟩ | ⟨a, hc⟩
  · have hr : ¬(Z < 1 ∨ Z > 120) := by
      unfold JGen.CS_FluorShell_Kissel_Nonradiative_Cascade at hj
      try simp only [jpure_eq_ok, jbind_ret] at hj
      exact java_rng_CS_FLUORSHELL_KISSEL_NONRADIATIVE__execute T Z hZ E m hj
    jeq_auto
  · jeq_auto
  · jeq_auto
  · jeq_auto


/-- `CS_FluorShell_Kissel` is `CS_FluorShell_Kissel_Cascade` in both languages -/
theorem java_eq_c_CS_FluorShell_Kissel (m : Int) (hm : inI32 m) (hk : KAllOk T Z)
    (ht : ∀ k : Int, 0 ≤ k → k < 9 → JTame (JGen.CS_Photo_Partial (JTables.ofC T) Z k E)) :
    JRel (JGen.CS_FluorShell_Kissel (JTables.ofC T) Z m E) (Gen.CS_FluorShell_Kissel T Z m E s) s := by
  jeq_start JGen.CS_FluorShell_Kissel Gen.CS_FluorShell_Kissel
  rcases (java_eq_c_CS_FluorShell_Kissel_Cascade T Z hZ E s hs m hm hk ht).cases with ⟨v, hc, hj⟩ | ⟨e, hc, hj⟩ | ⟨a, b, hc, hj⟩ | ⟨a, hc⟩ <;>
  jeq_auto

theorem java_eq_c_CSb_FluorShell_Kissel (m : Int) (hm : inI32 m) (hk : KAllOk T Z)
    (ht : ∀ k : Int, 0 ≤ k → k < 9 → JTame (JGen.CS_Photo_Partial (JTables.ofC T) Z k E)) :
    JRel (JGen.CSb_FluorShell_Kissel (JTables.ofC T) Z m E) (Gen.CSb_FluorShell_Kissel T Z m E s) s := by
  have h := java_eq_c_CSb_FluorShell_Kissel_Cascade T Z hZ E s hs m hm hk ht
  unfold Gen.CSb_FluorShell_Kissel_Cascade at h
  unfold JGen.CSb_FluorShell_Kissel Gen.CSb_FluorShell_Kissel
  exact h

omit hs in
theorem java_rng_CS_FluorShell_Kissel_no_Cascade (m : Int) {v : ℝ} (h : JGen.CS_FluorShell_Kissel_no_Cascade (JTables.ofC T) Z m E = .ok v) :
    ¬(Z < 1 ∨ Z > 120) := by
  intro hz
  unfold JGen.CS_FluorShell_Kissel_no_Cascade at h
  jeq_normJ
  simp only [hz, ↓reduceIte, jthrow_eq_error] at h
  cases h

theorem java_eq_c_CSb_FluorShell_Kissel_no_Cascade (m : Int) (hm : inI32 m) (hk : KAllOk T Z)
    (ht : ∀ k : Int, 0 ≤ k → k < 9 → JTame (JGen.CS_Photo_Partial (JTables.ofC T) Z k E)) :
    JRel (JGen.CSb_FluorShell_Kissel_no_Cascade (JTables.ofC T) Z m E) (Gen.CSb_FluorShell_Kissel_no_Cascade T Z m E s) s := by
  jeq_start JGen.CSb_FluorShell_Kissel_no_Cascade Gen.CSb_FluorShell_Kissel_no_Cascade
  rcases (java_eq_c_CS_FluorShell_Kissel_no_Cascade T Z hZ m hm E s hs hk ht).cases with ⟨v, hc, hj⟩ | ⟨e, hc, hj⟩ | ⟨a, b, hc, hj⟩ | ⟨a, hc⟩
  · have hr := java_rng_CS_FluorShell_Kissel_no_Cascade T Z hZ E m hj
    jeq_auto
  · jeq_auto
  · jeq_auto
  · jeq_auto
end kshell2
end C19
end Xrl
