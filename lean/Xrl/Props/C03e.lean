import Xrl.Props.C03c
import Xrl.Props.C08h
/-!
# C03 (continued) — "passing no error slot changes nothing but the reporting" for the 32 vacancy-production functions;
# positivity of the Kissel partial photo-ionisation cross section

In a file of its own for the reason C03c.lean is (Spec/Cascade2 and Spec/JumpRatio cannot be imported together; C03d.lean needs
the latter).

* `null_slot_P<shell>_<variant>_kissel` (32): the call without a slot and the call with an empty slot return the same number.  The
  hypotheses are those of `contract_P…` (C03c.lean), with `hown` required for every non-full slot (the two calls compared use two
  different slots): the shell's own `CS_Photo_Partial` call meets an expectation `own` that is a claim (`hna`), never the value 0
  (`hnz`), and — for the variants that read the precomputed constants — a value only for an element inside the table (`hZ`).
  `null_slot_vacancy_hypotheses_of_shape` discharges `hown`, `hna`, `hnz` from the shape of the Kissel table (`C08.KisselShaped`,
  `C08.WeightDefined`) with `own := Spec.CS_Photo_Partial T Z k E`.
* `positive_CS_Photo_Partial`: a returned value is `> 0` (barn value `exp …` > 0, occupancy ≥ 1e-6, `N_A/A > 0`).
* NOT claimed positive: the vacancy productions `P…` themselves for arbitrary inner-shell arguments `PK … PM4` (they are sums of the
  shell's own cross section and products of the caller-supplied reals with rates/yields: a negative `PK` gives a negative result;
  for the arguments the cascade passes — vacancy productions of inner shells — they are sums of positive terms, which is C08's
  ordering clause), and the fluorescence cross sections built from them (`OwnOK.ne_zero` gives "never the number 0 from a defined
  partial cross section"; a zero yield or rate is an error in the specification: `C08.fluorShell`/`fluorLine`).
-/
namespace Xrl
namespace C03
open Spec

set_option linter.unusedVariables false

section vacancy
variable (T : Tables ℝ) (Z : Int) (E : ℝ) (own : Expect ℝ)

theorem null_slot_PL1_pure_kissel (hown : ∀ error : Slot, error.isFull = false → Meets (Gen.CS_Photo_Partial T Z 1 E error) error own) (hna : own ≠ .any) :
    ∃ v s, Gen.PL1_pure_kissel T Z E Slot.null = Except.ok (v, Slot.null) ∧ Gen.PL1_pure_kissel T Z E Slot.empty = Except.ok (v, s) :=
  null_slot_of_meets (f := Gen.PL1_pure_kissel T Z E) (fun e he => C08.vacancy_spec_L1_none T Z E (pk []) e own (hown e he) hna) (C08.vacancy_ne_any hna)
theorem null_slot_PL1_rad_cascade_kissel (PK : ℝ) (hown : ∀ error : Slot, error.isFull = false → Meets (Gen.CS_Photo_Partial T Z 1 E error) error own) (hna : own ≠ .any) (hnz : ∀ o, own = .value o → o ≠ 0) :
    ∃ v s, Gen.PL1_rad_cascade_kissel T Z E PK Slot.null = Except.ok (v, Slot.null) ∧ Gen.PL1_rad_cascade_kissel T Z E PK Slot.empty = Except.ok (v, s) :=
  null_slot_of_meets (f := Gen.PL1_rad_cascade_kissel T Z E PK) (fun e he => C08.vacancy_spec_L1_rad T Z E (pk [PK]) e own (hown e he) hna hnz) (C08.vacancy_ne_any hna)
theorem null_slot_PL1_auger_cascade_kissel (PK : ℝ) (hown : ∀ error : Slot, error.isFull = false → Meets (Gen.CS_Photo_Partial T Z 1 E error) error own) (hna : own ≠ .any) (hnz : ∀ o, own = .value o → o ≠ 0) (hZ : ∀ o, own = .value o → 0 ≤ Z ∧ Z ≤ 120) :
    ∃ v s, Gen.PL1_auger_cascade_kissel T Z E PK Slot.null = Except.ok (v, Slot.null) ∧ Gen.PL1_auger_cascade_kissel T Z E PK Slot.empty = Except.ok (v, s) :=
  null_slot_of_meets (f := Gen.PL1_auger_cascade_kissel T Z E PK) (fun e he => C08.vacancy_spec_L1_auger T Z E (pk [PK]) e own (hown e he) hna hnz hZ) (C08.vacancy_ne_any hna)
theorem null_slot_PL1_full_cascade_kissel (PK : ℝ) (hown : ∀ error : Slot, error.isFull = false → Meets (Gen.CS_Photo_Partial T Z 1 E error) error own) (hna : own ≠ .any) (hnz : ∀ o, own = .value o → o ≠ 0) (hZ : ∀ o, own = .value o → 0 ≤ Z ∧ Z ≤ 120) :
    ∃ v s, Gen.PL1_full_cascade_kissel T Z E PK Slot.null = Except.ok (v, Slot.null) ∧ Gen.PL1_full_cascade_kissel T Z E PK Slot.empty = Except.ok (v, s) :=
  null_slot_of_meets (f := Gen.PL1_full_cascade_kissel T Z E PK) (fun e he => C08.vacancy_spec_L1_full T Z E (pk [PK]) e own (hown e he) hna hnz hZ) (C08.vacancy_ne_any hna)
theorem null_slot_PL2_pure_kissel (PL1 : ℝ) (hown : ∀ error : Slot, error.isFull = false → Meets (Gen.CS_Photo_Partial T Z 2 E error) error own) (hna : own ≠ .any) (hnz : ∀ o, own = .value o → o ≠ 0) :
    ∃ v s, Gen.PL2_pure_kissel T Z E PL1 Slot.null = Except.ok (v, Slot.null) ∧ Gen.PL2_pure_kissel T Z E PL1 Slot.empty = Except.ok (v, s) :=
  null_slot_of_meets (f := Gen.PL2_pure_kissel T Z E PL1) (fun e he => C08.vacancy_spec_L2_none T Z E (pk [0, PL1]) e own (hown e he) hna hnz) (C08.vacancy_ne_any hna)
theorem null_slot_PL2_rad_cascade_kissel (PK PL1 : ℝ) (hown : ∀ error : Slot, error.isFull = false → Meets (Gen.CS_Photo_Partial T Z 2 E error) error own) (hna : own ≠ .any) (hnz : ∀ o, own = .value o → o ≠ 0) :
    ∃ v s, Gen.PL2_rad_cascade_kissel T Z E PK PL1 Slot.null = Except.ok (v, Slot.null) ∧ Gen.PL2_rad_cascade_kissel T Z E PK PL1 Slot.empty = Except.ok (v, s) :=
  null_slot_of_meets (f := Gen.PL2_rad_cascade_kissel T Z E PK PL1) (fun e he => C08.vacancy_spec_L2_rad T Z E (pk [PK, PL1]) e own (hown e he) hna hnz) (C08.vacancy_ne_any hna)
theorem null_slot_PL2_auger_cascade_kissel (PK PL1 : ℝ) (hown : ∀ error : Slot, error.isFull = false → Meets (Gen.CS_Photo_Partial T Z 2 E error) error own) (hna : own ≠ .any) (hnz : ∀ o, own = .value o → o ≠ 0) (hZ : ∀ o, own = .value o → 0 ≤ Z ∧ Z ≤ 120) :
    ∃ v s, Gen.PL2_auger_cascade_kissel T Z E PK PL1 Slot.null = Except.ok (v, Slot.null) ∧ Gen.PL2_auger_cascade_kissel T Z E PK PL1 Slot.empty = Except.ok (v, s) :=
  null_slot_of_meets (f := Gen.PL2_auger_cascade_kissel T Z E PK PL1) (fun e he => C08.vacancy_spec_L2_auger T Z E (pk [PK, PL1]) e own (hown e he) hna hnz hZ) (C08.vacancy_ne_any hna)
theorem null_slot_PL2_full_cascade_kissel (PK PL1 : ℝ) (hown : ∀ error : Slot, error.isFull = false → Meets (Gen.CS_Photo_Partial T Z 2 E error) error own) (hna : own ≠ .any) (hnz : ∀ o, own = .value o → o ≠ 0) (hZ : ∀ o, own = .value o → 0 ≤ Z ∧ Z ≤ 120) :
    ∃ v s, Gen.PL2_full_cascade_kissel T Z E PK PL1 Slot.null = Except.ok (v, Slot.null) ∧ Gen.PL2_full_cascade_kissel T Z E PK PL1 Slot.empty = Except.ok (v, s) :=
  null_slot_of_meets (f := Gen.PL2_full_cascade_kissel T Z E PK PL1) (fun e he => C08.vacancy_spec_L2_full T Z E (pk [PK, PL1]) e own (hown e he) hna hnz hZ) (C08.vacancy_ne_any hna)
theorem null_slot_PL3_pure_kissel (PL1 PL2 : ℝ) (hown : ∀ error : Slot, error.isFull = false → Meets (Gen.CS_Photo_Partial T Z 3 E error) error own) (hna : own ≠ .any) (hnz : ∀ o, own = .value o → o ≠ 0) :
    ∃ v s, Gen.PL3_pure_kissel T Z E PL1 PL2 Slot.null = Except.ok (v, Slot.null) ∧ Gen.PL3_pure_kissel T Z E PL1 PL2 Slot.empty = Except.ok (v, s) :=
  null_slot_of_meets (f := Gen.PL3_pure_kissel T Z E PL1 PL2) (fun e he => C08.vacancy_spec_L3_none T Z E (pk [0, PL1, PL2]) e own (hown e he) hna hnz) (C08.vacancy_ne_any hna)
theorem null_slot_PL3_rad_cascade_kissel (PK PL1 PL2 : ℝ) (hown : ∀ error : Slot, error.isFull = false → Meets (Gen.CS_Photo_Partial T Z 3 E error) error own) (hna : own ≠ .any) (hnz : ∀ o, own = .value o → o ≠ 0) :
    ∃ v s, Gen.PL3_rad_cascade_kissel T Z E PK PL1 PL2 Slot.null = Except.ok (v, Slot.null) ∧ Gen.PL3_rad_cascade_kissel T Z E PK PL1 PL2 Slot.empty = Except.ok (v, s) :=
  null_slot_of_meets (f := Gen.PL3_rad_cascade_kissel T Z E PK PL1 PL2) (fun e he => C08.vacancy_spec_L3_rad T Z E (pk [PK, PL1, PL2]) e own (hown e he) hna hnz) (C08.vacancy_ne_any hna)
theorem null_slot_PL3_auger_cascade_kissel (PK PL1 PL2 : ℝ) (hown : ∀ error : Slot, error.isFull = false → Meets (Gen.CS_Photo_Partial T Z 3 E error) error own) (hna : own ≠ .any) (hnz : ∀ o, own = .value o → o ≠ 0) (hZ : ∀ o, own = .value o → 0 ≤ Z ∧ Z ≤ 120) :
    ∃ v s, Gen.PL3_auger_cascade_kissel T Z E PK PL1 PL2 Slot.null = Except.ok (v, Slot.null) ∧ Gen.PL3_auger_cascade_kissel T Z E PK PL1 PL2 Slot.empty = Except.ok (v, s) :=
  null_slot_of_meets (f := Gen.PL3_auger_cascade_kissel T Z E PK PL1 PL2) (fun e he => C08.vacancy_spec_L3_auger T Z E (pk [PK, PL1, PL2]) e own (hown e he) hna hnz hZ) (C08.vacancy_ne_any hna)
theorem null_slot_PL3_full_cascade_kissel (PK PL1 PL2 : ℝ) (hown : ∀ error : Slot, error.isFull = false → Meets (Gen.CS_Photo_Partial T Z 3 E error) error own) (hna : own ≠ .any) (hnz : ∀ o, own = .value o → o ≠ 0) (hZ : ∀ o, own = .value o → 0 ≤ Z ∧ Z ≤ 120) :
    ∃ v s, Gen.PL3_full_cascade_kissel T Z E PK PL1 PL2 Slot.null = Except.ok (v, Slot.null) ∧ Gen.PL3_full_cascade_kissel T Z E PK PL1 PL2 Slot.empty = Except.ok (v, s) :=
  null_slot_of_meets (f := Gen.PL3_full_cascade_kissel T Z E PK PL1 PL2) (fun e he => C08.vacancy_spec_L3_full T Z E (pk [PK, PL1, PL2]) e own (hown e he) hna hnz hZ) (C08.vacancy_ne_any hna)
theorem null_slot_PM1_pure_kissel (hown : ∀ error : Slot, error.isFull = false → Meets (Gen.CS_Photo_Partial T Z 4 E error) error own) (hna : own ≠ .any) :
    ∃ v s, Gen.PM1_pure_kissel T Z E Slot.null = Except.ok (v, Slot.null) ∧ Gen.PM1_pure_kissel T Z E Slot.empty = Except.ok (v, s) :=
  null_slot_of_meets (f := Gen.PM1_pure_kissel T Z E) (fun e he => C08.vacancy_spec_M1_none T Z E (pk []) e own (hown e he) hna) (C08.vacancy_ne_any hna)
theorem null_slot_PM1_rad_cascade_kissel (PK PL1 PL2 PL3 : ℝ) (hown : ∀ error : Slot, error.isFull = false → Meets (Gen.CS_Photo_Partial T Z 4 E error) error own) (hna : own ≠ .any) (hnz : ∀ o, own = .value o → o ≠ 0) :
    ∃ v s, Gen.PM1_rad_cascade_kissel T Z E PK PL1 PL2 PL3 Slot.null = Except.ok (v, Slot.null) ∧ Gen.PM1_rad_cascade_kissel T Z E PK PL1 PL2 PL3 Slot.empty = Except.ok (v, s) :=
  null_slot_of_meets (f := Gen.PM1_rad_cascade_kissel T Z E PK PL1 PL2 PL3) (fun e he => C08.vacancy_spec_M1_rad T Z E (pk [PK, PL1, PL2, PL3]) e own (hown e he) hna hnz) (C08.vacancy_ne_any hna)
theorem null_slot_PM1_auger_cascade_kissel (PK PL1 PL2 PL3 : ℝ) (hown : ∀ error : Slot, error.isFull = false → Meets (Gen.CS_Photo_Partial T Z 4 E error) error own) (hna : own ≠ .any) (hnz : ∀ o, own = .value o → o ≠ 0) (hZ : ∀ o, own = .value o → 0 ≤ Z ∧ Z ≤ 120) :
    ∃ v s, Gen.PM1_auger_cascade_kissel T Z E PK PL1 PL2 PL3 Slot.null = Except.ok (v, Slot.null) ∧ Gen.PM1_auger_cascade_kissel T Z E PK PL1 PL2 PL3 Slot.empty = Except.ok (v, s) :=
  null_slot_of_meets (f := Gen.PM1_auger_cascade_kissel T Z E PK PL1 PL2 PL3) (fun e he => C08.vacancy_spec_M1_auger T Z E (pk [PK, PL1, PL2, PL3]) e own (hown e he) hna hnz hZ) (C08.vacancy_ne_any hna)
theorem null_slot_PM1_full_cascade_kissel (PK PL1 PL2 PL3 : ℝ) (hown : ∀ error : Slot, error.isFull = false → Meets (Gen.CS_Photo_Partial T Z 4 E error) error own) (hna : own ≠ .any) (hnz : ∀ o, own = .value o → o ≠ 0) (hZ : ∀ o, own = .value o → 0 ≤ Z ∧ Z ≤ 120) :
    ∃ v s, Gen.PM1_full_cascade_kissel T Z E PK PL1 PL2 PL3 Slot.null = Except.ok (v, Slot.null) ∧ Gen.PM1_full_cascade_kissel T Z E PK PL1 PL2 PL3 Slot.empty = Except.ok (v, s) :=
  null_slot_of_meets (f := Gen.PM1_full_cascade_kissel T Z E PK PL1 PL2 PL3) (fun e he => C08.vacancy_spec_M1_full T Z E (pk [PK, PL1, PL2, PL3]) e own (hown e he) hna hnz hZ) (C08.vacancy_ne_any hna)
theorem null_slot_PM2_pure_kissel (PM1 : ℝ) (hown : ∀ error : Slot, error.isFull = false → Meets (Gen.CS_Photo_Partial T Z 5 E error) error own) (hna : own ≠ .any) (hnz : ∀ o, own = .value o → o ≠ 0) :
    ∃ v s, Gen.PM2_pure_kissel T Z E PM1 Slot.null = Except.ok (v, Slot.null) ∧ Gen.PM2_pure_kissel T Z E PM1 Slot.empty = Except.ok (v, s) :=
  null_slot_of_meets (f := Gen.PM2_pure_kissel T Z E PM1) (fun e he => C08.vacancy_spec_M2_none T Z E (pk [0, 0, 0, 0, PM1]) e own (hown e he) hna hnz) (C08.vacancy_ne_any hna)
theorem null_slot_PM2_rad_cascade_kissel (PK PL1 PL2 PL3 PM1 : ℝ) (hown : ∀ error : Slot, error.isFull = false → Meets (Gen.CS_Photo_Partial T Z 5 E error) error own) (hna : own ≠ .any) (hnz : ∀ o, own = .value o → o ≠ 0) :
    ∃ v s, Gen.PM2_rad_cascade_kissel T Z E PK PL1 PL2 PL3 PM1 Slot.null = Except.ok (v, Slot.null) ∧ Gen.PM2_rad_cascade_kissel T Z E PK PL1 PL2 PL3 PM1 Slot.empty = Except.ok (v, s) :=
  null_slot_of_meets (f := Gen.PM2_rad_cascade_kissel T Z E PK PL1 PL2 PL3 PM1) (fun e he => C08.vacancy_spec_M2_rad T Z E (pk [PK, PL1, PL2, PL3, PM1]) e own (hown e he) hna hnz) (C08.vacancy_ne_any hna)
theorem null_slot_PM2_auger_cascade_kissel (PK PL1 PL2 PL3 PM1 : ℝ) (hown : ∀ error : Slot, error.isFull = false → Meets (Gen.CS_Photo_Partial T Z 5 E error) error own) (hna : own ≠ .any) (hnz : ∀ o, own = .value o → o ≠ 0) (hZ : ∀ o, own = .value o → 0 ≤ Z ∧ Z ≤ 120) :
    ∃ v s, Gen.PM2_auger_cascade_kissel T Z E PK PL1 PL2 PL3 PM1 Slot.null = Except.ok (v, Slot.null) ∧ Gen.PM2_auger_cascade_kissel T Z E PK PL1 PL2 PL3 PM1 Slot.empty = Except.ok (v, s) :=
  null_slot_of_meets (f := Gen.PM2_auger_cascade_kissel T Z E PK PL1 PL2 PL3 PM1) (fun e he => C08.vacancy_spec_M2_auger T Z E (pk [PK, PL1, PL2, PL3, PM1]) e own (hown e he) hna hnz hZ) (C08.vacancy_ne_any hna)
theorem null_slot_PM2_full_cascade_kissel (PK PL1 PL2 PL3 PM1 : ℝ) (hown : ∀ error : Slot, error.isFull = false → Meets (Gen.CS_Photo_Partial T Z 5 E error) error own) (hna : own ≠ .any) (hnz : ∀ o, own = .value o → o ≠ 0) (hZ : ∀ o, own = .value o → 0 ≤ Z ∧ Z ≤ 120) :
    ∃ v s, Gen.PM2_full_cascade_kissel T Z E PK PL1 PL2 PL3 PM1 Slot.null = Except.ok (v, Slot.null) ∧ Gen.PM2_full_cascade_kissel T Z E PK PL1 PL2 PL3 PM1 Slot.empty = Except.ok (v, s) :=
  null_slot_of_meets (f := Gen.PM2_full_cascade_kissel T Z E PK PL1 PL2 PL3 PM1) (fun e he => C08.vacancy_spec_M2_full T Z E (pk [PK, PL1, PL2, PL3, PM1]) e own (hown e he) hna hnz hZ) (C08.vacancy_ne_any hna)
theorem null_slot_PM3_pure_kissel (PM1 PM2 : ℝ) (hown : ∀ error : Slot, error.isFull = false → Meets (Gen.CS_Photo_Partial T Z 6 E error) error own) (hna : own ≠ .any) (hnz : ∀ o, own = .value o → o ≠ 0) :
    ∃ v s, Gen.PM3_pure_kissel T Z E PM1 PM2 Slot.null = Except.ok (v, Slot.null) ∧ Gen.PM3_pure_kissel T Z E PM1 PM2 Slot.empty = Except.ok (v, s) :=
  null_slot_of_meets (f := Gen.PM3_pure_kissel T Z E PM1 PM2) (fun e he => C08.vacancy_spec_M3_none T Z E (pk [0, 0, 0, 0, PM1, PM2]) e own (hown e he) hna hnz) (C08.vacancy_ne_any hna)
theorem null_slot_PM3_rad_cascade_kissel (PK PL1 PL2 PL3 PM1 PM2 : ℝ) (hown : ∀ error : Slot, error.isFull = false → Meets (Gen.CS_Photo_Partial T Z 6 E error) error own) (hna : own ≠ .any) (hnz : ∀ o, own = .value o → o ≠ 0) :
    ∃ v s, Gen.PM3_rad_cascade_kissel T Z E PK PL1 PL2 PL3 PM1 PM2 Slot.null = Except.ok (v, Slot.null) ∧ Gen.PM3_rad_cascade_kissel T Z E PK PL1 PL2 PL3 PM1 PM2 Slot.empty = Except.ok (v, s) :=
  null_slot_of_meets (f := Gen.PM3_rad_cascade_kissel T Z E PK PL1 PL2 PL3 PM1 PM2) (fun e he => C08.vacancy_spec_M3_rad T Z E (pk [PK, PL1, PL2, PL3, PM1, PM2]) e own (hown e he) hna hnz) (C08.vacancy_ne_any hna)
theorem null_slot_PM3_auger_cascade_kissel (PK PL1 PL2 PL3 PM1 PM2 : ℝ) (hown : ∀ error : Slot, error.isFull = false → Meets (Gen.CS_Photo_Partial T Z 6 E error) error own) (hna : own ≠ .any) (hnz : ∀ o, own = .value o → o ≠ 0) (hZ : ∀ o, own = .value o → 0 ≤ Z ∧ Z ≤ 120) :
    ∃ v s, Gen.PM3_auger_cascade_kissel T Z E PK PL1 PL2 PL3 PM1 PM2 Slot.null = Except.ok (v, Slot.null) ∧ Gen.PM3_auger_cascade_kissel T Z E PK PL1 PL2 PL3 PM1 PM2 Slot.empty = Except.ok (v, s) :=
  null_slot_of_meets (f := Gen.PM3_auger_cascade_kissel T Z E PK PL1 PL2 PL3 PM1 PM2) (fun e he => C08.vacancy_spec_M3_auger T Z E (pk [PK, PL1, PL2, PL3, PM1, PM2]) e own (hown e he) hna hnz hZ) (C08.vacancy_ne_any hna)
theorem null_slot_PM3_full_cascade_kissel (PK PL1 PL2 PL3 PM1 PM2 : ℝ) (hown : ∀ error : Slot, error.isFull = false → Meets (Gen.CS_Photo_Partial T Z 6 E error) error own) (hna : own ≠ .any) (hnz : ∀ o, own = .value o → o ≠ 0) (hZ : ∀ o, own = .value o → 0 ≤ Z ∧ Z ≤ 120) :
    ∃ v s, Gen.PM3_full_cascade_kissel T Z E PK PL1 PL2 PL3 PM1 PM2 Slot.null = Except.ok (v, Slot.null) ∧ Gen.PM3_full_cascade_kissel T Z E PK PL1 PL2 PL3 PM1 PM2 Slot.empty = Except.ok (v, s) :=
  null_slot_of_meets (f := Gen.PM3_full_cascade_kissel T Z E PK PL1 PL2 PL3 PM1 PM2) (fun e he => C08.vacancy_spec_M3_full T Z E (pk [PK, PL1, PL2, PL3, PM1, PM2]) e own (hown e he) hna hnz hZ) (C08.vacancy_ne_any hna)
theorem null_slot_PM4_pure_kissel (PM1 PM2 PM3 : ℝ) (hown : ∀ error : Slot, error.isFull = false → Meets (Gen.CS_Photo_Partial T Z 7 E error) error own) (hna : own ≠ .any) (hnz : ∀ o, own = .value o → o ≠ 0) :
    ∃ v s, Gen.PM4_pure_kissel T Z E PM1 PM2 PM3 Slot.null = Except.ok (v, Slot.null) ∧ Gen.PM4_pure_kissel T Z E PM1 PM2 PM3 Slot.empty = Except.ok (v, s) :=
  null_slot_of_meets (f := Gen.PM4_pure_kissel T Z E PM1 PM2 PM3) (fun e he => C08.vacancy_spec_M4_none T Z E (pk [0, 0, 0, 0, PM1, PM2, PM3]) e own (hown e he) hna hnz) (C08.vacancy_ne_any hna)
theorem null_slot_PM4_rad_cascade_kissel (PK PL1 PL2 PL3 PM1 PM2 PM3 : ℝ) (hown : ∀ error : Slot, error.isFull = false → Meets (Gen.CS_Photo_Partial T Z 7 E error) error own) (hna : own ≠ .any) (hnz : ∀ o, own = .value o → o ≠ 0) :
    ∃ v s, Gen.PM4_rad_cascade_kissel T Z E PK PL1 PL2 PL3 PM1 PM2 PM3 Slot.null = Except.ok (v, Slot.null) ∧ Gen.PM4_rad_cascade_kissel T Z E PK PL1 PL2 PL3 PM1 PM2 PM3 Slot.empty = Except.ok (v, s) :=
  null_slot_of_meets (f := Gen.PM4_rad_cascade_kissel T Z E PK PL1 PL2 PL3 PM1 PM2 PM3) (fun e he => C08.vacancy_spec_M4_rad T Z E (pk [PK, PL1, PL2, PL3, PM1, PM2, PM3]) e own (hown e he) hna hnz) (C08.vacancy_ne_any hna)
theorem null_slot_PM4_auger_cascade_kissel (PK PL1 PL2 PL3 PM1 PM2 PM3 : ℝ) (hown : ∀ error : Slot, error.isFull = false → Meets (Gen.CS_Photo_Partial T Z 7 E error) error own) (hna : own ≠ .any) (hnz : ∀ o, own = .value o → o ≠ 0) (hZ : ∀ o, own = .value o → 0 ≤ Z ∧ Z ≤ 120) :
    ∃ v s, Gen.PM4_auger_cascade_kissel T Z E PK PL1 PL2 PL3 PM1 PM2 PM3 Slot.null = Except.ok (v, Slot.null) ∧ Gen.PM4_auger_cascade_kissel T Z E PK PL1 PL2 PL3 PM1 PM2 PM3 Slot.empty = Except.ok (v, s) :=
  null_slot_of_meets (f := Gen.PM4_auger_cascade_kissel T Z E PK PL1 PL2 PL3 PM1 PM2 PM3) (fun e he => C08.vacancy_spec_M4_auger T Z E (pk [PK, PL1, PL2, PL3, PM1, PM2, PM3]) e own (hown e he) hna hnz hZ) (C08.vacancy_ne_any hna)
theorem null_slot_PM4_full_cascade_kissel (PK PL1 PL2 PL3 PM1 PM2 PM3 : ℝ) (hown : ∀ error : Slot, error.isFull = false → Meets (Gen.CS_Photo_Partial T Z 7 E error) error own) (hna : own ≠ .any) (hnz : ∀ o, own = .value o → o ≠ 0) (hZ : ∀ o, own = .value o → 0 ≤ Z ∧ Z ≤ 120) :
    ∃ v s, Gen.PM4_full_cascade_kissel T Z E PK PL1 PL2 PL3 PM1 PM2 PM3 Slot.null = Except.ok (v, Slot.null) ∧ Gen.PM4_full_cascade_kissel T Z E PK PL1 PL2 PL3 PM1 PM2 PM3 Slot.empty = Except.ok (v, s) :=
  null_slot_of_meets (f := Gen.PM4_full_cascade_kissel T Z E PK PL1 PL2 PL3 PM1 PM2 PM3) (fun e he => C08.vacancy_spec_M4_full T Z E (pk [PK, PL1, PL2, PL3, PM1, PM2, PM3]) e own (hown e he) hna hnz hZ) (C08.vacancy_ne_any hna)
theorem null_slot_PM5_pure_kissel (PM1 PM2 PM3 PM4 : ℝ) (hown : ∀ error : Slot, error.isFull = false → Meets (Gen.CS_Photo_Partial T Z 8 E error) error own) (hna : own ≠ .any) (hnz : ∀ o, own = .value o → o ≠ 0) :
    ∃ v s, Gen.PM5_pure_kissel T Z E PM1 PM2 PM3 PM4 Slot.null = Except.ok (v, Slot.null) ∧ Gen.PM5_pure_kissel T Z E PM1 PM2 PM3 PM4 Slot.empty = Except.ok (v, s) :=
  null_slot_of_meets (f := Gen.PM5_pure_kissel T Z E PM1 PM2 PM3 PM4) (fun e he => C08.vacancy_spec_M5_none T Z E (pk [0, 0, 0, 0, PM1, PM2, PM3, PM4]) e own (hown e he) hna hnz) (C08.vacancy_ne_any hna)
theorem null_slot_PM5_rad_cascade_kissel (PK PL1 PL2 PL3 PM1 PM2 PM3 PM4 : ℝ) (hown : ∀ error : Slot, error.isFull = false → Meets (Gen.CS_Photo_Partial T Z 8 E error) error own) (hna : own ≠ .any) (hnz : ∀ o, own = .value o → o ≠ 0) :
    ∃ v s, Gen.PM5_rad_cascade_kissel T Z E PK PL1 PL2 PL3 PM1 PM2 PM3 PM4 Slot.null = Except.ok (v, Slot.null) ∧ Gen.PM5_rad_cascade_kissel T Z E PK PL1 PL2 PL3 PM1 PM2 PM3 PM4 Slot.empty = Except.ok (v, s) :=
  null_slot_of_meets (f := Gen.PM5_rad_cascade_kissel T Z E PK PL1 PL2 PL3 PM1 PM2 PM3 PM4) (fun e he => C08.vacancy_spec_M5_rad T Z E (pk [PK, PL1, PL2, PL3, PM1, PM2, PM3, PM4]) e own (hown e he) hna hnz) (C08.vacancy_ne_any hna)
theorem null_slot_PM5_auger_cascade_kissel (PK PL1 PL2 PL3 PM1 PM2 PM3 PM4 : ℝ) (hown : ∀ error : Slot, error.isFull = false → Meets (Gen.CS_Photo_Partial T Z 8 E error) error own) (hna : own ≠ .any) (hnz : ∀ o, own = .value o → o ≠ 0) (hZ : ∀ o, own = .value o → 0 ≤ Z ∧ Z ≤ 120) :
    ∃ v s, Gen.PM5_auger_cascade_kissel T Z E PK PL1 PL2 PL3 PM1 PM2 PM3 PM4 Slot.null = Except.ok (v, Slot.null) ∧ Gen.PM5_auger_cascade_kissel T Z E PK PL1 PL2 PL3 PM1 PM2 PM3 PM4 Slot.empty = Except.ok (v, s) :=
  null_slot_of_meets (f := Gen.PM5_auger_cascade_kissel T Z E PK PL1 PL2 PL3 PM1 PM2 PM3 PM4) (fun e he => C08.vacancy_spec_M5_auger T Z E (pk [PK, PL1, PL2, PL3, PM1, PM2, PM3, PM4]) e own (hown e he) hna hnz hZ) (C08.vacancy_ne_any hna)
theorem null_slot_PM5_full_cascade_kissel (PK PL1 PL2 PL3 PM1 PM2 PM3 PM4 : ℝ) (hown : ∀ error : Slot, error.isFull = false → Meets (Gen.CS_Photo_Partial T Z 8 E error) error own) (hna : own ≠ .any) (hnz : ∀ o, own = .value o → o ≠ 0) (hZ : ∀ o, own = .value o → 0 ≤ Z ∧ Z ≤ 120) :
    ∃ v s, Gen.PM5_full_cascade_kissel T Z E PK PL1 PL2 PL3 PM1 PM2 PM3 PM4 Slot.null = Except.ok (v, Slot.null) ∧ Gen.PM5_full_cascade_kissel T Z E PK PL1 PL2 PL3 PM1 PM2 PM3 PM4 Slot.empty = Except.ok (v, s) :=
  null_slot_of_meets (f := Gen.PM5_full_cascade_kissel T Z E PK PL1 PL2 PL3 PM1 PM2 PM3 PM4) (fun e he => C08.vacancy_spec_M5_full T Z E (pk [PK, PL1, PL2, PL3, PM1, PM2, PM3, PM4]) e own (hown e he) hna hnz hZ) (C08.vacancy_ne_any hna)

end vacancy

/-- the three hypotheses of the `null_slot_P…` / `contract_P…` theorems from the shape of the Kissel table, for the specified
partial cross section of sub-shell `k` -/
theorem null_slot_vacancy_hypotheses_of_shape (T : Tables ℝ) (Z k : Int) (E : ℝ) (hs : C08.KisselShaped T Z)
    (hW : C08.WeightDefined T Z E) :
    (∀ error : Slot, error.isFull = false → Meets (Gen.CS_Photo_Partial T Z k E error) error (Spec.CS_Photo_Partial T Z k E)) ∧
    Spec.CS_Photo_Partial T Z k E ≠ .any ∧ (∀ o, Spec.CS_Photo_Partial T Z k E = .value o → o ≠ 0) :=
  ⟨fun error he => C08.cs_photo_partial_meets T Z E hs hW k error he, C08.cs_photo_partial_spec_ne_any T Z E k,
   fun o h => (C08.cs_photo_partial_spec_pos T Z E k o h).ne'⟩

/-- a returned Kissel partial photo-ionisation cross section (cm²/g) is `> 0` -/
theorem positive_CS_Photo_Partial (T : Tables ℝ) (Z k : Int) (E v : ℝ) (hs : C08.KisselShaped T Z) (hW : C08.WeightDefined T Z E)
    (h : Returns (Gen.CS_Photo_Partial T Z k E Slot.empty) v Slot.empty) : 0 < v := by
  have hm := C08.cs_photo_partial_meets T Z E hs hW k Slot.empty rfl
  rcases Meets.cases hm with ⟨w, hw, hrw⟩ | ⟨_, e, _, _, hrw⟩ | ha
  · have : v = w := by rw [Returns, hrw] at h; injection h with h; injection h with h; exact h.symm
    rw [this]; exact C08.cs_photo_partial_spec_pos T Z E k w hw
  · exfalso
    rw [Returns, hrw] at h
    injection h with h; injection h with h1 h2
    simp [Slot.withErr] at h2
  · exact absurd ha (C08.cs_photo_partial_spec_ne_any T Z E k)

/-! ## non-vacuity (the synthetic Kissel element `witK 2` of C02b/C05c: Z = 1, E = 1 keV) -/

section nonvacuity
open C02 C05

theorem witK_shaped : C08.KisselShaped (witK 2) 1 := fun s _ => witK_shape 2 s
theorem witK_weight (E : ℝ) : C08.WeightDefined (witK 2) 1 E := fun _ _ _ => by rw [wit_aw2]; simp

/-- all hypotheses of the vacancy corollaries hold on the instance, for every sub-shell index (here: the one with most of them) -/
example (PK PL1 PL2 PL3 PM1 PM2 PM3 PM4 : ℝ) :
    ∃ v s, Gen.PM5_full_cascade_kissel (witK 2) 1 1 PK PL1 PL2 PL3 PM1 PM2 PM3 PM4 Slot.null = Except.ok (v, Slot.null) ∧
      Gen.PM5_full_cascade_kissel (witK 2) 1 1 PK PL1 PL2 PL3 PM1 PM2 PM3 PM4 Slot.empty = Except.ok (v, s) :=
  have h := null_slot_vacancy_hypotheses_of_shape (witK 2) 1 8 1 witK_shaped (witK_weight 1)
  null_slot_PM5_full_cascade_kissel (witK 2) 1 1 _ PK PL1 PL2 PL3 PM1 PM2 PM3 PM4 h.1 h.2.1 h.2.2 (fun _ _ => by omega)

/-- the K-shell partial cross section of the instance is returned, and is positive -/
example : ∃ v, Returns (Gen.CS_Photo_Partial (witK 2) 1 0 1 Slot.empty) v Slot.empty ∧ 0 < v := by
  have hm := C08.cs_photo_partial_meets (witK 2) 1 1 witK_shaped (witK_weight 1) 0 Slot.empty rfl
  have hv : Spec.CS_Photo_Partial (witK 2) 1 0 1 = .value (Real.exp 3 * 2 * Hdr.AVOGNUM / 2) := by
    unfold Spec.CS_Photo_Partial; rw [wit_partial, wit_aw2]; rfl
  rw [hv] at hm
  exact ⟨_, hm, positive_CS_Photo_Partial _ _ _ _ _ witK_shaped (witK_weight 1) hm⟩

end nonvacuity

end C03
end Xrl
