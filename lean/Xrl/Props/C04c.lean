import Xrl.Props.C04
import Xrl.Props.C03c
/-!
# C04 (continued) — no undefined access in the Kissel cascade family (C08)

`no_ub_<f>` for the 32 vacancy-production functions and the 20 shell / line fluorescence cross sections, from the
contract theorems of C03c.lean under the same hypotheses (`OwnOK`, or `hown/hna/hnz/hZ` for the vacancy functions);
and for the 16 static helpers `P<shell>_get_cross_sections_constant_{auger_only,full}` of
xrf_cross_sections_aux-private.c (bare `double`, no slot; only `prdata` calls them): for EVERY table content and every
`int` arguments, no hypothesis — they only call the public accessors without an error slot.
-/
namespace Xrl
namespace C04
open Spec

set_option linter.unusedVariables false
set_option maxRecDepth 16384

/-! ## the 16 constant helpers: every argument -/

/-- prune the `shell` dispatch, rewrite the accessor calls (made with a NULL slot) by their values -/
macro "c04_const" f:ident : tactic =>
  `(tactic| (
    unfold $f
    simp only [C08.augerRate_null, C08.augerYield_null, C08.fluorYield_null, C08.radRate_null, bind_ok, pure_eq_ok]
    split_ifs <;> exact ⟨_, rfl⟩))

section consts
variable (T : Tables ℝ) (Z shell : Int)

theorem no_ub_PL1_get_cross_sections_constant_auger_only : NoAbort (Gen.PL1_get_cross_sections_constant_auger_only T Z shell) := by
  c04_const Gen.PL1_get_cross_sections_constant_auger_only
theorem no_ub_PL1_get_cross_sections_constant_full : NoAbort (Gen.PL1_get_cross_sections_constant_full T Z shell) := by
  c04_const Gen.PL1_get_cross_sections_constant_full
theorem no_ub_PL2_get_cross_sections_constant_auger_only : NoAbort (Gen.PL2_get_cross_sections_constant_auger_only T Z shell) := by
  c04_const Gen.PL2_get_cross_sections_constant_auger_only
theorem no_ub_PL2_get_cross_sections_constant_full : NoAbort (Gen.PL2_get_cross_sections_constant_full T Z shell) := by
  c04_const Gen.PL2_get_cross_sections_constant_full
theorem no_ub_PL3_get_cross_sections_constant_auger_only : NoAbort (Gen.PL3_get_cross_sections_constant_auger_only T Z shell) := by
  c04_const Gen.PL3_get_cross_sections_constant_auger_only
theorem no_ub_PL3_get_cross_sections_constant_full : NoAbort (Gen.PL3_get_cross_sections_constant_full T Z shell) := by
  c04_const Gen.PL3_get_cross_sections_constant_full
theorem no_ub_PM1_get_cross_sections_constant_auger_only : NoAbort (Gen.PM1_get_cross_sections_constant_auger_only T Z shell) := by
  c04_const Gen.PM1_get_cross_sections_constant_auger_only
theorem no_ub_PM1_get_cross_sections_constant_full : NoAbort (Gen.PM1_get_cross_sections_constant_full T Z shell) := by
  c04_const Gen.PM1_get_cross_sections_constant_full
theorem no_ub_PM2_get_cross_sections_constant_auger_only : NoAbort (Gen.PM2_get_cross_sections_constant_auger_only T Z shell) := by
  c04_const Gen.PM2_get_cross_sections_constant_auger_only
theorem no_ub_PM2_get_cross_sections_constant_full : NoAbort (Gen.PM2_get_cross_sections_constant_full T Z shell) := by
  c04_const Gen.PM2_get_cross_sections_constant_full
theorem no_ub_PM3_get_cross_sections_constant_auger_only : NoAbort (Gen.PM3_get_cross_sections_constant_auger_only T Z shell) := by
  c04_const Gen.PM3_get_cross_sections_constant_auger_only
theorem no_ub_PM3_get_cross_sections_constant_full : NoAbort (Gen.PM3_get_cross_sections_constant_full T Z shell) := by
  c04_const Gen.PM3_get_cross_sections_constant_full
theorem no_ub_PM4_get_cross_sections_constant_auger_only : NoAbort (Gen.PM4_get_cross_sections_constant_auger_only T Z shell) := by
  c04_const Gen.PM4_get_cross_sections_constant_auger_only
theorem no_ub_PM4_get_cross_sections_constant_full : NoAbort (Gen.PM4_get_cross_sections_constant_full T Z shell) := by
  c04_const Gen.PM4_get_cross_sections_constant_full
theorem no_ub_PM5_get_cross_sections_constant_auger_only : NoAbort (Gen.PM5_get_cross_sections_constant_auger_only T Z shell) := by
  c04_const Gen.PM5_get_cross_sections_constant_auger_only
theorem no_ub_PM5_get_cross_sections_constant_full : NoAbort (Gen.PM5_get_cross_sections_constant_full T Z shell) := by
  c04_const Gen.PM5_get_cross_sections_constant_full

end consts

/-! ## the 32 vacancy-production functions -/

section vacancy
variable (T : Tables ℝ) (Z : Int) (E : ℝ) (error : Slot) (own : Expect ℝ)

theorem no_ub_PL1_pure_kissel (hown : Meets (Gen.CS_Photo_Partial T Z 1 E error) error own) (hna : own ≠ .any) :
    NoAbort (Gen.PL1_pure_kissel T Z E error) :=
  noabort_of_contract (C03.contract_PL1_pure_kissel T Z E error own hown hna)
theorem no_ub_PL1_rad_cascade_kissel (PK : ℝ) (hown : Meets (Gen.CS_Photo_Partial T Z 1 E error) error own) (hna : own ≠ .any) (hnz : ∀ o, own = .value o → o ≠ 0) :
    NoAbort (Gen.PL1_rad_cascade_kissel T Z E PK error) :=
  noabort_of_contract (C03.contract_PL1_rad_cascade_kissel T Z E error own PK hown hna hnz)
theorem no_ub_PL1_auger_cascade_kissel (PK : ℝ) (hown : Meets (Gen.CS_Photo_Partial T Z 1 E error) error own) (hna : own ≠ .any) (hnz : ∀ o, own = .value o → o ≠ 0) (hZ : ∀ o, own = .value o → 0 ≤ Z ∧ Z ≤ 120) :
    NoAbort (Gen.PL1_auger_cascade_kissel T Z E PK error) :=
  noabort_of_contract (C03.contract_PL1_auger_cascade_kissel T Z E error own PK hown hna hnz hZ)
theorem no_ub_PL1_full_cascade_kissel (PK : ℝ) (hown : Meets (Gen.CS_Photo_Partial T Z 1 E error) error own) (hna : own ≠ .any) (hnz : ∀ o, own = .value o → o ≠ 0) (hZ : ∀ o, own = .value o → 0 ≤ Z ∧ Z ≤ 120) :
    NoAbort (Gen.PL1_full_cascade_kissel T Z E PK error) :=
  noabort_of_contract (C03.contract_PL1_full_cascade_kissel T Z E error own PK hown hna hnz hZ)
theorem no_ub_PL2_pure_kissel (PL1 : ℝ) (hown : Meets (Gen.CS_Photo_Partial T Z 2 E error) error own) (hna : own ≠ .any) (hnz : ∀ o, own = .value o → o ≠ 0) :
    NoAbort (Gen.PL2_pure_kissel T Z E PL1 error) :=
  noabort_of_contract (C03.contract_PL2_pure_kissel T Z E error own PL1 hown hna hnz)
theorem no_ub_PL2_rad_cascade_kissel (PK PL1 : ℝ) (hown : Meets (Gen.CS_Photo_Partial T Z 2 E error) error own) (hna : own ≠ .any) (hnz : ∀ o, own = .value o → o ≠ 0) :
    NoAbort (Gen.PL2_rad_cascade_kissel T Z E PK PL1 error) :=
  noabort_of_contract (C03.contract_PL2_rad_cascade_kissel T Z E error own PK PL1 hown hna hnz)
theorem no_ub_PL2_auger_cascade_kissel (PK PL1 : ℝ) (hown : Meets (Gen.CS_Photo_Partial T Z 2 E error) error own) (hna : own ≠ .any) (hnz : ∀ o, own = .value o → o ≠ 0) (hZ : ∀ o, own = .value o → 0 ≤ Z ∧ Z ≤ 120) :
    NoAbort (Gen.PL2_auger_cascade_kissel T Z E PK PL1 error) :=
  noabort_of_contract (C03.contract_PL2_auger_cascade_kissel T Z E error own PK PL1 hown hna hnz hZ)
theorem no_ub_PL2_full_cascade_kissel (PK PL1 : ℝ) (hown : Meets (Gen.CS_Photo_Partial T Z 2 E error) error own) (hna : own ≠ .any) (hnz : ∀ o, own = .value o → o ≠ 0) (hZ : ∀ o, own = .value o → 0 ≤ Z ∧ Z ≤ 120) :
    NoAbort (Gen.PL2_full_cascade_kissel T Z E PK PL1 error) :=
  noabort_of_contract (C03.contract_PL2_full_cascade_kissel T Z E error own PK PL1 hown hna hnz hZ)
theorem no_ub_PL3_pure_kissel (PL1 PL2 : ℝ) (hown : Meets (Gen.CS_Photo_Partial T Z 3 E error) error own) (hna : own ≠ .any) (hnz : ∀ o, own = .value o → o ≠ 0) :
    NoAbort (Gen.PL3_pure_kissel T Z E PL1 PL2 error) :=
  noabort_of_contract (C03.contract_PL3_pure_kissel T Z E error own PL1 PL2 hown hna hnz)
theorem no_ub_PL3_rad_cascade_kissel (PK PL1 PL2 : ℝ) (hown : Meets (Gen.CS_Photo_Partial T Z 3 E error) error own) (hna : own ≠ .any) (hnz : ∀ o, own = .value o → o ≠ 0) :
    NoAbort (Gen.PL3_rad_cascade_kissel T Z E PK PL1 PL2 error) :=
  noabort_of_contract (C03.contract_PL3_rad_cascade_kissel T Z E error own PK PL1 PL2 hown hna hnz)
theorem no_ub_PL3_auger_cascade_kissel (PK PL1 PL2 : ℝ) (hown : Meets (Gen.CS_Photo_Partial T Z 3 E error) error own) (hna : own ≠ .any) (hnz : ∀ o, own = .value o → o ≠ 0) (hZ : ∀ o, own = .value o → 0 ≤ Z ∧ Z ≤ 120) :
    NoAbort (Gen.PL3_auger_cascade_kissel T Z E PK PL1 PL2 error) :=
  noabort_of_contract (C03.contract_PL3_auger_cascade_kissel T Z E error own PK PL1 PL2 hown hna hnz hZ)
theorem no_ub_PL3_full_cascade_kissel (PK PL1 PL2 : ℝ) (hown : Meets (Gen.CS_Photo_Partial T Z 3 E error) error own) (hna : own ≠ .any) (hnz : ∀ o, own = .value o → o ≠ 0) (hZ : ∀ o, own = .value o → 0 ≤ Z ∧ Z ≤ 120) :
    NoAbort (Gen.PL3_full_cascade_kissel T Z E PK PL1 PL2 error) :=
  noabort_of_contract (C03.contract_PL3_full_cascade_kissel T Z E error own PK PL1 PL2 hown hna hnz hZ)
theorem no_ub_PM1_pure_kissel (hown : Meets (Gen.CS_Photo_Partial T Z 4 E error) error own) (hna : own ≠ .any) :
    NoAbort (Gen.PM1_pure_kissel T Z E error) :=
  noabort_of_contract (C03.contract_PM1_pure_kissel T Z E error own hown hna)
theorem no_ub_PM1_rad_cascade_kissel (PK PL1 PL2 PL3 : ℝ) (hown : Meets (Gen.CS_Photo_Partial T Z 4 E error) error own) (hna : own ≠ .any) (hnz : ∀ o, own = .value o → o ≠ 0) :
    NoAbort (Gen.PM1_rad_cascade_kissel T Z E PK PL1 PL2 PL3 error) :=
  noabort_of_contract (C03.contract_PM1_rad_cascade_kissel T Z E error own PK PL1 PL2 PL3 hown hna hnz)
theorem no_ub_PM1_auger_cascade_kissel (PK PL1 PL2 PL3 : ℝ) (hown : Meets (Gen.CS_Photo_Partial T Z 4 E error) error own) (hna : own ≠ .any) (hnz : ∀ o, own = .value o → o ≠ 0) (hZ : ∀ o, own = .value o → 0 ≤ Z ∧ Z ≤ 120) :
    NoAbort (Gen.PM1_auger_cascade_kissel T Z E PK PL1 PL2 PL3 error) :=
  noabort_of_contract (C03.contract_PM1_auger_cascade_kissel T Z E error own PK PL1 PL2 PL3 hown hna hnz hZ)
theorem no_ub_PM1_full_cascade_kissel (PK PL1 PL2 PL3 : ℝ) (hown : Meets (Gen.CS_Photo_Partial T Z 4 E error) error own) (hna : own ≠ .any) (hnz : ∀ o, own = .value o → o ≠ 0) (hZ : ∀ o, own = .value o → 0 ≤ Z ∧ Z ≤ 120) :
    NoAbort (Gen.PM1_full_cascade_kissel T Z E PK PL1 PL2 PL3 error) :=
  noabort_of_contract (C03.contract_PM1_full_cascade_kissel T Z E error own PK PL1 PL2 PL3 hown hna hnz hZ)
theorem no_ub_PM2_pure_kissel (PM1 : ℝ) (hown : Meets (Gen.CS_Photo_Partial T Z 5 E error) error own) (hna : own ≠ .any) (hnz : ∀ o, own = .value o → o ≠ 0) :
    NoAbort (Gen.PM2_pure_kissel T Z E PM1 error) :=
  noabort_of_contract (C03.contract_PM2_pure_kissel T Z E error own PM1 hown hna hnz)
theorem no_ub_PM2_rad_cascade_kissel (PK PL1 PL2 PL3 PM1 : ℝ) (hown : Meets (Gen.CS_Photo_Partial T Z 5 E error) error own) (hna : own ≠ .any) (hnz : ∀ o, own = .value o → o ≠ 0) :
    NoAbort (Gen.PM2_rad_cascade_kissel T Z E PK PL1 PL2 PL3 PM1 error) :=
  noabort_of_contract (C03.contract_PM2_rad_cascade_kissel T Z E error own PK PL1 PL2 PL3 PM1 hown hna hnz)
theorem no_ub_PM2_auger_cascade_kissel (PK PL1 PL2 PL3 PM1 : ℝ) (hown : Meets (Gen.CS_Photo_Partial T Z 5 E error) error own) (hna : own ≠ .any) (hnz : ∀ o, own = .value o → o ≠ 0) (hZ : ∀ o, own = .value o → 0 ≤ Z ∧ Z ≤ 120) :
    NoAbort (Gen.PM2_auger_cascade_kissel T Z E PK PL1 PL2 PL3 PM1 error) :=
  noabort_of_contract (C03.contract_PM2_auger_cascade_kissel T Z E error own PK PL1 PL2 PL3 PM1 hown hna hnz hZ)
theorem no_ub_PM2_full_cascade_kissel (PK PL1 PL2 PL3 PM1 : ℝ) (hown : Meets (Gen.CS_Photo_Partial T Z 5 E error) error own) (hna : own ≠ .any) (hnz : ∀ o, own = .value o → o ≠ 0) (hZ : ∀ o, own = .value o → 0 ≤ Z ∧ Z ≤ 120) :
    NoAbort (Gen.PM2_full_cascade_kissel T Z E PK PL1 PL2 PL3 PM1 error) :=
  noabort_of_contract (C03.contract_PM2_full_cascade_kissel T Z E error own PK PL1 PL2 PL3 PM1 hown hna hnz hZ)
theorem no_ub_PM3_pure_kissel (PM1 PM2 : ℝ) (hown : Meets (Gen.CS_Photo_Partial T Z 6 E error) error own) (hna : own ≠ .any) (hnz : ∀ o, own = .value o → o ≠ 0) :
    NoAbort (Gen.PM3_pure_kissel T Z E PM1 PM2 error) :=
  noabort_of_contract (C03.contract_PM3_pure_kissel T Z E error own PM1 PM2 hown hna hnz)
theorem no_ub_PM3_rad_cascade_kissel (PK PL1 PL2 PL3 PM1 PM2 : ℝ) (hown : Meets (Gen.CS_Photo_Partial T Z 6 E error) error own) (hna : own ≠ .any) (hnz : ∀ o, own = .value o → o ≠ 0) :
    NoAbort (Gen.PM3_rad_cascade_kissel T Z E PK PL1 PL2 PL3 PM1 PM2 error) :=
  noabort_of_contract (C03.contract_PM3_rad_cascade_kissel T Z E error own PK PL1 PL2 PL3 PM1 PM2 hown hna hnz)
theorem no_ub_PM3_auger_cascade_kissel (PK PL1 PL2 PL3 PM1 PM2 : ℝ) (hown : Meets (Gen.CS_Photo_Partial T Z 6 E error) error own) (hna : own ≠ .any) (hnz : ∀ o, own = .value o → o ≠ 0) (hZ : ∀ o, own = .value o → 0 ≤ Z ∧ Z ≤ 120) :
    NoAbort (Gen.PM3_auger_cascade_kissel T Z E PK PL1 PL2 PL3 PM1 PM2 error) :=
  noabort_of_contract (C03.contract_PM3_auger_cascade_kissel T Z E error own PK PL1 PL2 PL3 PM1 PM2 hown hna hnz hZ)
theorem no_ub_PM3_full_cascade_kissel (PK PL1 PL2 PL3 PM1 PM2 : ℝ) (hown : Meets (Gen.CS_Photo_Partial T Z 6 E error) error own) (hna : own ≠ .any) (hnz : ∀ o, own = .value o → o ≠ 0) (hZ : ∀ o, own = .value o → 0 ≤ Z ∧ Z ≤ 120) :
    NoAbort (Gen.PM3_full_cascade_kissel T Z E PK PL1 PL2 PL3 PM1 PM2 error) :=
  noabort_of_contract (C03.contract_PM3_full_cascade_kissel T Z E error own PK PL1 PL2 PL3 PM1 PM2 hown hna hnz hZ)
theorem no_ub_PM4_pure_kissel (PM1 PM2 PM3 : ℝ) (hown : Meets (Gen.CS_Photo_Partial T Z 7 E error) error own) (hna : own ≠ .any) (hnz : ∀ o, own = .value o → o ≠ 0) :
    NoAbort (Gen.PM4_pure_kissel T Z E PM1 PM2 PM3 error) :=
  noabort_of_contract (C03.contract_PM4_pure_kissel T Z E error own PM1 PM2 PM3 hown hna hnz)
theorem no_ub_PM4_rad_cascade_kissel (PK PL1 PL2 PL3 PM1 PM2 PM3 : ℝ) (hown : Meets (Gen.CS_Photo_Partial T Z 7 E error) error own) (hna : own ≠ .any) (hnz : ∀ o, own = .value o → o ≠ 0) :
    NoAbort (Gen.PM4_rad_cascade_kissel T Z E PK PL1 PL2 PL3 PM1 PM2 PM3 error) :=
  noabort_of_contract (C03.contract_PM4_rad_cascade_kissel T Z E error own PK PL1 PL2 PL3 PM1 PM2 PM3 hown hna hnz)
theorem no_ub_PM4_auger_cascade_kissel (PK PL1 PL2 PL3 PM1 PM2 PM3 : ℝ) (hown : Meets (Gen.CS_Photo_Partial T Z 7 E error) error own) (hna : own ≠ .any) (hnz : ∀ o, own = .value o → o ≠ 0) (hZ : ∀ o, own = .value o → 0 ≤ Z ∧ Z ≤ 120) :
    NoAbort (Gen.PM4_auger_cascade_kissel T Z E PK PL1 PL2 PL3 PM1 PM2 PM3 error) :=
  noabort_of_contract (C03.contract_PM4_auger_cascade_kissel T Z E error own PK PL1 PL2 PL3 PM1 PM2 PM3 hown hna hnz hZ)
theorem no_ub_PM4_full_cascade_kissel (PK PL1 PL2 PL3 PM1 PM2 PM3 : ℝ) (hown : Meets (Gen.CS_Photo_Partial T Z 7 E error) error own) (hna : own ≠ .any) (hnz : ∀ o, own = .value o → o ≠ 0) (hZ : ∀ o, own = .value o → 0 ≤ Z ∧ Z ≤ 120) :
    NoAbort (Gen.PM4_full_cascade_kissel T Z E PK PL1 PL2 PL3 PM1 PM2 PM3 error) :=
  noabort_of_contract (C03.contract_PM4_full_cascade_kissel T Z E error own PK PL1 PL2 PL3 PM1 PM2 PM3 hown hna hnz hZ)
theorem no_ub_PM5_pure_kissel (PM1 PM2 PM3 PM4 : ℝ) (hown : Meets (Gen.CS_Photo_Partial T Z 8 E error) error own) (hna : own ≠ .any) (hnz : ∀ o, own = .value o → o ≠ 0) :
    NoAbort (Gen.PM5_pure_kissel T Z E PM1 PM2 PM3 PM4 error) :=
  noabort_of_contract (C03.contract_PM5_pure_kissel T Z E error own PM1 PM2 PM3 PM4 hown hna hnz)
theorem no_ub_PM5_rad_cascade_kissel (PK PL1 PL2 PL3 PM1 PM2 PM3 PM4 : ℝ) (hown : Meets (Gen.CS_Photo_Partial T Z 8 E error) error own) (hna : own ≠ .any) (hnz : ∀ o, own = .value o → o ≠ 0) :
    NoAbort (Gen.PM5_rad_cascade_kissel T Z E PK PL1 PL2 PL3 PM1 PM2 PM3 PM4 error) :=
  noabort_of_contract (C03.contract_PM5_rad_cascade_kissel T Z E error own PK PL1 PL2 PL3 PM1 PM2 PM3 PM4 hown hna hnz)
theorem no_ub_PM5_auger_cascade_kissel (PK PL1 PL2 PL3 PM1 PM2 PM3 PM4 : ℝ) (hown : Meets (Gen.CS_Photo_Partial T Z 8 E error) error own) (hna : own ≠ .any) (hnz : ∀ o, own = .value o → o ≠ 0) (hZ : ∀ o, own = .value o → 0 ≤ Z ∧ Z ≤ 120) :
    NoAbort (Gen.PM5_auger_cascade_kissel T Z E PK PL1 PL2 PL3 PM1 PM2 PM3 PM4 error) :=
  noabort_of_contract (C03.contract_PM5_auger_cascade_kissel T Z E error own PK PL1 PL2 PL3 PM1 PM2 PM3 PM4 hown hna hnz hZ)
theorem no_ub_PM5_full_cascade_kissel (PK PL1 PL2 PL3 PM1 PM2 PM3 PM4 : ℝ) (hown : Meets (Gen.CS_Photo_Partial T Z 8 E error) error own) (hna : own ≠ .any) (hnz : ∀ o, own = .value o → o ≠ 0) (hZ : ∀ o, own = .value o → 0 ≤ Z ∧ Z ≤ 120) :
    NoAbort (Gen.PM5_full_cascade_kissel T Z E PK PL1 PL2 PL3 PM1 PM2 PM3 PM4 error) :=
  noabort_of_contract (C03.contract_PM5_full_cascade_kissel T Z E error own PK PL1 PL2 PL3 PM1 PM2 PM3 PM4 hown hna hnz hZ)

end vacancy

/-! ## shell and line fluorescence cross sections -/

section fluor
variable (T : Tables ℝ) (Z shell line : Int) (E : ℝ) (error : Slot) (he : error.isFull = false)
  (own : Int → Expect ℝ) (ho : C08.OwnOK T Z E own)
include he ho

theorem no_ub_CS_FluorShell_Kissel_no_Cascade : NoAbort (Gen.CS_FluorShell_Kissel_no_Cascade T Z shell E error) :=
  noabort_of_contract (C03.contract_CS_FluorShell_Kissel_no_Cascade T Z shell E error he own ho)
theorem no_ub_CSb_FluorShell_Kissel_no_Cascade : NoAbort (Gen.CSb_FluorShell_Kissel_no_Cascade T Z shell E error) :=
  noabort_of_contract (C03.contract_CSb_FluorShell_Kissel_no_Cascade T Z shell E error he own ho)
theorem no_ub_CS_FluorLine_Kissel_no_Cascade : NoAbort (Gen.CS_FluorLine_Kissel_no_Cascade T Z line E error) :=
  noabort_of_contract (C03.contract_CS_FluorLine_Kissel_no_Cascade T Z line E error he own ho)
theorem no_ub_CSb_FluorLine_Kissel_no_Cascade : NoAbort (Gen.CSb_FluorLine_Kissel_no_Cascade T Z line E error) :=
  noabort_of_contract (C03.contract_CSb_FluorLine_Kissel_no_Cascade T Z line E error he own ho)
theorem no_ub_CS_FluorShell_Kissel_Radiative_Cascade : NoAbort (Gen.CS_FluorShell_Kissel_Radiative_Cascade T Z shell E error) :=
  noabort_of_contract (C03.contract_CS_FluorShell_Kissel_Radiative_Cascade T Z shell E error he own ho)
theorem no_ub_CSb_FluorShell_Kissel_Radiative_Cascade : NoAbort (Gen.CSb_FluorShell_Kissel_Radiative_Cascade T Z shell E error) :=
  noabort_of_contract (C03.contract_CSb_FluorShell_Kissel_Radiative_Cascade T Z shell E error he own ho)
theorem no_ub_CS_FluorLine_Kissel_Radiative_Cascade : NoAbort (Gen.CS_FluorLine_Kissel_Radiative_Cascade T Z line E error) :=
  noabort_of_contract (C03.contract_CS_FluorLine_Kissel_Radiative_Cascade T Z line E error he own ho)
theorem no_ub_CSb_FluorLine_Kissel_Radiative_Cascade : NoAbort (Gen.CSb_FluorLine_Kissel_Radiative_Cascade T Z line E error) :=
  noabort_of_contract (C03.contract_CSb_FluorLine_Kissel_Radiative_Cascade T Z line E error he own ho)
theorem no_ub_CS_FluorShell_Kissel_Nonradiative_Cascade : NoAbort (Gen.CS_FluorShell_Kissel_Nonradiative_Cascade T Z shell E error) :=
  noabort_of_contract (C03.contract_CS_FluorShell_Kissel_Nonradiative_Cascade T Z shell E error he own ho)
theorem no_ub_CSb_FluorShell_Kissel_Nonradiative_Cascade : NoAbort (Gen.CSb_FluorShell_Kissel_Nonradiative_Cascade T Z shell E error) :=
  noabort_of_contract (C03.contract_CSb_FluorShell_Kissel_Nonradiative_Cascade T Z shell E error he own ho)
theorem no_ub_CS_FluorLine_Kissel_Nonradiative_Cascade : NoAbort (Gen.CS_FluorLine_Kissel_Nonradiative_Cascade T Z line E error) :=
  noabort_of_contract (C03.contract_CS_FluorLine_Kissel_Nonradiative_Cascade T Z line E error he own ho)
theorem no_ub_CSb_FluorLine_Kissel_Nonradiative_Cascade : NoAbort (Gen.CSb_FluorLine_Kissel_Nonradiative_Cascade T Z line E error) :=
  noabort_of_contract (C03.contract_CSb_FluorLine_Kissel_Nonradiative_Cascade T Z line E error he own ho)
theorem no_ub_CS_FluorShell_Kissel_Cascade : NoAbort (Gen.CS_FluorShell_Kissel_Cascade T Z shell E error) :=
  noabort_of_contract (C03.contract_CS_FluorShell_Kissel_Cascade T Z shell E error he own ho)
theorem no_ub_CSb_FluorShell_Kissel_Cascade : NoAbort (Gen.CSb_FluorShell_Kissel_Cascade T Z shell E error) :=
  noabort_of_contract (C03.contract_CSb_FluorShell_Kissel_Cascade T Z shell E error he own ho)
theorem no_ub_CS_FluorLine_Kissel_Cascade : NoAbort (Gen.CS_FluorLine_Kissel_Cascade T Z line E error) :=
  noabort_of_contract (C03.contract_CS_FluorLine_Kissel_Cascade T Z line E error he own ho)
theorem no_ub_CSb_FluorLine_Kissel_Cascade : NoAbort (Gen.CSb_FluorLine_Kissel_Cascade T Z line E error) :=
  noabort_of_contract (C03.contract_CSb_FluorLine_Kissel_Cascade T Z line E error he own ho)
theorem no_ub_CS_FluorShell_Kissel : NoAbort (Gen.CS_FluorShell_Kissel T Z shell E error) :=
  noabort_of_contract (C03.contract_CS_FluorShell_Kissel T Z shell E error he own ho)
theorem no_ub_CSb_FluorShell_Kissel : NoAbort (Gen.CSb_FluorShell_Kissel T Z shell E error) :=
  noabort_of_contract (C03.contract_CSb_FluorShell_Kissel T Z shell E error he own ho)
theorem no_ub_CS_FluorLine_Kissel : NoAbort (Gen.CS_FluorLine_Kissel T Z line E error) :=
  noabort_of_contract (C03.contract_CS_FluorLine_Kissel T Z line E error he own ho)
theorem no_ub_CSb_FluorLine_Kissel : NoAbort (Gen.CSb_FluorLine_Kissel T Z line E error) :=
  noabort_of_contract (C03.contract_CSb_FluorLine_Kissel T Z line E error he own ho)

end fluor

end C04
end Xrl
