import Xrl.Props.C05b
import Xrl.Props.C02b
import Xrl.Lemmas.Loops
/-!
# C05 — third part: the Kissel photo sums

* `photo_total_eq` : `CSb_Photo_Total` = Σ over the occupied sub-shells of occupancy × `CSb_Photo_Partial`, an error when
  nothing contributes ("the Kissel total, whose photo part equals the occupancy-weighted sum of the sub-shell cross
  sections");
* `cs_photo_partial_eq` : `CS_Photo_Partial` = `CSb_Photo_Partial` × occupancy × N_A / A;
* `cs_photo_total_eq'`, `cs_total_kissel_eq'`, `barn_twin_CSb_Total_Kissel'` : the theorems of Props/C05b with that sum
  as the expectation for `CSb_Photo_Total`.
-/
namespace Xrl
namespace C05
open Spec KN

set_option linter.unusedSimpArgs false
set_option linter.unusedVariables false
set_option maxRecDepth 16384

variable (T : Tables ℝ) (Z shell : Int) (E : ℝ) (error : Slot)

theorem foldlM_ok {σ : Type} (ks : List Nat) (f : σ → Nat → M σ) (g : σ → Nat → σ)
    (h : ∀ k ∈ ks, ∀ s, f s k = Except.ok (g s k)) (s0 : σ) : ks.foldlM f s0 = Except.ok (ks.foldl g s0) := by
  induction ks generalizing s0 with
  | nil => rfl
  | cons k ks ih =>
    simp only [List.foldlM_cons, List.foldl_cons, h k (List.mem_cons_self ..), bind_ok]
    exact ih (fun k' hk' => h k' (List.mem_cons_of_mem _ hk')) _

theorem CSb_Photo_Partial_ne_any : Spec.CSb_Photo_Partial T Z shell E ≠ .any := by
  unfold Spec.CSb_Photo_Partial
  split_ifs
  · simp
  · exact interp_ne_any
  · simp

/-- a partial cross section that is defined is positive (it is an exponential) -/
theorem CSb_Photo_Partial_pos {b : ℝ} (h : Spec.CSb_Photo_Partial T Z shell E = .value b) : 0 < b := by
  unfold Spec.CSb_Photo_Partial at h
  split_ifs at h with h1 h2
  · injection h with h; rw [← h]; unfold kisselExtension; exact Real.exp_pos _
  · exact interp_exp_pos h

theorem CSb_Photo_Partial_guard {b : ℝ} (h : Spec.CSb_Photo_Partial T Z shell E = .value b) :
    kisselGuard T Z shell E = true := by
  unfold Spec.CSb_Photo_Partial at h
  split_ifs at h with h1 h2
  · exact h1
  · exact h1

/-- what `CSb_Photo_Partial(Z, shell, E, NULL)` contributes to a sum: its value, or 0 -/
theorem partial_null (hs : kisselGuard T Z shell E = true → kisselShapeB T Z shell = true) :
    ∃ s', Gen.CSb_Photo_Partial T Z shell E Slot.null = Except.ok (valOr0 (Spec.CSb_Photo_Partial T Z shell E), s') := by
  have m := C02.site_spec_CSb_Photo_Partial_of T Z shell E Slot.null rfl hs
  rcases Meets.cases m with ⟨v, hv, r⟩ | ⟨hf, e, _, _, r⟩ | hany
  · exact ⟨_, by rw [r, hv]; rfl⟩
  · refine ⟨Slot.null.withErr e, ?_⟩; rw [r, hf]; simp only [valOr0]; norm_num
  · exact absurd hany (CSb_Photo_Partial_ne_any T Z shell E)

theorem photo_loop (hZ : 0 ≤ Z ∧ Z < 121) (hs : ∀ s : Nat, s < 28 → kisselShapeB T Z (s : Int) = true) :
    loopM (0 : Int) (31 : Int) (0.0 : ℝ) (fun shell st_3_in => do
          let a_4 ← rd2 "Electron_Config_Kissel" 121 31 T.Electron_Config_Kissel Z shell
          if (1.0e-6 : ℝ) < a_4 then do
            let r_5 ← Gen.CSb_Photo_Partial T Z shell E Slot.null
            let a_6 ← rd2 "Electron_Config_Kissel" 121 31 T.Electron_Config_Kissel Z shell
            Except.ok (st_3_in + r_5.1 * a_6)
          else Except.ok st_3_in) = Except.ok (photoSum T Z E) := by
  rw [loopM_unroll]
  have e31 : ((31 : Int) - 0).toNat = 31 := rfl
  rw [e31]
  unfold photoSum
  have e31' : Hdr.SHELLNUM_K.toNat = 31 := rfl
  rw [e31']
  apply foldlM_ok
  intro k hk s
  have hk' : k < 31 := List.mem_range.1 hk
  have e0 : (0 : Int) + (k : Int) = (k : Int) := by omega
  rw [e0]
  have r2 : rd2 "Electron_Config_Kissel" 121 31 T.Electron_Config_Kissel Z (k : Int) =
      Except.ok (T.Electron_Config_Kissel Z.toNat k) := by
    rw [C02.rd2_ok' _ 31 _ hZ (by omega)]; rfl
  obtain ⟨s', hp⟩ := partial_null T Z (k : Int) E (fun hg => by
    have := ((C02.kisselGuard_iff T Z (k : Int) E).1 hg).2.1
    exact hs k (by omega))
  simp only [r2, bind_ok, hp, pure_eq_ok]
  split_ifs <;> rfl

section
variable (he : error.isFull = false)
include he

/-- **CSb_Photo_Total = Σ_{occupied sub-shells} occupancy · CSb_Photo_Partial**, failing when the sum is 0 (no sub-shell
of the element is excited at `E`) — the photo part of the Kissel total -/
theorem photo_total_eq (hs : ∀ s : Nat, s < 28 → kisselShapeB T Z (s : Int) = true) :
    Meets (Gen.CSb_Photo_Total T Z E error) error (Spec.CSb_Photo_Total T Z E) := by
  unfold Gen.CSb_Photo_Total
  by_cases hZ : Z < 1 ∨ Z > 120
  · have hspec : Spec.CSb_Photo_Total T Z E = .fails := by
      unfold Spec.CSb_Photo_Total
      exact if_neg (fun h => by have := (zOk_iff Z).1 h.1; omega)
    simp only [hZ, if_true, pure_eq_ok, bind_ok, setErr_notFull he, hspec, Meets]
    exact fails_mk' (by decide) (by decide)
  · have hb : 0 ≤ Z ∧ Z < 121 := by omega
    have hz : zOk Z = true := (zOk_iff Z).2 (by omega)
    simp only [hZ, if_false, rd1_ok _ _ hb, pure_eq_ok, bind_ok]
    by_cases hN : T.NE_Photo_Total_Kissel Z.toNat < 0
    · have hspec : Spec.CSb_Photo_Total T Z E = .fails := by
        unfold Spec.CSb_Photo_Total
        exact if_neg (fun h => by have := h.2.1; omega)
      simp only [hN, decide_true, if_true, bind_ok, setErr_notFull he, hspec, Meets]
      exact fails_mk' (by decide) (by decide)
    · by_cases hE : E ≤ (0.0 : ℝ)
      · have hspec : Spec.CSb_Photo_Total T Z E = .fails := by
          unfold Spec.CSb_Photo_Total
          exact if_neg (fun h => absurd h.2.2.1 (not_lt.2 hE))
        simp only [hN, decide_false, Bool.false_eq_true, if_false, hE, if_true, bind_ok, setErr_notFull he, hspec, Meets]
        exact fails_mk' (by decide) (by decide)
      · simp only [hN, decide_false, Bool.false_eq_true, if_false, hE, photo_loop T Z E hb hs, bind_ok]
        by_cases h0 : photoSum T Z E = (0.0 : ℝ)
        · have hspec : Spec.CSb_Photo_Total T Z E = .fails := by
            unfold Spec.CSb_Photo_Total
            exact if_neg (fun h => h.2.2.2 ((deq_real _ _).2 h0))
          simp only [deq_real, h0, if_true, bind_ok, setErr_notFull he, hspec, Meets]
          exact fails_mk' (by decide) (by decide)
        · have hspec : Spec.CSb_Photo_Total T Z E = .value (photoSum T Z E) := by
            unfold Spec.CSb_Photo_Total
            exact if_pos ⟨hz, by omega, not_le.1 hE, fun h => h0 ((deq_real _ _).1 h)⟩
          simp only [deq_real, h0, if_false, hspec, Meets, Returns]

omit he in
theorem CSb_Photo_Total_pos {v : ℝ} (h : Spec.CSb_Photo_Total T Z E = .value v) : v ≠ 0 := by
  unfold Spec.CSb_Photo_Total at h
  split_ifs at h with hc
  injection h with h
  rw [← h]
  intro h0
  exact hc.2.2.2 ((deq_real _ _).2 (by rw [h0]; norm_num))

omit he in
theorem CSb_Photo_Total_ne_any : Spec.CSb_Photo_Total T Z E ≠ .any := by
  unfold Spec.CSb_Photo_Total; split_ifs <;> simp

omit he in
theorem CSb_Photo_Total_guard {v : ℝ} (h : Spec.CSb_Photo_Total T Z E = .value v) :
    zOk Z = true ∧ 0 ≤ T.NE_Photo_Total_Kissel Z.toNat := by
  unfold Spec.CSb_Photo_Total at h
  split_ifs at h with hc
  exact ⟨hc.1, hc.2.1⟩

omit he in
theorem hW_kissel' (h : weightOkB T (decide (0 ≤ T.NE_Photo_Total_Kissel Z.toNat)) Z = true) :
    ∀ v, Spec.CSb_Photo_Total T Z E = .value v → Spec.AtomicWeight T Z ≠ .fails := by
  intro v hv
  obtain ⟨hz, hn⟩ := CSb_Photo_Total_guard T Z E hv
  exact aw_of_weightOk T Z h hz (decide_eq_true hn)

/-- **CS_Photo_Total = CSb_Photo_Total · N_A / A** with the occupancy-weighted sum as the barn value -/
theorem cs_photo_total_eq' (hs : ∀ s : Nat, s < 28 → kisselShapeB T Z (s : Int) = true)
    (hW : ∀ v, Spec.CSb_Photo_Total T Z E = .value v → Spec.AtomicWeight T Z ≠ .fails) :
    Meets (Gen.CS_Photo_Total T Z E error) error (Spec.CS_Photo_Total T Z E) :=
  cs_photo_total_eq T Z E error he _ (photo_total_eq T Z E error he hs)
    (fun v hv => CSb_Photo_Total_pos T Z E hv) (CSb_Photo_Total_ne_any T Z E) hW

/-- **CS_Total_Kissel = CS_Photo_Total + CS_Rayl + CS_Compt** -/
theorem cs_total_kissel_eq' (hs : ∀ s : Nat, s < 28 → kisselShapeB T Z (s : Int) = true)
    (hR : vecOkB (T.E_Rayl_arr Z.toNat) (T.CS_Rayl_arr Z.toNat) (T.CS_Rayl_arr2 Z.toNat) (T.NE_Rayl Z.toNat) = true)
    (hC : vecOkB (T.E_Compt_arr Z.toNat) (T.CS_Compt_arr Z.toNat) (T.CS_Compt_arr2 Z.toNat) (T.NE_Compt Z.toNat) = true)
    (hW : ∀ v, Spec.CSb_Photo_Total T Z E = .value v → Spec.AtomicWeight T Z ≠ .fails) :
    Meets (Gen.CS_Total_Kissel T Z E error) error (Spec.CS_Total_Kissel T Z E) :=
  cs_total_kissel_eq T Z E error he _ (photo_total_eq T Z E error he hs)
    (fun v hv => CSb_Photo_Total_pos T Z E hv) (CSb_Photo_Total_ne_any T Z E) hR hC hW

/-- **CSb_Total_Kissel = CS_Total_Kissel · A / N_A** -/
theorem barn_twin_CSb_Total_Kissel' (hs : ∀ s : Nat, s < 28 → kisselShapeB T Z (s : Int) = true)
    (hR : vecOkB (T.E_Rayl_arr Z.toNat) (T.CS_Rayl_arr Z.toNat) (T.CS_Rayl_arr2 Z.toNat) (T.NE_Rayl Z.toNat) = true)
    (hC : vecOkB (T.E_Compt_arr Z.toNat) (T.CS_Compt_arr Z.toNat) (T.CS_Compt_arr2 Z.toNat) (T.NE_Compt Z.toNat) = true)
    (hW : ∀ v, Spec.CSb_Photo_Total T Z E = .value v → Spec.AtomicWeight T Z ≠ .fails) :
    Meets (Gen.CSb_Total_Kissel T Z E error) error (Spec.CSb_Total_Kissel T Z E) :=
  barn_twin_CSb_Total_Kissel T Z E error he _ (photo_total_eq T Z E error he hs)
    (fun v hv => CSb_Photo_Total_pos T Z E hv) (CSb_Photo_Total_ne_any T Z E) hR hC hW

/-- **CS_Photo_Partial = CSb_Photo_Partial · occupancy · N_A / A** (kissel_pe.c:178; the weight is read from
`AtomicWeight_arr` unchecked, hence `hW`) -/
theorem cs_photo_partial_eq (hs : kisselShapeB T Z shell = true)
    (hW : ∀ b, Spec.CSb_Photo_Partial T Z shell E = .value b → Spec.AtomicWeight T Z ≠ .fails) :
    Meets (Gen.CS_Photo_Partial T Z shell E error) error (Spec.CS_Photo_Partial T Z shell E) := by
  have m := C02.site_spec_CSb_Photo_Partial T Z shell E error he hs
  unfold Gen.CS_Photo_Partial Spec.CS_Photo_Partial
  rcases Meets.cases m with ⟨b, hb, r⟩ | ⟨hf, e, h1, h2, r⟩ | hany
  · have hb0 : ¬ b = (0.0 : ℝ) := by rw [lit0]; exact (CSb_Photo_Partial_pos T Z shell E hb).ne'
    obtain ⟨hZ, hsh, _⟩ := (C02.kisselGuard_iff T Z shell E).1 (CSb_Photo_Partial_guard T Z shell E hb)
    rcases aw_cases T Z with ⟨a, ha⟩ | ha
    · obtain ⟨_, haa, hp⟩ := aw_value ha
      have ha0 : ¬ T.AtomicWeight_arr Z.toNat = (0.0 : ℝ) := by rw [← haa, lit0]; exact hp.ne'
      simp only [r, bind_ok, deq_real, hb0, if_false, C02.rd2_ok' _ 31 _ (show 0 ≤ Z ∧ Z < 121 by omega)
        (show 0 ≤ shell ∧ shell < (31 : Nat) by omega), rd1_ok _ _ (show 0 ≤ Z ∧ Z < 121 by omega), ddiv, ha0,
        pure_eq_ok, hb, ha, Meets, Returns, Hdr.AVOGNUM, haa]
    · exact absurd ha (hW b hb)
  · simp only [r, bind_ok, deq_real, eq_true zero_eq_lit, if_true, pure_eq_ok, hf, Meets]
    exact ⟨e, h1, h2, rfl⟩
  · exact absurd hany (CSb_Photo_Partial_ne_any T Z shell E)

end

/-! ## where the code leaves the text: Kissel data but no atomic weight

`return cs * AVOGNUM / AtomicWeight_arr[Z];` (kissel_pe.c:89, :178): the table cell is the divisor, unchecked. -/

theorem cs_photo_total_div0 {v : ℝ} (hb : Gen.CSb_Photo_Total T Z E error = Except.ok (v, error)) (hv : v ≠ 0)
    (hZ : 0 ≤ Z ∧ Z < 121) (ha : T.AtomicWeight_arr Z.toNat = 0) :
    Gen.CS_Photo_Total T Z E error = Except.error (Abort.nf "div0") := by
  unfold Gen.CS_Photo_Total
  have hv' : ¬ v = (0.0 : ℝ) := by rw [lit0]; exact hv
  simp only [hb, bind_ok, deq_real, hv', if_false, rd1_ok _ _ hZ, ha]
  rw [← lit0, ddiv_zero]; rfl

theorem cs_total_kissel_div0 {v : ℝ} (hb : Gen.CSb_Photo_Total T Z E error = Except.ok (v, error)) (hv : v ≠ 0)
    (he : error.isFull = false) (ha : T.AtomicWeight_arr Z.toNat = 0)
    (hR : ¬ T.NE_Rayl Z.toNat < 0) (hC : ¬ T.NE_Compt Z.toNat < 0) :
    Gen.CS_Total_Kissel T Z E error = Except.error (Abort.nf "div0") := by
  obtain ⟨hZ, hN, hE⟩ := csb_photo_total_guard T Z E error he hb hv
  have hZ' : 0 ≤ Z ∧ Z < 121 := by omega
  have r3 : List.range 3 = [0, 1, 2] := by decide
  unfold Gen.CS_Total_Kissel
  simp only [hZ, if_false, rd1_ok _ _ hZ', pure_eq_ok, bind_ok, hN, hR, hC, decide_false, Bool.false_eq_true, hE,
    loopCtlM, Int.sub_zero, Int.reduceToNat, r3, loopCtlGo, Nat.cast_zero, Int.add_zero, ↓reduceIte,
    cs_photo_total_div0 T Z E error hb hv hZ' ha, bind_error]

def cs_photo_total_full : Prop :=
  ∀ (T : Tables ℝ) (Z : Int) (E : ℝ) (error : Slot), error.isFull = false →
    (∀ s : Nat, s < 28 → kisselShapeB T Z (s : Int) = true) →
    Meets (Gen.CS_Photo_Total T Z E error) error (Spec.CS_Photo_Total T Z E)

def cs_total_kissel_full : Prop :=
  ∀ (T : Tables ℝ) (Z : Int) (E : ℝ) (error : Slot), error.isFull = false →
    (∀ s : Nat, s < 28 → kisselShapeB T Z (s : Int) = true) →
    vecOkB (T.E_Rayl_arr Z.toNat) (T.CS_Rayl_arr Z.toNat) (T.CS_Rayl_arr2 Z.toNat) (T.NE_Rayl Z.toNat) = true →
    vecOkB (T.E_Compt_arr Z.toNat) (T.CS_Compt_arr Z.toNat) (T.CS_Compt_arr2 Z.toNat) (T.NE_Compt Z.toNat) = true →
    Meets (Gen.CS_Total_Kissel T Z E error) error (Spec.CS_Total_Kissel T Z E)

/-! ## concrete instance: `C02.witK aw`, Z = 1, E = 1 keV

K shell with 2 electrons and partial cross section `e³` barn at 1 keV; Rayleigh and Compton `e³` cm²/g. -/
section witness
open C02

theorem foldl_id_of {β : Type} (f : β → Nat → β) (l : List Nat) (h : ∀ k ∈ l, ∀ s, f s k = s) (s0 : β) :
    l.foldl f s0 = s0 := by
  induction l with
  | nil => rfl
  | cons k ks ih =>
    rw [List.foldl_cons, h k (List.mem_cons_self ..)]
    exact ih (fun k' hk' => h k' (List.mem_cons_of_mem _ hk'))

theorem wit_partial (aw : ℝ) : Spec.CSb_Photo_Partial (witK aw) 1 0 1 = .value (Real.exp 3) := by
  rw [kissel_at_knot (witK aw) 1 0 1 (witK_guard aw 1 (by norm_num)) (witK_shape aw 0) 1 (le_refl _)
    (by show 1 < (2 : Int).toNat; decide)
    (by show Real.log 1 = knot knots01 1; simp [knot, knots01])
    (by show knot knots01 1 < knot knots01 (1 + 1); simp [knot, knots01])]
  have e : knot ((witK aw).Photo_Partial_Kissel (1 : Int).toNat (0 : Int).toNat) 1 = 3 := by
    show knot ys35 1 = 3; simp [knot, ys35]
  rw [e]

theorem wit_photoSum (aw : ℝ) : photoSum (witK aw) 1 1 = 0.0 + Real.exp 3 * 2 := by
  unfold photoSum
  rw [show Hdr.SHELLNUM_K.toNat = 30 + 1 from rfl, List.range_succ_eq_map, List.foldl_cons, foldl_id_of]
  · have h0 : (1.0e-6 : ℝ) < (witK aw).Electron_Config_Kissel (1 : Int).toNat 0 := by
      show (1.0e-6 : ℝ) < 2; norm_num
    rw [if_pos h0]
    show 0.0 + valOr0 (Spec.CSb_Photo_Partial (witK aw) 1 0 1) * 2 = _
    rw [wit_partial]; rfl
  · intro k hk s
    obtain ⟨j, _, rfl⟩ := List.mem_map.1 hk
    have h0 : ¬ (1.0e-6 : ℝ) < (witK aw).Electron_Config_Kissel (1 : Int).toNat (j + 1) := by
      show ¬ (1.0e-6 : ℝ) < (if j + 1 = 0 then 2 else 0)
      rw [if_neg (by omega)]; norm_num
    rw [if_neg h0]

theorem wit_sum_pos : (0.0 : ℝ) + Real.exp 3 * 2 ≠ 0 := by
  have := Real.exp_pos 3
  norm_num

theorem wit_CSb_Photo_Total (aw : ℝ) : Spec.CSb_Photo_Total (witK aw) 1 1 = .value (0.0 + Real.exp 3 * 2) := by
  unfold Spec.CSb_Photo_Total
  rw [wit_photoSum, if_pos]
  refine ⟨(zOk_iff 1).2 (by omega), by show (0 : Int) ≤ 1; omega, by norm_num, ?_⟩
  rw [deq_real]; intro h; exact wit_sum_pos (h.trans lit0)

theorem wit_vecL : vecOkB knotsL ys35 zeros2 2 = true := by
  simp [vecOkB, knotsL, ys35, zeros2, knot]

theorem wit_sortedL : SortedKnots knotsL 2 := by
  rcases vecOkB_spec _ _ _ _ wit_vecL with h | ⟨_, _, _, _, h⟩
  · omega
  · exact h

theorem wit_splineL : spline knotsL ys35 zeros2 2 (Real.log ((1 : ℝ) * 1000.0)) = some 3 := by
  have h := spline_at_knot knotsL ys35 zeros2 2 wit_sortedL 1 (le_refl _) (by omega) (by simp [knot, knotsL])
  have e : Real.log ((1 : ℝ) * 1000.0) = knot knotsL 1 := by norm_num [knot, knotsL]
  rw [e, h]; simp [knot, ys35]

theorem wit_CS_Rayl (aw : ℝ) : Spec.CS_Rayl (witK aw) 1 1 = .value (Real.exp 3) := by
  unfold Spec.CS_Rayl interp
  have hg : (zOk 1 && decide (0 ≤ (witK aw).NE_Rayl (1 : Int).toNat) && decide ((0.0 : ℝ) < 1)) = true := by
    rw [(zOk_iff 1).2 (by omega)]
    have : decide ((0.0 : ℝ) < 1) = true := decide_eq_true (by norm_num)
    rw [this]; rfl
  rw [if_pos hg]
  have hsp : spline ((witK aw).E_Rayl_arr (1 : Int).toNat) ((witK aw).CS_Rayl_arr (1 : Int).toNat)
      ((witK aw).CS_Rayl_arr2 (1 : Int).toNat) ((witK aw).NE_Rayl (1 : Int).toNat).toNat
      (XNum.log ((1 : ℝ) * 1000.0)) = some 3 := wit_splineL
  rw [hsp]; rfl

theorem wit_CS_Compt (aw : ℝ) : Spec.CS_Compt (witK aw) 1 1 = .value (Real.exp 3) := by
  unfold Spec.CS_Compt interp
  have hg : (zOk 1 && decide (0 ≤ (witK aw).NE_Compt (1 : Int).toNat) && decide ((0.0 : ℝ) < 1)) = true := by
    rw [(zOk_iff 1).2 (by omega)]
    have : decide ((0.0 : ℝ) < 1) = true := decide_eq_true (by norm_num)
    rw [this]; rfl
  rw [if_pos hg]
  have hsp : spline ((witK aw).E_Compt_arr (1 : Int).toNat) ((witK aw).CS_Compt_arr (1 : Int).toNat)
      ((witK aw).CS_Compt_arr2 (1 : Int).toNat) ((witK aw).NE_Compt (1 : Int).toNat).toNat
      (XNum.log ((1 : ℝ) * 1000.0)) = some 3 := wit_splineL
  rw [hsp]; rfl

theorem wit_aw2 : Spec.AtomicWeight (witK 2) 1 = .value 2 := by
  unfold Spec.AtomicWeight lookup1
  have : (0.0 : ℝ) < (witK 2).AtomicWeight_arr (1 : Int).toNat := by show (0.0 : ℝ) < 2; norm_num
  rw [if_pos ⟨(zOk_iff 1).2 (by omega), this⟩]; rfl

theorem wit_hW : ∀ v : ℝ, Spec.CSb_Photo_Total (witK 2) 1 1 = .value v → Spec.AtomicWeight (witK 2) 1 ≠ .fails := by
  intro v _; rw [wit_aw2]; simp

/-- the photo sum on the instance: 2 K electrons × e³ barn -/
example : Meets (Gen.CSb_Photo_Total (witK 2) 1 1 Slot.empty) Slot.empty (.value (0.0 + Real.exp 3 * 2)) := by
  have := photo_total_eq (witK 2) 1 1 Slot.empty rfl (fun s _ => witK_shape 2 s)
  rwa [wit_CSb_Photo_Total] at this

/-- below every edge of the element (0.25 keV < 0.5 keV) nothing contributes: an error, not 0 -/
example : Fails (Gen.CSb_Photo_Total (witK 2) 1 (1 / 4) Slot.empty) Slot.empty := by
  have := photo_total_eq (witK 2) 1 (1 / 4) Slot.empty rfl (fun s _ => witK_shape 2 s)
  have hs : photoSum (witK 2) 1 (1 / 4) = 0.0 := by
    unfold photoSum
    apply foldl_id_of
    intro k _ s
    have : Spec.CSb_Photo_Partial (witK 2) 1 (k : Int) (1 / 4) = .fails :=
      kissel_below_edge_fails (witK 2) 1 k (1 / 4) (by show (1 / 4 : ℝ) < 1 / 2; norm_num)
    rw [this]; simp only [valOr0]; split_ifs <;> norm_num
  have hf : Spec.CSb_Photo_Total (witK 2) 1 (1 / 4) = .fails := by
    unfold Spec.CSb_Photo_Total
    exact if_neg (fun h => h.2.2.2 ((deq_real _ _).2 hs))
  rwa [hf] at this

example : Meets (Gen.CS_Photo_Total (witK 2) 1 1 Slot.empty) Slot.empty
    (.value ((0.0 + Real.exp 3 * 2) * Hdr.AVOGNUM / 2)) := by
  have := cs_photo_total_eq' (witK 2) 1 1 Slot.empty rfl (fun s _ => witK_shape 2 s) wit_hW
  unfold Spec.CS_Photo_Total Spec.CS_Photo_Total_of at this
  rwa [wit_CSb_Photo_Total, wit_aw2] at this

/-- the Kissel total on the instance: photo + Rayleigh + Compton -/
example : Meets (Gen.CS_Total_Kissel (witK 2) 1 1 Slot.null) Slot.null
    (.value ((0.0 + Real.exp 3 * 2) * Hdr.AVOGNUM / 2 + Real.exp 3 + Real.exp 3)) := by
  have := cs_total_kissel_eq' (witK 2) 1 1 Slot.null rfl (fun s _ => witK_shape 2 s) wit_vecL wit_vecL wit_hW
  unfold Spec.CS_Total_Kissel Spec.CS_Total_Kissel_of Spec.CS_Photo_Total_of at this
  rwa [wit_CSb_Photo_Total, wit_aw2, wit_CS_Rayl, wit_CS_Compt] at this

example : Meets (Gen.CSb_Total_Kissel (witK 2) 1 1 Slot.empty) Slot.empty
    (.value (((0.0 + Real.exp 3 * 2) * Hdr.AVOGNUM / 2 + Real.exp 3 + Real.exp 3) * 2 / Hdr.AVOGNUM)) := by
  have := barn_twin_CSb_Total_Kissel' (witK 2) 1 1 Slot.empty rfl (fun s _ => witK_shape 2 s) wit_vecL wit_vecL wit_hW
  unfold Spec.CSb_Total_Kissel Spec.CSb_Total_Kissel_of Spec.CS_Total_Kissel_of Spec.CS_Photo_Total_of at this
  rwa [wit_CSb_Photo_Total, wit_aw2, wit_CS_Rayl, wit_CS_Compt] at this

example : Meets (Gen.CS_Photo_Partial (witK 2) 1 0 1 Slot.empty) Slot.empty
    (.value (Real.exp 3 * 2 * Hdr.AVOGNUM / 2)) := by
  have := cs_photo_partial_eq (witK 2) 1 0 1 Slot.empty rfl (witK_shape 2 0) (fun _ _ => by rw [wit_aw2]; simp)
  unfold Spec.CS_Photo_Partial at this
  rw [wit_partial, wit_aw2] at this
  exact this

/-! ### the full statements are false on the same element without a weight (`witK 0`) -/

theorem wit_gen_total : Gen.CSb_Photo_Total (witK 0) 1 1 Slot.empty = Except.ok (0.0 + Real.exp 3 * 2, Slot.empty) := by
  have := photo_total_eq (witK 0) 1 1 Slot.empty rfl (fun s _ => witK_shape 0 s)
  rwa [wit_CSb_Photo_Total] at this

theorem cs_photo_total_full_fails : ¬ cs_photo_total_full := fun h =>
  not_meets_error Slot.empty _ (Spec.CS_Photo_Total (witK 0) 1 1)
    (by unfold Spec.CS_Photo_Total Spec.CS_Photo_Total_of; exact toCm2g_ne_any)
    (by have := h (witK 0) 1 1 Slot.empty rfl (fun s _ => witK_shape 0 s)
        rwa [cs_photo_total_div0 (witK 0) 1 1 Slot.empty wit_gen_total wit_sum_pos (by omega) rfl] at this)

theorem cs_total_kissel_full_fails : ¬ cs_total_kissel_full := fun h =>
  not_meets_error Slot.empty _ (Spec.CS_Total_Kissel (witK 0) 1 1)
    (by unfold Spec.CS_Total_Kissel Spec.CS_Total_Kissel_of; exact add3_ne_any)
    (by have := h (witK 0) 1 1 Slot.empty rfl (fun s _ => witK_shape 0 s) wit_vecL wit_vecL
        rwa [cs_total_kissel_div0 (witK 0) 1 1 Slot.empty wit_gen_total wit_sum_pos rfl rfl
          (by show ¬ (2 : Int) < 0; omega) (by show ¬ (2 : Int) < 0; omega)] at this)

end witness

end C05
end Xrl
