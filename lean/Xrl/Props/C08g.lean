import Xrl.Props.C08f
/-!
# C08 — part 2f: the hypotheses of the theorems are satisfiable

`T1 T w` : any table `T` with the Kissel part replaced by a small synthetic one in which `CS_Photo_Partial(Z, t, 1 keV)`
is computed by the low-energy extrapolation branch and returns the VALUE `0.602214129 / w` for every element and
sub-shell K…Q3 (`own1`); fluorescence yield 0.5, vacancyProd-transfer constants 1 (Auger only) and 2 (full).
So `OwnOK`, the bounds hypotheses and `0 ≤ auger-only ≤ full` hold together with values (not only vacuously), and
every theorem of C08b–C08f is instantiated once below.
-/
namespace Xrl
namespace C08
open Spec

set_option linter.unusedSimpArgs false
set_option linter.unusedVariables false
set_option maxRecDepth 16384

/-- a table in which every (element, sub-shell) is occupied by one electron, has its edge at 0.5 keV and a flat partial
cross section of 1 barn/electron tabulated at ln E = 1, 2; atomic weight `w` -/
noncomputable def T1 (T : Tables ℝ) (w : ℝ) : Tables ℝ :=
  { T with
    Electron_Config_Kissel := fun _ _ => 1
    EdgeEnergy_arr := fun _ _ => 0.5
    AtomicWeight_arr := fun _ => w
    FluorYield_arr := fun _ _ => 0.5
    E_Photo_Partial_Kissel := fun _ _ => ⟨2, fun k => (k : ℝ) + 1⟩
    Photo_Partial_Kissel := fun _ _ => ⟨2, fun _ => 0⟩
    xrf_cross_sections_constants_auger_only := fun _ _ _ => 1
    xrf_cross_sections_constants_full := fun _ _ _ => 2 }

noncomputable def c1 : ℝ := 0.602214129

noncomputable def own1 (Z t : Int) : Expect ℝ :=
  if 1 ≤ Z ∧ Z ≤ 120 ∧ 0 ≤ t ∧ t < 28 then .value c1 else .fails

theorem rd2_ok {β : Type} (name : String) (n m : Nat) (f : Nat → Nat → β) (i j : Int)
    (h : 0 ≤ i ∧ i < n ∧ 0 ≤ j ∧ j < m) : rd2 name n m f i j = Except.ok (f i.toNat j.toNat) := by
  unfold rd2; rw [if_pos h]; rfl

variable (T : Tables ℝ) (Z : Int) (error : Slot) (he : error.isFull = false)

/-- the barn/electron value of the synthetic table: 1, by the extrapolation branch (ln 1 = 0 < 1) -/
theorem csb_photo_partial_T1 (w : ℝ) (t : Int) (h : 1 ≤ Z ∧ Z ≤ 120 ∧ 0 ≤ t ∧ t < 28) :
    Gen.CSb_Photo_Partial (T1 T w) Z t 1 error = Except.ok (1, error) := by
  obtain ⟨h1, h2, h3, h4⟩ := h
  have hZ : ¬ (Z < 1 ∨ Z > 120) := by omega
  have hs : ¬ (t < 0 ∨ t ≥ 31) := by omega
  have hs' : ¬ t ≥ 28 := by omega
  have hE : ¬ (1 : ℝ) ≤ (0.0 : ℝ) := by norm_num
  unfold Gen.CSb_Photo_Partial
  simp only [hZ, hs, hs', hE, if_false, T1,
    rd2_ok _ 121 31 _ Z t (by push_cast; omega), rd2_ok _ 121 28 _ Z t (by push_cast; omega), bind_ok, pure_eq_ok]
  norm_num [dlog, ddiv, rdv, XNum.log, XNum.exp]

include he in
theorem cs_photo_partial_T1 (t : Int) : Meets (Gen.CS_Photo_Partial (T1 T 1) Z t 1 error) error (own1 Z t) := by
  unfold own1
  split_ifs with h
  · rw [cs_photo_partial_twin (T1 T 1) Z 1 error t 1 (csb_photo_partial_T1 T Z error 1 t h) one_ne_zero (by omega) (by omega)]
    simp only [T1, Meets, Returns, c1]
    norm_num
  · apply cs_photo_partial_fails (T1 T 1) Z 1 error t he
    unfold Gen.CSb_Photo_Partial
    by_cases hZ : Z < 1 ∨ Z > 120
    · simp only [hZ, ↓reduceIte, setErr_notFull he, bind_ok, pure_eq_ok]; exact fails_mk' (by decide) (by decide)
    · by_cases hs : t < 0 ∨ t ≥ 31
      · simp only [hZ, hs, ↓reduceIte, setErr_notFull he, bind_ok, pure_eq_ok]; exact fails_mk' (by decide) (by decide)
      · have hs' : t ≥ 28 := by omega
        have hE : ¬ (1 : ℝ) ≤ (0.0 : ℝ) := by norm_num
        simp only [hZ, hs, hs', hE, ↓reduceIte, setErr_notFull he, bind_ok, pure_eq_ok]
        exact fails_mk' (by decide) (by decide)

/-- `OwnOK` holds for the synthetic table, with values -/
theorem ownOK_T1 : OwnOK (T1 T 1) Z 1 (own1 Z) where
  meets := fun t error he => cs_photo_partial_T1 T Z error he t
  ne_any := fun t => by unfold own1; split_ifs <;> simp
  ne_zero := fun t o h => by
    unfold own1 at h; split_ifs at h
    injection h with h; rw [← h]; unfold c1; norm_num

example : own1 26 0 = .value c1 := by unfold own1; norm_num
example : own1 26 8 = .value c1 := by unfold own1; norm_num

/-- the division by a zero weight in `CS_Photo_Partial` is the outcome `nf`, not an error -/
example : Gen.CS_Photo_Partial (T1 T 0) 26 0 1 error = Except.error (Abort.nf "div0") := by
  rw [cs_photo_partial_twin (T1 T 0) 26 1 error 0 1 (csb_photo_partial_T1 T 26 error 0 0 (by norm_num)) one_ne_zero
    (by norm_num) (by norm_num)]
  simp [T1]

/-! ## C08b: the 32 vacancyProd functions, hypotheses discharged on the synthetic table (Fe, 1 keV, any `P`) -/

variable (P : Int → ℝ)
include he

example : Meets (Gen.PL1_pure_kissel (T1 T 1) 26 1 error) error (vacancyProd (T1 T 1) 26 1 .none P (own1 26 1)) :=
  vacancy_spec_L1_none (T1 T 1) 26 1 P error (own1 26 1) (cs_photo_partial_T1 T 26 error he 1) ((ownOK_T1 T 26).ne_any 1)
example : Meets (Gen.PL1_rad_cascade_kissel (T1 T 1) 26 1 (P 0) error) error (vacancyProd (T1 T 1) 26 1 .rad P (own1 26 1)) :=
  vacancy_spec_L1_rad (T1 T 1) 26 1 P error (own1 26 1) (cs_photo_partial_T1 T 26 error he 1) ((ownOK_T1 T 26).ne_any 1) ((ownOK_T1 T 26).ne_zero 1)
example : Meets (Gen.PL1_auger_cascade_kissel (T1 T 1) 26 1 (P 0) error) error (vacancyProd (T1 T 1) 26 1 .auger P (own1 26 1)) :=
  vacancy_spec_L1_auger (T1 T 1) 26 1 P error (own1 26 1) (cs_photo_partial_T1 T 26 error he 1) ((ownOK_T1 T 26).ne_any 1) ((ownOK_T1 T 26).ne_zero 1) (fun _ _ => by norm_num)
example : Meets (Gen.PL1_full_cascade_kissel (T1 T 1) 26 1 (P 0) error) error (vacancyProd (T1 T 1) 26 1 .full P (own1 26 1)) :=
  vacancy_spec_L1_full (T1 T 1) 26 1 P error (own1 26 1) (cs_photo_partial_T1 T 26 error he 1) ((ownOK_T1 T 26).ne_any 1) ((ownOK_T1 T 26).ne_zero 1) (fun _ _ => by norm_num)
example : Meets (Gen.PL2_pure_kissel (T1 T 1) 26 1 (P 1) error) error (vacancyProd (T1 T 1) 26 2 .none P (own1 26 2)) :=
  vacancy_spec_L2_none (T1 T 1) 26 1 P error (own1 26 2) (cs_photo_partial_T1 T 26 error he 2) ((ownOK_T1 T 26).ne_any 2) ((ownOK_T1 T 26).ne_zero 2)
example : Meets (Gen.PL2_rad_cascade_kissel (T1 T 1) 26 1 (P 0) (P 1) error) error (vacancyProd (T1 T 1) 26 2 .rad P (own1 26 2)) :=
  vacancy_spec_L2_rad (T1 T 1) 26 1 P error (own1 26 2) (cs_photo_partial_T1 T 26 error he 2) ((ownOK_T1 T 26).ne_any 2) ((ownOK_T1 T 26).ne_zero 2)
example : Meets (Gen.PL2_auger_cascade_kissel (T1 T 1) 26 1 (P 0) (P 1) error) error (vacancyProd (T1 T 1) 26 2 .auger P (own1 26 2)) :=
  vacancy_spec_L2_auger (T1 T 1) 26 1 P error (own1 26 2) (cs_photo_partial_T1 T 26 error he 2) ((ownOK_T1 T 26).ne_any 2) ((ownOK_T1 T 26).ne_zero 2) (fun _ _ => by norm_num)
example : Meets (Gen.PL2_full_cascade_kissel (T1 T 1) 26 1 (P 0) (P 1) error) error (vacancyProd (T1 T 1) 26 2 .full P (own1 26 2)) :=
  vacancy_spec_L2_full (T1 T 1) 26 1 P error (own1 26 2) (cs_photo_partial_T1 T 26 error he 2) ((ownOK_T1 T 26).ne_any 2) ((ownOK_T1 T 26).ne_zero 2) (fun _ _ => by norm_num)
example : Meets (Gen.PL3_pure_kissel (T1 T 1) 26 1 (P 1) (P 2) error) error (vacancyProd (T1 T 1) 26 3 .none P (own1 26 3)) :=
  vacancy_spec_L3_none (T1 T 1) 26 1 P error (own1 26 3) (cs_photo_partial_T1 T 26 error he 3) ((ownOK_T1 T 26).ne_any 3) ((ownOK_T1 T 26).ne_zero 3)
example : Meets (Gen.PL3_rad_cascade_kissel (T1 T 1) 26 1 (P 0) (P 1) (P 2) error) error (vacancyProd (T1 T 1) 26 3 .rad P (own1 26 3)) :=
  vacancy_spec_L3_rad (T1 T 1) 26 1 P error (own1 26 3) (cs_photo_partial_T1 T 26 error he 3) ((ownOK_T1 T 26).ne_any 3) ((ownOK_T1 T 26).ne_zero 3)
example : Meets (Gen.PL3_auger_cascade_kissel (T1 T 1) 26 1 (P 0) (P 1) (P 2) error) error (vacancyProd (T1 T 1) 26 3 .auger P (own1 26 3)) :=
  vacancy_spec_L3_auger (T1 T 1) 26 1 P error (own1 26 3) (cs_photo_partial_T1 T 26 error he 3) ((ownOK_T1 T 26).ne_any 3) ((ownOK_T1 T 26).ne_zero 3) (fun _ _ => by norm_num)
example : Meets (Gen.PL3_full_cascade_kissel (T1 T 1) 26 1 (P 0) (P 1) (P 2) error) error (vacancyProd (T1 T 1) 26 3 .full P (own1 26 3)) :=
  vacancy_spec_L3_full (T1 T 1) 26 1 P error (own1 26 3) (cs_photo_partial_T1 T 26 error he 3) ((ownOK_T1 T 26).ne_any 3) ((ownOK_T1 T 26).ne_zero 3) (fun _ _ => by norm_num)
example : Meets (Gen.PM1_pure_kissel (T1 T 1) 26 1 error) error (vacancyProd (T1 T 1) 26 4 .none P (own1 26 4)) :=
  vacancy_spec_M1_none (T1 T 1) 26 1 P error (own1 26 4) (cs_photo_partial_T1 T 26 error he 4) ((ownOK_T1 T 26).ne_any 4)
example : Meets (Gen.PM1_rad_cascade_kissel (T1 T 1) 26 1 (P 0) (P 1) (P 2) (P 3) error) error (vacancyProd (T1 T 1) 26 4 .rad P (own1 26 4)) :=
  vacancy_spec_M1_rad (T1 T 1) 26 1 P error (own1 26 4) (cs_photo_partial_T1 T 26 error he 4) ((ownOK_T1 T 26).ne_any 4) ((ownOK_T1 T 26).ne_zero 4)
example : Meets (Gen.PM1_auger_cascade_kissel (T1 T 1) 26 1 (P 0) (P 1) (P 2) (P 3) error) error (vacancyProd (T1 T 1) 26 4 .auger P (own1 26 4)) :=
  vacancy_spec_M1_auger (T1 T 1) 26 1 P error (own1 26 4) (cs_photo_partial_T1 T 26 error he 4) ((ownOK_T1 T 26).ne_any 4) ((ownOK_T1 T 26).ne_zero 4) (fun _ _ => by norm_num)
example : Meets (Gen.PM1_full_cascade_kissel (T1 T 1) 26 1 (P 0) (P 1) (P 2) (P 3) error) error (vacancyProd (T1 T 1) 26 4 .full P (own1 26 4)) :=
  vacancy_spec_M1_full (T1 T 1) 26 1 P error (own1 26 4) (cs_photo_partial_T1 T 26 error he 4) ((ownOK_T1 T 26).ne_any 4) ((ownOK_T1 T 26).ne_zero 4) (fun _ _ => by norm_num)
example : Meets (Gen.PM2_pure_kissel (T1 T 1) 26 1 (P 4) error) error (vacancyProd (T1 T 1) 26 5 .none P (own1 26 5)) :=
  vacancy_spec_M2_none (T1 T 1) 26 1 P error (own1 26 5) (cs_photo_partial_T1 T 26 error he 5) ((ownOK_T1 T 26).ne_any 5) ((ownOK_T1 T 26).ne_zero 5)
example : Meets (Gen.PM2_rad_cascade_kissel (T1 T 1) 26 1 (P 0) (P 1) (P 2) (P 3) (P 4) error) error (vacancyProd (T1 T 1) 26 5 .rad P (own1 26 5)) :=
  vacancy_spec_M2_rad (T1 T 1) 26 1 P error (own1 26 5) (cs_photo_partial_T1 T 26 error he 5) ((ownOK_T1 T 26).ne_any 5) ((ownOK_T1 T 26).ne_zero 5)
example : Meets (Gen.PM2_auger_cascade_kissel (T1 T 1) 26 1 (P 0) (P 1) (P 2) (P 3) (P 4) error) error (vacancyProd (T1 T 1) 26 5 .auger P (own1 26 5)) :=
  vacancy_spec_M2_auger (T1 T 1) 26 1 P error (own1 26 5) (cs_photo_partial_T1 T 26 error he 5) ((ownOK_T1 T 26).ne_any 5) ((ownOK_T1 T 26).ne_zero 5) (fun _ _ => by norm_num)
example : Meets (Gen.PM2_full_cascade_kissel (T1 T 1) 26 1 (P 0) (P 1) (P 2) (P 3) (P 4) error) error (vacancyProd (T1 T 1) 26 5 .full P (own1 26 5)) :=
  vacancy_spec_M2_full (T1 T 1) 26 1 P error (own1 26 5) (cs_photo_partial_T1 T 26 error he 5) ((ownOK_T1 T 26).ne_any 5) ((ownOK_T1 T 26).ne_zero 5) (fun _ _ => by norm_num)
example : Meets (Gen.PM3_pure_kissel (T1 T 1) 26 1 (P 4) (P 5) error) error (vacancyProd (T1 T 1) 26 6 .none P (own1 26 6)) :=
  vacancy_spec_M3_none (T1 T 1) 26 1 P error (own1 26 6) (cs_photo_partial_T1 T 26 error he 6) ((ownOK_T1 T 26).ne_any 6) ((ownOK_T1 T 26).ne_zero 6)
example : Meets (Gen.PM3_rad_cascade_kissel (T1 T 1) 26 1 (P 0) (P 1) (P 2) (P 3) (P 4) (P 5) error) error (vacancyProd (T1 T 1) 26 6 .rad P (own1 26 6)) :=
  vacancy_spec_M3_rad (T1 T 1) 26 1 P error (own1 26 6) (cs_photo_partial_T1 T 26 error he 6) ((ownOK_T1 T 26).ne_any 6) ((ownOK_T1 T 26).ne_zero 6)
example : Meets (Gen.PM3_auger_cascade_kissel (T1 T 1) 26 1 (P 0) (P 1) (P 2) (P 3) (P 4) (P 5) error) error (vacancyProd (T1 T 1) 26 6 .auger P (own1 26 6)) :=
  vacancy_spec_M3_auger (T1 T 1) 26 1 P error (own1 26 6) (cs_photo_partial_T1 T 26 error he 6) ((ownOK_T1 T 26).ne_any 6) ((ownOK_T1 T 26).ne_zero 6) (fun _ _ => by norm_num)
example : Meets (Gen.PM3_full_cascade_kissel (T1 T 1) 26 1 (P 0) (P 1) (P 2) (P 3) (P 4) (P 5) error) error (vacancyProd (T1 T 1) 26 6 .full P (own1 26 6)) :=
  vacancy_spec_M3_full (T1 T 1) 26 1 P error (own1 26 6) (cs_photo_partial_T1 T 26 error he 6) ((ownOK_T1 T 26).ne_any 6) ((ownOK_T1 T 26).ne_zero 6) (fun _ _ => by norm_num)
example : Meets (Gen.PM4_pure_kissel (T1 T 1) 26 1 (P 4) (P 5) (P 6) error) error (vacancyProd (T1 T 1) 26 7 .none P (own1 26 7)) :=
  vacancy_spec_M4_none (T1 T 1) 26 1 P error (own1 26 7) (cs_photo_partial_T1 T 26 error he 7) ((ownOK_T1 T 26).ne_any 7) ((ownOK_T1 T 26).ne_zero 7)
example : Meets (Gen.PM4_rad_cascade_kissel (T1 T 1) 26 1 (P 0) (P 1) (P 2) (P 3) (P 4) (P 5) (P 6) error) error (vacancyProd (T1 T 1) 26 7 .rad P (own1 26 7)) :=
  vacancy_spec_M4_rad (T1 T 1) 26 1 P error (own1 26 7) (cs_photo_partial_T1 T 26 error he 7) ((ownOK_T1 T 26).ne_any 7) ((ownOK_T1 T 26).ne_zero 7)
example : Meets (Gen.PM4_auger_cascade_kissel (T1 T 1) 26 1 (P 0) (P 1) (P 2) (P 3) (P 4) (P 5) (P 6) error) error (vacancyProd (T1 T 1) 26 7 .auger P (own1 26 7)) :=
  vacancy_spec_M4_auger (T1 T 1) 26 1 P error (own1 26 7) (cs_photo_partial_T1 T 26 error he 7) ((ownOK_T1 T 26).ne_any 7) ((ownOK_T1 T 26).ne_zero 7) (fun _ _ => by norm_num)
example : Meets (Gen.PM4_full_cascade_kissel (T1 T 1) 26 1 (P 0) (P 1) (P 2) (P 3) (P 4) (P 5) (P 6) error) error (vacancyProd (T1 T 1) 26 7 .full P (own1 26 7)) :=
  vacancy_spec_M4_full (T1 T 1) 26 1 P error (own1 26 7) (cs_photo_partial_T1 T 26 error he 7) ((ownOK_T1 T 26).ne_any 7) ((ownOK_T1 T 26).ne_zero 7) (fun _ _ => by norm_num)
example : Meets (Gen.PM5_pure_kissel (T1 T 1) 26 1 (P 4) (P 5) (P 6) (P 7) error) error (vacancyProd (T1 T 1) 26 8 .none P (own1 26 8)) :=
  vacancy_spec_M5_none (T1 T 1) 26 1 P error (own1 26 8) (cs_photo_partial_T1 T 26 error he 8) ((ownOK_T1 T 26).ne_any 8) ((ownOK_T1 T 26).ne_zero 8)
example : Meets (Gen.PM5_rad_cascade_kissel (T1 T 1) 26 1 (P 0) (P 1) (P 2) (P 3) (P 4) (P 5) (P 6) (P 7) error) error (vacancyProd (T1 T 1) 26 8 .rad P (own1 26 8)) :=
  vacancy_spec_M5_rad (T1 T 1) 26 1 P error (own1 26 8) (cs_photo_partial_T1 T 26 error he 8) ((ownOK_T1 T 26).ne_any 8) ((ownOK_T1 T 26).ne_zero 8)
example : Meets (Gen.PM5_auger_cascade_kissel (T1 T 1) 26 1 (P 0) (P 1) (P 2) (P 3) (P 4) (P 5) (P 6) (P 7) error) error (vacancyProd (T1 T 1) 26 8 .auger P (own1 26 8)) :=
  vacancy_spec_M5_auger (T1 T 1) 26 1 P error (own1 26 8) (cs_photo_partial_T1 T 26 error he 8) ((ownOK_T1 T 26).ne_any 8) ((ownOK_T1 T 26).ne_zero 8) (fun _ _ => by norm_num)
example : Meets (Gen.PM5_full_cascade_kissel (T1 T 1) 26 1 (P 0) (P 1) (P 2) (P 3) (P 4) (P 5) (P 6) (P 7) error) error (vacancyProd (T1 T 1) 26 8 .full P (own1 26 8)) :=
  vacancy_spec_M5_full (T1 T 1) 26 1 P error (own1 26 8) (cs_photo_partial_T1 T 26 error he 8) ((ownOK_T1 T 26).ne_any 8) ((ownOK_T1 T 26).ne_zero 8) (fun _ _ => by norm_num)

/-! ## C08c–C08f -/

example (shell : Int) : Meets (Gen.CS_FluorShell_Kissel_no_Cascade (T1 T 1) 26 shell 1 error) error (fluorShell (T1 T 1) 26 shell 1 .none (own1 26)) :=
  fluorshell_spec_none (T1 T 1) 26 1 error (own1 26) shell he (ownOK_T1 T 26)
example : Meets (Gen.CS_FluorLine_Kissel_no_Cascade (T1 T 1) 26 (-3) 1 error) error (fluorLine (T1 T 1) 26 (-3) 1 .none (own1 26)) :=
  fluorline_spec_none (T1 T 1) 26 1 error (-3) (own1 26) he (ownOK_T1 T 26) (fun h => absurd h (by decide))
example : Meets (Gen.CS_FluorLine_Kissel_no_Cascade (T1 T 1) 26 3 1 error) error (fluorLine (T1 T 1) 26 3 1 .none (own1 26)) :=
  fluorline_spec_none (T1 T 1) 26 1 error 3 (own1 26) he (ownOK_T1 T 26) (fun h => absurd h (by decide))
example (shell : Int) : Meets (Gen.CSb_FluorShell_Kissel_no_Cascade (T1 T 1) 26 shell 1 error) error
    (toBarnW ((T1 T 1).AtomicWeight_arr (26 : Int).toNat) (fluorShell (T1 T 1) 26 shell 1 .none (own1 26))) :=
  barn_twin_shell_none (T1 T 1) 26 1 error shell (own1 26) he (ownOK_T1 T 26)
example : Meets (Gen.CSb_FluorLine_Kissel_no_Cascade (T1 T 1) 26 (-90) 1 error) error
    (toBarnW ((T1 T 1).AtomicWeight_arr (26 : Int).toNat) (fluorLine (T1 T 1) 26 (-90) 1 .none (own1 26))) :=
  barn_twin_line_none (T1 T 1) 26 1 error (-90) (own1 26) he (ownOK_T1 T 26) (fun h => absurd h (by decide))
example (shell : Int) : Meets (Gen.CS_FluorShell_Kissel_Radiative_Cascade (T1 T 1) 26 shell 1 error) error (fluorShell (T1 T 1) 26 shell 1 .rad (own1 26)) :=
  fluorshell_spec_rad (T1 T 1) 26 1 error (own1 26) shell he (ownOK_T1 T 26)
example : Meets (Gen.CS_FluorLine_Kissel_Radiative_Cascade (T1 T 1) 26 (-3) 1 error) error (fluorLine (T1 T 1) 26 (-3) 1 .rad (own1 26)) :=
  fluorline_spec_rad (T1 T 1) 26 1 error (-3) (own1 26) he (ownOK_T1 T 26) (fun h => absurd h (by decide))
example : Meets (Gen.CS_FluorLine_Kissel_Radiative_Cascade (T1 T 1) 26 3 1 error) error (fluorLine (T1 T 1) 26 3 1 .rad (own1 26)) :=
  fluorline_spec_rad (T1 T 1) 26 1 error 3 (own1 26) he (ownOK_T1 T 26) (fun h => absurd h (by decide))
example (shell : Int) : Meets (Gen.CSb_FluorShell_Kissel_Radiative_Cascade (T1 T 1) 26 shell 1 error) error
    (toBarnW ((T1 T 1).AtomicWeight_arr (26 : Int).toNat) (fluorShell (T1 T 1) 26 shell 1 .rad (own1 26))) :=
  barn_twin_shell_rad (T1 T 1) 26 1 error shell (own1 26) he (ownOK_T1 T 26)
example : Meets (Gen.CSb_FluorLine_Kissel_Radiative_Cascade (T1 T 1) 26 (-90) 1 error) error
    (toBarnW ((T1 T 1).AtomicWeight_arr (26 : Int).toNat) (fluorLine (T1 T 1) 26 (-90) 1 .rad (own1 26))) :=
  barn_twin_line_rad (T1 T 1) 26 1 error (-90) (own1 26) he (ownOK_T1 T 26) (fun h => absurd h (by decide))
example (shell : Int) : Meets (Gen.CS_FluorShell_Kissel_Nonradiative_Cascade (T1 T 1) 26 shell 1 error) error (fluorShell (T1 T 1) 26 shell 1 .auger (own1 26)) :=
  fluorshell_spec_auger (T1 T 1) 26 1 error (own1 26) shell he (ownOK_T1 T 26)
example : Meets (Gen.CS_FluorLine_Kissel_Nonradiative_Cascade (T1 T 1) 26 (-3) 1 error) error (fluorLine (T1 T 1) 26 (-3) 1 .auger (own1 26)) :=
  fluorline_spec_auger (T1 T 1) 26 1 error (-3) (own1 26) he (ownOK_T1 T 26) (fun h => absurd h (by decide))
example : Meets (Gen.CS_FluorLine_Kissel_Nonradiative_Cascade (T1 T 1) 26 3 1 error) error (fluorLine (T1 T 1) 26 3 1 .auger (own1 26)) :=
  fluorline_spec_auger (T1 T 1) 26 1 error 3 (own1 26) he (ownOK_T1 T 26) (fun h => absurd h (by decide))
example (shell : Int) : Meets (Gen.CSb_FluorShell_Kissel_Nonradiative_Cascade (T1 T 1) 26 shell 1 error) error
    (toBarnW ((T1 T 1).AtomicWeight_arr (26 : Int).toNat) (fluorShell (T1 T 1) 26 shell 1 .auger (own1 26))) :=
  barn_twin_shell_auger (T1 T 1) 26 1 error shell (own1 26) he (ownOK_T1 T 26)
example : Meets (Gen.CSb_FluorLine_Kissel_Nonradiative_Cascade (T1 T 1) 26 (-90) 1 error) error
    (toBarnW ((T1 T 1).AtomicWeight_arr (26 : Int).toNat) (fluorLine (T1 T 1) 26 (-90) 1 .auger (own1 26))) :=
  barn_twin_line_auger (T1 T 1) 26 1 error (-90) (own1 26) he (ownOK_T1 T 26) (fun h => absurd h (by decide))
example (shell : Int) : Meets (Gen.CS_FluorShell_Kissel_Cascade (T1 T 1) 26 shell 1 error) error (fluorShell (T1 T 1) 26 shell 1 .full (own1 26)) :=
  fluorshell_spec_full (T1 T 1) 26 1 error (own1 26) shell he (ownOK_T1 T 26)
example : Meets (Gen.CS_FluorLine_Kissel_Cascade (T1 T 1) 26 (-3) 1 error) error (fluorLine (T1 T 1) 26 (-3) 1 .full (own1 26)) :=
  fluorline_spec_full (T1 T 1) 26 1 error (-3) (own1 26) he (ownOK_T1 T 26) (fun h => absurd h (by decide))
example : Meets (Gen.CS_FluorLine_Kissel_Cascade (T1 T 1) 26 3 1 error) error (fluorLine (T1 T 1) 26 3 1 .full (own1 26)) :=
  fluorline_spec_full (T1 T 1) 26 1 error 3 (own1 26) he (ownOK_T1 T 26) (fun h => absurd h (by decide))
example (shell : Int) : Meets (Gen.CSb_FluorShell_Kissel_Cascade (T1 T 1) 26 shell 1 error) error
    (toBarnW ((T1 T 1).AtomicWeight_arr (26 : Int).toNat) (fluorShell (T1 T 1) 26 shell 1 .full (own1 26))) :=
  barn_twin_shell_full (T1 T 1) 26 1 error shell (own1 26) he (ownOK_T1 T 26)
example : Meets (Gen.CSb_FluorLine_Kissel_Cascade (T1 T 1) 26 (-90) 1 error) error
    (toBarnW ((T1 T 1).AtomicWeight_arr (26 : Int).toNat) (fluorLine (T1 T 1) 26 (-90) 1 .full (own1 26))) :=
  barn_twin_line_full (T1 T 1) 26 1 error (-90) (own1 26) he (ownOK_T1 T 26) (fun h => absurd h (by decide))

example (shell : Int) : Meets (Gen.CS_FluorShell_Kissel (T1 T 1) 26 shell 1 error) error (fluorShell (T1 T 1) 26 shell 1 .full (own1 26)) :=
  fluorshell_spec (T1 T 1) 26 1 error (own1 26) shell he (ownOK_T1 T 26)
example : Meets (Gen.CS_FluorLine_Kissel (T1 T 1) 26 2 1 error) error (fluorLine (T1 T 1) 26 2 1 .full (own1 26)) :=
  fluorline_spec (T1 T 1) 26 1 error 2 (own1 26) he (ownOK_T1 T 26) (fun h => absurd h (by decide))
example : Meets (lineGen .rad (T1 T 1) 26 (-118) 1 error) error (fluorLine (T1 T 1) 26 (-118) 1 .rad (own1 26)) :=
  fluorline_spec_partial (T1 T 1) 26 1 error (-118) (own1 26) .rad he (ownOK_T1 T 26) (by decide)

/-- the discrepancy, on the synthetic table: `M1M3_LINE` (−115) is rejected … -/
example : Fails (Gen.CS_FluorLine_Kissel_Cascade (T1 T 1) 26 (-115) 1 error) error :=
  fluorline_intraM_rejected_full (T1 T 1) 26 1 error (-115) he (by decide)

omit he in
/-- … although by its name it is a line of M1 -/
example : lineShellK (-115) = some 4 := by decide

omit he in
/-- the K lines by name -/
example : lineShellK (-3) = some 0 ∧ lineShellK 0 = some 0 ∧ lineShellK 1 = some 0 := by decide

omit he in
example : Gen.CS_FluorLine_Kissel_no_Cascade T Z (-3) 1 error = Gen.CS_FluorLine_Kissel_Cascade T Z (-3) 1 error :=
  k_variants_equal_line_none T Z 1 error (-3) (by decide)

omit he in
example : Gen.CS_FluorLine_Kissel_Radiative_Cascade T Z 1 1 error = Gen.CS_FluorLine_Kissel_Cascade T Z 1 1 error :=
  k_variants_equal_line_rad T Z 1 error 1 (by decide)
omit he in
example : Gen.CS_FluorLine_Kissel_Nonradiative_Cascade T Z (-29) 1 error = Gen.CS_FluorLine_Kissel_Cascade T Z (-29) 1 error :=
  k_variants_equal_line_auger T Z 1 error (-29) (by decide)
omit he in
example : fluorLine T Z 0 1 .none (own1 Z) = fluorLine T Z 0 1 .full (own1 Z) :=
  k_variants_equal_spec_line T Z 1 0 (own1 Z) .none .full (by decide)

example (shell : Int) : Meets (Gen.CSb_FluorShell_Kissel (T1 T 1) 26 shell 1 error) error
    (toBarnW ((T1 T 1).AtomicWeight_arr (26 : Int).toNat) (fluorShell (T1 T 1) 26 shell 1 .full (own1 26))) :=
  barn_twin_shell (T1 T 1) 26 1 error shell (own1 26) he (ownOK_T1 T 26)
example : Meets (Gen.CSb_FluorLine_Kissel (T1 T 1) 26 0 1 error) error
    (toBarnW ((T1 T 1).AtomicWeight_arr (26 : Int).toNat) (fluorLine (T1 T 1) 26 0 1 .full (own1 26))) :=
  barn_twin_line (T1 T 1) 26 1 error 0 (own1 26) he (ownOK_T1 T 26) (fun h => absurd h (by decide))

omit he in
/-- the constants of the synthetic table satisfy `0 ≤ auger-only ≤ full` -/
theorem cells_T1 : ∀ t s, 0 ≤ cellAuger (T1 T 1) Z t s ∧ cellAuger (T1 T 1) Z t s ≤ cellFull (T1 T 1) Z t s := by
  intro t s; simp only [cellAuger, cellFull, T1]; norm_num

omit he in
example : TransferLE (T1 T 1) 26 .auger .full := transferLE_auger_full (T1 T 1) 26 (cells_T1 T 26)
omit he in
example : TransferLE (T1 T 1) 26 .none .auger := transferLE_none_auger (T1 T 1) 26 (fun t s => (cells_T1 T 26 t s).1)

omit he in
example (shell : Int) : ExpLE (fluorShell (T1 T 1) 26 shell 1 .auger (own1 26)) (fluorShell (T1 T 1) 26 shell 1 .full (own1 26)) :=
  variants_ordered_shell (T1 T 1) 26 1 (own1 26) (transferLE_auger_full (T1 T 1) 26 (cells_T1 T 26)) shell

example (shell : Int) {a b : ℝ} {e1 e2 : Slot}
    (ha : Gen.CS_FluorShell_Kissel_Nonradiative_Cascade (T1 T 1) 26 shell 1 error = Except.ok (a, e1))
    (hb : Gen.CS_FluorShell_Kissel_Cascade (T1 T 1) 26 shell 1 error = Except.ok (b, e2)) : a ≤ b :=
  variants_ordered_auger_full_shell (T1 T 1) 26 1 (own1 26) error shell he (ownOK_T1 T 26) (cells_T1 T 26) ha hb

example (shell : Int) {a b : ℝ} {e1 e2 : Slot}
    (ha : Gen.CS_FluorShell_Kissel_no_Cascade (T1 T 1) 26 shell 1 error = Except.ok (a, e1))
    (hb : Gen.CS_FluorShell_Kissel_Radiative_Cascade (T1 T 1) 26 shell 1 error = Except.ok (b, e2)) : a ≤ b :=
  variants_ordered_none_rad_shell (T1 T 1) 26 1 (own1 26) error shell he (ownOK_T1 T 26) ha hb

omit he in
/-- a table whose radiative rates are all 0.01: every rate the accessor returns is non-negative (`hr`) -/
theorem radRate_const_nonneg (T : Tables ℝ) (h : ∀ i j, T.RadRate_arr i j = 0.01) (Z l : Int) (r : ℝ)
    (hv : Spec.RadRate T Z l = .value r) : 0 ≤ r := by
  unfold Spec.RadRate singleRate sumRates rCell at hv
  simp only [h, Hdr.group_KA, List.foldl] at hv
  split_ifs at hv <;> injection hv with hv <;> rw [← hv] <;> norm_num

/-- the synthetic table with all radiative rates 0.01 -/
noncomputable def T2 (T : Tables ℝ) : Tables ℝ := T1 { T with RadRate_arr := fun _ _ => 0.01 } 1

omit he in
theorem ownOK_T2 : OwnOK (T2 T) Z 1 (own1 Z) := ownOK_T1 _ Z

omit he in
theorem hr_T2 (l : Int) (r : ℝ) (hv : Spec.RadRate (T2 T) Z l = .value r) : 0 ≤ r :=
  radRate_const_nonneg _ (fun _ _ => rfl) Z l r hv

example {a b : ℝ} {e1 e2 : Slot}
    (ha : Gen.CS_FluorLine_Kissel_no_Cascade (T2 T) 26 (-90) 1 error = Except.ok (a, e1))
    (hb : Gen.CS_FluorLine_Kissel_Radiative_Cascade (T2 T) 26 (-90) 1 error = Except.ok (b, e2)) : a ≤ b :=
  variants_ordered_none_rad_line (T2 T) 26 1 (own1 26) error (-90) he (ownOK_T2 T 26) (fun h => absurd h (by decide))
    (hr_T2 T 26) ha hb

example {a b : ℝ} {e1 e2 : Slot}
    (ha : Gen.CS_FluorLine_Kissel_Nonradiative_Cascade (T2 T) 26 3 1 error = Except.ok (a, e1))
    (hb : Gen.CS_FluorLine_Kissel_Cascade (T2 T) 26 3 1 error = Except.ok (b, e2)) : a ≤ b :=
  variants_ordered_auger_full_line (T2 T) 26 1 (own1 26) error 3 he (ownOK_T2 T 26) (fun h => absurd h (by decide))
    (hr_T2 T 26) (cells_T1 _ 26) ha hb

omit he in
/-- radiative ≤ full on the synthetic table: yield × rate ≤ 1 ≤ 2 = full constant -/
theorem rad_le_full_T2 : TransferLE (T2 T) 26 .rad .full := by
  apply transferLE_rad_full
  intro t s
  have h2 : cellFull (T2 T) 26 t s = 2 := rfl
  rw [h2]
  have hy0 := flYield_nonneg (T2 T) 26 s
  have hy : flYield (T2 T) 26 s ≤ 1 := by
    unfold flYield Spec.FluorYield lookup2 valOr0
    split_ifs
    · show (0.5 : ℝ) ≤ 1; norm_num
    · norm_num
  unfold transfer
  cases radLine t s with
  | none => simp only []; norm_num
  | some l =>
    simp only []
    have hr0 : 0 ≤ radRate (T2 T) 26 l := by
      unfold radRate
      cases hv : Spec.RadRate (T2 T) 26 l with
      | value v => exact hr_T2 T 26 l v hv
      | fails => simp only [valOr0]; norm_num
      | any => simp only [valOr0]; norm_num
    have hr : radRate (T2 T) 26 l ≤ 1 := by
      unfold radRate Spec.RadRate singleRate sumRates rCell
      have hc : ∀ i j, (T2 T).RadRate_arr i j = 0.01 := fun _ _ => rfl
      simp only [hc, Hdr.group_KA, List.foldl]
      split_ifs <;> simp only [valOr0] <;> norm_num
    nlinarith

omit he in
example {a b : ℝ} (ha : fluorLine (T2 T) 26 0 1 .rad (own1 26) = .value a)
    (hb : fluorLine (T2 T) 26 0 1 .full (own1 26) = .value b) : a ≤ b :=
  variants_ordered_line (T2 T) 26 1 (own1 26) (rad_le_full_T2 T) 0 (hr_T2 T 26) ha hb

/-! ## the emptied table -/

omit he in
example : KisselEmptied { T with Electron_Config_Kissel := fun _ _ => -9999 } := fun _ _ => rfl

example (line : Int) (E : ℝ) : Fails (Gen.CS_FluorLine_Kissel { T with Electron_Config_Kissel := fun _ _ => -9999 } Z line E error) error :=
  empty_table_fails_line _ Z E error line he (KisselEmptied.noOccupancy _ (fun _ _ => rfl))

example (E : ℝ) : Fails (Gen.CS_Total_Kissel { T with Electron_Config_Kissel := fun _ _ => -9999 } Z E error) error :=
  empty_table_fails_CS_Total_Kissel _ Z E error he (KisselEmptied.noOccupancy _ (fun _ _ => rfl))

example (shell : Int) : Fails (Gen.ElectronConfig { T with Electron_Config_Kissel := fun _ _ => -9999 } Z shell error) error :=
  empty_table_fails_ElectronConfig _ Z error shell he (fun _ _ => rfl)

example (shell : Int) (E : ℝ) : Fails (Gen.CS_Photo_Partial { T with Electron_Config_Kissel := fun _ _ => -9999 } Z shell E error) error :=
  empty_table_fails_CS_Photo_Partial _ Z E error shell he (KisselEmptied.noOccupancy _ (fun _ _ => rfl))

example (shell : Int) (E : ℝ) : Fails (Gen.CSb_FluorShell_Kissel_Radiative_Cascade { T with Electron_Config_Kissel := fun _ _ => -9999 } Z shell E error) error :=
  empty_table_fails_barn_shell_rad _ Z E error shell he (KisselEmptied.noOccupancy _ (fun _ _ => rfl))

/-! ## not only vacuously: a value on the synthetic table -/

omit he in
/-- L1 shell of Fe at 1 keV, full cascade: (own + P_K · full constant) · yield = (c + 2c) · 0.5 -/
theorem fluorShell_T1_L1 : fluorShell (T1 T 1) 26 1 1 .full (own1 26) = .value ((c1 + c1 * 2) * 0.5) := by
  have hy : Spec.FluorYield (T1 T 1) 26 1 = .value 0.5 := by
    unfold Spec.FluorYield lookup2
    simp only [T1, zOk, mOk, Hdr.ZMAX, Hdr.K_SHELL, Hdr.SHELLNUM, id]
    norm_num
  have ho0 : own1 26 0 = .value c1 := by unfold own1; norm_num
  have ho1 : own1 26 1 = .value c1 := by unfold own1; norm_num
  have hc : (0:ℝ) < c1 := by unfold c1; norm_num
  unfold fluorShell
  simp only [zOk, mOk, Hdr.ZMAX, Hdr.K_SHELL, Hdr.M5_SHELL, hy, withYield]
  norm_num [innerP, vacancy_K, ho0, ho1, valOr0, vacancyProd, lowerSame_1, inner_1, transfer, cellFull, T1, scaleBy, hc]

/-- … and the generated function returns exactly that -/
example : Gen.CS_FluorShell_Kissel_Cascade (T1 T 1) 26 1 1 error = Except.ok ((c1 + c1 * 2) * 0.5, error) := by
  have := fluorshell_spec_full (T1 T 1) 26 1 error (own1 26) 1 he (ownOK_T1 T 26)
  rw [fluorShell_T1_L1] at this
  exact this

end C08
end Xrl
