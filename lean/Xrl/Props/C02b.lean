import Xrl.Props.C02
import Xrl.Spec.Interp2
import Xrl.Gen.F_kissel_pe
import Xrl.Lemmas.JumpRatio
/-!
# C02 — remaining interpolating sites: sub-shell Compton profiles, Kissel partial photoionisation cross sections

* `site_spec_ComptonProfile_Partial` : `ComptonProfile_Partial(Z, shell, pz)` = exp ∘ spline ∘ ln(pz+1) on the column
  `shell` of the element's profile table, for the sub-shells `ElectronConfig_Biggs` knows; an error otherwise;
* `site_spec_CSb_Photo_Partial` : `CSb_Photo_Partial(Z, shell, E)` fails below the edge, is the documented bounded-slope
  log-log extension between the edge and the first knot (`kissel_extension_spec`, `clampSlope_bounded`), the spline in
  ln E / ln σ inside the table and an error beyond the last knot (`kissel_no_extrapolation_above`).
-/
namespace Xrl
namespace C02
open Spec

set_option linter.unusedSimpArgs false
set_option linter.unusedVariables false
set_option maxRecDepth 16384

variable (T : Tables ℝ) (Z shell : Int) (E pz : ℝ) (error : Slot)

theorem rd1_ok' {β : Type} (name : String) (f : Nat → β) {i : Int} (hb : 0 ≤ i ∧ i < 121) :
    rd1 name 121 f i = Except.ok (f i.toNat) := by
  unfold rd1; rw [if_pos (by push_cast; omega)]; rfl

theorem rd2_ok' {β : Type} (name : String) (m : Nat) (f : Nat → Nat → β) {i j : Int} (hb : 0 ≤ i ∧ i < 121)
    (hj : 0 ≤ j ∧ j < m) : rd2 name 121 m f i j = Except.ok (f i.toNat j.toNat) := by
  unfold rd2; rw [if_pos (by push_cast; omega)]; rfl

theorem rdv_ok' {β : Type} (name : String) (v : Vec β) {k : Int} (hk : 0 ≤ k ∧ k < v.len) :
    rdv name v k = Except.ok (v.get k.toNat) := by
  unfold rdv; rw [if_pos hk]; rfl

theorem zOk_iff' (Z : Int) : zOk Z = true ↔ 1 ≤ Z ∧ Z ≤ 120 := by
  unfold zOk; simp only [Hdr.ZMAX]; exact decide_eq_true_iff

/-! ## sub-shell Compton profile -/

theorem hasProfile_iff : hasProfile T Z shell = true ↔
    (1 ≤ Z ∧ Z ≤ 120) ∧ 0 ≤ shell ∧ shell < T.NShells_ComptonProfiles Z.toNat ∧
      ¬ (T.UOCCUP_ComptonProfiles Z.toNat).get shell.toNat = (0.0 : ℝ) := by
  unfold hasProfile Spec.ElectronConfig_Biggs
  split_ifs with h
  · simp only [true_iff]
    exact ⟨(zOk_iff' Z).1 h.1, h.2.1, h.2.2.1, fun hh => h.2.2.2 ((deq_real _ _).2 hh)⟩
  · simp only [Bool.false_eq_true, false_iff]
    intro hh
    exact h ⟨(zOk_iff' Z).2 hh.1, hh.2.1, hh.2.2.1, fun hd => hh.2.2.2 ((deq_real _ _).1 hd)⟩

section
variable (he : error.isFull = false)
include he

/-- a column `ComptonProfile_Partial` does not read — Z out of range, no sub-shell record, `shell` outside
`0 … NShells−1`, or occupancy 0 — is an error whatever the table holds there: **no shape hypothesis** -/
theorem profile_unoccupied_fails (hg : hasProfile T Z shell = false)
    (hlen : T.NShells_ComptonProfiles Z.toNat ≤ (T.UOCCUP_ComptonProfiles Z.toNat).len) :
    Fails (Gen.ComptonProfile_Partial T Z shell pz error) error ∧ Spec.ComptonProfile_Partial T Z shell pz = .fails := by
  have hg0 : ¬ hasProfile T Z shell = true := by rw [hg]; simp
  have hn := (not_congr (hasProfile_iff T Z shell)).1 hg0
  refine ⟨?_, by unfold Spec.ComptonProfile_Partial interp; simp only [hg, Bool.false_and, Bool.false_eq_true, if_false]⟩
  unfold Gen.ComptonProfile_Partial
  by_cases hZ : Z < 1 ∨ Z > 120
  · simp only [hZ, if_true, pure_eq_ok, bind_ok, setErr_notFull he]; exact fails_mk' (by decide) (by decide)
  · have hb : 0 ≤ Z ∧ Z < 121 := by omega
    simp only [hZ, if_false, rd1_ok' _ _ hb, bind_ok, pure_eq_ok]
    by_cases hN : T.NShells_ComptonProfiles Z.toNat < 1
    · simp only [hN, decide_true, if_true, bind_ok, setErr_notFull he]; exact fails_mk' (by decide) (by decide)
    · simp only [hN, decide_false, Bool.false_eq_true, if_false]
      by_cases hsh : shell ≥ T.NShells_ComptonProfiles Z.toNat ∨ shell < 0
      · simp only [hsh, if_true, bind_ok, pure_eq_ok, setErr_notFull he]; exact fails_mk' (by decide) (by decide)
      · have hocc : (T.UOCCUP_ComptonProfiles Z.toNat).get shell.toNat = (0.0 : ℝ) := by
          by_contra hh; exact hn ⟨by omega, by omega, by omega, hh⟩
        simp only [hsh, if_false, rdv_ok' _ _ (show 0 ≤ shell ∧ shell < (T.UOCCUP_ComptonProfiles Z.toNat).len by omega),
          bind_ok, pure_eq_ok, deq_real, hocc, decide_true, if_true, setErr_notFull he]
        exact fails_mk' (by decide) (by decide)

/-- the site theorem; `profileColOkB` asks `vecOkB` of the column only when the column is read (`hasProfile`) -/
theorem site_spec_ComptonProfile_Partial
    (hs : profileColOkB T Z shell = true)
    (hp : profileOkB T Z = true) :
    Meets (Gen.ComptonProfile_Partial T Z shell pz error) error (Spec.ComptonProfile_Partial T Z shell pz) := by
  unfold profileOkB at hp
  simp only [Bool.and_eq_true, Bool.or_eq_true, decide_eq_true_eq] at hp
  obtain ⟨⟨h29, hlen⟩, hnpz⟩ := hp
  have h29 : T.NShells_ComptonProfiles Z.toNat ≤ 29 := h29
  unfold Gen.ComptonProfile_Partial Spec.ComptonProfile_Partial interp
  by_cases hg : hasProfile T Z shell = true
  · have hs : vecOkB (T.pz_ComptonProfiles Z.toNat) (T.Partial_ComptonProfiles Z.toNat shell.toNat)
        (T.Partial_ComptonProfiles2 Z.toNat shell.toNat) (T.Npz_ComptonProfiles Z.toNat) = true := by
      unfold profileColOkB at hs
      simpa only [hg, Bool.not_true, Bool.false_or] using hs
    obtain ⟨hZ, hs0, hs1, hocc⟩ := (hasProfile_iff T Z shell).1 hg
    have hb : 0 ≤ Z ∧ Z < 121 := by omega
    have hZ' : ¬ (Z < 1 ∨ Z > 120) := by omega
    have hN : ¬ T.NShells_ComptonProfiles Z.toNat < 1 := by omega
    have hsh : ¬ (shell ≥ T.NShells_ComptonProfiles Z.toNat ∨ shell < 0) := by omega
    have hnpz' : 1 ≤ T.Npz_ComptonProfiles Z.toNat := hnpz.resolve_left hN
    simp only [hg, Bool.true_and, hZ', if_false, rd1_ok' _ _ hb, bind_ok, pure_eq_ok, hN, decide_false,
      Bool.false_eq_true, hsh, rdv_ok' _ _ (show 0 ≤ shell ∧ shell < (T.UOCCUP_ComptonProfiles Z.toNat).len by omega),
      deq_real, hocc, rd2_ok' _ 29 _ hb (show 0 ≤ shell ∧ shell < (29 : Nat) by omega), decide_eq_true_eq]
    by_cases hpz : pz < (0.0 : ℝ)
    · have : ¬ (0.0 : ℝ) ≤ pz := not_le.2 hpz
      simp only [hpz, if_true, this, if_false, Meets, setErr_notFull he, bind_ok]
      exact fails_mk' (by decide) (by decide)
    · have h0 : (0.0 : ℝ) ≤ pz := not_lt.1 hpz
      have hl : ¬ pz + (1.0 : ℝ) ≤ (0.0 : ℝ) := by norm_num at h0 ⊢; linarith
      rcases vecOkB_spec _ _ _ _ hs with hneg | ⟨h1, hx, hy, h2, hsort⟩
      · omega
      · obtain ⟨m, hm⟩ : ∃ m : Nat, T.Npz_ComptonProfiles Z.toNat = (m : Int) :=
          ⟨(T.Npz_ComptonProfiles Z.toNat).toNat, by omega⟩
        have hm1 : 1 ≤ m := by omega
        rw [hm] at hx hy h2 hsort
        simp only [Int.toNat_natCast] at hsort
        have key := splint_spec (T.pz_ComptonProfiles Z.toNat) (T.Partial_ComptonProfiles Z.toNat shell.toNat)
          (T.Partial_ComptonProfiles2 Z.toNat shell.toNat) m (XNum.log (pz + (1.0 : ℝ))) error he hm1 hx hy h2 hsort
        simp only [hpz, if_false, h0, if_true, dlog, hl, bind_ok, pure_eq_ok, hm, Int.toNat_natCast, key]
        cases hsp : spline (T.pz_ComptonProfiles Z.toNat) (T.Partial_ComptonProfiles Z.toNat shell.toNat)
          (T.Partial_ComptonProfiles2 Z.toNat shell.toNat) m (XNum.log (pz + (1.0 : ℝ))) with
        | some y =>
          simp only [bind_ok, pure_eq_ok, Meets, Returns, ne_eq, one_ne_zero, not_false_eq_true, not_true_eq_false,
            if_false]
        | none =>
          simp only [bind_ok, pure_eq_ok, Meets, ne_eq, not_true_eq_false, not_false_eq_true, if_true]
          exact fails_mk' (by decide) (by decide)
  · have hg' : hasProfile T Z shell = false := by simpa using hg
    obtain ⟨hf, hsp⟩ := profile_unoccupied_fails T Z shell pz error he hg' hlen
    have hsp' := hsp
    unfold Spec.ComptonProfile_Partial interp at hsp'
    rw [hsp']
    exact hf

end

/-! ## Kissel partial photoionisation cross section -/

theorem kisselGuard_iff : kisselGuard T Z shell E = true ↔
    (1 ≤ Z ∧ Z ≤ 120) ∧ (0 ≤ shell ∧ shell ≤ 27) ∧ (0.0 : ℝ) < E ∧
      ¬ T.Electron_Config_Kissel Z.toNat shell.toNat < (1.0e-6 : ℝ) ∧
      (0.0 : ℝ) < T.EdgeEnergy_arr Z.toNat shell.toNat ∧ ¬ E < T.EdgeEnergy_arr Z.toNat shell.toNat := by
  unfold kisselGuard mOk
  rw [Bool.and_eq_true, Bool.and_eq_true, Bool.and_eq_true, Bool.and_eq_true, Bool.and_eq_true, zOk_iff']
  have hm : decide (Hdr.K_SHELL ≤ shell ∧ shell ≤ Hdr.SHELLNUM - 1) = true ↔ (0 ≤ shell ∧ shell ≤ 27) := by
    rw [decide_eq_true_iff]; simp only [Hdr.K_SHELL, Hdr.SHELLNUM]; omega
  rw [hm]
  simp only [decide_eq_true_eq, Bool.not_eq_true', decide_eq_false_iff_not]
  constructor
  · rintro ⟨⟨⟨⟨⟨h1, h2⟩, h3⟩, h4⟩, h5⟩, h6⟩
    exact ⟨h1, h2, h3, h4, h5, h6⟩
  · rintro ⟨h1, h2, h3, h4, h5, h6⟩
    exact ⟨⟨⟨⟨⟨h1, h2⟩, h3⟩, h4⟩, h5⟩, h6⟩

/-- what the two executable shape checks give for a sub-shell that can pass the guards -/
theorem kisselShape_spec (h : kisselShapeB T Z shell = true)
    (hocc : ¬ T.Electron_Config_Kissel Z.toNat shell.toNat < (1.0e-6 : ℝ))
    (hedge : (0.0 : ℝ) < T.EdgeEnergy_arr Z.toNat shell.toNat) :
    ∃ m : Nat, T.NE_Photo_Partial_Kissel Z.toNat shell.toNat = (m : Int) ∧ 2 ≤ m ∧
      (m : Int) ≤ (T.E_Photo_Partial_Kissel Z.toNat shell.toNat).len ∧
      (m : Int) ≤ (T.Photo_Partial_Kissel Z.toNat shell.toNat).len ∧
      (m : Int) ≤ (T.Photo_Partial_Kissel2 Z.toNat shell.toNat).len ∧
      SortedKnots (T.E_Photo_Partial_Kissel Z.toNat shell.toNat) m ∧
      (T.E_Photo_Partial_Kissel Z.toNat shell.toNat).get 0 < (T.E_Photo_Partial_Kissel Z.toNat shell.toNat).get 1 := by
  have hr : kisselReadable T Z shell = true := by
    unfold kisselReadable
    rw [Bool.and_eq_true]
    exact ⟨by rw [Bool.not_eq_true', decide_eq_false_iff_not]; exact hocc, decide_eq_true hedge⟩
  unfold kisselShapeB kisselOkB at h
  simp only [hr, Bool.not_true, Bool.false_or, Bool.and_eq_true, decide_eq_true_eq] at h
  obtain ⟨hv, hn, hlt⟩ := h
  · rcases vecOkB_spec _ _ _ _ hv with hneg | ⟨h1, hx, hy, h2, hsort⟩
    · omega
    · refine ⟨(T.NE_Photo_Partial_Kissel Z.toNat shell.toNat).toNat, by omega, by omega, by omega, by omega, by omega,
        hsort, ?_⟩
      simpa [knot] using hlt

section
variable (he : error.isFull = false)
include he

/-- a call that does not pass the guards — Z or shell out of range, `E ≤ 0`, sub-shell unoccupied or without an edge,
`E` below the edge — is an error whatever the sub-shell's table holds: **no shape hypothesis** -/
theorem kissel_guard_fails (hg : kisselGuard T Z shell E = false) :
    Fails (Gen.CSb_Photo_Partial T Z shell E error) error ∧ Spec.CSb_Photo_Partial T Z shell E = .fails := by
  have hg0 : ¬ kisselGuard T Z shell E = true := by rw [hg]; simp
  have hn := (not_congr (kisselGuard_iff T Z shell E)).1 hg0
  refine ⟨?_, by unfold Spec.CSb_Photo_Partial; simp only [hg, Bool.false_eq_true, if_false]⟩
  unfold Gen.CSb_Photo_Partial
  by_cases hZ : Z < 1 ∨ Z > 120
  · simp only [hZ, if_true, pure_eq_ok, bind_ok, setErr_notFull he]; exact fails_mk' (by decide) (by decide)
  · by_cases hs1 : shell < 0 ∨ shell ≥ 31
    · simp only [hZ, hs1, if_true, if_false, pure_eq_ok, bind_ok, setErr_notFull he]
      exact fails_mk' (by decide) (by decide)
    · by_cases hE : E ≤ (0.0 : ℝ)
      · simp only [hZ, hs1, hE, if_true, if_false, pure_eq_ok, bind_ok, setErr_notFull he]
        exact fails_mk' (by decide) (by decide)
      · have hb : 0 ≤ Z ∧ Z < 121 := by omega
        have j31 : 0 ≤ shell ∧ shell < (31 : Nat) := by omega
        simp only [hZ, hs1, hE, if_false]
        by_cases hs2 : shell ≥ 28
        · simp only [hs2, if_true, pure_eq_ok, bind_ok, setErr_notFull he]; exact fails_mk' (by decide) (by decide)
        · have j28 : 0 ≤ shell ∧ shell < (28 : Nat) := by omega
          simp only [hs2, if_false, rd2_ok' _ 31 _ hb j31, rd2_ok' _ 28 _ hb j28, bind_ok, pure_eq_ok]
          by_cases hocc : T.Electron_Config_Kissel Z.toNat shell.toNat < (1.0e-6 : ℝ)
          · simp only [hocc, decide_true, if_true, pure_eq_ok, bind_ok, setErr_notFull he]
            exact fails_mk' (by decide) (by decide)
          · by_cases hedge : T.EdgeEnergy_arr Z.toNat shell.toNat ≤ (0.0 : ℝ)
            · simp only [hocc, decide_false, Bool.false_eq_true, if_false, hedge, decide_true, if_true, pure_eq_ok,
                bind_ok, setErr_notFull he]
              exact fails_mk' (by decide) (by decide)
            · have hEe : E < T.EdgeEnergy_arr Z.toNat shell.toNat := by
                by_contra hh
                exact hn ⟨by omega, by omega, not_le.1 hE, hocc, not_le.1 hedge, hh⟩
              simp only [hocc, decide_false, Bool.false_eq_true, if_false, hedge, hEe, if_true, pure_eq_ok,
                bind_ok, setErr_notFull he]
              exact fails_mk' (by decide) (by decide)


/-- an unreadable cell (occupancy below 1e-6 or no edge) is an error at every energy, whatever its table holds -/
theorem kissel_unreadable_fails (hr : kisselReadable T Z shell = false) :
    Fails (Gen.CSb_Photo_Partial T Z shell E error) error ∧ Spec.CSb_Photo_Partial T Z shell E = .fails := by
  apply kissel_guard_fails T Z shell E error he
  rw [← Bool.not_eq_true, kisselGuard_iff]
  rintro ⟨_, _, _, hocc, hedge, _⟩
  unfold kisselReadable at hr
  rw [Bool.and_eq_false_iff] at hr
  rcases hr with hr | hr
  · rw [Bool.not_eq_false', decide_eq_true_eq] at hr; exact hocc hr
  · rw [decide_eq_false_iff_not] at hr; exact hr hedge

/-- the site theorem with the shape condition asked only when the call passes the guards -/
theorem site_spec_CSb_Photo_Partial_of (hs : kisselGuard T Z shell E = true → kisselShapeB T Z shell = true) :
    Meets (Gen.CSb_Photo_Partial T Z shell E error) error (Spec.CSb_Photo_Partial T Z shell E) := by
  by_cases hg : kisselGuard T Z shell E = true
  swap
  · obtain ⟨hf, hsp⟩ := kissel_guard_fails T Z shell E error he (by simpa using hg)
    rw [hsp]; exact hf
  have hs := hs hg
  unfold Gen.CSb_Photo_Partial Spec.CSb_Photo_Partial
  obtain ⟨hZ, hsh, hE, hocc, hedge, hEe⟩ := (kisselGuard_iff T Z shell E).1 hg
  obtain ⟨m, hm, hm2, hx, hy, h2, hsort, hlt⟩ := kisselShape_spec T Z shell hs hocc hedge
  have hb : 0 ≤ Z ∧ Z < 121 := by omega
  have hZ' : ¬ (Z < 1 ∨ Z > 120) := by omega
  have hs1 : ¬ (shell < 0 ∨ shell ≥ 31) := by omega
  have hs2 : ¬ shell ≥ 28 := by omega
  have hE' : ¬ E ≤ (0.0 : ℝ) := not_le.2 hE
  have hedge' : ¬ T.EdgeEnergy_arr Z.toNat shell.toNat ≤ (0.0 : ℝ) := not_le.2 hedge
  have j31 : 0 ≤ shell ∧ shell < (31 : Nat) := by omega
  have j28 : 0 ≤ shell ∧ shell < (28 : Nat) := by omega
  have k0 : (0 : Int) ≤ 0 ∧ (0 : Int) < (T.E_Photo_Partial_Kissel Z.toNat shell.toNat).len := by omega
  have k1 : (0 : Int) ≤ 1 ∧ (1 : Int) < (T.E_Photo_Partial_Kissel Z.toNat shell.toNat).len := by omega
  have l0 : (0 : Int) ≤ 0 ∧ (0 : Int) < (T.Photo_Partial_Kissel Z.toNat shell.toNat).len := by omega
  have l1 : (0 : Int) ≤ 1 ∧ (1 : Int) < (T.Photo_Partial_Kissel Z.toNat shell.toNat).len := by omega
  simp only [hg, if_true, hZ', hs1, hE', if_false, hs2, rd2_ok' _ 31 _ hb j31, rd2_ok' _ 28 _ hb j28, bind_ok, pure_eq_ok,
    hocc, decide_false, Bool.false_eq_true, hedge', hEe, dlog, rdv_ok' _ _ k0, rdv_ok' _ _ k1, rdv_ok' _ _ l0,
    rdv_ok' _ _ l1, Int.toNat_zero, Int.toNat_one, knot, Nat.sub_self]
  by_cases hlow : XNum.log E < (T.E_Photo_Partial_Kissel Z.toNat shell.toNat).get 0
  · have hne : ¬ (T.E_Photo_Partial_Kissel Z.toNat shell.toNat).get 1 -
        (T.E_Photo_Partial_Kissel Z.toNat shell.toNat).get 0 = (0.0 : ℝ) := by
      norm_num; linarith
    simp only [hlow, if_true, ddiv, deq_real, hne, if_false, bind_ok, pure_eq_ok, kisselExtension, clampSlope, knot,
      Nat.sub_self, show (2 : Nat) - 1 = 1 from rfl, Meets, Returns]
    split_ifs <;> rfl
  · have key := splint_spec (T.E_Photo_Partial_Kissel Z.toNat shell.toNat) (T.Photo_Partial_Kissel Z.toNat shell.toNat)
      (T.Photo_Partial_Kissel2 Z.toNat shell.toNat) m (XNum.log E) error he (by omega) hx hy h2 hsort
    simp only [hlow, if_false, hm, key, interp, if_true, Int.toNat_natCast]
    cases hsp : spline (T.E_Photo_Partial_Kissel Z.toNat shell.toNat) (T.Photo_Partial_Kissel Z.toNat shell.toNat)
      (T.Photo_Partial_Kissel2 Z.toNat shell.toNat) m (XNum.log E) with
    | some y =>
      simp only [bind_ok, pure_eq_ok, Meets, Returns, ne_eq, one_ne_zero, not_false_eq_true, not_true_eq_false,
        if_false]
    | none =>
      simp only [bind_ok, pure_eq_ok, Meets, ne_eq, not_true_eq_false, not_false_eq_true, if_true]
      exact fails_mk' (by decide) (by decide)

/-- **the site theorem**: `kisselShapeB` constrains the table only for a readable cell (occupied, with an edge) -/
theorem site_spec_CSb_Photo_Partial (hs : kisselShapeB T Z shell = true) :
    Meets (Gen.CSb_Photo_Partial T Z shell E error) error (Spec.CSb_Photo_Partial T Z shell E) :=
  site_spec_CSb_Photo_Partial_of T Z shell E error he (fun _ => hs)

end

/-! ## the three regimes of the Kissel site, on the specification -/

/-- **the extension** ("between the shell's edge energy and its first knot"): the line through the first knot with the
slope of the first interval limited to `[-1, 1]`, in log-log space -/
theorem kissel_extension_spec (hg : kisselGuard T Z shell E = true)
    (hlow : Real.log E < knot (T.E_Photo_Partial_Kissel Z.toNat shell.toNat) 1) :
    Spec.CSb_Photo_Partial T Z shell E = .value (Real.exp
      (knot (T.Photo_Partial_Kissel Z.toNat shell.toNat) 1 +
        clampSlope ((knot (T.Photo_Partial_Kissel Z.toNat shell.toNat) 2 - knot (T.Photo_Partial_Kissel Z.toNat shell.toNat) 1) /
          (knot (T.E_Photo_Partial_Kissel Z.toNat shell.toNat) 2 - knot (T.E_Photo_Partial_Kissel Z.toNat shell.toNat) 1)) *
        (Real.log E - knot (T.E_Photo_Partial_Kissel Z.toNat shell.toNat) 1))) := by
  unfold Spec.CSb_Photo_Partial
  have hlow' : (XNum.log E : ℝ) < knot (T.E_Photo_Partial_Kissel Z.toNat shell.toNat) 1 := hlow
  simp only [hg, if_true, hlow', kisselExtension]
  rfl

/-- "bounded slope" -/
theorem clampSlope_bounded (m : ℝ) : |clampSlope m| ≤ 1 := by
  unfold clampSlope
  split_ifs with h1 h2
  · norm_num
  · norm_num
  · rw [abs_le]; constructor
    · norm_num at h2; linarith
    · norm_num at h1; linarith

/-- a slope already inside `[-1, 1]` is used as it is -/
theorem clampSlope_id (m : ℝ) (h : |m| ≤ 1) : clampSlope m = m := by
  obtain ⟨h1, h2⟩ := abs_le.1 h
  unfold clampSlope
  rw [if_neg (by norm_num; linarith), if_neg (by norm_num; linarith)]

/-- the extension joins the table continuously: at the first knot it gives the first tabulated value -/
theorem kissel_extension_at_first_knot (xa ya : Vec ℝ) :
    kisselExtension xa ya (knot xa 1) = Real.exp (knot ya 1) := by
  unfold kisselExtension
  rw [sub_self, mul_zero, add_zero]; rfl

/-- **inside the table**: `exp(spline(ln E))` on the sub-shell's own knots -/
theorem kissel_inside_spec (hg : kisselGuard T Z shell E = true)
    (hin : ¬ Real.log E < knot (T.E_Photo_Partial_Kissel Z.toNat shell.toNat) 1) :
    Spec.CSb_Photo_Partial T Z shell E =
      interp true (T.E_Photo_Partial_Kissel Z.toNat shell.toNat) (T.Photo_Partial_Kissel Z.toNat shell.toNat)
        (T.Photo_Partial_Kissel2 Z.toNat shell.toNat) (T.NE_Photo_Partial_Kissel Z.toNat shell.toNat) (Real.log E) Real.exp := by
  unfold Spec.CSb_Photo_Partial
  have hin' : ¬ (XNum.log E : ℝ) < knot (T.E_Photo_Partial_Kissel Z.toNat shell.toNat) 1 := hin
  simp only [hg, if_true, hin', if_false]
  rfl

theorem interp_none {g : Bool} {xa ya y2 : Vec ℝ} {n : Int} {tx : ℝ} {inv : ℝ → ℝ}
    (h : spline xa ya y2 n.toNat tx = none) : interp g xa ya y2 n tx inv = .fails := by
  unfold interp; rw [h]; split_ifs <;> rfl

theorem interp_some {xa ya y2 : Vec ℝ} {n : Int} {tx y : ℝ} {inv : ℝ → ℝ}
    (h : spline xa ya y2 n.toNat tx = some y) : interp true xa ya y2 n tx inv = .value (inv y) := by
  unfold interp; rw [h]; rfl

/-- **above the last knot** (beyond the 1e-7 slack of `splint`, known finding C02/splint-slack): an error, no
extrapolation -/
theorem kissel_no_extrapolation_above
    (hhigh : (1.0e-7 : ℝ) < Real.log E - knot (T.E_Photo_Partial_Kissel Z.toNat shell.toNat)
      (T.NE_Photo_Partial_Kissel Z.toNat shell.toNat).toNat)
    (hin : ¬ Real.log E < knot (T.E_Photo_Partial_Kissel Z.toNat shell.toNat) 1) :
    Spec.CSb_Photo_Partial T Z shell E = .fails := by
  by_cases hg : kisselGuard T Z shell E = true
  · rw [kissel_inside_spec T Z shell E hg hin, interp_none (no_extrapolation_partial _ _ _ _ _ (Or.inr hhigh))]
  · unfold Spec.CSb_Photo_Partial
    rw [if_neg hg]

/-- **below the edge**: an error -/
theorem kissel_below_edge_fails (h : E < T.EdgeEnergy_arr Z.toNat shell.toNat) :
    Spec.CSb_Photo_Partial T Z shell E = .fails := by
  unfold Spec.CSb_Photo_Partial
  rw [if_neg]
  intro hg
  exact ((kisselGuard_iff T Z shell E).1 hg).2.2.2.2.2 h

/-- at a knot (last of its duplicates, not the last knot) the value is the tabulated one -/
theorem kissel_at_knot (hg : kisselGuard T Z shell E = true) (hs : kisselShapeB T Z shell = true) (k : Nat) (hk : 1 ≤ k)
    (hkn : k < (T.NE_Photo_Partial_Kissel Z.toNat shell.toNat).toNat)
    (hE : Real.log E = knot (T.E_Photo_Partial_Kissel Z.toNat shell.toNat) k)
    (hstrict : knot (T.E_Photo_Partial_Kissel Z.toNat shell.toNat) k < knot (T.E_Photo_Partial_Kissel Z.toNat shell.toNat) (k + 1)) :
    Spec.CSb_Photo_Partial T Z shell E = .value (Real.exp (knot (T.Photo_Partial_Kissel Z.toNat shell.toNat) k)) := by
  obtain ⟨_, _, _, hocc, hedge, _⟩ := (kisselGuard_iff T Z shell E).1 hg
  obtain ⟨m, hm, hm2, hx, hy, h2, hsort, hlt⟩ := kisselShape_spec T Z shell hs hocc hedge
  have hmm : (T.NE_Photo_Partial_Kissel Z.toNat shell.toNat).toNat = m := by omega
  rw [hmm] at hkn
  have hin : ¬ Real.log E < knot (T.E_Photo_Partial_Kissel Z.toNat shell.toNat) 1 := by
    rw [hE]; exact not_lt.2 (hsort 1 k (le_refl _) hk (by omega))
  rw [kissel_inside_spec T Z shell E hg hin, hE]
  exact interp_some (by rw [hmm]; exact spline_at_knot _ _ _ _ hsort k hk hkn hstrict)

/-! ## concrete instances -/
section witness

noncomputable def knots01 : Vec ℝ := ⟨2, fun k => (k : ℝ)⟩
noncomputable def ys35 : Vec ℝ := ⟨2, fun k => 3 + 2 * (k : ℝ)⟩
noncomputable def zeros2 : Vec ℝ := ⟨2, fun _ => 0⟩
/-- abscissae `ln(1000·E)` for `E = 1, e` keV -/
noncomputable def knotsL : Vec ℝ := ⟨2, fun k => Real.log 1000 + (k : ℝ)⟩

/-- one element whose K shell (2 electrons, edge at 0.5 keV) has a Kissel table with knots `ln E = 0, 1` and
`ln σ = 3, 5` (slope 2, so the extension is clamped to slope 1), and one Compton-profile sub-shell on the grid
`ln(pz+1) = 0, 1`; Rayleigh and Compton tables on `E = 1, e` keV with the same ordinates; atomic weight `aw` -/
noncomputable def witK (aw : ℝ) : Tables ℝ :=
  { (default : Tables ℝ) with
    AtomicWeight_arr := fun _ => aw
    NE_Photo_Total_Kissel := fun _ => 1
    NE_Rayl := fun _ => 2
    NE_Compt := fun _ => 2
    E_Rayl_arr := fun _ => knotsL
    E_Compt_arr := fun _ => knotsL
    CS_Rayl_arr := fun _ => ys35
    CS_Compt_arr := fun _ => ys35
    CS_Rayl_arr2 := fun _ => zeros2
    CS_Compt_arr2 := fun _ => zeros2
    Electron_Config_Kissel := fun _ s => if s = 0 then 2 else 0
    EdgeEnergy_arr := fun _ _ => 1 / 2
    E_Photo_Partial_Kissel := fun _ _ => knots01
    Photo_Partial_Kissel := fun _ _ => ys35
    Photo_Partial_Kissel2 := fun _ _ => zeros2
    NE_Photo_Partial_Kissel := fun _ _ => 2
    NShells_ComptonProfiles := fun _ => 1
    Npz_ComptonProfiles := fun _ => 2
    UOCCUP_ComptonProfiles := fun _ => ⟨1, fun _ => 2⟩
    pz_ComptonProfiles := fun _ => knots01
    Partial_ComptonProfiles := fun _ _ => ys35
    Partial_ComptonProfiles2 := fun _ _ => zeros2 }

theorem wit_vec : vecOkB knots01 ys35 zeros2 2 = true := by
  simp [vecOkB, knots01, ys35, zeros2, knot]

theorem wit_sorted : SortedKnots knots01 2 := by
  rcases vecOkB_spec _ _ _ _ wit_vec with h | ⟨_, _, _, _, h⟩
  · omega
  · exact h

theorem witK_shape (aw : ℝ) (shell : Int) : kisselShapeB (witK aw) 1 shell = true := by
  unfold kisselShapeB kisselOkB
  rw [Bool.or_eq_true]
  right
  show (vecOkB knots01 ys35 zeros2 2 && (decide ((2 : Int) ≤ 2) && decide (knot knots01 1 < knot knots01 2))) = true
  rw [wit_vec]
  simp [knot, knots01]

theorem witK_col (aw : ℝ) (shell : Int) : profileColOkB (witK aw) 1 shell = true := by
  unfold profileColOkB
  rw [Bool.or_eq_true]
  right
  exact wit_vec

theorem witK_guard (aw : ℝ) (E : ℝ) (hE : 1 / 2 ≤ E) : kisselGuard (witK aw) 1 0 E = true := by
  rw [kisselGuard_iff]
  refine ⟨by omega, by omega, by norm_num; linarith, ?_, ?_, ?_⟩
  · show ¬ (2 : ℝ) < 1.0e-6; norm_num
  · show (0.0 : ℝ) < 1 / 2; norm_num
  · show ¬ E < 1 / 2; exact not_lt.2 hE

/-- between the edge (0.5 keV) and the first knot (1 keV): `σ = e³ · E` — the slope 2 of the first interval limited to 1 -/
example (E : ℝ) (h1 : 1 / 2 ≤ E) (h2 : E < 1) :
    Meets (Gen.CSb_Photo_Partial (witK 2) 1 0 E Slot.empty) Slot.empty (.value (Real.exp (3 + 1 * (Real.log E - 0)))) := by
  have := site_spec_CSb_Photo_Partial (witK 2) 1 0 E Slot.empty rfl (witK_shape 2 0)
  rw [kissel_extension_spec (witK 2) 1 0 E (witK_guard 2 E h1)
    (by show Real.log E < knot knots01 1
        simp only [knot, knots01, Nat.sub_self, Nat.cast_zero]
        exact Real.log_neg (by linarith) h2)] at this
  have hc : clampSlope ((knot ys35 2 - knot ys35 1) / (knot knots01 2 - knot knots01 1)) = 1 := by
    simp only [knot, ys35, knots01, clampSlope]; norm_num
  have e1 : knot ((witK 2).Photo_Partial_Kissel (1 : Int).toNat (0 : Int).toNat) 1 = 3 := by
    show knot ys35 1 = 3; simp [knot, ys35]
  have e2 : knot ((witK 2).E_Photo_Partial_Kissel (1 : Int).toNat (0 : Int).toNat) 1 = 0 := by
    show knot knots01 1 = 0; simp [knot, knots01]
  rw [show (witK 2).Photo_Partial_Kissel (1 : Int).toNat (0 : Int).toNat = ys35 from rfl,
    show (witK 2).E_Photo_Partial_Kissel (1 : Int).toNat (0 : Int).toNat = knots01 from rfl, hc] at this
  simpa [knot, ys35, knots01] using this

/-- at the first knot (1 keV): the tabulated `e³` -/
example : Meets (Gen.CSb_Photo_Partial (witK 2) 1 0 1 Slot.null) Slot.null (.value (Real.exp 3)) := by
  have := site_spec_CSb_Photo_Partial (witK 2) 1 0 1 Slot.null rfl (witK_shape 2 0)
  rw [kissel_at_knot (witK 2) 1 0 1 (witK_guard 2 1 (by norm_num)) (witK_shape 2 0) 1 (le_refl _)
    (by show 1 < (2 : Int).toNat; decide)
    (by show Real.log 1 = knot knots01 1; simp [knot, knots01])
    (by show knot knots01 1 < knot knots01 (1 + 1); simp [knot, knots01])] at this
  have e : knot ((witK 2).Photo_Partial_Kissel (1 : Int).toNat (0 : Int).toNat) 1 = 3 := by
    show knot ys35 1 = 3; simp [knot, ys35]
  rw [e] at this; exact this

/-- below the edge: an error -/
example : Fails (Gen.CSb_Photo_Partial (witK 2) 1 0 (1 / 4) Slot.empty) Slot.empty := by
  have := site_spec_CSb_Photo_Partial (witK 2) 1 0 (1 / 4) Slot.empty rfl (witK_shape 2 0)
  rwa [kissel_below_edge_fails (witK 2) 1 0 (1 / 4) (by show (1 / 4 : ℝ) < 1 / 2; norm_num)] at this

/-- above the last knot (`E = e²`, `ln E = 2 > 1`): an error -/
example : Fails (Gen.CSb_Photo_Partial (witK 2) 1 0 (Real.exp 2) Slot.empty) Slot.empty := by
  have := site_spec_CSb_Photo_Partial (witK 2) 1 0 (Real.exp 2) Slot.empty rfl (witK_shape 2 0)
  rwa [kissel_no_extrapolation_above (witK 2) 1 0 (Real.exp 2)
    (by show (1.0e-7 : ℝ) < Real.log (Real.exp 2) - knot knots01 (2 : Int).toNat
        rw [Real.log_exp]; simp [knot, knots01]; norm_num)
    (by show ¬ Real.log (Real.exp 2) < knot knots01 1
        rw [Real.log_exp]; simp [knot, knots01])] at this

theorem witK_profile (aw : ℝ) : profileOkB (witK aw) 1 = true := by
  unfold profileOkB
  show (decide ((1 : Int) ≤ Hdr.SHELLNUM_C) && decide ((1 : Int) ≤ 1) && (decide ((1 : Int) < 1) || decide ((1 : Int) ≤ 2))) = true
  decide

/-- the sub-shell profile at `pz = 0` (first knot): the tabulated `e³` -/
example : Meets (Gen.ComptonProfile_Partial (witK 2) 1 0 0 Slot.empty) Slot.empty (.value (Real.exp 3)) := by
  have := site_spec_ComptonProfile_Partial (witK 2) 1 0 0 Slot.empty rfl (witK_col 2 _) (witK_profile 2)
  have hg : hasProfile (witK 2) 1 0 = true := by
    rw [hasProfile_iff]
    refine ⟨by omega, le_refl _, by show (0 : Int) < 1; omega, ?_⟩
    show ¬ (2 : ℝ) = 0.0; norm_num
  have hsp : spline knots01 ys35 zeros2 2 (Real.log (0 + 1.0)) = some 3 := by
    have h := spline_at_knot knots01 ys35 zeros2 2 wit_sorted 1 (le_refl _) (by omega) (by simp [knot, knots01])
    have e : Real.log (0 + 1.0) = knot knots01 1 := by norm_num [knot, knots01]
    rw [e, h]; simp [knot, ys35]
  unfold Spec.ComptonProfile_Partial interp at this
  have h0 : (0.0 : ℝ) ≤ 0 := by norm_num
  simp only [hg, Bool.true_and, h0, decide_true, if_true] at this
  rw [show (witK 2).pz_ComptonProfiles (1 : Int).toNat = knots01 from rfl,
    show (witK 2).Partial_ComptonProfiles (1 : Int).toNat (0 : Int).toNat = ys35 from rfl,
    show (witK 2).Partial_ComptonProfiles2 (1 : Int).toNat (0 : Int).toNat = zeros2 from rfl,
    show ((witK 2).Npz_ComptonProfiles (1 : Int).toNat).toNat = 2 from rfl,
    show (XNum.log ((0 : ℝ) + 1.0) : ℝ) = Real.log (0 + 1.0) from rfl, hsp] at this
  exact this

/-- a sub-shell the element does not have: an error -/
example : Fails (Gen.ComptonProfile_Partial (witK 2) 1 1 0 Slot.empty) Slot.empty := by
  have := site_spec_ComptonProfile_Partial (witK 2) 1 1 0 Slot.empty rfl (witK_col 2 _) (witK_profile 2)
  have hg : hasProfile (witK 2) 1 1 = false := by
    rw [← Bool.not_eq_true, hasProfile_iff]
    rintro ⟨_, _, h, _⟩
    exact absurd h (by show ¬ (1 : Int) < 1; omega)
  unfold Spec.ComptonProfile_Partial interp at this
  simpa only [hg, Bool.false_and, Bool.false_eq_true, if_false, Meets] using this

/-- an unoccupied sub-shell (L1 of the instance): an error without any assumption on its table -/
example (E : ℝ) : Fails (Gen.CSb_Photo_Partial (witK 2) 1 1 E Slot.empty) Slot.empty :=
  (kissel_unreadable_fails (witK 2) 1 1 E Slot.empty rfl (by
    unfold kisselReadable
    have : decide ((witK 2).Electron_Config_Kissel (1 : Int).toNat (1 : Int).toNat < (1.0e-6 : ℝ)) = true :=
      decide_eq_true (by show (0 : ℝ) < 1.0e-6; norm_num)
    rw [this]; rfl)).1

end witness

end C02
end Xrl
