import Xrl.Lemmas.Tactics
import Xrl.Spec.Lookup
import Xrl.Gen.F_atomicweight
import Xrl.Gen.F_densities
import Xrl.Gen.F_edges
import Xrl.Gen.F_fluor_yield
import Xrl.Gen.F_jump
import Xrl.Gen.F_atomiclevelwidth
import Xrl.Gen.F_coskron
import Xrl.Gen.F_kissel_pe
import Xrl.Gen.F_auger_trans
import Xrl.Gen.F_comptonprofiles
/-!
# C01 — scalar lookups return exactly the shipped table value, or an error

Every theorem is about the definition *generated from the C source of the working tree* (`Xrl.Gen.*`),
for every table content `T`, every `int` argument and every non-full error slot.
The expectations (`Spec.*`, file Spec/Lookup.lean) use the macro ranges of the public headers.
-/
namespace Xrl
namespace C01
open Spec

macro "c01_lookup" f:ident s:ident : tactic =>
  `(tactic| (
    unfold $s
    simp only [lookup1, lookup2, zOk, mOk, Hdr.ZMAX, Hdr.SHELLNUM, Hdr.SHELLNUM_K, Hdr.TRANSNUM, Hdr.AUGERNUM,
      Hdr.LINENUM, Hdr.K_SHELL, Hdr.M5_SHELL, Hdr.FL12_TRANS, Hdr.FM45_TRANS, Hdr.K_L1L1_AUGER, id, decide_eq_true_eq]
    split_ifs with hd
    · unfold $f Meets Returns
      xrl_guards
    · unfold $f Meets
      simp only [setErr_notFull (by assumption)]
      xrl_guards))

variable (T : Tables ℝ) (Z m : Int) (error : Slot) (he : error.isFull = false)
include he

theorem lookup_spec_AtomicWeight : Meets (Gen.AtomicWeight T Z error) error (Spec.AtomicWeight T Z) := by
  c01_lookup Gen.AtomicWeight Spec.AtomicWeight

theorem lookup_spec_ElementDensity : Meets (Gen.ElementDensity T Z error) error (Spec.ElementDensity T Z) := by
  c01_lookup Gen.ElementDensity Spec.ElementDensity

theorem lookup_spec_EdgeEnergy : Meets (Gen.EdgeEnergy T Z m error) error (Spec.EdgeEnergy T Z m) := by
  c01_lookup Gen.EdgeEnergy Spec.EdgeEnergy

theorem lookup_spec_FluorYield : Meets (Gen.FluorYield T Z m error) error (Spec.FluorYield T Z m) := by
  c01_lookup Gen.FluorYield Spec.FluorYield

theorem lookup_spec_JumpFactor : Meets (Gen.JumpFactor T Z m error) error (Spec.JumpFactor T Z m) := by
  c01_lookup Gen.JumpFactor Spec.JumpFactor

theorem lookup_spec_AtomicLevelWidth : Meets (Gen.AtomicLevelWidth T Z m error) error (Spec.AtomicLevelWidth T Z m) := by
  c01_lookup Gen.AtomicLevelWidth Spec.AtomicLevelWidth

theorem lookup_spec_CosKronTransProb : Meets (Gen.CosKronTransProb T Z m error) error (Spec.CosKronTransProb T Z m) := by
  c01_lookup Gen.CosKronTransProb Spec.CosKronTransProb

theorem lookup_spec_ElectronConfig : Meets (Gen.ElectronConfig T Z m error) error (Spec.ElectronConfig T Z m) := by
  c01_lookup Gen.ElectronConfig Spec.ElectronConfig

theorem lookup_spec_AugerRate : Meets (Gen.AugerRate T Z m error) error (Spec.AugerRate T Z m) := by
  c01_lookup Gen.AugerRate Spec.AugerRate

theorem lookup_spec_AugerYield : Meets (Gen.AugerYield T Z m error) error (Spec.AugerYield T Z m) := by
  c01_lookup Gen.AugerYield Spec.AugerYield

/-- Biggs occupancies live in a heap vector per element; the only shape assumption is that the vector holds the
`NShells` entries the count table announces -/
theorem lookup_spec_ElectronConfig_Biggs
    (hlen : T.NShells_ComptonProfiles Z.toNat ≤ (T.UOCCUP_ComptonProfiles Z.toNat).len) :
    Meets (Gen.ElectronConfig_Biggs T Z m error) error (Spec.ElectronConfig_Biggs T Z m) := by
  unfold Spec.ElectronConfig_Biggs zOk
  simp only [Hdr.ZMAX]
  split_ifs with hd
  · unfold Gen.ElectronConfig_Biggs Meets Returns
    xrl_guards
  · unfold Gen.ElectronConfig_Biggs Meets
    simp only [setErr_notFull (by assumption)]
    xrl_guards

end C01
end Xrl
