import Xrl.Props.C08e
/-!
# C08 — part 2e: the variants are ordered

`none ≤ radiative`, `none ≤ non-radiative`, `radiative ≤ full`, `non-radiative ≤ full` for the vacancyProd productions, the
shell and the line cross sections — wherever the transfer coefficients of the smaller variant are non-negative and
not larger than those of the bigger one (`TransferLE`).  For `none → radiative` this is automatic (yields, rates and
Coster–Kronig probabilities returned by the accessors are positive or 0); for the pairs involving the precomputed
constants it is the explicit hypothesis `0 ≤ cell ≤ cell'` on the table cells.  Lines additionally need a
non-negative radiative rate (explicit hypothesis `hr`; automatic for single lines).

`ExpLE x y` : both fail, or both are values and `x ≤ y` — so the theorems also say that the variants fail together.
-/
namespace Xrl
namespace C08
open Spec

set_option linter.unusedSimpArgs false
set_option linter.unusedVariables false

/-- both fail, or both are values and the first is not larger -/
def ExpLE : Expect ℝ → Expect ℝ → Prop
  | .value a, .value b => a ≤ b
  | .fails, .fails => True
  | .any, .any => True
  | _, _ => False

theorem ExpLE.valOr0_le {x y : Expect ℝ} (h : ExpLE x y) : valOr0 x ≤ valOr0 y := by
  cases x <;> cases y <;> simp_all [ExpLE, valOr0]

theorem ExpLE.values {x y : Expect ℝ} (h : ExpLE x y) {a b : ℝ} (hx : x = .value a) (hy : y = .value b) : a ≤ b := by
  subst hx hy; exact h

/-- variant `v` transfers no more than variant `v'`, and nothing negative -/
def TransferLE (T : Tables ℝ) (Z : Int) (v v' : Variant) : Prop :=
  ∀ t s : Int, 0 ≤ transfer T Z t s v ∧ transfer T Z t s v ≤ transfer T Z t s v'

variable (T : Tables ℝ) (Z : Int) (E : ℝ)

/-! ## the accessor values are non-negative -/

theorem ckProb_nonneg (tr : Int) : 0 ≤ ckProb T Z tr := by
  unfold ckProb
  apply C10.valOr0_nonneg_of
  intro v hv
  unfold Spec.CosKronTransProb lookup2 at hv
  split_ifs at hv with h
  injection hv with hv; rw [← hv]; have := h.2.2; norm_num at this; exact this

theorem flYield_nonneg (s : Int) : 0 ≤ flYield T Z s := by
  unfold flYield
  apply C10.valOr0_nonneg_of
  intro v hv
  unfold Spec.FluorYield lookup2 at hv
  split_ifs at hv with h
  injection hv with hv; rw [← hv]; have := h.2.2; norm_num at this; exact this

theorem rad_feed_plain : ∀ p ∈ Hdr.rad_feed, p.2 ≠ 0 ∧ p.2 ≠ 1 ∧ p.2 ≠ 2 ∧ p.2 ≠ 3 := by decide

theorem transfer_rad_nonneg (t s : Int) : 0 ≤ transfer T Z t s .rad := by
  unfold transfer
  cases h : radLine t s with
  | none => simp only []; norm_num
  | some l =>
    simp only []
    unfold radLine at h
    obtain ⟨p, hp, rfl⟩ := Option.map_eq_some_iff.1 h
    have hm := List.mem_of_find?_eq_some hp
    have hpl := rad_feed_plain p hm
    have : 0 ≤ radRate T Z p.2 := by
      unfold radRate
      rw [C10.radRate_plain T Z p.2 hpl]
      exact C10.singleRate_nonneg T Z p.2
    exact mul_nonneg (flYield_nonneg T Z s) this

/-- no cascade ≤ radiative cascade: holds for every table -/
theorem transferLE_none_rad : TransferLE T Z .none .rad := by
  intro t s
  have : transfer T Z t s .none = 0 := by unfold transfer; norm_num
  rw [this]; exact ⟨le_refl _, transfer_rad_nonneg T Z t s⟩

/-- no cascade ≤ non-radiative cascade, given non-negative constants -/
theorem transferLE_none_auger (h : ∀ t s, 0 ≤ cellAuger T Z t s) : TransferLE T Z .none .auger := by
  intro t s
  have : transfer T Z t s .none = 0 := by unfold transfer; norm_num
  rw [this]; exact ⟨le_refl _, h t s⟩

/-- non-radiative ≤ full, given `0 ≤ auger-only constant ≤ full constant` -/
theorem transferLE_auger_full (h : ∀ t s, 0 ≤ cellAuger T Z t s ∧ cellAuger T Z t s ≤ cellFull T Z t s) :
    TransferLE T Z .auger .full := fun t s => h t s

/-- radiative ≤ full, given `yield × rate ≤ full constant` (what `const_full_spec` of Part 1 gives when the Auger part
is non-negative) -/
theorem transferLE_rad_full (h : ∀ t s, transfer T Z t s .rad ≤ cellFull T Z t s) : TransferLE T Z .rad .full :=
  fun t s => ⟨transfer_rad_nonneg T Z t s, h t s⟩

/-! ## monotonicity of the sums -/

theorem ck_inner_mono (l : List Int) (c : Int → ℝ) (hc : ∀ tr, 0 ≤ c tr) {a a' p p' : ℝ} (ha : a ≤ a') (hp : p ≤ p') :
    l.foldl (fun x tr => x + c tr * p) a ≤ l.foldl (fun x tr => x + c tr * p') a' := by
  induction l generalizing a a' with
  | nil => exact ha
  | cons tr l ih =>
    simp only [List.foldl_cons]
    exact ih (add_le_add ha (mul_le_mul_of_nonneg_left hp (hc tr)))

theorem ck_inner_ge (l : List Int) (c : Int → ℝ) (hc : ∀ tr, 0 ≤ c tr) {a p : ℝ} (hp : 0 ≤ p) :
    a ≤ l.foldl (fun x tr => x + c tr * p) a := by
  induction l generalizing a with
  | nil => exact le_refl _
  | cons tr l ih =>
    simp only [List.foldl_cons]
    exact le_trans (le_add_of_nonneg_right (mul_nonneg (hc tr) hp)) ih

/-- Coster–Kronig part of the vacancyProd production -/
noncomputable def ckSum (t : Int) (P : Int → ℝ) (o : ℝ) : ℝ :=
  (lowerSame t).foldl (fun acc u =>
    if (0.0 : ℝ) < P u then (ckList t u).foldl (fun a tr => a + ckProb T Z tr * P u) acc else acc) o

/-- the vacancyProd production as one expression for all four variants (`transfer … .none = 0`) -/
noncomputable def vacVal (t : Int) (v : Variant) (P : Int → ℝ) (o : ℝ) : ℝ :=
  (inner t).foldl (fun acc s => if (0.0 : ℝ) < P s then acc + P s * transfer T Z t s v else acc) (ckSum T Z t P o)

theorem foldl_none (l : List Int) (P : Int → ℝ) (t : Int) (a : ℝ) :
    l.foldl (fun acc s => if (0.0 : ℝ) < P s then acc + P s * transfer T Z t s .none else acc) a = a := by
  induction l generalizing a with
  | nil => rfl
  | cons s l ih =>
    simp only [List.foldl_cons]
    have : transfer T Z t s .none = 0 := by unfold transfer; norm_num
    rw [this, mul_zero, add_zero, ite_self]
    exact ih a

theorem vacancy_value (t : Int) (v : Variant) (P : Int → ℝ) (o : ℝ) :
    vacancyProd T Z t v P (.value o) = .value (vacVal T Z t v P o) := by
  cases v
  · simp only [vacancyProd, vacVal, ckSum, foldl_none]
  all_goals simp only [vacancyProd, vacVal, ckSum]

theorem ckSum_mono (t : Int) {P P' : Int → ℝ} (hP : ∀ s, P s ≤ P' s) (o : ℝ) : ckSum T Z t P o ≤ ckSum T Z t P' o := by
  unfold ckSum
  have key : ∀ (l : List Int) (a a' : ℝ), a ≤ a' →
      l.foldl (fun acc u => if (0.0 : ℝ) < P u then (ckList t u).foldl (fun a tr => a + ckProb T Z tr * P u) acc else acc) a ≤
      l.foldl (fun acc u => if (0.0 : ℝ) < P' u then (ckList t u).foldl (fun a tr => a + ckProb T Z tr * P' u) acc else acc) a' := by
    intro l
    induction l with
    | nil => intro a a' h; exact h
    | cons u l ih =>
      intro a a' h
      simp only [List.foldl_cons]
      apply ih
      rw [zero_lit]
      by_cases h1 : 0 < P u
      · have h2 : 0 < P' u := lt_of_lt_of_le h1 (hP u)
        simp only [h1, h2, if_true]
        exact ck_inner_mono _ _ (ckProb_nonneg T Z) h (hP u)
      · by_cases h2 : 0 < P' u
        · simp only [h1, h2, if_true, if_false]
          exact le_trans h (ck_inner_ge _ _ (ckProb_nonneg T Z) h2.le)
        · simp only [h1, h2, if_false]; exact h
  exact key _ o o (le_refl _)

theorem vacVal_mono (t : Int) {v v' : Variant} (hle : TransferLE T Z v v') {P P' : Int → ℝ} (hP : ∀ s, P s ≤ P' s) (o : ℝ) :
    vacVal T Z t v P o ≤ vacVal T Z t v' P' o := by
  unfold vacVal
  have key : ∀ (l : List Int) (a a' : ℝ), a ≤ a' →
      l.foldl (fun acc s => if (0.0 : ℝ) < P s then acc + P s * transfer T Z t s v else acc) a ≤
      l.foldl (fun acc s => if (0.0 : ℝ) < P' s then acc + P' s * transfer T Z t s v' else acc) a' := by
    intro l
    induction l with
    | nil => intro a a' h; exact h
    | cons s l ih =>
      intro a a' h
      simp only [List.foldl_cons]
      apply ih
      rw [zero_lit]
      obtain ⟨t0, t1⟩ := hle t s
      by_cases h1 : 0 < P s
      · have h2 : 0 < P' s := lt_of_lt_of_le h1 (hP s)
        simp only [h1, h2, if_true]
        have : P s * transfer T Z t s v ≤ P' s * transfer T Z t s v' :=
          le_trans (mul_le_mul_of_nonneg_right (hP s) t0) (mul_le_mul_of_nonneg_left t1 h2.le)
        exact add_le_add h this
      · by_cases h2 : 0 < P' s
        · simp only [h1, h2, if_true, if_false]
          exact le_trans h (le_add_of_nonneg_right (mul_nonneg h2.le (le_trans t0 t1)))
        · simp only [h1, h2, if_false]; exact h
  exact key _ _ _ (ckSum_mono T Z t hP o)

theorem vacancy_le (t : Int) {v v' : Variant} (hle : TransferLE T Z v v') {P P' : Int → ℝ} (hP : ∀ s, P s ≤ P' s)
    (own : Expect ℝ) : ExpLE (vacancyProd T Z t v P own) (vacancyProd T Z t v' P' own) := by
  cases own with
  | value o => rw [vacancy_value, vacancy_value]; exact vacVal_mono T Z t hle hP o
  | fails => trivial
  | any => trivial

variable (own : Int → Expect ℝ)

theorem innerP_le {v v' : Variant} (hle : TransferLE T Z v v') (n : Nat) (s : Int) :
    innerP T Z v own n s ≤ innerP T Z v' own n s := by
  induction n generalizing s with
  | zero => exact le_refl _
  | succ n ih =>
    simp only [innerP]
    by_cases h : s = (n : Int)
    · simp only [h, if_true]
      exact (vacancy_le T Z n hle ih (own n)).valOr0_le
    · simp only [h, if_false]; exact ih s

/-! ## shells and lines -/

theorem scaleBy_le {y : ℝ} (hy : 0 ≤ y) {x x' : Expect ℝ} (h : ExpLE x x') : ExpLE (scaleBy y x) (scaleBy y x') := by
  cases x <;> cases x' <;> simp_all [ExpLE, scaleBy]
  exact mul_le_mul_of_nonneg_right h hy

/-- the smaller variant's shell cross section is not larger, and the two fail together -/
theorem variants_ordered_shell {v v' : Variant} (hle : TransferLE T Z v v') (shell : Int) :
    ExpLE (fluorShell T Z shell E v own) (fluorShell T Z shell E v' own) := by
  unfold fluorShell withYield
  split_ifs <;> try trivial
  cases hy : Spec.FluorYield T Z shell with
  | value y =>
    simp only []
    have ypos : 0 ≤ y := by
      unfold Spec.FluorYield lookup2 at hy
      split_ifs at hy with hc
      injection hy with hy
      rw [← hy]; have := hc.2.2; norm_num at this; exact this.le
    exact scaleBy_le ypos (vacancy_le T Z shell hle (innerP_le T Z own hle _) (own shell))
  | fails => trivial
  | any => trivial

theorem lineValue_le {R : Expect ℝ} (hr : ∀ r, R = .value r → 0 ≤ r) {x x' : Expect ℝ} (h : ExpLE x x') :
    ExpLE (lineValue R x) (lineValue R x') := by
  cases R with
  | value r =>
    have := hr r rfl
    cases x <;> cases x' <;> simp_all [ExpLE, lineValue]
    exact mul_le_mul_of_nonneg_right h this
  | fails => cases x <;> cases x' <;> simp_all [ExpLE, lineValue]
  | any => cases x <;> cases x' <;> simp_all [ExpLE, lineValue]

theorem fluorLine1_le {v v' : Variant} (hle : TransferLE T Z v v') (line : Int)
    (hr : ∀ r, Spec.RadRate T Z line = .value r → 0 ≤ r) :
    ExpLE (fluorLine1 T Z line E v own) (fluorLine1 T Z line E v' own) := by
  unfold fluorLine1
  by_cases h1 : zOk Z = false
  · simp only [h1, if_true]; trivial
  · by_cases h2 : E ≤ (0.0 : ℝ)
    · simp only [h1, h2, if_true, if_false]; trivial
    · simp only [h1, h2, if_false]
      cases lineShellK line with
      | some s => exact lineValue_le hr (variants_ordered_shell T Z E own hle s)
      | none =>
        simp only []
        by_cases h3 : line = Hdr.LA_LINE
        · simp only [h3, if_true]
          exact lineValue_le (by rw [← h3]; exact hr) (variants_ordered_shell T Z E own hle _)
        · simp only [h3, if_false]; trivial

theorem foldl_sum_le (l : List Int) (g g' : Int → ℝ) (h : ∀ m ∈ l, g m ≤ g' m) {a a' : ℝ} (ha : a ≤ a') :
    l.foldl (fun acc m => acc + g m) a ≤ l.foldl (fun acc m => acc + g' m) a' := by
  induction l generalizing a a' with
  | nil => exact ha
  | cons m l ih =>
    simp only [List.foldl_cons]
    exact ih (fun m' hm' => h m' (List.mem_cons_of_mem _ hm')) (add_le_add ha (h m (List.mem_cons_self ..)))

/-- lines: whenever both variants give a value, the smaller variant's is not larger (`hr`: the radiative rates involved
— of the line, and of the 13 members for L-beta — are non-negative) -/
theorem variants_ordered_line {v v' : Variant} (hle : TransferLE T Z v v') (line : Int)
    (hr : ∀ l r, Spec.RadRate T Z l = .value r → 0 ≤ r) {a b : ℝ}
    (ha : fluorLine T Z line E v own = .value a) (hb : fluorLine T Z line E v' own = .value b) : a ≤ b := by
  unfold fluorLine at ha hb
  by_cases h3 : line = Hdr.LB_LINE
  · simp only [h3, if_true] at ha hb
    split_ifs at ha hb
    injection ha with ha; injection hb with hb
    rw [← ha, ← hb]
    exact foldl_sum_le _ _ _ (fun m _ => (fluorLine1_le T Z E own hle m (hr m)).valOr0_le) (le_refl _)
  · simp only [h3, if_false] at ha hb
    exact (fluorLine1_le T Z E own hle line (hr line)).values ha hb

/-! ## the two orderings of the property text, at the level of the generated functions -/

variable (error : Slot)

/-- values returned by two calls that meet ordered expectations are ordered (failing calls return 0) -/
theorem meets_le {r r' : M (ℝ × Slot)} {x x' : Expect ℝ} (h : Meets r error x) (h' : Meets r' error x')
    (hle : ExpLE x x') (hna : x ≠ .any) {a b : ℝ} {e1 e2 : Slot} (ha : r = Except.ok (a, e1)) (hb : r' = Except.ok (b, e2)) :
    a ≤ b := by
  rcases Meets.cases h with ⟨p, rfl, hr⟩ | ⟨rfl, e, _, _, hr⟩ | rfl
  · rcases Meets.cases h' with ⟨q, rfl, hq⟩ | ⟨rfl, e, _, _, hq⟩ | rfl
    · rw [hr] at ha; rw [hq] at hb
      injection ha with ha; injection hb with hb
      injection ha with ha _; injection hb with hb _
      rw [← ha, ← hb]; exact hle
    · exact absurd hle (by simp [ExpLE])
    · exact absurd hle (by simp [ExpLE])
  · rcases Meets.cases h' with ⟨q, rfl, hq⟩ | ⟨rfl, e', _, _, hq⟩ | rfl
    · exact absurd hle (by simp [ExpLE])
    · rw [hr] at ha; rw [hq] at hb
      injection ha with ha; injection hb with hb
      injection ha with ha _; injection hb with hb _
      rw [← ha, ← hb]
    · exact absurd hle (by simp [ExpLE])
  · exact absurd rfl hna

/-- none ≤ radiative for the shell functions: every table, element, shell, energy -/
theorem variants_ordered_none_rad_shell (shell : Int) (he : error.isFull = false) (ho : OwnOK T Z E own)
    {a b : ℝ} {e1 e2 : Slot}
    (ha : Gen.CS_FluorShell_Kissel_no_Cascade T Z shell E error = Except.ok (a, e1))
    (hb : Gen.CS_FluorShell_Kissel_Radiative_Cascade T Z shell E error = Except.ok (b, e2)) : a ≤ b :=
  meets_le error (fluorshell_spec_none T Z E error own shell he ho) (fluorshell_spec_rad T Z E error own shell he ho)
    (variants_ordered_shell T Z E own (transferLE_none_rad T Z) shell) (fluorShell_ne_any T Z E ho.ne_any shell) ha hb

/-- non-radiative ≤ full for the shell functions, given `0 ≤ auger-only constant ≤ full constant` -/
theorem variants_ordered_auger_full_shell (shell : Int) (he : error.isFull = false) (ho : OwnOK T Z E own)
    (hc : ∀ t s, 0 ≤ cellAuger T Z t s ∧ cellAuger T Z t s ≤ cellFull T Z t s)
    {a b : ℝ} {e1 e2 : Slot}
    (ha : Gen.CS_FluorShell_Kissel_Nonradiative_Cascade T Z shell E error = Except.ok (a, e1))
    (hb : Gen.CS_FluorShell_Kissel_Cascade T Z shell E error = Except.ok (b, e2)) : a ≤ b :=
  meets_le error (fluorshell_spec_auger T Z E error own shell he ho) (fluorshell_spec_full T Z E error own shell he ho)
    (variants_ordered_shell T Z E own (transferLE_auger_full T Z hc) shell) (fluorShell_ne_any T Z E ho.ne_any shell) ha hb

/-! ## lines, at the level of the generated functions -/

/-- a call that meets its expectation returns the expected value, or 0 when it must fail -/
theorem meets_val {r : M (ℝ × Slot)} {x : Expect ℝ} (h : Meets r error x) (hna : x ≠ .any) {a : ℝ} {e1 : Slot}
    (ha : r = Except.ok (a, e1)) : a = valOr0 x := by
  rcases Meets.cases h with ⟨p, rfl, hr⟩ | ⟨rfl, e, _, _, hr⟩ | rfl
  · rw [hr] at ha; injection ha with ha; injection ha with ha _; rw [← ha]; rfl
  · rw [hr] at ha; injection ha with ha; injection ha with ha _; rw [← ha]; show (0 : ℝ) = (0.0 : ℝ); norm_num
  · exact absurd rfl hna

theorem fluorLine_ne_any {v : Variant} (hna : ∀ t, own t ≠ .any) (line : Int) : fluorLine T Z line E v own ≠ .any := by
  unfold fluorLine
  by_cases h3 : line = Hdr.LB_LINE
  · simp only [h3, if_true]; split_ifs <;> simp
  · simp only [h3, if_false]; exact fluorLine1_ne_any T Z E line hna

/-- the value a line call returns (0 when it fails) is monotone in the variant; for L-beta this is the sum of the
members' values whether or not it vanishes -/
theorem fluorLine_valOr0_le {v v' : Variant} (hle : TransferLE T Z v v') (line : Int)
    (hr : ∀ l r, Spec.RadRate T Z l = .value r → 0 ≤ r) :
    valOr0 (fluorLine T Z line E v own) ≤ valOr0 (fluorLine T Z line E v' own) := by
  have key : ∀ s : ℝ, valOr0 (if deq s (0.0 : ℝ) then (.fails : Expect ℝ) else .value s) = s := by
    intro s
    split_ifs with h
    · rw [deq_real, zero_lit] at h; rw [h]; show (0.0 : ℝ) = 0; norm_num
    · rfl
  unfold fluorLine
  by_cases h3 : line = Hdr.LB_LINE
  · simp only [h3, if_true]
    by_cases h1 : zOk Z = false
    · simp only [h1, if_true]; exact le_refl _
    · by_cases h2 : E ≤ (0.0 : ℝ)
      · simp only [h1, h2, if_true, if_false]; exact le_refl _
      · simp only [h1, h2, if_false, Bool.true_eq_false, key]
        exact foldl_sum_le _ _ _ (fun m _ => (fluorLine1_le T Z E own hle m (hr m)).valOr0_le) (le_refl _)
  · simp only [h3, if_false]
    exact (fluorLine1_le T Z E own hle line (hr line)).valOr0_le

/-- none ≤ radiative for the line functions (rates non-negative; intra-M macros as in `fluorline_spec_*`) -/
theorem variants_ordered_none_rad_line (line : Int) (he : error.isFull = false) (ho : OwnOK T Z E own)
    (hM : line ∈ intraM → Spec.RadRate T Z line = .fails)
    (hr : ∀ l r, Spec.RadRate T Z l = .value r → 0 ≤ r) {a b : ℝ} {e1 e2 : Slot}
    (ha : Gen.CS_FluorLine_Kissel_no_Cascade T Z line E error = Except.ok (a, e1))
    (hb : Gen.CS_FluorLine_Kissel_Radiative_Cascade T Z line E error = Except.ok (b, e2)) : a ≤ b := by
  rw [meets_val error (fluorline_spec_none T Z E error line own he ho hM) (fluorLine_ne_any T Z E own ho.ne_any line) ha,
    meets_val error (fluorline_spec_rad T Z E error line own he ho hM) (fluorLine_ne_any T Z E own ho.ne_any line) hb]
  exact fluorLine_valOr0_le T Z E own (transferLE_none_rad T Z) line hr

/-- non-radiative ≤ full for the line functions, given `0 ≤ auger-only constant ≤ full constant` -/
theorem variants_ordered_auger_full_line (line : Int) (he : error.isFull = false) (ho : OwnOK T Z E own)
    (hM : line ∈ intraM → Spec.RadRate T Z line = .fails)
    (hr : ∀ l r, Spec.RadRate T Z l = .value r → 0 ≤ r)
    (hc : ∀ t s, 0 ≤ cellAuger T Z t s ∧ cellAuger T Z t s ≤ cellFull T Z t s) {a b : ℝ} {e1 e2 : Slot}
    (ha : Gen.CS_FluorLine_Kissel_Nonradiative_Cascade T Z line E error = Except.ok (a, e1))
    (hb : Gen.CS_FluorLine_Kissel_Cascade T Z line E error = Except.ok (b, e2)) : a ≤ b := by
  rw [meets_val error (fluorline_spec_auger T Z E error line own he ho hM) (fluorLine_ne_any T Z E own ho.ne_any line) ha,
    meets_val error (fluorline_spec_full T Z E error line own he ho hM) (fluorLine_ne_any T Z E own ho.ne_any line) hb]
  exact fluorLine_valOr0_le T Z E own (transferLE_auger_full T Z hc) line hr

end C08
end Xrl
