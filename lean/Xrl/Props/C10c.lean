import Xrl.Props.C10b
import Xrl.Spec.GroupsText
import Xrl.Spec.Invariants
/-!
# C10 — the fallback clause and the "between" clause against the code AS IT IS (before notes/proposed_fixes/C10-8.diff)

"… falling back to the plain mean of the members that have an energy when no rates exist, and is an error when no member has an
energy."  fluor_lines.c implements the fallback for L-alpha and the seven doublets (`LineEnergyComposed`) only; for K-alpha,
K-beta and L-beta it reports an error when the weights of the members that have an energy do not sum to a positive number.
`Spec.wmean` was written to agree with the code; `Spec.LineEnergyText` (Spec/GroupsText.lean) is the text.

* `line_energy_fallback_full`        : the generated `LineEnergy` meets the text for every macro other than L-beta;
  `line_energy_fallback_full_fails`  : refuted on `kaWit` (KL1 at 2 keV, KL2 at 4 keV, no radiative rates): the text gives 3 keV,
                                       the code returns 0 with an error;
  `line_energy_fallback_composed_fails`: refuted a second way on `laWit` (L3M4 at 2 keV with rate 1, L3M5 with rate 1 and NO energy):
                                       the code returns 1 keV for L-alpha — below the energy of its only member that has one (the
                                       "between" clause fails too: `la_below_members`); the text gives 2 keV;
* `line_energy_lb_fallback_full`     : the same for L-beta against `Spec.LineEnergyLBText`;
  `line_energy_lb_fallback_full_fails`: refuted on `lbWitN` (LB3 at 2 keV, LB4 at 4 keV, no rates hence no cross sections);
* `line_energy_fallback_partial`     : the code meets the text wherever the two specifications agree, and they agree
  (`wmean_eq_text`, `composed_eq_text`) exactly off the witness sets: `needsFallback … = false` for K-alpha / K-beta,
  `rateWithoutEnergyAt … = false` (no member with a rate but without an energy next to a member that has one) for L-alpha and the
  doublets (`Spec.fallbackCases`, `Spec.rateWithoutEnergy`: executable lists over the whole table).
-/
namespace Xrl
namespace C10
open Spec

set_option linter.unusedSimpArgs false
set_option linter.unusedVariables false

/-! ## the two readings of a group mean -/

/-- off the fallback cases the mean without the fallback is the text's mean -/
theorem wmean_eq_text (ms : List Int) (e r : Int → ℝ) (h : needsFallback ms e r = false) : wmean ms e r = wmeanText ms e r := by
  unfold needsFallback at h
  unfold wmean wmeanText
  simp only [] at h ⊢
  by_cases hd : (0.0 : ℝ) < ms.foldl (fun acc m => if e m ≤ (0.0 : ℝ) then acc else acc + r m) (0.0 : ℝ)
  · simp only [hd, if_true]
  · simp only [hd, if_false]
    by_cases hc : (0.0 : ℝ) < ms.foldl (fun acc m => if e m ≤ (0.0 : ℝ) then acc else acc + (1.0 : ℝ)) (0.0 : ℝ)
    · simp [hd, hc] at h
    · simp only [hc, if_false]

/-- on a fallback case the mean without the fallback is an error and the text's mean is a value -/
theorem wmean_text_differ (ms : List Int) (e r : Int → ℝ) (h : needsFallback ms e r = true) :
    wmean ms e r = .fails ∧ ∃ v, wmeanText ms e r = .value v := by
  unfold needsFallback at h
  simp only [Bool.and_eq_true, Bool.not_eq_true', decide_eq_false_iff_not, decide_eq_true_eq] at h
  constructor
  · unfold wmean
    simp only [h.1, if_false]
  · unfold wmeanText
    simp only [h.1, h.2, if_false, if_true]
    exact ⟨_, rfl⟩

theorem wmeanText_congr (ms : List Int) (e r e' r' : Int → ℝ) (h : ∀ m ∈ ms, e m = e' m ∧ r m = r' m) :
    wmeanText ms e r = wmeanText ms e' r' := by
  have h1 : ms.foldl (fun acc m => if e m ≤ (0.0 : ℝ) then acc else acc + r m) (0.0 : ℝ) =
      ms.foldl (fun acc m => if e' m ≤ (0.0 : ℝ) then acc else acc + r' m) (0.0 : ℝ) :=
    foldl_congr_mem' ms (fun m hm acc => by rw [(h m hm).1, (h m hm).2]) _
  have h2 : ms.foldl (fun acc m => if e m ≤ (0.0 : ℝ) then acc else acc + e m * r m) (0.0 : ℝ) =
      ms.foldl (fun acc m => if e' m ≤ (0.0 : ℝ) then acc else acc + e' m * r' m) (0.0 : ℝ) :=
    foldl_congr_mem' ms (fun m hm acc => by rw [(h m hm).1, (h m hm).2]) _
  have h3 : ms.foldl (fun acc m => if e m ≤ (0.0 : ℝ) then acc else acc + e m) (0.0 : ℝ) =
      ms.foldl (fun acc m => if e' m ≤ (0.0 : ℝ) then acc else acc + e' m) (0.0 : ℝ) :=
    foldl_congr_mem' ms (fun m hm acc => by rw [(h m hm).1]) _
  have h4 : ms.foldl (fun acc m => if e m ≤ (0.0 : ℝ) then acc else acc + (1.0 : ℝ)) (0.0 : ℝ) =
      ms.foldl (fun acc m => if e' m ≤ (0.0 : ℝ) then acc else acc + (1.0 : ℝ)) (0.0 : ℝ) :=
    foldl_congr_mem' ms (fun m hm acc => by rw [(h m hm).1]) _
  unfold wmeanText
  simp only [h1, h2, h3, h4]

/-- the two-member mean of the code (`Spec.composed`: a member's rate stays in the denominator even when the member has no
energy) is the text's unless one member carries a rate without an energy while the other member has an energy and a rate -/
theorem composed_eq_text (T : Tables ℝ) (Z l1 l2 : Int) (h : rateWithoutEnergyAt T Z l1 l2 = false) :
    composed T Z l1 l2 = composedText T Z l1 l2 := by
  have a1 := singleEnergy_nonneg T Z l1
  have a2 := singleEnergy_nonneg T Z l2
  have b1 := singleRate_nonneg T Z l1
  have b2 := singleRate_nonneg T Z l2
  unfold rateWithoutEnergyAt at h
  simp only [Bool.or_eq_false_iff, Bool.and_eq_false_iff, decide_eq_false_iff_not, C09.lit0] at h
  unfold composed composedText wmeanText
  simp only [List.foldl, C09.lit0, C09.lit1]
  generalize valOr0 (singleEnergy T Z l1) = x1 at *
  generalize valOr0 (singleEnergy T Z l2) = x2 at *
  generalize valOr0 (singleRate T Z l1) = y1 at *
  generalize valOr0 (singleRate T Z l2) = y2 at *
  have h1 : x1 ≤ 0 → 0 < x2 → y1 = 0 ∨ y2 = 0 := by
    intro p q
    rcases h.1 with ((g | g) | g) | g
    · exact absurd p g
    · exact Or.inl (le_antisymm (not_lt.1 g) b1)
    · exact absurd q g
    · exact Or.inr (le_antisymm (not_lt.1 g) b2)
  have h2 : x2 ≤ 0 → 0 < x1 → y2 = 0 ∨ y1 = 0 := by
    intro p q
    rcases h.2 with ((g | g) | g) | g
    · exact absurd p g
    · exact Or.inl (le_antisymm (not_lt.1 g) b2)
    · exact absurd q g
    · exact Or.inr (le_antisymm (not_lt.1 g) b1)
  by_cases p1 : x1 ≤ 0
  · have z1 : x1 = 0 := le_antisymm p1 a1
    by_cases p2 : x2 ≤ 0
    · have z2 : x2 = 0 := le_antisymm p2 a2
      subst z1; subst z2
      simp
    · have q2 : 0 < x2 := not_le.mp p2
      subst z1
      rcases h1 p1 q2 with w | w
      · subst w
        rcases b2.lt_or_eq with hy | hy
        · have : 0 < x2 * y2 := mul_pos q2 hy
          simp [p2, q2, hy, this]
        · subst hy
          simp [p2, q2]
      · subst w
        simp [p2, q2]
  · have q1 : 0 < x1 := not_le.mp p1
    by_cases p2 : x2 ≤ 0
    · have z2 : x2 = 0 := le_antisymm p2 a2
      subst z2
      rcases h2 p2 q1 with w | w
      · subst w
        rcases b1.lt_or_eq with hy | hy
        · have : 0 < x1 * y1 := mul_pos q1 hy
          simp [p1, q1, hy, this]
        · subst hy
          simp [p1, q1]
      · subst w
        simp [p1, q1]
    · have q2 : 0 < x2 := not_le.mp p2
      have hs : 0 < x1 + x2 := by linarith
      rcases (add_nonneg b1 b2).lt_or_eq with hy | hy
      · have hrv : 0 < x1 * y1 + x2 * y2 := by
          rcases b1.lt_or_eq with g | g
          · have := mul_pos q1 g; have := mul_nonneg q2.le b2; linarith
          · have g2 : 0 < y2 := by linarith
            have := mul_pos q2 g2; have := mul_nonneg q1.le b1; linarith
        simp [p1, p2, q1, q2, hy, hrv]
      · have hy1 : y1 = 0 := by linarith
        have hy2 : y2 = 0 := by linarith
        subst hy1; subst hy2
        simp [p1, p2, q1, q2, hs]

/-- … and exactly then: where `rateWithoutEnergyAt` holds the two readings differ -/
theorem composed_ne_text (T : Tables ℝ) (Z l1 l2 : Int) (h : rateWithoutEnergyAt T Z l1 l2 = true) :
    composed T Z l1 l2 ≠ composedText T Z l1 l2 := by
  have a1 := singleEnergy_nonneg T Z l1
  have a2 := singleEnergy_nonneg T Z l2
  unfold rateWithoutEnergyAt at h
  simp only [Bool.or_eq_true, Bool.and_eq_true, decide_eq_true_eq, C09.lit0] at h
  unfold composed composedText wmeanText
  simp only [List.foldl, C09.lit0, C09.lit1]
  generalize valOr0 (singleEnergy T Z l1) = x1 at *
  generalize valOr0 (singleEnergy T Z l2) = x2 at *
  generalize valOr0 (singleRate T Z l1) = y1 at *
  generalize valOr0 (singleRate T Z l2) = y2 at *
  rcases h with ⟨⟨⟨p1, r1⟩, q2⟩, r2⟩ | ⟨⟨⟨p2, r2⟩, q1⟩, r1⟩
  · have z1 : x1 = 0 := le_antisymm p1 a1
    subst z1
    have n2 : ¬ x2 ≤ 0 := not_le.2 q2
    have hrv : 0 < 0 * y1 + x2 * y2 := by have := mul_pos q2 r2; linarith
    have hd : 0 < 0 + y2 := by linarith
    simp only [le_refl, if_true, n2, if_false, hrv, hd]
    intro he
    injection he with he
    have hy : (y1 + y2) ≠ 0 := by linarith
    have hy2 : (0 + y2) ≠ 0 := by linarith
    rw [div_eq_div_iff hy hy2] at he
    nlinarith [mul_pos q2 r1, mul_pos q2 r2, mul_pos r1 r2]
  · have z2 : x2 = 0 := le_antisymm p2 a2
    subst z2
    have n1 : ¬ x1 ≤ 0 := not_le.2 q1
    have hrv : 0 < x1 * y1 + 0 * y2 := by have := mul_pos q1 r1; linarith
    have hd : 0 < 0 + y1 := by linarith
    simp only [le_refl, if_true, n1, if_false, hrv, hd]
    intro he
    injection he with he
    have hy : (y1 + y2) ≠ 0 := by linarith
    have hy1 : (0 + y1) ≠ 0 := by linarith
    rw [div_eq_div_iff hy hy1] at he
    nlinarith [mul_pos q1 r1, mul_pos q1 r2, mul_pos r1 r2]

/-! ## the full statements -/

/-- **the full statement**: every macro other than L-beta follows the text, fallback included -/
def line_energy_fallback_full : Prop :=
  ∀ (T : Tables ℝ) (Z line : Int) (error : Slot), error.isFull = false →
    Meets (Gen.LineEnergy T Z line error) error (Spec.LineEnergyText T Z line)

/-- **the full statement for L-beta** -/
def line_energy_lb_fallback_full : Prop :=
  ∀ (T : Tables ℝ) (Z : Int) (error : Slot), error.isFull = false →
    vecOkB (T.E_Photo_arr Z.toNat) (T.CS_Photo_arr Z.toNat) (T.CS_Photo_arr2 Z.toNat) (T.NE_Photo Z.toNat) = true →
    edgeOrderB T Z = true →
    Meets (Gen.LineEnergy T Z Hdr.LB_LINE error) error (Spec.LineEnergyLBText T Z)

/-- **where the code follows the text**: wherever the two specifications agree (by `wmean_eq_text` and `composed_eq_text`: off the
fallback cases of K-alpha / K-beta and when no member of L-alpha / a doublet carries a rate without an energy) -/
theorem line_energy_fallback_partial (T : Tables ℝ) (Z line : Int) (error : Slot) (he : error.isFull = false)
    (h : Spec.LineEnergy T Z line = Spec.LineEnergyText T Z line) :
    Meets (Gen.LineEnergy T Z line error) error (Spec.LineEnergyText T Z line) := by
  rw [← h]; exact line_energy_spec T Z error he line

/-- K-alpha: the specifications agree off the fallback cases -/
theorem ka_spec_eq_text (T : Tables ℝ) (Z : Int) (h : needsFallback Hdr.group_KA (eCell T Z) (rCell T Z) = false) :
    Spec.LineEnergy T Z Hdr.KA_LINE = Spec.LineEnergyText T Z Hdr.KA_LINE := by
  unfold Spec.LineEnergy Spec.LineEnergyText
  simp only [if_true, wmean_eq_text _ _ _ h]

/-- K-beta: the specifications agree off the fallback cases -/
theorem kb_spec_eq_text (T : Tables ℝ) (Z : Int) (h : needsFallback Hdr.group_KB (kEnergy T Z) (rCell T Z) = false) :
    Spec.LineEnergy T Z Hdr.KB_LINE = Spec.LineEnergyText T Z Hdr.KB_LINE := by
  unfold Spec.LineEnergy Spec.LineEnergyText
  simp only [Hdr.KA_LINE, Hdr.KB_LINE, show ¬ ((1 : Int) = 0) by omega, if_false, if_true, wmean_eq_text _ _ _ h]

/-- a call that failed did not return a value through a slot that could take the error -/
theorem not_returns_of_fails {r : M (ℝ × Slot)} {v : ℝ} (hf : Fails r Slot.empty) : ¬ Returns r v Slot.empty := by
  obtain ⟨e, _, _, h⟩ := hf
  intro hr
  rw [hr] at h
  injection h with h
  have := (Prod.mk.inj h).2
  cases this

/-! ## K-alpha without rates -/

/-- one element with `KL1` at 2 keV, `KL2` at 4 keV and radiative rates `r` for both -/
noncomputable def kaWit (r : ℝ) : Tables ℝ :=
  { (default : Tables ℝ) with
    LineEnergy_arr := fun _ j => if j = 0 then 2 else if j = 1 then 4 else 0
    RadRate_arr := fun _ j => if j = 0 ∨ j = 1 then r else 0 }

theorem kaWit_cells (r : ℝ) : ∀ m ∈ Hdr.group_KA,
    eCell (kaWit r) 1 m = (if m = -1 then 2 else if m = -2 then 4 else 0) ∧
    rCell (kaWit r) 1 m = (if m = -1 ∨ m = -2 then r else 0) := by
  intro m hm
  simp only [Hdr.group_KA, List.mem_cons, List.not_mem_nil, or_false] at hm
  rcases hm with rfl | rfl | rfl <;> simp [eCell, rCell, lineSlot, kaWit]

/-- no rates: the fallback clause decides -/
theorem kaWit_needs : needsFallback Hdr.group_KA (eCell (kaWit 0) 1) (rCell (kaWit 0) 1) = true := by
  simp [needsFallback, Hdr.group_KA, List.foldl, eCell, rCell, lineSlot, kaWit, C09.lit0, C09.lit1]
  norm_num

/-- **the text on the witness**: no rates, two members with an energy — their plain mean, 3 keV -/
theorem kaWit_text : Spec.LineEnergyText (kaWit 0) 1 Hdr.KA_LINE = .value 3 := by
  simp [Spec.LineEnergyText, zOk, Hdr.ZMAX, wmeanText, Hdr.group_KA, List.foldl, eCell, rCell, lineSlot, kaWit, C09.lit0,
    C09.lit1]
  norm_num

/-- **the code on the witness**: 0 and an error -/
theorem kaWit_code : Fails (Gen.LineEnergy (kaWit 0) 1 Hdr.KA_LINE Slot.empty) Slot.empty := by
  have m := line_energy_spec (kaWit 0) 1 Slot.empty rfl Hdr.KA_LINE
  have hx : Spec.LineEnergy (kaWit 0) 1 Hdr.KA_LINE = .fails := by
    unfold Spec.LineEnergy
    simp only [show zOk 1 = true from by decide, Bool.true_eq_false, if_false, if_true]
    exact (wmean_text_differ _ _ _ kaWit_needs).1
  rwa [hx] at m

/-- **the full statement is false**: K-alpha of an element whose K→L lines have energies but no rates -/
theorem line_energy_fallback_full_fails : ¬ line_energy_fallback_full := fun h => by
  have m := h (kaWit 0) 1 Hdr.KA_LINE Slot.empty rfl
  rw [kaWit_text] at m
  exact not_returns_of_fails kaWit_code m

/-- with rates the same table is no fallback case, the hypothesis of `line_energy_fallback_partial` holds and K-alpha is at 3 keV -/
example : needsFallback Hdr.group_KA (eCell (kaWit 1) 1) (rCell (kaWit 1) 1) = false ∧
    Gen.LineEnergy (kaWit 1) 1 Hdr.KA_LINE Slot.empty = Except.ok ((3 : ℝ), Slot.empty) := by
  have hn : needsFallback Hdr.group_KA (eCell (kaWit 1) 1) (rCell (kaWit 1) 1) = false := by
    simp [needsFallback, Hdr.group_KA, List.foldl, eCell, rCell, lineSlot, kaWit, C09.lit0, C09.lit1]
  refine ⟨hn, ?_⟩
  have m := line_energy_fallback_partial (kaWit 1) 1 Hdr.KA_LINE Slot.empty rfl (ka_spec_eq_text _ _ hn)
  have hx : Spec.LineEnergyText (kaWit 1) 1 Hdr.KA_LINE = .value 3 := by
    simp [Spec.LineEnergyText, zOk, Hdr.ZMAX, wmeanText, Hdr.group_KA, List.foldl, eCell, rCell, lineSlot, kaWit, C09.lit0,
      C09.lit1]
    norm_num
  rwa [hx] at m

/-! ## L-alpha with a rate on a member that has no energy -/

/-- one element with `L3M4` (slot 88) at 2 keV and rate 1, and `L3M5` (slot 89) with rate 1 but no energy -/
noncomputable def laWit : Tables ℝ :=
  { (default : Tables ℝ) with
    LineEnergy_arr := fun _ j => if j = 88 then 2 else 0
    RadRate_arr := fun _ j => if j = 88 ∨ j = 89 then 1 else 0 }

theorem laWit_e1 : valOr0 (singleEnergy laWit 1 (-89)) = 2 := by
  simp [singleEnergy, firstMember, Hdr.KO_LINE, Hdr.KP_LINE, zOk, Hdr.ZMAX, isLineMacro, Hdr.LINENUM, eCell, lineSlot, laWit,
    valOr0, C09.lit0]
theorem laWit_e2 : valOr0 (singleEnergy laWit 1 (-90)) = 0 := by
  simp [singleEnergy, firstMember, Hdr.KO_LINE, Hdr.KP_LINE, zOk, Hdr.ZMAX, isLineMacro, Hdr.LINENUM, eCell, lineSlot, laWit,
    valOr0, C09.lit0]
theorem laWit_r1 : valOr0 (singleRate laWit 1 (-89)) = 1 := by
  simp [singleRate, zOk, Hdr.ZMAX, isLineMacro, Hdr.LINENUM, rCell, lineSlot, laWit, valOr0, C09.lit0]
theorem laWit_r2 : valOr0 (singleRate laWit 1 (-90)) = 1 := by
  simp [singleRate, zOk, Hdr.ZMAX, isLineMacro, Hdr.LINENUM, rCell, lineSlot, laWit, valOr0, C09.lit0]

/-- the code's two-member mean on the witness: (2·1 + 0·1) / (1 + 1) = 1 keV -/
theorem laWit_code_spec : Spec.LineEnergy laWit 1 Hdr.LA_LINE = .value 1 := by
  unfold Spec.LineEnergy
  simp only [show zOk 1 = true from by decide, Hdr.KA_LINE, Hdr.KB_LINE, Hdr.LA_LINE, Hdr.group_LA, List.getD_cons_zero,
    List.getD_cons_succ, Bool.true_eq_false, show ¬ ((2 : Int) = 0) by omega, show ¬ ((2 : Int) = 1) by omega, if_false, if_true]
  unfold composed
  simp only [laWit_e1, laWit_e2, laWit_r1, laWit_r2, C09.lit0, C09.lit1]
  norm_num

/-- the text on the witness: the only member with an energy is at 2 keV -/
theorem laWit_text : Spec.LineEnergyText laWit 1 Hdr.LA_LINE = .value 2 := by
  unfold Spec.LineEnergyText
  simp only [show zOk 1 = true from by decide, Hdr.KA_LINE, Hdr.KB_LINE, Hdr.LA_LINE, Hdr.group_LA, List.getD_cons_zero,
    List.getD_cons_succ, Bool.true_eq_false, show ¬ ((2 : Int) = 0) by omega, show ¬ ((2 : Int) = 1) by omega, if_false, if_true]
  unfold composedText wmeanText
  simp only [List.foldl, laWit_e1, laWit_e2, laWit_r1, laWit_r2, C09.lit0, C09.lit1]
  norm_num

/-- **the code returns 1 keV for L-alpha on the witness** -/
theorem laWit_code : Gen.LineEnergy laWit 1 Hdr.LA_LINE Slot.empty = Except.ok ((1 : ℝ), Slot.empty) := by
  have m := line_energy_spec laWit 1 Slot.empty rfl Hdr.LA_LINE
  rwa [laWit_code_spec] at m

/-- the same full statement refuted a second way: the rate of a member without an energy stays in the denominator -/
theorem line_energy_fallback_composed_fails : ¬ line_energy_fallback_full := fun h => by
  have m := h laWit 1 Hdr.LA_LINE Slot.empty rfl
  rw [laWit_text, laWit_code] at m
  have : (1 : ℝ) = 2 := by
    have := m
    unfold Meets Returns at this
    injection this with this
    exact (Prod.mk.inj this).1
  norm_num at this

/-- **"hence lies between the smallest and largest member energy" fails for the unrepaired two-member groups**: on the witness
L-alpha is returned at 1 keV, its members are `L3M4`, `L3M5`, the only member energy is 2 keV -/
theorem la_below_members :
    Gen.LineEnergy laWit 1 Hdr.LA_LINE Slot.empty = Except.ok ((1 : ℝ), Slot.empty) ∧
    groupMembers Hdr.LA_LINE = [-89, -90] ∧ memberEnergy laWit 1 (-89) = 2 ∧ memberEnergy laWit 1 (-90) = 0 ∧
    groupRange laWit 1 Hdr.LA_LINE = some (2, 2) := by
  have e1 : memberEnergy laWit 1 (-89) = 2 := by
    unfold memberEnergy
    rw [specLineEnergy_plain laWit 1 (-89) (plain_dec _ (by decide))]; exact laWit_e1
  have e2 : memberEnergy laWit 1 (-90) = 0 := by
    unfold memberEnergy
    rw [specLineEnergy_plain laWit 1 (-90) (plain_dec _ (by decide))]; exact laWit_e2
  have gm : groupMembers Hdr.LA_LINE = [-89, -90] := by decide
  refine ⟨laWit_code, gm, e1, e2, ?_⟩
  unfold groupRange posRange
  rw [gm]
  simp only [List.map, List.foldl, rangeStep, e1, e2, C09.lit0]
  norm_num

/-- the executable condition flags the witness: `L3M5` carries a rate without an energy while `L3M4` has an energy -/
example : rateWithoutEnergyAt laWit 1 (-89) (-90) = true ∧ (Hdr.LA_LINE, (-89 : Int), (-90 : Int)) ∈ composedGroups := by
  refine ⟨?_, by decide⟩
  unfold rateWithoutEnergyAt
  simp only [laWit_e1, laWit_e2, laWit_r1, laWit_r2, C09.lit0]
  norm_num

/-! ## L-beta without weights -/

/-- the L-beta witness of Props/C10b (`LB3` at 2 keV, `LB4` at 4 keV) without radiative rates: no member has a cross section -/
noncomputable def lbWitN : Tables ℝ := { lbWit 4 with RadRate_arr := fun _ _ => 0 }

theorem lbWitN_shape : vecOkB (lbWitN.E_Photo_arr (1 : Int).toNat) (lbWitN.CS_Photo_arr (1 : Int).toNat)
    (lbWitN.CS_Photo_arr2 (1 : Int).toNat) (lbWitN.NE_Photo (1 : Int).toNat) = true := lbWit_shape 4

theorem lbWitN_order : edgeOrderB lbWitN 1 = true := by
  have h := lbWit_order 4
  rw [C09.edgeOrder_iff] at h ⊢
  exact h

theorem lbWitN_rate (m : Int) : singleRate lbWitN 1 m = .fails := by
  unfold singleRate
  rw [if_neg]
  intro h
  have := h.2.2
  simp [rCell, lbWitN, C09.lit0] at this

theorem lbWitN_weight : ∀ m ∈ lbEnergyMembers, lbWeight lbWitN 1 m = 0 := by
  have sh : ∀ k, k < 13 → lineShell (lbEnergyMembers.getD k 0) = some (Static.lb_pairs_shell k) := by decide
  intro m hm
  obtain ⟨k, hk, rfl⟩ : ∃ k, k < 13 ∧ m = lbEnergyMembers.getD k 0 := by
    simp only [lbEnergyMembers, List.mem_cons, List.not_mem_nil, or_false] at hm
    rcases hm with h | h | h | h | h | h | h | h | h | h | h | h | h
    exacts [⟨0, by omega, h⟩, ⟨1, by omega, h⟩, ⟨2, by omega, h⟩, ⟨3, by omega, h⟩, ⟨4, by omega, h⟩, ⟨5, by omega, h⟩,
      ⟨6, by omega, h⟩, ⟨7, by omega, h⟩, ⟨8, by omega, h⟩, ⟨9, by omega, h⟩, ⟨10, by omega, h⟩, ⟨11, by omega, h⟩,
      ⟨12, by omega, h⟩]
  have rng : ∀ k, k < 13 → -383 ≤ lbEnergyMembers.getD k 0 ∧ lbEnergyMembers.getD k 0 ≤ -1 := by decide
  have r := rng k hk
  rw [lbWeight_plain lbWitN 1 _ _ (sh k hk) (by omega), lbWitN_rate]
  simp [timesRate, valOr0, C09.lit0]

theorem lbWitN_energy33 : lbEnergy lbWitN 1 (-34) = 2 := by
  unfold lbEnergy
  rw [specLineEnergy_plain lbWitN 1 (-34) (by unfold Plain; omega)]
  simp [singleEnergy, firstMember, Hdr.KO_LINE, Hdr.KP_LINE, zOk, Hdr.ZMAX, isLineMacro, Hdr.LINENUM, eCell, lineSlot, lbWitN,
    lbWit, valOr0, C09.lit0]

/-- on the witness the weights of the members with an energy sum to 0, and `LB3` has an energy: a fallback case -/
theorem lbWitN_needs : needsFallback lbEnergyMembers (lbEnergy lbWitN 1) (lbWeight lbWitN 1) = true := by
  unfold needsFallback
  rw [Bool.and_eq_true]
  constructor
  · have : lbEnergyMembers.foldl (fun acc m => if lbEnergy lbWitN 1 m ≤ (0.0 : ℝ) then acc else acc + lbWeight lbWitN 1 m) (0.0 : ℝ)
        = (0.0 : ℝ) := by
      have hc : ∀ (ms : List Int), (∀ m ∈ ms, lbWeight lbWitN 1 m = 0) → ∀ a : ℝ,
          ms.foldl (fun acc m => if lbEnergy lbWitN 1 m ≤ (0.0 : ℝ) then acc else acc + lbWeight lbWitN 1 m) a = a := by
        intro ms
        induction ms with
        | nil => intro _ a; rfl
        | cons m ms ih =>
          intro hms a
          simp only [List.foldl_cons, hms m (List.mem_cons_self ..), add_zero, ite_self]
          exact ih (fun x hx => hms x (List.mem_cons_of_mem _ hx)) a
      exact hc _ lbWitN_weight _
    rw [this]
    simp
  · apply decide_eq_true
    have hg : ∀ (ms : List Int) (a : ℝ), 0 ≤ a → (∃ m ∈ ms, 0 < lbEnergy lbWitN 1 m) ∨ 0 < a →
        0 < ms.foldl (fun acc m => if lbEnergy lbWitN 1 m ≤ (0.0 : ℝ) then acc else acc + (1.0 : ℝ)) a := by
      intro ms
      induction ms with
      | nil =>
        intro a _ h
        rcases h with ⟨m, hm, _⟩ | h
        · exact absurd hm (List.not_mem_nil)
        · exact h
      | cons k ks ih =>
        intro a ha h
        simp only [List.foldl_cons]
        by_cases c : lbEnergy lbWitN 1 k ≤ (0.0 : ℝ)
        · simp only [c, if_true]
          apply ih a ha
          rcases h with ⟨m, hm, hp⟩ | h
          · rcases List.mem_cons.1 hm with rfl | hm'
            · rw [C09.lit0] at c; exact absurd hp (not_lt.2 c)
            · exact Or.inl ⟨m, hm', hp⟩
          · exact Or.inr h
        · simp only [c, if_false]
          apply ih _ (by rw [C09.lit1]; linarith) (Or.inr (by rw [C09.lit1]; linarith))
    have h0 := hg lbEnergyMembers (0.0 : ℝ) (by norm_num) (Or.inl ⟨-34, by decide, by rw [lbWitN_energy33]; norm_num⟩)
    have e0 : (0.0 : ℝ) = 0 := C09.lit0
    exact e0 ▸ h0

/-- the text's member energies are the code's for the single-line members, and `composedText` for `LB5 = L3O45` -/
theorem lbText_energy_plain (T : Tables ℝ) (Z m : Int) (hp : Plain m) :
    valOr0 (Spec.LineEnergyText T Z m) = lbEnergy T Z m := by
  unfold lbEnergy
  rw [specLineEnergy_plain T Z m hp]
  have hf := findDoublet_plain m hp
  obtain ⟨p0, p1, p2, p3, _⟩ := hp
  unfold Spec.LineEnergyText
  simp only [Hdr.KA_LINE, Hdr.KB_LINE, Hdr.LA_LINE, Hdr.LB_LINE, p0, p1, p2, p3, if_false, hf]
  by_cases hz : zOk Z = true
  · simp [hz]
  · have hz' : zOk Z = false := by simpa using hz
    simp [hz', singleEnergy]

/-- **L-beta on the witness**: the code reports an error, the text has a value -/
theorem line_energy_lb_fallback_full_fails : ¬ line_energy_lb_fallback_full := fun h => by
  have m := h lbWitN 1 Slot.empty rfl lbWitN_shape lbWitN_order
  have mc := line_energy_lb_spec lbWitN 1 Slot.empty rfl lbWitN_shape lbWitN_order
  have hx : Spec.LineEnergyLB lbWitN 1 = .fails := by
    unfold Spec.LineEnergyLB
    simp only [show zOk 1 = true from by decide, Bool.true_eq_false, if_false]
    exact (wmean_text_differ _ _ _ lbWitN_needs).1
  rw [hx] at mc
  -- the text: a value, because `LB3` has an energy
  have ht : ∃ v, Spec.LineEnergyLBText lbWitN 1 = .value v := by
    unfold Spec.LineEnergyLBText
    simp only [show zOk 1 = true from by decide, Bool.true_eq_false, if_false]
    -- on the witness every member energy of the text is the code's: the doublet member `L3O45` has no energy in either
    have he : ∀ m ∈ lbEnergyMembers, valOr0 (Spec.LineEnergyText lbWitN 1 m) = lbEnergy lbWitN 1 m ∧
        lbWeight lbWitN 1 m = lbWeight lbWitN 1 m := by
      intro m hm
      refine ⟨?_, rfl⟩
      by_cases h5 : m = -102
      · subst h5
        have c1 : Spec.LineEnergyText lbWitN 1 (-102) = composedText lbWitN 1 (-101) (-103) := by
          unfold Spec.LineEnergyText
          simp [Hdr.KA_LINE, Hdr.KB_LINE, Hdr.LA_LINE, Hdr.LB_LINE, findDoublet, Hdr.doublets, List.find?, zOk, Hdr.ZMAX]
        have c2 : lbEnergy lbWitN 1 (-102) = valOr0 (composed lbWitN 1 (-101) (-103)) := by
          unfold lbEnergy; rw [specLineEnergy_L3O45]; simp [zOk, Hdr.ZMAX]
        rw [c1, c2, composed_eq_text lbWitN 1 (-101) (-103) (by
          unfold rateWithoutEnergyAt
          simp [lbWitN_rate, valOr0, C09.lit0])]
      · have hp : Plain m := by
          simp only [lbEnergyMembers, List.mem_cons, List.not_mem_nil, or_false] at hm
          unfold Plain
          simp only [Hdr.LB1_LINE, Hdr.LB2_LINE, Hdr.LB3_LINE, Hdr.LB4_LINE, Hdr.LB5_LINE, Hdr.LB6_LINE, Hdr.LB7_LINE,
            Hdr.LB9_LINE, Hdr.LB10_LINE, Hdr.LB15_LINE, Hdr.LB17_LINE, Hdr.L3N6_LINE, Hdr.L3N7_LINE] at hm
          omega
        exact lbText_energy_plain lbWitN 1 m hp
    have hcongr : wmeanText lbEnergyMembers (fun m => valOr0 (Spec.LineEnergyText lbWitN 1 m)) (lbWeight lbWitN 1) =
        wmeanText lbEnergyMembers (lbEnergy lbWitN 1) (lbWeight lbWitN 1) :=
      wmeanText_congr _ _ _ _ _ he
    rw [hcongr]
    exact (wmean_text_differ _ _ _ lbWitN_needs).2
  obtain ⟨v, hv⟩ := ht
  rw [hv] at m
  exact not_returns_of_fails mc m

end C10
end Xrl
