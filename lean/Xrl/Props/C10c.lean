import Xrl.Props.C10b
import Xrl.Spec.GroupsText
import Xrl.Spec.Invariants
/-!
# C10 — the fallback clause, for the code repaired by notes/proposed_fixes/C10-8.diff

"… falling back to the plain mean of the members that have an energy when no rates exist, and is an error when no member has an
energy."  Before the repair the statements `line_energy_fallback_full`, `line_energy_lb_fallback_full` were refuted on the tables
`kaWit 0`, `laWit`, `lbWitN` (git history of this file); with the repaired fluor_lines.c they hold, and the three tables give the
text's results.
-/
namespace Xrl
namespace C10
open Spec

set_option linter.unusedSimpArgs false
set_option linter.unusedVariables false

/-- **the full statement**: every macro other than L-beta follows the text, fallback included -/
def line_energy_fallback_full : Prop :=
  ∀ (T : Tables ℝ) (Z line : Int) (error : Slot), error.isFull = false →
    Meets (Gen.LineEnergy T Z line error) error (Spec.LineEnergyText T Z line)

theorem line_energy_fallback_full_holds : line_energy_fallback_full :=
  fun T Z line error he => line_energy_spec T Z error he line

/-- **the full statement for L-beta** -/
def line_energy_lb_fallback_full : Prop :=
  ∀ (T : Tables ℝ) (Z : Int) (error : Slot), error.isFull = false →
    vecOkB (T.E_Photo_arr Z.toNat) (T.CS_Photo_arr Z.toNat) (T.CS_Photo_arr2 Z.toNat) (T.NE_Photo Z.toNat) = true →
    edgeOrderB T Z = true →
    Meets (Gen.LineEnergy T Z Hdr.LB_LINE error) error (Spec.LineEnergyLBText T Z)

theorem line_energy_lb_fallback_full_holds : line_energy_lb_fallback_full :=
  fun T Z error he hP hO => line_energy_lb_spec T Z error he hP hO

/-- **the clause itself**: where the weights of the members that have an energy do not sum to a positive number and some member has an
energy, the group mean is the plain mean of the energies of the members that have one -/
theorem fallback_is_plain_mean (ms : List Int) (e r : Int → ℝ) (h : needsFallback ms e r = true) :
    wmean ms e r = .value (ms.foldl (fun acc m => if e m ≤ 0 then acc else acc + e m) 0 /
      ms.foldl (fun acc m => if e m ≤ 0 then acc else acc + 1) 0) := by
  unfold needsFallback at h
  simp only [Bool.and_eq_true, Bool.not_eq_true', decide_eq_false_iff_not, decide_eq_true_eq, C09.lit0, C09.lit1] at h
  unfold wmean
  simp only [C09.lit0, C09.lit1, h.1, h.2, if_false, if_true]

/-- off the fallback cases it is the weighted mean -/
theorem no_fallback_is_weighted_mean (ms : List Int) (e r : Int → ℝ)
    (h : 0 < ms.foldl (fun acc m => if e m ≤ 0 then acc else acc + r m) 0) :
    wmean ms e r = .value (ms.foldl (fun acc m => if e m ≤ 0 then acc else acc + e m * r m) 0 /
      ms.foldl (fun acc m => if e m ≤ 0 then acc else acc + r m) 0) := by
  unfold wmean
  simp only [C09.lit0, h, if_true]

/-- and an error exactly when no member has an energy -/
theorem wmean_fails_iff (ms : List Int) (e r : Int → ℝ) (hr : ∀ m ∈ ms, 0 ≤ r m) :
    wmean ms e r = .fails ↔ ∀ m ∈ ms, e m ≤ 0 := by
  constructor
  · intro h m hm
    by_contra hp
    have hpos : 0 < e m := not_le.mp hp
    have hc : 0 < ms.foldl (fun acc m => if e m ≤ (0.0 : ℝ) then acc else acc + (1.0 : ℝ)) (0.0 : ℝ) := by
      have hg : ∀ (l : List Int) (a : ℝ), 0 ≤ a → (∃ x ∈ l, 0 < e x) ∨ 0 < a →
          0 < l.foldl (fun acc m => if e m ≤ (0.0 : ℝ) then acc else acc + (1.0 : ℝ)) a := by
        intro l
        induction l with
        | nil =>
          intro a _ h
          rcases h with ⟨x, hx, _⟩ | h
          · exact absurd hx (List.not_mem_nil)
          · exact h
        | cons k ks ih =>
          intro a ha h
          simp only [List.foldl_cons]
          by_cases c : e k ≤ (0.0 : ℝ)
          · simp only [c, if_true]
            apply ih a ha
            rcases h with ⟨x, hx, hxp⟩ | h
            · rcases List.mem_cons.1 hx with rfl | hx'
              · rw [C09.lit0] at c; exact absurd hxp (not_lt.2 c)
              · exact Or.inl ⟨x, hx', hxp⟩
            · exact Or.inr h
          · simp only [c, if_false]
            apply ih _ (by rw [C09.lit1]; linarith) (Or.inr (by rw [C09.lit1]; linarith))
      exact hg ms (0.0 : ℝ) (by norm_num) (Or.inl ⟨m, hm, hpos⟩)
    unfold wmean at h
    simp only [] at h
    split_ifs at h with h1 h2
    have e0 : (0.0 : ℝ) = 0 := C09.lit0
    exact h2 (e0 ▸ hc)
  · intro h
    unfold wmean
    simp only [foldl_skip_all ms e (fun acc m => acc + r m) h, foldl_skip_all ms e (fun acc m => acc + (1.0 : ℝ)) h,
      lt_irrefl, if_false]

/-! ## the tables on which the unrepaired code left the text -/

/-- one element with `KL1` at 2 keV, `KL2` at 4 keV and radiative rates `r` for both -/
noncomputable def kaWit (r : ℝ) : Tables ℝ :=
  { (default : Tables ℝ) with
    LineEnergy_arr := fun _ j => if j = 0 then 2 else if j = 1 then 4 else 0
    RadRate_arr := fun _ j => if j = 0 ∨ j = 1 then r else 0 }

/-- no rates: the fallback clause decides -/
theorem kaWit_needs : needsFallback Hdr.group_KA (eCell (kaWit 0) 1) (rCell (kaWit 0) 1) = true := by
  simp [needsFallback, Hdr.group_KA, List.foldl, eCell, rCell, lineSlot, kaWit, C09.lit0, C09.lit1]
  norm_num

theorem kaWit_text (r : ℝ) (hr : 0 ≤ r) : Spec.LineEnergy (kaWit r) 1 Hdr.KA_LINE = .value 3 := by
  have c1 : eCell (kaWit r) 1 (-1) = 2 := by simp [eCell, lineSlot, kaWit]
  have c2 : eCell (kaWit r) 1 (-2) = 4 := by simp [eCell, lineSlot, kaWit]
  have c3 : eCell (kaWit r) 1 (-3) = 0 := by simp [eCell, lineSlot, kaWit]
  have d1 : rCell (kaWit r) 1 (-1) = r := by simp [rCell, lineSlot, kaWit]
  have d2 : rCell (kaWit r) 1 (-2) = r := by simp [rCell, lineSlot, kaWit]
  have n2 : ¬ ((2 : ℝ) ≤ 0) := by norm_num
  have n4 : ¬ ((4 : ℝ) ≤ 0) := by norm_num
  unfold Spec.LineEnergy wmean
  simp only [show zOk 1 = true from by decide, Bool.true_eq_false, if_false, if_true, Hdr.group_KA, List.foldl, c1, c2, c3, d1, d2,
    C09.lit0, C09.lit1, n2, n4, le_refl]
  rcases hr.lt_or_eq with h | h
  · have h2 : 0 < 0 + r + r := by linarith
    rw [if_pos h2]
    congr 1
    have hr2 : 0 + r + r ≠ 0 := h2.ne'
    field_simp
    ring
  · subst h
    norm_num

/-- **K-alpha of an element whose K→L lines have energies (2 and 4 keV) but no rates: the plain mean, 3 keV** (the unrepaired code
returned 0 with an error) — and the same 3 keV with equal rates -/
theorem kaWit_result (r : ℝ) (hr : 0 ≤ r) :
    Gen.LineEnergy (kaWit r) 1 Hdr.KA_LINE Slot.empty = Except.ok ((3 : ℝ), Slot.empty) := by
  have m := line_energy_spec (kaWit r) 1 Slot.empty rfl Hdr.KA_LINE
  rwa [kaWit_text r hr] at m

/-- one element with `L3M4` (slot 88) at 2 keV and rate 1, and `L3M5` (slot 89) with rate 1 but no energy -/
noncomputable def laWit : Tables ℝ :=
  { (default : Tables ℝ) with
    LineEnergy_arr := fun _ j => if j = 88 then 2 else 0
    RadRate_arr := fun _ j => if j = 88 ∨ j = 89 then 1 else 0 }

theorem laWit_e1 : valOr0 (singleEnergy laWit 1 (-89)) = 2 := by
  simp [singleEnergy, firstMember, Hdr.KO_LINE, Hdr.KP_LINE, zOk, Hdr.ZMAX, isLineMacro, Hdr.LINENUM, eCell, lineSlot, laWit,
    valOr0, C09.lit0]
theorem laWit_e2 : valOr0 (singleEnergy laWit 1 (-90)) = 0 := by
  simp [singleEnergy, firstMember, Hdr.KO_LINE, Hdr.KP_LINE, zOk, Hdr.ZMAX, isLineMacro, Hdr.LINENUM, eCell, lineSlot, laWit,
    valOr0, C09.lit0]
theorem laWit_r1 : valOr0 (singleRate laWit 1 (-89)) = 1 := by
  simp [singleRate, zOk, Hdr.ZMAX, isLineMacro, Hdr.LINENUM, rCell, lineSlot, laWit, valOr0, C09.lit0]
theorem laWit_r2 : valOr0 (singleRate laWit 1 (-90)) = 1 := by
  simp [singleRate, zOk, Hdr.ZMAX, isLineMacro, Hdr.LINENUM, rCell, lineSlot, laWit, valOr0, C09.lit0]

theorem laWit_text : Spec.LineEnergy laWit 1 Hdr.LA_LINE = .value 2 := by
  unfold Spec.LineEnergy
  simp only [show zOk 1 = true from by decide, Hdr.KA_LINE, Hdr.KB_LINE, Hdr.LA_LINE, Hdr.group_LA, List.getD_cons_zero,
    List.getD_cons_succ, Bool.true_eq_false, show ¬ ((2 : Int) = 0) by omega, show ¬ ((2 : Int) = 1) by omega, if_false, if_true]
  unfold composed wmean
  simp only [List.foldl, laWit_e1, laWit_e2, laWit_r1, laWit_r2, C09.lit0, C09.lit1]
  norm_num

/-- **L-alpha with a rate on a member without an energy: 2 keV, the energy of the only member that has one** (the unrepaired code
returned 1 keV, below every member energy) — in `groupRange`, as `line_energy_in_range` says -/
theorem laWit_result :
    Gen.LineEnergy laWit 1 Hdr.LA_LINE Slot.empty = Except.ok ((2 : ℝ), Slot.empty) ∧
    groupRange laWit 1 Hdr.LA_LINE = some (2, 2) := by
  have m := line_energy_spec laWit 1 Slot.empty rfl Hdr.LA_LINE
  rw [laWit_text] at m
  refine ⟨m, ?_⟩
  have e1 : memberEnergy laWit 1 (-89) = 2 := by
    unfold memberEnergy
    rw [specLineEnergy_plain laWit 1 (-89) (plain_dec _ (by decide))]; exact laWit_e1
  have e2 : memberEnergy laWit 1 (-90) = 0 := by
    unfold memberEnergy
    rw [specLineEnergy_plain laWit 1 (-90) (plain_dec _ (by decide))]; exact laWit_e2
  have gm : groupMembers Hdr.LA_LINE = [-89, -90] := by decide
  unfold groupRange posRange
  rw [gm]
  simp only [List.map, List.foldl, rangeStep, e1, e2, C09.lit0]
  norm_num

/-- the hypotheses of `line_energy_in_range` on that table (L-alpha needs no data hypothesis) -/
example : ∃ lo hi : ℝ, groupRange laWit 1 Hdr.LA_LINE = some (lo, hi) ∧ lo ≤ 2 ∧ (2 : ℝ) ≤ hi :=
  let ⟨lo, hi, h1, h2, h3, _⟩ := line_energy_in_range laWit 1 Slot.empty rfl Hdr.LA_LINE (by decide) (by decide)
    (fun h => absurd h (by decide)) laWit_result.1 (by norm_num)
  ⟨lo, hi, h1, h2, h3⟩

/-- the hypotheses of `line_energy_in_range` for K-alpha on `kaWit 1`: non-negative rates (`groupInputsOkAt`), the value 3 keV lies
between the member energies 2 and 4 keV -/
example : groupInputsOkAt (kaWit 1) 1 Hdr.KA_LINE = true ∧
    ∃ lo hi : ℝ, groupRange (kaWit 1) 1 Hdr.KA_LINE = some (lo, hi) ∧ lo ≤ 3 ∧ (3 : ℝ) ≤ hi := by
  have hd : groupInputsOkAt (kaWit 1) 1 Hdr.KA_LINE = true := by
    unfold groupInputsOkAt ratesNonnegAt
    simp only [Hdr.KA_LINE, true_or, if_true, List.all_eq_true, decide_eq_true_eq]
    intro j _
    show (0.0 : ℝ) ≤ if j = 0 ∨ j = 1 then 1 else 0
    split_ifs <;> norm_num
  refine ⟨hd, ?_⟩
  obtain ⟨lo, hi, h1, h2, h3, _⟩ := line_energy_in_range (kaWit 1) 1 Slot.empty rfl Hdr.KA_LINE (by decide) hd
    (fun h => absurd h (by decide)) (kaWit_result 1 (by norm_num)) (by norm_num)
  exact ⟨lo, hi, h1, h2, h3⟩

/-- the L-beta witness of Props/C10b (`LB3` at 2 keV, `LB4` at 4 keV) without radiative rates: no member has a cross section -/
noncomputable def lbWitN : Tables ℝ := { lbWit 4 with RadRate_arr := fun _ _ => 0 }

theorem lbWitN_shape : vecOkB (lbWitN.E_Photo_arr (1 : Int).toNat) (lbWitN.CS_Photo_arr (1 : Int).toNat)
    (lbWitN.CS_Photo_arr2 (1 : Int).toNat) (lbWitN.NE_Photo (1 : Int).toNat) = true := lbWit_shape 4

theorem lbWitN_order : edgeOrderB lbWitN 1 = true := by
  have h := lbWit_order 4
  rw [C09.edgeOrder_iff] at h ⊢
  exact h

theorem lbWitN_energy33 : lbEnergy lbWitN 1 (-34) = 2 := by
  unfold lbEnergy
  rw [specLineEnergy_plain lbWitN 1 (-34) (by unfold Plain; omega)]
  simp [singleEnergy, firstMember, Hdr.KO_LINE, Hdr.KP_LINE, zOk, Hdr.ZMAX, isLineMacro, Hdr.LINENUM, eCell, lineSlot, lbWitN,
    lbWit, valOr0, C09.lit0]

/-- **L-beta of an element whose member lines have energies but no cross sections: a value** (the plain mean; the unrepaired code
returned 0 with an error) -/
theorem lbWitN_result : ∃ v : ℝ, Gen.LineEnergy lbWitN 1 Hdr.LB_LINE Slot.empty = Except.ok (v, Slot.empty) := by
  have m := line_energy_lb_spec lbWitN 1 Slot.empty rfl lbWitN_shape lbWitN_order
  have hne : Spec.LineEnergyLB lbWitN 1 ≠ .fails := by
    unfold Spec.LineEnergyLB
    simp only [show zOk 1 = true from by decide, Bool.true_eq_false, if_false]
    intro hf
    have hall : ∀ m ∈ lbEnergyMembers, lbEnergy lbWitN 1 m ≤ 0 := by
      -- `wmean_fails_iff` needs non-negative weights: without rates every weight is 0
      have hw : ∀ m ∈ lbEnergyMembers, 0 ≤ lbWeight lbWitN 1 m := by
        have sh : ∀ k, k < 13 → lineShell (lbEnergyMembers.getD k 0) = some (Static.lb_pairs_shell k) := by decide
        intro m hm
        obtain ⟨k, hk, rfl⟩ : ∃ k, k < 13 ∧ m = lbEnergyMembers.getD k 0 := by
          simp only [lbEnergyMembers, List.mem_cons, List.not_mem_nil, or_false] at hm
          rcases hm with h | h | h | h | h | h | h | h | h | h | h | h | h
          exacts [⟨0, by omega, h⟩, ⟨1, by omega, h⟩, ⟨2, by omega, h⟩, ⟨3, by omega, h⟩, ⟨4, by omega, h⟩, ⟨5, by omega, h⟩,
            ⟨6, by omega, h⟩, ⟨7, by omega, h⟩, ⟨8, by omega, h⟩, ⟨9, by omega, h⟩, ⟨10, by omega, h⟩, ⟨11, by omega, h⟩,
            ⟨12, by omega, h⟩]
        have rng : ∀ k, k < 13 → -383 ≤ lbEnergyMembers.getD k 0 ∧ lbEnergyMembers.getD k 0 ≤ -1 := by decide
        have r := rng k hk
        have hrate : singleRate lbWitN 1 (lbEnergyMembers.getD k 0) = .fails := by
          unfold singleRate
          rw [if_neg]
          intro h
          have := h.2.2
          simp [rCell, lbWitN, C09.lit0] at this
        rw [lbWeight_plain lbWitN 1 _ _ (sh k hk) (by omega), hrate]
        simp [timesRate, valOr0, C09.lit0]
      exact (wmean_fails_iff _ _ _ hw).1 hf
    have := hall (-34) (by decide)
    rw [lbWitN_energy33] at this
    norm_num at this
  cases hx : Spec.LineEnergyLB lbWitN 1 with
  | value v => rw [hx] at m; exact ⟨v, m⟩
  | fails => exact absurd hx hne
  | any =>
    unfold Spec.LineEnergyLB at hx
    simp only [show zOk 1 = true from by decide, Bool.true_eq_false, if_false] at hx
    unfold wmean at hx
    simp only [] at hx
    split_ifs at hx

end C10
end Xrl
