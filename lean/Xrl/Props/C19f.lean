import Xrl.Props.C19e
import Xrl.JCore.HypCheck
/-!
# C19 (sixth file) — the data hypotheses of the theorems, executed

`Xrl/JCore/HypCheck.lean` writes each hypothesis about the tables that a theorem of C19…C19e asks for as a `Bool` function, generic in the
carrier.  `JDriver.lean` runs those functions on the tables the library loads (ops `hyp.*`, every element, every data configuration of
`./check C19`: shipped, regenerated Kissel, and synthetic Kissel in the thorough tier).  Here: `check T Z = true` implies the hypothesis in
the form the theorems state it (carrier ℝ).  `JTame` (value or `IllegalArgumentException` for `CS_Photo_Partial`) depends on the energy and
is executed point by point instead (props/c19_model.py, `hyp_jtame`).
-/
set_option linter.unusedSimpArgs false
set_option linter.unusedVariables false
set_option linter.unusedSectionVars false
namespace Xrl
namespace C19
open JHyp

theorem allI_spec {lo hi : Int} {p : Int → Bool} (h : allI lo hi p = true) (k : Int) (h0 : lo ≤ k) (h1 : k < hi) : p k = true := by
  unfold allI at h
  rw [List.all_eq_true] at h
  have := h (k - lo).toNat (List.mem_range.mpr (by omega))
  have e : lo + ((k - lo).toNat : Int) = k := by omega
  rwa [e] at this

variable (T : Tables ℝ) (Z : Int)

theorem hyp_counts_sound (h : counts T Z = true) :
    inI32 (T.NE_Photo Z.toNat) ∧ inI32 (T.NE_Rayl Z.toNat) ∧ inI32 (T.NE_Compt Z.toNat) ∧ inI32 (T.NE_Energy Z.toNat) ∧
    inI32 (T.Nq_Rayl Z.toNat) ∧ inI32 (T.Nq_Compt Z.toNat) ∧ inI32 (T.NE_Fi Z.toNat) ∧ inI32 (T.NE_Fii Z.toNat) ∧
    inI32 (T.Npz_ComptonProfiles Z.toNat) ∧ T.NE_Fii Z.toNat = T.NE_Fi Z.toNat ∧ (Z > 92 → Z ≤ 120 → T.NE_Energy Z.toNat < 0) := by
  unfold counts at h
  simp only [Bool.and_eq_true, Bool.or_eq_true, decide_eq_true_eq] at h
  obtain ⟨⟨⟨⟨⟨⟨⟨⟨⟨⟨a, b⟩, c⟩, d⟩, e⟩, f⟩, g⟩, i⟩, j⟩, k⟩, l⟩ := h
  exact ⟨a, b, c, d, e, f, g, i, j, k, fun h1 h2 => by omega⟩

theorem hyp_kvec_sound (k : Int) (h : kvec T Z k = true) : KVecOk T Z k := by
  unfold kvec at h
  simp only [Bool.and_eq_true, Bool.or_eq_true, decide_eq_true_eq] at h
  exact ⟨h.1, fun hc => (h.2.resolve_left hc).1, fun hc => (h.2.resolve_left hc).2⟩

theorem hyp_kall_sound (h : kall T Z = true) : KAllOk T Z := by
  unfold kall at h
  exact ⟨fun k h0 h1 => hyp_kvec_sound T Z k (allI_spec h k h0 h1)⟩

theorem hyp_uoccup_sound (h : uoccup T Z = true) :
    (0 < T.NShells_ComptonProfiles Z.toNat → (T.UOCCUP_ComptonProfiles Z.toNat).len = T.NShells_ComptonProfiles Z.toNat) ∧
    ∀ m : Int, 0 ≤ m → m < T.NShells_ComptonProfiles Z.toNat → 0 ≤ (T.UOCCUP_ComptonProfiles Z.toNat).get m.toNat := by
  unfold uoccup at h
  rw [Bool.and_eq_true] at h
  refine ⟨fun hp => ?_, fun m h0 h1 => ?_⟩
  · have := h.1
    simp only [Bool.or_eq_true, decide_eq_true_eq] at this
    exact this.resolve_left (by omega)
  · have := allI_spec h.2 m h0 h1
    simpa [zero_lit] using this

theorem hyp_aw_sound (h : aw T Z = true) : 0 < T.AtomicWeight_arr Z.toNat := by
  unfold aw at h; simpa [zero_lit] using h

section gaps
variable (hZ : inI32 Z)
include hZ
theorem edge_catch_oor (k : Int) (hz : Z < 1 ∨ Z > 120) : JGen.EdgeEnergy_catch (JTables.ofC T) Z k = .ok 0 := by
  jeq_startJ JGen.EdgeEnergy_catch JGen.EdgeEnergy
  simp [hz, jtry, zero_lit]
theorem edge_catch_zero (k : Int) (hz : ¬(Z < 1 ∨ Z > 120)) (h0 : 0 ≤ k) (h1 : k < 28) (he : T.EdgeEnergy_arr Z.toNat k.toNat ≤ 0) :
    JGen.EdgeEnergy_catch (JTables.ofC T) Z k = .ok 0 := by
  jeq_startJ JGen.EdgeEnergy_catch JGen.EdgeEnergy
  have hk : ¬ (k < 0 ∨ k ≥ 28) := by omega
  jeq_simp
  try simp [jtry, zero_lit]
theorem edge_iae_le (k : Int) (x : String) (hz : ¬(Z < 1 ∨ Z > 120)) (h0 : 0 ≤ k) (h1 : k < 28)
    (h : JGen.EdgeEnergy (JTables.ofC T) Z k = .error (.iae x)) : T.EdgeEnergy_arr Z.toNat k.toNat ≤ 0 := by
  unfold JGen.EdgeEnergy at h
  jeq_normJ
  have hk : ¬ (k < 0 ∨ k ≥ 28) := by omega
  by_contra hc
  simp (disch := omega) only [hz, hk, ↓reduceIte, wrapI_eq, jrd_flat2, jrd_flat2', jbind_ok, zero_lit, jpure_eq_ok, jthrow_eq_error] at h
  rw [if_neg hc] at h; cases h

theorem hyp_lgaps_sound (h : lgaps T Z = true) : LGaps T Z := by
  unfold lgaps at h
  by_cases hz : Z < 1 ∨ Z > 120
  · constructor <;> intro x _ <;> exact edge_catch_oor T Z hZ _ hz
  simp only [hz, decide_false, Bool.false_or, Bool.and_eq_true, Bool.or_eq_true, Bool.not_eq_true', decide_eq_true_eq, decide_eq_false_iff_not, zero_lit] at h
  obtain ⟨h21, h3⟩ := h
  constructor
  · intro x hx
    have := edge_iae_le T Z hZ 2 x hz (by decide) (by decide) hx
    exact edge_catch_zero T Z hZ 1 hz (by decide) (by decide) (by rcases h21 with h | h; exact absurd this h; exact h)
  · intro x hx
    have := edge_iae_le T Z hZ 3 x hz (by decide) (by decide) hx
    exact edge_catch_zero T Z hZ 1 hz (by decide) (by decide) (by rcases h3 with h | h; exact absurd this h; exact h.1)
  · intro x hx
    have := edge_iae_le T Z hZ 3 x hz (by decide) (by decide) hx
    exact edge_catch_zero T Z hZ 2 hz (by decide) (by decide) (by rcases h3 with h | h; exact absurd this h; exact h.2)
end gaps

/-! ## the checks can succeed (empty tables `T0`) and the chain check → hypothesis → theorem closes -/
example : counts T0 26 = true := by
  unfold counts; simp [T0]; decide
example : LGaps T0 26 := hyp_lgaps_sound T0 26 (by decide) (by unfold lgaps; simp [T0, zero_lit])
end C19
end Xrl
