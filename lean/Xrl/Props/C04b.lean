import Xrl.Props.C04
import Xrl.Props.C03b
import Xrl.Props.C11
/-!
# C04 (continued) — no out-of-bounds or otherwise undefined access, for every generated function with a specification

`no_ub_<f>` : `NoAbort (Gen.<f> …)` — for every `int` argument (including `INT_MIN`/`INT_MAX`), every real argument and
every non-full slot the model of the C function does not abort: every array subscript lies inside the DECLARED C bounds,
every heap-vector subscript inside the vector, no checked `int` operation overflows, no division by zero / logarithm of
a non-positive number / non-finite intermediate, no function-pointer index out of range, no error stored over an
existing one.  Corollaries of the contract theorems of C03.lean / C03b.lean (`noabort_of_contract`), under exactly
their hypotheses: none for the scalar lookups and the closed formulas; the table-shape conditions (`vecOkB`,
`kisselShapeB`, `profileOkB`, `profileColOkB`, `edgeOrderB`) and the "an element that has the data has an atomic weight"
conditions (`hW`) for the interpolated and composite quantities.  Without `hW` the division by the unchecked table cell
`AtomicWeight_arr[Z]` IS the abort `nf "div0"` (`C05.dcs_rayl_div0`, `C05.cs_photo_total_div0`, …).

The three `prdata` helpers return a bare `double` (no slot): their `no_ub` theorems come from the value theorems of C11.
The Kissel cascade family is in C04c.lean (its specification modules cannot be imported together with Spec/JumpRatio).
-/
namespace Xrl
namespace C04
open Spec

set_option linter.unusedVariables false

/-! ## the four spline sites of C03.lean that had no `no_ub` theorem yet -/

section old
variable (T : Tables ℝ) (Z : Int) (E : ℝ) (error : Slot) (he : error.isFull = false)
  (hP : vecOkB (T.E_Photo_arr Z.toNat) (T.CS_Photo_arr Z.toNat) (T.CS_Photo_arr2 Z.toNat) (T.NE_Photo Z.toNat) = true)
  (hR : vecOkB (T.E_Rayl_arr Z.toNat) (T.CS_Rayl_arr Z.toNat) (T.CS_Rayl_arr2 Z.toNat) (T.NE_Rayl Z.toNat) = true)
  (hC : vecOkB (T.E_Compt_arr Z.toNat) (T.CS_Compt_arr Z.toNat) (T.CS_Compt_arr2 Z.toNat) (T.NE_Compt Z.toNat) = true)
include he

include hP in
theorem no_ub_CS_Photo : NoAbort (Gen.CS_Photo T Z E error) := noabort_of_contract (C03.contract_CS_Photo T Z E error he hP)
include hR in
theorem no_ub_CS_Rayl : NoAbort (Gen.CS_Rayl T Z E error) := noabort_of_contract (C03.contract_CS_Rayl T Z E error he hR)
include hC in
theorem no_ub_CS_Compt : NoAbort (Gen.CS_Compt T Z E error) := noabort_of_contract (C03.contract_CS_Compt T Z E error he hC)
include hP hR hC in
theorem no_ub_CS_Total : NoAbort (Gen.CS_Total T Z E error) :=
  noabort_of_contract (C03.contract_CS_Total T Z E error he hP hR hC)

include hP hR hC in
theorem no_ub_CSb_Total : NoAbort (Gen.CSb_Total T Z E error) :=
  noabort_of_contract (C03.contract_CSb_Total T Z E error he hP hR hC)
include hP in
theorem no_ub_CSb_Photo : NoAbort (Gen.CSb_Photo T Z E error) := noabort_of_contract (C03.contract_CSb_Photo T Z E error he hP)
include hR in
theorem no_ub_CSb_Rayl : NoAbort (Gen.CSb_Rayl T Z E error) := noabort_of_contract (C03.contract_CSb_Rayl T Z E error he hR)
include hC in
theorem no_ub_CSb_Compt : NoAbort (Gen.CSb_Compt T Z E error) := noabort_of_contract (C03.contract_CSb_Compt T Z E error he hC)

end old

/-! ## C01 / C02 / C02b -/

section sites
variable (T : Tables ℝ) (Z m shell : Int) (E pz : ℝ) (error : Slot) (he : error.isFull = false)
include he

theorem no_ub_ElectronConfig_Biggs
    (hlen : T.NShells_ComptonProfiles Z.toNat ≤ (T.UOCCUP_ComptonProfiles Z.toNat).len) :
    NoAbort (Gen.ElectronConfig_Biggs T Z m error) :=
  noabort_of_contract (C03.contract_ElectronConfig_Biggs T Z m error he hlen)

theorem no_ub_CS_Energy
    (hs : vecOkB (T.E_Energy_arr Z.toNat) (T.CS_Energy_arr Z.toNat) (T.CS_Energy_arr2 Z.toNat) (T.NE_Energy Z.toNat) = true) :
    NoAbort (Gen.CS_Energy T Z E error) := noabort_of_contract (C03.contract_CS_Energy T Z E error he hs)

theorem no_ub_Fi
    (hs : vecOkB (T.E_Fi_arr Z.toNat) (T.Fi_arr Z.toNat) (T.Fi_arr2 Z.toNat) (T.NE_Fi Z.toNat) = true) :
    NoAbort (Gen.Fi T Z E error) := noabort_of_contract (C03.contract_Fi T Z E error he hs)

theorem no_ub_Fii
    (hs : vecOkB (T.E_Fii_arr Z.toNat) (T.Fii_arr Z.toNat) (T.Fii_arr2 Z.toNat) (T.NE_Fii Z.toNat) = true) :
    NoAbort (Gen.Fii T Z E error) := noabort_of_contract (C03.contract_Fii T Z E error he hs)

theorem no_ub_FF_Rayl
    (hs : vecOkB (T.q_Rayl_arr Z.toNat) (T.FF_Rayl_arr Z.toNat) (T.FF_Rayl_arr2 Z.toNat) (T.Nq_Rayl Z.toNat) = true) :
    NoAbort (Gen.FF_Rayl T Z E error) := noabort_of_contract (C03.contract_FF_Rayl T Z E error he hs)

theorem no_ub_SF_Compt
    (hs : vecOkB (T.q_Compt_arr Z.toNat) (T.SF_Compt_arr Z.toNat) (T.SF_Compt_arr2 Z.toNat) (T.Nq_Compt Z.toNat) = true) :
    NoAbort (Gen.SF_Compt T Z E error) := noabort_of_contract (C03.contract_SF_Compt T Z E error he hs)

theorem no_ub_ComptonProfile
    (hs : vecOkB (T.pz_ComptonProfiles Z.toNat) (T.Total_ComptonProfiles Z.toNat) (T.Total_ComptonProfiles2 Z.toNat)
      (T.Npz_ComptonProfiles Z.toNat) = true)
    (hN : 0 ≤ T.NShells_ComptonProfiles Z.toNat → 1 ≤ T.Npz_ComptonProfiles Z.toNat) :
    NoAbort (Gen.ComptonProfile T Z pz error) := noabort_of_contract (C03.contract_ComptonProfile T Z pz error he hs hN)

theorem no_ub_ComptonProfile_Partial (hs : profileColOkB T Z shell = true) (hp : profileOkB T Z = true) :
    NoAbort (Gen.ComptonProfile_Partial T Z shell pz error) :=
  noabort_of_contract (C03.contract_ComptonProfile_Partial T Z shell pz error he hs hp)

theorem no_ub_CSb_Photo_Partial_of (hs : kisselGuard T Z shell E = true → kisselShapeB T Z shell = true) :
    NoAbort (Gen.CSb_Photo_Partial T Z shell E error) :=
  noabort_of_contract (C03.contract_CSb_Photo_Partial_of T Z shell E error he hs)

theorem no_ub_CSb_Photo_Partial (hs : kisselShapeB T Z shell = true) :
    NoAbort (Gen.CSb_Photo_Partial T Z shell E error) :=
  noabort_of_contract (C03.contract_CSb_Photo_Partial T Z shell E error he hs)

end sites

/-! ## C05 -/

section c05
variable (T : Tables ℝ) (Z shell : Int) (E θ φ : ℝ) (error : Slot) (he : error.isFull = false)
include he

section rayl
variable (hs : vecOkB (T.q_Rayl_arr Z.toNat) (T.FF_Rayl_arr Z.toNat) (T.FF_Rayl_arr2 Z.toNat) (T.Nq_Rayl Z.toNat) = true)
  (hW : ∀ f, atQ (Spec.MomentTransf E θ) (Spec.FF_Rayl T Z) = .value f → Spec.AtomicWeight T Z ≠ .fails)
include hs hW

theorem no_ub_DCS_Rayl : NoAbort (Gen.DCS_Rayl T Z E θ error) :=
  noabort_of_contract (C03.contract_DCS_Rayl T Z E θ error he hs hW)
theorem no_ub_DCSP_Rayl : NoAbort (Gen.DCSP_Rayl T Z E θ φ error) :=
  noabort_of_contract (C03.contract_DCSP_Rayl T Z E θ φ error he hs hW)
theorem no_ub_DCSb_Rayl : NoAbort (Gen.DCSb_Rayl T Z E θ error) :=
  noabort_of_contract (C03.contract_DCSb_Rayl T Z E θ error he hs hW)
theorem no_ub_DCSPb_Rayl : NoAbort (Gen.DCSPb_Rayl T Z E θ φ error) :=
  noabort_of_contract (C03.contract_DCSPb_Rayl T Z E θ φ error he hs hW)
end rayl

section compt
variable (hs : vecOkB (T.q_Compt_arr Z.toNat) (T.SF_Compt_arr Z.toNat) (T.SF_Compt_arr2 Z.toNat) (T.Nq_Compt Z.toNat) = true)
  (hW : ∀ f, atQ (Spec.MomentTransf E θ) (Spec.SF_Compt T Z) = .value f → Spec.AtomicWeight T Z ≠ .fails)
include hs hW

theorem no_ub_DCS_Compt : NoAbort (Gen.DCS_Compt T Z E θ error) :=
  noabort_of_contract (C03.contract_DCS_Compt T Z E θ error he hs hW)
theorem no_ub_DCSP_Compt : NoAbort (Gen.DCSP_Compt T Z E θ φ error) :=
  noabort_of_contract (C03.contract_DCSP_Compt T Z E θ φ error he hs hW)
theorem no_ub_DCSb_Compt : NoAbort (Gen.DCSb_Compt T Z E θ error) :=
  noabort_of_contract (C03.contract_DCSb_Compt T Z E θ error he hs hW)
theorem no_ub_DCSPb_Compt : NoAbort (Gen.DCSPb_Compt T Z E θ φ error) :=
  noabort_of_contract (C03.contract_DCSPb_Compt T Z E θ φ error he hs hW)
end compt

section kissel
variable (hs : ∀ s : Nat, s < 28 → kisselShapeB T Z (s : Int) = true)

include hs in
theorem no_ub_CSb_Photo_Total : NoAbort (Gen.CSb_Photo_Total T Z E error) :=
  noabort_of_contract (C03.contract_CSb_Photo_Total T Z E error he hs)

variable (hW : ∀ v, Spec.CSb_Photo_Total T Z E = .value v → Spec.AtomicWeight T Z ≠ .fails)

include hs hW in
theorem no_ub_CS_Photo_Total : NoAbort (Gen.CS_Photo_Total T Z E error) :=
  noabort_of_contract (C03.contract_CS_Photo_Total T Z E error he hs hW)

variable (hR : vecOkB (T.E_Rayl_arr Z.toNat) (T.CS_Rayl_arr Z.toNat) (T.CS_Rayl_arr2 Z.toNat) (T.NE_Rayl Z.toNat) = true)
  (hC : vecOkB (T.E_Compt_arr Z.toNat) (T.CS_Compt_arr Z.toNat) (T.CS_Compt_arr2 Z.toNat) (T.NE_Compt Z.toNat) = true)

include hs hW hR hC in
theorem no_ub_CS_Total_Kissel : NoAbort (Gen.CS_Total_Kissel T Z E error) :=
  noabort_of_contract (C03.contract_CS_Total_Kissel T Z E error he hs hW hR hC)
include hs hW hR hC in
theorem no_ub_CSb_Total_Kissel : NoAbort (Gen.CSb_Total_Kissel T Z E error) :=
  noabort_of_contract (C03.contract_CSb_Total_Kissel T Z E error he hs hW hR hC)
end kissel

theorem no_ub_CS_Photo_Partial (hs : kisselShapeB T Z shell = true)
    (hW : ∀ b, Spec.CSb_Photo_Partial T Z shell E = .value b → Spec.AtomicWeight T Z ≠ .fails) :
    NoAbort (Gen.CS_Photo_Partial T Z shell E error) :=
  noabort_of_contract (C03.contract_CS_Photo_Partial T Z shell E error he hs hW)

end c05

/-! ## C12 -/

section c12
variable (T : Tables ℝ) (E θ φ : ℝ) (error : Slot)

theorem no_ub_DCS_Thoms : NoAbort (Gen.DCS_Thoms T θ error) := noabort_of_contract (C03.contract_DCS_Thoms T θ error)
theorem no_ub_DCSP_Thoms : NoAbort (Gen.DCSP_Thoms T θ φ error) := noabort_of_contract (C03.contract_DCSP_Thoms T θ φ error)

variable (he : error.isFull = false)
include he

theorem no_ub_DCS_KN : NoAbort (Gen.DCS_KN T E θ error) := noabort_of_contract (C03.contract_DCS_KN T E θ error he)
theorem no_ub_DCSP_KN : NoAbort (Gen.DCSP_KN T E θ φ error) := noabort_of_contract (C03.contract_DCSP_KN T E θ φ error he)
theorem no_ub_CS_KN : NoAbort (Gen.CS_KN T E error) := noabort_of_contract (C03.contract_CS_KN T E error he)
theorem no_ub_ComptonEnergy : NoAbort (Gen.ComptonEnergy T E θ error) :=
  noabort_of_contract (C03.contract_ComptonEnergy T E θ error he)
theorem no_ub_MomentTransf : NoAbort (Gen.MomentTransf T E θ error) :=
  noabort_of_contract (C03.contract_MomentTransf T E θ error he)

end c12

/-! ## C09, C10 -/

section c09
variable (T : Tables ℝ) (Z shell line : Int) (E : ℝ) (error : Slot) (he : error.isFull = false)
include he

theorem no_ub_Jump_from_K : NoAbort (Gen.Jump_from_K T Z E error) := noabort_of_contract (C03.contract_Jump_from_K T Z E error he)
theorem no_ub_Jump_from_L1 : NoAbort (Gen.Jump_from_L1 T Z E error) := noabort_of_contract (C03.contract_Jump_from_L1 T Z E error he)
theorem no_ub_Jump_from_L2 (hO : edgeOrderB T Z = true) : NoAbort (Gen.Jump_from_L2 T Z E error) :=
  noabort_of_contract (C03.contract_Jump_from_L2 T Z E error he hO)
theorem no_ub_Jump_from_L3 (hO : edgeOrderB T Z = true) : NoAbort (Gen.Jump_from_L3 T Z E error) :=
  noabort_of_contract (C03.contract_Jump_from_L3 T Z E error he hO)

theorem no_ub_LineEnergyComposed (l1 l2 : Int) (h1 : C10.Plain l1) (h2 : C10.Plain l2) :
    NoAbort (Gen.LineEnergyComposed T Z l1 l2 error) :=
  noabort_of_contract (C03.contract_LineEnergyComposed T Z error he l1 l2 h1 h2)

variable (hP : vecOkB (T.E_Photo_arr Z.toNat) (T.CS_Photo_arr Z.toNat) (T.CS_Photo_arr2 Z.toNat) (T.NE_Photo Z.toNat) = true)
  (hO : edgeOrderB T Z = true)
include hP hO

theorem no_ub_CS_FluorShell : NoAbort (Gen.CS_FluorShell T Z shell E error) :=
  noabort_of_contract (C03.contract_CS_FluorShell T Z shell E error he hP hO)
theorem no_ub_CS_FluorLine : NoAbort (Gen.CS_FluorLine T Z line E error) :=
  noabort_of_contract (C03.contract_CS_FluorLine T Z line E error he hP hO)
theorem no_ub_CSb_FluorShell : NoAbort (Gen.CSb_FluorShell T Z shell E error) :=
  noabort_of_contract (C03.contract_CSb_FluorShell T Z shell E error he hP hO)
theorem no_ub_CSb_FluorLine : NoAbort (Gen.CSb_FluorLine T Z line E error) :=
  noabort_of_contract (C03.contract_CSb_FluorLine T Z line E error he hP hO)

end c09

/-! ## C11: the `prdata` helpers (bare `double`, no slot): every argument, no hypothesis -/

section c11
variable (T : Tables ℝ) (Z s : Int)

theorem no_ub_AugerYield_prdata : NoAbort (Gen.AugerYield_prdata T Z s) := ⟨_, C11.auger_yield_spec T Z s⟩
theorem no_ub_AugerYield2_prdata : NoAbort (Gen.AugerYield2_prdata T Z s) := ⟨_, C11.net_total_spec T Z s⟩
theorem no_ub_AugerRate_prdata : NoAbort (Gen.AugerRate_prdata T Z s) := ⟨_, C11.auger_rate_spec T Z s⟩

end c11

end C04
end Xrl
