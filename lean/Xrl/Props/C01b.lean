import Xrl.Props.C01
import Xrl.Props.C10
import Xrl.Spec.Text0129
import Xrl.Lemmas.JumpRatio
/-!
# C01 (continued) — the two line accessors in C01's own terms, and the Biggs occupancy as the text states it

* `lookup_spec_LineEnergy`, `lookup_spec_RadRate`: for a macro that designates one record of fluor_lines.dat / radrate.dat the
  generated function is the same `lookup2` as the ten accessors of Props/C01.lean (value of the cell when positive, an error
  otherwise and outside the macro range `-LINENUM … -1`).  They are corollaries of `C10.line_energy_single` /
  `C10.rad_rate_spec`, so a change to the guards of `LineEnergy` / `RadRate` is a broken obligation of `./check C01` too.
* Biggs occupancy.  The property says "an error … exactly when the data files hold no **positive** record"; the code tests
  `== 0.0`.  `biggs_positive_full_fails`: on a table with a negative occupancy record the generated function returns that
  negative number, so the statement at full strength is false for the unchanged code.  `lookup_text_ElectronConfig_Biggs`:
  it holds for every table without negative occupancy records (`biggsNonnegB`, executed on the real tables on every run:
  `spec.biggsNegative` must be empty — the shipped comptonprofiles.dat has 182 zero and no negative records).
-/
namespace Xrl
namespace C01
open Spec

set_option linter.unusedSimpArgs false
set_option linter.unusedVariables false

/-- the column a line macro designates -/
def lineCol (m : Int) : Int := -m - 1

section lines
variable (T : Tables ℝ) (Z m : Int) (error : Slot) (he : error.isFull = false)

/-- for a macro that is not a `KO`/`KP` group slot the single-line expectation of C10 is the plain table lookup -/
theorem singleEnergy_eq_lookup2 (h1 : m ≠ Hdr.KO_LINE) (h2 : m ≠ Hdr.KP_LINE) :
    singleEnergy T Z m = lookup2 T.LineEnergy_arr (-Hdr.LINENUM) (-1) lineCol Z m := by
  unfold singleEnergy lookup2 firstMember isLineMacro mOk eCell lineSlot lineCol
  simp only [h1, h2, if_false, decide_eq_true_eq]

theorem singleRate_eq_lookup2 : singleRate T Z m = lookup2 T.RadRate_arr (-Hdr.LINENUM) (-1) lineCol Z m := by
  unfold singleRate lookup2 isLineMacro mOk rCell lineSlot lineCol
  simp only [decide_eq_true_eq]

include he

/-- **single-line energy**: for every macro value that is neither a Siegbahn group (`KA KB LA LB`), an IUPAC doublet slot nor
`KO`/`KP` — i.e. every macro that names one record of fluor_lines.dat — and also for every value outside the macro range:
the cell `LineEnergy_arr[Z][-line-1]` when it is positive, an error otherwise -/
theorem lookup_spec_LineEnergy (hp : C10.Plain m) (h1 : m ≠ Hdr.KO_LINE) (h2 : m ≠ Hdr.KP_LINE) :
    Meets (Gen.LineEnergy T Z m error) error (lookup2 T.LineEnergy_arr (-Hdr.LINENUM) (-1) lineCol Z m) := by
  rw [← singleEnergy_eq_lookup2 T Z m h1 h2]
  unfold Gen.LineEnergy FUEL
  exact C10.line_energy_single T Z error he 5 m hp

/-- `KO`, `KP` (no record of their own in fluor_lines.dat) report the record of their first member `KO1`, `KP1` -/
theorem lookup_spec_LineEnergy_KO_KP (h : m = Hdr.KO_LINE ∨ m = Hdr.KP_LINE) :
    Meets (Gen.LineEnergy T Z m error) error
      (lookup2 T.LineEnergy_arr (-Hdr.LINENUM) (-1) lineCol Z (if m = Hdr.KO_LINE then Hdr.KO1_LINE else Hdr.KP1_LINE)) := by
  have hp : C10.Plain m := by
    rcases h with rfl | rfl <;> simp [C10.Plain, Hdr.KO_LINE, Hdr.KP_LINE]
  have := C10.line_energy_single T Z error he 5 m hp
  unfold Gen.LineEnergy FUEL
  convert this using 1
  unfold singleEnergy lookup2 firstMember isLineMacro mOk eCell lineSlot lineCol
  rcases h with rfl | rfl <;>
    simp [Hdr.KO_LINE, Hdr.KP_LINE, Hdr.KO1_LINE, Hdr.KP1_LINE, Hdr.LINENUM]

/-- **single-line radiative rate**: for every macro value except the four group macros: the cell `RadRate_arr[Z][-line-1]`
when it is positive, an error otherwise and outside `-LINENUM … -1` -/
theorem lookup_spec_RadRate (h : m ≠ 0 ∧ m ≠ 1 ∧ m ≠ 2 ∧ m ≠ 3) :
    Meets (Gen.RadRate T Z m error) error (lookup2 T.RadRate_arr (-Hdr.LINENUM) (-1) lineCol Z m) := by
  rw [← singleRate_eq_lookup2 T Z m, ← C10.radRate_plain T Z m h]
  exact C10.rad_rate_spec T Z error he m

end lines

/-! ## Biggs occupancy: "positive record" -/

section biggs
variable (T : Tables ℝ) (Z m : Int) (error : Slot)

theorem biggsNonneg_spec (h : biggsNonnegB T Z.toNat = true) (s : Nat)
    (hs : (s : Int) < T.NShells_ComptonProfiles Z.toNat) : 0 ≤ (T.UOCCUP_ComptonProfiles Z.toNat).get s := by
  unfold biggsNonnegB at h
  rw [List.all_eq_true] at h
  have := h s (List.mem_range.mpr (by omega))
  simpa [C09.lit0] using this

/-- on a table without negative occupancy records "non-zero" (the code's test) and "positive" (the text) coincide -/
theorem biggsPos_eq (h : biggsNonnegB T Z.toNat = true) :
    Spec.ElectronConfig_BiggsPos T Z m = Spec.ElectronConfig_Biggs T Z m := by
  unfold Spec.ElectronConfig_BiggsPos Spec.ElectronConfig_Biggs
  by_cases hg : zOk Z = true ∧ 0 ≤ m ∧ m < T.NShells_ComptonProfiles Z.toNat
  · obtain ⟨hz, h0, h1⟩ := hg
    have hn := biggsNonneg_spec T Z h m.toNat (by omega)
    by_cases hp : (0.0 : ℝ) < (T.UOCCUP_ComptonProfiles Z.toNat).get m.toNat
    · rw [C09.lit0] at hp
      have : ¬ (T.UOCCUP_ComptonProfiles Z.toNat).get m.toNat = 0 := hp.ne'
      simp [hz, h0, h1, hp, this, C09.lit0]
    · rw [C09.lit0] at hp
      have : (T.UOCCUP_ComptonProfiles Z.toNat).get m.toNat = 0 := by linarith
      simp [hz, h0, h1, this, C09.lit0]
  · have e1 : ¬ (zOk Z = true ∧ 0 ≤ m ∧ m < T.NShells_ComptonProfiles Z.toNat ∧
        (0.0 : ℝ) < (T.UOCCUP_ComptonProfiles Z.toNat).get m.toNat) := fun h' => hg ⟨h'.1, h'.2.1, h'.2.2.1⟩
    have e2 : ¬ (zOk Z = true ∧ 0 ≤ m ∧ m < T.NShells_ComptonProfiles Z.toNat ∧
        ¬ deq ((T.UOCCUP_ComptonProfiles Z.toNat).get m.toNat) (0.0 : ℝ)) := fun h' => hg ⟨h'.1, h'.2.1, h'.2.2.1⟩
    rw [if_neg e1, if_neg e2]

/-- **Biggs occupancy, as the text states it** (`_partial`: under the executed data condition "no negative occupancy record"):
the positive record of the sub-shell, an error when the record is not positive or the sub-shell is not tabulated -/
theorem lookup_text_ElectronConfig_Biggs (he : error.isFull = false)
    (hlen : T.NShells_ComptonProfiles Z.toNat ≤ (T.UOCCUP_ComptonProfiles Z.toNat).len)
    (hnn : biggsNonnegB T Z.toNat = true) :
    Meets (Gen.ElectronConfig_Biggs T Z m error) error (Spec.ElectronConfig_BiggsPos T Z m) := by
  rw [biggsPos_eq T Z m hnn]
  exact lookup_spec_ElectronConfig_Biggs T Z m error he hlen

/-- the property at full strength: for EVERY table whose occupancy vectors have the announced length -/
def biggs_positive_full : Prop :=
  ∀ (T : Tables ℝ) (Z m : Int) (error : Slot), error.isFull = false →
    T.NShells_ComptonProfiles Z.toNat ≤ (T.UOCCUP_ComptonProfiles Z.toNat).len →
    Meets (Gen.ElectronConfig_Biggs T Z m error) error (Spec.ElectronConfig_BiggsPos T Z m)

/-- one element, one sub-shell, occupancy record −1 -/
noncomputable def witNeg : Tables ℝ :=
  { (default : Tables ℝ) with NShells_ComptonProfiles := fun _ => 1, UOCCUP_ComptonProfiles := fun _ => ⟨1, fun _ => -1⟩ }

/-- **the unchanged code does not meet the text on tables with a negative record**: `ElectronConfig_Biggs(1, 0)` returns −1
as a number where "no positive record" demands an error (latent: the shipped file has no negative record) -/
theorem biggs_positive_full_fails : ¬ biggs_positive_full := by
  intro h
  have := h witNeg 1 0 Slot.empty rfl (by simp [witNeg])
  have hs : Spec.ElectronConfig_BiggsPos witNeg 1 0 = .fails := by
    unfold Spec.ElectronConfig_BiggsPos
    simp [witNeg, zOk, Hdr.ZMAX]
    norm_num
  rw [hs] at this
  obtain ⟨e, _, _, hr⟩ := this
  unfold Gen.ElectronConfig_Biggs at hr
  simp [witNeg, rd1, rdv] at hr
  norm_num at hr

/-- non-vacuity of `lookup_text_ElectronConfig_Biggs`: a table with occupancies 2 (a value is returned) -/
noncomputable def witPos : Tables ℝ :=
  { (default : Tables ℝ) with NShells_ComptonProfiles := fun _ => 1, UOCCUP_ComptonProfiles := fun _ => ⟨1, fun _ => 2⟩ }

example : biggsNonnegB witPos (1 : Int).toNat = true ∧
    witPos.NShells_ComptonProfiles (1 : Int).toNat ≤ (witPos.UOCCUP_ComptonProfiles (1 : Int).toNat).len ∧
    Spec.ElectronConfig_BiggsPos witPos 1 0 = .value 2 := by
  refine ⟨?_, by simp [witPos], ?_⟩
  · simp [biggsNonnegB, witPos, C09.lit0]
  · unfold Spec.ElectronConfig_BiggsPos
    simp [witPos, zOk, Hdr.ZMAX]
    norm_num

example : Returns (Gen.ElectronConfig_Biggs witPos 1 0 Slot.empty) 2 Slot.empty := by
  have := lookup_text_ElectronConfig_Biggs witPos 1 0 Slot.empty rfl (by simp [witPos]) (by simp [biggsNonnegB, witPos, C09.lit0])
  have hs : Spec.ElectronConfig_BiggsPos witPos 1 0 = .value 2 := by
    unfold Spec.ElectronConfig_BiggsPos
    simp [witPos, zOk, Hdr.ZMAX]
    norm_num
  rw [hs] at this
  exact this

/-- non-vacuity of the line lookups: hypotheses hold for `KL3_LINE` = −3 -/
example : C10.Plain (-3) ∧ (-3 : Int) ≠ Hdr.KO_LINE ∧ (-3 : Int) ≠ Hdr.KP_LINE := by
  simp [C10.Plain, Hdr.KO_LINE, Hdr.KP_LINE]

end biggs

end C01
end Xrl
