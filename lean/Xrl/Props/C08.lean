import Xrl.Lemmas.Meets
import Xrl.Props.C01
import Xrl.Props.C10
import Xrl.Spec.Cascade
import Xrl.Gen.F_xrf_cross_sections_aux_private
/-!
# C08 — Kissel XRF cross sections equal the cascade model built from the primitives

Part 1: the vacancy-transfer constants precomputed by `prdata` (src/xrf_cross_sections_aux-private.c).
For every target shell L1…M5 and every excited inner shell of a lower principal shell, the generated function
equals "Auger yield × Σ multiplicity · Auger rate over the transitions leaving a hole in the target" with the
transition list derived from the Auger macro NAMES, plus (full variant) "fluorescence yield × radiative rate of
the line source→target".
-/
namespace Xrl
namespace C08
open Spec

set_option linter.unusedSimpArgs false
set_option linter.unusedVariables false
set_option maxRecDepth 16384

variable (T : Tables ℝ) (Z : Int)

theorem augerRate_null (a : Int) : Gen.AugerRate T Z a Slot.null = Except.ok (aug T Z a, Slot.null) :=
  C10.meets_null (C01.lookup_spec_AugerRate T Z a Slot.null rfl) (by unfold Spec.AugerRate; exact lookup2_ne_any)
theorem augerYield_null (s : Int) : Gen.AugerYield T Z s Slot.null = Except.ok (augYield T Z s, Slot.null) :=
  C10.meets_null (C01.lookup_spec_AugerYield T Z s Slot.null rfl) (by unfold Spec.AugerYield; exact lookup2_ne_any)
theorem fluorYield_null (s : Int) : Gen.FluorYield T Z s Slot.null = Except.ok (flYield T Z s, Slot.null) :=
  C10.meets_null (C01.lookup_spec_FluorYield T Z s Slot.null rfl) (by unfold Spec.FluorYield; exact lookup2_ne_any)
theorem radRate_null (l : Int) : Gen.RadRate T Z l Slot.null = Except.ok (radRate T Z l, Slot.null) := by
  by_cases h : Spec.RadRate T Z l = .any
  · exfalso; revert h; unfold Spec.RadRate singleRate; simp only []; split_ifs <;> simp
  · exact C10.meets_null (C10.rad_rate_spec T Z Slot.null rfl l) h

/-- evaluate one (function, source shell) pair: prune the other branches, rewrite the accessor calls, compare
the sum with the name-derived list -/
macro "c08_const" f:ident : tactic =>
  `(tactic| (
    unfold $f
    simp only [↓reduceIte, Int.reduceEq, augerRate_null, augerYield_null, fluorYield_null, radRate_null, bind_ok, pure_eq_ok]
    simp only [constFull, constAuger, augerSum, feedList, radLine]
    simp only [Hdr.auger_feed, Hdr.rad_feed, List.find?, Option.map, Option.getD, List.foldl,
      Hdr.auger_feed_1_0, Hdr.auger_feed_2_0, Hdr.auger_feed_3_0,
      Hdr.auger_feed_4_0, Hdr.auger_feed_4_1, Hdr.auger_feed_4_2, Hdr.auger_feed_4_3,
      Hdr.auger_feed_5_0, Hdr.auger_feed_5_1, Hdr.auger_feed_5_2, Hdr.auger_feed_5_3,
      Hdr.auger_feed_6_0, Hdr.auger_feed_6_1, Hdr.auger_feed_6_2, Hdr.auger_feed_6_3,
      Hdr.auger_feed_7_0, Hdr.auger_feed_7_1, Hdr.auger_feed_7_2, Hdr.auger_feed_7_3,
      Hdr.auger_feed_8_0, Hdr.auger_feed_8_1, Hdr.auger_feed_8_2, Hdr.auger_feed_8_3]
    norm_num [XNum.ofInt]
    try ring))

/-- data invariant used for the L1/L2 sources: Coster–Kronig-type Auger transitions carry no rate
(what C11's `auger_rate_spec` proves for the tables `prdata` writes) -/
def CKZero (T : Tables ℝ) (Z : Int) : Prop := ∀ a : Int, isCKAuger a = true → aug T Z a = 0

set_option hygiene false in
macro "c08_const_ck" f:ident hck:ident : tactic =>
  `(tactic| (
    unfold $f
    simp only [↓reduceIte, Int.reduceEq, augerRate_null, augerYield_null, fluorYield_null, radRate_null, bind_ok, pure_eq_ok]
    simp only [constFull, constAuger, augerSum, feedList, radLine]
    simp only [Hdr.auger_feed, Hdr.rad_feed, List.find?, Option.map, Option.getD, List.foldl,
      Hdr.auger_feed_4_1, Hdr.auger_feed_4_2, Hdr.auger_feed_5_1, Hdr.auger_feed_5_2,
      Hdr.auger_feed_6_1, Hdr.auger_feed_6_2, Hdr.auger_feed_7_1, Hdr.auger_feed_7_2, Hdr.auger_feed_8_1, Hdr.auger_feed_8_2]
    have hck' : ∀ a : Int, isCKAuger a = true → aug T Z a = 0 := $hck
    norm_num [XNum.ofInt]
    simp (disch := decide) only [hck']
    try norm_num
    try ring))

theorem const_auger_L1_K : Gen.PL1_get_cross_sections_constant_auger_only T Z 0 = Except.ok (constAuger T Z 1 0) := by
  c08_const Gen.PL1_get_cross_sections_constant_auger_only
theorem const_auger_L2_K : Gen.PL2_get_cross_sections_constant_auger_only T Z 0 = Except.ok (constAuger T Z 2 0) := by
  c08_const Gen.PL2_get_cross_sections_constant_auger_only
theorem const_auger_L3_K : Gen.PL3_get_cross_sections_constant_auger_only T Z 0 = Except.ok (constAuger T Z 3 0) := by
  c08_const Gen.PL3_get_cross_sections_constant_auger_only
theorem const_full_L1_K : Gen.PL1_get_cross_sections_constant_full T Z 0 = Except.ok (constFull T Z 1 0) := by
  c08_const Gen.PL1_get_cross_sections_constant_full
theorem const_full_L2_K : Gen.PL2_get_cross_sections_constant_full T Z 0 = Except.ok (constFull T Z 2 0) := by
  c08_const Gen.PL2_get_cross_sections_constant_full
theorem const_full_L3_K : Gen.PL3_get_cross_sections_constant_full T Z 0 = Except.ok (constFull T Z 3 0) := by
  c08_const Gen.PL3_get_cross_sections_constant_full

theorem const_auger_M1_K : Gen.PM1_get_cross_sections_constant_auger_only T Z 0 = Except.ok (constAuger T Z 4 0) := by
  c08_const Gen.PM1_get_cross_sections_constant_auger_only

theorem const_auger_M1_L1 (hck : CKZero T Z) : Gen.PM1_get_cross_sections_constant_auger_only T Z 1 = Except.ok (constAuger T Z 4 1) := by
  c08_const_ck Gen.PM1_get_cross_sections_constant_auger_only hck

theorem const_auger_M1_L2 (hck : CKZero T Z) : Gen.PM1_get_cross_sections_constant_auger_only T Z 2 = Except.ok (constAuger T Z 4 2) := by
  c08_const_ck Gen.PM1_get_cross_sections_constant_auger_only hck

theorem const_auger_M1_L3 : Gen.PM1_get_cross_sections_constant_auger_only T Z 3 = Except.ok (constAuger T Z 4 3) := by
  c08_const Gen.PM1_get_cross_sections_constant_auger_only

theorem const_full_M1_K : Gen.PM1_get_cross_sections_constant_full T Z 0 = Except.ok (constFull T Z 4 0) := by
  c08_const Gen.PM1_get_cross_sections_constant_full

theorem const_full_M1_L1 (hck : CKZero T Z) : Gen.PM1_get_cross_sections_constant_full T Z 1 = Except.ok (constFull T Z 4 1) := by
  c08_const_ck Gen.PM1_get_cross_sections_constant_full hck

theorem const_full_M1_L2 (hck : CKZero T Z) : Gen.PM1_get_cross_sections_constant_full T Z 2 = Except.ok (constFull T Z 4 2) := by
  c08_const_ck Gen.PM1_get_cross_sections_constant_full hck

theorem const_full_M1_L3 : Gen.PM1_get_cross_sections_constant_full T Z 3 = Except.ok (constFull T Z 4 3) := by
  c08_const Gen.PM1_get_cross_sections_constant_full

theorem const_auger_M2_K : Gen.PM2_get_cross_sections_constant_auger_only T Z 0 = Except.ok (constAuger T Z 5 0) := by
  c08_const Gen.PM2_get_cross_sections_constant_auger_only

theorem const_auger_M2_L1 (hck : CKZero T Z) : Gen.PM2_get_cross_sections_constant_auger_only T Z 1 = Except.ok (constAuger T Z 5 1) := by
  c08_const_ck Gen.PM2_get_cross_sections_constant_auger_only hck

theorem const_auger_M2_L2 (hck : CKZero T Z) : Gen.PM2_get_cross_sections_constant_auger_only T Z 2 = Except.ok (constAuger T Z 5 2) := by
  c08_const_ck Gen.PM2_get_cross_sections_constant_auger_only hck

theorem const_auger_M2_L3 : Gen.PM2_get_cross_sections_constant_auger_only T Z 3 = Except.ok (constAuger T Z 5 3) := by
  c08_const Gen.PM2_get_cross_sections_constant_auger_only

theorem const_full_M2_K : Gen.PM2_get_cross_sections_constant_full T Z 0 = Except.ok (constFull T Z 5 0) := by
  c08_const Gen.PM2_get_cross_sections_constant_full

theorem const_full_M2_L1 (hck : CKZero T Z) : Gen.PM2_get_cross_sections_constant_full T Z 1 = Except.ok (constFull T Z 5 1) := by
  c08_const_ck Gen.PM2_get_cross_sections_constant_full hck

theorem const_full_M2_L2 (hck : CKZero T Z) : Gen.PM2_get_cross_sections_constant_full T Z 2 = Except.ok (constFull T Z 5 2) := by
  c08_const_ck Gen.PM2_get_cross_sections_constant_full hck

theorem const_full_M2_L3 : Gen.PM2_get_cross_sections_constant_full T Z 3 = Except.ok (constFull T Z 5 3) := by
  c08_const Gen.PM2_get_cross_sections_constant_full

theorem const_auger_M3_K : Gen.PM3_get_cross_sections_constant_auger_only T Z 0 = Except.ok (constAuger T Z 6 0) := by
  c08_const Gen.PM3_get_cross_sections_constant_auger_only

theorem const_auger_M3_L1 (hck : CKZero T Z) : Gen.PM3_get_cross_sections_constant_auger_only T Z 1 = Except.ok (constAuger T Z 6 1) := by
  c08_const_ck Gen.PM3_get_cross_sections_constant_auger_only hck

theorem const_auger_M3_L2 (hck : CKZero T Z) : Gen.PM3_get_cross_sections_constant_auger_only T Z 2 = Except.ok (constAuger T Z 6 2) := by
  c08_const_ck Gen.PM3_get_cross_sections_constant_auger_only hck

theorem const_auger_M3_L3 : Gen.PM3_get_cross_sections_constant_auger_only T Z 3 = Except.ok (constAuger T Z 6 3) := by
  c08_const Gen.PM3_get_cross_sections_constant_auger_only

theorem const_full_M3_K : Gen.PM3_get_cross_sections_constant_full T Z 0 = Except.ok (constFull T Z 6 0) := by
  c08_const Gen.PM3_get_cross_sections_constant_full

theorem const_full_M3_L1 (hck : CKZero T Z) : Gen.PM3_get_cross_sections_constant_full T Z 1 = Except.ok (constFull T Z 6 1) := by
  c08_const_ck Gen.PM3_get_cross_sections_constant_full hck

theorem const_full_M3_L2 (hck : CKZero T Z) : Gen.PM3_get_cross_sections_constant_full T Z 2 = Except.ok (constFull T Z 6 2) := by
  c08_const_ck Gen.PM3_get_cross_sections_constant_full hck

theorem const_full_M3_L3 : Gen.PM3_get_cross_sections_constant_full T Z 3 = Except.ok (constFull T Z 6 3) := by
  c08_const Gen.PM3_get_cross_sections_constant_full

theorem const_auger_M4_K : Gen.PM4_get_cross_sections_constant_auger_only T Z 0 = Except.ok (constAuger T Z 7 0) := by
  c08_const Gen.PM4_get_cross_sections_constant_auger_only

theorem const_auger_M4_L1 (hck : CKZero T Z) : Gen.PM4_get_cross_sections_constant_auger_only T Z 1 = Except.ok (constAuger T Z 7 1) := by
  c08_const_ck Gen.PM4_get_cross_sections_constant_auger_only hck

theorem const_auger_M4_L2 (hck : CKZero T Z) : Gen.PM4_get_cross_sections_constant_auger_only T Z 2 = Except.ok (constAuger T Z 7 2) := by
  c08_const_ck Gen.PM4_get_cross_sections_constant_auger_only hck

theorem const_auger_M4_L3 : Gen.PM4_get_cross_sections_constant_auger_only T Z 3 = Except.ok (constAuger T Z 7 3) := by
  c08_const Gen.PM4_get_cross_sections_constant_auger_only

theorem const_full_M4_K : Gen.PM4_get_cross_sections_constant_full T Z 0 = Except.ok (constFull T Z 7 0) := by
  c08_const Gen.PM4_get_cross_sections_constant_full

theorem const_full_M4_L1 (hck : CKZero T Z) : Gen.PM4_get_cross_sections_constant_full T Z 1 = Except.ok (constFull T Z 7 1) := by
  c08_const_ck Gen.PM4_get_cross_sections_constant_full hck

theorem const_full_M4_L2 (hck : CKZero T Z) : Gen.PM4_get_cross_sections_constant_full T Z 2 = Except.ok (constFull T Z 7 2) := by
  c08_const_ck Gen.PM4_get_cross_sections_constant_full hck

theorem const_full_M4_L3 : Gen.PM4_get_cross_sections_constant_full T Z 3 = Except.ok (constFull T Z 7 3) := by
  c08_const Gen.PM4_get_cross_sections_constant_full

theorem const_auger_M5_K : Gen.PM5_get_cross_sections_constant_auger_only T Z 0 = Except.ok (constAuger T Z 8 0) := by
  c08_const Gen.PM5_get_cross_sections_constant_auger_only

theorem const_auger_M5_L1 (hck : CKZero T Z) : Gen.PM5_get_cross_sections_constant_auger_only T Z 1 = Except.ok (constAuger T Z 8 1) := by
  c08_const_ck Gen.PM5_get_cross_sections_constant_auger_only hck

theorem const_auger_M5_L2 (hck : CKZero T Z) : Gen.PM5_get_cross_sections_constant_auger_only T Z 2 = Except.ok (constAuger T Z 8 2) := by
  c08_const_ck Gen.PM5_get_cross_sections_constant_auger_only hck

theorem const_auger_M5_L3 : Gen.PM5_get_cross_sections_constant_auger_only T Z 3 = Except.ok (constAuger T Z 8 3) := by
  c08_const Gen.PM5_get_cross_sections_constant_auger_only

theorem const_full_M5_K : Gen.PM5_get_cross_sections_constant_full T Z 0 = Except.ok (constFull T Z 8 0) := by
  c08_const Gen.PM5_get_cross_sections_constant_full

theorem const_full_M5_L1 (hck : CKZero T Z) : Gen.PM5_get_cross_sections_constant_full T Z 1 = Except.ok (constFull T Z 8 1) := by
  c08_const_ck Gen.PM5_get_cross_sections_constant_full hck

theorem const_full_M5_L2 (hck : CKZero T Z) : Gen.PM5_get_cross_sections_constant_full T Z 2 = Except.ok (constFull T Z 8 2) := by
  c08_const_ck Gen.PM5_get_cross_sections_constant_full hck

theorem const_full_M5_L3 : Gen.PM5_get_cross_sections_constant_full T Z 3 = Except.ok (constFull T Z 8 3) := by
  c08_const Gen.PM5_get_cross_sections_constant_full

end C08
end Xrl
