import Xrl.Props.C11
import Xrl.Lemmas.JumpRatio
import Xrl.Spec.Invariants
/-!
# C11 — "so the three decay channels partition unity and each lies in [0,1]"

`C11.yield_partition` is the definitional identity `ω + Σf + (1 − ω − Σf) = 1`; it also "holds" when the derived number is
negative, where the public accessor reports an error.  Here the clause is proved for what the functions RETURN:

* `auger_channels`        : whenever the build-time derivation `AugerYield_prdata` gives a positive number `v` (the only case
  in which the public `AugerYield` returns anything): `v ≤ 1`, `0 < ω ≤ 1`, `0 ≤ f ≤ 1` for every Coster–Kronig probability
  of the shell, and `v + ω + Σ f = 1` — exactly, over ℝ.  The channel values are those of the public accessors
  (`FluorYield`, `CosKronTransProb`, 0 where they report "not tabulated"); no data hypothesis is needed in this form.
* `auger_channels_raw`    : the same on the raw table cells, under `ckNonnegAt` (0 ≤ f for the shell's Coster–Kronig cells; the
  executable `augerInputsOkAt` = that and ω ≤ 1; a yield cell ≤ 0 is the loader's "not tabulated" sentinel).
* `auger_yield_public`    : the public `AugerYield`, through the stored cell (`hcell`: the cell holds the derived number);
  `auger_yield_public_approx` when the cell holds it up to `δ` (the `%.10E` print of prdata).
* `auger_rate_range`      : every number `AugerRate_prdata` gives lies in `[0, 1 + ε]` under `augerRateInputsOkAt ε`
  (raw rate ≥ 0 and, for a transition that is not of Coster–Kronig type, ≤ (1 + ε) × the net total of its shell);
  `auger_rate_public` for the public `AugerRate` through the stored cell;
  `auger_rate_needs_dominance`: non-negative raw rates and a positive net total alone do NOT bound the rate by 1.
-/
namespace Xrl
namespace C11
open Spec

set_option linter.unusedSimpArgs false
set_option linter.unusedVariables false

variable (T : Tables ℝ) (Z : Int)

/-! ## the accessor values are non-negative, and equal the cells where those are non-negative -/

omit T Z in
theorem lookup2_valOr0_nonneg (cell : Nat → Nat → ℝ) (lo hi : Int) (slot : Int → Int) (Z m : Int) :
    0 ≤ valOr0 (lookup2 cell lo hi slot Z m) := by
  apply C10.valOr0_nonneg_of
  intro v hv
  unfold lookup2 at hv
  split_ifs at hv with h
  injection hv with hv
  rw [← hv]
  have := h.2.2
  norm_num at this
  exact this

omit T Z in
theorem lookup2_valOr0_cell (cell : Nat → Nat → ℝ) (lo hi : Int) (Z m : Int) (hz : zOk Z = true) (hm : mOk lo hi m = true)
    (h0 : 0 ≤ cell Z.toNat m.toNat) : valOr0 (lookup2 cell lo hi id Z m) = cell Z.toNat m.toNat := by
  unfold lookup2
  by_cases hp : (0.0 : ℝ) < cell Z.toNat (id m).toNat
  · rw [if_pos ⟨hz, hm, hp⟩]; rfl
  · rw [if_neg (fun h => hp h.2.2)]
    simp only [valOr0]
    norm_num at hp ⊢
    exact le_antisymm h0 hp |>.symm ▸ rfl

/-- fluorescence yield as the public accessor gives it (0 where it reports "not tabulated") -/
noncomputable def omega (s : Int) : ℝ := valOr0 (Spec.FluorYield T Z s)
/-- Coster–Kronig probability as the public accessor gives it -/
noncomputable def ck (t : Int) : ℝ := valOr0 (Spec.CosKronTransProb T Z t)
/-- the Coster–Kronig transitions leaving sub-shell `s`, by their names -/
def ckOf (s : Int) : List Int := lookupList Hdr.ck_of_shell s
/-- Σ of the shell's Coster–Kronig probabilities -/
noncomputable def ckSum (s : Int) : ℝ := ((ckOf s).map (ck T Z)).sum

theorem omega_nonneg (s : Int) : 0 ≤ omega T Z s := lookup2_valOr0_nonneg _ _ _ _ _ _
theorem ck_nonneg (t : Int) : 0 ≤ ck T Z t := lookup2_valOr0_nonneg _ _ _ _ _ _

theorem ckSum_nonneg (s : Int) : 0 ≤ ckSum T Z s :=
  List.sum_nonneg (fun x hx => by
    obtain ⟨t, _, rfl⟩ := List.mem_map.1 hx
    exact ck_nonneg T Z t)

theorem ck_le_ckSum (s t : Int) (ht : t ∈ ckOf s) : ck T Z t ≤ ckSum T Z s :=
  List.single_le_sum (fun x hx => by
    obtain ⟨t', _, rfl⟩ := List.mem_map.1 hx
    exact ck_nonneg T Z t') _ (List.mem_map.2 ⟨t, ht, rfl⟩)

/-! ## the derived yield -/

/-- a positive derived yield: valid element, shell K..M5, fluorescence yield tabulated -/
theorem augerYield_pos_dom (s : Int) (hv : 0 < augerYield T Z s) :
    (1 ≤ Z ∧ Z ≤ 120) ∧ (0 ≤ s ∧ s ≤ 8) ∧ omega T Z s ≠ 0 := by
  unfold augerYield at hv
  by_cases h1 : zOk Z = true ∧ 0 ≤ s ∧ s ≤ Hdr.M5_SHELL
  · rw [if_pos h1] at hv
    refine ⟨?_, ⟨h1.2.1, by simpa [Hdr.M5_SHELL] using h1.2.2⟩, ?_⟩
    · have := h1.1; simp only [zOk, Hdr.ZMAX] at this; exact of_decide_eq_true this
    · intro h0
      unfold omega at h0
      simp only [deq_real] at hv
      norm_num [h0] at hv
  · rw [if_neg h1] at hv
    norm_num at hv

/-- the partition identity for the derived number, whenever it is positive -/
theorem augerYield_partition (s : Int) (hv : 0 < augerYield T Z s) :
    augerYield T Z s + omega T Z s + ckSum T Z s = 1 := by
  obtain ⟨hZ, hs, hw⟩ := augerYield_pos_dom T Z s hv
  have := yield_partition T Z s hs hZ hw
  unfold omega ckSum ckOf ck
  linarith

/-- **the three decay channels partition unity and each lies in [0,1]**: whenever the derivation `AugerYield_prdata` gives a
positive number `v` — the only case in which the public `AugerYield` returns a value — then `v ≤ 1`, `0 < ω ≤ 1`,
`0 ≤ f ≤ 1` for each Coster–Kronig probability of the shell, and `v + ω + Σ f = 1` exactly -/
theorem auger_channels (s : Int) (v : ℝ) (hr : Gen.AugerYield_prdata T Z s = Except.ok v) (hv : 0 < v) :
    v ≤ 1 ∧ (0 < omega T Z s ∧ omega T Z s ≤ 1) ∧ (∀ t ∈ ckOf s, 0 ≤ ck T Z t ∧ ck T Z t ≤ 1) ∧
      v + omega T Z s + ckSum T Z s = 1 := by
  rw [auger_yield_spec] at hr
  injection hr with hr
  rw [← hr] at hv ⊢
  have hp := augerYield_partition T Z s hv
  obtain ⟨_, _, hw⟩ := augerYield_pos_dom T Z s hv
  have w0 := omega_nonneg T Z s
  have c0 := ckSum_nonneg T Z s
  have wpos : 0 < omega T Z s := lt_of_le_of_ne w0 (Ne.symm hw)
  refine ⟨by linarith, ⟨wpos, by linarith⟩, ?_, hp⟩
  intro t ht
  exact ⟨ck_nonneg T Z t, by have := ck_le_ckSum T Z s t ht; linarith⟩

/-! ## on the raw table cells -/

omit T Z in
theorem ckOf_range (s t : Int) (ht : t ∈ ckOf s) : 1 ≤ t ∧ t ≤ 14 := by
  have hc : s = 1 ∨ s = 2 ∨ s = 4 ∨ s = 5 ∨ s = 6 ∨ s = 7 ∨ (s ≠ 1 ∧ s ≠ 2 ∧ s ≠ 4 ∧ s ≠ 5 ∧ s ≠ 6 ∧ s ≠ 7) := by omega
  unfold ckOf lookupList at ht
  rcases hc with h | h | h | h | h | h | ⟨h1, h2, h4, h5, h6, h7⟩
  any_goals (subst h; simp [Hdr.ck_of_shell, List.find?] at ht; omega)
  have e1 : ¬ (1 = s) := fun h => h1 h.symm
  have e2 : ¬ (2 = s) := fun h => h2 h.symm
  have e4 : ¬ (4 = s) := fun h => h4 h.symm
  have e5 : ¬ (5 = s) := fun h => h5 h.symm
  have e6 : ¬ (6 = s) := fun h => h6 h.symm
  have e7 : ¬ (7 = s) := fun h => h7 h.symm
  simp [Hdr.ck_of_shell, List.find?, e1, e2, e4, e5, e6, e7] at ht

/-- a fluorescence yield the accessor reports is the table cell -/
theorem omega_cell (s : Int) (hw : omega T Z s ≠ 0) : omega T Z s = T.FluorYield_arr Z.toNat s.toNat := by
  unfold omega Spec.FluorYield lookup2 at hw ⊢
  by_cases h : zOk Z = true ∧ mOk Hdr.K_SHELL (Hdr.SHELLNUM - 1) s = true ∧ (0.0 : ℝ) < T.FluorYield_arr Z.toNat (id s).toNat
  · rw [if_pos h]; rfl
  · rw [if_neg h] at hw
    exact absurd (by simp only [valOr0]; norm_num) hw

theorem ck_cell (s t : Int) (hZ : 1 ≤ Z ∧ Z ≤ 120) (ht : t ∈ ckOf s) (hd : ckNonnegAt T Z s = true) :
    ck T Z t = T.CosKron_arr Z.toNat t.toNat := by
  unfold ckNonnegAt at hd
  simp only [decide_eq_true_eq, List.all_eq_true] at hd
  have h0 : 0 ≤ T.CosKron_arr Z.toNat t.toNat := by have := hd t ht; norm_num at this; exact this
  have hr := ckOf_range s t ht
  exact lookup2_valOr0_cell _ _ _ Z t (by simp [zOk, Hdr.ZMAX, hZ])
    (by unfold mOk; simp only [Hdr.FL12_TRANS, Hdr.FM45_TRANS]; exact decide_eq_true (by omega)) h0

theorem ckNonneg_of_inputsOk (s : Int) (h : augerInputsOkAt T Z s = true) : ckNonnegAt T Z s = true := by
  unfold augerInputsOkAt at h
  rw [Bool.and_eq_true] at h
  exact h.2

/-- **the partition on the raw tables**: under `ckNonnegAt` (0 ≤ f for the shell's Coster–Kronig cells; second half of
`augerInputsOkAt`), a positive derived yield `v`, the shell's fluorescence-yield cell and its Coster–Kronig cells sum to 1, and each
of them lies in [0,1] (in particular the yield cell is a tabulated one: positive, not the sentinel) -/
theorem auger_channels_raw (s : Int) (v : ℝ) (hr : Gen.AugerYield_prdata T Z s = Except.ok v) (hv : 0 < v)
    (hd : ckNonnegAt T Z s = true) :
    (0 < v ∧ v ≤ 1) ∧ (0 < T.FluorYield_arr Z.toNat s.toNat ∧ T.FluorYield_arr Z.toNat s.toNat ≤ 1) ∧
      (∀ t ∈ ckOf s, 0 ≤ T.CosKron_arr Z.toNat t.toNat ∧ T.CosKron_arr Z.toNat t.toNat ≤ 1) ∧
      v + T.FluorYield_arr Z.toNat s.toNat + ((ckOf s).map (fun t => T.CosKron_arr Z.toNat t.toNat)).sum = 1 := by
  obtain ⟨h1, h2, h3, h4⟩ := auger_channels T Z s v hr hv
  have hdom : (1 ≤ Z ∧ Z ≤ 120) ∧ (0 ≤ s ∧ s ≤ 8) := by
    rw [auger_yield_spec] at hr
    injection hr with hr
    rw [← hr] at hv
    exact ⟨(augerYield_pos_dom T Z s hv).1, (augerYield_pos_dom T Z s hv).2.1⟩
  have ew := omega_cell T Z s h2.1.ne'
  have es : ckSum T Z s = ((ckOf s).map (fun t => T.CosKron_arr Z.toNat t.toNat)).sum := by
    unfold ckSum
    congr 1
    apply List.map_congr_left
    intro t ht
    exact ck_cell T Z s t hdom.1 ht hd
  rw [ew] at h2 h4
  rw [es] at h4
  refine ⟨⟨hv, h1⟩, h2, ?_, h4⟩
  intro t ht
  rw [← ck_cell T Z s t hdom.1 ht hd]
  exact h3 t ht

/-! ## the public accessor `AugerYield` -/

/-- what a successful call of the public `AugerYield` returned: the stored cell, which is positive -/
theorem auger_yield_returned (s : Int) (v : ℝ) (error : Slot) (he : error.isFull = false)
    (hret : Gen.AugerYield T Z s error = Except.ok (v, error)) (hne : v ≠ 0) :
    v = T.Auger_Yields Z.toNat s.toNat ∧ 0 < v := by
  have m := C01.lookup_spec_AugerYield T Z s error he
  rcases Meets.cases m with ⟨v', hx, r⟩ | ⟨_, e, _, _, r⟩ | ha
  · rw [hret] at r
    have hvv : v = v' := by injection r with r; exact (Prod.mk.inj r).1
    unfold Spec.AugerYield lookup2 at hx
    split_ifs at hx with h
    injection hx with hx
    have hp := h.2.2
    simp only [id] at hx hp
    norm_num at hp
    rw [hvv, ← hx]
    exact ⟨rfl, hp⟩
  · rw [hret] at r
    have : v = 0 := by injection r with r; exact (Prod.mk.inj r).1
    exact absurd this hne
  · exact absurd ha (by unfold Spec.AugerYield; exact lookup2_ne_any)

/-- **public `AugerYield`**: whenever it returns a value `v` (through a cell that holds the number the derivation gives,
`hcell`): `0 < v ≤ 1` and `v + FluorYield + Σ CosKronTransProb = 1`, every channel in [0,1] -/
theorem auger_yield_public (s : Int) (v : ℝ) (error : Slot) (he : error.isFull = false)
    (hret : Gen.AugerYield T Z s error = Except.ok (v, error)) (hne : v ≠ 0)
    (hcell : Gen.AugerYield_prdata T Z s = Except.ok (T.Auger_Yields Z.toNat s.toNat)) :
    (0 < v ∧ v ≤ 1) ∧ (0 < omega T Z s ∧ omega T Z s ≤ 1) ∧ (∀ t ∈ ckOf s, 0 ≤ ck T Z t ∧ ck T Z t ≤ 1) ∧
      v + omega T Z s + ckSum T Z s = 1 := by
  obtain ⟨hv, hp⟩ := auger_yield_returned T Z s v error he hret hne
  rw [← hv] at hcell
  obtain ⟨h1, h2, h3, h4⟩ := auger_channels T Z s v hcell hp
  exact ⟨⟨hp, h1⟩, h2, h3, h4⟩

/-- the same when the cell holds the derived number up to `δ` (prdata prints it with `%.10E`), for a shell whose fluorescence
yield is tabulated: the returned channels sum to 1 within `δ`, and `0 < v ≤ 1 + δ` -/
theorem auger_yield_public_approx (s : Int) (v δ : ℝ) (error : Slot) (he : error.isFull = false)
    (hret : Gen.AugerYield T Z s error = Except.ok (v, error)) (hne : v ≠ 0)
    (hZ : 1 ≤ Z ∧ Z ≤ 120) (hs : 0 ≤ s ∧ s ≤ 8) (hw : omega T Z s ≠ 0)
    (hcell : |T.Auger_Yields Z.toNat s.toNat - augerYield T Z s| ≤ δ) :
    (0 < v ∧ v ≤ 1 + δ) ∧ |v + omega T Z s + ckSum T Z s - 1| ≤ δ := by
  obtain ⟨hv, hp⟩ := auger_yield_returned T Z s v error he hret hne
  have hpart : augerYield T Z s + omega T Z s + ckSum T Z s = 1 := by
    have := yield_partition T Z s hs hZ hw
    unfold omega ckSum ckOf ck
    linarith
  have w0 := omega_nonneg T Z s
  have c0 := ckSum_nonneg T Z s
  rw [← hv] at hcell
  have e : v + omega T Z s + ckSum T Z s - 1 = v - augerYield T Z s := by linarith
  rw [e]
  refine ⟨⟨hp, ?_⟩, hcell⟩
  have := (abs_le.1 hcell).2
  linarith

/-! ## Auger rates -/

/-- **every number the derivation `AugerRate_prdata` gives lies in `[0, 1 + ε]`**, when the raw rate is non-negative and — for
a transition that is not of Coster–Kronig type — does not exceed `(1 + ε) ×` the net non-radiative total of its initial shell
(`augerRateInputsOkAt ε`, executable; `ε = 0`: the interval [0,1]) -/
theorem auger_rate_range (a : Int) (ε v : ℝ) (hε : 0 ≤ ε) (hr : Gen.AugerRate_prdata T Z a = Except.ok v)
    (hd : augerRateInputsOkAt ε T Z a = true) : 0 ≤ v ∧ v ≤ 1 + ε := by
  rw [auger_rate_spec] at hr
  injection hr with hr
  unfold augerRateInputsOkAt at hd
  simp only [Bool.and_eq_true, Bool.or_eq_true, decide_eq_true_eq] at hd
  obtain ⟨h0, h1⟩ := hd
  norm_num at h0 h1
  have triv : (0 : ℝ) ≤ 0 ∧ (0 : ℝ) ≤ 1 + ε := ⟨le_rfl, by linarith⟩
  rw [← hr]
  unfold augerRate
  by_cases c0 : zOk Z = true ∧ 0 ≤ a ∧ a < Hdr.AUGERNUM
  · rw [if_pos c0]
    by_cases c1 : isCKAuger a = true
    · rw [if_pos c1]; norm_num; linarith
    · rw [if_neg c1]
      by_cases c2 : deq (rawRate T Z a) (0.0 : ℝ)
      · rw [if_pos c2]; norm_num; linarith
      · rw [if_neg c2]
        simp only []
        by_cases c3 : netTotal T Z (augerInit a) < (1.0e-8 : ℝ)
        · rw [if_pos c3]; norm_num; linarith
        · rw [if_neg c3]
          have hn : 0 < netTotal T Z (augerInit a) := by
            have : (0 : ℝ) < 1.0e-8 := by norm_num
            linarith [not_lt.1 c3]
          have hle : rawRate T Z a ≤ netTotal T Z (augerInit a) * (1 + ε) := by
            rcases h1 with h | h
            · exact absurd h c1
            · exact h
          refine ⟨div_nonneg h0 hn.le, ?_⟩
          rw [div_le_iff₀ hn]
          linarith
  · rw [if_neg c0]; norm_num; linarith

/-- **public `AugerRate`**: whenever it returns a value `v` through a cell that holds the derived number: `0 < v ≤ 1 + ε` -/
theorem auger_rate_public (a : Int) (ε v : ℝ) (hε : 0 ≤ ε) (error : Slot) (he : error.isFull = false)
    (hret : Gen.AugerRate T Z a error = Except.ok (v, error)) (hne : v ≠ 0)
    (hcell : Gen.AugerRate_prdata T Z a = Except.ok (T.Auger_Rates Z.toNat a.toNat))
    (hd : augerRateInputsOkAt ε T Z a = true) : 0 < v ∧ v ≤ 1 + ε := by
  have m := C01.lookup_spec_AugerRate T Z a error he
  rcases Meets.cases m with ⟨v', hx, r⟩ | ⟨_, e, _, _, r⟩ | ha
  · rw [hret] at r
    have hvv : v = v' := by injection r with r; exact (Prod.mk.inj r).1
    unfold Spec.AugerRate lookup2 at hx
    split_ifs at hx with h
    injection hx with hx
    have hp := h.2.2
    simp only [id] at hx hp
    norm_num at hp
    rw [hx, ← hvv] at hp
    rw [hx, ← hvv] at hcell
    exact ⟨hp, (auger_rate_range T Z a ε v hε hcell hd).2⟩
  · rw [hret] at r
    have : v = 0 := by injection r with r; exact (Prod.mk.inj r).1
    exact absurd this hne
  · exact absurd ha (by unfold Spec.AugerRate; exact lookup2_ne_any)

/-! ## from the whole-table invariants to the per-cell hypotheses -/

theorem augerInputsOkB_at (h : augerInputsOkB T = true) (s : Int) (hZ : 1 ≤ Z ∧ Z ≤ 120) (hs : 0 ≤ s ∧ s ≤ 8) :
    augerInputsOkAt T Z s = true := by
  unfold augerInputsOkB at h
  simp only [List.all_eq_true, List.mem_range] at h
  have := h Z.toNat (by omega) s.toNat (by omega)
  rwa [show Int.ofNat Z.toNat = Z from Int.toNat_of_nonneg (by omega),
    show Int.ofNat s.toNat = s from Int.toNat_of_nonneg (by omega)] at this

theorem augerRateBad_nil_at (ε : ℝ) (h : augerRateBad ε T = []) (a : Int) (hZ : 1 ≤ Z ∧ Z ≤ 120) (ha : 0 ≤ a ∧ a < 996) :
    augerRateInputsOkAt ε T Z a = true := by
  unfold augerRateBad at h
  rw [List.flatMap_eq_nil_iff] at h
  have h1 := h Z.toNat (List.mem_range.2 (by omega))
  rw [List.map_eq_nil_iff, List.filter_eq_nil_iff] at h1
  have h2 := h1 a.toNat (List.mem_range.2 (by simp only [Hdr.AUGERNUM]; omega))
  rw [show Int.ofNat Z.toNat = Z from Int.toNat_of_nonneg (by omega),
    show Int.ofNat a.toNat = a from Int.toNat_of_nonneg (by omega)] at h2
  simpa using h2

/-! ## concrete instances -/

/-- one element: L1 with ω = 1/4 and Coster–Kronig probabilities 1/4, 1/8, 1/8; K Auger transition `K_L1L1` with raw rate `r`
out of a raw K total of 1 -/
noncomputable def witA (r : ℝ) : Tables ℝ :=
  { (default : Tables ℝ) with
    FluorYield_arr := fun _ s => if s = 1 then 1 / 4 else 0
    CosKron_arr := fun _ t => if t = 1 then 1 / 4 else if t = 2 ∨ t = 3 then 1 / 8 else 0
    Auger_Yields := fun _ s => if s = 1 then 1 / 4 else 0
    Auger_Transition_Total := fun _ s => if s = 0 then 1 else 0
    Auger_Transition_Individual := fun _ a => if a = 0 then r else 0
    Auger_Rates := fun _ a => if a = 0 then r else 0 }

theorem witA_omega (r : ℝ) : valOr0 (Spec.FluorYield (witA r) 1 1) = 1 / 4 := by
  simp [Spec.FluorYield, lookup2, zOk, mOk, Hdr.ZMAX, Hdr.K_SHELL, Hdr.SHELLNUM, witA, valOr0, C09.lit0]

theorem witA_ck (r : ℝ) (t : Int) (ht : 1 ≤ t ∧ t ≤ 3) :
    valOr0 (Spec.CosKronTransProb (witA r) 1 t) = if t = 1 then 1 / 4 else 1 / 8 := by
  have : t = 1 ∨ t = 2 ∨ t = 3 := by omega
  rcases this with rfl | rfl | rfl <;>
  simp [Spec.CosKronTransProb, lookup2, zOk, mOk, Hdr.ZMAX, Hdr.FL12_TRANS, Hdr.FM45_TRANS, witA, valOr0, C09.lit0]

theorem witA_yield (r : ℝ) : augerYield (witA r) 1 1 = 1 / 4 := by
  unfold augerYield
  have hz : zOk 1 = true ∧ (0 : Int) ≤ 1 ∧ (1 : Int) ≤ Hdr.M5_SHELL := by decide
  rw [if_pos hz]
  simp only [witA_omega, deq_real]
  have : ¬ ((1 : ℝ) / 4 = 0.0) := by norm_num
  rw [if_neg this]
  simp only [lookupList, Hdr.ck_of_shell, List.find?, decide_true, Option.map, Option.getD, List.foldl,
    witA_ck r 1 (by omega), witA_ck r 2 (by omega), witA_ck r 3 (by omega)]
  norm_num

theorem witA_inputs (r : ℝ) : augerInputsOkAt (witA r) 1 1 = true := by
  simp [augerInputsOkAt, ckNonnegAt, lookupList, Hdr.ck_of_shell, List.find?, witA]
  norm_num

/-- the hypotheses of `auger_channels_raw` on the instance: the derived L1 yield is 1/4 and 1/4 + 1/4 + (1/4 + 1/8 + 1/8) = 1 -/
example : Gen.AugerYield_prdata (witA 0) 1 1 = Except.ok (1 / 4) ∧ (0 : ℝ) < 1 / 4 ∧ augerInputsOkAt (witA 0) 1 1 = true ∧
    (1 / 4 : ℝ) + (witA 0).FluorYield_arr 1 1 + ((ckOf 1).map (fun t => (witA 0).CosKron_arr 1 t.toNat)).sum = 1 := by
  have h : Gen.AugerYield_prdata (witA 0) 1 1 = Except.ok (1 / 4) := by rw [auger_yield_spec, witA_yield]
  exact ⟨h, by norm_num, witA_inputs 0,
    (auger_channels_raw (witA 0) 1 1 (1 / 4) h (by norm_num) (ckNonneg_of_inputsOk _ _ _ (witA_inputs 0))).2.2.2⟩

/-- the public accessor on the instance -/
example : Gen.AugerYield (witA 0) 1 1 Slot.empty = Except.ok ((1 / 4 : ℝ), Slot.empty) ∧
    (1 / 4 : ℝ) + omega (witA 0) 1 1 + ckSum (witA 0) 1 1 = 1 := by
  have hret : Gen.AugerYield (witA 0) 1 1 Slot.empty = Except.ok ((1 / 4 : ℝ), Slot.empty) := by
    have m := C01.lookup_spec_AugerYield (witA 0) 1 1 Slot.empty rfl
    have hx : Spec.AugerYield (witA 0) 1 1 = .value (1 / 4) := by
      simp [Spec.AugerYield, lookup2, zOk, mOk, Hdr.ZMAX, Hdr.K_SHELL, Hdr.M5_SHELL, witA, C09.lit0]
    rwa [hx] at m
  refine ⟨hret, (auger_yield_public (witA 0) 1 1 (1 / 4) Slot.empty rfl hret (by norm_num) ?_).2.2.2⟩
  rw [auger_yield_spec, witA_yield]
  show Except.ok (1 / 4 : ℝ) = Except.ok (if (1 : Int).toNat = 1 then 1 / 4 else 0)
  simp

theorem witA_net (r : ℝ) : netTotal (witA r) 1 (augerInit 0) = 1 := by
  have hi : augerInit 0 = 0 := by rw [augerInit_bucket 0 le_rfl]; simp
  rw [hi]
  unfold netTotal
  simp [zOk, Hdr.ZMAX, Hdr.M5_SHELL, lookupList, Hdr.auger_ck_of_shell, List.find?, rawTotal, witA]

theorem witA_rate (r : ℝ) (hr : 0 < r) : augerRate (witA r) 1 0 = r := by
  have hck : isCKAuger 0 = false := by decide
  have hraw : rawRate (witA r) 1 0 = r := by simp [rawRate, witA]
  have hne : ¬ r = 0 := hr.ne'
  unfold augerRate
  have h8 : ¬ (1 : ℝ) < 1.0e-8 := by norm_num
  simp only [zOk, Hdr.ZMAX, Hdr.AUGERNUM, hck, witA_net, hraw, deq_real, C09.lit0, hne, h8, if_false]
  simp

/-- `K_L1L1` with raw rate 1/2 out of a net K total of 1: the hypotheses of `auger_rate_range` hold with `ε = 0`, the rate is 1/2 -/
example : Gen.AugerRate_prdata (witA (1 / 2)) 1 0 = Except.ok (1 / 2) ∧ augerRateInputsOkAt 0 (witA (1 / 2)) 1 0 = true := by
  refine ⟨by rw [auger_rate_spec, witA_rate _ (by norm_num)], ?_⟩
  have hraw : rawRate (witA (1 / 2)) 1 0 = 1 / 2 := by simp [rawRate, witA]
  have hck : isCKAuger 0 = false := by decide
  unfold augerRateInputsOkAt
  rw [witA_net, hraw, hck]
  simp only [Bool.false_or, Bool.and_eq_true, decide_eq_true_eq]
  norm_num

/-- **non-negative raw rates and a positive net total do not bound the rate**: with a raw rate of 2 out of a net total of 1
every raw cell is ≥ 0, the net total is 1 > 0, and the "rate" is 2 -/
theorem auger_rate_needs_dominance :
    ∃ (T : Tables ℝ) (Z a : Int), (∀ z b, 0 ≤ T.Auger_Transition_Individual z b) ∧ 0 < netTotal T Z (augerInit a) ∧
      Gen.AugerRate_prdata T Z a = Except.ok 2 := by
  refine ⟨witA 2, 1, 0, ?_, by rw [witA_net]; norm_num, by rw [auger_rate_spec, witA_rate _ (by norm_num)]⟩
  intro z b
  show (0 : ℝ) ≤ if b = 0 then 2 else 0
  split_ifs <;> norm_num

end C11
end Xrl
