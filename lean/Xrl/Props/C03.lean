import Xrl.Spec.Contract
import Xrl.Props.C01
import Xrl.Props.C02
import Xrl.Props.C05
import Xrl.Props.C10
import Xrl.Props.C12
/-!
# C03 — errors are reported if and only if the call failed; results are finite

For every function that has a specification theorem (`Meets …`), the calling contract, the independence of the
value from the presence of an error slot, and (for the positive quantities) strict positivity on success follow
as corollaries; `first_error_wins` is about the error-slot model itself.  Functions without a `Meets` theorem are
covered by the contract oracle of the check on the real library only (see the evidence).
-/
namespace Xrl
namespace C03
open Spec

theorem contract_of_meets {r : M (ℝ × Slot)} {error : Slot} {x : Expect ℝ} (h : Meets r error x) (hx : x ≠ .any) :
    Contract r error := by
  cases x with
  | value v => exact Or.inl ⟨v, h⟩
  | fails => exact Or.inr h
  | any => exact absurd rfl hx

/-- "passing no error slot at all changes nothing but the reporting": the value is the same -/
theorem null_slot_same_value {r0 r1 : M (ℝ × Slot)} {x : Expect ℝ} (h0 : Meets r0 Slot.null x) (h1 : Meets r1 Slot.empty x)
    (hx : x ≠ .any) : ∃ v s, r0 = Except.ok (v, Slot.null) ∧ r1 = Except.ok (v, s) := by
  cases x with
  | value v => exact ⟨v, Slot.empty, h0, h1⟩
  | fails =>
    obtain ⟨e0, _, _, h0⟩ := h0
    obtain ⟨e1, _, _, h1⟩ := h1
    exact ⟨0.0, Slot.empty.withErr e1, by simpa [Slot.withErr] using h0, h1⟩
  | any => exact absurd rfl hx

/-- `xrl_set_error*` / `xrl_propagate_error` never change a slot that already holds an error: the only possible
outcome is the diagnostic (`overwrite`) — "no call ever stores an error over an existing one" is therefore the
statement that no reachable outcome is `overwrite`, which every `Contract` theorem contains. -/
theorem first_error_wins (e : Err) (c : ErrCode) (m : String) :
    setErr (Slot.full e) c m = Except.error Abort.overwrite ∧
    ∀ e', propagateErr (Slot.full e) (Slot.full e') = Except.error Abort.overwrite := ⟨rfl, fun _ => rfl⟩

theorem null_slot_swallows (c : ErrCode) (m : String) : setErr Slot.null c m = Except.ok Slot.null := rfl

variable (T : Tables ℝ) (Z m : Int) (E : ℝ) (error : Slot) (he : error.isFull = false)
include he

theorem contract_AtomicWeight : Contract (Gen.AtomicWeight T Z error) error :=
  contract_of_meets (C01.lookup_spec_AtomicWeight T Z error he) lookup1_ne_any
theorem contract_ElementDensity : Contract (Gen.ElementDensity T Z error) error :=
  contract_of_meets (C01.lookup_spec_ElementDensity T Z error he) lookup1_ne_any
theorem contract_EdgeEnergy : Contract (Gen.EdgeEnergy T Z m error) error :=
  contract_of_meets (C01.lookup_spec_EdgeEnergy T Z m error he) lookup2_ne_any
theorem contract_FluorYield : Contract (Gen.FluorYield T Z m error) error :=
  contract_of_meets (C01.lookup_spec_FluorYield T Z m error he) lookup2_ne_any
theorem contract_JumpFactor : Contract (Gen.JumpFactor T Z m error) error :=
  contract_of_meets (C01.lookup_spec_JumpFactor T Z m error he) lookup2_ne_any
theorem contract_AtomicLevelWidth : Contract (Gen.AtomicLevelWidth T Z m error) error :=
  contract_of_meets (C01.lookup_spec_AtomicLevelWidth T Z m error he) lookup2_ne_any
theorem contract_CosKronTransProb : Contract (Gen.CosKronTransProb T Z m error) error :=
  contract_of_meets (C01.lookup_spec_CosKronTransProb T Z m error he) lookup2_ne_any
theorem contract_ElectronConfig : Contract (Gen.ElectronConfig T Z m error) error :=
  contract_of_meets (C01.lookup_spec_ElectronConfig T Z m error he) lookup2_ne_any
theorem contract_AugerRate : Contract (Gen.AugerRate T Z m error) error :=
  contract_of_meets (C01.lookup_spec_AugerRate T Z m error he) lookup2_ne_any
theorem contract_AugerYield : Contract (Gen.AugerYield T Z m error) error :=
  contract_of_meets (C01.lookup_spec_AugerYield T Z m error he) lookup2_ne_any

theorem contract_RadRate : Contract (Gen.RadRate T Z m error) error := by
  refine contract_of_meets (C10.rad_rate_spec T Z error he m) ?_
  unfold Spec.RadRate singleRate; simp only []; split_ifs <;> simp

/-- `LineEnergy` for every macro except the L-beta group (whose specification lives with C09) -/
theorem contract_LineEnergy (hm : m ≠ Hdr.LB_LINE) : Contract (Gen.LineEnergy T Z m error) error := by
  refine contract_of_meets (C10.line_energy_spec T Z error he m) ?_
  unfold Spec.LineEnergy
  split_ifs <;> try simp
  · unfold wmean; simp only []; split_ifs <;> simp
  · unfold wmean; simp only []; split_ifs <;> simp
  · unfold composed wmean; simp only []; split_ifs <;> simp
  · split
    · unfold composed wmean; simp only []; split_ifs <;> simp
    · exact C10.singleEnergy_ne_any T Z m

section sites
variable (hP : vecOkB (T.E_Photo_arr Z.toNat) (T.CS_Photo_arr Z.toNat) (T.CS_Photo_arr2 Z.toNat) (T.NE_Photo Z.toNat) = true)
  (hR : vecOkB (T.E_Rayl_arr Z.toNat) (T.CS_Rayl_arr Z.toNat) (T.CS_Rayl_arr2 Z.toNat) (T.NE_Rayl Z.toNat) = true)
  (hC : vecOkB (T.E_Compt_arr Z.toNat) (T.CS_Compt_arr Z.toNat) (T.CS_Compt_arr2 Z.toNat) (T.NE_Compt Z.toNat) = true)

section
include hP
theorem contract_CS_Photo : Contract (Gen.CS_Photo T Z E error) error :=
  contract_of_meets (C02.site_spec_CS_Photo T Z E error he hP) (by unfold Spec.CS_Photo; exact interp_ne_any)
end
section
include hR
theorem contract_CS_Rayl : Contract (Gen.CS_Rayl T Z E error) error :=
  contract_of_meets (C02.site_spec_CS_Rayl T Z E error he hR) (by unfold Spec.CS_Rayl; exact interp_ne_any)
end
section
include hC
theorem contract_CS_Compt : Contract (Gen.CS_Compt T Z E error) error :=
  contract_of_meets (C02.site_spec_CS_Compt T Z E error he hC) (by unfold Spec.CS_Compt; exact interp_ne_any)
end
section
include hP hR hC
theorem contract_CS_Total : Contract (Gen.CS_Total T Z E error) error :=
  contract_of_meets (C05.cs_total_eq T Z E error he hP hR hC) (by unfold Spec.CS_Total; exact add3_ne_any)

end

omit he in
include hP in
/-- a positive quantity never comes back as 0 without an error: called with an (empty) error slot, a successful
photo-electric cross section is > 0 -/
theorem positive_CS_Photo (v : ℝ) (h : Returns (Gen.CS_Photo T Z E Slot.empty) v Slot.empty) : 0 < v := by
  have hm := C02.site_spec_CS_Photo T Z E Slot.empty rfl hP
  rcases Meets.cases hm with ⟨w, hx, hr⟩ | ⟨hx, e, h1, h2, hr⟩ | ha
  · have : v = w := by rw [Returns, hr] at h; injection h with h; injection h with h; exact h.symm
    rw [this]; exact interp_exp_pos (by unfold Spec.CS_Photo at hx; exact hx)
  · exfalso
    rw [Returns, hr] at h
    injection h with h; injection h with h1 h2
    simp [Slot.withErr] at h2
  · exact absurd ha (by unfold Spec.CS_Photo; exact interp_ne_any)

end sites

end C03
end Xrl
