import Xrl.Lemmas.Tactics
import Xrl.Spec.Scatter
import Xrl.Gen.F_scattering
import Xrl.Gen.F_polarized
import Xrl.Lemmas.KNSeries
import Mathlib.Analysis.SpecialFunctions.Log.Deriv
import Mathlib.Analysis.SpecialFunctions.Trigonometric.Deriv
import Mathlib.Analysis.SpecialFunctions.Trigonometric.Bounds
import Mathlib.Analysis.SpecialFunctions.Integrals.Basic
import Mathlib.Analysis.Real.Pi.Bounds
import Mathlib.MeasureTheory.Integral.IntervalIntegral.FundThmCalculus
import Mathlib.Tactic.Ring
import Mathlib.Tactic.FieldSimp
import Mathlib.Tactic.Linarith
import Mathlib.Tactic.Positivity
/-!
# Helper lemmas for C12 (closed-form scattering formulas)

* `valueOf`, `value_<f>`  : for `E > 0` the generated function returns `ok (Spec.<f>V …, error)` — every checked
  division of the translated code has a non-zero divisor, the error slot is not touched;
* real-number readings of the textbook values (`*_real`), the Compton denominator `den`;
* the analysis: positivity, `KN ≤ Thomson`, the low-energy limit, the azimuthal averages, the Klein–Nishina
  solid-angle integral through an explicit antiderivative (from the probe `notes/probes/lean/KN.lean`),
  monotonicity of the Compton energy;
* the repaired `CS_KN` (series of degree 11 for `E/mc² < 0.02`, closed form otherwise): the closed-form branch
  *is* the integral, the series branch is within `1e-16` of it (`csknV_integral_close`, from
  `KNS.ser_close` of Lemmas/KNSeries.lean); `≤` Thomson total, `→` Thomson total.
-/
namespace Xrl
namespace KN
open Real Spec

/-- the number a call returns; `0` for an aborted run (`closed_form_<f>` exclude aborts) -/
noncomputable def valueOf (r : M (ℝ × Slot)) : ℝ :=
  match r with
  | .ok (v, _) => v
  | .error _ => 0

@[simp] theorem valueOf_ok (v : ℝ) (s : Slot) : valueOf (Except.ok (v, s)) = v := rfl

theorem valueOf_of_returns {r : M (ℝ × Slot)} {v : ℝ} {s : Slot} (h : Returns r v s) : valueOf r = v := by
  unfold Returns at h; rw [h]; rfl

/-! ## constants -/

theorem RE2_real : (Hdr.RE2 : ℝ) = 79407877 / 1000000000 := by unfold Hdr.RE2; norm_num
theorem MEC2_real : (Hdr.MEC2 : ℝ) = 31937433 / 62500 := by unfold Hdr.MEC2; norm_num
theorem KEV2ANGST_real : (Hdr.KEV2ANGST : ℝ) = 123984193 / 10000000 := by unfold Hdr.KEV2ANGST; norm_num
theorem PI_lit_real : (Spec.PI_lit : ℝ) = 3141592653589793 / 1000000000000000 := by
  unfold Spec.PI_lit; norm_num
theorem PI_hdr_real : (Hdr.PI : ℝ) = 31415926535897932384626433832795 / 10000000000000000000000000000000 := by
  unfold Hdr.PI; norm_num

theorem RE2_pos : (0 : ℝ) < Hdr.RE2 := by rw [RE2_real]; norm_num
theorem MEC2_pos : (0 : ℝ) < Hdr.MEC2 := by rw [MEC2_real]; norm_num
theorem KEV2ANGST_pos : (0 : ℝ) < Hdr.KEV2ANGST := by rw [KEV2ANGST_real]; norm_num
theorem PI_lit_pos : (0 : ℝ) < Spec.PI_lit := by rw [PI_lit_real]; norm_num

/-! ## the Compton denominator `k₀/k = 1 + (E/mc²)(1 − cos θ)` -/

noncomputable def den (E θ : ℝ) : ℝ := 1 + E / Hdr.MEC2 * (1 - cos θ)

theorem den_ge_one {E : ℝ} (hE : 0 ≤ E) (θ : ℝ) : 1 ≤ den E θ := by
  unfold den
  have h1 : cos θ ≤ 1 := cos_le_one θ
  have h2 : 0 ≤ E / Hdr.MEC2 := div_nonneg hE MEC2_pos.le
  have : 0 ≤ E / Hdr.MEC2 * (1 - cos θ) := mul_nonneg h2 (by linarith)
  linarith

theorem den_pos {E : ℝ} (hE : 0 ≤ E) (θ : ℝ) : 0 < den E θ := lt_of_lt_of_le one_pos (den_ge_one hE θ)

theorem den_zero (θ : ℝ) : den 0 θ = 1 := by unfold den; simp

theorem den_inv_pos {E : ℝ} (hE : 0 ≤ E) (θ : ℝ) : 0 < (den E θ)⁻¹ := inv_pos.mpr (den_pos hE θ)

theorem den_inv_le_one {E : ℝ} (hE : 0 ≤ E) (θ : ℝ) : (den E θ)⁻¹ ≤ 1 := inv_le_one_of_one_le₀ (den_ge_one hE θ)

theorem sin_sq_eq (θ : ℝ) : sin θ * sin θ = 1 - cos θ * cos θ := by
  have := sin_sq_add_cos_sq θ; nlinarith

/-! ## real readings of the textbook values -/

private theorem l1 : (1.0 : ℝ) = 1 := by norm_num
private theorem l2 : (2.0 : ℝ) = 2 := by norm_num
private theorem l3 : (3.0 : ℝ) = 3 := by norm_num

theorem ratioV_real (E θ : ℝ) : Spec.ratioV E θ = (den E θ)⁻¹ := by
  simp only [Spec.ratioV, XNum.cos, den, l1, one_div]

theorem thomsV_real (θ : ℝ) : Spec.thomsV θ = Hdr.RE2 / 2 * (1 + cos θ ^ 2) := by
  simp only [Spec.thomsV, XNum.cos, l1, l2, sq]

theorem thomsPV_real (θ φ : ℝ) : Spec.thomsPV θ φ = Hdr.RE2 * (1 - sin θ ^ 2 * cos φ ^ 2) := by
  simp only [Spec.thomsPV, XNum.cos, XNum.sin, l1, sq]

theorem knV_real (E θ : ℝ) :
    Spec.knV E θ = Hdr.RE2 / 2 * ((den E θ)⁻¹) ^ 2 * ((den E θ)⁻¹ + den E θ - sin θ ^ 2) := by
  simp only [Spec.knV, ratioV_real, XNum.sin, l1, l2, sq, one_div, inv_inv]

theorem knPV_real (E θ φ : ℝ) :
    Spec.knPV E θ φ =
      Hdr.RE2 / 2 * ((den E θ)⁻¹) ^ 2 * ((den E θ)⁻¹ + den E θ - 2 * sin θ ^ 2 * cos φ ^ 2) := by
  simp only [Spec.knPV, ratioV_real, XNum.sin, XNum.cos, l1, l2, sq, one_div, inv_inv]

theorem comptonV_real (E θ : ℝ) : Spec.comptonV E θ = E * (den E θ)⁻¹ := by
  simp only [Spec.comptonV, ratioV_real]

theorem momentV_real (E θ : ℝ) : Spec.momentV E θ = E / Hdr.KEV2ANGST * sin (θ / 2) := by
  simp only [Spec.momentV, XNum.sin, l2]

theorem csknBracket_real (a : ℝ) : Spec.csknBracket a = KNS.brk a := by
  simp only [Spec.csknBracket, KNS.brk, XNum.log, l1, l2, l3]

theorem csknSeries_real (a : ℝ) : Spec.csknSeries a = KNS.ser a := by
  rw [← KNS.ser_horner]
  simp only [Spec.csknSeries]
  norm_num

theorem csknSwitch_real : (Spec.csknSwitch : ℝ) = 1 / 50 := by unfold Spec.csknSwitch; norm_num

/-- series below `a = 0.02`, closed form from there on -/
theorem csknV_real (E : ℝ) :
    Spec.csknV E = 2 * Spec.PI_lit * Hdr.RE2 *
      (if E / Hdr.MEC2 < 1 / 50 then KNS.ser (E / Hdr.MEC2) else KNS.brk (E / Hdr.MEC2)) := by
  simp only [Spec.csknV, csknBracket_real, csknSeries_real, csknSwitch_real, l2]

theorem csknV_low {E : ℝ} (h : E / Hdr.MEC2 < 1 / 50) :
    Spec.csknV E = 2 * Spec.PI_lit * Hdr.RE2 * KNS.ser (E / Hdr.MEC2) := by
  rw [csknV_real, if_pos h]

theorem csknV_high {E : ℝ} (h : 1 / 50 ≤ E / Hdr.MEC2) :
    Spec.csknV E = 2 * Spec.PI_lit * Hdr.RE2 * KNS.brk (E / Hdr.MEC2) := by
  rw [csknV_real, if_neg (not_lt.mpr h)]

/-! ## what the generated functions return -/

section gen
variable (T : Tables ℝ) (E θ φ : ℝ) (error : Slot)

private theorem notle {E : ℝ} (hE : 0 < E) : ¬ E ≤ (0.0 : ℝ) := by norm_num; exact hE

private theorem cden_pos {E : ℝ} (hE : 0 < E) (θ : ℝ) : 0 < 1 + (1 - cos θ) * E / (31937433 / 62500) := by
  have : cos θ ≤ 1 := cos_le_one θ
  have : 0 ≤ (1 - cos θ) * E / (31937433 / 62500) :=
    div_nonneg (mul_nonneg (by linarith) hE.le) (by norm_num)
  linarith

theorem value_DCS_Thoms : Gen.DCS_Thoms T θ error = Except.ok (Spec.thomsV θ, error) := by
  unfold Gen.DCS_Thoms
  simp only [XNum.cos, Spec.thomsV, Hdr.RE2]
  rfl

theorem value_DCSP_Thoms : Gen.DCSP_Thoms T θ φ error = Except.ok (Spec.thomsPV θ φ, error) := by
  unfold Gen.DCSP_Thoms
  simp only [XNum.cos, XNum.sin, Spec.thomsPV, Hdr.RE2, pure_eq_ok]
  norm_num
  ring

theorem value_DCS_KN (hE : 0 < E) : Gen.DCS_KN T E θ error = Except.ok (Spec.knV E θ, error) := by
  unfold Gen.DCS_KN
  simp only [notle hE, if_false]
  simp only [ddiv, XNum.cos, XNum.sin, deq_real, Spec.knV, Spec.ratioV, Hdr.RE2, Hdr.MEC2]
  norm_num
  have hne := (cden_pos hE θ).ne'
  simp only [hne, if_false, bind_ok]
  have e : 1 + E / (31937433 / 62500) * (1 - cos θ) = 1 + (1 - cos θ) * E / (31937433 / 62500) := by ring
  rw [e]
  set u := 1 + (1 - cos θ) * E / (31937433 / 62500) with hu
  have e2 : (1 - cos θ) * E / (31937433 / 62500) = u - 1 := by rw [hu]; ring
  rw [e2, sin_sq_eq]
  congr 2
  field_simp
  ring

theorem value_DCSP_KN (hE : 0 < E) : Gen.DCSP_KN T E θ φ error = Except.ok (Spec.knPV E θ φ, error) := by
  unfold Gen.DCSP_KN
  simp only [notle hE, if_false]
  simp only [ddiv, XNum.cos, XNum.sin, deq_real, Spec.knPV, Spec.ratioV, Hdr.RE2, Hdr.MEC2]
  norm_num
  have hne := (cden_pos hE θ).ne'
  simp only [hne, if_false, bind_ok]
  have e : 1 + E / (31937433 / 62500) * (1 - cos θ) = 1 + (1 - cos θ) * E / (31937433 / 62500) := by ring
  rw [e]
  congr 2
  ring

theorem value_ComptonEnergy (hE : 0 < E) :
    Gen.ComptonEnergy T E θ error = Except.ok (Spec.comptonV E θ, error) := by
  unfold Gen.ComptonEnergy
  simp only [notle hE, if_false]
  simp only [ddiv, XNum.cos, deq_real, Spec.comptonV, Spec.ratioV, Hdr.MEC2]
  norm_num
  have hne : 1 + E / (31937433 / 62500) * (1 - cos θ) ≠ 0 := by
    have := (cden_pos hE θ).ne'
    intro h; apply this; rw [← h]; ring
  simp only [hne, if_false, bind_ok]
  rfl

theorem value_MomentTransf (hE : 0 < E) :
    Gen.MomentTransf T E θ error = Except.ok (Spec.momentV E θ, error) := by
  unfold Gen.MomentTransf
  simp only [notle hE, if_false]
  simp only [XNum.sin, Spec.momentV, Hdr.KEV2ANGST, pure_eq_ok]
  norm_num

theorem value_CS_KN (hE : 0 < E) : Gen.CS_KN T E error = Except.ok (Spec.csknV E, error) := by
  unfold Gen.CS_KN
  simp only [notle hE, if_false]
  by_cases hlow : E / (510.998928 : ℝ) < (0.02 : ℝ)
  · -- series branch (scattering.c:237-249): no division by a variable, no logarithm
    simp only [hlow, if_true, pure_eq_ok, Spec.csknV, Spec.csknSwitch, Spec.csknSeries, Spec.PI_lit, Hdr.RE2,
      Hdr.MEC2]
  · -- closed form (scattering.c:251-257)
    simp only [hlow, if_false, Spec.csknV, Spec.csknSwitch, Hdr.MEC2]
    simp only [ddiv, dlog, XNum.log, deq_real, Spec.csknBracket, Spec.PI_lit, Hdr.RE2]
    norm_num
    have ha : 0 < E / (31937433 / 62500) := div_pos hE (by norm_num)
    set a := E / (31937433 / 62500) with hadef
    have hb : ¬ 1 + 2 * a ≤ 0 := by linarith
    have hb' : 1 + 2 * a ≠ 0 := by linarith
    have hE0 : E ≠ 0 := hE.ne'
    simp only [hb, hb', hE0, if_false, bind_ok]
    congr 2
    ring

end gen

/-! ## positivity and bounds -/

section analysis
variable (E θ φ : ℝ)

theorem thomsV_pos : 0 < Spec.thomsV θ := by
  rw [thomsV_real]
  have := RE2_pos
  positivity

theorem thomsPV_nonneg : 0 ≤ Spec.thomsPV θ φ := by
  rw [thomsPV_real]
  have h1 : sin θ ^ 2 ≤ 1 := sin_sq_le_one θ
  have h2 : cos φ ^ 2 ≤ 1 := cos_sq_le_one φ
  have h3 : 0 ≤ sin θ ^ 2 := sq_nonneg _
  have h4 : 0 ≤ cos φ ^ 2 := sq_nonneg _
  have : sin θ ^ 2 * cos φ ^ 2 ≤ 1 := by nlinarith
  exact mul_nonneg RE2_pos.le (by linarith)

theorem thomsPV_zero : Spec.thomsPV (π / 2) 0 = 0 := by
  rw [thomsPV_real]; simp

/-- `P + 1/P − s > 0` for `0 < P ≤ 1`, `s ≤ 1` (because `1/P ≥ 1`) -/
theorem kn_bracket_pos {P s : ℝ} (hP : 0 < P) (hP1 : P ≤ 1) (hs : s ≤ 1) : 0 < P + P⁻¹ - s := by
  have : 1 ≤ P⁻¹ := (one_le_inv₀ hP).mpr hP1
  linarith

theorem knV_pos (hE : 0 < E) : 0 < Spec.knV E θ := by
  rw [knV_real]
  have hP := den_inv_pos hE.le θ
  have hP1 := den_inv_le_one hE.le θ
  have hb := kn_bracket_pos hP hP1 (sin_sq_le_one θ)
  rw [inv_inv] at hb
  have := RE2_pos
  positivity

/-- The polarised bracket `1/u + u − 2 sin²θ cos²φ`, `u = k₀/k ≥ 1`: `1/u + u ≥ 2 ≥ 2 sin²θ cos²φ`, and the two
inequalities cannot both be equalities — `u = 1` forces `cos θ = 1`, hence `sin θ = 0`. -/
theorem knPV_pos (hE : 0 < E) : 0 < Spec.knPV E θ φ := by
  rw [knPV_real]
  have hu := den_pos hE.le θ
  have hu1 := den_ge_one hE.le θ
  have hP := den_inv_pos hE.le θ
  have h1 : sin θ ^ 2 = 1 - cos θ ^ 2 := by have := sin_sq_add_cos_sq θ; linarith
  have h2 : cos φ ^ 2 ≤ 1 := cos_sq_le_one φ
  have h4 : 0 ≤ cos φ ^ 2 := sq_nonneg _
  have h5 : 0 ≤ sin θ ^ 2 := sq_nonneg _
  have hb : 0 < (den E θ)⁻¹ + den E θ - 2 * sin θ ^ 2 * cos φ ^ 2 := by
    by_cases hc : cos θ = 1
    · have : sin θ ^ 2 = 0 := by rw [h1, hc]; ring
      rw [this]; simp only [mul_zero, zero_mul, sub_zero]; positivity
    · -- `cos θ < 1`, so `u > 1` and `1/u + u > 2`
      have hc' : cos θ < 1 := lt_of_le_of_ne (cos_le_one θ) hc
      have hu2 : 1 < den E θ := by
        unfold den
        have : 0 < E / Hdr.MEC2 * (1 - cos θ) := mul_pos (div_pos hE MEC2_pos) (by linarith)
        linarith
      have h6 : 2 < (den E θ)⁻¹ + den E θ := by
        have hne := hu.ne'
        have : (den E θ)⁻¹ + den E θ - 2 = (den E θ - 1) ^ 2 * (den E θ)⁻¹ := by
          field_simp; ring
        have : 0 < (den E θ - 1) ^ 2 * (den E θ)⁻¹ := by
          have : 0 < den E θ - 1 := by linarith
          positivity
        linarith
      have h7 : sin θ ^ 2 * cos φ ^ 2 ≤ 1 := by nlinarith [sin_sq_le_one θ]
      linarith
  have := RE2_pos
  positivity

theorem comptonV_pos (hE : 0 < E) : 0 < Spec.comptonV E θ := by
  rw [comptonV_real]; exact mul_pos hE (den_inv_pos hE.le θ)

theorem knV_le_thomsV (hE : 0 < E) : Spec.knV E θ ≤ Spec.thomsV θ := by
  rw [knV_real, thomsV_real]
  have hP := den_inv_pos hE.le θ
  have hP1 := den_inv_le_one hE.le θ
  have hne := (den_pos hE.le θ).ne'
  have hPd : (den E θ)⁻¹ * den E θ = 1 := inv_mul_cancel₀ hne
  set P := (den E θ)⁻¹ with hPdef
  have h1 : cos θ ^ 2 = 1 - sin θ ^ 2 := by have := sin_sq_add_cos_sq θ; linarith
  have hs0 : 0 ≤ sin θ ^ 2 := sq_nonneg _
  have hs1 : sin θ ^ 2 ≤ 1 := sin_sq_le_one θ
  rw [h1]
  have key : P ^ 2 * (P + den E θ - sin θ ^ 2) ≤ 1 + (1 - sin θ ^ 2) := by
    have e : P ^ 2 * (P + den E θ - sin θ ^ 2) = P ^ 3 + P - P ^ 2 * sin θ ^ 2 := by
      have : P ^ 2 * den E θ = P := by rw [sq, mul_assoc, hPd, mul_one]
      linear_combination this
    rw [e]
    have hP2 : 0 ≤ 1 - P ^ 2 := by nlinarith
    have : (1 - P ^ 2) * sin θ ^ 2 ≤ (1 - P ^ 2) * 1 := mul_le_mul_of_nonneg_left hs1 hP2
    have : 0 ≤ (1 - P) * (1 + P ^ 2) := mul_nonneg (by linarith) (by positivity)
    nlinarith
  have hr := RE2_pos
  calc Hdr.RE2 / 2 * P ^ 2 * (P + den E θ - sin θ ^ 2)
      = Hdr.RE2 / 2 * (P ^ 2 * (P + den E θ - sin θ ^ 2)) := by ring
    _ ≤ Hdr.RE2 / 2 * (1 + (1 - sin θ ^ 2)) := mul_le_mul_of_nonneg_left key (by positivity)

/-- at `E = 0` the Klein–Nishina expression *is* the Thomson expression -/
theorem knV_zero : Spec.knV 0 θ = Spec.thomsV θ := by
  rw [knV_real, thomsV_real, den_zero]
  have h1 : sin θ ^ 2 = 1 - cos θ ^ 2 := by have := sin_sq_add_cos_sq θ; linarith
  rw [h1]; ring

theorem knV_tendsto : Filter.Tendsto (fun E => Spec.knV E θ) (nhdsWithin 0 (Set.Ioi 0)) (nhds (Spec.thomsV θ)) := by
  have hden : ContinuousAt (fun E : ℝ => den E θ) 0 := by unfold den; fun_prop
  have hinv : ContinuousAt (fun E : ℝ => (den E θ)⁻¹) 0 := hden.inv₀ (by rw [den_zero]; exact one_ne_zero)
  have hc : ContinuousAt (fun E : ℝ => Spec.knV E θ) 0 := by
    have : (fun E : ℝ => Spec.knV E θ) =
        fun E => Hdr.RE2 / 2 * ((den E θ)⁻¹) ^ 2 * ((den E θ)⁻¹ + den E θ - sin θ ^ 2) := by
      funext E; exact knV_real E θ
    rw [this]
    exact (continuousAt_const.mul (hinv.pow 2)).mul ((hinv.add hden).sub continuousAt_const)
  have := hc.tendsto
  rw [knV_zero] at this
  exact this.mono_left nhdsWithin_le_nhds

theorem knV_thomson_form (hE : 0 < E) :
    Spec.knV E θ =
      Hdr.RE2 / 2 * (Spec.comptonV E θ / E) ^ 2 *
        (Spec.comptonV E θ / E + E / Spec.comptonV E θ - sin θ ^ 2) := by
  have hk : Spec.comptonV E θ / E = (den E θ)⁻¹ := by
    rw [comptonV_real]; field_simp
  have hk' : E / Spec.comptonV E θ = den E θ := by
    rw [← inv_div, hk, inv_inv]
  rw [hk, hk', knV_real]

/-! ## azimuthal averages -/

theorem integral_cos_sq_two_pi : ∫ φ in (0:ℝ)..(2 * π), cos φ ^ 2 = π := by
  rw [integral_cos_sq]; simp

theorem avg_affine_cos_sq (A B : ℝ) :
    (2 * π)⁻¹ * ∫ φ in (0:ℝ)..(2 * π), (A - B * cos φ ^ 2) = A - B / 2 := by
  have hc : Continuous fun φ : ℝ => B * cos φ ^ 2 := by fun_prop
  rw [intervalIntegral.integral_sub intervalIntegrable_const (hc.intervalIntegrable _ _),
    intervalIntegral.integral_const, intervalIntegral.integral_const_mul, integral_cos_sq_two_pi]
  have := pi_pos
  simp only [sub_zero, smul_eq_mul]
  field_simp

theorem avg_thomsPV : (2 * π)⁻¹ * ∫ φ in (0:ℝ)..(2 * π), Spec.thomsPV θ φ = Spec.thomsV θ := by
  have : (fun φ => Spec.thomsPV θ φ) = fun φ => Hdr.RE2 - Hdr.RE2 * sin θ ^ 2 * cos φ ^ 2 := by
    funext φ; rw [thomsPV_real]; ring
  rw [this, avg_affine_cos_sq, thomsV_real]
  have h1 : sin θ ^ 2 = 1 - cos θ ^ 2 := by have := sin_sq_add_cos_sq θ; linarith
  rw [h1]; ring

theorem avg_knPV : (2 * π)⁻¹ * ∫ φ in (0:ℝ)..(2 * π), Spec.knPV E θ φ = Spec.knV E θ := by
  have : (fun φ => Spec.knPV E θ φ) = fun φ =>
      Hdr.RE2 / 2 * ((den E θ)⁻¹) ^ 2 * ((den E θ)⁻¹ + den E θ)
        - Hdr.RE2 / 2 * ((den E θ)⁻¹) ^ 2 * (2 * sin θ ^ 2) * cos φ ^ 2 := by
    funext φ; rw [knPV_real]; ring
  rw [this, avg_affine_cos_sq, knV_real]
  ring

/-! ## the Klein–Nishina solid-angle integral (probe `notes/probes/lean/KN.lean`) -/

/-- differential Klein–Nishina in the arrangement of scattering.c (`a = E/mc²`) -/
noncomputable def dcsKN (r a θ : ℝ) : ℝ :=
  (r / 2) * (1 + cos θ * cos θ + ((1 - cos θ) * a) * ((1 - cos θ) * a) / (1 + (1 - cos θ) * a))
    / (1 + (1 - cos θ) * a) / (1 + (1 - cos θ) * a)

/-- total Klein–Nishina with the real `π` -/
noncomputable def csKN (r a : ℝ) : ℝ :=
  2 * π * r * ((1 + a) / (a*a*a) * (2 * a * (1 + a) / (1 + 2 * a) - log (1 + 2 * a))
    + 0.5 * log (1 + 2 * a) / a - (1 + 3 * a) / ((1 + 2 * a)*(1 + 2 * a)))

/-- antiderivative in `u = 1 + a (1 − cos θ)` -/
noncomputable def G (a u : ℝ) : ℝ :=
  -1/u + (1/(a*a)) * (-(a+1)^2/u - 2*(a+1)*log u + u) + log u + 2/u - 1/(2*u^2)

noncomputable def F (r a θ : ℝ) : ℝ := (π * r / a) * G a (1 + a * (1 - cos θ))

theorem hasDerivAt_F (r a θ : ℝ) (ha : 0 < a) :
    HasDerivAt (F r a) (dcsKN r a θ * (2 * π * sin θ)) θ := by
  have hu : 0 < 1 + a * (1 - cos θ) := by
    have : cos θ ≤ 1 := cos_le_one θ
    have : 0 ≤ a * (1 - cos θ) := mul_nonneg ha.le (by linarith)
    linarith
  have hu' : HasDerivAt (fun θ => 1 + a * (1 - cos θ)) (a * sin θ) θ := by
    have h1 : HasDerivAt (fun θ => cos θ) (-sin θ) θ := hasDerivAt_cos θ
    have h2 := ((hasDerivAt_const θ (1:ℝ)).sub h1).const_mul a |>.const_add 1
    refine (h2.congr_of_eventuallyEq (Filter.Eventually.of_forall (fun v => ?_))).congr_deriv ?_
    · simp
    · simp
  set u := 1 + a * (1 - cos θ) with hudef
  have hG : HasDerivAt (G a) (1/u^2 + (1/(a*a)) * ((a+1)^2/u^2 - 2*(a+1)/u + 1) + 1/u - 2/u^2 + 1/u^3) u := by
    have hid : HasDerivAt (fun u : ℝ => u) 1 u := hasDerivAt_id u
    have hinv : HasDerivAt (fun u : ℝ => u⁻¹) (-(u^2)⁻¹) u := hasDerivAt_inv hu.ne'
    have hlog : HasDerivAt (fun u : ℝ => log u) u⁻¹ u := hasDerivAt_log hu.ne'
    have hsq : HasDerivAt (fun u : ℝ => (u^2)⁻¹) (-(2*u)/(u^2)^2) u := by
      have := (hasDerivAt_pow 2 u).inv (pow_ne_zero 2 hu.ne')
      refine (this.congr_of_eventuallyEq (Filter.Eventually.of_forall (fun v => ?_))).congr_deriv ?_
      · simp
      · simp
    have H := (((hinv.const_mul (-1)).add
        ((((hinv.const_mul (-(a+1)^2)).sub (hlog.const_mul (2*(a+1)))).add hid).const_mul (1/(a*a)))).add hlog).add
        (hinv.const_mul 2) |>.sub (hsq.const_mul (1/2))
    refine (H.congr_of_eventuallyEq (Filter.Eventually.of_forall (fun v => ?_))).congr_deriv ?_
    · unfold G; simp only [Pi.add_apply, Pi.sub_apply]; ring
    · field_simp; ring
  have hcomp := (hG.comp θ hu').const_mul (π * r / a)
  unfold F
  refine (hcomp.congr_of_eventuallyEq (Filter.Eventually.of_forall (fun v => ?_))).congr_deriv ?_
  · simp [Function.comp]
  unfold dcsKN
  have e1 : (1 - cos θ) * a = u - 1 := by rw [hudef]; ring
  have e3 : cos θ = (a + 1 - u) / a := by rw [hudef]; field_simp; ring
  rw [e1]
  have e2 : 1 + (u - 1) = u := by ring
  rw [e2, e3]
  field_simp
  ring

theorem t2_pos (a θ : ℝ) (ha : 0 < a) : 0 < 1 + (1 - cos θ) * a := by
  have : cos θ ≤ 1 := cos_le_one θ
  have : 0 ≤ (1 - cos θ) * a := mul_nonneg (by linarith) ha.le
  linarith

theorem continuous_integrand (r a : ℝ) (ha : 0 < a) :
    Continuous (fun θ => dcsKN r a θ * (2 * π * sin θ)) := by
  unfold dcsKN
  have h : ∀ θ : ℝ, 1 + (1 - cos θ) * a ≠ 0 := fun θ => (t2_pos a θ ha).ne'
  fun_prop (disch := exact h _)

theorem csKN_is_integral (r a : ℝ) (ha : 0 < a) :
    ∫ θ in (0:ℝ)..π, dcsKN r a θ * (2 * π * sin θ) = csKN r a := by
  rw [intervalIntegral.integral_eq_sub_of_hasDerivAt (fun θ _ => hasDerivAt_F r a θ ha)
      ((continuous_integrand r a ha).intervalIntegrable _ _)]
  unfold F G csKN
  simp only [cos_pi, cos_zero]
  have hb : (0:ℝ) < 1 + 2 * a := by linarith
  have e : 1 + a * (1 - -1) = 1 + 2 * a := by ring
  rw [e]
  simp only [sub_self, mul_zero, add_zero, log_one]
  field_simp
  ring

/-- the textbook value is the C arrangement -/
theorem knV_eq_dcsKN (hE : 0 < E) : Spec.knV E θ = dcsKN Hdr.RE2 (E / Hdr.MEC2) θ := by
  rw [knV_real]
  unfold dcsKN
  have hne := (den_pos hE.le θ).ne'
  have e : 1 + (1 - cos θ) * (E / Hdr.MEC2) = den E θ := by unfold den; ring
  have e1 : (1 - cos θ) * (E / Hdr.MEC2) = den E θ - 1 := by unfold den; ring
  have h1 : sin θ ^ 2 = 1 - cos θ * cos θ := by have := sin_sq_add_cos_sq θ; nlinarith
  rw [e, e1, h1]
  field_simp
  ring

/-- the total cross section with the real `π` is `2π r ·` the bracket -/
theorem csKN_eq_brk (r a : ℝ) : csKN r a = 2 * π * r * KNS.brk a := by
  unfold csKN KNS.brk
  have h5 : (0.5 : ℝ) = 1 / 2 := by norm_num
  rw [h5]
  congr 2
  ring

/-- the solid-angle integral of the differential cross section, for every `E > 0` -/
theorem knV_integral (hE : 0 < E) :
    ∫ θ in (0:ℝ)..π, Spec.knV E θ * (2 * π * sin θ) = 2 * π * Hdr.RE2 * KNS.brk (E / Hdr.MEC2) := by
  have : (fun θ => Spec.knV E θ * (2 * π * sin θ)) =
      fun θ => dcsKN Hdr.RE2 (E / Hdr.MEC2) θ * (2 * π * sin θ) := by
    funext θ; rw [knV_eq_dcsKN E θ hE]
  rw [this, csKN_is_integral _ _ (div_pos hE MEC2_pos), csKN_eq_brk]

theorem knV_integrable (hE : 0 < E) :
    IntervalIntegrable (fun θ => Spec.knV E θ * (2 * π * sin θ)) MeasureTheory.volume 0 π := by
  have hfe : (fun θ => Spec.knV E θ * (2 * π * sin θ)) =
      fun θ => dcsKN Hdr.RE2 (E / Hdr.MEC2) θ * (2 * π * sin θ) := by
    funext θ; rw [knV_eq_dcsKN E θ hE]
  rw [hfe]; exact (continuous_integrand _ _ (div_pos hE MEC2_pos)).intervalIntegrable _ _

theorem knV_integral_pos (hE : 0 < E) : 0 < ∫ θ in (0:ℝ)..π, Spec.knV E θ * (2 * π * sin θ) := by
  apply intervalIntegral.intervalIntegral_pos_of_pos_on
  · exact knV_integrable E hE
  · intro x hx
    have := knV_pos E x hE
    have := sin_pos_of_pos_of_lt_pi hx.1 hx.2
    have := pi_pos
    positivity
  · exact pi_pos

/-- the closed-form bracket is positive for every `a = E/mc² > 0` (it is the integral of a positive function) -/
theorem brk_pos_of_pos (hE : 0 < E) : 0 < KNS.brk (E / Hdr.MEC2) := by
  have h := knV_integral_pos E hE
  rw [knV_integral E hE] at h
  have : 0 < 2 * π * Hdr.RE2 := by have := pi_pos; have := RE2_pos; positivity
  exact (mul_pos_iff_of_pos_left this).mp h

/-- closed-form branch (`E/mc² ≥ 0.02`): the returned value is the integral, up to the header's 16-digit `PI` -/
theorem csknV_is_integral_high (hE : 0 < E) (h : 1 / 50 ≤ E / Hdr.MEC2) :
    ∫ θ in (0:ℝ)..π, Spec.knV E θ * (2 * π * sin θ) = π / Spec.PI_lit * Spec.csknV E := by
  rw [knV_integral E hE, csknV_high h]
  have := PI_lit_pos.ne'
  field_simp

/-- **both branches**: `π/PI_lit ·` the returned value is within `1e-16` (relative) of the integral -/
theorem csknV_integral_close (hE : 0 < E) :
    |π / Spec.PI_lit * Spec.csknV E - ∫ θ in (0:ℝ)..π, Spec.knV E θ * (2 * π * sin θ)|
      ≤ 1e-16 * ∫ θ in (0:ℝ)..π, Spec.knV E θ * (2 * π * sin θ) := by
  by_cases h : E / Hdr.MEC2 < 1 / 50
  · have ha := div_pos hE MEC2_pos
    rw [knV_integral E hE, csknV_low h]
    have hp := PI_lit_pos.ne'
    have hc := KNS.ser_close ha h
    have hk : 0 < 2 * π * Hdr.RE2 := by have := pi_pos; have := RE2_pos; positivity
    have e : π / Spec.PI_lit * (2 * Spec.PI_lit * Hdr.RE2 * KNS.ser (E / Hdr.MEC2))
        - 2 * π * Hdr.RE2 * KNS.brk (E / Hdr.MEC2)
        = 2 * π * Hdr.RE2 * (KNS.ser (E / Hdr.MEC2) - KNS.brk (E / Hdr.MEC2)) := by
      field_simp
    rw [e, abs_mul, abs_of_pos hk]
    calc 2 * π * Hdr.RE2 * |KNS.ser (E / Hdr.MEC2) - KNS.brk (E / Hdr.MEC2)|
        ≤ 2 * π * Hdr.RE2 * (1e-16 * KNS.brk (E / Hdr.MEC2)) := mul_le_mul_of_nonneg_left hc hk.le
      _ = 1e-16 * (2 * π * Hdr.RE2 * KNS.brk (E / Hdr.MEC2)) := by ring
  · rw [← csknV_is_integral_high E hE (not_lt.mp h), sub_self, abs_zero]
    exact mul_nonneg (by norm_num) (knV_integral_pos E hE).le

theorem csknV_pos (hE : 0 < E) : 0 < Spec.csknV E := by
  have hk : (0:ℝ) < 2 * Spec.PI_lit * Hdr.RE2 := by have := PI_lit_pos; have := RE2_pos; positivity
  by_cases h : E / Hdr.MEC2 < 1 / 50
  · rw [csknV_low h]; exact mul_pos hk (KNS.ser_pos h.le)
  · rw [csknV_high (not_lt.mp h)]; exact mul_pos hk (brk_pos_of_pos E hE)

/-! ## the Thomson total: `∫ r²/2 (1 + cos²θ) · 2π sin θ dθ = 8π r²/3` -/

theorem thomsV_integral : ∫ θ in (0:ℝ)..π, Spec.thomsV θ * (2 * π * sin θ) = 8 * π / 3 * Hdr.RE2 := by
  have hd : ∀ θ ∈ Set.uIcc (0:ℝ) π,
      HasDerivAt (fun θ => π * Hdr.RE2 * (-cos θ - cos θ ^ 3 / 3)) (Spec.thomsV θ * (2 * π * sin θ)) θ := by
    intro θ _
    have h1 : HasDerivAt (fun θ => cos θ) (-sin θ) θ := hasDerivAt_cos θ
    have h3 : HasDerivAt (fun θ => cos θ ^ 3) (3 * cos θ ^ 2 * -sin θ) θ := by
      have := h1.fun_pow 3
      simpa using this
    have H := ((h1.neg).sub (h3.div_const 3)).const_mul (π * Hdr.RE2)
    refine (H.congr_of_eventuallyEq (Filter.Eventually.of_forall (fun v => ?_))).congr_deriv ?_
    · simp
    · rw [thomsV_real]; ring
  have hc : Continuous fun θ => Spec.thomsV θ * (2 * π * sin θ) := by
    have : (fun θ => Spec.thomsV θ * (2 * π * sin θ)) =
        fun θ => Hdr.RE2 / 2 * (1 + cos θ ^ 2) * (2 * π * sin θ) := by funext θ; rw [thomsV_real]
    rw [this]; fun_prop
  rw [intervalIntegral.integral_eq_sub_of_hasDerivAt hd (hc.intervalIntegrable _ _)]
  simp only [cos_pi, cos_zero]
  ring

theorem knV_integral_le_thomson (hE : 0 < E) :
    ∫ θ in (0:ℝ)..π, Spec.knV E θ * (2 * π * sin θ) ≤ ∫ θ in (0:ℝ)..π, Spec.thomsV θ * (2 * π * sin θ) := by
  have hc : Continuous fun θ => Spec.thomsV θ * (2 * π * sin θ) := by
    have : (fun θ => Spec.thomsV θ * (2 * π * sin θ)) =
        fun θ => Hdr.RE2 / 2 * (1 + cos θ ^ 2) * (2 * π * sin θ) := by funext θ; rw [thomsV_real]
    rw [this]; fun_prop
  apply intervalIntegral.integral_mono_on pi_pos.le (knV_integrable E hE) (hc.intervalIntegrable _ _)
  intro θ hθ
  have hs : 0 ≤ sin θ := sin_nonneg_of_nonneg_of_le_pi hθ.1 hθ.2
  exact mul_le_mul_of_nonneg_right (knV_le_thomsV E θ hE) (by have := pi_pos; positivity)

/-- the returned value never exceeds the Thomson total (written with the code's own `PI`): the closed-form branch
because the integrand is pointwise below Thomson's, the series branch because `ser a ≤ 4/3` -/
theorem csknV_le_thomson (hE : 0 < E) : Spec.csknV E ≤ 2 * Spec.PI_lit * Hdr.RE2 * (4 / 3) := by
  have hk : (0:ℝ) < 2 * Spec.PI_lit * Hdr.RE2 := by have := PI_lit_pos; have := RE2_pos; positivity
  have ha := div_pos hE MEC2_pos
  by_cases h : E / Hdr.MEC2 < 1 / 50
  · rw [csknV_low h]; exact mul_le_mul_of_nonneg_left (KNS.ser_le ha.le h.le) hk.le
  · have h1 := knV_integral_le_thomson E hE
    rw [knV_integral E hE, thomsV_integral] at h1
    rw [csknV_high (not_lt.mp h)]
    have hb : KNS.brk (E / Hdr.MEC2) ≤ 4 / 3 := by
      have hq : 0 < 2 * π * Hdr.RE2 := by have := pi_pos; have := RE2_pos; positivity
      have : 2 * π * Hdr.RE2 * KNS.brk (E / Hdr.MEC2) ≤ 2 * π * Hdr.RE2 * (4 / 3) := by linarith
      exact le_of_mul_le_mul_left this hq
    exact mul_le_mul_of_nonneg_left hb hk.le

/-- … equivalently: `π/PI_lit ·` value `≤` the solid-angle integral of the Thomson differential cross section -/
theorem csknV_le_thomson_integral (hE : 0 < E) :
    π / Spec.PI_lit * Spec.csknV E ≤ ∫ θ in (0:ℝ)..π, Spec.thomsV θ * (2 * π * sin θ) := by
  rw [thomsV_integral]
  have h := csknV_le_thomson E hE
  have hq : 0 < π / Spec.PI_lit := div_pos pi_pos PI_lit_pos
  have hp := PI_lit_pos.ne'
  calc π / Spec.PI_lit * Spec.csknV E ≤ π / Spec.PI_lit * (2 * Spec.PI_lit * Hdr.RE2 * (4 / 3)) :=
        mul_le_mul_of_nonneg_left h hq.le
    _ = 8 * π / 3 * Hdr.RE2 := by field_simp; ring

/-- low-energy limit: below `0.02 mc²` the value is the polynomial `ser`, continuous, `ser 0 = 4/3` -/
theorem csknV_tendsto :
    Filter.Tendsto (fun E : ℝ => Spec.csknV E) (nhdsWithin 0 (Set.Ioi 0)) (nhds ((2 * Spec.PI_lit * Hdr.RE2 * (4 / 3) : ℝ))) := by
  have hc : ContinuousAt (fun E : ℝ => 2 * Spec.PI_lit * Hdr.RE2 * KNS.ser (E / Hdr.MEC2)) 0 := by
    have := KNS.continuous_ser
    fun_prop
  have ht := hc.tendsto
  simp only [zero_div, KNS.ser_zero] at ht
  refine (ht.mono_left nhdsWithin_le_nhds).congr' ?_
  have hm : Set.Iio (Hdr.MEC2 / 50 : ℝ) ∈ nhdsWithin (0:ℝ) (Set.Ioi 0) :=
    mem_nhdsWithin_of_mem_nhds (Iio_mem_nhds (by have := MEC2_pos; positivity))
  filter_upwards [hm] with E hE
  have : E / Hdr.MEC2 < 1 / 50 := by
    rw [div_lt_iff₀ MEC2_pos]; rw [Set.mem_Iio] at hE; linarith
  rw [csknV_low this]

/-- the integrated differential cross section itself tends to the Thomson total (independently of `CS_KN`) -/
theorem knV_integral_tendsto :
    Filter.Tendsto (fun E : ℝ => ∫ θ in (0:ℝ)..π, Spec.knV E θ * (2 * π * sin θ)) (nhdsWithin 0 (Set.Ioi 0))
      (nhds (8 * π / 3 * Hdr.RE2)) := by
  have hdiv : Filter.Tendsto (fun E : ℝ => E / Hdr.MEC2) (nhdsWithin 0 (Set.Ioi 0)) (nhdsWithin 0 (Set.Ioi 0)) := by
    apply tendsto_nhdsWithin_of_tendsto_nhds_of_eventually_within
    · have hc : Continuous fun E : ℝ => E / Hdr.MEC2 := by fun_prop
      have h := (hc.continuousAt (x := 0)).tendsto
      rw [zero_div] at h
      exact h.mono_left nhdsWithin_le_nhds
    · filter_upwards [self_mem_nhdsWithin] with E hE
      exact div_pos hE MEC2_pos
  have h := (KNS.brk_tendsto.comp hdiv).const_mul (2 * π * Hdr.RE2)
  have e : 2 * π * Hdr.RE2 * (4 / 3) = 8 * π / 3 * Hdr.RE2 := by ring
  rw [e] at h
  refine h.congr' ?_
  filter_upwards [self_mem_nhdsWithin] with E hE
  rw [knV_integral E hE]; rfl

/-! ## the literal `PI` against `π` -/

theorem pi_lit_close' : |π / (Spec.PI_lit : ℝ) - 1| < 1e-15 := by
  rw [PI_lit_real, abs_lt]
  have h1 := pi_gt_d20
  have h2 := pi_lt_d20
  constructor
  · rw [lt_sub_iff_add_lt, lt_div_iff₀ (by norm_num)]
    norm_num at h1 ⊢; linarith
  · rw [sub_lt_iff_lt_add, div_lt_iff₀ (by norm_num)]
    norm_num at h2 ⊢; linarith

theorem pi_lit_vs_hdr' : |(Hdr.PI : ℝ) - Spec.PI_lit| < 2.4e-16 := by
  rw [PI_hdr_real, PI_lit_real]; norm_num [abs_lt]

/-! ## Compton energy -/

theorem comptonV_strictAntiOn (hE : 0 < E) : StrictAntiOn (fun θ => Spec.comptonV E θ) (Set.Icc 0 π) := by
  intro x hx y hy hxy
  simp only [comptonV_real]
  have hc : cos y < cos x := strictAntiOn_cos hx hy hxy
  have hd : den E x < den E y := by
    unfold den
    have : 0 < E / Hdr.MEC2 := div_pos hE MEC2_pos
    nlinarith
  have := inv_strictAntiOn (den_pos hE.le x) (den_pos hE.le y) hd
  exact mul_lt_mul_of_pos_left this hE

theorem comptonV_zero : Spec.comptonV E 0 = E := by
  rw [comptonV_real]; unfold den; simp

theorem comptonV_pi : Spec.comptonV E π = E / (1 + 2 * E / Hdr.MEC2) := by
  rw [comptonV_real]; unfold den
  rw [cos_pi, div_eq_mul_inv E]
  congr 2
  ring

end analysis

end KN
end Xrl
