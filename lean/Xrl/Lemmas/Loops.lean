import Xrl.Lemmas.Tactics
/-!
# Loops of the generated code as folds
-/
namespace Xrl

theorem loopM_unroll {σ : Type} (lo hi : Int) (init : σ) (body : Int → σ → M σ) :
    loopM lo hi init body =
      (List.range (hi - lo).toNat).foldlM (fun st (k : Nat) => body (lo + (k : Int)) st) init := rfl

theorem foldlM_congr_mem {σ : Type} {f g : σ → Nat → M σ} (ks : List Nat)
    (h : ∀ k ∈ ks, ∀ s, f s k = g s k) (s0 : σ) : ks.foldlM f s0 = ks.foldlM g s0 := by
  induction ks generalizing s0 with
  | nil => rfl
  | cons k ks ih =>
    simp only [List.foldlM_cons]
    rw [h k (List.mem_cons_self ..)]
    congr 1
    funext s
    exact ih (fun k' hk' => h k' (List.mem_cons_of_mem _ hk')) s

/-- the accumulation loop of the K-alpha / K-beta mean: members without an energy are skipped -/
theorem wmean_loop (e r : Nat → ℝ) (ks : List Nat) (l0 r0 t t1 : ℝ) :
    ∃ a b, ks.foldlM (fun (st : ℝ × ℝ × ℝ × ℝ) (k : Nat) =>
        (if e k ≤ 0 then Except.ok (e k, r k, st.2.2.1, st.2.2.2)
         else Except.ok (e k, r k, st.2.2.1 + e k * r k, st.2.2.2 + r k) : M (ℝ × ℝ × ℝ × ℝ))) (l0, r0, t, t1)
      = Except.ok (a, b, ks.foldl (fun acc k => if e k ≤ 0 then acc else acc + e k * r k) t,
          ks.foldl (fun acc k => if e k ≤ 0 then acc else acc + r k) t1) := by
  induction ks generalizing l0 r0 t t1 with
  | nil => exact ⟨l0, r0, rfl⟩
  | cons k ks ih =>
    simp only [List.foldlM_cons, List.foldl_cons]
    by_cases h : e k ≤ 0
    · simp only [h, if_true, bind_ok]
      exact ih _ _ _ _
    · simp only [h, if_false, bind_ok]
      exact ih _ _ _ _

end Xrl

namespace Xrl

theorem foldl_congr_mem {β : Type} {f g : β → Nat → β} (ks : List Nat)
    (h : ∀ k ∈ ks, ∀ s, f s k = g s k) (s0 : β) : ks.foldl f s0 = ks.foldl g s0 := by
  induction ks generalizing s0 with
  | nil => rfl
  | cons k ks ih =>
    simp only [List.foldl_cons]
    rw [h k (List.mem_cons_self ..)]
    exact ih (fun k' hk' => h k' (List.mem_cons_of_mem _ hk')) _

/-- a fold over consecutive line macros `-(lo+k)-1`, `k < n`, as a fold over the column indices -/
theorem foldl_macros {β : Type} (F : β → Int → β) (G : β → Nat → β) (lo n : Nat) (init : β)
    (h : ∀ acc k, k < n → F acc (-((lo + k : Nat) : Int) - 1) = G acc k) :
    ((List.range n).map (fun k => -((lo + k : Nat) : Int) - 1)).foldl F init = (List.range n).foldl G init := by
  rw [List.foldl_map]
  apply foldl_congr_mem
  intro k hk s
  exact h s k (by simpa using hk)

end Xrl
