import Xrl.Lemmas.Tactics
import Xrl.Spec.Interp
import Xrl.Spec.Sums
/-!
# Using a callee's `Meets` theorem inside a caller's proof
-/
namespace Xrl
open Spec

theorem Meets.cases {r : M (ℝ × Slot)} {error : Slot} {x : Expect ℝ} (h : Meets r error x) :
    (∃ v, x = .value v ∧ r = Except.ok (v, error)) ∨
    (x = .fails ∧ ∃ e : Err, e.msg ≠ "" ∧ e.code ≤ 5 ∧ r = Except.ok ((0 : ℝ), error.withErr e)) ∨ x = .any := by
  cases x with
  | value v => exact Or.inl ⟨v, rfl, h⟩
  | fails =>
    obtain ⟨e, h1, h2, h3⟩ := h
    refine Or.inr (Or.inl ⟨rfl, e, h1, h2, ?_⟩)
    rw [h3]; norm_num
  | any => exact Or.inr (Or.inr rfl)

theorem fails_of_eq {r : M (ℝ × Slot)} {error : Slot} {e : Err} (h1 : e.msg ≠ "") (h2 : e.code ≤ 5)
    (h : r = Except.ok ((0 : ℝ), error.withErr e)) : Fails r error := by
  refine ⟨e, h1, h2, ?_⟩
  rw [h]; norm_num

/-- values of a log–log site are positive -/
theorem interp_exp_pos {g : Bool} {xa ya y2 : Vec ℝ} {n : Int} {tx v : ℝ}
    (h : interp g xa ya y2 n tx (XNum.exp) = .value v) : 0 < v := by
  unfold interp at h
  split_ifs at h
  split at h
  · injection h with h; rw [← h]; exact Real.exp_pos _
  · cases h

end Xrl

namespace Xrl
open Spec

theorem interp_value_guard {g : Bool} {xa ya y2 : Vec ℝ} {n : Int} {tx v : ℝ} {inv : ℝ → ℝ}
    (h : interp g xa ya y2 n tx inv = .value v) : g = true := by
  unfold interp at h
  split_ifs at h with hg
  exact hg

/-- finish a goal about a caller after its callees have been rewritten: split guards, close leaves -/
macro "xrl_finish" : tactic =>
  `(tactic| (
    repeat' (first
      | (split_ifs <;> (try simp only [bind_ok, bind_error, pure_eq_ok, throw_eq_error, Meets, Returns]))
      | xrl_close)))

end Xrl

namespace Xrl
open Spec
theorem add3_eq_value {a b c : Expect ℝ} {v : ℝ} (h : add3 a b c = .value v) :
    ∃ p r s, a = .value p ∧ b = .value r ∧ c = .value s ∧ v = p + r + s := by
  cases a <;> cases b <;> cases c <;> simp [add3] at h
  exact ⟨_, _, _, rfl, rfl, rfl, h.symm⟩
end Xrl

namespace Xrl
open Spec
theorem interp_ne_any {g : Bool} {xa ya y2 : Vec ℝ} {n : Int} {tx : ℝ} {inv : ℝ → ℝ} :
    interp g xa ya y2 n tx inv ≠ .any := by
  unfold interp
  split_ifs
  · split <;> simp
  · simp

theorem lookup1_ne_any {cell : Nat → ℝ} {Z : Int} : lookup1 cell Z ≠ .any := by
  unfold lookup1; split_ifs <;> simp

theorem lookup2_ne_any {cell : Nat → Nat → ℝ} {lo hi : Int} {slot : Int → Int} {Z m : Int} :
    lookup2 cell lo hi slot Z m ≠ .any := by
  unfold lookup2; split_ifs <;> simp

theorem add3_ne_any {a b c : Expect ℝ} : add3 a b c ≠ .any := by
  cases a <;> cases b <;> cases c <;> simp [add3]
end Xrl
