import Xrl.Lemmas.Splint
import Xrl.Spec.Interp
namespace Xrl
open Spec

theorem bisect_one (gt : Nat → Bool) (f : Nat) : bisect gt f 1 1 = (1, 1) := by
  cases f <;> simp [bisect]

/-- the evaluation at a bracket `(klo, khi)` inside the vectors -/
theorem splintAt_spec (xa ya y2a : Vec ℝ) (klo khi : Nat) (x : ℝ) (error : Slot)
    (h1 : 1 ≤ klo) (h2 : 1 ≤ khi)
    (hx : (klo : Int) ≤ xa.len ∧ (khi : Int) ≤ xa.len) (hy : (klo : Int) ≤ ya.len ∧ (khi : Int) ≤ ya.len)
    (hz : (klo : Int) ≤ y2a.len ∧ (khi : Int) ≤ y2a.len) :
    splintAt xa ya y2a klo khi x error =
      Except.ok (1, (if deq (knot xa khi - knot xa klo) (0.0 : ℝ) then (knot ya klo + knot ya khi) / (2.0 : ℝ)
        else splintCubic (knot xa klo) (knot xa khi) (knot ya klo) (knot ya khi) (knot y2a klo) (knot y2a khi) x), error) := by
  unfold splintAt
  have i1 : (0:Int) ≤ (klo:Int) - 1 ∧ (klo:Int) - 1 < xa.len := by omega
  have i2 : (0:Int) ≤ (khi:Int) - 1 ∧ (khi:Int) - 1 < xa.len := by omega
  have i3 : (0:Int) ≤ (klo:Int) - 1 ∧ (klo:Int) - 1 < ya.len := by omega
  have i4 : (0:Int) ≤ (khi:Int) - 1 ∧ (khi:Int) - 1 < ya.len := by omega
  have i5 : (0:Int) ≤ (klo:Int) - 1 ∧ (klo:Int) - 1 < y2a.len := by omega
  have i6 : (0:Int) ≤ (khi:Int) - 1 ∧ (khi:Int) - 1 < y2a.len := by omega
  have t1 : ((klo:Int) - 1).toNat = klo - 1 := by omega
  have t2 : ((khi:Int) - 1).toNat = khi - 1 := by omega
  simp only [rdv, i1, i2, i3, i4, i5, i6, and_self, if_true, bind_ok, pure_eq_ok, t1, t2, knot]
  split_ifs <;> simp_all

/-- **splint = the specification's spline** for sorted knot vectors of (at least) the advertised length -/
theorem splint_spec (xa ya y2a : Vec ℝ) (n : Nat) (x : ℝ) (error : Slot) (he : error.isFull = false)
    (hn : 1 ≤ n) (hx : (n : Int) ≤ xa.len) (hy : (n : Int) ≤ ya.len) (h2 : (n : Int) ≤ y2a.len)
    (hs : SortedKnots xa n) :
    splint xa ya y2a (n : Int) x error =
      match Spec.spline xa ya y2a n x with
      | some y => Except.ok (1, y, error)
      | none => Except.ok (0, (0.0 : ℝ), error.withErr ⟨1, SPLINT_X_TOO_LOW⟩) := by
  unfold splint Spec.spline
  have hn0 : (0 : Int) ≤ (n : Int) - 1 ∧ (n : Int) - 1 < xa.len := by omega
  have e1 : ((n : Int) - 1).toNat = n - 1 := by omega
  have hl0 : (0 : Int) ≤ 0 ∧ (0 : Int) < xa.len := by omega
  simp only [rdv, setErr_notFull he, SPLINT_X_TOO_HIGH, SPLINT_X_TOO_LOW, hn0, hl0, and_self, if_true, bind_ok,
    pure_eq_ok, e1, knot, Int.toNat_natCast, Int.toNat_zero, Nat.sub_self]
  by_cases c1 : (1.0e-7 : ℝ) < x - xa.get (n - 1)
  · simp only [c1, if_true]
  · simp only [c1, if_false]
    by_cases c2 : x < xa.get 0
    · simp only [c2, if_true]
    · simp only [c2, if_false]
      have c2' : knot xa 1 ≤ x := by simpa [knot] using c2
      by_cases h1 : n ≤ 1
      · have : n = 1 := by omega
        subst this
        rw [bisect_one]
        have := splintAt_spec xa ya y2a 1 1 x error (le_refl _) (le_refl _) ⟨by simpa using hx, by simpa using hx⟩
          ⟨by simpa using hy, by simpa using hy⟩ ⟨by simpa using h2, by simpa using h2⟩
        rw [this]
        simp only [knot, le_refl, if_true]
        split_ifs <;> simp_all
      · have hn2 : 2 ≤ n := by omega
        have hb := bisect_eq_bracketLin xa n x hn2 hs c2'
        have hl := bracketLin_spec xa x (n - 1)
        obtain ⟨l1, l2, _, _⟩ := hl
        rw [hb]
        set b := bracketLin xa x (n - 1) with hbd
        have hbn : b ≤ n - 1 := by have : max (n - 1) 1 = n - 1 := by omega
                                   omega
        have := splintAt_spec xa ya y2a b (b + 1) x error l1 (by omega) ⟨by omega, by push_cast; omega⟩
          ⟨by omega, by push_cast; omega⟩ ⟨by omega, by push_cast; omega⟩
        rw [this]
        simp only [h1, if_false, knot]
        split_ifs <;> simp_all

end Xrl

namespace Xrl
open Spec

/-- the executable shape check gives the hypotheses of `splint_spec` -/
theorem vecOkB_spec (xa ya y2 : Vec ℝ) (n : Int) (h : vecOkB xa ya y2 n = true) :
    n < 0 ∨ (1 ≤ n ∧ n ≤ xa.len ∧ n ≤ ya.len ∧ n ≤ y2.len ∧ SortedKnots xa n.toNat) := by
  unfold vecOkB at h
  simp only [Bool.or_eq_true, Bool.and_eq_true, decide_eq_true_eq, List.all_eq_true, List.mem_range] at h
  rcases h with h | ⟨h1, h2⟩
  · exact Or.inl h
  · refine Or.inr ⟨h1.1, h1.2.1, h1.2.2.1, h1.2.2.2, ?_⟩
    intro i j hi hij hj
    induction j, hij using Nat.le_induction with
    | base => exact le_refl _
    | succ k hk ih =>
      have := h2 (k - 1) (by omega)
      have e1 : k - 1 + 1 = k := by omega
      have e2 : k - 1 + 2 = k + 1 := by omega
      rw [e1, e2] at this
      exact le_trans (ih (by omega)) this

/-- the common proof of a spline site: split on the shape of the table, then on every guard, rewriting the
`splint` call by `splint_spec` -/
macro "c02_site" cnt:term "," xa:term "," ya:term "," y2:term "," hs:ident "," he:ident : tactic =>
  `(tactic| (
    rcases vecOkB_spec _ _ _ _ $hs with hneg | ⟨h1, hx, hy, h2, hsort⟩
    · simp only [rd1, rd2, setErr_notFull $he, dlog, Hdr.ZMAX]
      norm_num
      repeat' (first
        | (split_ifs <;> (try simp only [bind_ok, bind_error, pure_eq_ok, throw_eq_error, Meets, Returns]))
        | xrl_close)
    · obtain ⟨m, hm⟩ : ∃ m : Nat, $cnt = (m : Int) := ⟨($cnt).toNat, by omega⟩
      have hm1 : 1 ≤ m := by omega
      simp only [rd1, rd2, setErr_notFull $he, dlog, hm, Int.toNat_natCast] at *
      have key := fun x => splint_spec $xa $ya $y2 m x _ $he hm1 hx hy h2 hsort
      try simp only [Hdr.ZMAX]
      norm_num
      repeat' (first
        | (split_ifs <;> (try simp only [bind_ok, bind_error, pure_eq_ok, throw_eq_error, key, Meets, Returns]))
        | (split <;> (try simp only [bind_ok, bind_error, pure_eq_ok, throw_eq_error, Meets, Returns]))
        | xrl_close)))

end Xrl
