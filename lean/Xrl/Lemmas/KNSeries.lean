import Mathlib.Analysis.SpecialFunctions.Log.Deriv
import Mathlib.Tactic.Ring
import Mathlib.Tactic.FieldSimp
import Mathlib.Tactic.Linarith
import Mathlib.Tactic.Positivity
import Mathlib.Tactic.NormNum
import Mathlib.Tactic.GCongr
/-!
# The low-energy series of the Klein–Nishina bracket (C12, repaired `CS_KN`)

`brk a = (1+a)/a³ · (2a(1+a)/(1+2a) − ln(1+2a)) + ln(1+2a)/(2a) − (1+3a)/(1+2a)²` is the bracket of the total
Klein–Nishina cross section (`σ = 2π r² · brk(E/mc²)`); `ser a` is its Taylor polynomial of degree 11 at `0`,
the expression the repaired `CS_KN` of scattering.c evaluates for `a < 0.02`.

Main results, for `0 < a < 1/50`:

* `ser_sub_brk_le`   : `|ser a − brk a| ≤ 29009 a¹² + 278528 a¹⁵`   (hence `brk a → 4/3` as `a → 0⁺`: `brk_tendsto`)
* `ser_sub_brk_abs`  : `|ser a − brk a| ≤ 1.2e-16`
* `brk_ge`           : `1.2 ≤ brk a`
* `ser_close`        : `|ser a − brk a| ≤ 1e-16 · brk a`       (the remainder bound)
* `ser_le`, `ser_ge` : `4/3 − 8a/3 ≤ ser a ≤ 4/3`                (alternating, decreasing terms)

Route: `brk a = R(a) + S(a) · ln(1+2a)` with `R`, `S` rational, `S = (a² − 2a − 2)/(2a³)`.  Replacing the logarithm
by its Taylor polynomial `tlog` of degree 17 gives a rational function whose difference from `ser` is *exactly*
`a¹² · dt(a) / (2 (1+2a)²)` with a polynomial `dt` of degree 6 (`brk_decomp`, an identity checked by `ring`); the
logarithm's remainder is bounded by Mathlib's `Real.abs_log_sub_add_sum_range_le`.
No dependence on the rest of the project: pure real analysis.
-/
namespace Xrl
namespace KNS
open Real

/-- the bracket of the total Klein–Nishina cross section, `a = E/mc²` -/
noncomputable def brk (a : ℝ) : ℝ :=
  (1 + a) / (a * a * a) * (2 * a * (1 + a) / (1 + 2 * a) - log (1 + 2 * a))
    + log (1 + 2 * a) / (2 * a) - (1 + 3 * a) / ((1 + 2 * a) * (1 + 2 * a))

/-- its Taylor polynomial of degree 11 at `a = 0` -/
noncomputable def ser (a : ℝ) : ℝ :=
  4 / 3 - 8 / 3 * a + 104 / 15 * a ^ 2 - 266 / 15 * a ^ 3 + 4576 / 105 * a ^ 4 - 2176 / 21 * a ^ 5
    + 15136 / 63 * a ^ 6 - 24592 / 45 * a ^ 7 + 606208 / 495 * a ^ 8 - 447488 / 165 * a ^ 9
    + 2551808 / 429 * a ^ 10 - 3533312 / 273 * a ^ 11

/-- Taylor polynomial of `ln(1+2a)` of degree 17 -/
noncomputable def tlog (a : ℝ) : ℝ :=
  2 * a - 2 * a ^ 2 + 8 / 3 * a ^ 3 - 4 * a ^ 4 + 32 / 5 * a ^ 5 - 32 / 3 * a ^ 6 + 128 / 7 * a ^ 7 - 32 * a ^ 8
    + 512 / 9 * a ^ 9 - 512 / 5 * a ^ 10 + 2048 / 11 * a ^ 11 - 1024 / 3 * a ^ 12 + 8192 / 13 * a ^ 13
    - 8192 / 7 * a ^ 14 + 32768 / 15 * a ^ 15 - 4096 * a ^ 16 + 131072 / 17 * a ^ 17

/-- `2a³(1+2a)² · (ser − [brk with ln replaced by tlog]) = a¹⁵ · dt` -/
noncomputable def dt (a : ℝ) : ℝ :=
  -(76365824 / 1365) - 4038656 / 39 * a + 40960 / 1547 * a ^ 2 + 51908608 / 1785 * a ^ 3
    + 23085056 / 255 * a ^ 4 + 802816 / 17 * a ^ 5 - 524288 / 17 * a ^ 6

/-- the coefficient of the logarithm in `brk` -/
noncomputable def S (a : ℝ) : ℝ := (a ^ 2 - 2 * a - 2) / (2 * a ^ 3)

/-! ## the logarithm -/

theorem tlog_eq_sum (a : ℝ) :
    (∑ i ∈ Finset.range 17, (-(2 * a)) ^ (i + 1) / ((i : ℝ) + 1)) = - tlog a := by
  simp only [Finset.sum_range_succ, Finset.sum_range_zero, tlog]
  norm_num
  ring

theorem log_taylor {a : ℝ} (h0 : 0 < a) (h1 : a < 1 / 50) :
    |log (1 + 2 * a) - tlog a| ≤ (2 * a) ^ 18 / (1 - 2 * a) := by
  have hx : |(-(2 * a))| < 1 := by rw [abs_neg, abs_of_pos (by linarith)]; linarith
  have h := abs_log_sub_add_sum_range_le hx 17
  rw [tlog_eq_sum, abs_neg, abs_of_pos (by linarith : (0:ℝ) < 2 * a)] at h
  have e : -tlog a + log (1 - -(2 * a)) = log (1 + 2 * a) - tlog a := by
    rw [sub_neg_eq_add]; ring
  rw [e] at h
  exact h

/-! ## the exact decomposition -/

theorem brk_decomp {a : ℝ} (h0 : 0 < a) :
    brk a = ser a - a ^ 12 * dt a / (2 * (1 + 2 * a) ^ 2) + S a * (log (1 + 2 * a) - tlog a) := by
  have ha : a ≠ 0 := h0.ne'
  have hb : 1 + 2 * a ≠ 0 := by linarith
  unfold brk ser dt S tlog
  field_simp
  ring

/-! ## the series is alternating with decreasing terms on `[0, 1/50]` -/

/-- `4/3 − ser a` as a sum of non-negative pairs (`|c₁| − c₂ a`, …) -/
theorem ser_le {a : ℝ} (h0 : 0 ≤ a) (h1 : a ≤ 1 / 50) : ser a ≤ 4 / 3 := by
  have e : 4 / 3 - ser a = a * (8 / 3 - 104 / 15 * a) + a ^ 3 * (266 / 15 - 4576 / 105 * a)
      + a ^ 5 * (2176 / 21 - 15136 / 63 * a) + a ^ 7 * (24592 / 45 - 606208 / 495 * a)
      + a ^ 9 * (447488 / 165 - 2551808 / 429 * a) + 3533312 / 273 * a ^ 11 := by unfold ser; ring
  have t1 : 0 ≤ a * (8 / 3 - 104 / 15 * a) := mul_nonneg h0 (by linarith)
  have t3 : 0 ≤ a ^ 3 * (266 / 15 - 4576 / 105 * a) := mul_nonneg (by positivity) (by linarith)
  have t5 : 0 ≤ a ^ 5 * (2176 / 21 - 15136 / 63 * a) := mul_nonneg (by positivity) (by linarith)
  have t7 : 0 ≤ a ^ 7 * (24592 / 45 - 606208 / 495 * a) := mul_nonneg (by positivity) (by linarith)
  have t9 : 0 ≤ a ^ 9 * (447488 / 165 - 2551808 / 429 * a) := mul_nonneg (by positivity) (by linarith)
  have t11 : 0 ≤ 3533312 / 273 * a ^ 11 := by positivity
  linarith

theorem ser_ge {a : ℝ} (h1 : a ≤ 1 / 50) : 4 / 3 - 8 / 3 * a ≤ ser a := by
  have e : ser a - (4 / 3 - 8 / 3 * a) = a ^ 2 * (104 / 15 - 266 / 15 * a) + a ^ 4 * (4576 / 105 - 2176 / 21 * a)
      + a ^ 6 * (15136 / 63 - 24592 / 45 * a) + a ^ 8 * (606208 / 495 - 447488 / 165 * a)
      + a ^ 10 * (2551808 / 429 - 3533312 / 273 * a) := by unfold ser; ring
  have t2 : 0 ≤ a ^ 2 * (104 / 15 - 266 / 15 * a) := mul_nonneg (by positivity) (by linarith)
  have t4 : 0 ≤ a ^ 4 * (4576 / 105 - 2176 / 21 * a) := mul_nonneg (by positivity) (by linarith)
  have t6 : 0 ≤ a ^ 6 * (15136 / 63 - 24592 / 45 * a) := mul_nonneg (by positivity) (by linarith)
  have t8 : 0 ≤ a ^ 8 * (606208 / 495 - 447488 / 165 * a) := mul_nonneg (by positivity) (by linarith)
  have t10 : 0 ≤ a ^ 10 * (2551808 / 429 - 3533312 / 273 * a) := mul_nonneg (by positivity) (by linarith)
  linarith

theorem ser_pos {a : ℝ} (h1 : a ≤ 1 / 50) : 0 < ser a := by
  have := ser_ge h1
  linarith

/-! ## bounds on `(0, 1/50)` -/

section bounds
variable {a : ℝ} (h0 : 0 < a) (h1 : a < 1 / 50)
include h0 h1

theorem dt_abs : |dt a| ≤ 58018 := by
  have p2 : a ^ 2 ≤ (1 / 50) ^ 2 := by gcongr
  have p3 : a ^ 3 ≤ (1 / 50) ^ 3 := by gcongr
  have p4 : a ^ 4 ≤ (1 / 50) ^ 4 := by gcongr
  have p5 : a ^ 5 ≤ (1 / 50) ^ 5 := by gcongr
  have p6 : a ^ 6 ≤ (1 / 50) ^ 6 := by gcongr
  have q2 : 0 ≤ a ^ 2 := by positivity
  have q3 : 0 ≤ a ^ 3 := by positivity
  have q4 : 0 ≤ a ^ 4 := by positivity
  have q5 : 0 ≤ a ^ 5 := by positivity
  have q6 : 0 ≤ a ^ 6 := by positivity
  rw [abs_le]
  unfold dt
  norm_num at p2 p3 p4 p5 p6
  constructor <;> linarith

/-- the polynomial part of the remainder: `a¹² |dt a| / (2 (1+2a)²) ≤ 58018/2 · a¹²` -/
theorem poly_part : |a ^ 12 * dt a / (2 * (1 + 2 * a) ^ 2)| ≤ 29009 * a ^ 12 := by
  have hd := dt_abs h0 h1
  have hb : 1 ≤ (1 + 2 * a) ^ 2 := by nlinarith
  have hden : (2 : ℝ) ≤ 2 * (1 + 2 * a) ^ 2 := by linarith
  rw [abs_div, abs_mul, abs_of_nonneg (by positivity : (0:ℝ) ≤ a ^ 12),
    abs_of_pos (by positivity : (0:ℝ) < 2 * (1 + 2 * a) ^ 2)]
  calc a ^ 12 * |dt a| / (2 * (1 + 2 * a) ^ 2)
      ≤ a ^ 12 * 58018 / 2 := by gcongr
    _ = 29009 * a ^ 12 := by ring

theorem S_abs : |S a| ≤ 51 / 50 / a ^ 3 := by
  have ha3 : 0 < a ^ 3 := by positivity
  unfold S
  rw [abs_div, abs_of_neg (by nlinarith : a ^ 2 - 2 * a - 2 < 0), abs_of_pos (by positivity : (0:ℝ) < 2 * a ^ 3),
    div_le_div_iff₀ (by positivity) ha3]
  have : -(a ^ 2 - 2 * a - 2) ≤ 51 / 50 * 2 := by nlinarith
  calc -(a ^ 2 - 2 * a - 2) * a ^ 3 ≤ 51 / 50 * 2 * a ^ 3 := by gcongr
    _ = 51 / 50 * (2 * a ^ 3) := by ring

/-- the logarithmic part of the remainder: `|S a| · (2a)¹⁸/(1−2a) ≤ 278528 · a¹⁵` -/
theorem log_part : |S a * (log (1 + 2 * a) - tlog a)| ≤ 278528 * a ^ 15 := by
  have hs := S_abs h0 h1
  have hl := log_taylor h0 h1
  have ha3 : 0 < a ^ 3 := by positivity
  have hd : (24 : ℝ) / 25 ≤ 1 - 2 * a := by linarith
  rw [abs_mul]
  calc |S a| * |log (1 + 2 * a) - tlog a|
      ≤ (51 / 50 / a ^ 3) * ((2 * a) ^ 18 / (1 - 2 * a)) := by gcongr
    _ = 51 / 50 * 2 ^ 18 * a ^ 15 / (1 - 2 * a) := by
        have : 1 - 2 * a ≠ 0 := by linarith
        field_simp
    _ ≤ 51 / 50 * 2 ^ 18 * a ^ 15 / (24 / 25) := by gcongr
    _ = 278528 * a ^ 15 := by ring

/-- truncation error of the series, with its order: `|ser a − brk a| ≤ 29009 a¹² + 278528 a¹⁵`
(the first omitted Taylor coefficient is `38182912/1365 ≈ 27973`) -/
theorem ser_sub_brk_le : |ser a - brk a| ≤ 29009 * a ^ 12 + 278528 * a ^ 15 := by
  have e : ser a - brk a = a ^ 12 * dt a / (2 * (1 + 2 * a) ^ 2) - S a * (log (1 + 2 * a) - tlog a) := by
    rw [brk_decomp h0]; ring
  rw [e]
  calc |a ^ 12 * dt a / (2 * (1 + 2 * a) ^ 2) - S a * (log (1 + 2 * a) - tlog a)|
      ≤ |a ^ 12 * dt a / (2 * (1 + 2 * a) ^ 2)| + |S a * (log (1 + 2 * a) - tlog a)| := abs_sub _ _
    _ ≤ 29009 * a ^ 12 + 278528 * a ^ 15 := add_le_add (poly_part h0 h1) (log_part h0 h1)

/-- absolute truncation error of the series on `(0, 0.02)` -/
theorem ser_sub_brk_abs : |ser a - brk a| ≤ 1.2e-16 := by
  have p12 : a ^ 12 ≤ (1 / 50) ^ 12 := by gcongr
  have p15 : a ^ 15 ≤ (1 / 50) ^ 15 := by gcongr
  calc |ser a - brk a| ≤ 29009 * a ^ 12 + 278528 * a ^ 15 := ser_sub_brk_le h0 h1
    _ ≤ 29009 * (1 / 50) ^ 12 + 278528 * (1 / 50) ^ 15 := by gcongr
    _ ≤ 1.2e-16 := by norm_num

/-- the bracket is bounded below on `(0, 0.02)` -/
theorem brk_ge : 1.2 ≤ brk a := by
  have h := ser_sub_brk_abs h0 h1
  have hs := ser_ge h1.le
  rw [abs_le] at h
  norm_num at h ⊢
  linarith [h.2]

/-- **remainder bound**: relative truncation error of the series against the closed form -/
theorem ser_close : |ser a - brk a| ≤ 1e-16 * brk a := by
  have h := ser_sub_brk_abs h0 h1
  have hb := brk_ge h0 h1
  norm_num at h hb ⊢
  linarith

theorem brk_pos : 0 < brk a := by
  have := brk_ge h0 h1
  norm_num at this
  linarith

end bounds

theorem ser_zero : ser 0 = 4 / 3 := by unfold ser; norm_num

theorem continuous_ser : Continuous ser := by unfold ser; fun_prop

open Filter Topology in
/-- the closed-form bracket itself tends to `4/3` as `a → 0⁺` (squeezed onto its series by `ser_sub_brk_le`) -/
theorem brk_tendsto : Tendsto brk (𝓝[>] 0) (𝓝 (4 / 3)) := by
  have hs : Tendsto ser (𝓝[>] 0) (𝓝 (4 / 3)) := by
    have h := (continuous_ser.continuousAt (x := 0)).tendsto
    rw [ser_zero] at h
    exact h.mono_left nhdsWithin_le_nhds
  have hb : Tendsto (fun a : ℝ => 29009 * a ^ 12 + 278528 * a ^ 15) (𝓝[>] 0) (𝓝 0) := by
    have hc : Continuous (fun a : ℝ => 29009 * a ^ 12 + 278528 * a ^ 15) := by fun_prop
    have h := (hc.continuousAt (x := 0)).tendsto
    norm_num at h
    exact h.mono_left nhdsWithin_le_nhds
  have hd : Tendsto (fun a => ser a - brk a) (𝓝[>] 0) (𝓝 0) := by
    refine squeeze_zero_norm' ?_ hb
    filter_upwards [Ioo_mem_nhdsGT (show (0:ℝ) < 1 / 50 by norm_num)] with a ha
    rw [Real.norm_eq_abs]
    exact ser_sub_brk_le ha.1 ha.2
  have h := hs.sub hd
  simp only [sub_sub_cancel, sub_zero] at h
  exact h

/-- Horner form (the arrangement of the repaired scattering.c) -/
theorem ser_horner (a : ℝ) :
    4 / 3 + a * (-8 / 3 + a * (104 / 15 + a * (-266 / 15 + a * (4576 / 105 + a * (-2176 / 21
      + a * (15136 / 63 + a * (-24592 / 45 + a * (606208 / 495 + a * (-447488 / 165 + a * (2551808 / 429
      + a * (-3533312 / 273))))))))))) = ser a := by
  unfold ser; ring

/-- non-vacuity: the remainder bound at 1 keV (`a = 1/511`) -/
example : |ser (1 / 511) - brk (1 / 511)| ≤ 1e-16 * brk (1 / 511) := ser_close (by norm_num) (by norm_num)

end KNS
end Xrl
