import Xrl.Core.Real
import Xrl.Hand.Splint
import Xrl.Spec.Basic
import Xrl.Spec.Groups
import Xrl.Spec.JumpRatio
import Mathlib.Analysis.Calculus.Deriv.Basic
import Mathlib.Analysis.Calculus.Deriv.Add
import Mathlib.Analysis.Calculus.Deriv.Mul
import Mathlib.Analysis.Calculus.Deriv.Pow
/-!
# Helper lemmas for Props/C02c.lean and Props/C09b.lean: the cubic of `splint` written out and differentiated; logarithms of the
argument transforms; a quantity that is not available reads as 0
-/
namespace Xrl
namespace C02
open Spec

section cubic
variable (xlo xhi ylo yhi y2lo y2hi : ℝ)

/-- the cubic with `a = (xhi − x)/h`, `b = (x − xlo)/h` written out -/
theorem splintCubic_eq (x : ℝ) :
    splintCubic xlo xhi ylo yhi y2lo y2hi x =
      (xhi - x) / (xhi - xlo) * ylo + (x - xlo) / (xhi - xlo) * yhi +
        ((((xhi - x) / (xhi - xlo)) ^ 3 - (xhi - x) / (xhi - xlo)) * y2lo +
          (((x - xlo) / (xhi - xlo)) ^ 3 - (x - xlo) / (xhi - xlo)) * y2hi) * ((xhi - xlo) * (xhi - xlo)) / 6 := by
  unfold splintCubic
  have e6 : (6.0 : ℝ) = 6 := by norm_num
  simp only [e6]
  ring

/-- first derivative of the cubic -/
noncomputable def cubicD1 (x : ℝ) : ℝ :=
  (yhi - ylo) / (xhi - xlo) -
    (3 * ((xhi - x) / (xhi - xlo)) ^ 2 - 1) * (xhi - xlo) * y2lo / 6 +
    (3 * ((x - xlo) / (xhi - xlo)) ^ 2 - 1) * (xhi - xlo) * y2hi / 6

theorem cubic_hasDerivAt (h : xlo ≠ xhi) (x : ℝ) :
    HasDerivAt (splintCubic xlo xhi ylo yhi y2lo y2hi) (cubicD1 xlo xhi ylo yhi y2lo y2hi x) x := by
  have hh : xhi - xlo ≠ 0 := sub_ne_zero.mpr (Ne.symm h)
  have ha : HasDerivAt (fun x => (xhi - x) / (xhi - xlo)) (-1 / (xhi - xlo)) x := by
    have := ((hasDerivAt_id x).const_sub xhi).div_const (xhi - xlo)
    simpa using this
  have hb : HasDerivAt (fun x => (x - xlo) / (xhi - xlo)) (1 / (xhi - xlo)) x := by
    have := ((hasDerivAt_id x).sub_const xlo).div_const (xhi - xlo)
    simpa using this
  have e : splintCubic xlo xhi ylo yhi y2lo y2hi = fun x =>
      (xhi - x) / (xhi - xlo) * ylo + (x - xlo) / (xhi - xlo) * yhi +
        ((((xhi - x) / (xhi - xlo)) ^ 3 - (xhi - x) / (xhi - xlo)) * y2lo +
          (((x - xlo) / (xhi - xlo)) ^ 3 - (x - xlo) / (xhi - xlo)) * y2hi) * ((xhi - xlo) * (xhi - xlo)) / 6 := by
    funext t; exact splintCubic_eq xlo xhi ylo yhi y2lo y2hi t
  rw [e]
  have key : HasDerivAt (fun x =>
      (xhi - x) / (xhi - xlo) * ylo + (x - xlo) / (xhi - xlo) * yhi +
        ((((xhi - x) / (xhi - xlo)) ^ 3 - (xhi - x) / (xhi - xlo)) * y2lo +
          (((x - xlo) / (xhi - xlo)) ^ 3 - (x - xlo) / (xhi - xlo)) * y2hi) * ((xhi - xlo) * (xhi - xlo)) / 6) _ x :=
    ((ha.mul_const ylo).add (hb.mul_const yhi)).add
      ((((((ha.pow 3).sub ha).mul_const y2lo).add (((hb.pow 3).sub hb).mul_const y2hi)).mul_const
        ((xhi - xlo) * (xhi - xlo))).div_const 6)
  refine key.congr_deriv ?_
  unfold cubicD1
  obtain ⟨d, rfl⟩ : ∃ d, xhi = xlo + d := ⟨xhi - xlo, by ring⟩
  have hd : xlo + d - xlo = d := by ring
  rw [hd] at hh
  simp only [hd]
  norm_num
  field_simp
  ring

theorem cubicD1_hasDerivAt (h : xlo ≠ xhi) (x : ℝ) :
    HasDerivAt (cubicD1 xlo xhi ylo yhi y2lo y2hi)
      ((xhi - x) / (xhi - xlo) * y2lo + (x - xlo) / (xhi - xlo) * y2hi) x := by
  have hh : xhi - xlo ≠ 0 := sub_ne_zero.mpr (Ne.symm h)
  have ha : HasDerivAt (fun x => (xhi - x) / (xhi - xlo)) (-1 / (xhi - xlo)) x := by
    have := ((hasDerivAt_id x).const_sub xhi).div_const (xhi - xlo)
    simpa using this
  have hb : HasDerivAt (fun x => (x - xlo) / (xhi - xlo)) (1 / (xhi - xlo)) x := by
    have := ((hasDerivAt_id x).sub_const xlo).div_const (xhi - xlo)
    simpa using this
  have key : HasDerivAt (fun x => (yhi - ylo) / (xhi - xlo) -
      (3 * ((xhi - x) / (xhi - xlo)) ^ 2 - 1) * (xhi - xlo) * y2lo / 6 +
      (3 * ((x - xlo) / (xhi - xlo)) ^ 2 - 1) * (xhi - xlo) * y2hi / 6) _ x :=
    ((hasDerivAt_const x ((yhi - ylo) / (xhi - xlo))).sub
      ((((((ha.pow 2).const_mul 3).sub_const 1).mul_const (xhi - xlo)).mul_const y2lo).div_const 6)).add
      ((((((hb.pow 2).const_mul 3).sub_const 1).mul_const (xhi - xlo)).mul_const y2hi).div_const 6)
  have e : cubicD1 xlo xhi ylo yhi y2lo y2hi = fun x => (yhi - ylo) / (xhi - xlo) -
      (3 * ((xhi - x) / (xhi - xlo)) ^ 2 - 1) * (xhi - xlo) * y2lo / 6 +
      (3 * ((x - xlo) / (xhi - xlo)) ^ 2 - 1) * (xhi - xlo) * y2hi / 6 := by
    funext t; rfl
  rw [e]
  refine key.congr_deriv ?_
  obtain ⟨d, rfl⟩ : ∃ d, xhi = xlo + d := ⟨xhi - xlo, by ring⟩
  have hd : xlo + d - xlo = d := by ring
  rw [hd] at hh
  simp only [hd]
  norm_num
  field_simp
  ring

end cubic

theorem log_exp_div_mul (x : ℝ) : XNum.log (Real.exp x / 1000 * (1000.0 : ℝ)) = x := by
  have : Real.exp x / 1000 * (1000.0 : ℝ) = Real.exp x := by norm_num
  rw [this]; exact Real.log_exp x

theorem log_exp_sub_add (x : ℝ) : XNum.log (Real.exp x - 1 + (1.0 : ℝ)) = x := by
  have : Real.exp x - 1 + (1.0 : ℝ) = Real.exp x := by norm_num
  rw [this]; exact Real.log_exp x

end C02

namespace C09
open Spec

theorem valOr0_of_not_avail {x : Expect ℝ} (h : avail x = false) : valOr0 x = 0 := by
  cases x with
  | value v => simp [avail] at h
  | fails => simp [valOr0]; norm_num
  | any => simp [valOr0]; norm_num

end C09
end Xrl
