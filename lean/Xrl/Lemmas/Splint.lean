import Xrl.Lemmas.Tactics
import Xrl.Spec.Spline
/-!
# The bisection of `splint` terminates with the bracket the specification names
-/
namespace Xrl
open Spec

/-- invariant-carrying statement: with enough fuel the loop ends with adjacent indices that still bracket:
`¬ gt klo` (i.e. xa[klo] ≤ x) and (`gt khi` or khi is the original upper end). -/
theorem bisect_spec (gt : Nat → Bool) (n : Nat) :
    ∀ fuel klo khi, klo < khi → khi ≤ n → khi - klo ≤ fuel + 1 →
      gt klo = false → (gt khi = true ∨ khi = n) →
      let r := bisect gt fuel klo khi
      r.1 + 1 = r.2 ∧ klo ≤ r.1 ∧ r.2 ≤ khi ∧ gt r.1 = false ∧ (gt r.2 = true ∨ r.2 = n) := by
  intro fuel
  induction fuel with
  | zero =>
    intro klo khi h1 h2 h3 h4 h5
    simp only [bisect]
    refine ⟨by omega, Nat.le_refl _, Nat.le_refl _, h4, h5⟩
  | succ f ih =>
    intro klo khi h1 h2 h3 h4 h5
    simp only [bisect]
    by_cases hw : khi - klo > 1
    · simp only [hw, if_true]
      by_cases hg : gt ((khi + klo) / 2) = true
      · simp only [hg, if_true]
        have := ih klo ((khi + klo) / 2) (by omega) (by omega) (by omega) h4 (Or.inl hg)
        obtain ⟨a, b, c, d, e⟩ := this
        exact ⟨a, b, by omega, d, e⟩
      · have hg' : gt ((khi + klo) / 2) = false := by cases h : gt ((khi + klo) / 2) <;> simp_all
        simp only [hg', Bool.false_eq_true, if_false]
        have := ih ((khi + klo) / 2) khi (by omega) h2 (by omega) hg' h5
        obtain ⟨a, b, c, d, e⟩ := this
        exact ⟨a, by omega, c, d, e⟩
    · simp only [hw, if_false]
      exact ⟨by omega, Nat.le_refl _, Nat.le_refl _, h4, h5⟩

/-- the downward scan returns the largest index `≤ m` whose knot is `≤ x` -/
theorem bracketLin_spec (xa : Vec ℝ) (x : ℝ) :
    ∀ m, let r := bracketLin xa x m
      1 ≤ r ∧ r ≤ max m 1 ∧ (knot xa r ≤ x ∨ r = 1) ∧ ∀ k, r < k → k ≤ m → x < knot xa k := by
  intro m
  induction m using bracketLin.induct xa x with
  | case1 => simp [bracketLin]; intro k h1 h2; omega
  | case2 => simp [bracketLin]; intro k h1 h2; omega
  | case3 m h =>
    have h' := h
    simp only [bracketLin, h, if_true]
    refine ⟨by omega, by omega, Or.inl trivial, ?_⟩
    intro k h1 h2; omega
  | case4 m h ih =>
    simp only [bracketLin, h, if_false]
    obtain ⟨a, b, c, d⟩ := ih
    refine ⟨a, by omega, c, ?_⟩
    intro k h1 h2
    by_cases hk : k = m + 2
    · subst hk; exact not_le.mp h
    · exact d k h1 (by omega)

/-- knots non-decreasing on `[1, n]` -/
def SortedKnots (xa : Vec ℝ) (n : Nat) : Prop := ∀ i j, 1 ≤ i → i ≤ j → j ≤ n → knot xa i ≤ knot xa j

/-- for sorted knots, the bisection and the downward scan agree -/
theorem bisect_eq_bracketLin (xa : Vec ℝ) (n : Nat) (x : ℝ) (hn : 2 ≤ n) (hs : SortedKnots xa n)
    (h1 : knot xa 1 ≤ x) :
    bisect (fun k => decide (x < xa.get (k - 1))) n 1 n = (bracketLin xa x (n - 1), bracketLin xa x (n - 1) + 1) := by
  have hb := bisect_spec (fun k => decide (x < xa.get (k - 1))) n n 1 n (by omega) (le_refl _) (by omega)
    (by simpa [knot] using h1) (Or.inr rfl)
  obtain ⟨e1, e2, e3, e4, e5⟩ := hb
  have hl := bracketLin_spec xa x (n - 1)
  obtain ⟨l1, l2, l3, l4⟩ := hl
  set r := bisect (fun k => decide (x < xa.get (k - 1))) n 1 n with hr
  set b := bracketLin xa x (n - 1) with hbdef
  have hk1 : knot xa r.1 ≤ x := by simpa [knot] using e4
  have hb1 : knot xa b ≤ x := by
    rcases l3 with h | h
    · exact h
    · rw [h]; exact h1
  have hbn : b ≤ n - 1 := by have : max (n - 1) 1 = n - 1 := by omega
                             omega
  have key : r.1 = b := by
    rcases Nat.lt_trichotomy r.1 b with h | h | h
    · -- r.1 < b : then r.2 ≤ b ≤ n-1 so gt r.2, i.e. x < knot r.2 ≤ knot b ≤ x
      exfalso
      have h2 : r.2 ≤ b := by omega
      rcases e5 with g | g
      · have g' : x < knot xa r.2 := by simpa [knot] using g
        have := hs r.2 b (by omega) h2 (by omega)
        linarith
      · omega
    · exact h
    · -- b < r.1 ≤ n-1 : scan says x < knot r.1, bisection says knot r.1 ≤ x
      exfalso
      have := l4 r.1 h (by omega)
      linarith
  have : r = (b, b + 1) := by
    apply Prod.ext
    · exact key
    · simp only; omega
  exact this

end Xrl

