import Xrl.Lemmas.Meets
import Xrl.Spec.Cascade2
import Xrl.Gen.Static
/-!
# C08 (part 2): small lemmas shared by the vacancyProd / shell / line theorems

* `ind c` : the indicator of a guard, so that `if c then a + x else a = a + ind c * x` and sums over the guarded
  terms of the generated code and of the specification are compared by `ring`, without case splits;
* the name-derived tables of Spec/Cascade2.lean evaluated at each sub-shell (by `decide`);
* the literal tables of Spec/Cascade2.lean equal the tables recomputed from the macro names (`decide +kernel`).
-/
namespace Xrl
namespace C08
open Spec

theorem zero_lit : (0.0 : ℝ) = 0 := by norm_num

/-- indicator of a guard -/
noncomputable def ind (c : Prop) [Decidable c] : ℝ := if c then 1 else 0

theorem ind_nonneg (c : Prop) [Decidable c] : 0 ≤ ind c := by unfold ind; split_ifs <;> norm_num

theorem ite_ok_acc (c : Prop) [Decidable c] (a x : ℝ) :
    (if c then (Except.ok (a + x) : M ℝ) else Except.ok a) = Except.ok (a + ind c * x) := by
  unfold ind; split_ifs <;> simp

theorem ite_acc (c : Prop) [Decidable c] (a x : ℝ) : (if c then a + x else a) = a + ind c * x := by
  unfold ind; split_ifs <;> simp

theorem ite_acc2 (c : Prop) [Decidable c] (a x y : ℝ) :
    (if c then a + x + y else a) = a + ind c * x + ind c * y := by
  unfold ind; split_ifs <;> simp

/-- a read of the vacancyProd-transfer constants `[ZMAX+1][9][4]` with constant shell indices -/
theorem rd3_cell {β : Type} (name : String) (f : Nat → Nat → Nat → β) {i : Int} (hb : 0 ≤ i ∧ i < 121) (j k : Int)
    (hj : 0 ≤ j ∧ j < 9) (hk : 0 ≤ k ∧ k < 4) :
    rd3 name 121 9 4 f i j k = Except.ok (f i.toNat j.toNat k.toNat) := by
  unfold rd3; rw [if_pos (by push_cast; omega)]; rfl

theorem rd1_weight {β : Type} (name : String) (f : Nat → β) {i : Int} (hb : 0 ≤ i ∧ i < 121) :
    rd1 name 121 f i = Except.ok (f i.toNat) := by
  unfold rd1; rw [if_pos (by push_cast; omega)]; rfl

/-! ## the name-derived tables, evaluated -/

theorem lowerSame_0 : lowerSame 0 = [] := by decide
theorem lowerSame_1 : lowerSame 1 = [] := by decide
theorem lowerSame_2 : lowerSame 2 = [1] := by decide
theorem lowerSame_3 : lowerSame 3 = [1, 2] := by decide
theorem lowerSame_4 : lowerSame 4 = [] := by decide
theorem lowerSame_5 : lowerSame 5 = [4] := by decide
theorem lowerSame_6 : lowerSame 6 = [4, 5] := by decide
theorem lowerSame_7 : lowerSame 7 = [4, 5, 6] := by decide
theorem lowerSame_8 : lowerSame 8 = [4, 5, 6, 7] := by decide
theorem inner_0 : inner 0 = [] := by decide
theorem inner_1 : inner 1 = [0] := by decide
theorem inner_2 : inner 2 = [0] := by decide
theorem inner_3 : inner 3 = [0] := by decide
theorem inner_4 : inner 4 = [0, 1, 2, 3] := by decide
theorem inner_5 : inner 5 = [0, 1, 2, 3] := by decide
theorem inner_6 : inner 6 = [0, 1, 2, 3] := by decide
theorem inner_7 : inner 7 = [0, 1, 2, 3] := by decide
theorem inner_8 : inner 8 = [0, 1, 2, 3] := by decide
theorem ckList_2_1 : ckList 2 1 = [1] := by decide
theorem ckList_3_1 : ckList 3 1 = [2, 3] := by decide
theorem ckList_3_2 : ckList 3 2 = [4] := by decide
theorem ckList_5_4 : ckList 5 4 = [5] := by decide
theorem ckList_6_4 : ckList 6 4 = [6] := by decide
theorem ckList_7_4 : ckList 7 4 = [7] := by decide
theorem ckList_8_4 : ckList 8 4 = [8] := by decide
theorem ckList_6_5 : ckList 6 5 = [9] := by decide
theorem ckList_7_5 : ckList 7 5 = [10] := by decide
theorem ckList_8_5 : ckList 8 5 = [11] := by decide
theorem ckList_7_6 : ckList 7 6 = [12] := by decide
theorem ckList_8_6 : ckList 8 6 = [13] := by decide
theorem ckList_8_7 : ckList 8 7 = [14] := by decide
theorem radLine_1_0 : radLine 1 0 = some (-1) := by decide
theorem radLine_2_0 : radLine 2 0 = some (-2) := by decide
theorem radLine_3_0 : radLine 3 0 = some (-3) := by decide
theorem radLine_4_0 : radLine 4 0 = some (-4) := by decide
theorem radLine_4_1 : radLine 4 1 = some (-32) := by decide
theorem radLine_4_2 : radLine 4 2 = some (-60) := by decide
theorem radLine_4_3 : radLine 4 3 = some (-86) := by decide
theorem radLine_5_0 : radLine 5 0 = some (-5) := by decide
theorem radLine_5_1 : radLine 5 1 = some (-33) := by decide
theorem radLine_5_2 : radLine 5 2 = some (-61) := by decide
theorem radLine_5_3 : radLine 5 3 = some (-87) := by decide
theorem radLine_6_0 : radLine 6 0 = some (-6) := by decide
theorem radLine_6_1 : radLine 6 1 = some (-34) := by decide
theorem radLine_6_2 : radLine 6 2 = some (-62) := by decide
theorem radLine_6_3 : radLine 6 3 = some (-88) := by decide
theorem radLine_7_0 : radLine 7 0 = some (-7) := by decide
theorem radLine_7_1 : radLine 7 1 = some (-35) := by decide
theorem radLine_7_2 : radLine 7 2 = some (-63) := by decide
theorem radLine_7_3 : radLine 7 3 = some (-89) := by decide
theorem radLine_8_0 : radLine 8 0 = some (-8) := by decide
theorem radLine_8_1 : radLine 8 1 = some (-36) := by decide
theorem radLine_8_2 : radLine 8 2 = some (-64) := by decide
theorem radLine_8_3 : radLine 8 3 = some (-90) := by decide

/-! ## the literal tables are the ones the macro names give -/

/-- every `F<X><u><t>_TRANS` / `FLP13_TRANS` macro is listed under the pair `(t, u)` its name designates, and the
table lists nothing else -/
theorem ck_feed_from_names : ckFeedOfNames = true := by decide +kernel

/-- the line range of each sub-shell = [min, max] of the line macros whose name begins with the sub-shell's name -/
theorem lineRanges_from_names : lineRangesOfNames = lineRanges := by decide +kernel

/-- … and every value inside such a range is a line macro of that sub-shell (the ranges have no holes) -/
theorem lineRanges_full : lineRangesFull = true := by decide +kernel

/-- the L-beta members of the specification are the 13 macros of `LB_LINE_MACROS` (src/kissel_pe.c) -/
theorem lbMembers_eq : lbMembersK = Static.LB_LINE_MACROS_list := by decide

/-- the Coster–Kronig transitions leaving a sub-shell (`Hdr.ck_of_shell`, used by C11) are those of `ck_feed` -/
theorem ck_feed_ck_of_shell :
    Hdr.ck_of_shell.all (fun p => (ck_feed.filter (fun q => q.1.2 = p.1)).flatMap (·.2) == p.2) = true := by decide

/-! ## the inner-shell values as a fixed point -/

theorem subshells_nonneg : ∀ p ∈ subshells, 0 ≤ p.1 := by decide
theorem subshells_mono : ∀ p ∈ subshells, ∀ q ∈ subshells, p.2 < q.2 → p.1 < q.1 := by decide

theorem mem_lowerSame {t u : Int} (h : u ∈ lowerSame t) : 0 ≤ u ∧ u < t := by
  unfold lowerSame at h
  obtain ⟨p, hp, rfl⟩ := List.mem_map.1 h
  obtain ⟨hm, hc⟩ := List.mem_filter.1 hp
  simp only [Bool.and_eq_true, decide_eq_true_eq] at hc
  exact ⟨subshells_nonneg p hm, hc.1⟩

theorem mem_inner {t s : Int} (h : s ∈ inner t) : 0 ≤ s ∧ s < t := by
  unfold inner at h
  obtain ⟨p, hp, rfl⟩ := List.mem_map.1 h
  obtain ⟨hm, hc⟩ := List.mem_filter.1 hp
  refine ⟨subshells_nonneg p hm, ?_⟩
  cases hq : principal t with
  | none => simp [hq] at hc
  | some n =>
    simp only [hq, decide_eq_true_eq] at hc
    unfold principal at hq
    obtain ⟨q, hq1, hq2⟩ := Option.map_eq_some_iff.1 hq
    have hqm := List.mem_of_find?_eq_some hq1
    have hqt := List.find?_some hq1
    simp only [decide_eq_true_eq] at hqt
    have := subshells_mono p hm q hqm (by rw [hq2]; exact hc)
    omega

theorem foldl_congr_mem_int {β : Type} {f g : β → Int → β} (ks : List Int)
    (h : ∀ k ∈ ks, ∀ s, f s k = g s k) (s0 : β) : ks.foldl f s0 = ks.foldl g s0 := by
  induction ks generalizing s0 with
  | nil => rfl
  | cons k ks ih =>
    simp only [List.foldl_cons]
    rw [h k (List.mem_cons_self ..)]
    exact ih (fun k' hk' => h k' (List.mem_cons_of_mem _ hk')) _

/-- the vacancyProd production of `t` depends on the inner-shell values below `t` only -/
theorem vacancy_congr (T : Tables ℝ) (Z t : Int) (v : Variant) (P P' : Int → ℝ) (own : Expect ℝ)
    (h : ∀ s, 0 ≤ s → s < t → P s = P' s) : vacancyProd T Z t v P own = vacancyProd T Z t v P' own := by
  have h1 : ∀ o : ℝ, (lowerSame t).foldl (fun acc u =>
        if (0.0 : ℝ) < P u then (ckList t u).foldl (fun a tr => a + ckProb T Z tr * P u) acc else acc) o =
      (lowerSame t).foldl (fun acc u =>
        if (0.0 : ℝ) < P' u then (ckList t u).foldl (fun a tr => a + ckProb T Z tr * P' u) acc else acc) o := by
    intro o
    apply foldl_congr_mem_int
    intro u hu s
    have := mem_lowerSame hu
    rw [h u this.1 this.2]
  have h2 : ∀ o : ℝ, (inner t).foldl (fun acc s =>
        if (0.0 : ℝ) < P s then acc + P s * transfer T Z t s v else acc) o =
      (inner t).foldl (fun acc s =>
        if (0.0 : ℝ) < P' s then acc + P' s * transfer T Z t s v else acc) o := by
    intro o
    apply foldl_congr_mem_int
    intro u hu s
    have := mem_inner hu
    rw [h u this.1 this.2]
  cases own with
  | value o => cases v <;> simp only [vacancyProd, h1, h2]
  | fails => rfl
  | any => rfl

theorem innerP_below (T : Tables ℝ) (Z : Int) (v : Variant) (own : Int → Expect ℝ) (k : Nat) (s : Int) (h : s < k) :
    innerP T Z v own (k + 1) s = innerP T Z v own k s := by
  have : s ≠ (k : Int) := by omega
  simp only [innerP, this, if_false]

/-- the inner-shell values are a fixed point: each is the vacancyProd production computed from all of them -/
theorem innerP_fix (T : Tables ℝ) (Z : Int) (v : Variant) (own : Int → Expect ℝ) (k : Nat) (j : Int)
    (h0 : 0 ≤ j) (hj : j < k) :
    innerP T Z v own k j = valOr0 (vacancyProd T Z j v (innerP T Z v own k) (own j)) := by
  induction k with
  | zero => omega
  | succ k ih =>
    by_cases hjk : j = (k : Int)
    · subst hjk
      have : innerP T Z v own (k + 1) (k : Int) = valOr0 (vacancyProd T Z k v (innerP T Z v own k) (own k)) := by
        simp only [innerP, if_true]
      rw [this]
      congr 1
      apply vacancy_congr
      intro s _ hs
      exact (innerP_below T Z v own k s hs).symm
    · have hlt : j < (k : Int) := by omega
      rw [innerP_below T Z v own k j hlt, ih hlt]
      congr 1
      apply vacancy_congr
      intro s _ hs
      exact (innerP_below T Z v own k s (by omega)).symm


end C08
end Xrl
