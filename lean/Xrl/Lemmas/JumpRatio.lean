import Xrl.Lemmas.Meets
import Xrl.Props.C01
import Xrl.Props.C02
import Xrl.Props.C05
import Xrl.Props.C10
import Xrl.Spec.JumpRatio
import Xrl.Gen.F_cs_line
import Xrl.Gen.F_cs_barns
/-!
# Helpers for C09 (jump-ratio XRF cross sections)
-/
namespace Xrl
namespace C09
open Spec

set_option linter.unusedSimpArgs false
set_option linter.unusedVariables false

/-! ## availability of a scalar lookup over ℝ -/

theorem lookup2_pos {cell : Nat → Nat → ℝ} {lo hi : Int} {slot : Int → Int} {Z m : Int} {v : ℝ}
    (h : lookup2 cell lo hi slot Z m = .value v) : 0 < v := by
  unfold lookup2 at h
  split_ifs at h with hc
  injection h with h
  rw [← h]; have := hc.2.2; norm_num at this; exact this

theorem lookup2_nonneg {cell : Nat → Nat → ℝ} {lo hi : Int} {slot : Int → Int} {Z m : Int} :
    0 ≤ valOr0 (lookup2 cell lo hi slot Z m) :=
  C10.valOr0_nonneg_of (fun _ hv => lookup2_pos hv)

theorem avail_lookup2 {cell : Nat → Nat → ℝ} {lo hi : Int} {slot : Int → Int} {Z m : Int} :
    avail (lookup2 cell lo hi slot Z m) = decide (0 < valOr0 (lookup2 cell lo hi slot Z m)) := by
  unfold lookup2
  split_ifs with hc
  · have := hc.2.2; norm_num at this
    simp [avail, valOr0, this]
  · simp [avail, valOr0]; norm_num

variable (T : Tables ℝ) (Z : Int)

theorem edge_nonneg (s : Int) : 0 ≤ edge T Z s := lookup2_nonneg
theorem jump_nonneg (s : Int) : 0 ≤ jump T Z s := lookup2_nonneg
theorem fyield_nonneg (s : Int) : 0 ≤ fyield T Z s := lookup2_nonneg
theorem ck_nonneg (t : Int) : 0 ≤ ck T Z t := lookup2_nonneg

theorem avail_jump (s : Int) : avail (Spec.JumpFactor T Z s) = decide (0 < jump T Z s) := avail_lookup2
theorem avail_fyield (s : Int) : avail (Spec.FluorYield T Z s) = decide (0 < fyield T Z s) := avail_lookup2
theorem avail_ck (t : Int) : avail (Spec.CosKronTransProb T Z t) = decide (0 < ck T Z t) := avail_lookup2

/-! ## the lookups as called by the jump functions: no error slot -/

theorem edge_null (s : Int) : Gen.EdgeEnergy T Z s Slot.null = Except.ok (edge T Z s, Slot.null) :=
  C10.meets_null (C01.lookup_spec_EdgeEnergy T Z s Slot.null rfl) lookup2_ne_any

theorem jump_null (s : Int) : Gen.JumpFactor T Z s Slot.null = Except.ok (jump T Z s, Slot.null) :=
  C10.meets_null (C01.lookup_spec_JumpFactor T Z s Slot.null rfl) lookup2_ne_any

theorem fyield_null (s : Int) : Gen.FluorYield T Z s Slot.null = Except.ok (fyield T Z s, Slot.null) :=
  C10.meets_null (C01.lookup_spec_FluorYield T Z s Slot.null rfl) lookup2_ne_any

theorem ck_null (t : Int) : Gen.CosKronTransProb T Z t Slot.null = Except.ok (ck T Z t, Slot.null) :=
  C10.meets_null (C01.lookup_spec_CosKronTransProb T Z t Slot.null rfl) lookup2_ne_any

/-- a lookup called with the caller's slot: the tabulated positive value, or 0 and one error -/
theorem lookup_call {r : M (ℝ × Slot)} {error : Slot} {cell : Nat → Nat → ℝ} {lo hi : Int} {slot : Int → Int} {Z m : Int}
    (h : Meets r error (lookup2 cell lo hi slot Z m)) :
    (0 < valOr0 (lookup2 cell lo hi slot Z m) ∧ r = Except.ok (valOr0 (lookup2 cell lo hi slot Z m), error)) ∨
    (valOr0 (lookup2 cell lo hi slot Z m) = 0 ∧
      ∃ e : Err, e.msg ≠ "" ∧ e.code ≤ 5 ∧ r = Except.ok ((0 : ℝ), error.withErr e)) := by
  rcases Meets.cases h with ⟨v, hv, rv⟩ | ⟨hv, e, h1, h2, rv⟩ | hany
  · left; rw [hv]; exact ⟨lookup2_pos hv, rv⟩
  · right; rw [hv]; refine ⟨by simp [valOr0]; norm_num, e, h1, h2, rv⟩
  · exact absurd hany lookup2_ne_any

/-- outcome of a lookup called with the caller's slot, in terms of the `valOr0` reading `x` -/
def CallOk (r : M (ℝ × Slot)) (error : Slot) (x : ℝ) : Prop :=
  (0 < x ∧ r = Except.ok (x, error)) ∨
  (x = 0 ∧ ∃ e : Err, e.msg ≠ "" ∧ e.code ≤ 5 ∧ r = Except.ok ((0 : ℝ), error.withErr e))

theorem edge_call (s : Int) (error : Slot) (he : error.isFull = false) :
    CallOk (Gen.EdgeEnergy T Z s error) error (edge T Z s) := lookup_call (C01.lookup_spec_EdgeEnergy T Z s error he)
theorem jump_call (s : Int) (error : Slot) (he : error.isFull = false) :
    CallOk (Gen.JumpFactor T Z s error) error (jump T Z s) := lookup_call (C01.lookup_spec_JumpFactor T Z s error he)
theorem fyield_call (s : Int) (error : Slot) (he : error.isFull = false) :
    CallOk (Gen.FluorYield T Z s error) error (fyield T Z s) := lookup_call (C01.lookup_spec_FluorYield T Z s error he)

theorem above_0 : above 0 = [] := by decide
theorem above_1 : above 1 = [0] := by decide
theorem above_2 : above 2 = [0, 1] := by decide
theorem above_3 : above 3 = [0, 1, 2] := by decide


/-! ## literals, availability tests -/

theorem lit0 : (0.0 : ℝ) = 0 := by norm_num
theorem lit1 : (1.0 : ℝ) = 1 := by norm_num

theorem eq0_iff {x : ℝ} (h : 0 ≤ x) : x = 0 ↔ ¬ 0 < x :=
  ⟨fun h0 => by rw [h0]; exact lt_irrefl 0, fun hn => le_antisymm (not_lt.mp hn) h⟩

theorem sum0_iff {x y : ℝ} (hx : 0 ≤ x) (hy : 0 ≤ y) : x + y = 0 ↔ ¬ 0 < x ∧ ¬ 0 < y := by
  constructor
  · intro h; constructor <;> intro hp <;> linarith
  · intro ⟨h1, h2⟩; linarith [not_lt.mp h1, not_lt.mp h2]

theorem excited_iff (E : ℝ) (s : Int) : excited T Z s E = true ↔ (edge T Z s < E ∧ 0 < edge T Z s) := by
  simp only [excited, Bool.and_eq_true, decide_eq_true_eq, lit0]

theorem edgeOrder_iff : edgeOrderB T Z = true ↔
    ((0 < edge T Z 1 ∧ 0 < edge T Z 2 → edge T Z 2 ≤ edge T Z 1) ∧ (0 < edge T Z 2 ∧ 0 < edge T Z 3 → edge T Z 3 ≤ edge T Z 2) ∧
      (0 < edge T Z 1 ∧ 0 < edge T Z 3 → 0 < edge T Z 2)) ∧
    ((0 < fyield T Z 2 → 0 < edge T Z 2) ∧ (0 < fyield T Z 3 → 0 < edge T Z 3)) := by
  simp only [edgeOrderB, Bool.and_eq_true, decide_eq_true_eq, lit0, Hdr.L1_SHELL, Hdr.L2_SHELL, Hdr.L3_SHELL]

/-! ## tactics -/

/-- pure leaves (equations between expectations): equal values, or contradictory guards -/
macro "c09_pleaf" : tactic =>
  `(tactic| first
    | rfl
    | (apply congrArg Expect.value; first | (field_simp; done) | (field_simp; ring))
    | (apply congrArg nonzero; first | (field_simp; done) | (field_simp; ring))
    | (exfalso; linarith)
    | (exfalso; simp_all; done)
    | (exfalso; simp_all; linarith))

macro "c09_pure" : tactic =>
  `(tactic| (
    repeat' (first
      | (split_ifs <;> (try simp (disch := positivity) only [div_pos_iff_of_pos_right, mul_pos_iff_of_pos_right, sub_pos,
            lt_irrefl, false_and, true_and, and_true, and_false, if_true, if_false, not_true_eq_false, not_false_eq_true,
            zero_mul, mul_zero, add_zero, zero_add, one_div, inv_pos, div_pos_iff_of_pos_right] at *))
      | c09_pleaf)))

/-- residual of a position case: decide the jump ratios, normalise "the share is positive", split the rest -/
macro "c09_resid" jK:ident j1:ident j2:ident j3:ident : tactic =>
  `(tactic| (
    by_cases pK : 0 < $jK <;> by_cases p1 : 0 < $j1 <;> by_cases p2 : 0 < $j2 <;> by_cases p3 : 0 < $j3 <;>
      simp only [pK, p1, p2, p3, and_self, and_true, true_and, and_false, false_and, if_true, if_false, ite_self] <;>
      (try simp (disch := positivity) only [div_pos_iff_of_pos_right, mul_pos_iff_of_pos_right, sub_pos, lt_irrefl,
          false_and, if_false]) <;>
      c09_pure))

/-- a value leaf of a translated function: both sides are closed-form real expressions -/
macro "c09_val" : tactic =>
  `(tactic| (simp only [Except.ok.injEq, Prod.mk.injEq, and_true]; (try field_simp); (try ring)))

macro "c09_leaf" : tactic =>
  `(tactic| first
    | (apply fails_mk <;> decide)
    | (apply fails_mk' <;> decide)
    | (exfalso; linarith)
    | (exfalso; simp_all; done)
    | c09_val
    | grind)

/-- split the guards of a translated function whose expectation is written with the same guards -/
macro "c09_crunch" : tactic =>
  `(tactic| (
    repeat' (first
      | (split_ifs <;> (try simp only [bind_ok, bind_error, pure_eq_ok, throw_eq_error, Meets, Returns]))
      | c09_leaf)))

/-! ## the K share in closed form -/

theorem shellFactor_K (E : ℝ) : shellFactor T Z 0 E =
    if edge T Z 0 < E ∧ 0 < edge T Z 0 then
      (if 0 < jump T Z 0 then
        (if 0 < fyield T Z 0 then nonzero ((jump T Z 0 - 1) / jump T Z 0 * fyield T Z 0) else .fails)
      else .fails)
    else .fails := by
  simp only [shellFactor, vacancy, tau, above_0, screening, excited, avail_jump, avail_fyield,
    Hdr.K_SHELL, Hdr.L1_SHELL, Hdr.L2_SHELL, Hdr.L3_SHELL, Bool.and_eq_true, decide_eq_true_eq, if_true, lit0, lit1]
  split_ifs <;> simp_all

/-! ## L2 and L3: the shares in the shape the code computes them

`flatL2`/`flatL3` are the expectations written with the guards of cs_line.c (one chain `above L1 / above L2 / above L3`,
the K screening as a leading factor `F`).  `shellFactor_L2`/`_L3` show that, under the edge-order invariant, they are
the specification (`Spec.shellFactor`, written per sub-shell); `jump_from_L2_flat`/`_L3_flat` show that the generated
functions meet them. -/

noncomputable section

def restL1 (E e1 j1 w F : ℝ) : Expect ℝ :=
  if e1 < E ∧ 0 < e1 then
    if j1 = 0 then .fails else if w = 0 then .fails else nonzero (F * ((j1 - 1) / j1 * w))
  else .fails

def flatL1 (E eK e1 jK j1 w : ℝ) : Expect ℝ :=
  if eK < E ∧ 0 < eK then (if jK = 0 then .fails else restL1 E e1 j1 w (1 / jK))
  else restL1 E e1 j1 w 1

def tailL2 (f12 w F t1 t2 : ℝ) : Expect ℝ :=
  if 0 < t1 ∧ f12 = 0 then .fails else if w = 0 then .fails else nonzero (F * ((t2 + t1 * f12) * w))

def restL2 (E e1 e2 j1 j2 f12 w F : ℝ) : Expect ℝ :=
  if e1 < E ∧ 0 < e1 then
    if j1 = 0 ∨ j2 = 0 then .fails else tailL2 f12 w F ((j1 - 1) / j1) ((j2 - 1) / (j2 * j1))
  else if e2 < E ∧ 0 < e2 then
    if j2 = 0 then .fails else tailL2 f12 w F 0 ((j2 - 1) / j2)
  else .fails

def flatL2 (E eK e1 e2 jK j1 j2 f12 w : ℝ) : Expect ℝ :=
  if eK < E ∧ 0 < eK then (if jK = 0 then .fails else restL2 E e1 e2 j1 j2 f12 w (1 / jK))
  else restL2 E e1 e2 j1 j2 f12 w 1

def tailL3 (f12 f13 fp13 f23 w F t1 t2 t3 : ℝ) : Expect ℝ :=
  if 0 < t2 ∧ f23 = 0 then .fails
  else if 0 < t1 ∧ ((f13 + fp13 = 0 ∨ f12 = 0) ∨ f23 = 0) then .fails
  else if w = 0 then .fails
  else nonzero (F * ((t3 + t2 * f23) + t1 * ((f13 + fp13) + f12 * f23)) * w)

def restL3 (E e1 e2 e3 j1 j2 j3 f12 f13 fp13 f23 w F : ℝ) : Expect ℝ :=
  if e1 < E ∧ 0 < e1 then
    if (j1 = 0 ∨ j2 = 0) ∨ j3 = 0 then .fails
    else tailL3 f12 f13 fp13 f23 w F ((j1 - 1) / j1) ((j2 - 1) / (j2 * j1)) ((j3 - 1) / ((j3 * j2) * j1))
  else if e2 < E ∧ 0 < e2 then
    if j2 = 0 ∨ j3 = 0 then .fails
    else tailL3 f12 f13 fp13 f23 w F 0 ((j2 - 1) / j2) ((j3 - 1) / (j3 * j2))
  else if e3 < E ∧ 0 < e3 then
    if j3 = 0 then .fails else tailL3 f12 f13 fp13 f23 w F 0 0 ((j3 - 1) / j3)
  else .fails

def flatL3 (E eK e1 e2 e3 jK j1 j2 j3 f12 f13 fp13 f23 w : ℝ) : Expect ℝ :=
  if eK < E ∧ 0 < eK then (if jK = 0 then .fails else restL3 E e1 e2 e3 j1 j2 j3 f12 f13 fp13 f23 w (1 / jK))
  else restL3 E e1 e2 e3 j1 j2 j3 f12 f13 fp13 f23 w 1

end

theorem shellFactor_L1 (E : ℝ) :
    shellFactor T Z 1 E = flatL1 E (edge T Z 0) (edge T Z 1) (jump T Z 0) (jump T Z 1) (fyield T Z 1) := by
  simp only [shellFactor, vacancy, tau, above_0, above_1, screening, excited_iff, avail_jump, avail_fyield,
    Hdr.K_SHELL, Hdr.L1_SHELL, Hdr.L2_SHELL, Hdr.L3_SHELL, decide_eq_true_eq, if_true, lit0, lit1, Int.reduceEq, if_false]
  have n1 := jump_nonneg T Z 0
  have n2 := jump_nonneg T Z 1
  have n4 := fyield_nonneg T Z 1
  generalize edge T Z 0 = eK at *
  generalize edge T Z 1 = e1 at *
  generalize jump T Z 0 = jK at *
  generalize jump T Z 1 = j1 at *
  generalize fyield T Z 1 = w at *
  have zK := eq0_iff n1
  have z1 := eq0_iff n2
  have zw := eq0_iff n4
  unfold flatL1 restL1
  simp only [zK, z1, zw, ite_not]
  clear zK z1 zw
  by_cases hK : eK < E ∧ 0 < eK <;> by_cases h1 : e1 < E ∧ 0 < e1 <;>
    simp only [hK, h1, if_true, if_false, and_self]
  all_goals c09_pure

theorem shellFactor_L2 (E : ℝ) (o12 : 0 < edge T Z 1 ∧ 0 < edge T Z 2 → edge T Z 2 ≤ edge T Z 1)
    (y2 : 0 < fyield T Z 2 → 0 < edge T Z 2) :
    shellFactor T Z 2 E =
      flatL2 E (edge T Z 0) (edge T Z 1) (edge T Z 2) (jump T Z 0) (jump T Z 1) (jump T Z 2) (ck T Z 1) (fyield T Z 2) := by
  simp only [shellFactor, vacancy, tau, above_0, above_1, above_2, screening, excited_iff, avail_jump, avail_fyield, avail_ck,
    Hdr.K_SHELL, Hdr.L1_SHELL, Hdr.L2_SHELL, Hdr.L3_SHELL, Hdr.FL12_TRANS, decide_eq_true_eq, decide_eq_false_iff_not, if_true,
    lit0, lit1, Int.reduceEq, if_false]
  have n1 := jump_nonneg T Z 0
  have n2 := jump_nonneg T Z 1
  have n3 := jump_nonneg T Z 2
  have n4 := fyield_nonneg T Z 2
  have n5 := ck_nonneg T Z 1
  generalize edge T Z 0 = eK at *
  generalize edge T Z 1 = e1 at *
  generalize edge T Z 2 = e2 at *
  generalize jump T Z 0 = jK at *
  generalize jump T Z 1 = j1 at *
  generalize jump T Z 2 = j2 at *
  generalize ck T Z 1 = f12 at *
  generalize fyield T Z 2 = w at *
  have zK := eq0_iff n1
  have z1 := eq0_iff n2
  have z2 := eq0_iff n3
  have zw := eq0_iff n4
  have zf := eq0_iff n5
  unfold flatL2 restL2 tailL2
  simp only [zK, z1, z2, zw, zf, ite_not, ← not_and_or]
  clear zK z1 z2 zw zf
  by_cases h2 : e2 < E ∧ 0 < e2
  · by_cases hK : eK < E ∧ 0 < eK <;> by_cases h1 : e1 < E ∧ 0 < e1 <;>
      simp only [hK, h1, h2, if_true, if_false, and_self]
    all_goals c09_pure
  · simp only [h2, if_false]
    by_cases h1 : e1 < E ∧ 0 < e1
    · have hw : ¬ 0 < w := fun hw => h2 ⟨lt_of_le_of_lt (o12 ⟨h1.2, y2 hw⟩) h1.1, y2 hw⟩
      simp only [h1, hw, if_true, if_false]
      split_ifs <;> rfl
    · simp only [h1, if_false]
      split_ifs <;> rfl

theorem shellFactor_L3 (E : ℝ) (o12 : 0 < edge T Z 1 ∧ 0 < edge T Z 2 → edge T Z 2 ≤ edge T Z 1)
    (o23 : 0 < edge T Z 2 ∧ 0 < edge T Z 3 → edge T Z 3 ≤ edge T Z 2)
    (o13 : 0 < edge T Z 1 ∧ 0 < edge T Z 3 → 0 < edge T Z 2)
    (y3 : 0 < fyield T Z 3 → 0 < edge T Z 3) :
    shellFactor T Z 3 E = flatL3 E (edge T Z 0) (edge T Z 1) (edge T Z 2) (edge T Z 3) (jump T Z 0) (jump T Z 1) (jump T Z 2)
      (jump T Z 3) (ck T Z 1) (ck T Z 2) (ck T Z 3) (ck T Z 4) (fyield T Z 3) := by
  simp only [shellFactor, vacancy, tau, above_0, above_1, above_2, above_3, screening, excited_iff, avail_jump, avail_fyield,
    avail_ck, Hdr.K_SHELL, Hdr.L1_SHELL, Hdr.L2_SHELL, Hdr.L3_SHELL, Hdr.FL12_TRANS, Hdr.FL13_TRANS, Hdr.FLP13_TRANS,
    Hdr.FL23_TRANS, decide_eq_true_eq, decide_eq_false_iff_not, if_true, lit0, lit1, Int.reduceEq, if_false]
  have n1 := jump_nonneg T Z 0
  have n2 := jump_nonneg T Z 1
  have n3 := jump_nonneg T Z 2
  have n3' := jump_nonneg T Z 3
  have n4 := fyield_nonneg T Z 3
  have n5 := ck_nonneg T Z 1
  have n6 := ck_nonneg T Z 2
  have n7 := ck_nonneg T Z 3
  have n8 := ck_nonneg T Z 4
  generalize edge T Z 0 = eK at *
  generalize edge T Z 1 = e1 at *
  generalize edge T Z 2 = e2 at *
  generalize edge T Z 3 = e3 at *
  generalize jump T Z 0 = jK at *
  generalize jump T Z 1 = j1 at *
  generalize jump T Z 2 = j2 at *
  generalize jump T Z 3 = j3 at *
  generalize ck T Z 1 = f12 at *
  generalize ck T Z 2 = f13 at *
  generalize ck T Z 3 = fp13 at *
  generalize ck T Z 4 = f23 at *
  generalize fyield T Z 3 = w at *
  have zK := eq0_iff n1
  have z1 := eq0_iff n2
  have z2 := eq0_iff n3
  have z3 := eq0_iff n3'
  have zw := eq0_iff n4
  have zf12 := eq0_iff n5
  have zf23 := eq0_iff n8
  have zs := sum0_iff n6 n7
  unfold flatL3 restL3 tailL3
  simp only [zK, z1, z2, z3, zw, zf12, zf23, zs, ite_not, or_assoc, ← not_and_or]
  clear zK z1 z2 z3 zw zf12 zf23 zs
  by_cases h3 : e3 < E ∧ 0 < e3
  · have h12 : e1 < E ∧ 0 < e1 → e2 < E ∧ 0 < e2 := fun h1 =>
      ⟨lt_of_le_of_lt (o12 ⟨h1.2, o13 ⟨h1.2, h3.2⟩⟩) h1.1, o13 ⟨h1.2, h3.2⟩⟩
    by_cases h1 : e1 < E ∧ 0 < e1
    · have h2 := h12 h1
      by_cases hK : eK < E ∧ 0 < eK <;> simp only [hK, h1, h2, h3, if_true, if_false, and_self]
      · c09_resid jK j1 j2 j3
      · c09_resid jK j1 j2 j3
    · by_cases h2 : e2 < E ∧ 0 < e2
      · by_cases hK : eK < E ∧ 0 < eK <;> simp only [hK, h1, h2, h3, if_true, if_false, and_self]
        · c09_resid jK j1 j2 j3
        · c09_resid jK j1 j2 j3
      · by_cases hK : eK < E ∧ 0 < eK <;> simp only [hK, h1, h2, h3, if_true, if_false, and_self]
        · c09_resid jK j1 j2 j3
        · c09_resid jK j1 j2 j3
  · simp only [h3, if_false]
    by_cases h1 : e1 < E ∧ 0 < e1
    · have hw : ¬ 0 < w := fun hw => by
        have p3 := y3 hw
        have p2 := o13 ⟨h1.2, p3⟩
        exact h3 ⟨lt_of_le_of_lt ((o23 ⟨p2, p3⟩).trans (o12 ⟨h1.2, p2⟩)) h1.1, p3⟩
      simp only [h1, hw, if_true, if_false]
      split_ifs <;> rfl
    · by_cases h2 : e2 < E ∧ 0 < e2
      · have hw : ¬ 0 < w := fun hw => h3 ⟨lt_of_le_of_lt (o23 ⟨h2.2, y3 hw⟩) h2.1, y3 hw⟩
        simp only [h1, h2, hw, if_true, if_false]
        split_ifs <;> rfl
      · simp only [h1, h2, if_false]
        split_ifs <;> rfl

section code
variable (E : ℝ) (error : Slot) (he : error.isFull = false)
include he

theorem jump_from_L1_flat :
    Meets (Gen.Jump_from_L1 T Z E error) error
      (flatL1 E (edge T Z 0) (edge T Z 1) (jump T Z 0) (jump T Z 1) (fyield T Z 1)) := by
  unfold Gen.Jump_from_L1 flatL1 restL1 nonzero
  simp only [edge_null, jump_null, fyield_null, ck_null, bind_ok, ddiv, deq_real, lit0, lit1, setErr_notFull he]
  c09_crunch

theorem jump_from_L2_flat :
    Meets (Gen.Jump_from_L2 T Z E error) error
      (flatL2 E (edge T Z 0) (edge T Z 1) (edge T Z 2) (jump T Z 0) (jump T Z 1) (jump T Z 2) (ck T Z 1) (fyield T Z 2)) := by
  unfold Gen.Jump_from_L2 flatL2 restL2 tailL2 nonzero
  simp only [edge_null, jump_null, fyield_null, ck_null, bind_ok, ddiv, deq_real, lit0, lit1, setErr_notFull he]
  c09_crunch

/-- the statement of `jump_from_L3_flat`; proved per position of `E` among the edges -/
def L3Flat : Prop :=
  Meets (Gen.Jump_from_L3 T Z E error) error
    (flatL3 E (edge T Z 0) (edge T Z 1) (edge T Z 2) (edge T Z 3) (jump T Z 0) (jump T Z 1) (jump T Z 2)
      (jump T Z 3) (ck T Z 1) (ck T Z 2) (ck T Z 3) (ck T Z 4) (fyield T Z 3))

set_option hygiene false in
/-- one position case of `L3Flat`: fix the position guards, split the rest -/
macro "c09_L3case" "[" hs:Lean.Parser.Tactic.simpLemma,* "]" : tactic =>
  `(tactic| (
    unfold L3Flat Gen.Jump_from_L3 flatL3 restL3 tailL3 nonzero
    simp only [edge_null, jump_null, fyield_null, ck_null, bind_ok, ddiv, deq_real, lit0, lit1, setErr_notFull he]
    simp only [$hs,*]
    simp only [and_self, if_true, if_false]
    c09_crunch))

theorem L3Flat_K1 (hK : edge T Z 0 < E ∧ 0 < edge T Z 0) (h1 : edge T Z 1 < E ∧ 0 < edge T Z 1) :
    L3Flat T Z E error := by c09_L3case [hK, h1]
theorem L3Flat_K2 (hK : edge T Z 0 < E ∧ 0 < edge T Z 0) (h1 : ¬ (edge T Z 1 < E ∧ 0 < edge T Z 1))
    (h2 : edge T Z 2 < E ∧ 0 < edge T Z 2) : L3Flat T Z E error := by c09_L3case [hK, h1, h2]
theorem L3Flat_K3 (hK : edge T Z 0 < E ∧ 0 < edge T Z 0) (h1 : ¬ (edge T Z 1 < E ∧ 0 < edge T Z 1))
    (h2 : ¬ (edge T Z 2 < E ∧ 0 < edge T Z 2)) : L3Flat T Z E error := by c09_L3case [hK, h1, h2]
theorem L3Flat_1 (hK : ¬ (edge T Z 0 < E ∧ 0 < edge T Z 0)) (h1 : edge T Z 1 < E ∧ 0 < edge T Z 1) :
    L3Flat T Z E error := by c09_L3case [hK, h1]
theorem L3Flat_2 (hK : ¬ (edge T Z 0 < E ∧ 0 < edge T Z 0)) (h1 : ¬ (edge T Z 1 < E ∧ 0 < edge T Z 1))
    (h2 : edge T Z 2 < E ∧ 0 < edge T Z 2) : L3Flat T Z E error := by c09_L3case [hK, h1, h2]
theorem L3Flat_3 (hK : ¬ (edge T Z 0 < E ∧ 0 < edge T Z 0)) (h1 : ¬ (edge T Z 1 < E ∧ 0 < edge T Z 1))
    (h2 : ¬ (edge T Z 2 < E ∧ 0 < edge T Z 2)) : L3Flat T Z E error := by c09_L3case [hK, h1, h2]

theorem jump_from_L3_flat :
    Meets (Gen.Jump_from_L3 T Z E error) error
      (flatL3 E (edge T Z 0) (edge T Z 1) (edge T Z 2) (edge T Z 3) (jump T Z 0) (jump T Z 1) (jump T Z 2)
      (jump T Z 3) (ck T Z 1) (ck T Z 2) (ck T Z 3) (ck T Z 4) (fyield T Z 3)) := by
  change L3Flat T Z E error
  by_cases hK : edge T Z 0 < E ∧ 0 < edge T Z 0 <;> by_cases h1 : edge T Z 1 < E ∧ 0 < edge T Z 1
  · exact L3Flat_K1 T Z E error he hK h1
  · by_cases h2 : edge T Z 2 < E ∧ 0 < edge T Z 2
    · exact L3Flat_K2 T Z E error he hK h1 h2
    · exact L3Flat_K3 T Z E error he hK h1 h2
  · exact L3Flat_1 T Z E error he hK h1
  · by_cases h2 : edge T Z 2 < E ∧ 0 < edge T Z 2
    · exact L3Flat_2 T Z E error he hK h1 h2
    · exact L3Flat_3 T Z E error he hK h1 h2

end code


/-! ## expectations are never `any`; values are non-zero -/

theorem shellFactor_ne_any (T : Tables ℝ) (Z s : Int) (E : ℝ) : shellFactor T Z s E ≠ .any := by
  unfold shellFactor nonzero
  split_ifs <;> (try split) <;> (try split_ifs) <;> simp

theorem radRate_ne_any (T : Tables ℝ) (Z line : Int) : Spec.RadRate T Z line ≠ .any := by
  simp only [Spec.RadRate, singleRate]
  split_ifs <;> simp

theorem radRate_value_ne_zero (T : Tables ℝ) (Z line : Int) {v : ℝ} (h : Spec.RadRate T Z line = .value v) : v ≠ 0 := by
  simp only [Spec.RadRate, singleRate, deq_real, lit0, lit1] at h
  split_ifs at h with h1 h2 h3 h4 h5 h6 h7 h8 h9 <;> injection h with h <;> rw [← h]
  · exact h3
  · intro h0; apply h5; right; linarith
  · exact h7
  · exact h9.2.2.ne'

theorem rad_null (T : Tables ℝ) (Z line : Int) :
    Gen.RadRate T Z line Slot.null = Except.ok (valOr0 (Spec.RadRate T Z line), Slot.null) :=
  C10.meets_null (C10.rad_rate_spec T Z Slot.null rfl line) (radRate_ne_any T Z line)

/-- a share that is reported is not zero -/
theorem shellFactor_value_ne_zero (T : Tables ℝ) (Z s : Int) (E : ℝ) {f : ℝ} (h : shellFactor T Z s E = .value f) : f ≠ 0 := by
  unfold shellFactor at h
  split_ifs at h
  · split at h
    · unfold nonzero at h
      simp only [deq_real, lit0] at h
      split_ifs at h with h0
      injection h with h
      rw [← h]; exact h0
    · cases h
  · split at h <;> cases h

/-! ## the line → shell map on the ranges of cs_line.c -/

theorem lineShell_K (line : Int) (h : line ≥ -29 ∧ line ≤ 1) : lineShell line = some 0 := by
  have : line = 0 ∨ line = 1 ∨ (-29 ≤ line ∧ line ≤ -1) := by omega
  simp [lineShell, Hdr.KA_LINE, Hdr.KB_LINE, Hdr.KP5_LINE, Hdr.KL1_LINE, Hdr.K_SHELL, this]
theorem lineShell_L1 (line : Int) (h : line ≥ -58 ∧ line ≤ -30) : lineShell line = some 1 := by
  have a : ¬ (line = 0 ∨ line = 1 ∨ (-29 ≤ line ∧ line ≤ -1)) := by omega
  have b : -58 ≤ line ∧ line ≤ -30 := by omega
  simp [lineShell, Hdr.KA_LINE, Hdr.KB_LINE, Hdr.KP5_LINE, Hdr.KL1_LINE, Hdr.L1P5_LINE, Hdr.L1L2_LINE, Hdr.L1_SHELL, a, b]
theorem lineShell_L2 (line : Int) (h : line ≥ -85 ∧ line ≤ -59) : lineShell line = some 2 := by
  have a : ¬ (line = 0 ∨ line = 1 ∨ (-29 ≤ line ∧ line ≤ -1)) := by omega
  have b : ¬ (-58 ≤ line ∧ line ≤ -30) := by omega
  have c : -85 ≤ line ∧ line ≤ -59 := by omega
  simp [lineShell, Hdr.KA_LINE, Hdr.KB_LINE, Hdr.KP5_LINE, Hdr.KL1_LINE, Hdr.L1P5_LINE, Hdr.L1L2_LINE, Hdr.L2Q1_LINE,
    Hdr.L2L3_LINE, Hdr.L2_SHELL, a, b, c]
theorem lineShell_L3 (line : Int) (h : (line ≥ -113 ∧ line ≤ -86) ∨ line = 2) : lineShell line = some 3 := by
  have a : ¬ (line = 0 ∨ line = 1 ∨ (-29 ≤ line ∧ line ≤ -1)) := by omega
  have b : ¬ (-58 ≤ line ∧ line ≤ -30) := by omega
  have c : ¬ (-85 ≤ line ∧ line ≤ -59) := by omega
  have d : (-113 ≤ line ∧ line ≤ -86) ∨ line = 2 := by omega
  simp [lineShell, Hdr.KA_LINE, Hdr.KB_LINE, Hdr.KP5_LINE, Hdr.KL1_LINE, Hdr.L1P5_LINE, Hdr.L1L2_LINE, Hdr.L2Q1_LINE,
    Hdr.L2L3_LINE, Hdr.L3Q1_LINE, Hdr.L3M1_LINE, Hdr.LA_LINE, Hdr.L3_SHELL, a, b, c, d]
theorem lineShell_none (line : Int) (h : line < -113 ∨ line > 2) : lineShell line = none := by
  have a : ¬ (line = 0 ∨ line = 1 ∨ (-29 ≤ line ∧ line ≤ -1)) := by omega
  have b : ¬ (-58 ≤ line ∧ line ≤ -30) := by omega
  have c : ¬ (-85 ≤ line ∧ line ≤ -59) := by omega
  have d : ¬ ((-113 ≤ line ∧ line ≤ -86) ∨ line = 2) := by omega
  simp [lineShell, Hdr.KA_LINE, Hdr.KB_LINE, Hdr.KP5_LINE, Hdr.KL1_LINE, Hdr.L1P5_LINE, Hdr.L1L2_LINE, Hdr.L2Q1_LINE,
    Hdr.L2L3_LINE, Hdr.L3Q1_LINE, Hdr.L3M1_LINE, Hdr.LA_LINE, Hdr.L3_SHELL, a, b, c, d]


section values
variable (E : ℝ)

theorem fluorShell_ne_any (shell : Int) : Spec.CS_FluorShell T Z shell E ≠ .any := by
  unfold Spec.CS_FluorShell
  split_ifs
  · split
    · split <;> simp
    · simp
  · simp

/-- a value of the shell cross section is photo × share, hence non-zero -/
theorem fluorShell_value_ne_zero (shell : Int) {v : ℝ}
    (h : Spec.CS_FluorShell T Z shell E = .value v) : v ≠ 0 := by
  unfold Spec.CS_FluorShell at h
  split_ifs at h
  split at h
  · rename_i f hf
    have fne := shellFactor_value_ne_zero T Z shell E hf
    split at h
    · rename_i c hc
      have cpos := (interp_exp_pos (by unfold Spec.CS_Photo at hc; exact hc)).ne'
      injection h with h
      rw [← h]; exact mul_ne_zero cpos fne
    · cases h
  · cases h

/-- the L-beta member sum, grouped by shell as the code forms it -/
theorem lb_sum_eq :
    lbMembers.foldl (fun acc m => acc + memberShare T Z E m) (0.0 : ℝ) =
      valOr0 (shellFactor T Z 2 E) * (valOr0 (Spec.RadRate T Z (-63)) + valOr0 (Spec.RadRate T Z (-62))) +
      valOr0 (shellFactor T Z 3 E) * (valOr0 (Spec.RadRate T Z (-95)) + valOr0 (Spec.RadRate T Z (-101)) +
        valOr0 (Spec.RadRate T Z (-103)) + valOr0 (Spec.RadRate T Z (-102)) + valOr0 (Spec.RadRate T Z (-91)) +
        valOr0 (Spec.RadRate T Z (-98)) + valOr0 (Spec.RadRate T Z (-96)) + valOr0 (Spec.RadRate T Z (-97)) +
        valOr0 (Spec.RadRate T Z (-94))) +
      valOr0 (shellFactor T Z 1 E) * (valOr0 (Spec.RadRate T Z (-34)) + valOr0 (Spec.RadRate T Z (-33)) +
        valOr0 (Spec.RadRate T Z (-36)) + valOr0 (Spec.RadRate T Z (-35))) := by
  have l1 : ∀ m : Int, m ≥ -58 ∧ m ≤ -30 → lineShell m = some 1 := lineShell_L1
  have l2 : ∀ m : Int, m ≥ -85 ∧ m ≤ -59 → lineShell m = some 2 := lineShell_L2
  have l3 : ∀ m : Int, (m ≥ -113 ∧ m ≤ -86) ∨ m = 2 → lineShell m = some 3 := lineShell_L3
  simp only [lbMembers, List.foldl, memberShare, Hdr.L2M4_LINE, Hdr.L2M3_LINE, Hdr.L3N5_LINE, Hdr.L3O4_LINE, Hdr.L3O5_LINE,
    Hdr.L3O45_LINE, Hdr.L3N1_LINE, Hdr.L3O1_LINE, Hdr.L3N6_LINE, Hdr.L3N7_LINE, Hdr.L3N4_LINE, Hdr.L1M3_LINE, Hdr.L1M2_LINE,
    Hdr.L1M5_LINE, Hdr.L1M4_LINE, lit0]
  rw [l2 (-63) (by omega), l2 (-62) (by omega), l3 (-95) (by omega), l3 (-101) (by omega), l3 (-103) (by omega),
    l3 (-102) (by omega), l3 (-91) (by omega), l3 (-98) (by omega), l3 (-96) (by omega), l3 (-97) (by omega),
    l3 (-94) (by omega), l1 (-34) (by omega), l1 (-33) (by omega), l1 (-36) (by omega), l1 (-35) (by omega)]
  ring


theorem fluorLine_ne_any (line : Int) : Spec.CS_FluorLine T Z line E ≠ .any := by
  simp only [Spec.CS_FluorLine]
  split_ifs
  · simp
  · split <;> simp
  · split
    · unfold timesRate; split <;> simp
    · simp

theorem fluorLine_value_ne_zero (line : Int) {v : ℝ}
    (h : Spec.CS_FluorLine T Z line E = .value v) : v ≠ 0 := by
  simp only [Spec.CS_FluorLine, deq_real, lit0] at h
  split_ifs at h with h1 h2
  · split at h
    · rename_i c hc
      have cpos := (interp_exp_pos (by unfold Spec.CS_Photo at hc; exact hc)).ne'
      injection h with h
      rw [← h]; exact mul_ne_zero h2 cpos
    · cases h
  · split at h
    · rename_i s hs
      unfold timesRate at h
      split at h
      · rename_i rr cs hr hc
        injection h with h
        rw [← h]
        exact mul_ne_zero (radRate_value_ne_zero T Z line hr) (fluorShell_value_ne_zero T Z E s hc)
      · cases h
    · cases h

end values

set_option hygiene false in
/-- the tail of a single-line branch: the rate, then the value of the line's shell `hS` -/
macro "c09_line" hS:term "," hpos:term "," hna:term : tactic =>
  `(tactic| (
    have mR := C10.rad_rate_spec T Z error he line
    simp only [deq_real, lit0, lit1]
    rcases Meets.cases mR with ⟨rr, hr, rR⟩ | ⟨hr, e, h1, h2, rR⟩ | hany
    · have rne := radRate_value_ne_zero T Z line hr
      simp only [rR, hr, bind_ok, rne, if_false]
      rcases Meets.cases $hS with ⟨v, hv, rS⟩ | ⟨hv, e, h1, h2, rS⟩ | hany
      · have vne := $hpos v hv
        simp [rS, hv, vne, Meets, Returns, timesRate]
      · simp only [rS, hv, bind_ok]
        simp [Meets, timesRate]
        exact fails_of_eq h1 h2 rfl
      · exact absurd hany $hna
    · simp only [rR, hr, bind_ok]
      simp [Meets, timesRate]
      exact fails_of_eq h1 h2 rfl
    · exact absurd hany (radRate_ne_any T Z line)))


end C09

/-! a default table, to build witnesses by record update (robust against new table fields) -/
deriving instance Inhabited for Vec
deriving instance Inhabited for Tables

end Xrl
