import Xrl.Core.Real
import Xrl.Spec.Basic
/-!
# Proof automation shared by the per-function families
-/
namespace Xrl
open Spec

theorem fails_mk {error : Slot} {c : ErrCode} {m : String} (hm : m ≠ "") (hc : c ≤ 5) :
    Fails (Except.ok ((0 : ℝ), error.withErr ⟨c, m⟩) : M (ℝ × Slot)) error := by
  refine ⟨⟨c, m⟩, hm, hc, ?_⟩
  norm_num

theorem fails_mk' {error : Slot} {c : ErrCode} {m : String} (hm : m ≠ "") (hc : c ≤ 5) :
    Fails (Except.ok ((0.0 : ℝ), error.withErr ⟨c, m⟩) : M (ℝ × Slot)) error :=
  ⟨⟨c, m⟩, hm, hc, rfl⟩

/-- close a leaf produced by splitting the guards of a translated function -/
macro "xrl_close" : tactic =>
  `(tactic| first
    | omega
    | (apply fails_mk <;> decide)
    | (apply fails_mk' <;> decide)
    | (refine ⟨_, ‹_ ≠ ""›, ‹_ ≤ 5›, ?_⟩ <;> (first | rfl | norm_num))
    | rfl
    | linarith
    | grind
    | (simp_all; done)
    | (simp_all; first | linarith | omega | (apply fails_mk <;> decide) | (apply fails_mk' <;> decide)))

/-- unfold the checked reads, normalise literals, then alternate between closing leaves and splitting guards -/
macro "xrl_guards" : tactic =>
  `(tactic| (
    simp only [rd1, rd2, rd3, rdv, chkI, inI32, INT_MIN, INT_MAX]
    norm_num at *
    repeat' (first
      | (split_ifs <;> (try simp only [bind_ok, bind_error, pure_eq_ok, throw_eq_error]))
      | xrl_close)))

end Xrl
