import Xrl.Core.Basic
import Xrl.Core.Dump
import Xrl.Core.Proto
import Xrl.Gen.Load
import Xrl.Gen.Dispatch
import Xrl.Spec.Dispatch
open Xrl

partial def loop (T : Tables Float) (h : IO.FS.Stream) (out : IO.FS.Stream) : IO Unit := do
  let line ← h.getLine
  if line.isEmpty then return ()
  let t := (line.trimAscii.toString.splitOn " ").toArray
  if t.size = 0 then loop T h out else
  let fn := t[0]!
  let args := t.extract 1 t.size
  let r := if fn.startsWith "spec." then dispatchSpec T fn args else dispatchGen T fn args
  match r with
  | some s => out.putStrLn s
  | none => out.putStrLn "bad-op"
  loop T h out

def main (argv : List String) : IO UInt32 := do
  match argv with
  | [bin, idx] =>
    let d ← readDump bin idx
    let T := Tables.ofDump d
    let out ← IO.getStdout
    loop T (← IO.getStdin) out
    out.flush
    return 0
  | _ => IO.eprintln "usage: xrl-model dump.bin dump.idx"; return 2
