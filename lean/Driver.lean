import Xrl.Core.Basic
import Xrl.Core.Dump
import Xrl.Core.Proto
import Xrl.Gen.Load
import Xrl.Gen.Dispatch
import Xrl.Spec.Dispatch
open Xrl

def vecOp (d : Dump) (a : Array String) : Option String :=
  if a.size = 2 then
    let v := (d.vecs a[0]!).getD (a[1]!.toNat!) FloatArray.empty
    some ("vec " ++ " ".intercalate ((List.range v.size).map (fun i => fmtF (v.get! i))))
  else none

def cellOp (d : Dump) (a : Array String) : Option String :=
  if a.size = 2 then
    let t := d.flts a[0]!
    some ("cell " ++ fmtF (t.get! (a[1]!.toNat!)))
  else none

partial def loop (D : Dump) (T : Tables Float) (h : IO.FS.Stream) (out : IO.FS.Stream) : IO Unit := do
  let line ← h.getLine
  if line.isEmpty then return ()
  let t := (line.trimAscii.toString.splitOn " ").toArray
  if t.size = 0 then loop D T h out else
  let fn := t[0]!
  let args := t.extract 1 t.size
  let r := if fn.startsWith "spec." then dispatchSpec T fn args else if fn == "vec" then vecOp D args else if fn == "cell" then cellOp D args else dispatchGen T fn args
  match r with
  | some s => out.putStrLn s
  | none => out.putStrLn "bad-op"
  loop D T h out

def main (argv : List String) : IO UInt32 := do
  match argv with
  | [bin, idx] =>
    let d ← readDump bin idx
    let T := Tables.ofDump d
    let out ← IO.getStdout
    loop d T (← IO.getStdin) out
    out.flush
    return 0
  | _ => IO.eprintln "usage: xrl-model dump.bin dump.idx"; return 2
