import Xrl.Core.Basic
import Xrl.Hand.Splint
import Xrl.Gen.Fns
