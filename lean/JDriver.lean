import Xrl.Core.Dump
import Xrl.Gen.Load
import Xrl.JCore.Proto
import Xrl.JGen.Dispatch
open Xrl
/-! Driver of the Java model (tie of tools/j2lean.py): `lake env lean --run JDriver.lean dump.bin dump.idx` answers
protocol lines `<method> <arg>* E` with the Float reading of `Xrl.JGen.<method> (JTables.ofC T)`, `T` the dumped C tables. -/

partial def jloop (JT : JTables Float) (h : IO.FS.Stream) (out : IO.FS.Stream) : IO Unit := do
  let line ← h.getLine
  if line.isEmpty then return ()
  let t := (line.trimAscii.toString.splitOn " ").toArray
  if t.size = 0 then jloop JT h out else
  match dispatchJGen JT t[0]! (t.extract 1 t.size) with
  | some s => out.putStrLn s
  | none => out.putStrLn "bad-op"
  jloop JT h out

def main (argv : List String) : IO UInt32 := do
  match argv with
  | [bin, idx] =>
    let d ← readDump bin idx
    let JT := JTables.ofC (Tables.ofDump d)
    let out ← IO.getStdout
    out.putStrLn "ready"
    jloop JT (← IO.getStdin) out
    out.flush
    return 0
  | _ => IO.eprintln "usage: JDriver dump.bin dump.idx"; return 2
