import Xrl.Core.Dump
import Xrl.Gen.Load
import Xrl.JCore.Proto
import Xrl.JCore.HypCheck
import Xrl.JGen.Dispatch
open Xrl
/-! Driver of the Java model (tie of tools/j2lean.py): `lake env lean --run JDriver.lean dump.bin dump.idx` answers
protocol lines `<method> <arg>* E` with the Float reading of `Xrl.JGen.<method> (JTables.ofC T)`, `T` the dumped C tables.
`hyp.<check> Z E` runs a data hypothesis of the C19 theorems (`Xrl/JCore/HypCheck.lean`) on `T` for element `Z`: `hyp 1` / `hyp 0`. -/

def hypOp (T : Tables Float) (op : String) (a : Array String) : Option String :=
  if a.size < 1 then none else
  let Z := pI a[0]!
  let r (b : Bool) : Option String := some (if b then "hyp 1" else "hyp 0")
  match op with
  | "hyp.counts" => r (JHyp.counts T Z)
  | "hyp.kall" => r (JHyp.kall T Z)
  | "hyp.lgaps" => r (JHyp.lgaps T Z)
  | "hyp.uoccup" => r (JHyp.uoccup T Z)
  | "hyp.aw" => r (JHyp.aw T Z)
  | _ => none

partial def jloop (T : Tables Float) (JT : JTables Float) (h : IO.FS.Stream) (out : IO.FS.Stream) : IO Unit := do
  let line ← h.getLine
  if line.isEmpty then return ()
  let t := (line.trimAscii.toString.splitOn " ").toArray
  if t.size = 0 then jloop T JT h out else
  match (if t[0]!.startsWith "hyp." then hypOp T t[0]! (t.extract 1 t.size) else dispatchJGen JT t[0]! (t.extract 1 t.size)) with
  | some s => out.putStrLn s
  | none => out.putStrLn "bad-op"
  jloop T JT h out

def main (argv : List String) : IO UInt32 := do
  match argv with
  | [bin, idx] =>
    let d ← readDump bin idx
    let T : Tables Float := Tables.ofDump d
    let JT := JTables.ofC T
    let out ← IO.getStdout
    out.putStrLn "ready"
    jloop T JT (← IO.getStdin) out
    out.flush
    return 0
  | _ => IO.eprintln "usage: JDriver dump.bin dump.idx"; return 2
