#!/usr/bin/env python3
"""c15_copy.py <bdir with config.h> <out Lean file> [--json <file>]

Transliterates, from the clang-14 JSON AST of src/xraylib-nist-compounds.c and src/xraylib-radionuclides.c of the repository's
current sources (VERIF_REPO, default /repo), the statements with which the four catalogue lookup functions build the struct they
return, and the statements of the two Free functions, into the `Step` / `FreeStep` lists of lean-l4/XrlL4/CopyModel.lean:

    key = malloc(sizeof(struct S))                         allocSelf S
    key->f = xrl_strdup(SRC.g)                             strdup f g
    key->f = SRC.g                                         assign f g          (a pointer member assigned = shared with the catalogue)
    key->f = malloc(sizeof(T) * SRC.c)                     malloc f T c
    memcpy(key->f, SRC.g, sizeof(T) * SRC.c)               memcpy f g T c
    anything else on the success path                      other "<text>"      (the classification then fails)

SRC is the static entry: `<list>[<index parameter>]` in the ByIndex functions, `rv->` (the result of lfind) in the ByName functions,
whose success path is the then-branch of `if (rv != NULL)`; what they do before (temporary key for lfind) is emitted as text
(`…Prelude`).  Guards (`if (…) { …; return NULL; }`) are skipped: they are failure paths.  Also emitted: the member lists of the
two structs with their types.  Exit 0 ok, 3 = a shape the transliteration does not understand."""
import os, sys, json
HERE = os.path.dirname(os.path.abspath(__file__))
sys.path.insert(0, HERE)
from c14_facts import ast_of, strip, E, Unsupported, lean_str

SPEC = [('nist', 'src/xraylib-nist-compounds.c', 'compoundDataNIST', 'compoundDataNISTList', 'GetCompoundDataNISTByIndex', 'GetCompoundDataNISTByName', 'FreeCompoundDataNIST'),
        ('nuclide', 'src/xraylib-radionuclides.c', 'radioNuclideData', 'nuclideDataList', 'GetRadioNuclideDataByIndex', 'GetRadioNuclideDataByName', 'FreeRadioNuclideData')]


def find(ast, kind, name):
    out = []
    def w(n):
        if n.get('kind') == kind and n.get('name') == name: out.append(n)
        for c in n.get('inner', []) or []: w(c)
    w(ast)
    return out


def struct_fields(ast, sname):
    rs = [r for r in find(ast, 'RecordDecl', sname) if r.get('completeDefinition')]
    if not rs: raise Unsupported('struct %s not found' % sname)
    out = []
    for f in rs[0]['inner']:
        if f.get('kind') != 'FieldDecl': continue
        t = f['type']['qualType']
        ty = {'char *': 'str', 'int': 'int', 'double': 'dbl', 'int *': 'arr int', 'double *': 'arr double'}.get(t)
        if ty is None: raise Unsupported('member %s of struct %s has type %s' % (f['name'], sname, t))
        out.append((f['name'], ty))
    return out


def body_of(ast, fname):
    for n in ast['inner']:
        if n.get('kind') == 'FunctionDecl' and n.get('name') == fname:
            b = [c for c in n.get('inner', []) if c.get('kind') == 'CompoundStmt']
            if b: return n, b[0]
    raise Unsupported('function %s not found' % fname)


def is_guard(n):
    """if (...) { ...; return ...; } without else"""
    if n.get('kind') != 'IfStmt' or len(n['inner']) != 2: return False
    t = n['inner'][1]
    last = t['inner'][-1] if t.get('kind') == 'CompoundStmt' and t.get('inner') else t
    return last.get('kind') == 'ReturnStmt'


class Tr:
    def __init__(self, sname, listvar, key, src_pred):
        self.sname, self.listvar, self.key, self.src = sname, listvar, key, src_pred

    def member_of_key(self, n):
        n = strip(n)
        if n.get('kind') == 'MemberExpr' and n.get('isArrow') and E(n['inner'][0]) == self.key: return n['name']
        return None

    def member_of_src(self, n):
        n = strip(n)
        if n.get('kind') == 'MemberExpr' and self.src(n['inner'][0], n.get('isArrow')): return n['name']
        return None

    def sized(self, n):
        """sizeof(T) * SRC.c  ->  (T, c)"""
        n = strip(n)
        if n.get('kind') == 'BinaryOperator' and n['opcode'] == '*':
            a, b = strip(n['inner'][0]), strip(n['inner'][1])
            if a.get('kind') == 'UnaryExprOrTypeTraitExpr' and a.get('name') == 'sizeof' and 'argType' in a:
                c = self.member_of_src(b)
                if c is not None: return a['argType']['qualType'], c
        return None

    def step(self, n):
        m = strip(n)
        if m.get('kind') == 'BinaryOperator' and m['opcode'] == '=':
            lhs, rhs = m['inner'][0], strip(m['inner'][1])
            if E(lhs) == self.key and rhs.get('kind') == 'CallExpr' and E(rhs['inner'][0]) == 'malloc':
                a = strip(rhs['inner'][1])
                if a.get('kind') == 'UnaryExprOrTypeTraitExpr' and a.get('argType', {}).get('qualType') == 'struct ' + self.sname: return 'allocSelf %s' % lean_str(self.sname)
            f = self.member_of_key(lhs)
            if f is not None:
                g = self.member_of_src(rhs)
                if g is not None: return 'assign %s %s' % (lean_str(f), lean_str(g))
                if rhs.get('kind') == 'CallExpr':
                    callee = E(rhs['inner'][0]); args = rhs['inner'][1:]
                    if callee == 'xrl_strdup' and len(args) == 1:
                        g = self.member_of_src(args[0])
                        if g is not None: return 'strdup %s %s' % (lean_str(f), lean_str(g))
                    if callee == 'malloc' and len(args) == 1:
                        s = self.sized(args[0])
                        if s: return 'malloc %s %s %s' % (lean_str(f), lean_str(s[0]), lean_str(s[1]))
        if m.get('kind') == 'CallExpr' and E(m['inner'][0]) == 'memcpy' and len(m['inner']) == 4:
            f = self.member_of_key(m['inner'][1]); g = self.member_of_src(m['inner'][2]); s = self.sized(m['inner'][3])
            if f is not None and g is not None and s: return 'memcpy %s %s %s %s' % (lean_str(f), lean_str(g), lean_str(s[0]), lean_str(s[1]))
        return 'other %s' % lean_str(text_of(n))


def text_of(n):
    try:
        m = strip(n)
        if m.get('kind') == 'BinaryOperator' and m['opcode'] == '=': return '%s = %s' % (E(m['inner'][0]), E(m['inner'][1]))
        if m.get('kind') == 'DeclStmt': return 'decl ' + ', '.join(v.get('name', '?') for v in m['inner'])
        if m.get('kind') == 'IfStmt': return 'if ' + E(m['inner'][0])
        if m.get('kind') == 'ReturnStmt': return 'return ' + (E(m['inner'][0]) if m.get('inner') else '')
        return E(m)
    except Unsupported as e:
        return '<%s>' % e


def by_index(ast, sname, listvar, fname):
    fn, body = body_of(ast, fname)
    params = [c['name'] for c in fn['inner'] if c.get('kind') == 'ParmVarDecl']
    idx = params[0]
    def src(base, arrow):
        b = strip(base)
        return (not arrow) and b.get('kind') == 'ArraySubscriptExpr' and E(b['inner'][0]) == listvar and E(b['inner'][1]) == idx
    tr = Tr(sname, listvar, 'key', src)
    steps = []; guards = []
    for st in body['inner']:
        if st.get('kind') == 'DeclStmt' and all(not any('Expr' in c.get('kind', '') for c in v.get('inner', [])) for v in st['inner']): continue
        if is_guard(st): guards.append('if ' + E(st['inner'][0])); continue
        if st.get('kind') == 'ReturnStmt':
            if E(st['inner'][0]) != 'key': steps.append('other %s' % lean_str(text_of(st)))
            continue
        steps.append(tr.step(st))
    return steps, guards


def by_name(ast, sname, listvar, fname):
    fn, body = body_of(ast, fname)
    def src(base, arrow): return bool(arrow) and E(base) == 'rv'
    tr = Tr(sname, listvar, 'key', src)
    steps = []; prelude = []; seen_success = False
    for st in body['inner']:
        if st.get('kind') == 'DeclStmt':
            for v in st['inner']:
                init = [c for c in v.get('inner', []) if c.get('kind') in ('CallExpr', 'ImplicitCastExpr', 'CStyleCastExpr')]
                if v.get('name') == 'key' and init:
                    c = strip(init[0])
                    a = strip(c['inner'][1]) if c.get('kind') == 'CallExpr' and E(c['inner'][0]) == 'malloc' else {}
                    if a.get('argType', {}).get('qualType') == 'struct ' + sname: steps.append('allocSelf %s' % lean_str(sname))
                    else: steps.append('other %s' % lean_str('key = ' + E(init[0])))
                elif init: prelude.append('%s = %s' % (v['name'], E(init[0])))
            continue
        if is_guard(st): prelude.append('guard ' + E(st['inner'][0])); continue
        if st.get('kind') == 'IfStmt' and E(st['inner'][0]) == '(rv != NULL)' and len(st['inner']) == 3:
            if seen_success: raise Unsupported('%s: two success branches' % fname)
            seen_success = True
            for s2 in st['inner'][1].get('inner', []): steps.append(tr.step(s2))
            el = st['inner'][2]
            if 'key = NULL' not in ' ; '.join(text_of(x) for x in el.get('inner', [])): raise Unsupported('%s: the else branch of `rv != NULL` does not set key = NULL' % fname)
            continue
        if st.get('kind') == 'ReturnStmt':
            if E(st['inner'][0]) != 'key': steps.append('other %s' % lean_str(text_of(st)))
            continue
        if seen_success: steps.append('other %s' % lean_str(text_of(st)))
        else: prelude.append(text_of(st))
    if not seen_success: raise Unsupported('%s: no `if (rv != NULL)` success branch' % fname)
    return steps, prelude


def free_fn(ast, fname):
    fn, body = body_of(ast, fname)
    p = [c['name'] for c in fn['inner'] if c.get('kind') == 'ParmVarDecl'][0]
    out = []
    for st in body['inner']:
        m = strip(st)
        if is_guard(st) and E(st['inner'][0]) == '(%s == NULL)' % p: continue       # free(NULL)-style guard: nothing to release
        if m.get('kind') == 'CallExpr' and E(m['inner'][0]) == 'free' and len(m['inner']) == 2:
            a = strip(m['inner'][1])
            if a.get('kind') == 'MemberExpr' and a.get('isArrow') and E(a['inner'][0]) == p: out.append('field %s' % lean_str(a['name'])); continue
            if E(a) == p: out.append('self'); continue
        out.append('other %s' % lean_str(text_of(st)))
    return out


def extract(repo, bdir):
    res = {}
    for tag, rel, sname, listvar, fidx, fname, ffree in SPEC:
        ast = ast_of(repo, bdir, rel)
        fields = struct_fields(ast, sname)
        si, guards = by_index(ast, sname, listvar, fidx)
        sn, prelude = by_name(ast, sname, listvar, fname)
        res[tag] = dict(struct=sname, fields=fields, byIndex=si, byIndexGuards=guards, byName=sn, byNamePrelude=prelude, free=free_fn(ast, ffree),
                        functions=[fidx, fname, ffree], file=rel)
    return res


def emit(res, path):
    L = ['/- GENERATED by tools/c15_copy.py from the clang AST of src/xraylib-nist-compounds.c and src/xraylib-radionuclides.c of the working tree;',
         '   never edited, git-ignored. -/', 'import XrlL4.CopyModel', 'namespace XrlL4.Gen.C15Copy', 'open XrlL4.Copy', '']
    for tag, r in res.items():
        L.append('/-- members of struct %s (%s) -/' % (r['struct'], r['file']))
        L.append('def %sStruct : String := %s' % (tag, lean_str(r['struct'])))
        L.append('def %sFields : List (String × FieldTy) := [%s]' % (tag, ', '.join('(%s, .%s)' % (lean_str(f), ('arr ' + lean_str(t[4:])) if t.startswith('arr ') else t) for f, t in r['fields'])))
        for k, fn in (('byIndex', r['functions'][0]), ('byName', r['functions'][1])):
            L.append('/-- %s: the statements that build the returned struct -/' % fn)
            L.append('def %s%s : List Step := [' % (tag, k[0].upper() + k[1:]))
            L += ['  .%s%s' % (s, ',' if i + 1 < len(r[k]) else '') for i, s in enumerate(r[k])]
            L.append(']')
        L.append('def %sByIndexGuards : List String := [%s]' % (tag, ', '.join(lean_str(x) for x in r['byIndexGuards'])))
        L.append('def %sByNamePrelude : List String := [%s]' % (tag, ', '.join(lean_str(x) for x in r['byNamePrelude'])))
        L.append('/-- %s -/' % r['functions'][2])
        L.append('def %sFree : List FreeStep := [%s]' % (tag, ', '.join('.' + x for x in r['free'])))
        L.append('')
    L += ['end XrlL4.Gen.C15Copy', '']
    txt = '\n'.join(L)
    old = open(path).read() if os.path.exists(path) else None
    if old != txt:
        os.makedirs(os.path.dirname(path), exist_ok=True)
        open(path, 'w').write(txt)


if __name__ == '__main__':
    repo = os.environ.get('VERIF_REPO', '/repo')
    try:
        res = extract(repo, sys.argv[1])
    except Unsupported as e:
        print('UNSUPPORTED %s' % e, file=sys.stderr); sys.exit(3)
    emit(res, sys.argv[2])
    if '--json' in sys.argv: json.dump(res, open(sys.argv[sys.argv.index('--json') + 1], 'w'), indent=0)
    sys.exit(0)
