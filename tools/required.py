#!/usr/bin/env python3
"""required.py — the committed list of property theorems (name + hash of the statement text) per property.

   tools/required.py write          regenerate props/required_theorems.json from the Props files (done by hand, after review,
                                    whenever a property theorem is added or its statement deliberately changed)
   required.check(prop)             -> list of problems: a required theorem that is no longer in its Props file, or whose statement
                                    text changed.  Called by ./check on every run: deleting or quietly weakening a property theorem
                                    makes the check fail (`no-failing-input-found`: nothing about /repo is exhibited) instead of
                                    merely lowering a count in the evidence.
   The Props files are hand-written (generated theorems live under */Gen/ and are counted by the plug-ins themselves)."""
import os, re, sys, json, glob, hashlib
VERIF = os.path.dirname(os.path.dirname(os.path.abspath(__file__)))
FILE = os.path.join(VERIF, 'props', 'required_theorems.json')

def props_files(prop):
    fs = sorted(glob.glob(os.path.join(VERIF, 'lean*', '*', 'Props', prop + '*.lean')))
    fs = [f for f in fs if re.fullmatch(re.escape(prop) + r'[a-z]?\.lean', os.path.basename(f))]
    if prop == 'C01': fs += [os.path.join(VERIF, 'lean-loader', 'LoaderProps', 'C01L.lean')]
    return fs

def statements(path):
    """theorem name -> sha1 of its statement (text from `theorem` up to the `:=` that starts the proof), whitespace-normalised"""
    src = open(path).read()
    src = re.sub(r'/-.*?-/', ' ', src, flags=re.S)
    src = re.sub(r'--[^\n]*', '', src)
    out = {}
    ns = []
    pos = [(m.start(), m.group(1), m.group(2)) for m in re.finditer(r'^(namespace|end|theorem)\s+([\w\.\'!?₀-₉]+)', src, re.M)]
    thm = [m for m in re.finditer(r'^(?:@\[[^\]]*\]\s*)?(?:private\s+|protected\s+)?theorem\s+([^\s:({\[]+)', src, re.M)]
    for i, m in enumerate(thm):
        end = thm[i + 1].start() if i + 1 < len(thm) else len(src)
        body = src[m.start():end]
        k = re.search(r':=', body)
        stmt = body[:k.start()] if k else body
        stmt = re.sub(r'\s+', ' ', stmt).strip()
        out[m.group(1)] = hashlib.sha1(stmt.encode()).hexdigest()[:16]
    return out

def current(prop):
    d = {}
    for f in props_files(prop):
        d[os.path.relpath(f, VERIF)] = statements(f)
    return d

def check(prop):
    try: req = json.load(open(FILE)).get(prop)
    except OSError: return ['props/required_theorems.json is missing']
    if req is None: return ['no required-theorem list for %s in props/required_theorems.json' % prop]
    cur = current(prop); problems = []
    for f, ths in req.items():
        have = cur.get(f)
        if have is None: problems.append('required theorem file %s is missing' % f); continue
        for n, h in ths.items():
            if n not in have: problems.append('required theorem %s is no longer in %s' % (n, f))
            elif have[n] != h: problems.append('the statement of required theorem %s (%s) differs from the reviewed one (tools/required.py write after review)' % (n, f))
    return problems

def count(prop):
    try: req = json.load(open(FILE)).get(prop) or {}
    except OSError: return 0
    return sum(len(v) for v in req.values())

if __name__ == '__main__':
    if sys.argv[1:] == ['write']:
        allp = {}
        for i in range(1, 21):
            p = 'C%02d' % i; allp[p] = current(p)
            print(p, {f: len(v) for f, v in allp[p].items()})
        json.dump(allp, open(FILE, 'w'), indent=0, sort_keys=True)
    else:
        for p in sys.argv[1:] or ['C%02d' % i for i in range(1, 21)]:
            print(p, check(p) or 'ok')
