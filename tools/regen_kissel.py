#!/usr/bin/env python3
"""Regenerate data/kissel_pe.dat from the raw Kissel files in data/kissel.

Pure-python port of data/kissel/kissel.pro (IDL), writing the layout that
src/xrayfiles.c expects:

  per element (Z = 1, 2, ... in file order)
    N_total
    N_total rows:   ln(E)  ln(cs)  d2(ln cs)/d(ln E)2
    31 occupation numbers (K L1..L3 M1..M5 N1..N7 O1..O7 P1..P5 Q1..Q3)
    per shell: N_partial, and if N_partial > 0: the edge energy followed by
               N_partial rows  ln(E) ln(cs) second-derivative

usage: gen_kissel_pe.py <data/kissel dir> <output file>
"""
import glob
import math
import os
import sys

SHELLS = (["K"] + ["L%d" % i for i in range(1, 4)] + ["M%d" % i for i in range(1, 6)]
          + ["N%d" % i for i in range(1, 8)] + ["O%d" % i for i in range(1, 8)]
          + ["P%d" % i for i in range(1, 6)] + ["Q%d" % i for i in range(1, 4)])
KAPPA = [-1, 1, -2, 2, -3, 3, -4]
NLETTER = {1: "K", 2: "L", 3: "M", 4: "N", 5: "O", 6: "P", 7: "Q"}


def deriv(x, y):
    """IDL DERIV(x, y): 3-point Lagrangian derivative on an uneven grid."""
    n = len(x)
    d = [0.0] * n
    for i in range(1, n - 1):
        x01 = x[i - 1] - x[i]
        x02 = x[i - 1] - x[i + 1]
        x12 = x[i] - x[i + 1]
        d[i] = (y[i - 1] * (x12 / (x01 * x02)) + y[i] * (1.0 / x12 - 1.0 / x01)
                - y[i + 1] * (x01 / (x02 * x12)))
    x01 = x[0] - x[1]
    x02 = x[0] - x[2]
    x12 = x[1] - x[2]
    d[0] = (y[0] * (x01 + x02) / (x01 * x02) - y[1] * x02 / (x01 * x12)
            + y[2] * x01 / (x02 * x12))
    x01 = x[n - 3] - x[n - 2]
    x02 = x[n - 3] - x[n - 1]
    x12 = x[n - 2] - x[n - 1]
    d[n - 1] = (-y[n - 3] * x12 / (x01 * x02) + y[n - 2] * x02 / (x01 * x12)
                - y[n - 1] * (x02 + x12) / (x02 * x12))
    return d


def second_derivative(x, y):
    d2 = deriv(x, deriv(x, y))
    return [0.0 if (v < -1.0 or v > 1.0 or v != v) else v for v in d2]


def block(lines, name):
    """Return the lines of *BLOCK:<name> up to its END OF DATA marker."""
    start = None
    for i, l in enumerate(lines):
        if l.strip() == "*BLOCK:" + name:
            start = i
            break
    if start is None:
        raise KeyError(name)
    out = []
    for l in lines[start + 1:]:
        if l.startswith(" *** END OF DATA ***"):
            return out
        out.append(l)
    raise ValueError("unterminated block " + name)


def xy_rows(blk):
    xs, ys = [], []
    for l in blk:
        f = l.split()
        # rows computed by the "extended" formula of the block's REMARK carry a trailing '*'; kissel.pro reads the first two
        # tokens of every row up to END OF DATA, so they belong to the table
        if not (len(f) == 2 or (len(f) == 3 and f[2] == "*")):
            continue
        try:
            a, b = float(f[0]), float(f[1])
        except ValueError:
            continue
        xs.append(math.log(a))
        ys.append(math.log(b))
    return xs, ys


def main():
    src, out = sys.argv[1], sys.argv[2]
    files = sorted(glob.glob(os.path.join(src, "[0-9][0-9][0-9]_pe*")))
    with open(out, "w") as w:
        for z, fn in enumerate(files, start=1):
            assert int(os.path.basename(fn)[:3]) == z, fn
            with open(fn) as f:
                lines = f.read().split("\n")
            # total cross section (kissel.pro skips 7 lines, i.e. the first row)
            xs, ys = xy_rows(block(lines, "TOTAL"))
            xs, ys = xs[1:], ys[1:]
            d2 = second_derivative(xs, ys)
            w.write("%d\n" % len(xs))
            for a, b, c in zip(xs, ys, d2):
                w.write("%.10g %.10g %.10g\n" % (a, b, c))
            # configuration
            occ = dict((s, 0.0) for s in SHELLS)
            edge = dict((s, 0.0) for s in SHELLS)
            for l in block(lines, "CONFIGURATION"):
                f = l.split()
                if len(f) != 8:
                    continue
                try:
                    n, kappa = int(f[0]), int(f[1])
                    nel, e = float(f[4]), float(f[5])
                except ValueError:
                    continue
                name = "K" if n == 1 else "%s%d" % (NLETTER[n], KAPPA.index(kappa) + 1)
                occ[name] = nel
                edge[name] = e
            for s in SHELLS:
                w.write("%.6f\n" % occ[s])
            # partial cross sections
            for s in SHELLS:
                if occ[s] == 0.0:
                    w.write("0\n")
                    continue
                xs, ys = xy_rows(block(lines, s))
                d2 = second_derivative(xs, ys)
                w.write("%d\n%.7g\n" % (len(xs), edge[s]))
                for a, b, c in zip(xs, ys, d2):
                    w.write("%.10g %.10g %.10g\n" % (a, b, c))


if __name__ == "__main__":
    main()
