"""Shared machinery of the C16 / C17 checks (props/c16.py, props/c17.py): scratch build of the working tree,
footprint regeneration into lean-sched/XrlSched/Gen, lake build + audit of the property module, harness
linking, link-map regions, evidence.  House style and helpers of vlib.core / vlib.cbuild are reused."""
import os, sys, re, json, time, subprocess, fcntl, random, hashlib

HERE = os.path.dirname(os.path.abspath(__file__))
VERIF = os.path.dirname(HERE)
sys.path.insert(0, VERIF); sys.path.insert(0, HERE)
from vlib import cbuild, core
from vlib.cbuild import REPO, Scratch, BuildError
import footprint, xrlops

LEAN_DIR = os.path.join(VERIF, 'lean-sched')
GEN_FILE = os.path.join(LEAN_DIR, 'XrlSched', 'Gen', 'Footprint.lean')
HARNESS = os.path.join(VERIF, 'harness')
ALLOWED_AXIOMS = core.ALLOWED_AXIOMS

TRUSTED_BASE = [
    'Lean 4.33 kernel (lake build of lean-sched; `decide +kernel` for the finite footprint table); axioms allowed: propext, Classical.choice, Quot.sound (audited by #print axioms on every run)',
    'tools/footprint.py + clang-14 JSON AST: syntactic footprint extraction with a may-point-to-global analysis (over-approximating); checked on every run by its self-test (harness/footprint_selftest.c) and by the history / thread harness on the real library',
    'the abstract step / schedule semantics (lean-sched/XrlSched/Hand/{Step,Sched}.lean): a call is a tree of atomic accesses constrained only by its footprint',
    'modelled, not verified: libc/libm by contract (allow-listed functions do not touch the library tables, the crystal array or the locale; MT-safety classes of DESIGN §6), the C compiler, the allocator',
]

def log(*a): print(*a, file=sys.stderr, flush=True)

class Ctx:
    def __init__(self, prop, tier, seed):
        self.prop = prop; self.tier = tier; self.seed = seed
        self.t0 = time.time(); self.timings = {}; self.notes = []
        self.sc = Scratch()
        self.rng = random.Random(seed * 1000003 + int(re.sub(r'\D', '', prop) or 0))
    def close(self): self.sc.__exit__(None, None, None)
    def tick(self, name, t): self.timings[name] = round(time.time() - t, 2)

class Lock:
    """serialise regeneration + lake build of lean-sched across concurrently started checks (C16 and C17 share it)"""
    def __enter__(self):
        self.f = open(os.path.join(LEAN_DIR, '.verif.lock'), 'w'); fcntl.flock(self.f, fcntl.LOCK_EX); return self
    def __exit__(self, *a):
        fcntl.flock(self.f, fcntl.LOCK_UN); self.f.close()

# ---- step 1: C artefacts + footprint -------------------------------------------------------------------

def build_c(ctx, san, tag, opt='-O1'):
    t = time.time()
    cbuild.build_prdata(ctx.sc, REPO)
    objs, fl = cbuild.build_lib(ctx.sc, REPO, san=san, tag=tag, opt=opt)
    ctx.tick('c_build_' + tag, t)
    return objs, fl

def build_c_kissel(ctx, objs, san, tag):
    """the SAME code objects with the tables of the regenerated Kissel configuration: data/kissel_pe.dat is empty as shipped, so the 63
    Kissel / cascade entry points only ever fail in the configuration of build_c; here kissel_pe.dat is regenerated from data/kissel by
    tools/regen_kissel.py (as ctx.build_kissel_config('real') of vlib/core.py does for C03/C04/C08/C19), run through the real prdata, and
    the resulting table file replaces xrayglob_inline.c.o.  -> object list"""
    t = time.time()
    root = ctx.sc.path('krootR'); os.makedirs(os.path.join(root, 'data'), exist_ok=True)
    for f in os.listdir(os.path.join(REPO, 'data')):
        src = os.path.join(REPO, 'data', f); dst = os.path.join(root, 'data', f)
        if f != 'kissel_pe.dat' and not os.path.lexists(dst): os.symlink(src, dst)
    p = subprocess.run([sys.executable, os.path.join(HERE, 'regen_kissel.py'), os.path.join(REPO, 'data', 'kissel'), os.path.join(root, 'data', 'kissel_pe.dat')],
                       capture_output=True, text=True)
    if p.returncode != 0: raise BuildError('regen_kissel.py failed: ' + p.stderr[-1000:])
    inline = cbuild.build_prdata(ctx.sc, REPO, data_root=root, bname='bR')
    tfl = cbuild.cflags(REPO, ctx.sc.path('b')) + ['-O0', '-g0', '-w']
    if san and 'address' in san: tfl += ['-fsanitize=address']
    if san and 'thread' in san: tfl += ['-fsanitize=thread']
    o = ctx.sc.path('o_' + tag, 'xrayglob_inline_R.c.o')
    cbuild.run(['clang-14'] + tfl + ['-c', inline, '-o', o])
    ctx.tick('c_build_kissel_' + tag, t)
    return [x for x in objs if not x.endswith('xrayglob_inline.c.o')] + [o]

def kissel_family(meta):
    """public entry points from which a function of src/kissel_pe.c is reachable (Kissel photoionisation + XRF cascade)"""
    F = meta['functions']
    return sorted(e for e in meta['classes'] if any(F[x]['file'] == 'kissel_pe.c' for x in closure(meta, e)))

def extract_footprint(ctx):
    """-> (meta, lean text path in scratch, problems).  Nothing under /verif is written here."""
    t = time.time()
    bdir = ctx.sc.path('b')
    an = footprint.analyze(REPO, bdir)
    lean_tmp = ctx.sc.path('Footprint.lean')
    meta = footprint.emit(an, REPO, lean_tmp, ctx.sc.path('fp.json'))
    n, bad = footprint.selftest()
    ctx.tick('footprint', t)
    problems = sorted(set(meta['problems'])) + bad
    if meta['undefined_public']:
        problems.append('public functions declared in include/*.h without a definition in libxrl: %s' % meta['undefined_public'])
    meta['selftest_idioms'] = n
    return meta, lean_tmp, problems

def install_gen(lean_tmp):
    """copy the regenerated table into the lake project if its text changed (caller holds the lock)"""
    new = open(lean_tmp).read()
    os.makedirs(os.path.dirname(GEN_FILE), exist_ok=True)
    try: old = open(GEN_FILE).read()
    except OSError: old = None
    if old != new:
        with open(GEN_FILE, 'w') as f: f.write(new)
    return old != new

def lake_build(ctx, targets):
    t = time.time()
    p = subprocess.run(['lake', 'build'] + list(targets), cwd=LEAN_DIR, capture_output=True, text=True)
    ctx.tick('lake_build', t)
    return p.returncode == 0, p.stdout + p.stderr

def lean_sources():
    out = []
    for root, dirs, files in os.walk(os.path.join(LEAN_DIR, 'XrlSched')):
        for f in files:
            if f.endswith('.lean'): out.append(os.path.join(root, f))
    out.append(os.path.join(LEAN_DIR, 'XrlSched.lean'))
    return sorted(out)

def theorems_of(props_file, namespace):
    txt = core.strip_comments(open(props_file).read())
    return ['%s.%s' % (namespace, m) for m in re.findall(r'^\s*theorem\s+([\w\.\']+)', txt, flags=re.M)]

def failing_theorems(build_log, props_file):
    rel = os.path.relpath(props_file, LEAN_DIR)
    lines = [int(x) for x in re.findall(r'error: ' + re.escape(rel) + r':(\d+):', build_log)]
    src = open(props_file).read().splitlines(); names = []
    for ln in lines:
        for i in range(min(ln, len(src)) - 1, -1, -1):
            m = re.match(r'\s*(?:theorem|example|def)\s+([\w\.\']+)?', src[i])
            if m:
                nm = m.group(1) or 'example@%d' % (i + 1)
                if nm not in names: names.append(nm)
                break
    return names

def audit(ctx, module, namespace, props_file, evals=()):
    """grep for forbidden constructs, `#print axioms` of every property theorem, `#eval` of the verdict terms.
    -> (theorems, axioms{name: [..]}, evals{term: text}, problems)"""
    t = time.time()
    problems = []
    bad = core.audit_sources(lean_sources())
    if bad: problems.append('forbidden construct in Lean sources: ' + '; '.join(bad[:5]))
    theorems = theorems_of(props_file, namespace)
    src = 'import %s\nopen XrlSched %s\n' % (module, namespace) + ''.join('#print axioms %s\n' % n for n in theorems)
    for i, e in enumerate(evals): src += '#eval IO.println s!"EVAL%d {%s}"\n' % (i, e)
    path = ctx.sc.path('Audit_%s.lean' % ctx.prop)
    open(path, 'w').write(src)
    p = subprocess.run(['lake', 'env', 'lean', path], cwd=LEAN_DIR, capture_output=True, text=True)
    txt = p.stdout + p.stderr
    axioms = {}
    for m in re.finditer(r"'([^']+)' depends on axioms: \[([^\]]*)\]|'([^']+)' does not depend on any axioms", txt):
        if m.group(1): axioms[m.group(1)] = [a.strip() for a in m.group(2).replace('\n', ' ').split(',') if a.strip()]
        else: axioms[m.group(3)] = []
    for th in theorems:
        if th not in axioms: problems.append('axiom audit: no report for %s' % th)
        else:
            extra = set(axioms[th]) - ALLOWED_AXIOMS
            if extra: problems.append('axiom audit: %s depends on %s' % (th, sorted(extra)))
    ev = {}
    for i, e in enumerate(evals):
        m = re.search(r'^EVAL%d (.*)$' % i, txt, flags=re.M)
        if m: ev[e] = m.group(1).strip()
        else: problems.append('audit: could not evaluate `%s`: %s' % (e, txt[-300:]))
    ctx.tick('audit', t)
    return theorems, axioms, ev, problems

def leanchecker(ctx, module):
    t = time.time()
    p = subprocess.run(['lake', 'env', 'leanchecker', module], cwd=LEAN_DIR, capture_output=True, text=True)
    ctx.tick('leanchecker', t)
    return p.returncode == 0, (p.stdout + p.stderr)[-400:]

# ---- Python mirror of the Lean footprint check: only used to EXPLAIN a broken `readonly_footprint` -----------

def names_in(lean_file, defs):
    """the `nm! "…"` strings of the given list definitions of a Lean file"""
    txt = core.strip_comments(open(lean_file).read()); out = {}
    for d in defs:
        m = re.search(r'def %s\b[^:]*:[^=]*:=\s*\[(.*?)\]' % re.escape(d), txt, flags=re.S)
        out[d] = re.findall(r'nm!\s*"([^"]*)"', m.group(1)) if m else []
    return out

def closure(meta, entry):
    F = meta['functions']; seen = {entry}; todo = [entry]
    while todo:
        f = todo.pop()
        for c in F.get(f, {}).get('callees', []):
            if c not in seen: seen.add(c); todo.append(c)
    return seen

STDIO_OUT = re.compile(r'^(?:(?:fprintf|vfprintf|fputs|fputc|putc|fwrite|fflush)@\w+|printf|vprintf|puts|putchar|perror)$')

def explain_footprint(meta, allowed_exts, classes=('query', 'alloc', 'error', 'deprecated'), entries=None, diag_sites=None):
    """-> list of dict(entry, function, writes, exts) for every safe entry whose closure writes or calls outside the list.
    `entries`: explicit rows instead of the public classes (the `@user` rows).  `diag_sites` given: ALSO functions outside that list
    that call a stdio output function (Lean: diagnostics_only_at_error_sites), reported under every public entry that reaches them."""
    F = meta['functions']; out = []
    offenders = {f: (d['writes'] + d['unknown_writes'], [x for x in d['exts'] if x not in allowed_exts]) for f, d in F.items()}
    if diag_sites is not None:
        for f, d in F.items():
            bad = [x for x in d['exts'] if STDIO_OUT.match(x) and not (x == 'fprintf@stderr' and f in diag_sites)]
            if bad: offenders[f] = (offenders[f][0], sorted(set(offenders[f][1] + bad)))
    offenders = {f: v for f, v in offenders.items() if v[0] or v[1]}
    for e, c in sorted(meta['classes'].items()) if entries is None else [(e, 'row') for e in entries]:
        if entries is None and c not in classes: continue
        cl = closure(meta, e)
        for f in sorted(cl & set(offenders)):
            out.append(dict(entry=e, function=f, file=F[f]['file'], writes=offenders[f][0], exts=offenders[f][1]))
    return out

# ---- harness ----------------------------------------------------------------------------------------

def link_harness(ctx, objs, fl, src, out, extra=(), libs=('-lm',), meta=None):
    t = time.time()
    aux = ctx.sc.path('aux'); os.makedirs(aux, exist_ok=True)
    if meta is not None:
        with open(os.path.join(aux, 'xrl_ops_gen.inc'), 'w') as f: f.write(xrlops.gen_dispatch(meta))
    cbuild.link(ctx.sc, objs, [os.path.join(HARNESS, src)], ctx.sc.path(out), fl + ['-I' + aux, '-I' + HARNESS] + list(extra), libs=libs)
    ctx.tick('link_' + out, t)
    return ctx.sc.path(out)

def map_regions(mapfile, objdir):
    """every .data/.bss/.rodata input section contributed by an object under `objdir` -> [(addr, size, object, section)]"""
    out = []; pend = None
    for l in open(mapfile):
        m = re.match(r'^ (\.\S+)\s*$', l)
        if m: pend = m.group(1); continue
        m = re.match(r'^ (\.\S+)\s+0x([0-9a-f]+)\s+0x([0-9a-f]+)\s+(\S+)', l)
        if m: name, a, n, path = m.groups(); pend = None
        else:
            m = re.match(r'^\s+0x([0-9a-f]+)\s+0x([0-9a-f]+)\s+(\S+\.o)\s*$', l)
            if not m or pend is None:
                if not l.startswith('  '): pend = None
                continue
            a, n, path = m.groups(); name = pend; pend = None
        if not path.startswith(objdir): continue
        if int(n, 16) == 0 or int(a, 16) == 0: continue
        if re.match(r'\.(data|bss|rodata|tdata|tbss)', name): out.append((int(a, 16), int(n, 16), os.path.basename(path), name))
    return out

def symbol_at(exe):
    """-> function addr -> 'symbol+off' using `nm -n -S`"""
    p = subprocess.run(['nm', '-n', '-S', exe], capture_output=True, text=True)
    syms = []
    for l in p.stdout.splitlines():
        t = l.split()
        if len(t) == 4:
            try: syms.append((int(t[0], 16), int(t[1], 16), t[3]))
            except ValueError: pass
    def look(addr):
        best = None
        for a, n, nm in syms:
            if a <= addr < a + max(n, 1): best = '%s+%d' % (nm, addr - a)
        return best or hex(addr)
    return look

# ---- reporting ------------------------------------------------------------------------------------------

def write_evidence(ctx, level, coverage, violations, assumptions):
    core.write_evidence(ctx, level, coverage, violations, assumptions)
    try:
        import jsonschema
        jsonschema.validate(json.load(open(os.path.join(core.EVID_DIR, ctx.prop + '.json'))), json.load(open('/root/.vp/EVIDENCE.schema.json')))
    except ImportError:
        pass
    except Exception as e:
        log('evidence does not validate: %s' % str(e)[:300])

def known(prop):
    return core.load_known_findings().get(prop, [])

def first_errors(txt, n=8):
    errs = re.findall(r'error: [^\n]*(?:\n(?!error:|info:|trace:|✖|✔|warning:)[^\n]*){0,5}', txt)
    return '\n'.join(errs[:n])[:4000]
