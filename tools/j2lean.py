#!/usr/bin/env python3
"""j2lean: translate the static numeric methods of java/Xraylib.java into Lean 4 definitions (tie of property C19's model).

usage:  python3 tools/j2lean.py <repo> <outdir> [meta.json]
        <repo> defaults to $VERIF_REPO or /repo; <outdir> receives JStatic.lean, M_<n>.lean, Methods.lean, Dispatch.lean

Input : the text of <repo>/java/Xraylib.java (own tokenizer + recursive-descent parser, no external packages).
Output: one Lean `def` per Java method of the form `static double|int f(int…, double…, arrays…)` in namespace `Xrl.JGen`,
        polymorphic over the same carrier as the C translation (tools/c2lean.py), in the monad `JM = Except JStop`
        (lean/Xrl/JCore/Basic.lean).  The shape of the terms follows c2lean so that the two translations can be compared by
        unfolding:  explicit `let x ← m` / `let x := e` / `if` / `pure`, no `mut`, no `for`.

  * `throw new IllegalArgumentException(MSG)`        ->  `throw (JStop.iae "text of the constant MSG")`
  * `a[i]`                                            ->  `jrd "a" a i`      (ArrayIndexOutOfBounds / NullPointer are outcomes)
  * `int` `+ - *` and unary `-` on non-constants      ->  `wrapI (…)`        (Java wraps; c2lean emits `chkI`: overflow is UB in C)
  * `/` on doubles by a non-literal, `Math.log`       ->  `jdiv`, `jlog`     (model stops where the C model stops)
  * `try { S } catch (IllegalArgumentException e) {H}`->  `jtry (…) (…)`     (S a single statement)
  * `for (i = lo; i <= hi; i++)`, `for (T x : CONST_ARRAY)` -> `jloopM`, `jforEachM` over a constant list
  * `switch` with `break`/`return`/`throw` arms       ->  `if` chain
  * the bisection loop of `splint`                    ->  `bisect` (pattern-matched; any other `while` is unsupported)
  * `static final` constants are folded; the fields filled by `XRayInit` are read from the structure `JTables`
    (lean/Xrl/JCore/JTables.lean); a field the structure does not know is unsupported
  * objects that only select an implementation (`CS_FluorLine_Kissel_Body`, `CS_FluorShell_Cascade_Body`) are
    devirtualised: `FIELD.execute(…)` becomes a call of the specialised copy `FIELD__execute`.

Anything else prints `UNSUPPORTED Xraylib.java:LINE method: why`; the method (and every method calling it) is skipped and listed.
"""
import sys, os, re, json, hashlib

class Unsupported(Exception):
    def __init__(self, why, line=None):
        Exception.__init__(self, why); self.why = why; self.line = line

# ================================================================================================ tokenizer

TOK = re.compile(r'''
   (?P<ws>\s+)
 | (?P<lc>//[^\n]*)
 | (?P<bc>/\*.*?\*/)
 | (?P<num>(?:\d+\.\d*|\.\d+|\d+)(?:[eE][+-]?\d+)?[dDfFlL]?)
 | (?P<id>[A-Za-z_$][A-Za-z_0-9$]*)
 | (?P<str>"(?:[^"\\\n]|\\.)*")
 | (?P<chr>'(?:[^'\\\n]|\\.)*')
 | (?P<op>>>>=|<<=|>>=|>>>|\+\+|--|&&|\|\||==|!=|<=|>=|\+=|-=|\*=|/=|%=|&=|\|=|\^=|->|::|<<|>>|[-+*/%<>=!&|^~?:;,.(){}\[\]@])
''', re.X | re.S)

def tokenize(src):
    toks = []; pos = 0; line = 1
    while pos < len(src):
        m = TOK.match(src, pos)
        if not m: raise Unsupported('cannot tokenize %r' % src[pos:pos + 20], line)
        k = m.lastgroup; t = m.group()
        if k not in ('ws', 'lc', 'bc'):
            toks.append((k, t, line))
        line += t.count('\n'); pos = m.end()
    toks.append(('eof', '', line))
    return toks

# ================================================================================================ parser

MODS = {'public', 'private', 'protected', 'static', 'final', 'abstract', 'default', 'synchronized', 'native', 'transient', 'volatile', 'strictfp'}
PRIM = {'int', 'double', 'boolean', 'void', 'long', 'float', 'byte', 'char', 'short'}

class Parser:
    def __init__(self, toks):
        self.t = toks; self.i = 0
    # ---- token helpers
    def peek(self, o=0): return self.t[min(self.i + o, len(self.t) - 1)]
    def at(self, s, o=0): return self.peek(o)[1] == s and self.peek(o)[0] in ('op', 'id')
    def line(self): return self.peek()[2]
    def next(self):
        x = self.t[self.i]; self.i += 1; return x
    def eat(self, s):
        if not self.at(s): raise Unsupported('expected `%s`, found `%s`' % (s, self.peek()[1]), self.line())
        return self.next()
    def opt(self, s):
        if self.at(s): self.next(); return True
        return False
    def ident(self):
        k, t, l = self.next()
        if k != 'id': raise Unsupported('identifier expected, found `%s`' % t, l)
        return t
    def skip_balanced(self, o, c):
        """current token is `o`; skip to after the matching `c`"""
        depth = 0
        while True:
            k, t, l = self.next()
            if k == 'eof': raise Unsupported('unbalanced %s' % o, l)
            if k == 'op' and t == o: depth += 1
            elif k == 'op' and t == c:
                depth -= 1
                if depth == 0: return

    # ---- types
    def is_type_start(self):
        return self.peek()[0] == 'id'
    def type(self):
        """-> type text like `int`, `double[][]`, `Xraylib.Foo`, `ArrayList<Byte>`"""
        name = self.ident()
        while self.at('.') and self.peek(1)[0] == 'id':
            self.next(); name += '.' + self.ident()
        if self.at('<'):
            self.skip_generic()
            name += '<>'
        while self.at('[') and self.at(']', 1):
            self.next(); self.next(); name += '[]'
        return name
    def skip_generic(self):
        depth = 0
        while True:
            k, t, l = self.next()
            if t == '<': depth += 1
            elif t == '>': depth -= 1
            elif t == '>>': depth -= 2
            if depth <= 0: return

    # ---- class level
    def compilation_unit(self):
        while not (self.at('class') or self.at('interface')) or self.peek(-1)[1] == '.':
            if self.peek()[0] == 'eof': raise Unsupported('no class found')
            self.next()
        return self.class_decl([], [])

    def modifiers(self):
        mods = []; annos = []
        while True:
            if self.at('@'):
                self.next(); annos.append(self.ident())
                if self.at('('): self.skip_balanced('(', ')')
            elif self.peek()[0] == 'id' and self.peek()[1] in MODS:
                mods.append(self.next()[1])
            else:
                return mods, annos

    def class_decl(self, mods, annos):
        line = self.line()
        kind = self.next()[1]           # class | interface
        name = self.ident()
        ext = None; impl = []
        if self.opt('extends'): ext = self.type()
        if self.opt('implements'):
            impl.append(self.type())
            while self.opt(','): impl.append(self.type())
        self.eat('{')
        members = []
        while not self.at('}'):
            m = self.member(name)
            if m: members.append(m)
        self.eat('}')
        return dict(k='class', kind=kind, name=name, ext=ext, impl=impl, mods=mods, annos=annos, members=members, line=line)

    def member(self, cname):
        if self.opt(';'): return None
        line = self.line()
        mods, annos = self.modifiers()
        if self.at('{'):                      # (static) initializer
            start = self.i; self.skip_balanced('{', '}')
            return dict(k='init', mods=mods, line=line)
        if self.at('class') or self.at('interface'):
            return self.class_decl(mods, annos)
        if self.at('<'): self.skip_generic()
        # constructor?
        if self.peek()[0] == 'id' and self.peek()[1] == cname and self.at('(', 1):
            self.next()
            params = self.params()
            if self.opt('throws'): self.type_list()
            b0 = self.i; self.skip_balanced('{', '}')
            return dict(k='ctor', name=cname, params=params, body=(b0, self.i), mods=mods, line=line)
        ty = self.type()
        name = self.ident()
        if self.at('('):
            params = self.params()
            if self.opt('throws'): self.type_list()
            if self.opt(';'):
                return dict(k='method', name=name, ret=ty, params=params, body=None, mods=mods, annos=annos, line=line)
            b0 = self.i; self.skip_balanced('{', '}')
            return dict(k='method', name=name, ret=ty, params=params, body=(b0, self.i), mods=mods, annos=annos, line=line)
        # field(s)
        decls = []
        while True:
            dty = ty
            while self.at('[') and self.at(']', 1): self.next(); self.next(); dty += '[]'
            init = None
            if self.opt('='):
                init = (self.i, None)
                self.skip_to_field_end()
                init = (init[0], self.i)
            decls.append((name, dty, init))
            if self.opt(','):
                name = self.ident(); continue
            self.eat(';'); break
        return dict(k='field', decls=decls, mods=mods, line=line)

    def skip_to_field_end(self):
        depth = 0
        while True:
            k, t, l = self.peek()
            if k == 'eof': raise Unsupported('unterminated field initializer', l)
            if k == 'op' and t in '({[': depth += 1
            elif k == 'op' and t in ')}]': depth -= 1
            elif k == 'op' and t in (';', ',') and depth == 0: return
            self.next()

    def type_list(self):
        out = [self.type()]
        while self.opt(','): out.append(self.type())
        return out

    def params(self):
        self.eat('(')
        ps = []
        while not self.at(')'):
            self.opt('final')
            ty = self.type(); nm = self.ident()
            while self.at('[') and self.at(']', 1): self.next(); self.next(); ty += '[]'
            ps.append((nm, ty))
            if not self.opt(','): break
        self.eat(')')
        return ps

    # ---- statements
    def block(self):
        line = self.line()
        self.eat('{')
        ss = []
        while not self.at('}'): ss.append(self.statement())
        self.eat('}')
        return dict(k='block', body=ss, line=line)

    def looks_like_local_decl(self):
        """`Type name` [= …] at the current position?"""
        if self.peek()[0] != 'id': return False
        if self.at('final'): return True
        j = 0
        if self.peek(j)[1] in ('return', 'throw', 'new', 'if', 'for', 'while', 'switch', 'try', 'continue', 'break', 'else', 'case', 'default', 'do'): return False
        j += 1
        while self.at('.', j) and self.peek(j + 1)[0] == 'id': j += 2
        if self.at('<', j):
            d = 0
            while True:
                t = self.peek(j)[1]
                if t == '<': d += 1
                elif t == '>': d -= 1
                elif t == '>>': d -= 2
                elif self.peek(j)[0] == 'eof' or t in (';', '(', ')', '{', '}', '=', '+', '-', '*', '/'): return False
                j += 1
                if d <= 0: break
        while self.at('[', j) and self.at(']', j + 1): j += 2
        return self.peek(j)[0] == 'id' and (self.at('=', j + 1) or self.at(';', j + 1) or self.at(',', j + 1) or self.at(':', j + 1) or self.at('[', j + 1))

    def local_decl(self):
        line = self.line()
        self.opt('final')
        ty = self.type()
        decls = []
        while True:
            nm = self.ident(); dty = ty
            while self.at('[') and self.at(']', 1): self.next(); self.next(); dty += '[]'
            init = self.expr() if self.opt('=') else None
            decls.append((nm, dty, init))
            if not self.opt(','): break
        return dict(k='local', decls=decls, line=line)

    def statement(self):
        line = self.line()
        if self.at('{'): return self.block()
        if self.opt(';'): return dict(k='empty', line=line)
        if self.at('if'):
            self.next(); self.eat('('); c = self.expr(); self.eat(')')
            th = self.statement(); el = None
            if self.opt('else'): el = self.statement()
            return dict(k='if', cond=c, then=th, els=el, line=line)
        if self.at('for'):
            self.next(); self.eat('(')
            if self.looks_like_local_decl():
                save = self.i
                self.opt('final'); ty = self.type(); nm = self.ident()
                if self.opt(':'):
                    it = self.expr(); self.eat(')'); body = self.statement()
                    return dict(k='foreach', vtype=ty, var=nm, iter=it, body=body, line=line)
                self.i = save
                init = self.local_decl()
            elif self.at(';'): init = None
            else: init = dict(k='expr', e=self.expr(), line=line)
            self.eat(';')
            cond = None if self.at(';') else self.expr()
            self.eat(';')
            upd = None if self.at(')') else self.expr()
            self.eat(')')
            body = self.statement()
            return dict(k='for', init=init, cond=cond, upd=upd, body=body, line=line)
        if self.at('while'):
            self.next(); self.eat('('); c = self.expr(); self.eat(')'); body = self.statement()
            return dict(k='while', cond=c, body=body, line=line)
        if self.at('do'): raise Unsupported('do-while', line)
        if self.at('switch'):
            self.next(); self.eat('('); e = self.expr(); self.eat(')'); self.eat('{')
            cases = []
            while not self.at('}'):
                labels = []
                while self.at('case') or self.at('default'):
                    if self.next()[1] == 'case': labels.append(self.expr())
                    else: labels.append(None)
                    self.eat(':')
                ss = []
                while not (self.at('case') or self.at('default') or self.at('}')): ss.append(self.statement())
                cases.append((labels, ss))
            self.eat('}')
            return dict(k='switch', e=e, cases=cases, line=line)
        if self.at('return'):
            self.next(); e = None if self.at(';') else self.expr(); self.eat(';')
            return dict(k='return', e=e, line=line)
        if self.at('throw'):
            self.next(); e = self.expr(); self.eat(';')
            return dict(k='throw', e=e, line=line)
        if self.at('continue'):
            self.next(); self.eat(';'); return dict(k='continue', line=line)
        if self.at('break'):
            self.next(); self.eat(';'); return dict(k='break', line=line)
        if self.at('try'):
            self.next()
            if self.at('('): raise Unsupported('try-with-resources', line)
            body = self.block(); catches = []
            while self.at('catch'):
                self.next(); self.eat('('); self.opt('final')
                tys = [self.type()]
                while self.opt('|'): tys.append(self.type())
                var = self.ident(); self.eat(')')
                catches.append((tys, var, self.block()))
            if self.at('finally'): raise Unsupported('finally', line)
            return dict(k='try', body=body, catches=catches, line=line)
        if self.looks_like_local_decl():
            d = self.local_decl(); self.eat(';'); return d
        e = self.expr(); self.eat(';')
        return dict(k='expr', e=e, line=line)

    # ---- expressions
    BIN = [['||'], ['&&'], ['|'], ['^'], ['&'], ['==', '!='], ['<', '>', '<=', '>=', 'instanceof'], ['<<', '>>', '>>>'], ['+', '-'], ['*', '/', '%']]
    ASSIGN = {'=', '+=', '-=', '*=', '/=', '%=', '&=', '|=', '^=', '<<=', '>>=', '>>>='}

    def expr(self):
        line = self.line()
        lhs = self.ternary()
        if self.peek()[0] == 'op' and self.peek()[1] in self.ASSIGN:
            op = self.next()[1]
            rhs = self.expr()
            return dict(k='assign', op=op, lhs=lhs, rhs=rhs, line=line)
        return lhs

    def ternary(self):
        line = self.line()
        c = self.binary(0)
        if self.opt('?'):
            a = self.expr(); self.eat(':'); b = self.ternary()
            return dict(k='cond', c=c, a=a, b=b, line=line)
        return c

    def binary(self, lvl):
        if lvl == len(self.BIN): return self.unary()
        line = self.line()
        a = self.binary(lvl + 1)
        while self.peek()[0] in ('op', 'id') and self.peek()[1] in self.BIN[lvl]:
            op = self.next()[1]
            b = self.binary(lvl + 1)
            a = dict(k='bin', op=op, a=a, b=b, line=line)
        return a

    def unary(self):
        line = self.line()
        if self.peek()[0] == 'op' and self.peek()[1] in ('-', '+', '!', '~'):
            op = self.next()[1]
            return dict(k='un', op=op, e=self.unary(), line=line)
        if self.peek()[0] == 'op' and self.peek()[1] in ('++', '--'):
            op = self.next()[1]
            return dict(k='preinc', op=op, e=self.unary(), line=line)
        # cast:  ( primitive ) unary
        if self.at('(') and self.peek(1)[0] == 'id' and self.peek(1)[1] in PRIM and self.at(')', 2):
            self.next(); ty = self.next()[1]; self.next()
            return dict(k='cast', ty=ty, e=self.unary(), line=line)
        return self.postfix()

    def args(self):
        self.eat('(')
        a = []
        while not self.at(')'):
            a.append(self.expr())
            if not self.opt(','): break
        self.eat(')')
        return a

    def postfix(self):
        line = self.line()
        e = self.primary()
        while True:
            if self.at('['):
                self.next(); i = self.expr(); self.eat(']')
                e = dict(k='index', a=e, i=i, line=line)
            elif self.at('.'):
                self.next(); nm = self.ident()
                if self.at('('):
                    e = dict(k='call', obj=e, name=nm, args=self.args(), line=line)
                else:
                    e = dict(k='field', obj=e, name=nm, line=line)
            elif self.at('::'):
                self.next(); nm = self.ident()
                e = dict(k='mref', obj=e, name=nm, line=line)
            elif self.peek()[0] == 'op' and self.peek()[1] in ('++', '--'):
                op = self.next()[1]
                e = dict(k='postinc', op=op, e=e, line=line)
            else:
                return e

    def primary(self):
        k, t, line = self.peek()
        if k == 'num':
            self.next()
            if re.fullmatch(r'\d+[lL]?', t): return dict(k='int', v=int(t.rstrip('lL')), line=line)
            return dict(k='dbl', v=t.rstrip('dDfF'), line=line)
        if k == 'str':
            self.next(); return dict(k='str', v=json.loads(t), line=line)
        if k == 'chr':
            self.next(); return dict(k='chr', v=t, line=line)
        if k == 'op' and t == '(':
            self.next(); e = self.expr(); self.eat(')')
            return dict(k='paren', e=e, line=line)
        if k == 'id' and t == 'new':
            self.next()
            ty = self.ident()
            while self.at('.'): self.next(); ty += '.' + self.ident()
            if self.at('<'): self.skip_generic()
            if self.at('('):
                a = self.args()
                if self.at('{'): raise Unsupported('anonymous class', line)
                return dict(k='new', ty=ty, args=a, line=line)
            dims = []
            while self.at('['):
                self.next()
                dims.append(None if self.at(']') else self.expr())
                self.eat(']')
            init = None
            if self.at('{'): init = self.array_init()
            return dict(k='newarr', ty=ty, dims=dims, init=init, line=line)
        if k == 'op' and t == '{':
            return dict(k='newarr', ty=None, dims=[None], init=self.array_init(), line=line)
        if k == 'id':
            self.next()
            if t in ('true', 'false'): return dict(k='bool', v=(t == 'true'), line=line)
            if t == 'null': return dict(k='null', line=line)
            if self.at('('):
                return dict(k='call', obj=None, name=t, args=self.args(), line=line)
            return dict(k='name', v=t, line=line)
        raise Unsupported('unexpected token `%s`' % t, line)

    def array_init(self):
        self.eat('{')
        xs = []
        while not self.at('}'):
            xs.append(self.array_init_elem())
            if not self.opt(','): break
        self.eat('}')
        return xs
    def array_init_elem(self):
        if self.at('{'): return dict(k='newarr', ty=None, dims=[None], init=self.array_init(), line=self.line())
        return self.expr()

def sub_parser(toks, span):
    """parser over the token span (start, end) of a skipped body / initializer"""
    p = Parser(toks[span[0]:span[1]] + [('eof', '', toks[span[1] - 1][2])])
    return p

# ================================================================================================ program model

# the fields of Xraylib.java that XRayInit fills from xraylib.dat, as lean/Xrl/JCore/JTables.lean declares them:
# name -> Java type.  A field used by a method but missing here (or with another type) is UNSUPPORTED.
JTABLE_FIELDS = {
    'ZMAX': 'int', 'SHELLNUM': 'int', 'SHELLNUM_K': 'int', 'SHELLNUM_A': 'int', 'TRANSNUM': 'int', 'LINENUM': 'int', 'AUGERNUM': 'int',
    'RE2': 'double', 'MEC2': 'double', 'AVOGNUM': 'double', 'KEV2ANGST': 'double', 'R_E': 'double',
    'AtomicWeight_arr': 'double[]', 'ElementDensity_arr': 'double[]', 'EdgeEnergy_arr': 'double[]', 'AtomicLevelWidth_arr': 'double[]',
    'LineEnergy_arr': 'double[]', 'FluorYield_arr': 'double[]', 'JumpFactor_arr': 'double[]', 'CosKron_arr': 'double[]', 'RadRate_arr': 'double[]',
    'xrf_cross_sections_constants_full': 'double[]', 'xrf_cross_sections_constants_auger_only': 'double[]',
    'NE_Photo_arr': 'int[]', 'E_Photo_arr': 'double[][]', 'CS_Photo_arr': 'double[][]', 'CS_Photo_arr2': 'double[][]',
    'NE_Rayl_arr': 'int[]', 'E_Rayl_arr': 'double[][]', 'CS_Rayl_arr': 'double[][]', 'CS_Rayl_arr2': 'double[][]',
    'NE_Compt_arr': 'int[]', 'E_Compt_arr': 'double[][]', 'CS_Compt_arr': 'double[][]', 'CS_Compt_arr2': 'double[][]',
    'NE_Energy_arr': 'int[]', 'E_Energy_arr': 'double[][]', 'CS_Energy_arr': 'double[][]', 'CS_Energy_arr2': 'double[][]',
    'Nq_Rayl_arr': 'int[]', 'q_Rayl_arr': 'double[][]', 'FF_Rayl_arr': 'double[][]', 'FF_Rayl_arr2': 'double[][]',
    'Nq_Compt_arr': 'int[]', 'q_Compt_arr': 'double[][]', 'SF_Compt_arr': 'double[][]', 'SF_Compt_arr2': 'double[][]',
    'NE_Fi_arr': 'int[]', 'E_Fi_arr': 'double[][]', 'Fi_arr': 'double[][]', 'Fi_arr2': 'double[][]',
    'NE_Fii_arr': 'int[]', 'E_Fii_arr': 'double[][]', 'Fii_arr': 'double[][]', 'Fii_arr2': 'double[][]',
    'NE_Photo_Total_Kissel_arr': 'int[]', 'Electron_Config_Kissel_arr': 'double[]',
    'NE_Photo_Partial_Kissel_arr': 'int[][]', 'E_Photo_Partial_Kissel_arr': 'double[][][]', 'Photo_Partial_Kissel_arr': 'double[][][]',
    'Photo_Partial_Kissel_arr2': 'double[][][]',
    'NShells_ComptonProfiles_arr': 'int[]', 'Npz_ComptonProfiles_arr': 'int[]', 'UOCCUP_ComptonProfiles_arr': 'double[][]',
    'pz_ComptonProfiles_arr': 'double[][]', 'Total_ComptonProfiles_arr': 'double[][]', 'Total_ComptonProfiles_arr2': 'double[][]',
    'Partial_ComptonProfiles_arr': 'double[][][]', 'Partial_ComptonProfiles_arr2': 'double[][][]',
    'Auger_Yields_arr': 'double[]', 'Auger_Rates_arr': 'double[]',
}

NUMERIC_PARAM = re.compile(r'^(int|double)(\[\])*$')

LEAN_KW = {'at', 'from', 'to', 'end', 'in', 'fun', 'let', 'do', 'then', 'else', 'if', 'open', 'by', 'show', 'have', 'with', 'where',
           'theorem', 'def', 'local', 'instance', 'variable', 'mu', 'lemma', 'Type', 'Prop', 'Sort', 'yield', 'match', 'return', 'JT', 'fuel'}
def lean_id(nm):
    return nm + '_' if nm in LEAN_KW else nm

def lean_float(v):
    """Java double literal -> Lean scientific literal: the shortest decimal that round-trips to the same double
    (the same rendering tools/c2lean.py gives the C literals, so equal doubles get equal texts)"""
    f = float(v); r = repr(f)
    if r in ('inf', 'nan', '-inf'): raise Unsupported('non-finite literal')
    neg = r.startswith('-')
    if neg: r = r[1:]
    if 'e' in r:
        m, e = r.split('e')
        if '.' not in m: m += '.0'
        s = '%se%d' % (m, int(e))
    else:
        if '.' not in r: r += '.0'
        s = r
    return '(-%s : α)' % s if neg else '(%s : α)' % s

def lean_int(v): return '(%d : Int)' % v
def lean_str(s): return json.dumps(s, ensure_ascii=False)
def lean_ty(jt):
    if jt == 'int': return 'Int'
    if jt == 'double': return 'α'
    if jt.endswith('[]'): return '(JArr %s)' % lean_ty(jt[:-2])
    raise Unsupported('type %s' % jt)

def wrap32(x): return (x + 2 ** 31) % 2 ** 32 - 2 ** 31
INT_LIT = re.compile(r'\((-?\d+) : Int\)')

def tuple_text(vs):
    if not vs: return '()'
    return vs[0] if len(vs) == 1 else '(' + ', '.join(vs) + ')'
def tuple_unpack(j, vs):
    if not vs: return []
    if len(vs) == 1: return ['let %s := %s' % (vs[0], j)]
    return ['let %s := %s%s' % (v, j, '.2' * i + ('.1' if i < len(vs) - 1 else '')) for i, v in enumerate(vs)]
def indent(lines, n=2): return [' ' * n + l for l in lines]
def paren_block(pre, last): return 'do ' + '; '.join(pre + [last])

class Program:
    def __init__(self, path):
        self.path = path
        self.src = open(path, encoding='utf-8', errors='replace').read()
        self.toks = tokenize(self.src)
        self.cls = Parser(self.toks).compilation_unit()
        self.consts = {}        # name -> ('int', v) | ('double', text) | ('String', text)
        self.fields = {}        # name -> dict(type, mods, init span, line)
        self.classes = {}       # nested classes by name
        self.methods = {}       # top-level methods by name (overloads: list)
        self.const_arrays = {}  # name -> dict(elem='int'|record class, fields=[...], rows=[[ints]])
        self.instances = {}     # FIELD -> dict(line, methods={name: (method node, owner class)}, alias={abstract name: top-level static})
        self.unsupported = []   # (line, method, why)
        for m in self.cls['members']:
            if m['k'] == 'class': self.classes[m['name']] = m
            elif m['k'] == 'method': self.methods.setdefault(m['name'], []).append(m)
            elif m['k'] == 'field':
                for nm, ty, init in m['decls']:
                    self.fields[nm] = dict(type=ty, mods=m['mods'], init=init, line=m['line'])
        self.fold_constants()
        self.find_const_arrays()
        self.find_instances()

    def parse_span(self, span, what='expr'):
        p = sub_parser(self.toks, span)
        return p.block() if what == 'block' else (p.array_init_elem() if what == 'init' else p.expr())

    # ---- static final primitive constants
    def fold_constants(self):
        pending = {nm: f for nm, f in self.fields.items() if 'static' in f['mods'] and 'final' in f['mods'] and f['type'] in ('int', 'double', 'String') and f['init']}
        progress = True
        while pending and progress:
            progress = False
            for nm in list(pending):
                f = pending[nm]
                try:
                    v = self.const_eval(self.parse_span(f['init']))
                except Unsupported:
                    continue
                if v is None: continue
                if f['type'] == 'double' and v[0] == 'int': v = ('double', repr(float(v[1])))
                if f['type'] == 'int' and v[0] != 'int': continue
                self.consts[nm] = v; del pending[nm]; progress = True

    def const_eval(self, e, shadow=()):
        """-> ('int', v) | ('double', text) | ('String', s) | None   (`shadow`: local names hiding the static constants)"""
        k = e['k']
        if k == 'int': return ('int', e['v'])
        if k == 'dbl': return ('double', e['v'])
        if k == 'str': return ('String', e['v'])
        if k == 'paren': return self.const_eval(e['e'], shadow)
        if k == 'name': return None if lean_id(e['v']) in shadow else self.consts.get(e['v'])
        if k == 'field' and e['obj']['k'] == 'name' and e['obj']['v'] == self.cls['name']: return self.consts.get(e['name'])
        if k == 'un' and e['op'] in '+-':
            v = self.const_eval(e['e'], shadow)
            if v and v[0] == 'int': return ('int', wrap32(-v[1]) if e['op'] == '-' else v[1])
            if v and v[0] == 'double' and e['op'] == '-': return ('double', repr(-float(v[1])))
            return v if e['op'] == '+' else None
        if k == 'bin' and e['op'] in '+-*':
            a = self.const_eval(e['a'], shadow); b = self.const_eval(e['b'], shadow)
            if a and b and a[0] == 'int' and b[0] == 'int':
                return ('int', wrap32({'+': a[1] + b[1], '-': a[1] - b[1], '*': a[1] * b[1]}[e['op']]))
        return None

    # ---- static final arrays of constants:  int[] {C, …}   |   Rec[] { new Rec(C, …), … }
    def find_const_arrays(self):
        for nm, f in self.fields.items():
            if not ('static' in f['mods'] and 'final' in f['mods'] and f['type'].endswith('[]') and f['init']): continue
            elem = f['type'][:-2]
            try:
                e = self.parse_span(f['init'], 'init')
                if e['k'] != 'newarr' or e['init'] is None: continue
                rows = []
                if elem == 'int':
                    for x in e['init']:
                        v = self.const_eval(x)
                        if not v or v[0] != 'int': raise Unsupported('non-constant element')
                        rows.append([v[1]])
                    self.const_arrays[nm] = dict(elem='int', fields=None, rows=rows, line=f['line'])
                elif elem in self.classes:
                    flds = self.record_fields(self.classes[elem])
                    if flds is None: continue
                    for x in e['init']:
                        if x['k'] != 'new' or x['ty'] != elem or len(x['args']) != len(flds): raise Unsupported('element is not new %s(...)' % elem)
                        r = []
                        for a in x['args']:
                            v = self.const_eval(a)
                            if not v or v[0] != 'int': raise Unsupported('non-constant element')
                            r.append(v[1])
                        rows.append(r)
                    self.const_arrays[nm] = dict(elem=elem, fields=flds, rows=rows, line=f['line'])
            except Unsupported:
                continue

    def record_fields(self, c):
        """class with final int fields and a constructor `this.f = f` for each parameter, in order -> field names"""
        ctor = [m for m in c['members'] if m['k'] == 'ctor']
        if len(ctor) != 1: return None
        ctor = ctor[0]
        if any(t != 'int' for _, t in ctor['params']): return None
        try: body = self.parse_span(ctor['body'], 'block')['body']
        except Unsupported: return None
        out = []
        if len(body) != len(ctor['params']): return None
        for s, (pn, _) in zip(body, ctor['params']):
            e = s.get('e') if s['k'] == 'expr' else None
            if not e or e['k'] != 'assign' or e['op'] != '=' or e['lhs']['k'] != 'field' or e['lhs']['obj'] != dict(k='name', v='this', line=e['lhs']['obj'].get('line')) \
               or e['rhs']['k'] != 'name' or e['rhs']['v'] != pn: return None
            out.append(e['lhs']['name'])
        return out

    # ---- objects that only select an implementation
    def find_instances(self):
        for nm, f in self.fields.items():
            if not ('static' in f['mods'] and 'final' in f['mods'] and f['type'] in self.classes and f['init']): continue
            c = self.classes[f['type']]
            try: e = self.parse_span(f['init'])
            except Unsupported: continue
            meths = {}; alias = {}
            def add_class(cc):
                if cc['ext'] and cc['ext'] in self.classes: add_class(self.classes[cc['ext']])
                for m in cc['members']:
                    if m['k'] == 'method':
                        if m['body'] is not None: meths[m['name']] = (m, cc['name'])
                        elif m['name'] not in meths: meths[m['name']] = (m, cc['name'])
            if e['k'] == 'mref' and c['kind'] == 'interface' and e['obj']['k'] == 'name' and e['obj']['v'] == self.cls['name']:
                add_class(c)
                abstract = [n for n, (m, _) in meths.items() if m['body'] is None]
                if len(abstract) != 1: continue
                alias[abstract[0]] = e['name']; del meths[abstract[0]]
            elif e['k'] == 'new' and e['ty'] in self.classes and not e['args']:
                add_class(self.classes[e['ty']])
                if any(m['body'] is None for m, _ in meths.values()): continue
            else:
                continue
            self.instances[nm] = dict(line=f['line'], methods=meths, alias=alias)

# ================================================================================================ method translation

MATH_PURE = {'exp': 'XNum.exp', 'sin': 'XNum.sin', 'cos': 'XNum.cos', 'tan': 'XNum.tan', 'abs': 'XNum.fabs', 'atan': 'XNum.atan'}
MATH_CHK = {'log': 'jlog', 'sqrt': 'jsqrt'}
MATH_CONST = {'PI': '3.141592653589793', 'E': '2.718281828459045'}

def unparen(e):
    while e['k'] == 'paren': e = e['e']
    return e

class Unit:
    """one Lean definition to be: a top-level static method, or a method of a devirtualised instance"""
    def __init__(self, lname, node, inst=None, public=False):
        self.lname = lname; self.node = node; self.inst = inst; self.public = public
        self.body = None; self.callees = set(); self.text = None; self.err = None

class MTrans:
    def __init__(self, prog, unit, units, recursive):
        self.P = prog; self.u = unit; self.units = units; self.recursive = recursive
        self.tmp = 0
        self.params = unit.node['params']
        self.vars = {lean_id(n): t for n, t in self.params}       # lean name -> java type
        self.ret = unit.node['ret']
        self.loop_stack = []
        self.name = unit.node['name']

    def fresh(self, base):
        self.tmp += 1; return '%s_%d' % (base, self.tmp)
    def bad(self, why, e=None):
        raise Unsupported(why, (e or {}).get('line'))

    # ---- name resolution of calls
    def resolve(self, obj, name):
        """-> Unit name of the callee or None"""
        if obj is None or (obj['k'] == 'name' and obj['v'] in (self.P.cls['name'], 'this')):
            if self.u.inst:
                I = self.P.instances[self.u.inst]
                if name in I['alias']: return I['alias'][name]
                if name in I['methods']: return self.u.inst + '__' + name
            return name
        if obj['k'] == 'name' and obj['v'] in self.P.instances:
            I = self.P.instances[obj['v']]
            if name in I['alias']: return I['alias'][name]
            if name in I['methods']: return obj['v'] + '__' + name
        return None

    # ---- expressions -> (pre, text, type)
    def expr(self, e):
        k = e['k']
        cv = self.P.const_eval(e, self.vars)
        if cv is not None:
            if cv[0] == 'int': return [], lean_int(cv[1]), 'int'
            if cv[0] == 'double': return [], lean_float(cv[1]), 'double'
            if cv[0] == 'String': return [], lean_str(cv[1]), 'String'
        if k == 'paren': return self.expr(e['e'])
        if k == 'name':
            nm = e['v']; ln = lean_id(nm)
            if ln in self.vars: return [], ln, self.vars[ln]
            if nm in JTABLE_FIELDS:
                f = self.P.fields.get(nm)
                if not f or f['type'] != JTABLE_FIELDS[nm] or 'final' in f['mods']:
                    self.bad('field %s is declared as `%s` but JTables knows it as `%s`' % (nm, f and f['type'], JTABLE_FIELDS[nm]), e)
                ty = JTABLE_FIELDS[nm]
                return [], ('(some JT.%s)' % nm if ty.endswith('[]') else 'JT.%s' % nm), ty
            if nm in self.P.fields: self.bad('static field %s is not part of JTables' % nm, e)
            self.bad('unknown name %s' % nm, e)
        if k == 'field':
            o = e['obj']
            if o['k'] == 'name' and o['v'] == 'Math' and e['name'] in MATH_CONST: return [], lean_float(MATH_CONST[e['name']]), 'double'
            if o['k'] == 'name' and o['v'] == self.P.cls['name']: return self.expr(dict(k='name', v=e['name'], line=e['line']))
            if o['k'] == 'name' and lean_id(o['v']) in self.vars and self.vars[lean_id(o['v'])] in self.P.classes:
                flds = self.P.record_fields(self.P.classes[self.vars[lean_id(o['v'])]])
                if flds and e['name'] in flds:
                    i = flds.index(e['name'])
                    proj = '.2' * i + ('.1' if i < len(flds) - 1 else '') if len(flds) > 1 else ''
                    return [], lean_id(o['v']) + proj, 'int'
            self.bad('field access .%s' % e['name'], e)
        if k == 'un':
            if e['op'] == '+': return self.expr(e['e'])
            if e['op'] == '-':
                pre, t, ty = self.expr(e['e'])
                if ty == 'int': return pre, '(wrapI (-%s))' % t, 'int'
                if ty == 'double': return pre, '(-%s)' % t, 'double'
            self.bad('unary %s' % e['op'], e)
        if k == 'bin':
            op = e['op']
            if op in ('+', '-', '*', '/'):
                pa, a, ta = self.expr(e['a']); pb, b, tb = self.expr(e['b'])
                if ta == 'int' and tb == 'int':
                    if op == '/': self.bad('int division', e)
                    return pa + pb, '(wrapI (%s %s %s))' % (a, op, b), 'int'
                if {ta, tb} <= {'int', 'double'}:
                    a = self.coerce(a, ta, 'double'); b = self.coerce(b, tb, 'double')
                    if op == '/':
                        m = re.fullmatch(r'\((-?[0-9.e-]+) : α\)', b)
                        if m and float(m.group(1)) != 0.0: return pa + pb, '(%s / %s)' % (a, b), 'double'
                        q = self.fresh('q')
                        return pa + pb + ['let %s ← jdiv %s %s' % (q, a, b)], q, 'double'
                    return pa + pb, '(%s %s %s)' % (a, op, b), 'double'
                self.bad('arithmetic on %s, %s' % (ta, tb), e)
            self.bad('operator %s as a value' % op, e)
        if k == 'cond':
            pc, c = self.cond(e['c'])
            pa, a, ta = self.expr(e['a']); pb, b, tb = self.expr(e['b'])
            if pa or pb: self.bad('effects inside ?:', e)
            if ta != tb:
                if {ta, tb} <= {'int', 'double'}: a = self.coerce(a, ta, 'double'); b = self.coerce(b, tb, 'double'); ta = 'double'
                else: self.bad('?: on %s, %s' % (ta, tb), e)
            return pc, '(if %s then %s else %s)' % (c, a, b), ta
        if k == 'cast':
            pre, t, ty = self.expr(e['e'])
            if e['ty'] == 'double' and ty in ('int', 'double'): return pre, self.coerce(t, ty, 'double'), 'double'
            if e['ty'] == 'int' and ty == 'int': return pre, t, ty
            self.bad('cast (%s) of %s' % (e['ty'], ty), e)
        if k == 'index':
            pa, a, ta = self.expr(e['a'])
            if not ta.endswith('[]'): self.bad('subscript of %s' % ta, e)
            pi, i, ti = self.expr(e['i'])
            if ti != 'int': self.bad('subscript of type %s' % ti, e)
            v = self.fresh('a')
            return pa + pi + ['let %s ← jrd %s %s %s' % (v, lean_str(self.arr_name(e['a'])), a, i)], v, ta[:-2]
        if k == 'call':
            return self.call(e)
        self.bad('expression %s' % k, e)

    def arr_name(self, e):
        e = unparen(e)
        if e['k'] == 'name': return e['v']
        if e['k'] == 'index': return self.arr_name(e['a']) + '[]'
        return '?'

    def coerce(self, t, fromty, toty):
        if fromty == toty: return t
        if fromty == 'int' and toty == 'double':
            m = INT_LIT.fullmatch(t)
            if m: return lean_float(m.group(1))
            return '(XNum.ofInt %s : α)' % t
        self.bad('conversion %s -> %s' % (fromty, toty))

    def call(self, e):
        o = e['obj']
        if o is not None and o['k'] == 'name' and o['v'] == 'Math':
            if len(e['args']) != 1: self.bad('Math.%s' % e['name'], e)
            pre, t, ty = self.expr(e['args'][0]); t = self.coerce(t, ty, 'double')
            if e['name'] in MATH_PURE: return pre, '(%s %s)' % (MATH_PURE[e['name']], t), 'double'
            if e['name'] in MATH_CHK:
                m = self.fresh('m')
                return pre + ['let %s ← %s %s' % (m, MATH_CHK[e['name']], t)], m, 'double'
            self.bad('Math.%s' % e['name'], e)
        tgt = self.resolve(o, e['name'])
        if tgt is None or tgt not in self.units: self.bad('call of %s%s' % ((o['v'] + '.') if o and o['k'] == 'name' else '', e['name']), e)
        cu = self.units[tgt]
        if cu.err: self.bad('calls %s, which is not translated' % tgt, e)
        ps = cu.node['params']
        if len(ps) != len(e['args']): self.bad('arity of %s' % tgt, e)
        pre = []; ats = []
        for (pn, pt), a in zip(ps, e['args']):
            p, t, ty = self.expr(a)
            if ty != pt: t = self.coerce(t, ty, pt)
            pre += p; ats.append(t)
        self.u.callees.add(tgt)
        r = self.fresh('r')
        if tgt in self.recursive: fn = '%s_fuel fuel' % tgt
        else: fn = tgt
        pre.append('let %s ← %s JT %s' % (r, fn, ' '.join(ats)) if ats else 'let %s ← %s JT' % (r, fn))
        return pre, r, cu.node['ret']

    # ---- conditions -> (pre, prop text)
    def cond(self, e):
        e = unparen(e)
        k = e['k']
        if k == 'bin' and e['op'] in ('||', '&&'):
            pa, a = self.cond(e['a']); pb, b = self.cond(e['b'])
            sym = '∨' if e['op'] == '||' else '∧'
            if not pb: return pa, '(%s %s %s)' % (a, sym, b)
            c = self.fresh('c')
            if e['op'] == '||': line = 'let %s ← (if %s then pure true else (%s))' % (c, a, paren_block(pb, 'pure (decide %s)' % b))
            else: line = 'let %s ← (if %s then (%s) else pure false)' % (c, a, paren_block(pb, 'pure (decide %s)' % b))
            return pa + [line], '(%s = true)' % c
        if k == 'bin' and e['op'] in ('<', '>', '<=', '>=', '==', '!='):
            op = e['op']
            pa, a, ta = self.expr(e['a']); pb, b, tb = self.expr(e['b'])
            if ta == 'int' and tb == 'int':
                t = {'<': '%s < %s', '>': '%s > %s', '<=': '%s ≤ %s', '>=': '%s ≥ %s', '==': '%s = %s', '!=': '%s ≠ %s'}[op]
                return pa + pb, '(' + t % (a, b) + ')'
            if {ta, tb} <= {'int', 'double'}:
                a = self.coerce(a, ta, 'double'); b = self.coerce(b, tb, 'double')
                if op == '<': t = '(%s < %s)' % (a, b)
                elif op == '>': t = '(%s < %s)' % (b, a)
                elif op == '<=': t = '(%s ≤ %s)' % (a, b)
                elif op == '>=': t = '(%s ≤ %s)' % (b, a)
                elif op == '==': t = '(deq %s %s)' % (a, b)
                else: t = '(¬ deq %s %s)' % (a, b)
                return pa + pb, t
            self.bad('comparison of %s, %s' % (ta, tb), e)
        if k == 'un' and e['op'] == '!':
            p, c = self.cond(e['e']); return p, '(¬ %s)' % c
        if k == 'bool': return [], 'True' if e['v'] else 'False'
        self.bad('condition %s' % k, e)

    # ---- statements (CPS as in c2lean: `k` = lines run when control falls through, None = unreachable)
    def flat(self, s):
        return s['body'] if s['k'] == 'block' else [s]

    def assigned(self, s, acc):
        k = s.get('k')
        if k == 'assign':
            l = unparen(s['lhs'])
            if l['k'] == 'name': acc.add(lean_id(l['v']))
        if k in ('postinc', 'preinc'):
            l = unparen(s['e'])
            if l['k'] == 'name': acc.add(lean_id(l['v']))
        for v in s.values():
            if isinstance(v, dict) and 'k' in v: self.assigned(v, acc)
            elif isinstance(v, (list, tuple)):
                for x in v: self._assigned_any(x, acc)
        return acc
    def _assigned_any(self, x, acc):
        if isinstance(x, dict) and 'k' in x: self.assigned(x, acc)
        elif isinstance(x, (list, tuple)):
            for y in x: self._assigned_any(y, acc)

    def declared(self, s, acc):
        if s.get('k') == 'local':
            for nm, _, _ in s['decls']: acc.add(lean_id(nm))
        if s.get('k') == 'foreach': acc.add(lean_id(s['var']))
        for v in s.values(): self._declared_any(v, acc)
        return acc
    def _declared_any(self, x, acc):
        if isinstance(x, dict) and 'k' in x: self.declared(x, acc)
        elif isinstance(x, (list, tuple)):
            for y in x: self._declared_any(y, acc)

    def has_jump(self, s, kinds):
        if s.get('k') in kinds: return True
        for key, v in s.items():
            if s.get('k') in ('for', 'foreach', 'while', 'switch') and key == 'body' and ('break' in kinds or 'continue' in kinds) and 'return' not in kinds: continue
            if self._jump_any(v, kinds): return True
        return False
    def _jump_any(self, x, kinds):
        if isinstance(x, dict) and 'k' in x: return self.has_jump(x, kinds)
        if isinstance(x, (list, tuple)): return any(self._jump_any(y, kinds) for y in x)
        return False

    def terminates(self, s):
        k = s['k']
        if k in ('return', 'throw', 'break', 'continue'): return True
        if k == 'block': return any(self.terminates(c) for c in s['body'])
        if k == 'if': return s['els'] is not None and self.terminates(s['then']) and self.terminates(s['els'])
        if k == 'try': return self.terminates(s['body']) and all(self.terminates(c[2]) for c in s['catches'])
        if k == 'switch':
            return any(None in labs for labs, _ in s['cases']) and all(ss and self.terminates(dict(k='block', body=ss)) and not self.has_jump(dict(k='block', body=ss), ('break',)) for labs, ss in s['cases'])
        return False

    def join_vars(self, stmts):
        vs = set(); decl = set()
        for s in stmts: self.assigned(s, vs); self.declared(s, decl)
        return sorted(v for v in vs if v not in decl and v in self.vars)

    def ret_lines(self, pre, val):
        if self.loop_stack and self.loop_stack[-1][0] == 'ctl': return pre + ['pure (Ctl.ret %s)' % val]
        if self.loop_stack: self.bad('return inside a loop translated without control state')
        return pre + ['pure %s' % val]

    def block(self, stmts, k):
        if not stmts:
            if k is None: self.bad('control reaches the end of the method')
            return list(k)
        s, rest = stmts[0], stmts[1:]
        kd = s['k']
        if kd == 'block':
            # Java block scope: names declared inside do not escape, but since Lean `let` shadows and Java forbids shadowing of locals, flattening is sound
            return self.block(s['body'] + rest, k)
        if kd == 'empty': return self.block(rest, k)
        if kd == 'local':
            out = []
            for nm, ty, init in s['decls']:
                if not (NUMERIC_PARAM.match(ty)): self.bad('local of type %s' % ty, s)
                ln = lean_id(nm)
                if init is not None:
                    pre, t, ety = self.expr(init)
                    if ety != ty: t = self.coerce(t, ety, ty)
                    out += pre + ['let %s := %s' % (ln, t)]
                else:
                    dv = {'int': '(0 : Int)', 'double': '(0.0 : α)'}.get(ty)
                    if dv is None: self.bad('uninitialised local of type %s' % ty, s)
                    out.append('let %s := %s' % (ln, dv))
                self.vars[ln] = ty
            return out + self.block(rest, k)
        if kd == 'return':
            if s['e'] is None: self.bad('return without value', s)
            pre, t, ty = self.expr(s['e'])
            if ty != self.ret: t = self.coerce(t, ty, self.ret)
            return self.ret_lines(pre, t)
        if kd == 'throw':
            e = s['e']
            if e['k'] != 'new' or e['ty'] != 'IllegalArgumentException' or len(e['args']) != 1: self.bad('throw of something else than new IllegalArgumentException(MSG)', s)
            v = self.P.const_eval(e['args'][0])
            if not v or v[0] != 'String': self.bad('exception message is not a string constant', s)
            return ['throw (JStop.iae %s)' % lean_str(v[1])]
        if kd == 'expr': return self.simple(s['e']) + self.block(rest, k)
        if kd == 'break':
            if not self.loop_stack or self.loop_stack[-1][0] != 'ctl': self.bad('break outside a loop with control state', s)
            return ['pure (Ctl.brk %s)' % self.loop_stack[-1][1]]
        if kd == 'continue':
            if not self.loop_stack: self.bad('continue outside loop', s)
            if self.loop_stack[-1][0] == 'simple': return ['pure %s' % self.loop_stack[-1][1]]
            return ['pure (Ctl.next %s)' % self.loop_stack[-1][1]]
        if kd == 'if': return self.if_stmt(s, rest, k)
        if kd == 'for': return self.for_stmt(s, rest, k)
        if kd == 'foreach': return self.foreach_stmt(s, rest, k)
        if kd == 'switch': return self.block([self.switch_to_if(s)] + rest, k)
        if kd == 'try': return self.try_stmt(s, rest, k)
        if kd == 'while': return self.while_stmt(s, rest, k)
        self.bad('statement %s' % kd, s)

    def simple(self, e):
        e = unparen(e)
        if e['k'] == 'assign':
            l = unparen(e['lhs'])
            if l['k'] != 'name' or lean_id(l['v']) not in self.vars: self.bad('assignment to something else than a local', e)
            ln = lean_id(l['v']); lt = self.vars[ln]
            if e['op'] == '=':
                pre, t, ty = self.expr(e['rhs'])
                if ty != lt: t = self.coerce(t, ty, lt)
                return pre + ['let %s := %s' % (ln, t)]
            if e['op'] in ('+=', '-=', '*=', '/='):
                # x op= e  is  x = x op e  with x read first (JLS 15.26.2); x is a local, its read has no effect
                pre, t, ty = self.expr(dict(k='bin', op=e['op'][0], a=l, b=e['rhs'], line=e['line']))
                if ty != lt: self.bad('compound assignment changes type', e)
                return pre + ['let %s := %s' % (ln, t)]
            self.bad('assignment operator %s' % e['op'], e)
        if e['k'] in ('postinc', 'preinc'):
            l = unparen(e['e'])
            if l['k'] != 'name' or self.vars.get(lean_id(l['v'])) != 'int': self.bad('++ on something else than an int local', e)
            ln = lean_id(l['v'])
            return ['let %s := (wrapI (%s %s (1 : Int)))' % (ln, ln, '+' if e['op'] == '++' else '-')]
        if e['k'] == 'call':
            pre, t, ty = self.call(e); return pre
        self.bad('expression statement %s' % e['k'], e)

    def if_stmt(self, s, rest, k):
        pre, p = self.cond(s['cond'])
        th = s['then']; el = s['els']
        th_term = self.terminates(th); el_term = el is not None and self.terminates(el)
        saved = dict(self.vars)
        def scoped(f):
            v0 = dict(self.vars)
            try: return f()
            finally: self.vars = v0
        if th_term and el_term:
            return pre + ['if %s then' % p] + indent(scoped(lambda: self.block([th], None))) + ['else'] + indent(scoped(lambda: self.block([el], None)))
        if th_term:
            a = scoped(lambda: self.block([th], None))
            b = scoped(lambda: self.block(([el] if el else []) + rest, k))
            return pre + ['if %s then' % p] + indent(a) + ['else'] + indent(b)
        if el_term:
            b = scoped(lambda: self.block([el], None))
            a = scoped(lambda: self.block([th] + rest, k))
            return pre + ['if %s then' % p] + indent(a) + ['else'] + indent(b)
        jk = ('return', 'break', 'continue', 'throw')
        jumps = self.has_jump(th, jk) or (el is not None and self.has_jump(el, jk))
        if jumps or not rest:
            a = scoped(lambda: self.block([th] + rest, k))
            b = scoped(lambda: self.block(([el] if el else []) + rest, k))
            return pre + ['if %s then' % p] + indent(a) + ['else'] + indent(b)
        jv = self.join_vars([th] + ([el] if el else []))
        tup = tuple_text(jv)
        a = scoped(lambda: self.block([th], ['pure %s' % tup]))
        b = scoped(lambda: self.block([el], ['pure %s' % tup])) if el else ['pure %s' % tup]
        j = self.fresh('j')
        out = pre + ['let %s ← (if %s then (do' % (j, p)] + indent(a, 4) + ['  ) else (do'] + indent(b, 4) + ['  ))']
        out += tuple_unpack(j, jv)
        return out + self.block(rest, k)

    def switch_to_if(self, s):
        sc = unparen(s['e'])
        if sc['k'] != 'name': self.bad('switch on something else than a local', s)
        chain = None; default = None; arms = []
        for labs, ss in s['cases']:
            if not ss: self.bad('empty switch arm (fall through)', s)
            last = ss[-1]
            if last['k'] == 'break': body = ss[:-1]
            elif self.terminates(dict(k='block', body=ss)): body = ss
            else: self.bad('switch arm falls through', s)
            if self.has_jump(dict(k='block', body=body), ('break',)): self.bad('break inside a switch arm', s)
            arms.append((labs, body))
        for labs, body in arms:
            if None in labs:
                if len(labs) > 1: self.bad('default shares an arm with a case', s)
                default = dict(k='block', body=body, line=s['line'])
        for labs, body in reversed(arms):
            if None in labs: continue
            c = None
            for l in labs:
                t = dict(k='bin', op='==', a=sc, b=l, line=s['line'])
                c = t if c is None else dict(k='bin', op='||', a=c, b=t, line=s['line'])
            chain = dict(k='if', cond=c, then=dict(k='block', body=body, line=s['line']), els=(chain if chain is not None else default), line=s['line'])
        return chain if chain is not None else (default or dict(k='empty', line=s['line']))

    # ---- try / catch
    def try_stmt(self, s, rest, k):
        if len(s['catches']) != 1: self.bad('try with %d catch clauses' % len(s['catches']), s)
        tys, var, hb = s['catches'][0]
        if tys == ['IllegalArgumentException']: fn = 'jtry'
        elif tys == ['Exception']: fn = 'jtryAll'
        else: self.bad('catch (%s)' % '|'.join(tys), s)
        body = [x for x in s['body']['body'] if x['k'] != 'empty']
        if len(body) != 1 or body[0]['k'] not in ('expr', 'return'):
            self.bad('try block is not a single assignment / call / return statement', s)
        hstm = [x for x in hb['body'] if x['k'] != 'empty']
        if self.terminates(s['body']) and self.terminates(hb) and not self.has_jump(hb, ('continue', 'break')):
            v0 = dict(self.vars)
            a = self.block(body, None); self.vars = dict(v0)
            b = self.block(hstm, None); self.vars = v0
            return ['%s (do' % fn] + indent(a, 4) + ['  ) (do'] + indent(b, 4) + ['  )']
        # handler `continue` as the last statement of a loop body without control state is the same as falling through
        if hstm and hstm[-1]['k'] == 'continue' and not rest and self.loop_stack and self.loop_stack[-1][0] == 'simple':
            hstm = hstm[:-1]
        jk = ('return', 'break', 'continue', 'throw')
        if any(self.has_jump(x, jk) for x in body + hstm): self.bad('jump inside try/catch that does not end both paths', s)
        jv = self.join_vars(body + hstm)
        tup = tuple_text(jv)
        v0 = dict(self.vars)
        a = self.block(body, ['pure %s' % tup]); self.vars = dict(v0)
        b = self.block(hstm, ['pure %s' % tup]); self.vars = v0
        j = self.fresh('t')
        out = ['let %s ← %s (do' % (j, fn)] + indent(a, 4) + ['  ) (do'] + indent(b, 4) + ['  )'] + tuple_unpack(j, jv)
        return out + self.block(rest, k)

    # ---- loops
    def for_stmt(self, s, rest, k):
        init = s['init']; declared_here = False
        if init is None: self.bad('for without initialisation', s)
        if init['k'] == 'local':
            if len(init['decls']) != 1 or init['decls'][0][1] != 'int' or init['decls'][0][2] is None: self.bad('for initialisation', s)
            iv = init['decls'][0][0]; lo_e = init['decls'][0][2]; declared_here = True
        else:
            e = unparen(init['e'])
            if e['k'] != 'assign' or e['op'] != '=' or unparen(e['lhs'])['k'] != 'name': self.bad('for initialisation', s)
            iv = unparen(e['lhs'])['v']; lo_e = e['rhs']
            if self.vars.get(lean_id(iv)) != 'int': self.bad('for induction variable is not an int local', s)
        plo, lo, tlo = self.expr(lo_e)
        c = unparen(s['cond']) if s['cond'] else None
        if not c or c['k'] != 'bin' or c['op'] not in ('<', '<=') or unparen(c['a']) != dict(unparen(c['a']), k='name', v=iv): self.bad('for condition', s)
        phi, hi, thi = self.expr(c['b'])
        if plo or phi or tlo != 'int' or thi != 'int': self.bad('for bounds with effects', s)
        if c['op'] == '<=':
            m = INT_LIT.fullmatch(hi)
            hi = lean_int(int(m.group(1)) + 1) if m else '(wrapI (%s + (1 : Int)))' % hi
        u = unparen(s['upd']) if s['upd'] else None
        if not u or u['k'] not in ('postinc', 'preinc') or u['op'] != '++' or unparen(u['e']).get('v') != iv: self.bad('for increment', s)
        liv = lean_id(iv)
        if liv in self.assigned(s['body'], set()): self.bad('induction variable modified in the loop body', s)
        v0 = dict(self.vars); self.vars[liv] = 'int'
        jv = [v for v in self.join_vars([s['body']]) if v != liv]
        has_ret = self.has_jump(s['body'], ('return',)); has_brk = self.has_jump(s['body'], ('break',))
        tup = tuple_text(jv); st = self.fresh('st')
        if not has_ret and not has_brk:
            self.loop_stack.append(('simple', tup))
            try: b = self.block([s['body']], ['pure %s' % tup])
            finally: self.loop_stack.pop()
            self.vars = v0
            out = ['let %s ← jloopM %s %s %s (fun %s %s => do' % (st, lo, hi, tup, liv, st + '_in')]
            out += indent(tuple_unpack(st + '_in', jv) + b, 4) + ['  )'] + tuple_unpack(st, jv)
            if not declared_here: out.append('let %s := (if %s ≤ %s then %s else %s)' % (liv, lo, hi, hi, lo))
            return out + self.block(rest, k)
        self.loop_stack.append(('ctl', tup))
        try: b = self.block([s['body']], ['pure (Ctl.next %s)' % tup])
        finally: self.loop_stack.pop()
        self.vars = v0
        out = ['let %s ← jloopCtlM %s %s %s (fun %s %s => do' % (st, lo, hi, tup, liv, st + '_in')]
        out += indent(tuple_unpack(st + '_in', jv) + b, 4) + ['  )']
        after = tuple_unpack(st + '_s', jv)
        if not declared_here: after.append('let %s := (if %s ≤ %s then %s else %s)' % (liv, lo, hi, hi, lo))
        wrap = 'pure (Ctl.ret %s_r)' % st if (self.loop_stack and self.loop_stack[-1][0] == 'ctl') else 'pure %s_r' % st
        return out + ['match %s with' % st, '| Sum.inl %s_r => %s' % (st, wrap), '| Sum.inr %s_s => do' % st] + indent(after + self.block(rest, k), 4)

    def foreach_stmt(self, s, rest, k):
        it = unparen(s['iter'])
        if it['k'] != 'name' or it['v'] not in self.P.const_arrays: self.bad('for-each over something else than a constant array', s)
        ca = self.P.const_arrays[it['v']]
        if s['vtype'] != ca['elem']: self.bad('for-each element type', s)
        lv = lean_id(s['var'])
        v0 = dict(self.vars); self.vars[lv] = ca['elem']
        jv = [v for v in self.join_vars([s['body']]) if v != lv]
        has_ret = self.has_jump(s['body'], ('return',)); has_brk = self.has_jump(s['body'], ('break',))
        tup = tuple_text(jv); st = self.fresh('st')
        self.u.statics = getattr(self.u, 'statics', set()) | {it['v']}
        if not has_ret and not has_brk:
            self.loop_stack.append(('simple', tup))
            try: b = self.block([s['body']], ['pure %s' % tup])
            finally: self.loop_stack.pop()
            self.vars = v0
            out = ['let %s ← jforEachM JStatic.%s %s (fun %s %s => do' % (st, it['v'], tup, lv, st + '_in')]
            out += indent(tuple_unpack(st + '_in', jv) + b, 4) + ['  )'] + tuple_unpack(st, jv)
            return out + self.block(rest, k)
        self.loop_stack.append(('ctl', tup))
        try: b = self.block([s['body']], ['pure (Ctl.next %s)' % tup])
        finally: self.loop_stack.pop()
        self.vars = v0
        out = ['let %s ← jforEachCtlM JStatic.%s %s (fun %s %s => do' % (st, it['v'], tup, lv, st + '_in')]
        out += indent(tuple_unpack(st + '_in', jv) + b, 4) + ['  )']
        wrap = 'pure (Ctl.ret %s_r)' % st if (self.loop_stack and self.loop_stack[-1][0] == 'ctl') else 'pure %s_r' % st
        return out + ['match %s with' % st, '| Sum.inl %s_r => %s' % (st, wrap), '| Sum.inr %s_s => do' % st] + indent(tuple_unpack(st + '_s', jv) + self.block(rest, k), 4)

    def while_stmt(self, s, rest, k):
        """only the bisection of splint:  while (HI-LO > 1) { K = (HI+LO) >> 1; if (XA[K] > X) HI = K; else LO = K; }"""
        def nm(e):
            e = unparen(e); return e['v'] if e['k'] == 'name' else None
        c = unparen(s['cond'])
        ok = c['k'] == 'bin' and c['op'] == '>' and unparen(c['b']) == dict(unparen(c['b']), k='int', v=1)
        d = unparen(c['a']) if ok else None
        ok = ok and d['k'] == 'bin' and d['op'] == '-' and nm(d['a']) and nm(d['b'])
        body = [x for x in self.flat(s['body']) if x['k'] != 'empty']
        if not ok or len(body) != 2: self.bad('while loop (only the bisection of splint is modelled)', s)
        HI, LO = nm(d['a']), nm(d['b'])
        a0 = unparen(body[0]['e']) if body[0]['k'] == 'expr' else None
        ok = a0 and a0['k'] == 'assign' and a0['op'] == '=' and nm(a0['lhs'])
        K = nm(a0['lhs']) if ok else None
        sh = unparen(a0['rhs']) if ok else None
        ok = ok and sh['k'] == 'bin' and sh['op'] == '>>' and unparen(sh['b']) == dict(unparen(sh['b']), k='int', v=1)
        sm = unparen(sh['a']) if ok else None
        ok = ok and sm['k'] == 'bin' and sm['op'] == '+' and nm(sm['a']) == HI and nm(sm['b']) == LO
        i1 = body[1]
        ok = ok and i1['k'] == 'if' and i1['els'] is not None
        if ok:
            cc = unparen(i1['cond'])
            ok = cc['k'] == 'bin' and cc['op'] == '>' and unparen(cc['a'])['k'] == 'index' and nm(unparen(cc['a'])['i']) == K and nm(unparen(cc['a'])['a']) and nm(cc['b'])
            XA = nm(unparen(cc['a'])['a']) if ok else None; X = nm(cc['b']) if ok else None
            def asg(st, lhs):
                ss = [x for x in self.flat(st) if x['k'] != 'empty']
                if len(ss) != 1 or ss[0]['k'] != 'expr': return False
                a = unparen(ss[0]['e'])
                return a['k'] == 'assign' and a['op'] == '=' and nm(a['lhs']) == lhs and nm(a['rhs']) == K
            ok = ok and asg(i1['then'], HI) and asg(i1['els'], LO)
        if not ok: self.bad('while loop (only the bisection of splint is modelled)', s)
        if self.vars.get(lean_id(XA)) != 'double[]' or self.vars.get(lean_id(X)) != 'double' or any(self.vars.get(lean_id(v)) != 'int' for v in (HI, LO, K)):
            self.bad('bisection over unexpected types', s)
        r = self.fresh('b')
        hi, lo = lean_id(HI), lean_id(LO)
        out = ['let %s := bisect (jgt %s %s) (%s - %s + 1).toNat %s.toNat %s.toNat' % (r, lean_id(XA), lean_id(X), hi, lo, lo, hi),
               'let %s := (%s.1 : Int)' % (lo, r), 'let %s := (%s.2 : Int)' % (hi, r)]
        return out + self.block(rest, k)

    # ---- whole method
    def translate(self):
        body = self.u.body
        lines = self.block(body['body'], None)
        return lines

# ================================================================================================ whole program

def sccs(graph):
    """Tarjan; components in reverse topological order (callees first)"""
    index = {}; low = {}; stack = []; on = set(); out = []; n = [0]
    sys.setrecursionlimit(10000)
    def visit(v):
        index[v] = low[v] = n[0]; n[0] += 1; stack.append(v); on.add(v)
        for w in sorted(graph.get(v, ())):
            if w not in graph: continue
            if w not in index: visit(w); low[v] = min(low[v], low[w])
            elif w in on: low[v] = min(low[v], index[w])
        if low[v] == index[v]:
            comp = []
            while True:
                w = stack.pop(); on.discard(w); comp.append(w)
                if w == v: break
            out.append(comp)
    for v in sorted(graph, key=lambda x: graph_order.get(x, 0)):
        if v not in index: visit(v)
    return out
graph_order = {}

def calls_in(e, acc):
    if isinstance(e, dict):
        if e.get('k') == 'call': acc.append((e['obj'], e['name']))
        for v in e.values(): calls_in(v, acc)
    elif isinstance(e, (list, tuple)):
        for x in e: calls_in(x, acc)
    return acc

HEADER = '''/- GENERATED by tools/j2lean.py from java/Xraylib.java of the working tree — do not edit. -/
'''
VARS = '''variable {α : Type} [Add α] [Sub α] [Mul α] [Div α] [Neg α] [LT α] [LE α] [OfScientific α]
  [DecidableLT α] [DecidableLE α] [XNum α]
'''

def numeric_sig(m):
    return m['ret'] in ('double', 'int') and all(NUMERIC_PARAM.match(t) for _, t in m['params'])

def run(repo, outdir, meta_path=None):
    path = os.path.join(repo, 'java', 'Xraylib.java')
    P = Program(path)
    units = {}; skipped = []
    for nm, ms in P.methods.items():
        if len(ms) != 1:
            skipped.append((nm, 'overloaded')); continue
        m = ms[0]
        if 'static' not in m['mods'] or m['body'] is None: skipped.append((nm, 'not static')); continue
        if not numeric_sig(m): skipped.append((nm, 'signature %s(%s)' % (m['ret'], ','.join(t for _, t in m['params'])))); continue
        units[nm] = Unit(nm, m, None, public='public' in m['mods'])
    for inst, I in P.instances.items():
        for mn, (m, owner) in I['methods'].items():
            if m['body'] is None or not numeric_sig(m): continue
            units[inst + '__' + mn] = Unit(inst + '__' + mn, m, inst)
    # parse bodies
    for u in units.values():
        try:
            u.body = P.parse_span(u.node['body'], 'block')
        except Unsupported as e:
            u.err = (e.line or u.node['line'], e.why)
    # call graph (by names, before translation) for the recursive groups
    graph = {}
    for nm, u in units.items():
        graph_order[nm] = u.node['line']
        if u.err: continue
        tr = MTrans(P, u, units, set())
        cs = set()
        for obj, name in calls_in(u.body, []):
            t = tr.resolve(obj, name)
            if t in units: cs.add(t)
        graph[nm] = cs
    comps = sccs(graph)
    recursive = {}
    for c in comps:
        if len(c) > 1 or c[0] in graph[c[0]]:
            for v in c: recursive[v] = set(c)
    # translate, callees first
    order = []
    for c in comps:
        c = sorted(c, key=lambda v: units[v].node['line'])
        for v in c:
            u = units[v]
            try:
                tr = MTrans(P, u, units, recursive.get(v, set()))
                u.lines = tr.translate()
            except Unsupported as e:
                u.err = (e.line or u.node['line'], e.why)
        if any(units[v].err for v in c):
            for v in c:
                if not units[v].err: units[v].err = (units[v].node['line'], 'in a recursive group with an untranslated method')
            continue
        order.append(c)
    # a unit whose err was set after a caller was translated cannot happen: callees are processed first
    unsupported = sorted((u.err[0], nm, u.err[1]) for nm, u in units.items() if u.err)
    for ln, nm, why in unsupported:
        print('UNSUPPORTED Xraylib.java:%d %s: %s' % (ln, nm, why))

    os.makedirs(outdir, exist_ok=True)
    for f in os.listdir(outdir):
        if f.endswith('.lean'): os.remove(os.path.join(outdir, f))
    # JStatic
    st = [HEADER, 'import Xrl.Core.Basic', 'namespace Xrl', 'namespace JStatic', '']
    for nm, ca in sorted(P.const_arrays.items()):
        ty = 'Int' if len(ca['rows'][0]) == 1 else '(' + ' × '.join(['Int'] * len(ca['rows'][0])) + ')'
        rows = [lean_int(r[0]) if len(r) == 1 else '(' + ', '.join(lean_int(x) for x in r) + ')' for r in ca['rows']]
        st.append('/-- Xraylib.java:%d%s -/' % (ca['line'], (' fields ' + ', '.join(ca['fields'])) if ca['fields'] else ''))
        st.append('def %s : List %s := [%s]' % (nm, ty, ', '.join(rows)))
        st.append('')
    st += ['end JStatic', 'end Xrl', '']
    open(os.path.join(outdir, 'JStatic.lean'), 'w').write('\n'.join(st))
    # method modules: consecutive chunks, each importing the previous one
    chunks = [[]]; size = 0
    for c in order:
        n = sum(len(units[v].lines) for v in c)
        if size and size + n > 900: chunks.append([]); size = 0
        chunks[-1].append(c); size += n
    mods = []
    for ci, ch in enumerate(chunks):
        mod = 'M_%02d' % ci
        out = [HEADER, 'import Xrl.JCore.Basic', 'import Xrl.JCore.JTables', 'import Xrl.JGen.JStatic']
        if mods: out.append('import Xrl.JGen.%s' % mods[-1])
        out += ['', 'set_option linter.unusedVariables false', 'set_option maxRecDepth 4096', 'namespace Xrl', 'namespace JGen', '', VARS]
        for c in ch:
            rec = c[0] in recursive
            if rec and len(c) > 1: out.append('mutual')
            for v in c:
                u = units[v]
                ps = ''.join(' (%s : %s)' % (lean_id(n), lean_ty(t)) for n, t in u.node['params'])
                rt = lean_ty(u.node['ret'])
                out.append('/-- Xraylib.java:%d %s%s -/' % (u.node['line'], u.node['name'], (' of ' + u.inst) if u.inst else ''))
                if rec:
                    out.append('def %s_fuel (fuel : Nat) (JT : JTables α)%s : JM %s :=' % (v, ps, rt))
                    out += ['  match fuel with', '  | 0 => throw JStop.fuel', '  | fuel+1 => do'] + indent(u.lines, 6)
                else:
                    out.append('def %s (JT : JTables α)%s : JM %s := do' % (v, ps, rt))
                    out += indent(u.lines, 2)
                out.append('')
            if rec and len(c) > 1: out += ['end', '']
            if rec:
                for v in c:
                    u = units[v]
                    ps = ''.join(' (%s : %s)' % (lean_id(n), lean_ty(t)) for n, t in u.node['params'])
                    out.append('def %s (JT : JTables α)%s : JM %s := %s_fuel FUEL JT%s' % (v, ps, lean_ty(u.node['ret']), v, ''.join(' ' + lean_id(n) for n, _ in u.node['params'])))
                    out.append('')
        out += ['end JGen', 'end Xrl', '']
        open(os.path.join(outdir, mod + '.lean'), 'w').write('\n'.join(out))
        mods.append(mod)
    open(os.path.join(outdir, 'Methods.lean'), 'w').write(HEADER + ''.join('import Xrl.JGen.%s\n' % m for m in mods))
    # dispatch for the driver: public static methods, scalar parameters only
    dis = [HEADER, 'import Xrl.JCore.Proto', 'import Xrl.JGen.Methods', 'namespace Xrl', '',
           'def dispatchJGen (JT : JTables Float) (fn : String) (a : Array String) : Option String :=', '  match fn with']
    public = []
    for c in order:
        for v in c:
            u = units[v]
            if not u.public or u.inst or any(t not in ('int', 'double') for _, t in u.node['params']): continue
            public.append(v)
    for v in sorted(public):
        ps = units[v].node['params']
        args = ' '.join('(%s a[%d]!)' % ('pI' if t == 'int' else 'pF', i) for i, (_, t) in enumerate(ps))
        dis.append('  | %s => if a.size = %d then some (jfmtR (JGen.%s JT %s)) else none' % (lean_str(v), len(ps) + 1, v, args))
    dis += ['  | _ => none', '', 'end Xrl', '']
    open(os.path.join(outdir, 'Dispatch.lean'), 'w').write('\n'.join(dis))
    meta = dict(source=path, sha256=hashlib.sha256(P.src.encode()).hexdigest(),
                translated=[dict(name=v, line=units[v].node['line'], java=units[v].node['name'], instance=units[v].inst, public=units[v].public,
                                 params=units[v].node['params'], ret=units[v].node['ret'], recursive=v in recursive, module=None) for c in order for v in c],
                unsupported=[dict(line=l, name=n, why=w) for l, n, w in unsupported],
                not_candidates=[dict(name=n, why=w) for n, w in sorted(skipped)],
                public_dispatch=sorted(public), modules=mods,
                const_arrays={k: v['rows'] for k, v in P.const_arrays.items()})
    if meta_path: json.dump(meta, open(meta_path, 'w'), indent=1)
    print('j2lean: %d methods translated (%d public with scalar parameters), %d unsupported, %d outside the numeric subset' % (
        len(meta['translated']), len(public), len(unsupported), len(skipped)))
    return 3 if unsupported else 0

if __name__ == '__main__':
    a = sys.argv[1:]
    repo = a[0] if a else os.environ.get('VERIF_REPO', '/repo')
    outdir = a[1] if len(a) > 1 else os.path.join(os.path.dirname(os.path.dirname(os.path.abspath(__file__))), 'lean', 'Xrl', 'JGen')
    sys.exit(run(repo, outdir, a[2] if len(a) > 2 else None))
