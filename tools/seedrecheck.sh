#!/bin/bash
# seedrecheck.sh <seeded-id> <check> [lane]  — re-run one check against a kept seeded change (seeded/<id>/patch.diff) from a COPY of /verif
# (lane directory /var/tmp/verif-recheck-<lane>), in a fresh scratch worktree of /repo; prints one line "<id> <check>: <verdict>"
ID=$1; C=$2; LANE=${3:-a}
COPY=/var/tmp/verif-recheck-$LANE; WT=/tmp/wtr-$ID
mkdir -p $COPY; rsync -a --delete --exclude .git --exclude evidence/replay --exclude notes --exclude seeded /verif/ $COPY/; mkdir -p $COPY/evidence/replay
git -C /repo worktree remove --force $WT >/dev/null 2>&1; git -C /repo worktree add --detach $WT HEAD -q || exit 2
if ! git -C $WT apply /verif/seeded/$ID/patch.diff 2>/dev/null; then echo "$ID $C: patch does not apply"; git -C /repo worktree remove --force $WT; exit 2; fi
r=$(cd $COPY && VERIF_REPO=$WT ./check $C 2>&1 | grep -E "^VIOLATION|exit [01]" | tr '\n' '|' | cut -c1-260)
git -C /repo worktree remove --force $WT
echo "$ID $C: $r"
