"""Shared pieces of the L4 extractors (C15, C20): Nat encoding of names, exact decimals, chunked Lean emission.

Everything an extractor cannot classify raises TieError: the check then reports a *broken tie*
(`VIOLATION … no-failing-input-found`), never a silently shorter table."""
import os, re

CHUNK = 40


class TieError(Exception):
    """the extractor met text it does not understand inside a region it claims to understand"""
    def __init__(self, file, line, text, why):
        self.file, self.line, self.text, self.why = file, line, text, why
        Exception.__init__(self, '%s:%s: %s: %r' % (file, line, why, (text or '')[:160]))


def nat_of(s):
    """big-endian base-256 of the ASCII name (order: shorter first, then lexicographic)"""
    b = s.encode('ascii')
    return int.from_bytes(b, 'big') if b else 0


def str_of_nat(n):
    return n.to_bytes((n.bit_length() + 7) // 8, 'big').decode('ascii')


DEC_RE = re.compile(r'([+-]?)(\d+)\.?(\d*)(?:[eEdD]([-+]?\d+))?')


def dec_norm(text):
    """exact value of a decimal literal as (mantissa, exp10) with mantissa not divisible by 10 (0 -> (0,0)).
    Returns None if `text` is not a plain decimal literal."""
    m = DEC_RE.fullmatch(text.strip())
    if not m: return None
    sign, ip, fp, ex = m.groups()
    mant = int(ip + fp); e = -len(fp) + (int(ex) if ex else 0)
    if mant == 0: return (0, 0)
    while mant % 10 == 0:
        mant //= 10; e += 1
    return (-mant if sign == '-' else mant, e)


def dec_str(m, e):
    """human-readable form of mantissa*10^e"""
    s = str(abs(m)); sign = '-' if m < 0 else ''
    if e >= 0: return sign + s + '0' * e
    if len(s) <= -e: s = '0' * (-e - len(s) + 1) + s
    return sign + s[:e] + '.' + s[e:]


def chunks(lst, n=CHUNK):
    return [lst[i:i + n] for i in range(0, len(lst), n)] or [[]]


def emit_table(L, name, ty, items, render, doc=None):
    """`def name_k : List ty := [...]` for chunks, `def name : List ty := name_0 ++ …`"""
    ch = chunks(items)
    if doc: L.append('/-- %s -/' % doc)
    for i, c in enumerate(ch):
        L.append('def %s_%d : List %s := [%s]' % (name, i, ty, ', '.join(render(x) for x in c)))
    L.append('def %s : List %s := List.flatten [%s]' % (name, ty, ', '.join('%s_%d' % (name, i) for i in range(len(ch)))))
    L.append('')


def write_if_changed(path, txt):
    try:
        if open(path).read() == txt: return False
    except OSError:
        pass
    os.makedirs(os.path.dirname(path), exist_ok=True)
    tmp = path + '.tmp'
    open(tmp, 'w').write(txt)
    os.replace(tmp, path)
    return True


def lean_int(n):
    return str(n) if n >= 0 else '(%d)' % n
