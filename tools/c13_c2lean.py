#!/usr/bin/env python3
"""c13_c2lean: machine translation of the numeric functions of src/crystal_diffraction.c into Lean 4 (property C13).

usage: c13_c2lean.py <repo> <outdir (lean-c13/XrlC13/Gen)> [<dir with config.h> [<dir for gen_meta.json>]]
   -> <outdir>/Crystal.lean          one `def` per translated C function, namespace Xrl.C13.Gen
      gen_meta.json (in <outdir> unless a directory is given)         {translated: {fn: {line, sha, params}}, failed: {fn: reason}}
   stdout: one line `UNSUPPORTED crystal_diffraction.c:<line> <fn>: <why>` per function that is outside the accepted subset
   exit 0: every function of WANTED translated; 3: some are not (a broken tie, never skipped silently)

The statement/expression core is tools/c2lean.py (same shape of terms: `let x ← …`, `if/else`, `pure`, `loopM/loopCtlM`, checked
`ddiv/dsqrt/dasin`, `chkI`); this file adds what the crystal code needs and the numeric API does not have:

  * `Crystal_Struct *` parameters and locals are `Option (Crystal α)`; `p->a … p->volume`, `p->n_atom`, `p->atom[i].Zatom …` go
    through `derefC` / `rdAtom` (NULL pointer, subscript outside 0..n_atom-1: outcome `ub`).  Nothing is ever stored through
    such a pointer (a store is UNSUPPORTED), so a crystal is a value;
  * stack arrays written by index (`double f_re[120]`, `int f_is_computed[120] = {0}`) are `LArr` values, reads `rdL` (a read of
    an element never written is `ub`), stores `wrL`;
  * `xrlComplex z = {0, 0}`;
  * the elemental functions FF_Rayl / Fi / Fii are the parameter `P : Elem α` (their behaviour is the subject of C02/C03);
  * conditions with effects: `a || b`, `a && b` whose right operand assigns (`(p && ((*p = f(..) * d), tmp != NULL)) || …`),
    and the comma operator inside a condition; a pointer out-parameter used as a truth value;
  * `xrl_set_error(error, code, "… %d", int)`: the message is the format with the decimal text of the argument;
  * floating literals keep their SOURCE SPELLING (`3.1415926535897932384626433832795`, not the shortest round-trip text of the
    nearest double): over ℝ the generated constants are then literally those of include/xraylib.h, as in the hand model;
  * a function-`static` variable, a reference to a file-scope variable, recursion: UNSUPPORTED.
"""
import os, sys, json, re, subprocess, hashlib
HERE = os.path.dirname(os.path.abspath(__file__))
sys.path.insert(0, HERE)
import c2lean
from c2lean import (FnTranslator, Unsupported, Program, kind, qt, inner, strip, is_null, lean_id, lean_float, tuple_text,
                    tuple_unpack, indent, paren_block, result_layout, default_value, find_enum, callees_of_body, sccs, LEAN_TY,
                    ctype, const_int, loc_line)

CFILE = 'crystal_diffraction.c'
WANTED = ['c_abs', 'c_mul', 'Crystal_UnitCellVolume', 'Crystal_dSpacing', 'Bragg_angle', 'Q_scattering_amplitude', 'Atomic_Factors',
          'Crystal_F_H_StructureFactor_Partial', 'Crystal_F_H_StructureFactor']
ELEMENTAL = {'FF_Rayl': 'ff', 'Fi': 'fi', 'Fii': 'fii'}
CRYSTAL_DOUBLE = ('a', 'b', 'c', 'alpha', 'beta', 'gamma', 'volume')
ATOM_FIELDS = {'Zatom': 'int', 'fraction': 'double', 'x': 'double', 'y': 'double', 'z': 'double'}

# ------------------------------------------------------------------------------------------------
# source spelling of literals: clang's JSON prints `file` (and `line`) of a location only when it differs from the previous
# location printed, in document order; one ordered walk restores it

def annotate_files(ast):
    cur = [None, None]
    def walk(n):
        if isinstance(n, dict):
            if 'offset' in n:
                if 'file' in n: cur[0] = n['file']
                if 'line' in n: cur[1] = n['line']
                n['file_'] = cur[0]; n['line_'] = cur[1]
            for v in n.values(): walk(v)
        elif isinstance(n, list):
            for x in n: walk(x)
    sys.setrecursionlimit(20000)
    walk(ast)

_files = {}
def spelling(n):
    b = n.get('range', {}).get('begin', {})
    sp = b.get('spellingLoc', b)
    f, off, ln = sp.get('file_'), sp.get('offset'), sp.get('tokLen')
    if f is None or off is None or ln is None: return None
    try:
        if f not in _files: _files[f] = open(f, 'rb').read()
        return _files[f][off:off + ln].decode('ascii')
    except (OSError, UnicodeDecodeError):
        return None

def lean_float_spelled(n):
    """FloatingLiteral -> Lean scientific literal with the digits of the source text (decimal literals only)"""
    s = spelling(n)
    m = re.fullmatch(r'(\d*)(?:\.(\d*))?(?:[eE]([+-]?\d+))?[fFlL]?', s or '')
    if not m or not ((m.group(1) or '') + (m.group(2) or '')) or ('.' not in s and m.group(3) is None):
        return lean_float(n['value'])
    try:
        if float(s.rstrip('fFlL')) != float(n['value']): return lean_float(n['value'])
    except ValueError:
        return lean_float(n['value'])
    ip = m.group(1) or '0'; fp = m.group(2) or '0'
    t = '%s.%s' % (ip, fp) + ('e%d' % int(m.group(3)) if m.group(3) is not None else '')
    return '(%s : α)' % t

# ------------------------------------------------------------------------------------------------

class CrystalTranslator(FnTranslator):
    def __init__(self, tu, fn, opts):
        super().__init__(tu, fn, opts)
        self.usesP = False
        self.needsP = opts.get('needsP', {})       # callee name -> bool

    # ---- expressions ---------------------------------------------------------------------------------------------------
    def expr(self, n):
        k = kind(n)
        if k == 'FloatingLiteral':
            return [], lean_float_spelled(n), 'double'
        if k == 'DeclRefExpr' and n['referencedDecl'].get('kind') == 'VarDecl':
            nm = n['referencedDecl']['name']
            if self.vtype(nm) is None:
                raise Unsupported('reference to the file-scope / static variable %s' % nm)
            if str(self.vtype(nm)).startswith('larr:'):
                raise Unsupported('array %s used as a value' % nm)
        return super().expr(n)

    def member(self, n):
        fld = n['name']
        base = n['inner'][0]
        b0 = strip(base)
        if n.get('isArrow'):
            pre, b, tb = self.expr(base)
            if tb == 'crystal':
                if fld in CRYSTAL_DOUBLE or fld == 'n_atom':
                    v = self.fresh('c')
                    pre = pre + ['let %s ← derefC "%s->%s" %s' % (v, b, fld, b)]
                    if fld == 'n_atom': return pre, '(Int.ofNat %s.atoms.length)' % v, 'int'
                    return pre, '%s.%s' % (v, fld), 'double'
                raise Unsupported('member ->%s of a crystal used as a value' % fld)
            raise Unsupported('member ->%s of %s' % (fld, tb))
        if kind(b0) == 'ArraySubscriptExpr':
            arr = strip(b0['inner'][0]); idx = b0['inner'][1]
            if kind(arr) == 'MemberExpr' and arr.get('name') == 'atom' and arr.get('isArrow'):
                pre, b, tb = self.expr(arr['inner'][0])
                if tb != 'crystal': raise Unsupported('->atom of %s' % tb)
                if fld not in ATOM_FIELDS: raise Unsupported('atom field %s' % fld)
                pi, it, ity = self.expr(idx)
                if ity != 'int': raise Unsupported('non-int atom index')
                c = self.fresh('c'); a = self.fresh('at')
                pre = pre + pi + ['let %s ← derefC "%s->atom" %s' % (c, b, b), 'let %s ← rdAtom %s %s' % (a, c, it)]
                return pre, '%s.%s' % (a, fld), ATOM_FIELDS[fld]
        return super().member(n)

    def local_array(self, n):
        """ArraySubscriptExpr on a stack array of this function -> (name, n, elem, index node) or None"""
        n0 = strip(n)
        if kind(n0) != 'ArraySubscriptExpr': return None
        b = strip(n0['inner'][0])
        if kind(b) == 'DeclRefExpr':
            ty = self.locals.get(b['referencedDecl']['name'])
            if ty and ty.startswith('larr:'):
                _, elem, cnt = ty.split(':')
                return b['referencedDecl']['name'], int(cnt), elem, n0['inner'][1]
        return None

    def subscript(self, n):
        la = self.local_array(n)
        if la:
            name, cnt, elem, idx = la
            pi, it, ity = self.expr(idx)
            if ity != 'int': raise Unsupported('non-int index')
            v = self.fresh('a')
            return pi + ['let %s ← rdL "%s" %s %s' % (v, name, lean_id(name), it)], v, elem
        return super().subscript(n)

    # ---- calls -----------------------------------------------------------------------------------------------------------
    def err_arg(self, a):
        """-> (mode, lean text) for an `xrl_error **` argument"""
        if is_null(a): return 'null', 'Slot.null'
        a0 = strip(a)
        if kind(a0) == 'DeclRefExpr' and self.vtype(a0['referencedDecl']['name']) == 'errpp': return 'thread', 'error'
        if kind(a0) == 'UnaryOperator' and a0['opcode'] == '&':
            t = strip(a0['inner'][0])
            if kind(t) == 'DeclRefExpr' and self.vtype(t['referencedDecl']['name']) == 'errp':
                return 'local:' + t['referencedDecl']['name'], lean_id(t['referencedDecl']['name'])
        raise Unsupported('error argument')

    def call(self, n, want_value):
        callee = strip(n['inner'][0])
        args = n['inner'][1:]
        if kind(callee) != 'DeclRefExpr': raise Unsupported('indirect call')
        fname = callee['referencedDecl']['name']
        if fname in c2lean.LIBM1 or fname in c2lean.LIBM1_CHK or fname == 'pow':
            return super().call(n, want_value)
        if fname in ELEMENTAL:
            # double f(int Z, double x, xrl_error **error): a field of the parameter P
            if len(args) != 3: raise Unsupported('arity of %s' % fname)
            pz, z, tz = self.expr(args[0]); px, x, tx = self.expr(args[1])
            if tz != 'int' or tx != 'double': raise Unsupported('argument types of %s' % fname)
            mode, sl = self.err_arg(args[2])
            self.usesP = True
            r = self.fresh('r')
            pre = pz + px + ['let %s ← P.%s %s %s %s' % (r, ELEMENTAL[fname], z, x, sl)]
            if mode == 'thread': pre.append('let error := %s.2' % r)
            elif mode.startswith('local:'): pre.append('let %s := %s.2' % (lean_id(mode[6:]), r))
            return pre, '%s.1' % r, 'double'
        fi = self.tu.prog.funcs.get(fname)
        if fi is None or fname not in self.opts['translated']:
            raise Unsupported('call to %s, which is not translated' % fname)
        if fname in self.recursive: raise Unsupported('recursion')
        self.calls.add(fname)
        pre = []; largs = []; err_mode = None; outs = []
        if len(args) != len(fi['params']): raise Unsupported('arity of %s' % fname)
        for a, (pn, pt) in zip(args, fi['params']):
            if pt == 'errpp':
                err_mode, t = self.err_arg(a); largs.append(t)
            elif pt in ('doublep', 'complexp'):
                if is_null(a):
                    outs.append(None); largs.append('false')
                else:
                    a0 = strip(a)
                    if kind(a0) == 'UnaryOperator' and a0['opcode'] == '&' and kind(strip(a0['inner'][0])) == 'DeclRefExpr':
                        tn = strip(a0['inner'][0])['referencedDecl']['name']
                        if self.vtype(tn) not in ('double', 'complex'): raise Unsupported('out argument &%s' % tn)
                        outs.append(tn); largs.append('true')
                    elif kind(a0) == 'DeclRefExpr' and a0['referencedDecl']['name'] in self.outparams:
                        outs.append('@' + a0['referencedDecl']['name']); largs.append('%s_want' % lean_id(a0['referencedDecl']['name']))
                    else:
                        raise Unsupported('out argument')
            else:
                p, t, ty = self.expr(a)
                if ty != pt:
                    t = self.coerce(t, ty, pt)
                pre += p; largs.append(t)
        if self.needsP.get(fname):
            largs.insert(0, 'P'); self.usesP = True
        r = self.fresh('r')
        pre.append('let %s ← %s %s' % (r, lean_id(fname), ' '.join(largs)))
        proj = result_layout(fi)
        val = '%s%s' % (r, proj['val']) if 'val' in proj else None
        for o, pj in zip(outs, proj['outs']):
            if o is None: continue
            if o.startswith('@'):
                # the callee stores through the caller's own out-parameter only when that pointer is non-NULL
                nm = lean_id(o[1:])
                pre.append('let %s_out := (if %s_want = true then %s%s else %s_out)' % (nm, nm, r, pj, nm))
            else:
                pre.append('let %s := %s%s' % (lean_id(o), r, pj))
        if err_mode == 'thread': pre.append('let error := %s%s' % (r, proj['slot']))
        elif err_mode and err_mode.startswith('local:'): pre.append('let %s := %s%s' % (lean_id(err_mode[6:]), r, proj['slot']))
        return pre, val, fi['ret']

    # ---- conditions --------------------------------------------------------------------------------------------------------
    def cond(self, n):
        if kind(n) == 'XCaseCond': return super().cond(n)
        n0 = strip(n)
        k = kind(n0)
        if k == 'BinaryOperator' and n0['opcode'] in ('||', '&&'):
            pa, a = self.cond(n0['inner'][0])
            pb, b = self.cond(n0['inner'][1])
            sym = '∨' if n0['opcode'] == '||' else '∧'
            if not pb: return pa, '(%s %s %s)' % (a, sym, b)
            jv = sorted(self.assigned(n0['inner'][1]))
            c = self.fresh('c')
            if not jv:
                if n0['opcode'] == '||': line = 'let %s ← (if %s then pure true else (%s))' % (c, a, paren_block(pb, 'pure (decide %s)' % b))
                else: line = 'let %s ← (if %s then (%s) else pure false)' % (c, a, paren_block(pb, 'pure (decide %s)' % b))
                return pa + [line], '(%s = true)' % c
            # the right operand rebinds variables: they are part of what the short-circuit evaluation returns
            skip = 'pure %s' % tuple_text([('true' if n0['opcode'] == '||' else 'false')] + jv)
            run = ['(do'] + indent(pb + ['pure %s' % tuple_text(['decide %s' % b] + jv)], 4) + ['  )']
            if n0['opcode'] == '||': lines = ['let %s ← (if %s then %s else' % (c, a, skip)] + indent(run) + ['  )']
            else: lines = ['let %s ← (if %s then' % (c, a)] + indent(run) + ['  else %s)' % skip]
            return pa + lines + tuple_unpack(c, ['%s_b' % c] + jv), '(%s_b = true)' % c
        if k == 'BinaryOperator' and n0['opcode'] == ',':
            pre = self.simple(strip(n0['inner'][0], casts=False))
            pb, b = self.cond(n0['inner'][1])
            return pre + pb, b
        if k == 'DeclRefExpr' and self.vtype(n0['referencedDecl']['name']) in ('doublep', 'complexp'):
            return [], '(%s_want = true)' % lean_id(n0['referencedDecl']['name'])
        return super().cond(n)

    # ---- statements ----------------------------------------------------------------------------------------------------------
    def assigned(self, s, acc=None):
        if acc is None: acc = set()
        if kind(s) in ('BinaryOperator', 'CompoundAssignOperator') and (s.get('opcode') == '=' or kind(s) == 'CompoundAssignOperator'):
            la = self.local_array(s['inner'][0])
            if la: acc.add(lean_id(la[0]))
        return super().assigned(s, acc)

    def decl(self, s):
        out = []
        for v in inner(s):
            if kind(v) == 'VarDecl' and v.get('storageClass') in ('static', 'extern'):
                raise Unsupported('function-%s variable %s (state kept between calls)' % (v.get('storageClass'), v['name']))
        for v in inner(s):
            if kind(v) != 'VarDecl': raise Unsupported('declaration of a %s inside the function' % kind(v))
            q = qt(v); ty = ctype(q); nm = v['name']
            init = [c for c in inner(v) if kind(c) is not None and 'Attr' not in kind(c)]
            m = re.fullmatch(r'(double|int)\s*\[(\d+)\]', q)
            if m:
                elem, cnt = m.group(1), int(m.group(2))
                self.locals[nm] = 'larr:%s:%d' % (elem, cnt)
                lty = 'α' if elem == 'double' else 'Int'
                if not init:
                    out.append('let %s : LArr %s := LArr.uninit %d' % (lean_id(nm), lty, cnt))
                else:
                    il = init[0]
                    if kind(il) != 'InitListExpr': raise Unsupported('array initialiser')
                    elems = inner(il) + [e for e in il.get('array_filler', []) if kind(e) != 'ImplicitValueInitExpr']
                    for e in elems:
                        e0 = strip(e)
                        while kind(e0) in ('ImplicitCastExpr',): e0 = strip(e0['inner'][0])
                        if not (kind(e0) in ('IntegerLiteral', 'FloatingLiteral') and float(e0['value']) == 0.0):
                            raise Unsupported('array initialiser other than zeros')
                    out.append('let %s : LArr %s := LArr.const %d %s' % (lean_id(nm), lty, cnt, '(0.0 : α)' if elem == 'double' else '(0 : Int)'))
                continue
            if ty.startswith('other:'): raise Unsupported('local of type %s' % q)
            self.locals[nm] = ty
            if ty == 'complex':
                if not init: out.append('let %s := %s' % (lean_id(nm), default_value('complex'))); continue
                il = init[0]
                if kind(il) == 'InitListExpr' and len(inner(il)) == 2:
                    pr, re_, t1 = self.expr(inner(il)[0]); pi, im_, t2 = self.expr(inner(il)[1])
                    out += pr + pi + ['let %s := (%s, %s)' % (lean_id(nm), self.coerce(re_, t1, 'double'), self.coerce(im_, t2, 'double'))]
                    continue
                pre, t, ety = self.expr(il)
                if ety != 'complex': raise Unsupported('complex initialiser')
                out += pre + ['let %s := %s' % (lean_id(nm), t)]; continue
            if ty == 'crystal':
                if not init: out.append('let %s : Option (Crystal α) := none' % lean_id(nm)); continue
                pre, t, ety = self.expr(init[0])
                if ety != 'crystal': raise Unsupported('crystal pointer initialiser')
                out += pre + ['let %s := %s' % (lean_id(nm), t)]; continue
            if ty == 'errp':
                if init and not is_null(init[0]): raise Unsupported('errp init')
                out.append('let %s := Slot.empty' % lean_id(nm)); continue
            if ty not in ('int', 'double'): raise Unsupported('local of type %s' % q)
            if init:
                pre, t, ety = self.expr(init[0])
                out += pre + ['let %s := %s' % (lean_id(nm), self.coerce(t, ety, ty))]
            else:
                out.append('let %s := %s' % (lean_id(nm), default_value(ty)))
        return out

    def block(self, stmts, k):
        if stmts and kind(stmts[0]) == 'DeclStmt':
            return self.decl(stmts[0]) + self.block(stmts[1:], k)
        return super().block(stmts, k)

    def simple(self, s):
        kd = kind(s)
        if kd == 'CallExpr':
            callee = strip(s['inner'][0]); fname = callee.get('referencedDecl', {}).get('name'); args = s['inner'][1:]
            if fname == 'xrl_set_error' and len(args) > 3:
                code = int(find_enum(args[1], self.tu))
                m = strip(args[2])
                if kind(m) != 'StringLiteral': raise Unsupported('non-literal error message')
                fmt = json.loads(m['value'])
                parts = fmt.split('%d')
                if '%' in ''.join(parts) or len(parts) != len(args) - 2: raise Unsupported('format %r' % fmt)
                pre = []; txt = [json.dumps(parts[0])]
                for a, rest in zip(args[3:], parts[1:]):
                    p, t, ty = self.expr(a)
                    if ty != 'int': raise Unsupported('format argument of type %s' % ty)
                    pre += p; txt.append('toString %s' % t)
                    if rest: txt.append(json.dumps(rest))
                tgt = strip(args[0])
                if kind(tgt) == 'DeclRefExpr' and self.vtype(tgt['referencedDecl']['name']) == 'errpp':
                    return pre + ['let error ← setErr error %d (%s)' % (code, ' ++ '.join(txt))]
                raise Unsupported('set_error target')
            if fname == 'xrl_propagate_error':
                tgt = strip(args[0])
                if not (kind(tgt) == 'DeclRefExpr' and self.vtype(tgt['referencedDecl']['name']) == 'errpp'): raise Unsupported('propagate target')
                src = strip(args[1])
                if not (kind(src) == 'DeclRefExpr' and self.vtype(src['referencedDecl']['name']) == 'errp'): raise Unsupported('propagate source')
        if kd == 'BinaryOperator' and s.get('opcode') == '=':
            la = self.local_array(s['inner'][0])
            if la:
                name, cnt, elem, idx = la
                pi, it, ity = self.expr(idx)
                if ity != 'int': raise Unsupported('non-int index')
                pre, t, ty = self.expr(s['inner'][1])
                t = self.coerce(t, ty, elem)
                return pi + pre + ['let %s ← wrL "%s" %s %s %s' % (lean_id(name), name, lean_id(name), it, t)]
            lhs = strip(s['inner'][0])
            if kind(lhs) == 'MemberExpr' and lhs.get('isArrow'):
                raise Unsupported('store through a pointer (->%s)' % lhs.get('name'))
        if kd == 'CompoundAssignOperator' and self.local_array(s['inner'][0]):
            raise Unsupported('compound assignment to an array element')
        return super().simple(s)

    def translate(self):
        body = [c for c in inner(self.fn) if kind(c) == 'CompoundStmt'][0]
        ps = []
        for p in self.params:
            t = self.ptypes[p['name']]
            if t == 'errpp': continue
            if t in ('doublep', 'complexp'):
                ps.append('(%s_want : Bool)' % lean_id(p['name'])); continue
            if t not in LEAN_TY or t in ('errp', 'str'): raise Unsupported('parameter type %s' % qt(p))
            ps.append('(%s : %s)' % (lean_id(p['name']), LEAN_TY[t]))
        if self.has_error: ps.append('(error : Slot)')
        pre = []
        for o in self.outparams:
            pre.append('let %s := %s' % (lean_id(o + '_out'), default_value('double' if self.ptypes[o] == 'doublep' else 'complex')))
        k = self.ret_lines([], None) if self.ret == 'void' else None
        lines = pre + self.block(inner(body), k)
        if self.usesP: ps.insert(0, '(P : Elem α)')
        return ps, self.result_type(), lines

# ------------------------------------------------------------------------------------------------

HEADER = '''/- GENERATED by tools/c13_c2lean.py from src/crystal_diffraction.c of the working tree — do not edit. -/
import XrlC13.Core.Types

set_option linter.unusedVariables false
set_option maxRecDepth 4096
namespace Xrl
namespace C13
namespace Gen

variable {α : Type} [Add α] [Sub α] [Mul α] [Div α] [Neg α] [LT α] [LE α] [OfScientific α]
  [DecidableLT α] [DecidableLE α] [XNum α]

'''

def fn_sha(repo, node):
    try:
        b = node['range']['begin']; e = node['range']['end']
        bo = b.get('offset', b.get('expansionLoc', {}).get('offset')); eo = e.get('offset', e.get('expansionLoc', {}).get('offset'))
        return hashlib.sha256(open(os.path.join(repo, 'src', CFILE), 'rb').read()[bo:eo + 1]).hexdigest()[:16]
    except Exception:
        return None

def write_if_changed(path, text):
    os.makedirs(os.path.dirname(path), exist_ok=True)
    try:
        if open(path).read() == text: return False
    except OSError:
        pass
    with open(path, 'w') as f: f.write(text)
    return True

def generate(repo, outdir, bdir=None, metadir=None):
    import tempfile
    tmp = None
    if bdir is None or not os.path.exists(os.path.join(bdir, 'config.h')):
        sys.path.insert(0, os.path.dirname(HERE))
        from vlib import cbuild
        tmp = tempfile.mkdtemp(prefix='c13gen.'); bdir = tmp
        v = cbuild.project_version(repo)
        open(os.path.join(bdir, 'config.h'), 'w').write(cbuild.CONFIG_H % (v, v))
    flags = ['-DHAVE_CONFIG_H', '-D_GNU_SOURCE', '-DXRAYLIB_VERIF', '-I' + bdir, '-I' + repo, '-I' + os.path.join(repo, 'src'), '-I' + os.path.join(repo, 'include')]
    src = os.path.join(repo, 'src', CFILE)
    p = subprocess.run(['clang-14'] + flags + ['-Xclang', '-ast-dump=json', '-fsyntax-only', src], capture_output=True, text=True)
    if tmp:
        import shutil; shutil.rmtree(tmp, ignore_errors=True)
    failed = {}; done = {}; lines_of = {}
    if p.returncode != 0:
        for f in WANTED: failed[f] = 'clang failed: ' + p.stderr[-300:].replace('\n', ' ')
        ast = None
    else:
        ast = json.loads(p.stdout)
        annotate_files(ast)
        prog = Program(repo, flags)
        tu = prog.load_json(CFILE, ast)
        names = [f for f in WANTED if f in prog.fn_nodes]
        for f in WANTED:
            if f not in prog.fn_nodes: failed[f] = 'no definition of this function in %s' % CFILE
        graph = {f: {c for c in callees_of_body(prog.fn_nodes[f][1], tu) if c in names} for f in names}
        needsP = {}
        for comp in sccs(graph):
            rec = set(comp) if len(comp) > 1 or comp[0] in graph[comp[0]] else set()
            for f in sorted(comp):
                tu_, node = prog.fn_nodes[f]
                tr = CrystalTranslator(tu_, node, {'recursive': rec, 'needsP': needsP, 'translated': set(done)})
                try:
                    if rec: raise Unsupported('recursion')
                    ps, rty, lines = tr.translate()
                    done[f] = dict(params=ps, rty=rty, lines=lines, calls=sorted(tr.calls), usesP=tr.usesP)
                    needsP[f] = tr.usesP
                except Unsupported as e:
                    failed[f] = str(e)
                except (KeyError, IndexError, TypeError, AttributeError, ValueError) as e:
                    failed[f] = 'translator error %r' % (e,)
                lc = prog.fn_nodes[f][1].get('loc', {}); lc = lc.get('expansionLoc', lc)
                lines_of[f] = lc.get('line_') or prog.funcs[f]['line']
        order = [f for comp in sccs(graph) for f in sorted(comp) if f in done]
    out = [HEADER]
    meta = dict(translated={}, failed=failed, source=os.path.join(repo, 'src', CFILE))
    if ast is not None:
        for f in order:
            d = done[f]
            out.append('/-- `%s` — src/%s:%s -/' % (f, CFILE, lines_of.get(f)))
            out.append('def %s %s : M (%s) := do' % (lean_id(f), ' '.join(d['params']), d['rty']))
            out += indent(d['lines']); out.append('')
            meta['translated'][f] = dict(line=lines_of.get(f), sha=fn_sha(repo, prog.fn_nodes[f][1]), params=d['params'], rty=d['rty'], calls=d['calls'], usesP=d['usesP'])
    out.append('end Gen\nend C13\nend Xrl\n')
    write_if_changed(os.path.join(outdir, 'Crystal.lean'), '\n'.join(out))
    with open(os.path.join(metadir or outdir, 'gen_meta.json'), 'w') as f: json.dump(meta, f, indent=1, sort_keys=True)
    msgs = ['UNSUPPORTED %s:%s %s: %s' % (CFILE, lines_of.get(f, '?'), f, failed[f]) for f in WANTED if f in failed]
    return meta, msgs

if __name__ == '__main__':
    repo = sys.argv[1]; outdir = sys.argv[2]; bdir = sys.argv[3] if len(sys.argv) > 3 else None
    meta, msgs = generate(repo, outdir, bdir, sys.argv[4] if len(sys.argv) > 4 else None)
    for m in msgs: print(m)
    print('c13_c2lean: %d functions translated, %d failed' % (len(meta['translated']), len(meta['failed'])), file=sys.stderr)
    sys.exit(3 if msgs else 0)
